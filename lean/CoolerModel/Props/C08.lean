import CoolerModel.Model.Coarsen
import CoolerModel.Props.GroupSumLemmas
import CoolerModel.Props.C04
import CoolerModel.Props.C07
/-!
# C08 — coarsening by k is exact block aggregation within each chromosome

Every statement is about the definitions of `Model/Coarsen.lean`, which the correspondence harness
executes against `cooler.coarsen_cooler`, `CoolerCoarsener` and `_greedy_prune_partition`.

The span partition (`_greedy_prune_partition`) is a free unit: `coarsen_eq_spec` holds for EVERY list
of edges satisfying `validPrunedEdges` (a strictly increasing chain of coarse-row boundaries from 0 to
`nnz`); `prune_contract` shows the modelled unit satisfies it.  No bound on the number of chromosomes,
bins, pixels, on `k ≥ 1` or on the chunk size anywhere.
-/
set_option linter.unusedSimpArgs false
set_option linter.unusedVariables false

namespace Cooler.C08
open Cooler Cooler.Coarsen Cooler.Merge

/-! ## arithmetic -/

theorem eq_of_forall_lt_iff {x y : Nat} (h : ∀ m, m < x ↔ m < y) : x = y := by
  have h1 := h x
  have h2 := h y
  omega

theorem ceilDiv_zero {k : Nat} (hk : 1 ≤ k) : ceilDiv 0 k = 0 := by
  unfold ceilDiv
  exact Nat.div_eq_of_lt (by omega)

/-- `⌈⌈n/a⌉/b⌉ = ⌈n/(a·b)⌉` -/
theorem ceilDiv_ceilDiv {a b : Nat} (ha : 1 ≤ a) (hb : 1 ≤ b) (n : Nat) :
    ceilDiv (ceilDiv n a) b = ceilDiv n (a * b) := by
  apply eq_of_forall_lt_iff
  intro m
  have hab : 1 ≤ a * b := Nat.mul_le_mul ha hb
  rw [C04.lt_ceilDiv_iff hb, C04.lt_ceilDiv_iff ha, C04.lt_ceilDiv_iff hab]
  have : m * b * a = m * (a * b) := by rw [Nat.mul_assoc, Nat.mul_comm b a]
  rw [this]

theorem div_lt_ceilDiv {k : Nat} (hk : 1 ≤ k) {x n : Nat} (h : x < n) : x / k < ceilDiv n k := by
  rw [C04.lt_ceilDiv_iff hk]
  have := Nat.div_mul_le_self x k
  omega

/-! ## the map old bin id ↦ new bin id -/

/-- **cmap_monotone**: a larger old id never gets a smaller new id (over any list of chromosome bin
counts) — this is what keeps re-binned spans in storage order -/
theorem cmapCounts_mono (k : Nat) (hk : 1 ≤ k) :
    ∀ (counts : List Nat) (x y : Nat), x ≤ y → cmapCounts k counts x ≤ cmapCounts k counts y := by
  intro counts
  induction counts with
  | nil => intro x y h; simpa [cmapCounts] using h
  | cons n rest ih =>
    intro x y hxy
    simp only [cmapCounts]
    by_cases hx : x < n
    · by_cases hy : y < n
      · simp only [hx, hy, if_true]; exact Nat.div_le_div_right hxy
      · simp only [hx, hy, if_true, if_false]
        have := div_lt_ceilDiv hk hx
        omega
    · have hy : ¬ y < n := by omega
      simp only [hx, hy, if_false]
      have := ih (x - n) (y - n) (by omega)
      omega

theorem cmap_monotone (k : Nat) (hk : 1 ≤ k) (gs : List (List Bin)) (x y : Nat) (h : x ≤ y) :
    cmapG k gs x ≤ cmapG k gs y := cmapCounts_mono k hk _ x y h

/-- the old ids at which a coarse row starts: `m·k` inside a chromosome, and the total -/
def EdgeRow (k : Nat) : List Nat → Nat → Prop
  | [], r => r = 0
  | n :: rest, r => (r < n ∧ r % k = 0) ∨ (n ≤ r ∧ EdgeRow k rest (r - n))

/-- **edge_boundary**: at an edge row `r` the coarse id jumps: every old id below `r` maps strictly below
`cmap r` (and, by monotonicity, every id `≥ r` maps to `≥ cmap r`) -/
theorem edge_boundary (k : Nat) (hk : 1 ≤ k) :
    ∀ (counts : List Nat) (r : Nat), EdgeRow k counts r →
      ∀ x, x < r → cmapCounts k counts x < cmapCounts k counts r := by
  intro counts
  induction counts with
  | nil => intro r hr x hx; simp only [EdgeRow] at hr; omega
  | cons n rest ih =>
    intro r hr x hx
    simp only [cmapCounts]
    rcases hr with ⟨h1, h2⟩ | ⟨h1, h2⟩
    · have hxn : x < n := by omega
      simp only [h1, hxn, if_true]
      rw [Nat.div_lt_iff_lt_mul (by omega), Nat.div_mul_cancel (Nat.dvd_of_mod_eq_zero h2)]
      exact hx
    · have hrn : ¬ r < n := by omega
      simp only [hrn, if_false]
      by_cases hxn : x < n
      · simp only [hxn, if_true]
        have := div_lt_ceilDiv hk hxn
        omega
      · simp only [hxn, if_false]
        have := ih (r - n) h2 (x - n) (by omega)
        omega

theorem edgeRow_total (k : Nat) : ∀ (counts : List Nat), EdgeRow k counts counts.sum := by
  intro counts
  induction counts with
  | nil => simp [EdgeRow]
  | cons n rest ih =>
    right
    refine ⟨by simp, ?_⟩
    have : (n :: rest).sum - n = rest.sum := by simp
    rw [this]; exact ih

/-- row `chrom_offset[i] + m·k` (with `m·k` inside chromosome `i`) is an edge row -/
theorem edgeRow_stride (k : Nat) (hk : 1 ≤ k) :
    ∀ (counts : List Nat) (i m : Nat) (hi : i < counts.length), m * k < counts[i] →
      EdgeRow k counts ((counts.take i).sum + m * k) := by
  intro counts
  induction counts with
  | nil => intro i m hi; simp at hi
  | cons n rest ih =>
    intro i m hi hm
    cases i with
    | zero =>
      left
      simp only [List.take_zero, List.sum_nil, Nat.zero_add, List.getElem_cons_zero] at hm ⊢
      exact ⟨hm, Nat.mul_mod_left m k⟩
    | succ i =>
      right
      simp only [List.take_succ_cons, List.sum_cons, List.getElem_cons_succ] at hm ⊢
      refine ⟨by omega, ?_⟩
      have : n + (rest.take i).sum + m * k - n = (rest.take i).sum + m * k := by omega
      rw [this]
      exact ih i m (by simpa using hi) hm

/-- new ids stay inside the new table -/
theorem cmapCounts_lt (k : Nat) (hk : 1 ≤ k) :
    ∀ (counts : List Nat) (x : Nat), x < counts.sum →
      cmapCounts k counts x < (counts.map (fun n => ceilDiv n k)).sum := by
  intro counts
  induction counts with
  | nil => intro x hx; simp at hx
  | cons n rest ih =>
    intro x hx
    simp only [cmapCounts, List.map_cons, List.sum_cons] at hx ⊢
    by_cases hxn : x < n
    · simp only [hxn, if_true]
      have := div_lt_ceilDiv hk hxn
      omega
    · simp only [hxn, if_false]
      have := ih (x - n) (by omega)
      omega

/-- **cmap_closed_form**: inside chromosome `c` the new id is
`newChromOffset c + (old − oldChromOffset c) / k` -/
theorem cmap_closed_form (k : Nat) :
    ∀ (counts : List Nat) (c t : Nat) (hc : c < counts.length), t < counts[c] →
      cmapCounts k counts ((counts.take c).sum + t)
        = ((counts.take c).map (fun n => ceilDiv n k)).sum + t / k := by
  intro counts
  induction counts with
  | nil => intro c t hc; simp at hc
  | cons n rest ih =>
    intro c t hc ht
    cases c with
    | zero => simp only [List.getElem_cons_zero] at ht; simp [cmapCounts, ht]
    | succ c =>
      simp only [List.getElem_cons_succ] at ht
      simp only [cmapCounts, List.take_succ_cons, List.sum_cons, List.map_cons]
      have h1 : ¬ n + (rest.take c).sum + t < n := by omega
      have h2 : n + (rest.take c).sum + t - n = (rest.take c).sum + t := by omega
      simp only [h1, if_false, h2]
      rw [ih c t (by simpa using hc) ht]
      omega

/-! ## prefix sums, the index -/

theorem prefixSumsFrom_length : ∀ (l : List Nat) (acc : Nat), (prefixSumsFrom acc l).length = l.length + 1 := by
  intro l
  induction l with
  | nil => intro _; rfl
  | cons x rest ih => intro acc; simp [prefixSumsFrom, ih]

theorem prefixSumsFrom_getD : ∀ (l : List Nat) (acc c : Nat), c ≤ l.length →
    (prefixSumsFrom acc l).getD c 0 = acc + (l.take c).sum := by
  intro l
  induction l with
  | nil => intro acc c hc; have : c = 0 := by simpa using hc
           subst this; simp [prefixSumsFrom]
  | cons x rest ih =>
    intro acc c hc
    cases c with
    | zero => simp [prefixSumsFrom]
    | succ c =>
      simp only [prefixSumsFrom, List.getD_cons_succ, List.take_succ_cons, List.sum_cons]
      rw [ih (acc + x) c (by simpa using hc)]
      omega

theorem prefixSums_getD (l : List Nat) (c : Nat) (hc : c ≤ l.length) :
    (prefixSums l).getD c 0 = (l.take c).sum := by
  unfold prefixSums; rw [prefixSumsFrom_getD l 0 c hc]; omega

theorem sum_take_le (l : List Nat) (c : Nat) : (l.take c).sum ≤ l.sum := by
  have := List.sum_append (l₁ := l.take c) (l₂ := l.drop c)
  rw [List.take_append_drop] at this
  omega

theorem sum_take_succ (l : List Nat) (c : Nat) (hc : c < l.length) :
    (l.take (c + 1)).sum = (l.take c).sum + l[c] := by
  rw [List.take_add_one, List.sum_append]
  simp [List.getElem?_eq_getElem hc]

theorem csrIndex_getD (px : Pixels) (n r : Nat) (hr : r ≤ n) : (csrIndex px n).getD r 0 = off px r := by
  have := offsOK_csrIndex px n r hr
  simpa [offAt] using this

theorem csrIndex_length (px : Pixels) (n : Nat) : (csrIndex px n).length = n + 1 := by simp [csrIndex]

theorem csrIndex_getLast (px : Pixels) (n : Nat) : (csrIndex px n).getLast?.getD 0 = off px n := by
  rw [List.getLast?_eq_getElem?, csrIndex_length]
  have : n + 1 - 1 = n := by omega
  rw [this, ← List.getD_eq_getElem?_getD]
  exact csrIndex_getD px n n (Nat.le_refl _)

theorem coarsenEdges_getLast (k : Nat) (co b1 : List Nat) :
    (coarsenEdges k co b1).getLast?.getD 0 = b1.getLast?.getD 0 := by
  unfold coarsenEdges
  simp [List.getLast?_append]

/-- every span edge the coarsener computes is the row pointer of an edge row -/
theorem mem_coarsenEdges (k : Nat) (hk : 1 ≤ k) (counts : List Nat) (px : Pixels) (e : Nat)
    (he : e ∈ coarsenEdges k (prefixSums counts) (csrIndex px counts.sum)) :
    ∃ r, r ≤ counts.sum ∧ EdgeRow k counts r ∧ e = off px r := by
  unfold coarsenEdges at he
  rcases List.mem_append.mp he with h | h
  · simp only [List.mem_flatMap, List.mem_range, List.mem_map] at h
    obtain ⟨i, hi, m, hm, rfl⟩ := h
    have hlen : (prefixSums counts).length = counts.length + 1 := prefixSumsFrom_length counts 0
    rw [hlen] at hi
    have hi' : i < counts.length := by omega
    rw [prefixSums_getD counts i (by omega), prefixSums_getD counts (i + 1) (by omega)] at hm
    rw [prefixSums_getD counts i (by omega)]
    rw [C04.lt_ceilDiv_iff hk, sum_take_succ counts i hi', csrIndex_length] at hm
    have hle := sum_take_le counts (i + 1)
    rw [sum_take_succ counts i hi'] at hle
    have hmk : m * k < counts[i] := by omega
    refine ⟨(counts.take i).sum + m * k, by omega, edgeRow_stride k hk counts i m hi' hmk, ?_⟩
    exact csrIndex_getD px _ _ (by omega)
  · simp only [List.mem_singleton] at h
    subst h
    exact ⟨counts.sum, Nat.le_refl _, edgeRow_total k counts, csrIndex_getLast px _⟩

/-! ## the stream over a chain of edge rows -/

/-- `f` jumps at `r`: every id below `r` maps strictly below `f r` -/
def Boundary (f : Nat → Nat) (r : Nat) : Prop := ∀ x, x < r → f x < f r

/-- the chunk stream over row boundaries `a < b₁ < b₂ < …` -/
def aggFrom (f : Nat → Nat) (px : Pixels) : Nat → List Nat → List Pixels
  | _, [] => []
  | a, b :: rest => groupSum ((rowsSlice px a b).map (rekey f)) :: aggFrom f px b rest

theorem mem_rowsSlice (px : Pixels) (hs : RowSorted px) (a b : Nat) (hab : a ≤ b) (p : Px)
    (hp : p ∈ rowsSlice px a b) : p ∈ px ∧ a ≤ p.i ∧ p.i < b := by
  rw [rowsSlice_eq_filter px hs a b hab] at hp
  have := List.mem_filter.mp hp
  exact ⟨this.1, by simpa using this.2⟩

theorem rowsSlice_self (px : Pixels) (a : Nat) : rowsSlice px a a = [] := by
  unfold rowsSlice slicePx; simp

theorem sumAt_map_append (f : Nat → Nat) (a b : Pixels) (i j : Nat) :
    sumAt ((a ++ b).map (rekey f)) i j = sumAt (a.map (rekey f)) i j + sumAt (b.map (rekey f)) i j := by
  rw [List.map_append, sumAt_append]

theorem hasKey_map_append (f : Nat → Nat) (a b : Pixels) (i j : Nat) :
    hasKey ((a ++ b).map (rekey f)) i j ↔ hasKey (a.map (rekey f)) i j ∨ hasKey (b.map (rekey f)) i j := by
  rw [List.map_append, hasKey_append]

/-- the stream over a chain of boundaries: strictly sorted, rows inside the chain's coarse range, and
the key set and per-key totals of all the re-keyed records of the row range (template: `C07.mergerFrom_spec`) -/
theorem aggFrom_spec (f : Nat → Nat) (hmono : ∀ x y, x ≤ y → f x ≤ f y) (px : Pixels) (hs : RowSorted px) :
    ∀ (bs : List Nat) (a : Nat), chainIncr a bs = true → (∀ r ∈ bs, Boundary f r) →
      let e := (a :: bs).getLast?.getD 0
      let out := (aggFrom f px a bs).flatten
      StrictSorted out ∧ (∀ p ∈ out, f a ≤ p.i ∧ p.i < f e) ∧
        (∀ i j, sumAt out i j = sumAt ((rowsSlice px a e).map (rekey f)) i j) ∧
        (∀ i j, hasKey out i j ↔ hasKey ((rowsSlice px a e).map (rekey f)) i j) := by
  intro bs
  induction bs with
  | nil =>
    intro a _ _
    simp only [aggFrom, List.flatten_nil, List.getLast?_singleton, Option.getD_some, rowsSlice_self,
      List.map_nil]
    refine ⟨by simp [StrictSorted], by simp, fun _ _ => trivial, fun _ _ => trivial⟩
  | cons b rest ih =>
    intro a h hb
    simp only [chainIncr, Bool.and_eq_true, decide_eq_true_eq] at h
    obtain ⟨hab, hrest⟩ := h
    have hbe := C07.chainIncr_last_ge rest b hrest
    obtain ⟨ih1, ih2, ih3, ih4⟩ := ih b hrest (fun r hr => hb r (List.mem_cons_of_mem _ hr))
    have hbb : Boundary f b := hb b (by simp)
    simp only [List.getLast?_cons_cons] at *
    simp only [aggFrom, List.flatten_cons]
    have hrows1 : ∀ p ∈ groupSum ((rowsSlice px a b).map (rekey f)), f a ≤ p.i ∧ p.i < f b := by
      intro p hp
      obtain ⟨q, hq, hqi, _⟩ := C07.mem_groupSum_row _ p hp
      obtain ⟨q0, hq0, rfl⟩ := List.mem_map.mp hq
      obtain ⟨_, h1, h2⟩ := mem_rowsSlice px hs a b (by omega) q0 hq0
      simp only [rekey] at hqi
      have := hmono a q0.i h1
      have := hbb q0.i h2
      omega
    have hfbe := hmono b _ hbe
    refine ⟨?_, ?_, ?_, ?_⟩
    · unfold StrictSorted
      rw [List.pairwise_append]
      refine ⟨groupSum_sorted _, ih1, ?_⟩
      intro p hp q hq
      have h1 := hrows1 p hp
      have h2 := ih2 q hq
      unfold keyLt; omega
    · intro p hp
      rcases List.mem_append.mp hp with h1 | h1
      · have := hrows1 p h1; omega
      · have := ih2 p h1
        have := hmono a b (by omega)
        omega
    · intro i j
      rw [sumAt_append, sumAt_groupSum, ih3, ← sumAt_map_append, rowsSlice_append px (by omega) hbe]
    · intro i j
      rw [hasKey_append, hasKey_groupSum, ih4, ← hasKey_map_append, rowsSlice_append px (Nat.le_of_lt hab) hbe]

/-- the stream over offsets `es = rs.map (off px)` is the stream over the rows `rs` -/
theorem stream_eq_aggFrom (f : Nat → Nat) (px : Pixels) :
    ∀ (bs : List Nat) (a : Nat),
      coarsenStream f px ((a :: bs).map (off px)) = aggFrom f px a bs := by
  intro bs
  induction bs with
  | nil => intro a; simp [coarsenStream, spansOf, aggFrom]
  | cons b rest ih =>
    intro a
    have := ih b
    simp only [coarsenStream, spansOf, List.map_cons, List.tail_cons, List.zip_cons_cons, aggFrom] at this ⊢
    rw [this]
    rfl

theorem off_lt_imp_lt (px : Pixels) {a b : Nat} (h : off px a < off px b) : a < b := by
  apply Nat.lt_of_not_le
  intro hba
  have := off_mono px hba
  omega

/-- lift a chain of edges (values) to a chain of edge rows -/
theorem lift_chain (px : Pixels) (P : Nat → Prop) :
    ∀ (es : List Nat) (e0 : Nat), chainIncr e0 es = true →
      (∀ e ∈ e0 :: es, ∃ r, P r ∧ e = off px r) →
      ∃ (r0 : Nat) (rs : List Nat), e0 :: es = (r0 :: rs).map (off px) ∧ chainIncr r0 rs = true ∧
        ∀ r ∈ r0 :: rs, P r := by
  intro es
  induction es with
  | nil =>
    intro e0 _ h
    obtain ⟨r, hr, he⟩ := h e0 (by simp)
    exact ⟨r, [], by simp [he], rfl, by simpa using hr⟩
  | cons e1 rest ih =>
    intro e0 hc h
    simp only [chainIncr, Bool.and_eq_true, decide_eq_true_eq] at hc
    obtain ⟨r1, rs, heq, hch, hP⟩ := ih e1 hc.2 (fun e he => h e (List.mem_cons_of_mem _ he))
    obtain ⟨r0, hr0, he0⟩ := h e0 (by simp)
    refine ⟨r0, r1 :: rs, ?_, ?_, ?_⟩
    · rw [List.map_cons, ← heq, he0]
    · simp only [chainIncr, Bool.and_eq_true, decide_eq_true_eq]
      refine ⟨?_, hch⟩
      have h1 : e1 = off px r1 := by
        have := congrArg List.head? heq
        simpa using this
      apply off_lt_imp_lt px
      rw [← he0, ← h1]; exact hc.1
    · intro r hr
      rcases List.mem_cons.mp hr with rfl | hr
      · exact hr0
      · exact hP r hr

theorem off_eq_length (px : Pixels) (n : Nat) (hr : InRange n px) : off px n = px.length := by
  unfold off
  rw [List.countP_eq_length]
  intro p hp
  simpa using (hr p hp).1

theorem getLast_map_off (px : Pixels) (r0 : Nat) (rs : List Nat) :
    ((r0 :: rs).map (off px)).getLast?.getD 0 = off px ((r0 :: rs).getLast?.getD 0) := by
  rw [List.getLast?_map]
  cases h : (r0 :: rs).getLast? with
  | none => simp at h
  | some x => simp

/-- **coarsen_eq_spec** (core form, over the chromosome bin counts): for a strictly sorted in-range pixel
table, ANY re-binning function that agrees with `cmap` on the table's ids, and ANY span edges satisfying
the contract, the chunk stream concatenates to the L0 aggregate, in storage order. -/
theorem coarsen_eq_spec_counts (k : Nat) (hk : 1 ≤ k) (counts : List Nat) (px : Pixels)
    (hs : StrictSorted px) (hr : InRange counts.sum px)
    (rb : Nat → Nat) (hrb : ∀ x, x < counts.sum → rb x = cmapCounts k counts x)
    (es : List Nat)
    (hv : validPrunedEdges (coarsenEdges k (prefixSums counts) (csrIndex px counts.sum)) es = true) :
    (coarsenStream rb px es).flatten = groupSum (px.map (rekey (cmapCounts k counts))) := by
  have hrs : RowSorted px := C03.StrictSorted.rowSorted hs
  let f := cmapCounts k counts
  -- the stream does not see the difference between `rb` and `cmap`
  have hcongr : coarsenStream rb px es = coarsenStream f px es := by
    unfold coarsenStream
    apply List.map_congr_left
    intro s _
    unfold aggregateSpan
    congr 1
    apply List.map_congr_left
    intro p hp
    have hpm : p ∈ px := by
      unfold slicePx at hp
      exact List.mem_of_mem_drop (List.mem_of_mem_take hp)
    have := hr p hpm
    simp only [rekey, hrb p.i this.1, hrb p.j this.2, f]
  rw [hcongr]
  -- unpack the contract
  cases es with
  | nil => simp [validPrunedEdges] at hv
  | cons e0 rest =>
    simp only [validPrunedEdges, Bool.and_eq_true, decide_eq_true_eq, List.all_eq_true,
      List.contains_iff_mem] at hv
    obtain ⟨⟨⟨h0, hchain⟩, hlast⟩, hmem⟩ := hv
    obtain ⟨r0, rs, heq, hch, hP⟩ := lift_chain px (fun r => r ≤ counts.sum ∧ EdgeRow k counts r) rest e0 hchain
      (fun e he => by
        obtain ⟨r, h1, h2, h3⟩ := mem_coarsenEdges k hk counts px e (hmem e he)
        exact ⟨r, ⟨h1, h2⟩, h3⟩)
    rw [heq, stream_eq_aggFrom]
    have hbound : ∀ r ∈ rs, Boundary f r := fun r hr' =>
      edge_boundary k hk counts r (hP r (List.mem_cons_of_mem _ hr')).2
    obtain ⟨g1, _, g3, g4⟩ := aggFrom_spec f (cmapCounts_mono k hk counts) px hrs rs r0 hch hbound
    -- the chain covers the whole table
    have hfirst : off px r0 = 0 := by
      have := congrArg List.head? heq
      simp only [List.head?_cons, List.map_cons, Option.some.injEq] at this
      omega
    have hend : off px ((r0 :: rs).getLast?.getD 0) = px.length := by
      rw [← getLast_map_off, ← heq, hlast, coarsenEdges_getLast, csrIndex_getLast, off_eq_length px _ hr]
    have hall : rowsSlice px r0 ((r0 :: rs).getLast?.getD 0) = px := by
      unfold rowsSlice slicePx
      rw [hfirst, hend]; simp
    simp only [hall] at g3 g4
    exact groupSum_eq_of _ _ g1 g4 g3

/-! ## algebra of the aggregate -/

theorem sumAt_map_insertPx (f : Nat → Nat) (p : Px) (l : Pixels) (i j : Nat) :
    sumAt ((insertPx p l).map (rekey f)) i j = sumAt ((p :: l).map (rekey f)) i j := by
  induction l with
  | nil => simp [insertPx]
  | cons q rest ih =>
    unfold insertPx
    split
    · rfl
    · split
      · rename_i _ hk
        unfold sameKey at hk
        simp only [List.map_cons, sumAt, rekey, hk.1, hk.2]
        split <;> omega
      · simp only [List.map_cons, sumAt] at ih ⊢
        rw [ih]; omega

theorem hasKey_map_insertPx (f : Nat → Nat) (p : Px) (l : Pixels) (i j : Nat) :
    hasKey ((insertPx p l).map (rekey f)) i j ↔ hasKey ((p :: l).map (rekey f)) i j := by
  induction l with
  | nil => simp [insertPx]
  | cons q rest ih =>
    unfold insertPx
    split
    · exact Iff.rfl
    · split
      · rename_i _ hk
        unfold sameKey at hk
        simp only [List.map_cons, hasKey_cons, rekey, hk.1, hk.2]
        constructor
        · rintro (h | h)
          · exact Or.inl h
          · exact Or.inr (Or.inr h)
        · rintro (h | h | h)
          · exact Or.inl h
          · exact Or.inl h
          · exact Or.inr h
      · simp only [List.map_cons, hasKey_cons] at ih ⊢
        rw [ih]
        constructor
        · rintro (h | h | h)
          · exact Or.inr (Or.inl h)
          · exact Or.inl h
          · exact Or.inr (Or.inr h)
        · rintro (h | h | h)
          · exact Or.inr (Or.inl h)
          · exact Or.inl h
          · exact Or.inr (Or.inr h)

theorem sumAt_map_groupSum (f : Nat → Nat) (a : Pixels) (i j : Nat) :
    sumAt ((groupSum a).map (rekey f)) i j = sumAt (a.map (rekey f)) i j := by
  induction a with
  | nil => rfl
  | cons p rest ih =>
    have : groupSum (p :: rest) = insertPx p (groupSum rest) := rfl
    rw [this, sumAt_map_insertPx]
    simp only [List.map_cons, sumAt, ih]

theorem hasKey_map_groupSum (f : Nat → Nat) (a : Pixels) (i j : Nat) :
    hasKey ((groupSum a).map (rekey f)) i j ↔ hasKey (a.map (rekey f)) i j := by
  induction a with
  | nil => exact Iff.rfl
  | cons p rest ih =>
    have : groupSum (p :: rest) = insertPx p (groupSum rest) := rfl
    rw [this, hasKey_map_insertPx]
    simp only [List.map_cons, hasKey_cons, ih]

/-- G3: re-keying an aggregate and aggregating again is aggregating the re-keyed records -/
theorem groupSum_map_groupSum (f : Nat → Nat) (a : Pixels) :
    groupSum ((groupSum a).map (rekey f)) = groupSum (a.map (rekey f)) :=
  groupSum_eq_of _ _ (groupSum_sorted _)
    (fun i j => by rw [hasKey_groupSum, hasKey_map_groupSum])
    (fun i j => by rw [sumAt_groupSum, sumAt_map_groupSum])

theorem total_map_rekey (f : Nat → Nat) (l : Pixels) : total (l.map (rekey f)) = total l := by
  unfold total
  rw [List.map_map]
  rfl

/-- **coarsen_total**: the total of the value column is preserved -/
theorem coarsen_total (k : Nat) (gs : List (List Bin)) (px : Pixels) :
    total (coarsenSpecG k gs px) = total px := by
  unfold coarsenSpecG
  rw [C07.total_groupSum, total_map_rekey]

/-- every stored value of the result is the sum of exactly the old pixels that fall into it -/
theorem coarsen_pointwise (k : Nat) (gs : List (List Bin)) (px : Pixels) (i j : Nat) :
    sumAt (coarsenSpecG k gs px) i j = sumAt (px.map (rekey (cmapG k gs))) i j ∧
    (hasKey (coarsenSpecG k gs px) i j ↔ ∃ p ∈ px, cmapG k gs p.i = i ∧ cmapG k gs p.j = j) := by
  unfold coarsenSpecG
  refine ⟨sumAt_groupSum _ i j, ?_⟩
  rw [hasKey_groupSum]
  unfold hasKey
  constructor
  · rintro ⟨q, hq, h⟩
    obtain ⟨p, hp, rfl⟩ := List.mem_map.mp hq
    exact ⟨p, hp, h⟩
  · rintro ⟨p, hp, h⟩
    exact ⟨rekey (cmapG k gs) p, List.mem_map_of_mem hp, h⟩

/-- the result is sorted and duplicate-free (`create` input contract, see C02) -/
theorem coarsen_sorted (k : Nat) (gs : List (List Bin)) (px : Pixels) :
    StrictSorted (coarsenSpecG k gs px) := groupSum_sorted _

/-- an upper-triangular source stays upper triangular (monotone re-keying) -/
theorem coarsen_triu (k : Nat) (hk : 1 ≤ k) (gs : List (List Bin)) (px : Pixels) (ht : Triu px) :
    Triu (coarsenSpecG k gs px) := by
  intro p hp
  obtain ⟨q, hq, hqi, hqj⟩ := C07.mem_groupSum_row _ p hp
  obtain ⟨q0, hq0, rfl⟩ := List.mem_map.mp hq
  simp only [rekey] at hqi hqj
  have := cmap_monotone k hk gs q0.i q0.j (ht q0 hq0)
  omega

theorem coarsenGroupSpec_length (k : Nat) (g : List Bin) : (coarsenGroupSpec k g).length = ceilDiv g.length k := by
  simp [coarsenGroupSpec]

theorem coarsenGroupsSpec_counts (k : Nat) (gs : List (List Bin)) :
    (coarsenGroupsSpec k gs).map List.length = (gs.map List.length).map (fun n => ceilDiv n k) := by
  simp [coarsenGroupsSpec, List.map_map, Function.comp_def, coarsenGroupSpec_length]

/-- bin ids of the result lie inside the new table -/
theorem coarsen_inRange (k : Nat) (hk : 1 ≤ k) (gs : List (List Bin)) (px : Pixels)
    (hr : InRange (gs.map List.length).sum px) :
    InRange ((coarsenGroupsSpec k gs).map List.length).sum (coarsenSpecG k gs px) := by
  intro p hp
  obtain ⟨q, hq, hqi, hqj⟩ := C07.mem_groupSum_row _ p hp
  obtain ⟨q0, hq0, rfl⟩ := List.mem_map.mp hq
  simp only [rekey] at hqi hqj
  rw [coarsenGroupsSpec_counts]
  have h1 := cmapCounts_lt k hk _ q0.i (hr q0 hq0).1
  have h2 := cmapCounts_lt k hk _ q0.j (hr q0 hq0).2
  unfold cmapG at hqi hqj
  omega

/-! ## composition and commutation with merging -/

theorem cmapCounts_compose (k1 k2 : Nat) (h1 : 1 ≤ k1) (h2 : 1 ≤ k2) :
    ∀ (counts : List Nat) (x : Nat),
      cmapCounts k2 (counts.map (fun n => ceilDiv n k1)) (cmapCounts k1 counts x)
        = cmapCounts (k1 * k2) counts x := by
  intro counts
  induction counts with
  | nil => intro x; rfl
  | cons n rest ih =>
    intro x
    simp only [cmapCounts, List.map_cons]
    by_cases hx : x < n
    · have := div_lt_ceilDiv h1 hx
      simp only [hx, this, if_true, Nat.div_div_eq_div_mul]
    · have hn : ¬ ceilDiv n k1 + cmapCounts k1 rest (x - n) < ceilDiv n k1 := by omega
      simp only [hx, if_false, hn, Nat.add_sub_cancel_left, ih, ceilDiv_ceilDiv h1 h2]

/-- **coarsen_compose** (pixel table): coarsening by `k₁` and then by `k₂` — over the coarsened table —
is coarsening by `k₁·k₂`, for EVERY table (fixed or variable width) and every `k₁, k₂ ≥ 1`:
per chromosome `(x / k₁) / k₂ = x / (k₁·k₂)` and `⌈⌈n/k₁⌉/k₂⌉ = ⌈n/(k₁·k₂)⌉` -/
theorem coarsen_compose_pixels (k1 k2 : Nat) (h1 : 1 ≤ k1) (h2 : 1 ≤ k2) (gs : List (List Bin)) (px : Pixels) :
    coarsenSpecG k2 (coarsenGroupsSpec k1 gs) (coarsenSpecG k1 gs px) = coarsenSpecG (k1 * k2) gs px := by
  unfold coarsenSpecG
  rw [groupSum_map_groupSum, List.map_map]
  congr 1
  apply List.map_congr_left
  intro p _
  simp only [Function.comp, rekey, cmapG, coarsenGroupsSpec_counts, cmapCounts_compose k1 k2 h1 h2]

/-- **coarsen_merge_commute**: coarsening the merge of several coolers over one table equals merging
their coarsenings -/
theorem coarsen_merge_commute (k : Nat) (gs : List (List Bin)) (inputs : List Pixels) :
    coarsenSpecG k gs (mergeSpec inputs) = mergeSpec (inputs.map (coarsenSpecG k gs)) := by
  unfold coarsenSpecG mergeSpec
  rw [groupSum_map_groupSum]
  have : inputs.map (fun px => groupSum (px.map (rekey (cmapG k gs))))
      = (inputs.map (List.map (rekey (cmapG k gs)))).map groupSum := by
    rw [List.map_map]; rfl
  rw [this, groupSum_flatten_groupSum, List.map_flatten]

/-! ## independence of the schedule -/

theorem batchesAux_flatten {α : Type} (b : Nat) (hb : 1 ≤ b) :
    ∀ (fuel : Nat) (l : List α), l.length ≤ fuel → (batchesAux b fuel l).flatten = l := by
  intro fuel
  induction fuel with
  | zero => intro l hl; have : l = [] := List.eq_nil_of_length_eq_zero (by omega)
            subst this; rfl
  | succ fuel ih =>
    intro l hl
    unfold batchesAux
    split
    · rename_i h; simp [h]
    · rw [List.flatten_cons, ih (l.drop b) (by simp; omega), List.take_append_drop]

theorem batches_flatten {α : Type} (b : Nat) (hb : 1 ≤ b) (l : List α) : (batches b l).flatten = l :=
  batchesAux_flatten b hb l.length l (Nat.le_refl _)

/-- **coarsen_map_independent**: with ANY map functor that returns its results in input order (the
`Pool.map` primitive) and any batch size `≥ 1` (= number of workers), `__iter__` yields the sequential
stream -/
theorem coarsen_map_independent
    (mapf : ((Nat × Nat) → Pixels) → List (Nat × Nat) → List Pixels)
    (hmap : ∀ f l, mapf f l = l.map f) (b : Nat) (hb : 1 ≤ b) (rb : Nat → Nat) (px : Pixels) (es : List Nat) :
    coarsenIter mapf b rb px es = coarsenStream rb px es := by
  unfold coarsenIter coarsenStream
  simp only [hmap]
  conv => rhs; rw [← batches_flatten b hb (spansOf es)]
  rw [List.map_flatten, List.flatMap_def]

end Cooler.C08
