-- C08 — property theorems: coarsening = block aggregation (C08Core) and any requested aggregation (C08Agg)
import CoolerModel.Props.C08Core
import CoolerModel.Props.C08Agg
