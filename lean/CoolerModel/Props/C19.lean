import CoolerModel.Model.Strings
namespace Cooler.C19
open Cooler Cooler.Strings

/-! ## characters -/

theorem char_eq_iff (c d : Char) : c = d ↔ c.toNat = d.toNat := Char.toNat_inj.symm

theorem digitChar_toNat {d : Nat} (h : d < 10) : (digitChar d).toNat = 48 + d := by
  have : ∀ d : Fin 10, (digitChar d.val).toNat = 48 + d.val := by decide
  exact this ⟨d, h⟩

theorem isDigit_digitChar {d : Nat} (h : d < 10) : isDigit (digitChar d) = true := by
  simp [isDigit, digitChar_toNat h]; omega

theorem digitVal_digitChar {d : Nat} (h : d < 10) : digitVal (digitChar d) = d := by
  simp [digitVal, digitChar_toNat h]

/-! ## generic list facts -/

theorem takeWhile_app {p : Char → Bool} {a b : Str} (ha : ∀ x ∈ a, p x = true)
    (hb : ∀ x ∈ b.head?, p x = false) : (a ++ b).takeWhile p = a := by
  rw [List.takeWhile_append_of_pos ha]
  cases b with
  | nil => simp
  | cons c r => simp [hb c (by simp)]

theorem dropWhile_app {p : Char → Bool} {a b : Str} (ha : ∀ x ∈ a, p x = true)
    (hb : ∀ x ∈ b.head?, p x = false) : (a ++ b).dropWhile p = b := by
  rw [List.dropWhile_append_of_pos ha]
  cases b with
  | nil => simp
  | cons c r => simp [hb c (by simp)]

theorem filter_id {p : Char → Bool} {a : Str} (ha : ∀ x ∈ a, p x = true) : a.filter p = a :=
  List.filter_eq_self.mpr ha

/-! ## digits -/

theorem natOfDigits_snoc (l : Str) (c : Char) :
    natOfDigits (l ++ [c]) = natOfDigits l * 10 + digitVal c := by
  simp [natOfDigits, List.foldl_append]

theorem foldl_shift (l : Str) (init : Nat) :
    l.foldl (fun a c => a * 10 + digitVal c) init
      = init * 10 ^ l.length + l.foldl (fun a c => a * 10 + digitVal c) 0 := by
  induction l generalizing init with
  | nil => simp
  | cons c l ih =>
    simp only [List.foldl_cons, List.length_cons]
    rw [ih (init * 10 + digitVal c), ih (0 * 10 + digitVal c)]
    rw [Nat.pow_succ]
    grind

/-- positional value of a concatenation -/
theorem natOfDigits_append (a b : Str) :
    natOfDigits (a ++ b) = natOfDigits a * 10 ^ b.length + natOfDigits b := by
  simp only [natOfDigits, List.foldl_append]
  exact foldl_shift b _

theorem digitsFuel_spec : ∀ (f n : Nat), n < f →
    natOfDigits (digitsFuel f n) = n ∧ (∀ c ∈ digitsFuel f n, isDigit c = true) ∧ digitsFuel f n ≠ [] := by
  intro f
  induction f with
  | zero => intro n h; omega
  | succ f ih =>
    intro n h
    unfold digitsFuel
    split
    · rename_i h10
      refine ⟨?_, ?_, by simp⟩
      · simp [natOfDigits, digitVal_digitChar h10]
      · intro c hc; simp at hc; subst hc; exact isDigit_digitChar h10
    · rename_i h10
      have hlt : n / 10 < f := by omega
      obtain ⟨h1, h2, _⟩ := ih (n / 10) hlt
      have hm : n % 10 < 10 := Nat.mod_lt _ (by omega)
      refine ⟨?_, ?_, by simp⟩
      · rw [natOfDigits_snoc, h1, digitVal_digitChar hm]; omega
      · intro c hc
        rcases List.mem_append.mp hc with h | h
        · exact h2 c h
        · simp at h; subst h; exact isDigit_digitChar hm

/-- **digits_roundtrip**: `int(str(n)) = n` for the model's own `str`/`int` (whose agreement with
Python's is what the correspondence `primitives` checks) -/
theorem digits_roundtrip (n : Nat) : natOfDigits (digitsOf n) = n :=
  (digitsFuel_spec (n + 1) n (by omega)).1

theorem digitsOf_isDigit (n : Nat) : ∀ c ∈ digitsOf n, isDigit c = true :=
  (digitsFuel_spec (n + 1) n (by omega)).2.1

theorem digitsOf_ne_nil (n : Nat) : digitsOf n ≠ [] :=
  (digitsFuel_spec (n + 1) n (by omega)).2.2

example : digitsOf 1005 = ['1', '0', '0', '5'] := by decide

/-! ## parse_humanized -/

theorem unitExp_some {x : Str} {u : Nat} (h : unitExp x = some u) :
    (x = ['K'] ∨ x = ['K', 'B']) ∧ u = 3 ∨ (x = ['M'] ∨ x = ['M', 'B']) ∧ u = 6 ∨
    (x = ['G'] ∨ x = ['G', 'B']) ∧ u = 9 := by
  unfold unitExp at h
  split at h <;> simp_all

theorem strip_unit {x : Str} {u : Nat} (h : unitExp x = some u) : strip x = x := by
  rcases unitExp_some h with ⟨h | h, _⟩ | ⟨h | h, _⟩ | ⟨h | h, _⟩ <;> subst h <;> decide

/-- a character whose upper-case form is one of `K M G B` is an ASCII letter -/
theorem letter_of_upper {c : Char} (h : upper c = 'K' ∨ upper c = 'M' ∨ upper c = 'G' ∨ upper c = 'B') :
    isLetter c = true := by
  unfold upper at h
  split at h
  · simp [isLetter]; omega
  · rcases h with h | h | h | h <;> subst h <;> decide

theorem unit_letters {U : Str} {u : Nat} (h : unitExp (U.map upper) = some u) :
    U ≠ [] ∧ ∀ c ∈ U, isLetter c = true := by
  constructor
  · rintro rfl; simp [unitExp] at h
  · intro c hc
    have hm : upper c ∈ U.map upper := List.mem_map.mpr ⟨c, hc, rfl⟩
    apply letter_of_upper
    rcases unitExp_some h with ⟨h | h, _⟩ | ⟨h | h, _⟩ | ⟨h | h, _⟩ <;> rw [h] at hm <;>
      simp only [List.mem_cons, List.not_mem_nil, or_false] at hm <;> grind

theorem letter_not_numeric {c : Char} (h : isLetter c = true) : isNumeric c = false := by
  simp [isLetter, isNumeric, isDigit, char_eq_iff] at *; omega

theorem letter_ne_comma {c : Char} (h : isLetter c = true) : (c != ',') = true := by
  simp [isLetter, char_eq_iff] at *; omega

theorem digit_numeric {c : Char} (h : isDigit c = true) : isNumeric c = true := by
  simp [isNumeric, h]

theorem digit_ne_comma {c : Char} (h : isDigit c = true) : (c != ',') = true := by
  simp [isDigit, char_eq_iff] at *; omega

/-- shape lemma: comma-free text = one numeric run `V` followed by a non-numeric tail `U` -/
theorem humanized_shape (s V U : Str) (hs : s.filter (· != ',') = V ++ U) (hV : V ≠ [])
    (hVn : ∀ c ∈ V, isNumeric c = true) (hUn : ∀ c ∈ U, isNumeric c = false) :
    parseHumanized s =
      if U = [] then pyInt V
      else match pyDecimal V with
        | none => .error .value
        | some (m, k) =>
          match unitExp (strip (U.map upper)) with
          | none => .error .value
          | some u => .ok (m * 10 ^ u / 10 ^ k) := by
  unfold parseHumanized
  simp only [hs]
  have hd : (V ++ U).dropWhile (fun c => !isNumeric c) = V ++ U := by
    cases V with
    | nil => exact absurd rfl hV
    | cons v V' => simp [hVn v (by simp)]
  have hb : ∀ x ∈ U.head?, isNumeric x = false := by
    intro x hx; exact hUn x (List.mem_of_mem_head? hx)
  simp only [hd, takeWhile_app hVn hb, dropWhile_app hVn hb, hV, if_false]
  have : U.any isNumeric = false := by
    simp only [List.any_eq_false]; intro x hx; simp [hUn x hx]
  by_cases hU : U = []
  · simp [hU]
  · simp only [hU, this, if_false, Bool.false_eq_true]
    cases pyDecimal V with
    | none => rfl
    | some mk => cases unitExp (strip (List.map upper U)) <;> rfl

theorem pyInt_digits {I : Str} (hI : ∀ c ∈ I, isDigit c = true) : pyInt I = .ok (natOfDigits I) := by
  unfold pyInt
  have : I.all isDigit = true := List.all_eq_true.mpr hI
  simp [this]

theorem pyDecimal_frac {I F : Str} (hI : ∀ c ∈ I, isDigit c = true) (hF : ∀ c ∈ F, isDigit c = true)
    (hne : I ≠ [] ∨ F ≠ []) : pyDecimal (I ++ '.' :: F) = some (natOfDigits (I ++ F), F.length) := by
  unfold pyDecimal
  have hb : ∀ x ∈ ('.' :: F).head?, isDigit x = false := by
    intro x hx; simp at hx; subst hx; decide
  simp only [takeWhile_app hI hb, dropWhile_app hI hb]
  have : F.all isDigit = true := List.all_eq_true.mpr hF
  simp [this, hne]

theorem pyDecimal_int {I : Str} (hI : ∀ c ∈ I, isDigit c = true) (hne : I ≠ []) :
    pyDecimal I = some (natOfDigits I, 0) := by
  unfold pyDecimal
  have h1 : I.takeWhile isDigit = I := by simpa using takeWhile_app (b := []) hI (by simp)
  have h2 : I.dropWhile isDigit = [] := by simpa using dropWhile_app (b := []) hI (by simp)
  simp [h1, h2, hne]

/-- **humanized_plain**: without a unit, digits (commas ignored) parse to the integer they spell -/
theorem humanized_plain (s I : Str) (hs : s.filter (· != ',') = I) (hne : I ≠ [])
    (hI : ∀ c ∈ I, isDigit c = true) : parseHumanized s = .ok (natOfDigits I) := by
  rw [humanized_shape s I [] (by simpa using hs) hne (fun c hc => digit_numeric (hI c hc)) (by simp)]
  simp [pyInt_digits hI]

example : parseHumanized ['1', '0', ',', '1', '0', '0', ',', '0', '0', '0'] = .ok 10100000 := by rfl

/-- truncating form: any number of fraction digits; the result is `⌊I.F × 10^u⌋` -/
theorem humanized_floor (s I F U : Str) (u : Nat) (hs : s.filter (· != ',') = I ++ '.' :: F ++ U)
    (hI : ∀ c ∈ I, isDigit c = true) (hF : ∀ c ∈ F, isDigit c = true) (hne : I ≠ [] ∨ F ≠ [])
    (hU : unitExp (U.map upper) = some u) :
    parseHumanized s = .ok (natOfDigits (I ++ F) * 10 ^ u / 10 ^ F.length) := by
  obtain ⟨hUne, hUl⟩ := unit_letters hU
  have hV : ∀ c ∈ I ++ '.' :: F, isNumeric c = true := by
    intro c hc
    rcases List.mem_append.mp hc with h | h
    · exact digit_numeric (hI c h)
    · rcases List.mem_cons.mp h with h | h
      · subst h; decide
      · exact digit_numeric (hF c h)
  rw [humanized_shape s (I ++ '.' :: F) U (by simpa using hs) (by simp) hV
    (fun c hc => letter_not_numeric (hUl c hc))]
  simp [hUne, pyDecimal_frac hI hF hne, strip_unit hU, hU]

theorem scale_exact (a b k u : Nat) (h : k ≤ u) :
    (a * 10 ^ k + b) * 10 ^ u / 10 ^ k = a * 10 ^ u + b * 10 ^ (u - k) := by
  have hu : 10 ^ u = 10 ^ (u - k) * 10 ^ k := by rw [← Nat.pow_add]; congr 1; omega
  have hpos : 0 < 10 ^ k := Nat.pow_pos (by omega)
  rw [hu, ← Nat.mul_assoc, Nat.mul_div_cancel _ hpos, Nat.add_mul, Nat.mul_assoc, Nat.mul_comm (10 ^ k)]

/-- **humanized_exact**: a numeral `I.F` with a unit of exponent `u` and at most `u` fraction digits
(so that it denotes an integer) parses to exactly `I·10^u + F·10^(u−|F|)`; commas anywhere in the
text are ignored. -/
theorem humanized_exact (s I F U : Str) (u : Nat) (hs : s.filter (· != ',') = I ++ '.' :: F ++ U)
    (hI : ∀ c ∈ I, isDigit c = true) (hF : ∀ c ∈ F, isDigit c = true) (hne : I ≠ [] ∨ F ≠ [])
    (hU : unitExp (U.map upper) = some u) (hlen : F.length ≤ u) :
    parseHumanized s = .ok (denote I F u) := by
  rw [humanized_floor s I F U u hs hI hF hne hU, natOfDigits_append, scale_exact _ _ _ _ hlen]
  rfl

/-- the same without a decimal point -/
theorem humanized_exact_nodot (s I U : Str) (u : Nat) (hs : s.filter (· != ',') = I ++ U)
    (hI : ∀ c ∈ I, isDigit c = true) (hne : I ≠ []) (hU : unitExp (U.map upper) = some u) :
    parseHumanized s = .ok (natOfDigits I * 10 ^ u) := by
  obtain ⟨hUne, hUl⟩ := unit_letters hU
  rw [humanized_shape s I U hs hne (fun c hc => digit_numeric (hI c hc))
    (fun c hc => letter_not_numeric (hUl c hc))]
  simp [hUne, pyDecimal_int hI hne, strip_unit hU, hU]

/-- non-vacuity: `1.005k` meets the hypotheses and denotes 1005 -/
example : parseHumanized ['1', '.', '0', '0', '5', 'k'] = .ok 1005 :=
  humanized_exact _ ['1'] ['0', '0', '5'] ['k'] 3 (by decide) (by decide) (by decide) (by simp) (by decide) (by decide)

/-! ## tokenizer -/

theorem tokFuel_nil (f : Nat) : tokFuel f [] = [] := by
  cases f <;> simp [tokFuel, nextToken]

theorem tokFuel_step {f : Nat} {l r : Str} {t : Tok} (hf : 0 < f) (h : nextToken l = some (t, r)) :
    tokFuel f l = t :: tokFuel (f - 1) r := by
  cases f with
  | zero => omega
  | succ f => simp [tokFuel, h]

/-- text of a COORD token: `[0-9,]+`, optionally `.` and digits, optionally letters -/
def coordText (X : Str) (Y : Option Str) (Z : Str) : Str :=
  X ++ (match Y with | some F => '.' :: F | none => []) ++ Z

structure IsCoord (X : Str) (Y : Option Str) (Z : Str) : Prop where
  ne : X ≠ []
  x : ∀ c ∈ X, isDigitComma c = true
  y : ∀ F, Y = some F → ∀ c ∈ F, isDigit c = true
  z : ∀ c ∈ Z, isLetter c = true

/-- what may follow a COORD token without being absorbed by it (end of text, `-`, a blank, …) -/
def Stops (rest : Str) : Prop :=
  ∀ c ∈ rest.head?, isDigitComma c = false ∧ c ≠ '.' ∧ isLetter c = false

theorem stops_nil : Stops [] := by intro c hc; simp at hc
theorem stops_hyphen (r : Str) : Stops ('-' :: r) := by
  intro c hc; simp at hc; subst hc; decide

theorem letter_not_digitComma {c : Char} (h : isLetter c = true) : isDigitComma c = false := by
  simp [isLetter, isDigitComma, isDigit, char_eq_iff] at *; omega
theorem letter_ne_dot {c : Char} (h : isLetter c = true) : c ≠ '.' := by
  simp [isLetter, char_eq_iff] at *; omega
theorem not_digit_of_not_digitComma {c : Char} (h : isDigitComma c = false) : isDigit c = false := by
  simp [isDigitComma] at h; exact h.1
theorem letter_not_digit {c : Char} (h : isLetter c = true) : isDigit c = false :=
  not_digit_of_not_digitComma (letter_not_digitComma h)

theorem head_letters_stop {Z rest : Str} (hz : ∀ c ∈ Z, isLetter c = true) (hr : Stops rest) :
    ∀ c ∈ (Z ++ rest).head?, isDigitComma c = false ∧ c ≠ '.' := by
  intro c hc
  cases Z with
  | nil => exact ⟨(hr c (by simpa using hc)).1, (hr c (by simpa using hc)).2.1⟩
  | cons z Z' =>
    simp at hc; subst hc
    exact ⟨letter_not_digitComma (hz _ (by simp)), letter_ne_dot (hz _ (by simp))⟩

theorem scanCoord_spec {X : Str} {Y : Option Str} {Z rest : Str} (h : IsCoord X Y Z) (hr : Stops rest) :
    scanCoord (coordText X Y Z ++ rest) = (coordText X Y Z, rest) := by
  have hzr := head_letters_stop h.z hr
  have hl : ∀ c ∈ rest.head?, isLetter c = false := fun c hc => (hr c hc).2.2
  cases Y with
  | none =>
    have e : coordText X none Z ++ rest = X ++ (Z ++ rest) := by simp [coordText]
    rw [e]
    unfold scanCoord
    have hb : ∀ c ∈ (Z ++ rest).head?, isDigitComma c = false := fun c hc => (hzr c hc).1
    simp only [takeWhile_app h.x hb, dropWhile_app h.x hb]
    split
    · rename_i r heq
      have := (hzr '.' (by rw [heq]; simp)).2
      exact absurd rfl this
    · simp [takeWhile_app h.z hl, dropWhile_app h.z hl, coordText]
  | some F =>
    have e : coordText X (some F) Z ++ rest = X ++ ('.' :: (F ++ (Z ++ rest))) := by simp [coordText]
    rw [e]
    unfold scanCoord
    have hb : ∀ c ∈ ('.' :: (F ++ (Z ++ rest))).head?, isDigitComma c = false := by
      intro c hc; simp at hc; subst hc; decide
    have hF := h.y F rfl
    have hb2 : ∀ c ∈ (Z ++ rest).head?, isDigit c = false :=
      fun c hc => not_digit_of_not_digitComma (hzr c hc).1
    simp only [takeWhile_app h.x hb, dropWhile_app h.x hb, takeWhile_app hF hb2, dropWhile_app hF hb2,
      takeWhile_app h.z hl, dropWhile_app h.z hl]
    simp [coordText]

theorem digitComma_facts {c : Char} (h : isDigitComma c = true) : isSpace c = false ∧ c ≠ '-' ∧ c ≠ ':' := by
  simp [isDigitComma, isDigit, isSpace, char_eq_iff] at *; omega

/-- a COORD text followed by something that stops it is read as one COORD token -/
theorem nextToken_coord {X : Str} {Y : Option Str} {Z rest : Str} (h : IsCoord X Y Z) (hr : Stops rest) :
    nextToken (coordText X Y Z ++ rest) = some (⟨.coord, coordText X Y Z⟩, rest) := by
  have key := scanCoord_spec h hr
  obtain ⟨x, X', hX⟩ := List.exists_cons_of_ne_nil h.ne
  have hx := h.x x (by rw [hX]; simp)
  obtain ⟨hs, hh, _⟩ := digitComma_facts hx
  have e : ∃ t, coordText X Y Z ++ rest = x :: t := by
    subst hX; exact ⟨coordText X' Y Z ++ rest, by simp [coordText]⟩
  obtain ⟨t, e⟩ := e
  rw [e] at key ⊢
  unfold nextToken
  simp [hs, hh, hx, key]

theorem nextToken_hyphen (r : Str) : nextToken ('-' :: r) = some (⟨.hyphen, ['-']⟩, r) := by
  have : isSpace '-' = false := by decide
  unfold nextToken
  simp [this]

/-! ## split -/

theorem splitChar_no_sep {sep : Char} {a : Str} (h : sep ∉ a) : splitChar sep a = [a] := by
  induction a with
  | nil => rfl
  | cons c a ih =>
    have hc : c ≠ sep := fun e => h (by simp [e])
    have ha : sep ∉ a := fun e => h (by simp [e])
    simp [splitChar, hc, ih ha]

theorem splitChar_app {sep : Char} {a : Str} (b : Str) (h : sep ∉ a) :
    splitChar sep (a ++ sep :: b) = a :: splitChar sep b := by
  induction a with
  | nil => simp [splitChar]
  | cons c a ih =>
    have hc : c ≠ sep := fun e => h (by simp [e])
    have ha : sep ∉ a := fun e => h (by simp [e])
    simp [splitChar, hc, ih ha]

end Cooler.C19
