import CoolerModel.Model.Strings
/-!
# C19 — region and URI strings parse to exactly what they denote, or are refused

Property theorems only; every statement is about the definitions in `Model/Strings.lean`, which the
correspondence harness (`harness/c19.py`) executes against `cooler.util.parse_humanized`,
`parse_region_string`, `parse_region`, `parse_cooler_uri`.

Layers: L1 = `parseHumanized`, `tokenize`/`nextToken`, `parseRegionString`, `checkRegion`/`parseRegion`,
`parseCoolerUri` (mirror the code); L0 = `denote`, `numeralValue`, `strictRegion` (what a well-formed
string denotes) and `refusedClass` (the malformed classes the property lists).

Main results (all for unbounded strings and numbers):
* `digits_roundtrip`                      `int(str(n)) = n` for the model's digit functions
* `humanized_plain`, `humanized_exact`,
  `humanized_exact_nodot`, `humanized_floor`   numeral × unit is scaled exactly (commas ignored)
* `numeral_parses`, `region_denotes`, `region_denotes_open`, `parse_name_only`,
  `strict_parses`                         L1 = L0 on every well-formed region string
* `parse_format_id`, `parse_format_open`  format → parse is the identity
* `region_refuses`, `refusedClass_sound`  every listed malformed class is refused
* `parseRegion_refuses`, `parseRegion_sound`, `parseRegion_accepts`   defaults and bounds
* `uri_slash`, `uri_no_sep`, `uri_two_sep`, `uri_two_sep_any`         URI spellings
-/
namespace Cooler.C19
open Cooler Cooler.Strings

/-! ## characters -/

theorem char_eq_iff (c d : Char) : c = d ↔ c.toNat = d.toNat := Char.toNat_inj.symm

theorem digitChar_toNat {d : Nat} (h : d < 10) : (digitChar d).toNat = 48 + d := by
  have : ∀ d : Fin 10, (digitChar d.val).toNat = 48 + d.val := by decide
  exact this ⟨d, h⟩

theorem isDigit_digitChar {d : Nat} (h : d < 10) : isDigit (digitChar d) = true := by
  simp [isDigit, digitChar_toNat h]; omega

theorem digitVal_digitChar {d : Nat} (h : d < 10) : digitVal (digitChar d) = d := by
  simp [digitVal, digitChar_toNat h]

/-! ## generic list facts -/

theorem takeWhile_app {p : Char → Bool} {a b : Str} (ha : ∀ x ∈ a, p x = true)
    (hb : ∀ x ∈ b.head?, p x = false) : (a ++ b).takeWhile p = a := by
  rw [List.takeWhile_append_of_pos ha]
  cases b with
  | nil => simp
  | cons c r => simp [hb c (by simp)]

theorem dropWhile_app {p : Char → Bool} {a b : Str} (ha : ∀ x ∈ a, p x = true)
    (hb : ∀ x ∈ b.head?, p x = false) : (a ++ b).dropWhile p = b := by
  rw [List.dropWhile_append_of_pos ha]
  cases b with
  | nil => simp
  | cons c r => simp [hb c (by simp)]

theorem filter_id {p : Char → Bool} {a : Str} (ha : ∀ x ∈ a, p x = true) : a.filter p = a :=
  List.filter_eq_self.mpr ha

/-! ## digits -/

theorem natOfDigits_snoc (l : Str) (c : Char) :
    natOfDigits (l ++ [c]) = natOfDigits l * 10 + digitVal c := by
  simp [natOfDigits, List.foldl_append]

theorem foldl_shift (l : Str) (init : Nat) :
    l.foldl (fun a c => a * 10 + digitVal c) init
      = init * 10 ^ l.length + l.foldl (fun a c => a * 10 + digitVal c) 0 := by
  induction l generalizing init with
  | nil => simp
  | cons c l ih =>
    simp only [List.foldl_cons, List.length_cons]
    rw [ih (init * 10 + digitVal c), ih (0 * 10 + digitVal c)]
    rw [Nat.pow_succ]
    grind

/-- positional value of a concatenation -/
theorem natOfDigits_append (a b : Str) :
    natOfDigits (a ++ b) = natOfDigits a * 10 ^ b.length + natOfDigits b := by
  simp only [natOfDigits, List.foldl_append]
  exact foldl_shift b _

theorem digitsFuel_spec : ∀ (f n : Nat), n < f →
    natOfDigits (digitsFuel f n) = n ∧ (∀ c ∈ digitsFuel f n, isDigit c = true) ∧ digitsFuel f n ≠ [] := by
  intro f
  induction f with
  | zero => intro n h; omega
  | succ f ih =>
    intro n h
    unfold digitsFuel
    split
    · rename_i h10
      refine ⟨?_, ?_, by simp⟩
      · simp [natOfDigits, digitVal_digitChar h10]
      · intro c hc; simp at hc; subst hc; exact isDigit_digitChar h10
    · rename_i h10
      have hlt : n / 10 < f := by omega
      obtain ⟨h1, h2, _⟩ := ih (n / 10) hlt
      have hm : n % 10 < 10 := Nat.mod_lt _ (by omega)
      refine ⟨?_, ?_, by simp⟩
      · rw [natOfDigits_snoc, h1, digitVal_digitChar hm]; omega
      · intro c hc
        rcases List.mem_append.mp hc with h | h
        · exact h2 c h
        · simp at h; subst h; exact isDigit_digitChar hm

/-- **digits_roundtrip**: `int(str(n)) = n` for the model's own `str`/`int` (whose agreement with
Python's is what the correspondence `primitives` checks) -/
theorem digits_roundtrip (n : Nat) : natOfDigits (digitsOf n) = n :=
  (digitsFuel_spec (n + 1) n (by omega)).1

theorem digitsOf_isDigit (n : Nat) : ∀ c ∈ digitsOf n, isDigit c = true :=
  (digitsFuel_spec (n + 1) n (by omega)).2.1

theorem digitsOf_ne_nil (n : Nat) : digitsOf n ≠ [] :=
  (digitsFuel_spec (n + 1) n (by omega)).2.2

example : digitsOf 1005 = ['1', '0', '0', '5'] := by decide

/-! ## parse_humanized -/

theorem unitExp_some {x : Str} {u : Nat} (h : unitExp x = some u) :
    (x = ['K'] ∨ x = ['K', 'B']) ∧ u = 3 ∨ (x = ['M'] ∨ x = ['M', 'B']) ∧ u = 6 ∨
    (x = ['G'] ∨ x = ['G', 'B']) ∧ u = 9 := by
  unfold unitExp at h
  split at h <;> simp_all

theorem strip_unit {x : Str} {u : Nat} (h : unitExp x = some u) : strip x = x := by
  rcases unitExp_some h with ⟨h | h, _⟩ | ⟨h | h, _⟩ | ⟨h | h, _⟩ <;> subst h <;> decide

/-- a character whose upper-case form is one of `K M G B` is an ASCII letter -/
theorem letter_of_upper {c : Char} (h : upper c = 'K' ∨ upper c = 'M' ∨ upper c = 'G' ∨ upper c = 'B') :
    isLetter c = true := by
  unfold upper at h
  split at h
  · simp [isLetter]; omega
  · rcases h with h | h | h | h <;> subst h <;> decide

theorem unit_letters {U : Str} {u : Nat} (h : unitExp (U.map upper) = some u) :
    U ≠ [] ∧ ∀ c ∈ U, isLetter c = true := by
  constructor
  · rintro rfl; simp [unitExp] at h
  · intro c hc
    have hm : upper c ∈ U.map upper := List.mem_map.mpr ⟨c, hc, rfl⟩
    apply letter_of_upper
    rcases unitExp_some h with ⟨h | h, _⟩ | ⟨h | h, _⟩ | ⟨h | h, _⟩ <;> rw [h] at hm <;>
      simp only [List.mem_cons, List.not_mem_nil, or_false] at hm <;> grind

theorem letter_not_numeric {c : Char} (h : isLetter c = true) : isNumeric c = false := by
  simp [isLetter, isNumeric, isDigit, char_eq_iff] at *; omega

theorem letter_ne_comma {c : Char} (h : isLetter c = true) : (c != ',') = true := by
  simp [isLetter, char_eq_iff] at *; omega

theorem digit_numeric {c : Char} (h : isDigit c = true) : isNumeric c = true := by
  simp [isNumeric, h]

theorem digit_ne_comma {c : Char} (h : isDigit c = true) : (c != ',') = true := by
  simp [isDigit, char_eq_iff] at *; omega

/-- shape lemma: comma-free text = one numeric run `V` followed by a non-numeric tail `U` -/
theorem humanized_shape (s V U : Str) (hs : s.filter (· != ',') = V ++ U) (hV : V ≠ [])
    (hVn : ∀ c ∈ V, isNumeric c = true) (hUn : ∀ c ∈ U, isNumeric c = false) :
    parseHumanized s =
      if U = [] then pyInt V
      else match pyDecimal V with
        | none => .error .value
        | some (m, k) =>
          match unitExp (strip (U.map upper)) with
          | none => .error .value
          | some u => .ok (m * 10 ^ u / 10 ^ k) := by
  unfold parseHumanized
  simp only [hs]
  have hd : (V ++ U).dropWhile (fun c => !isNumeric c) = V ++ U := by
    cases V with
    | nil => exact absurd rfl hV
    | cons v V' => simp [hVn v (by simp)]
  have hb : ∀ x ∈ U.head?, isNumeric x = false := by
    intro x hx; exact hUn x (List.mem_of_mem_head? hx)
  simp only [hd, takeWhile_app hVn hb, dropWhile_app hVn hb, hV, if_false]
  have : U.any isNumeric = false := by
    simp only [List.any_eq_false]; intro x hx; simp [hUn x hx]
  by_cases hU : U = []
  · simp [hU]
  · simp only [hU, this, if_false, Bool.false_eq_true]
    cases pyDecimal V with
    | none => rfl
    | some mk => cases unitExp (strip (List.map upper U)) <;> rfl

theorem pyInt_digits {I : Str} (hI : ∀ c ∈ I, isDigit c = true) : pyInt I = .ok (natOfDigits I) := by
  unfold pyInt
  have : I.all isDigit = true := List.all_eq_true.mpr hI
  simp [this]

theorem pyDecimal_frac {I F : Str} (hI : ∀ c ∈ I, isDigit c = true) (hF : ∀ c ∈ F, isDigit c = true)
    (hne : I ≠ [] ∨ F ≠ []) : pyDecimal (I ++ '.' :: F) = some (natOfDigits (I ++ F), F.length) := by
  unfold pyDecimal
  have hb : ∀ x ∈ ('.' :: F).head?, isDigit x = false := by
    intro x hx; simp at hx; subst hx; decide
  simp only [takeWhile_app hI hb, dropWhile_app hI hb]
  have : F.all isDigit = true := List.all_eq_true.mpr hF
  simp [this, hne]

theorem pyDecimal_int {I : Str} (hI : ∀ c ∈ I, isDigit c = true) (hne : I ≠ []) :
    pyDecimal I = some (natOfDigits I, 0) := by
  unfold pyDecimal
  have h1 : I.takeWhile isDigit = I := by simpa using takeWhile_app (b := []) hI (by simp)
  have h2 : I.dropWhile isDigit = [] := by simpa using dropWhile_app (b := []) hI (by simp)
  simp [h1, h2, hne]

/-- **humanized_plain**: without a unit, digits (commas ignored) parse to the integer they spell -/
theorem humanized_plain (s I : Str) (hs : s.filter (· != ',') = I) (hne : I ≠ [])
    (hI : ∀ c ∈ I, isDigit c = true) : parseHumanized s = .ok (natOfDigits I) := by
  rw [humanized_shape s I [] (by simpa using hs) hne (fun c hc => digit_numeric (hI c hc)) (by simp)]
  simp [pyInt_digits hI]

example : parseHumanized ['1', '0', ',', '1', '0', '0', ',', '0', '0', '0'] = .ok 10100000 := by rfl

/-- truncating form: any number of fraction digits; the result is `⌊I.F × 10^u⌋` -/
theorem humanized_floor (s I F U : Str) (u : Nat) (hs : s.filter (· != ',') = I ++ '.' :: F ++ U)
    (hI : ∀ c ∈ I, isDigit c = true) (hF : ∀ c ∈ F, isDigit c = true) (hne : I ≠ [] ∨ F ≠ [])
    (hU : unitExp (U.map upper) = some u) :
    parseHumanized s = .ok (natOfDigits (I ++ F) * 10 ^ u / 10 ^ F.length) := by
  obtain ⟨hUne, hUl⟩ := unit_letters hU
  have hV : ∀ c ∈ I ++ '.' :: F, isNumeric c = true := by
    intro c hc
    rcases List.mem_append.mp hc with h | h
    · exact digit_numeric (hI c h)
    · rcases List.mem_cons.mp h with h | h
      · subst h; decide
      · exact digit_numeric (hF c h)
  rw [humanized_shape s (I ++ '.' :: F) U (by simpa using hs) (by simp) hV
    (fun c hc => letter_not_numeric (hUl c hc))]
  simp [hUne, pyDecimal_frac hI hF hne, strip_unit hU, hU]

theorem scale_exact (a b k u : Nat) (h : k ≤ u) :
    (a * 10 ^ k + b) * 10 ^ u / 10 ^ k = a * 10 ^ u + b * 10 ^ (u - k) := by
  have hu : 10 ^ u = 10 ^ (u - k) * 10 ^ k := by rw [← Nat.pow_add]; congr 1; omega
  have hpos : 0 < 10 ^ k := Nat.pow_pos (by omega)
  rw [hu, ← Nat.mul_assoc, Nat.mul_div_cancel _ hpos, Nat.add_mul, Nat.mul_assoc, Nat.mul_comm (10 ^ k)]

/-- **humanized_exact**: a numeral `I.F` with a unit of exponent `u` and at most `u` fraction digits
(so that it denotes an integer) parses to exactly `I·10^u + F·10^(u−|F|)`; commas anywhere in the
text are ignored. -/
theorem humanized_exact (s I F U : Str) (u : Nat) (hs : s.filter (· != ',') = I ++ '.' :: F ++ U)
    (hI : ∀ c ∈ I, isDigit c = true) (hF : ∀ c ∈ F, isDigit c = true) (hne : I ≠ [] ∨ F ≠ [])
    (hU : unitExp (U.map upper) = some u) (hlen : F.length ≤ u) :
    parseHumanized s = .ok (denote I F u) := by
  rw [humanized_floor s I F U u hs hI hF hne hU, natOfDigits_append, scale_exact _ _ _ _ hlen]
  rfl

/-- the same without a decimal point -/
theorem humanized_exact_nodot (s I U : Str) (u : Nat) (hs : s.filter (· != ',') = I ++ U)
    (hI : ∀ c ∈ I, isDigit c = true) (hne : I ≠ []) (hU : unitExp (U.map upper) = some u) :
    parseHumanized s = .ok (natOfDigits I * 10 ^ u) := by
  obtain ⟨hUne, hUl⟩ := unit_letters hU
  rw [humanized_shape s I U hs hne (fun c hc => digit_numeric (hI c hc))
    (fun c hc => letter_not_numeric (hUl c hc))]
  simp [hUne, pyDecimal_int hI hne, strip_unit hU, hU]

/-- non-vacuity: `1.005k` meets the hypotheses and denotes 1005 -/
example : parseHumanized ['1', '.', '0', '0', '5', 'k'] = .ok 1005 :=
  humanized_exact _ ['1'] ['0', '0', '5'] ['k'] 3 (by decide) (by decide) (by decide) (by simp) (by decide) (by decide)

/-! ## tokenizer -/

theorem tokFuel_nil (f : Nat) : tokFuel f [] = [] := by
  cases f <;> simp [tokFuel, nextToken]

theorem tokFuel_step {f : Nat} {l r : Str} {t : Tok} (hf : 0 < f) (h : nextToken l = some (t, r)) :
    tokFuel f l = t :: tokFuel (f - 1) r := by
  cases f with
  | zero => omega
  | succ f => simp [tokFuel, h]

/-- text of a COORD token: `[0-9,]+`, optionally `.` and digits, optionally letters -/
def coordText (X : Str) (Y : Option Str) (Z : Str) : Str :=
  X ++ (match Y with | some F => '.' :: F | none => []) ++ Z

structure IsCoord (X : Str) (Y : Option Str) (Z : Str) : Prop where
  ne : X ≠ []
  x : ∀ c ∈ X, isDigitComma c = true
  y : ∀ F, Y = some F → ∀ c ∈ F, isDigit c = true
  z : ∀ c ∈ Z, isLetter c = true

/-- what may follow a COORD token without being absorbed by it (end of text, `-`, a blank, …) -/
def Stops (rest : Str) : Prop :=
  ∀ c ∈ rest.head?, isDigitComma c = false ∧ c ≠ '.' ∧ isLetter c = false

theorem stops_nil : Stops [] := by intro c hc; simp at hc
theorem stops_hyphen (r : Str) : Stops ('-' :: r) := by
  intro c hc; simp at hc; subst hc; decide

theorem letter_not_digitComma {c : Char} (h : isLetter c = true) : isDigitComma c = false := by
  simp [isLetter, isDigitComma, isDigit, char_eq_iff] at *; omega
theorem letter_ne_dot {c : Char} (h : isLetter c = true) : c ≠ '.' := by
  simp [isLetter, char_eq_iff] at *; omega
theorem not_digit_of_not_digitComma {c : Char} (h : isDigitComma c = false) : isDigit c = false := by
  simp [isDigitComma] at h; exact h.1
theorem letter_not_digit {c : Char} (h : isLetter c = true) : isDigit c = false :=
  not_digit_of_not_digitComma (letter_not_digitComma h)

theorem head_letters_stop {Z rest : Str} (hz : ∀ c ∈ Z, isLetter c = true) (hr : Stops rest) :
    ∀ c ∈ (Z ++ rest).head?, isDigitComma c = false ∧ c ≠ '.' := by
  intro c hc
  cases Z with
  | nil => exact ⟨(hr c (by simpa using hc)).1, (hr c (by simpa using hc)).2.1⟩
  | cons z Z' =>
    simp at hc; subst hc
    exact ⟨letter_not_digitComma (hz _ (by simp)), letter_ne_dot (hz _ (by simp))⟩

theorem scanCoord_spec {X : Str} {Y : Option Str} {Z rest : Str} (h : IsCoord X Y Z) (hr : Stops rest) :
    scanCoord (coordText X Y Z ++ rest) = (coordText X Y Z, rest) := by
  have hzr := head_letters_stop h.z hr
  have hl : ∀ c ∈ rest.head?, isLetter c = false := fun c hc => (hr c hc).2.2
  cases Y with
  | none =>
    have e : coordText X none Z ++ rest = X ++ (Z ++ rest) := by simp [coordText]
    rw [e]
    unfold scanCoord
    have hb : ∀ c ∈ (Z ++ rest).head?, isDigitComma c = false := fun c hc => (hzr c hc).1
    simp only [takeWhile_app h.x hb, dropWhile_app h.x hb]
    split
    · rename_i r heq
      have := (hzr '.' (by rw [heq]; simp)).2
      exact absurd rfl this
    · simp [takeWhile_app h.z hl, dropWhile_app h.z hl, coordText]
  | some F =>
    have e : coordText X (some F) Z ++ rest = X ++ ('.' :: (F ++ (Z ++ rest))) := by simp [coordText]
    rw [e]
    unfold scanCoord
    have hb : ∀ c ∈ ('.' :: (F ++ (Z ++ rest))).head?, isDigitComma c = false := by
      intro c hc; simp at hc; subst hc; decide
    have hF := h.y F rfl
    have hb2 : ∀ c ∈ (Z ++ rest).head?, isDigit c = false :=
      fun c hc => not_digit_of_not_digitComma (hzr c hc).1
    simp only [takeWhile_app h.x hb, dropWhile_app h.x hb, takeWhile_app hF hb2, dropWhile_app hF hb2,
      takeWhile_app h.z hl, dropWhile_app h.z hl]
    simp [coordText]

theorem digitComma_facts {c : Char} (h : isDigitComma c = true) : isSpace c = false ∧ c ≠ '-' ∧ c ≠ ':' := by
  simp [isDigitComma, isDigit, isSpace, char_eq_iff] at *; omega

/-- a COORD text followed by something that stops it is read as one COORD token -/
theorem nextToken_coord {X : Str} {Y : Option Str} {Z rest : Str} (h : IsCoord X Y Z) (hr : Stops rest) :
    nextToken (coordText X Y Z ++ rest) = some (⟨.coord, coordText X Y Z⟩, rest) := by
  have key := scanCoord_spec h hr
  obtain ⟨x, X', hX⟩ := List.exists_cons_of_ne_nil h.ne
  have hx := h.x x (by rw [hX]; simp)
  obtain ⟨hs, hh, _⟩ := digitComma_facts hx
  have e : ∃ t, coordText X Y Z ++ rest = x :: t := by
    subst hX; exact ⟨coordText X' Y Z ++ rest, by simp [coordText]⟩
  obtain ⟨t, e⟩ := e
  rw [e] at key ⊢
  unfold nextToken
  simp [hs, hh, hx, key]

theorem nextToken_hyphen (r : Str) : nextToken ('-' :: r) = some (⟨.hyphen, ['-']⟩, r) := by
  have : isSpace '-' = false := by decide
  unfold nextToken
  simp [this]

/-! ## split -/

theorem splitChar_no_sep {sep : Char} {a : Str} (h : sep ∉ a) : splitChar sep a = [a] := by
  induction a with
  | nil => rfl
  | cons c a ih =>
    have hc : c ≠ sep := fun e => h (by simp [e])
    have ha : sep ∉ a := fun e => h (by simp [e])
    simp [splitChar, hc, ih ha]

theorem splitChar_app {sep : Char} {a : Str} (b : Str) (h : sep ∉ a) :
    splitChar sep (a ++ sep :: b) = a :: splitChar sep b := by
  induction a with
  | nil => simp [splitChar]
  | cons c a ih =>
    have hc : c ≠ sep := fun e => h (by simp [e])
    have ha : sep ∉ a := fun e => h (by simp [e])
    simp [splitChar, hc, ih ha]

theorem dropWhile_head {p : Char → Bool} {l : Str} {c : Char} {r : Str}
    (h : l.dropWhile p = c :: r) : p c = false := by
  induction l with
  | nil => simp at h
  | cons a l ih =>
    by_cases ha : p a = true
    · rw [List.dropWhile_cons_of_pos ha] at h; exact ih h
    · rw [List.dropWhile_cons_of_neg ha] at h
      injection h with h1 _; subst h1; simpa using ha

theorem mem_takeWhile {p : Char → Bool} {l : Str} {c : Char} (h : c ∈ l.takeWhile p) : p c = true := by
  induction l with
  | nil => simp at h
  | cons a l ih =>
    by_cases ha : p a = true
    · rw [List.takeWhile_cons_of_pos ha] at h
      rcases List.mem_cons.mp h with h | h
      · subst h; exact ha
      · exact ih h
    · rw [List.takeWhile_cons_of_neg ha] at h; simp at h

/-- **numeral_parses** (with the token shape): whatever L0 `numeralValue` reads as a coordinate numeral is
one COORD token and `parse_humanized` returns exactly the denoted integer -/
theorem numeral_shape {A : Str} {a : Nat} (h : numeralValue A = some a) :
    ∃ X Y Z, A = coordText X Y Z ∧ IsCoord X Y Z ∧ parseHumanized A = .ok a := by
  cases A with
  | nil => simp [numeralValue] at h
  | cons c0 t =>
    have hd : isDigit c0 = true := by
      cases hd : isDigit c0 with
      | true => rfl
      | false => simp [numeralValue, hd] at h
    unfold numeralValue at h
    simp only [hd, Bool.not_true, Bool.false_eq_true, if_false] at h
    generalize hX : (c0 :: t).takeWhile isDigitComma = X at h
    generalize hR : (c0 :: t).dropWhile isDigitComma = R at h
    have hA : c0 :: t = X ++ R := by
      rw [← hX, ← hR]; exact (List.takeWhile_append_dropWhile).symm
    have hXm : ∀ c ∈ X, isDigitComma c = true := by
      intro c hc; rw [← hX] at hc; exact mem_takeWhile hc
    have hc0X : c0 ∈ X := by rw [← hX]; simp [isDigitComma, hd]
    have hXne : X ≠ [] := List.ne_nil_of_mem hc0X
    have hI : ∀ c ∈ X.filter (· != ','), isDigit c = true := by
      intro c hc
      obtain ⟨h1, h2⟩ := List.mem_filter.mp hc
      have := hXm c h1
      simp [isDigitComma] at this h2
      rcases this with h | h
      · simpa [isDigit] using h
      · exact absurd h h2
    have hIne : X.filter (· != ',') ≠ [] :=
      List.ne_nil_of_mem (List.mem_filter.mpr ⟨hc0X, digit_ne_comma hd⟩)
    rw [hA]
    cases R with
    | nil =>
      simp only [Option.some.injEq] at h
      refine ⟨X, none, [], by simp [coordText], ⟨hXne, hXm, by simp, by simp⟩, ?_⟩
      rw [← h]
      exact humanized_plain _ _ (by simp) hIne hI
    | cons c r =>
      have hcs : isDigitComma c = false := dropWhile_head hR
      by_cases hdot : c = '.'
      · subst hdot
        simp only [if_true] at h
        generalize hF : r.takeWhile isDigit = F at h
        generalize hU : r.dropWhile isDigit = U at h
        have hr : r = F ++ U := by rw [← hF, ← hU]; exact (List.takeWhile_append_dropWhile).symm
        have hFm : ∀ c ∈ F, isDigit c = true := by
          intro c hc; rw [← hF] at hc; exact mem_takeWhile hc
        cases hu : unitExp (U.map upper) with
        | none => simp [hu] at h
        | some u =>
          simp only [hu] at h
          have hlen : F.length ≤ u := by
            by_cases hlen : F.length ≤ u
            · exact hlen
            · simp [hlen] at h
          simp only [hlen, if_true, Option.some.injEq] at h
          obtain ⟨_, hUl⟩ := unit_letters hu
          refine ⟨X, some F, U, by simp [coordText, hr], ⟨hXne, hXm, ?_, hUl⟩, ?_⟩
          · intro F' hF'; injection hF' with hF'; subst hF'; exact hFm
          · rw [← h]
            apply humanized_exact _ _ F U u _ hI hFm (Or.inl hIne) hu hlen
            rw [hr]
            simp only [List.filter_append, List.filter_cons, List.append_assoc]
            have h1 : F.filter (· != ',') = F := filter_id (fun c hc => digit_ne_comma (hFm c hc))
            have h2 : U.filter (· != ',') = U := filter_id (fun c hc => letter_ne_comma (hUl c hc))
            simp [h1, h2]
      · simp only [hdot, if_false] at h
        split at h
        · rename_i u hu'
          simp only [Option.some.injEq] at h
          have hu : unitExp ((c :: r).map upper) = some u := hu'
          obtain ⟨_, hUl⟩ := unit_letters hu
          refine ⟨X, none, c :: r, by simp [coordText], ⟨hXne, hXm, by simp, hUl⟩, ?_⟩
          rw [← h]
          apply humanized_exact_nodot _ _ (c :: r) u _ hI hIne hu
          rw [List.filter_append, filter_id (fun c hc => letter_ne_comma (hUl c hc))]
        · simp at h

theorem numeral_parses {A : Str} {a : Nat} (h : numeralValue A = some a) : parseHumanized A = .ok a := by
  obtain ⟨_, _, _, _, _, h⟩ := numeral_shape h; exact h

/-! ## parse_region_string on well-formed input -/

/-- a chromosome name `parse_region_string` hands back unchanged: non-empty, free of `:`, no blanks
at either end (Python returns `parts[0].strip()`) -/
structure GoodName (c : Str) : Prop where
  ne : c ≠ []
  nocolon : ':' ∉ c
  stripped : strip c = c

theorem coordText_pos {X : Str} {Y : Option Str} {Z : Str} (h : IsCoord X Y Z) :
    0 < (coordText X Y Z).length := by
  have := List.length_pos_iff.mpr h.ne
  simp [coordText]; omega

theorem coordText_chars {X : Str} {Y : Option Str} {Z : Str} (h : IsCoord X Y Z) :
    ∀ c ∈ coordText X Y Z, c ≠ ':' ∧ c ≠ '-' := by
  intro c hc
  have hdc : ∀ c, isDigitComma c = true → c ≠ ':' ∧ c ≠ '-' := fun c h => ⟨(digitComma_facts h).2.2, (digitComma_facts h).2.1⟩
  have hd : ∀ c, isDigit c = true → c ≠ ':' ∧ c ≠ '-' := fun c h => hdc c (by simp [isDigitComma, h])
  have hl : ∀ c, isLetter c = true → c ≠ ':' ∧ c ≠ '-' := by
    intro c h; simp [isLetter, char_eq_iff] at *; omega
  simp only [coordText, List.mem_append] at hc
  rcases hc with (hc | hc) | hc
  · exact hdc c (h.x c hc)
  · cases Y with
    | none => simp at hc
    | some F =>
      rcases List.mem_cons.mp hc with hc | hc
      · subst hc; decide
      · exact hd c (h.y F rfl c hc)
  · exact hl c (h.z c hc)

theorem tokenize_closed {X Y Z X' Y' Z'} (hA : IsCoord X Y Z) (hB : IsCoord X' Y' Z') :
    tokenize (coordText X Y Z ++ '-' :: coordText X' Y' Z')
      = [⟨.coord, coordText X Y Z⟩, ⟨.hyphen, ['-']⟩, ⟨.coord, coordText X' Y' Z'⟩] := by
  have h1 := coordText_pos hA
  have h2 := coordText_pos hB
  unfold tokenize
  rw [tokFuel_step (by simp; omega) (nextToken_coord hA (stops_hyphen _))]
  rw [tokFuel_step (by simp; omega) (nextToken_hyphen _)]
  have h3 : nextToken (coordText X' Y' Z') = some (⟨.coord, coordText X' Y' Z'⟩, []) := by
    simpa using nextToken_coord hB stops_nil
  rw [tokFuel_step (by simp; omega) h3, tokFuel_nil]

theorem tokenize_open {X Y Z} (hA : IsCoord X Y Z) :
    tokenize (coordText X Y Z ++ ['-']) = [⟨.coord, coordText X Y Z⟩, ⟨.hyphen, ['-']⟩] := by
  have h1 := coordText_pos hA
  unfold tokenize
  rw [tokFuel_step (by simp) (nextToken_coord hA (stops_hyphen _))]
  rw [tokFuel_step (by simp; omega) (nextToken_hyphen _), tokFuel_nil]

theorem parse_with_body {c body : Str} (hc : GoodName c) (hb : ':' ∉ body) :
    parseRegionString (c ++ ':' :: body) =
      match expectToks (tokenize body) with
      | .error _ => .error .value
      | .ok (a, b) => .ok (c, some a, b) := by
  unfold parseRegionString
  rw [splitChar_app body hc.nocolon, splitChar_no_sep hb]
  simp only [hc.stripped, hc.ne, if_false]
  cases expectToks (tokenize body) with
  | error e => rfl
  | ok v => rfl

/-- **region_denotes**: `name:A-B` with L0 numerals `A ≤ B` parses to the name and exactly the two
denoted integers -/
theorem region_denotes (c A B : Str) (a b : Nat) (hc : GoodName c)
    (hA : numeralValue A = some a) (hB : numeralValue B = some b) (hab : a ≤ b) :
    parseRegionString (c ++ ':' :: A ++ '-' :: B) = .ok (c, some a, some b) := by
  obtain ⟨X, Y, Z, rfl, hAc, hAp⟩ := numeral_shape hA
  obtain ⟨X', Y', Z', rfl, hBc, hBp⟩ := numeral_shape hB
  have hb : ':' ∉ coordText X Y Z ++ '-' :: coordText X' Y' Z' := by
    intro hm
    rcases List.mem_append.mp hm with h | h
    · exact (coordText_chars hAc _ h).1 rfl
    · rcases List.mem_cons.mp h with h | h
      · exact absurd h (by decide)
      · exact (coordText_chars hBc _ h).1 rfl
  have e : c ++ ':' :: coordText X Y Z ++ '-' :: coordText X' Y' Z'
      = c ++ ':' :: (coordText X Y Z ++ '-' :: coordText X' Y' Z') := by simp
  rw [e, parse_with_body hc hb, tokenize_closed hAc hBc]
  have : ¬ b < a := by omega
  simp [expectToks, hAp, hBp, this]

/-- the open-ended form `name:A-` -/
theorem region_denotes_open (c A : Str) (a : Nat) (hc : GoodName c) (hA : numeralValue A = some a) :
    parseRegionString (c ++ ':' :: A ++ ['-']) = .ok (c, some a, none) := by
  obtain ⟨X, Y, Z, rfl, hAc, hAp⟩ := numeral_shape hA
  have hb : ':' ∉ coordText X Y Z ++ ['-'] := by
    intro hm
    rcases List.mem_append.mp hm with h | h
    · exact (coordText_chars hAc _ h).1 rfl
    · simp at h
  have e : c ++ ':' :: coordText X Y Z ++ ['-'] = c ++ ':' :: (coordText X Y Z ++ ['-']) := by simp
  rw [e, parse_with_body hc hb, tokenize_open hAc]
  simp [expectToks, hAp]

/-- **parse_name_only**: a bare name is the whole chromosome -/
theorem parse_name_only (c : Str) (hc : GoodName c) : parseRegionString c = .ok (c, none, none) := by
  unfold parseRegionString
  rw [splitChar_no_sep hc.nocolon]
  simp [hc.stripped, hc.ne]

theorem numeralValue_digits {D : Str} (hne : D ≠ []) (hD : ∀ c ∈ D, isDigit c = true) :
    numeralValue D = some (natOfDigits D) := by
  have hdc : ∀ c ∈ D, isDigitComma c = true := fun c hc => by simp [isDigitComma, hD c hc]
  have h1 : D.takeWhile isDigitComma = D := by simpa using takeWhile_app (b := []) hdc (by simp)
  have h2 : D.dropWhile isDigitComma = [] := by simpa using dropWhile_app (b := []) hdc (by simp)
  have h3 : D.filter (· != ',') = D := filter_id (fun c hc => digit_ne_comma (hD c hc))
  obtain ⟨d, D', rfl⟩ := List.exists_cons_of_ne_nil hne
  have hd := hD d (by simp)
  unfold numeralValue
  simp only [h1, h2, h3, hd]
  simp

theorem numeralValue_digitsOf (n : Nat) : numeralValue (digitsOf n) = some n := by
  rw [numeralValue_digits (digitsOf_ne_nil n) (digitsOf_isDigit n), digits_roundtrip]

/-- **parse_format_id**: formatting a region and parsing it back is the identity, for every name that is
non-empty, contains no `:` and has no blank at either end (inner blanks, `-`, `.`, digits are all
fine), and all `s ≤ e`. -/
theorem parse_format_id (c : Str) (s e : Nat) (hc : GoodName c) (hse : s ≤ e) :
    parseRegionString (formatRegion c s e) = .ok (c, some s, some e) :=
  region_denotes c _ _ s e hc (numeralValue_digitsOf s) (numeralValue_digitsOf e) hse

/-- the open-ended form parses back with no end -/
theorem parse_format_open (c : Str) (s : Nat) (hc : GoodName c) :
    parseRegionString (formatRegionOpen c s) = .ok (c, some s, none) :=
  region_denotes_open c _ s hc (numeralValue_digitsOf s)

/-- non-vacuity: a name with inner blank, hyphen, dot and digits satisfies `GoodName` -/
example : GoodName ['c', 'h', 'r', ' ', '2', '-', 'b', '.', '1'] := ⟨by decide, by decide, by decide⟩

example : parseRegionString (formatRegion ['1', '-', '2'] 5 1005) = .ok (['1', '-', '2'], some 5, some 1005) :=
  parse_format_id _ _ _ ⟨by decide, by decide, by decide⟩ (by omega)

/-- splitting a text at the first occurrence of `d` -/
theorem sep_split (d : Char) (s : Str) :
    d ∉ s.takeWhile (· != d) ∧
    ((s.dropWhile (· != d) = [] ∧ s = s.takeWhile (· != d)) ∨
     ∃ body, s.dropWhile (· != d) = d :: body ∧ s = s.takeWhile (· != d) ++ d :: body) := by
  constructor
  · intro hm
    have := mem_takeWhile hm
    simp at this
  · have hs : s = s.takeWhile (· != d) ++ s.dropWhile (· != d) := (List.takeWhile_append_dropWhile).symm
    cases hr : s.dropWhile (· != d) with
    | nil => left; refine ⟨rfl, ?_⟩; rw [hr] at hs; simpa using hs
    | cons c r =>
      right
      have := dropWhile_head hr
      simp at this
      subst this
      exact ⟨r, rfl, by rw [hr] at hs; exact hs⟩

theorem not_mem_of_any_false {d : Char} {l : Str} (h : l.any (· == d) = false) : d ∉ l := by
  intro hm
  have := List.any_eq_false.mp h d hm
  simp at this

/-- **strict_parses** (L1 = L0 on the well-formed domain): every string the L0 grammar `strictRegion`
reads as a region is parsed by `parse_region_string` to exactly the triple it denotes. -/
theorem strict_parses (s : Str) (v : Str × Option Nat × Option Nat) (h : strictRegion s = some v) :
    parseRegionString s = .ok v := by
  unfold strictRegion at h
  obtain ⟨hnc, hsplit⟩ := sep_split ':' s
  generalize hname : s.takeWhile (· != ':') = name at h hnc hsplit
  by_cases hbad : name = [] ∨ strip name ≠ name
  · simp [hbad] at h
  simp only [hbad, if_false] at h
  have hc : GoodName name := ⟨fun e => hbad (Or.inl e), hnc, by
    cases hs : decide (strip name = name) with
    | true => exact of_decide_eq_true hs
    | false => exact absurd (Or.inr (of_decide_eq_false hs)) hbad⟩
  rcases hsplit with ⟨hd, hs⟩ | ⟨body, hd, hs⟩
  · simp only [hd, Option.some.injEq] at h
    rw [hs, ← h]; exact parse_name_only name hc
  · simp only [hd] at h
    by_cases hany : body.any (· == ':') = true
    · simp [hany] at h
    simp only [hany, Bool.false_eq_true, if_false] at h
    obtain ⟨hnh, hsplit2⟩ := sep_split '-' body
    generalize hA : body.takeWhile (· != '-') = A at h hnh hsplit2
    rcases hsplit2 with ⟨hd2, _⟩ | ⟨b, hd2, hs2⟩
    · simp [hd2] at h
    · simp only [hd2] at h
      cases hx : numeralValue A with
      | none => simp [hx] at h
      | some x =>
        simp only [hx] at h
        by_cases hb : b = []
        · subst hb
          simp only [if_true, Option.some.injEq] at h
          rw [hs, hs2, ← h]
          have := region_denotes_open name A x hc hx
          simpa using this
        · simp only [hb, if_false] at h
          cases hy : numeralValue b with
          | none => simp [hy] at h
          | some y =>
            simp only [hy] at h
            by_cases hxy : x ≤ y
            · simp only [hxy, if_true, Option.some.injEq] at h
              rw [hs, hs2, ← h]
              have := region_denotes name A b x y hc hx hy hxy
              simpa using this
            · simp [hxy] at h

/-! ## refusals -/

theorem split_head (s : Str) : ∃ ps, splitChar ':' s = s.takeWhile (· != ':') :: ps := by
  obtain ⟨hnc, h | ⟨body, _, h⟩⟩ := sep_split ':' s
  · refine ⟨[], ?_⟩
    have h3 := splitChar_no_sep hnc
    rw [← h.2] at h3
    rw [h3, ← h.2]
  · refine ⟨splitChar ':' body, ?_⟩
    have := splitChar_app body hnc
    rw [← h] at this; exact this

/-- an empty (or all-blank) name is refused -/
theorem refuses_empty_name (s : Str) (h : strip (s.takeWhile (· != ':')) = []) :
    parseRegionString s = .error .value := by
  obtain ⟨ps, hps⟩ := split_head s
  unfold parseRegionString
  simp [hps, h]

theorem parse_error_of_expect {c body : Str} (hc : ':' ∉ c) (hb : ':' ∉ body)
    (h : expectToks (tokenize body) = .error .value) :
    parseRegionString (c ++ ':' :: body) = .error .value := by
  unfold parseRegionString
  rw [splitChar_app body hc, splitChar_no_sep hb]
  by_cases hs : strip c = []
  · simp [hs]
  · simp [hs, h]

theorem tokenize_first {l r : Str} {t : Tok} (h : nextToken l = some (t, r)) :
    ∃ rest, tokenize l = t :: rest := by
  cases l with
  | nil => simp [nextToken] at h
  | cons c l => exact ⟨_, tokFuel_step (by simp) h⟩

/-- a coordinate part whose first non-blank character is neither a digit nor a comma (a hyphen: a
negative start; a letter, a dot, …: non-numeric) is refused -/
theorem refuses_bad_start (ws rest : Str) (c : Char) (hws : ∀ x ∈ ws, isSpace x = true)
    (hsp : isSpace c = false) (hdc : isDigitComma c = false) :
    expectToks (tokenize (ws ++ c :: rest)) = .error .value := by
  have hb : ∀ x ∈ (c :: rest).head?, isSpace x = false := by
    intro x hx; simp at hx; subst hx; exact hsp
  have : ∃ t r, nextToken (ws ++ c :: rest) = some (t, r) ∧ t.typ ≠ .coord := by
    unfold nextToken
    rw [dropWhile_app hws hb]
    by_cases hh : c = '-'
    · exact ⟨⟨.hyphen, ['-']⟩, rest, by simp [hh], by simp⟩
    · exact ⟨⟨.other, (c :: rest).takeWhile (fun x => !isNewline x)⟩,
        (c :: rest).dropWhile (fun x => !isNewline x), by simp [hh, hdc], by simp⟩
  obtain ⟨t, r, hn, ht⟩ := this
  obtain ⟨rest', hr⟩ := tokenize_first hn
  rw [hr]
  simp [expectToks, ht]

/-- a COORD token that `parse_humanized` rejects (unknown unit, fraction without unit, …) as start -/
theorem refuses_bad_first_numeral {X Y Z} (rest : Str) (hA : IsCoord X Y Z)
    (hp : parseHumanized (coordText X Y Z) = .error .value) :
    expectToks (tokenize (coordText X Y Z ++ '-' :: rest)) = .error .value := by
  obtain ⟨r, hr⟩ := tokenize_first (nextToken_coord hA (stops_hyphen rest))
  rw [hr]
  simp [expectToks, hp]

theorem tokenize_two {X Y Z} (rest : Str) (hA : IsCoord X Y Z) :
    tokenize (coordText X Y Z ++ '-' :: rest)
      = ⟨.coord, coordText X Y Z⟩ :: ⟨.hyphen, ['-']⟩ :: tokFuel (coordText X Y Z ++ '-' :: rest).length.pred.pred rest := by
  have h1 := coordText_pos hA
  unfold tokenize
  rw [tokFuel_step (by simp only [List.length_append, List.length_cons]; omega) (nextToken_coord hA (stops_hyphen _))]
  rw [tokFuel_step (by simp only [List.length_append, List.length_cons]; omega) (nextToken_hyphen _)]
  rfl

/-- after a good start and the hyphen: an end that does not begin (after blanks) with a digit or comma
(a second hyphen: negative end; letters …: non-numeric) is refused -/
theorem refuses_bad_end (A ws rest : Str) (a : Nat) (c : Char) (hA : numeralValue A = some a)
    (hws : ∀ x ∈ ws, isSpace x = true) (hsp : isSpace c = false) (hdc : isDigitComma c = false) :
    expectToks (tokenize (A ++ '-' :: (ws ++ c :: rest))) = .error .value := by
  obtain ⟨X, Y, Z, rfl, hAc, hAp⟩ := numeral_shape hA
  rw [tokenize_two _ hAc]
  have hb : ∀ x ∈ (c :: rest).head?, isSpace x = false := by
    intro x hx; simp at hx; subst hx; exact hsp
  have : ∃ t r, nextToken (ws ++ c :: rest) = some (t, r) ∧ t.typ ≠ .coord := by
    unfold nextToken
    rw [dropWhile_app hws hb]
    by_cases hh : c = '-'
    · exact ⟨⟨.hyphen, ['-']⟩, rest, by simp [hh], by simp⟩
    · exact ⟨⟨.other, (c :: rest).takeWhile (fun x => !isNewline x)⟩,
        (c :: rest).dropWhile (fun x => !isNewline x), by simp [hh, hdc], by simp⟩
  obtain ⟨t, r, hn, ht⟩ := this
  have hpos : 0 < (coordText X Y Z ++ '-' :: (ws ++ c :: rest)).length.pred.pred := by
    have := coordText_pos hAc
    simp; omega
  rw [tokFuel_step hpos hn]
  simp [expectToks, hAp, ht]

/-- a COORD token that `parse_humanized` rejects as end -/
theorem refuses_bad_second_numeral {X Y Z} (A rest : Str) (a : Nat) (hA : numeralValue A = some a)
    (hB : IsCoord X Y Z) (hr : Stops rest) (hp : parseHumanized (coordText X Y Z) = .error .value) :
    expectToks (tokenize (A ++ '-' :: (coordText X Y Z ++ rest))) = .error .value := by
  obtain ⟨X', Y', Z', rfl, hAc, hAp⟩ := numeral_shape hA
  rw [tokenize_two _ hAc]
  have hpos : 0 < (coordText X' Y' Z' ++ '-' :: (coordText X Y Z ++ rest)).length.pred.pred := by
    have := coordText_pos hAc
    have := coordText_pos hB
    simp; omega
  rw [tokFuel_step hpos (nextToken_coord hB hr)]
  simp [expectToks, hAp, hp]

/-- reversed coordinates are refused -/
theorem refuses_reversed (A B : Str) (a b : Nat) (hA : numeralValue A = some a)
    (hB : numeralValue B = some b) (hba : b < a) :
    expectToks (tokenize (A ++ '-' :: B)) = .error .value := by
  obtain ⟨X, Y, Z, rfl, hAc, hAp⟩ := numeral_shape hA
  obtain ⟨X', Y', Z', rfl, hBc, hBp⟩ := numeral_shape hB
  rw [tokenize_closed hAc hBc]
  simp [expectToks, hAp, hBp, hba]

/-- digits (and an optional fraction) followed by letters that are not a unit: refused by
`parse_humanized` -/
theorem humanized_unknown_unit (s V U : Str) (hs : s.filter (· != ',') = V ++ U) (hV : V ≠ [])
    (hVn : ∀ c ∈ V, isNumeric c = true) (hUn : ∀ c ∈ U, isNumeric c = false) (hU : U ≠ [])
    (hu : unitExp (strip (U.map upper)) = none) : parseHumanized s = .error .value := by
  rw [humanized_shape s V U hs hV hVn hUn]
  simp only [hU, if_false, hu]
  cases pyDecimal V <;> rfl

/-- a fraction without a unit is refused (`int("1.5")`) -/
theorem humanized_fraction_without_unit (s I F : Str) (hs : s.filter (· != ',') = I ++ '.' :: F)
    (hI : ∀ c ∈ I, isDigit c = true) (hF : ∀ c ∈ F, isDigit c = true) :
    parseHumanized s = .error .value := by
  have hV : ∀ c ∈ I ++ '.' :: F, isNumeric c = true := by
    intro c hc
    rcases List.mem_append.mp hc with h | h
    · exact digit_numeric (hI c h)
    · rcases List.mem_cons.mp h with h | h
      · subst h; decide
      · exact digit_numeric (hF c h)
  rw [humanized_shape s (I ++ '.' :: F) [] (by simpa using hs) (by simp) hV (by simp)]
  have : (I ++ '.' :: F).all isDigit = false := by
    rw [List.all_eq_false]; exact ⟨'.', by simp, by decide⟩
  simp [pyInt, this]

/-! ### no hyphen in the coordinate part -/

theorem scanCoord_snd_subset (l : Str) : ∀ c ∈ (scanCoord l).2, c ∈ l := by
  intro c hc
  simp only [scanCoord] at hc
  split at hc
  · rename_i r heq
    have h1 : c ∈ r := (List.dropWhile_sublist _).subset ((List.dropWhile_sublist _).subset hc)
    have h2 : c ∈ l.dropWhile isDigitComma := by rw [heq]; exact List.mem_cons_of_mem _ h1
    exact (List.dropWhile_sublist _).subset h2
  · exact (List.dropWhile_sublist _).subset ((List.dropWhile_sublist _).subset hc)

theorem nextToken_facts {l r : Str} {t : Tok} (h : nextToken l = some (t, r)) :
    (t.typ = .hyphen → '-' ∈ l) ∧ ∀ c ∈ r, c ∈ l := by
  unfold nextToken at h
  split at h
  · split at h
    · simp at h
    · simp only [Option.some.injEq, Prod.mk.injEq] at h
      obtain ⟨rfl, rfl⟩ := h
      refine ⟨by simp, ?_⟩
      intro c hc
      have := (List.takeWhile_sublist _).subset (List.mem_reverse.mp hc)
      exact List.mem_reverse.mp this
  · rename_i c r' heq
    have hsub : ∀ x ∈ c :: r', x ∈ l := by
      intro x hx; rw [← heq] at hx; exact (List.dropWhile_sublist _).subset hx
    split at h
    · rename_i hc
      simp only [Option.some.injEq, Prod.mk.injEq] at h
      obtain ⟨rfl, rfl⟩ := h
      exact ⟨fun _ => by subst hc; exact hsub _ (by simp), fun x hx => hsub x (List.mem_cons_of_mem _ hx)⟩
    · split at h
      · simp only [Option.some.injEq, Prod.mk.injEq] at h
        obtain ⟨rfl, rfl⟩ := h
        exact ⟨by simp, fun x hx => hsub x (scanCoord_snd_subset _ x hx)⟩
      · simp only [Option.some.injEq, Prod.mk.injEq] at h
        obtain ⟨rfl, rfl⟩ := h
        exact ⟨by simp, fun x hx => hsub x ((List.dropWhile_sublist _).subset hx)⟩

theorem tokFuel_no_hyphen : ∀ (f : Nat) (l : Str), '-' ∉ l → ∀ t ∈ tokFuel f l, t.typ ≠ .hyphen := by
  intro f
  induction f with
  | zero => intro l _ t ht; simp [tokFuel] at ht
  | succ f ih =>
    intro l hl t ht
    unfold tokFuel at ht
    split at ht
    · simp at ht
    · rename_i t' r heq
      obtain ⟨h1, h2⟩ := nextToken_facts heq
      rcases List.mem_cons.mp ht with h | h
      · subst h; exact fun e => hl (h1 e)
      · exact ih r (fun hm => hl (h2 _ hm)) t h

/-- a coordinate part without any hyphen is refused, whatever else it contains -/
theorem refuses_missing_hyphen (body : Str) (h : '-' ∉ body) :
    expectToks (tokenize body) = .error .value := by
  have hn := tokFuel_no_hyphen body.length body h
  unfold tokenize
  generalize tokFuel body.length body = toks at hn
  match toks, hn with
  | [], _ => rfl
  | [t1], _ =>
    by_cases h1 : t1.typ = .coord
    · cases hp : parseHumanized t1.text <;> simp [expectToks, h1, hp]
    · simp [expectToks, h1]
  | t1 :: t2 :: rest, hn =>
    have h2 := hn t2 (by simp)
    by_cases h1 : t1.typ = .coord
    · cases hp : parseHumanized t1.text <;> simp [expectToks, h1, hp, h2]
    · simp [expectToks, h1]

theorem not_colon_of_numeral {A : Str} {a : Nat} (h : numeralValue A = some a) : ':' ∉ A ∧ '-' ∉ A := by
  obtain ⟨X, Y, Z, rfl, hc, _⟩ := numeral_shape h
  exact ⟨fun hm => (coordText_chars hc _ hm).1 rfl, fun hm => (coordText_chars hc _ hm).2 rfl⟩

/-- digits followed by letters that are not a unit form a COORD token that `parse_humanized` rejects -/
theorem unknown_unit_token (I U : Str) (hI : ∀ c ∈ I, isDigit c = true) (hIne : I ≠ [])
    (hU : ∀ c ∈ U, isLetter c = true) (hUne : U ≠ []) (hu : unitExp (strip (U.map upper)) = none) :
    IsCoord I none U ∧ parseHumanized (coordText I none U) = .error .value := by
  refine ⟨⟨hIne, fun c hc => by simp [isDigitComma, hI c hc], by simp, hU⟩, ?_⟩
  apply humanized_unknown_unit _ I U _ hIne (fun c hc => digit_numeric (hI c hc))
    (fun c hc => letter_not_numeric (hU c hc)) hUne hu
  simp only [coordText, List.append_nil, List.filter_append]
  rw [filter_id (fun c hc => digit_ne_comma (hI c hc)), filter_id (fun c hc => letter_ne_comma (hU c hc))]

/-- **region_refuses**: each malformed class the property lists is refused.
1. empty or blank name; 2. no hyphen after the colon; 3. the coordinate part starts (after blanks)
with something that is not a digit — a hyphen (negative start) or any other text (non-numeric);
4. the same for the end; 5. reversed coordinates; 6./7. an unknown unit on the start / on the end. -/
theorem region_refuses :
    (∀ s : Str, strip (s.takeWhile (· != ':')) = [] → parseRegionString s = .error .value) ∧
    (∀ c body : Str, ':' ∉ c → ':' ∉ body → '-' ∉ body →
      parseRegionString (c ++ ':' :: body) = .error .value) ∧
    (∀ (c ws rest : Str) (ch : Char), ':' ∉ c → ':' ∉ ws ++ ch :: rest → (∀ x ∈ ws, isSpace x = true) →
      isSpace ch = false → isDigitComma ch = false →
      parseRegionString (c ++ ':' :: (ws ++ ch :: rest)) = .error .value) ∧
    (∀ (c A ws rest : Str) (a : Nat) (ch : Char), ':' ∉ c → ':' ∉ ws ++ ch :: rest →
      numeralValue A = some a → (∀ x ∈ ws, isSpace x = true) → isSpace ch = false → isDigitComma ch = false →
      parseRegionString (c ++ ':' :: (A ++ '-' :: (ws ++ ch :: rest))) = .error .value) ∧
    (∀ (c A B : Str) (a b : Nat), ':' ∉ c → numeralValue A = some a → numeralValue B = some b → b < a →
      parseRegionString (c ++ ':' :: (A ++ '-' :: B)) = .error .value) ∧
    (∀ (c I U rest : Str), ':' ∉ c → ':' ∉ rest → (∀ x ∈ I, isDigit x = true) → I ≠ [] →
      (∀ x ∈ U, isLetter x = true) → U ≠ [] → unitExp (strip (U.map upper)) = none →
      parseRegionString (c ++ ':' :: (I ++ U ++ '-' :: rest)) = .error .value) ∧
    (∀ (c A I U : Str) (a : Nat), ':' ∉ c → numeralValue A = some a → (∀ x ∈ I, isDigit x = true) → I ≠ [] →
      (∀ x ∈ U, isLetter x = true) → U ≠ [] → unitExp (strip (U.map upper)) = none →
      parseRegionString (c ++ ':' :: (A ++ '-' :: (I ++ U))) = .error .value) := by
  refine ⟨refuses_empty_name, ?_, ?_, ?_, ?_, ?_, ?_⟩
  · intro c body hc hb hh
    exact parse_error_of_expect hc hb (refuses_missing_hyphen body hh)
  · intro c ws rest ch hc hb hws hsp hdc
    exact parse_error_of_expect hc hb (refuses_bad_start ws rest ch hws hsp hdc)
  · intro c A ws rest a ch hc hb hA hws hsp hdc
    have hAc := (not_colon_of_numeral hA).1
    refine parse_error_of_expect hc ?_ (refuses_bad_end A ws rest a ch hA hws hsp hdc)
    intro hm
    rcases List.mem_append.mp hm with h | h
    · exact hAc h
    · rcases List.mem_cons.mp h with h | h
      · exact absurd h (by decide)
      · exact hb h
  · intro c A B a b hc hA hB hba
    refine parse_error_of_expect hc ?_ (refuses_reversed A B a b hA hB hba)
    intro hm
    rcases List.mem_append.mp hm with h | h
    · exact (not_colon_of_numeral hA).1 h
    · rcases List.mem_cons.mp h with h | h
      · exact absurd h (by decide)
      · exact (not_colon_of_numeral hB).1 h
  · intro c I U rest hc hr hI hIne hU hUne hu
    obtain ⟨hco, hp⟩ := unknown_unit_token I U hI hIne hU hUne hu
    have e : I ++ U = coordText I none U := by simp [coordText]
    rw [e]
    refine parse_error_of_expect hc ?_ (refuses_bad_first_numeral rest hco hp)
    intro hm
    rcases List.mem_append.mp hm with h | h
    · exact (coordText_chars hco _ h).1 rfl
    · rcases List.mem_cons.mp h with h | h
      · exact absurd h (by decide)
      · exact hr h
  · intro c A I U a hc hA hI hIne hU hUne hu
    obtain ⟨hco, hp⟩ := unknown_unit_token I U hI hIne hU hUne hu
    have e : I ++ U = coordText I none U ++ [] := by simp [coordText]
    rw [e]
    refine parse_error_of_expect hc ?_ (refuses_bad_second_numeral A [] a hA hco stops_nil hp)
    intro hm
    rcases List.mem_append.mp hm with h | h
    · exact (not_colon_of_numeral hA).1 h
    · rcases List.mem_cons.mp h with h | h
      · exact absurd h (by decide)
      · simp only [List.append_nil] at h; exact (coordText_chars hco _ h).1 rfl

/-- non-vacuity of the refusal classes on concrete strings: `:1-2`, `c:5`, `c:-5-10`, `c:x-2`, `c:10-5`, `c:1x-2` -/
example : parseRegionString [':', '1', '-', '2'] = .error .value := by rfl
example : parseRegionString ['c', ':', '5'] = .error .value := by rfl
example : parseRegionString ['c', ':', '-', '5', '-', '1', '0'] = .error .value := by rfl
example : parseRegionString ['c', ':', 'x', '-', '2'] = .error .value := by rfl
example : parseRegionString ['c', ':', '1', '0', '-', '5'] = .error .value := by rfl
example : parseRegionString ['c', ':', '1', 'x', '-', '2'] = .error .value := by rfl

/-! ## parse_region -/

/-- **parseRegion_refuses**: unknown chromosome; end beyond the chromosome; negative start; end before
start; no end and no size table -/
theorem parseRegion_refuses (c : Str) (a b : Option Int) (m : List (Str × Nat)) :
    (lookup m c = none → checkRegion c a b (some m) = .error .value) ∧
    (∀ L e, lookup m c = some L → b = some e → e > (L : Int) → checkRegion c a b (some m) = .error .value) ∧
    (∀ s cs, a = some s → s < 0 → checkRegion c a b cs = .error .value) ∧
    (∀ e cs, b = some e → e < a.getD 0 → checkRegion c a b cs = .error .value) ∧
    (b = none → checkRegion c a b none = .error .value) := by
  refine ⟨?_, ?_, ?_, ?_, ?_⟩
  · intro h; simp [checkRegion, chromLen, h]
  · intro L e h hb he
    subst hb
    have : beyond (some L) e = true := by simp [beyond, he]
    simp only [checkRegion, chromLen, h, checkBounds, endOf, this]
    split
    · rfl
    · split <;> rfl
  · intro s cs ha hs
    subst ha
    unfold checkRegion
    split
    · rfl
    · unfold checkBounds
      split
      · rfl
      · simp only [Option.getD_some, hs, if_true]
        split <;> rfl
  · intro e cs hb he
    subst hb
    unfold checkRegion
    split
    · rfl
    · simp [checkBounds, endOf, he]
  · intro hb; subst hb; simp [checkRegion, chromLen, checkBounds, endOf]

/-- **parseRegion_sound**: an accepted region keeps the name, fills the defaults (start 0, end = length)
and lies within the chromosome: `0 ≤ start ≤ end ≤ length` -/
theorem parseRegion_sound (c c' : Str) (a b : Option Int) (cs : Option (List (Str × Nat))) (s e : Int)
    (h : checkRegion c a b cs = .ok (c', s, e)) :
    c' = c ∧ s = a.getD 0 ∧ 0 ≤ s ∧ s ≤ e ∧
    (∀ m, cs = some m → ∃ L, lookup m c = some L ∧ e ≤ (L : Int) ∧ e = b.getD (L : Int)) ∧
    (cs = none → b = some e) := by
  unfold checkRegion at h
  split at h
  · simp at h
  · rename_i clen hclen
    unfold checkBounds at h
    split at h
    · simp at h
    · rename_i e' he'
      split at h
      · simp at h
      · split at h
        · simp at h
        · split at h
          · simp at h
          · rename_i h1 h2 h3
            simp only [Except.ok.injEq, Prod.mk.injEq] at h
            obtain ⟨rfl, rfl, rfl⟩ := h
            refine ⟨rfl, rfl, by omega, by omega, ?_, ?_⟩
            · intro m hm
              subst hm
              unfold chromLen at hclen
              simp only at hclen
              cases hl : lookup m c with
              | none => simp [hl] at hclen
              | some L =>
                simp only [hl, Except.ok.injEq] at hclen
                subst hclen
                refine ⟨L, rfl, ?_, ?_⟩
                · simp [beyond] at h3; exact h3
                · cases b with
                  | none => simp [endOf] at he'; simp [he']
                  | some b' => simp [endOf] at he'; simp [he']
            · intro hn
              subst hn
              simp only [chromLen, Except.ok.injEq] at hclen
              subst hclen
              cases b with
              | none => simp [endOf] at he'
              | some b' => simp [endOf] at he'; simp [he']

/-- a region inside a known chromosome is accepted as it stands -/
theorem parseRegion_accepts (c : Str) (m : List (Str × Nat)) (L : Nat) (s e : Int)
    (hl : lookup m c = some L) (h0 : 0 ≤ s) (hse : s ≤ e) (heL : e ≤ (L : Int)) :
    checkRegion c (some s) (some e) (some m) = .ok (c, s, e) := by
  have h1 : ¬ e < s := by omega
  have h2 : ¬ s < 0 := by omega
  have h3 : ¬ e > (L : Int) := by omega
  simp [checkRegion, chromLen, checkBounds, endOf, beyond, hl, h1, h2, h3]

set_option maxRecDepth 8000 in
example : parseRegion (.str ['c', ':', '1', 'k', '-']) (some [(['c'], 5000)]) = .ok (['c'], 1000, 5000) := by rfl
set_option maxRecDepth 8000 in
example : parseRegion (.str ['c', ':', '1', 'k', '-', '6', 'k']) (some [(['c'], 5000)]) = .error .value := by rfl

/-! ## parse_cooler_uri -/

theorem splitDC_no_sep : ∀ (s : Str), hasDC s = false → splitDC s = [s] := by
  intro s
  induction s with
  | nil => intro _; rfl
  | cons c t ih =>
    intro h
    cases t with
    | nil => rfl
    | cons d cs =>
      simp only [hasDC, Bool.or_eq_false_iff, Bool.and_eq_false_iff, beq_eq_false_iff_ne] at h
      have hcd : ¬ (c = ':' ∧ d = ':') := by
        rintro ⟨h1, h2⟩; rcases h.1 with h' | h' <;> contradiction
      simp [splitDC, hcd, ih h.2]

theorem splitDC_ne_nil : ∀ (s : Str), splitDC s ≠ [] := by
  intro s
  induction s with
  | nil => simp [splitDC]
  | cons c t ih =>
    cases t with
    | nil => simp [splitDC]
    | cons d cs =>
      unfold splitDC
      split
      · simp
      · split <;> simp

/-- the first `::` of `f ++ "::" ++ g` is the one written, provided `f:` contains no `::`
(i.e. `f` contains none and does not end with a colon) -/
theorem splitDC_app : ∀ (f g : Str), hasDC (f ++ [':']) = false →
    splitDC (f ++ ':' :: ':' :: g) = f :: splitDC g := by
  intro f
  induction f with
  | nil => intro g _; simp [splitDC]
  | cons c t ih =>
    intro g h
    cases t with
    | nil =>
      have hc : c ≠ ':' := by
        intro e; subst e; simp [hasDC] at h
      have := splitDC_ne_nil g
      simp [splitDC, hc]
    | cons d cs =>
      simp only [List.cons_append, hasDC, Bool.or_eq_false_iff, Bool.and_eq_false_iff,
        beq_eq_false_iff_ne] at h
      have hcd : ¬ (c = ':' ∧ d = ':') := by
        rintro ⟨h1, h2⟩; rcases h.1 with h' | h' <;> contradiction
      have ih' := ih g (by simpa using h.2)
      simp only [List.cons_append] at ih' ⊢
      simp [splitDC, hcd, ih']

theorem hasDC_slash {g : Str} (h : hasDC g = false) : hasDC ('/' :: g) = false := by
  cases g with
  | nil => rfl
  | cons d cs => simp [hasDC, h]

/-- **uri_no_sep**: without `::` the whole text is the file and the group is the root -/
theorem uri_no_sep (s : Str) (h : hasDC s = false) : parseCoolerUri s = .ok (s, ['/']) := by
  simp [parseCoolerUri, splitDC_no_sep s h]

/-- **uri_slash**: `f::g` and `f::/g` denote the same pair `(f, /g)` (for `g` not already starting
with `/`; if it does, `f::g` gives `(f, g)`) -/
theorem uri_slash (f g : Str) (hf : hasDC (f ++ [':']) = false) (hg : hasDC g = false) :
    (g.head? ≠ some '/' →
      parseCoolerUri (f ++ ':' :: ':' :: g) = .ok (f, '/' :: g) ∧
      parseCoolerUri (f ++ ':' :: ':' :: '/' :: g) = parseCoolerUri (f ++ ':' :: ':' :: g)) ∧
    (g.head? = some '/' → parseCoolerUri (f ++ ':' :: ':' :: g) = .ok (f, g)) := by
  have h1 : parseCoolerUri (f ++ ':' :: ':' :: '/' :: g) = .ok (f, '/' :: g) := by
    simp [parseCoolerUri, splitDC_app f _ hf, splitDC_no_sep _ (hasDC_slash hg)]
  constructor
  · intro hh
    have h2 : parseCoolerUri (f ++ ':' :: ':' :: g) = .ok (f, '/' :: g) := by
      simp [parseCoolerUri, splitDC_app f _ hf, splitDC_no_sep _ hg, hh]
    exact ⟨h2, by rw [h1, h2]⟩
  · intro hh
    simp [parseCoolerUri, splitDC_app f _ hf, splitDC_no_sep _ hg, hh]

/-- **uri_two_sep**: two separators are refused -/
theorem uri_two_sep (a b c : Str) (ha : hasDC (a ++ [':']) = false) (hb : hasDC (b ++ [':']) = false) :
    parseCoolerUri (a ++ ':' :: ':' :: (b ++ ':' :: ':' :: c)) = .error .value := by
  unfold parseCoolerUri
  rw [splitDC_app a _ ha, splitDC_app b _ hb]
  cases h : splitDC c with
  | nil => exact absurd h (splitDC_ne_nil c)
  | cons p ps => rfl

/-- non-vacuity: `a.cool::x/y` and `a.cool::/x/y` -/
example : parseCoolerUri ['a', ':', ':', 'x', '/', 'y'] = .ok (['a'], ['/', 'x', '/', 'y']) :=
  ((uri_slash ['a'] ['x', '/', 'y'] (by decide) (by decide)).1 (by decide)).1
example : parseCoolerUri ['C', ':', '\\', 'a', ':', ':', '/', 'x'] = .ok (['C', ':', '\\', 'a'], ['/', 'x']) := by rfl
example : parseCoolerUri ['a', ':', ':', 'b', ':', ':', 'c'] = .error .value :=
  uri_two_sep ['a'] ['b'] ['c'] (by decide) (by decide)

/-! ### any two separators are refused (no side condition) -/

theorem len_cons_ne {c : Char} (s : Str) (hc : c ≠ ':') :
    (splitDC (c :: s)).length = (splitDC s).length := by
  cases s with
  | nil => rfl
  | cons d cs =>
    have hcd : ¬ (c = ':' ∧ d = ':') := fun h => hc h.1
    obtain ⟨p, ps, h⟩ := List.exists_cons_of_ne_nil (splitDC_ne_nil (d :: cs))
    have e : splitDC (c :: d :: cs) = (c :: p) :: ps := by simp [splitDC, hcd, h]
    rw [e, h]; rfl

theorem len_dc (s : Str) : (splitDC (':' :: ':' :: s)).length = 1 + (splitDC s).length := by
  simp [splitDC]; omega

theorem len_colon_ne {d : Char} (s : Str) (hd : d ≠ ':') :
    (splitDC (':' :: d :: s)).length = (splitDC (d :: s)).length := by
  obtain ⟨p, ps, h⟩ := List.exists_cons_of_ne_nil (splitDC_ne_nil (d :: s))
  have e : splitDC (':' :: d :: s) = (':' :: p) :: ps := by simp [splitDC, hd, h]
  rw [e, h]; rfl

/-- a leading colon never lowers the number of parts -/
theorem len_colon_ge : ∀ (n : Nat) (y : Str), y.length ≤ n →
    (splitDC y).length ≤ (splitDC (':' :: y)).length := by
  intro n
  induction n with
  | zero =>
    intro y hy
    have : y = [] := List.eq_nil_of_length_eq_zero (by omega)
    subst this; simp [splitDC]
  | succ n ih =>
    intro y hy
    match y, hy with
    | [], _ => simp [splitDC]
    | d :: z, hy =>
      by_cases hd : d = ':'
      · subst hd
        rw [len_dc]
        match z, hy with
        | [], _ => simp [splitDC]
        | e :: w, hy =>
          by_cases he : e = ':'
          · subst he
            rw [len_dc]
            have := ih w (by simp at hy; omega)
            omega
          · rw [len_colon_ne w he]; omega
      · rw [len_colon_ne z hd]; omega

theorem len_sep_ge : ∀ (n : Nat) (a : Str), a.length ≤ n → ∀ r : Str,
    1 + (splitDC r).length ≤ (splitDC (a ++ ':' :: ':' :: r)).length := by
  intro n
  induction n with
  | zero =>
    intro a ha r
    have : a = [] := List.eq_nil_of_length_eq_zero (by omega)
    subst this
    simp only [List.nil_append, len_dc]; omega
  | succ n ih =>
    intro a ha r
    match a, ha with
    | [], _ => simp only [List.nil_append, len_dc]; omega
    | c :: a', ha =>
      by_cases hc : c = ':'
      · subst hc
        match a', ha with
        | [], _ =>
          simp only [List.cons_append, List.nil_append, len_dc]
          have := len_colon_ge r.length r (by omega)
          omega
        | d :: a'', ha =>
          by_cases hd : d = ':'
          · subst hd
            simp only [List.cons_append, len_dc]
            have := ih a'' (by simp at ha; omega) r
            omega
          · simp only [List.cons_append]
            rw [len_colon_ne _ hd, len_cons_ne _ hd]
            exact ih a'' (by simp at ha; omega) r
      · simp only [List.cons_append]
        rw [len_cons_ne _ hc]
        exact ih a' (by simp at ha; omega) r

/-- **uri_two_sep_any**: a text containing two (non-overlapping) `::` is refused, whatever surrounds them -/
theorem uri_two_sep_any (a b c : Str) :
    parseCoolerUri (a ++ ':' :: ':' :: (b ++ ':' :: ':' :: c)) = .error .value := by
  have h1 := len_sep_ge a.length a (by omega) (b ++ ':' :: ':' :: c)
  have h2 := len_sep_ge b.length b (by omega) c
  have h3 : 0 < (splitDC c).length := List.length_pos_iff.mpr (splitDC_ne_nil c)
  unfold parseCoolerUri
  generalize splitDC (a ++ ':' :: ':' :: (b ++ ':' :: ':' :: c)) = parts at h1
  match parts, h1 with
  | [], h1 => simp at h1
  | [_], h1 => simp at h1; omega
  | [_, _], h1 => simp at h1; omega
  | _ :: _ :: _ :: _, _ => rfl

/-! ## the L0 recogniser of malformed classes is sound for the model -/

theorem dropWhile_none {p : Char → Bool} {l : Str} (h : ∀ c ∈ l, p c = false) : l.dropWhile p = l := by
  cases l with
  | nil => rfl
  | cons a l => simp [h a (by simp)]

theorem strip_no_space {l : Str} (h : ∀ c ∈ l, isSpace c = false) : strip l = l := by
  unfold strip rstrip lstrip
  rw [dropWhile_none h, dropWhile_none (fun c hc => h c (List.mem_reverse.mp hc))]
  simp

theorem upper_not_space {c : Char} (h : isLetter c = true) : isSpace (upper c) = false := by
  unfold upper
  split
  · rename_i hl
    have key : ∀ i : Fin 26, isSpace (Char.ofNat (65 + i.val)) = false := by decide
    have : c.toNat - 32 = 65 + (c.toNat - 97) := by omega
    rw [this]
    exact key ⟨c.toNat - 97, by omega⟩
  · simp [isLetter, isSpace] at *; omega

theorem strip_upper_letters {U : Str} (h : ∀ c ∈ U, isLetter c = true) : strip (U.map upper) = U.map upper := by
  apply strip_no_space
  intro c hc
  obtain ⟨d, hd, rfl⟩ := List.mem_map.mp hc
  exact upper_not_space (h d hd)

/-- `badUnit`: a COORD token that `parse_humanized` rejects -/
theorem badUnit_shape {A : Str} (h : badUnit A = true) :
    ∃ X Y Z, A = coordText X Y Z ∧ IsCoord X Y Z ∧ parseHumanized A = .error .value := by
  cases A with
  | nil => simp [badUnit] at h
  | cons c0 t =>
    unfold badUnit at h
    simp only [Bool.and_eq_true, decide_eq_true_eq] at h
    obtain ⟨hd, h⟩ := h
    generalize hX : (c0 :: t).takeWhile isDigitComma = X at h
    generalize hR : (c0 :: t).dropWhile isDigitComma = R at h
    have hA : c0 :: t = X ++ R := by
      rw [← hX, ← hR]; exact (List.takeWhile_append_dropWhile).symm
    have hXm : ∀ c ∈ X, isDigitComma c = true := by
      intro c hc; rw [← hX] at hc; exact mem_takeWhile hc
    have hc0X : c0 ∈ X := by rw [← hX]; simp [isDigitComma, hd]
    have hXne : X ≠ [] := List.ne_nil_of_mem hc0X
    have hIn : ∀ c ∈ X.filter (· != ','), isNumeric c = true := by
      intro c hc
      have := hXm c (List.mem_filter.mp hc).1
      simp [isDigitComma] at this
      simp [isNumeric]
      rcases this with h | h
      · exact Or.inl (Or.inl h)
      · exact Or.inl (Or.inr h)
    have hIne : X.filter (· != ',') ≠ [] :=
      List.ne_nil_of_mem (List.mem_filter.mpr ⟨hc0X, digit_ne_comma hd⟩)
    rw [hA]
    -- the two shapes of the remainder
    have main : ∀ (Y : Option Str) (V' : Str) (Z : Str), R = (match Y with | some F => '.' :: F | none => []) ++ Z →
        (∀ F, Y = some F → ∀ c ∈ F, isDigit c = true) → Z ≠ [] → (∀ c ∈ Z, isLetter c = true) →
        unitExp (Z.map upper) = none →
        ∃ X' Y' Z', X ++ R = coordText X' Y' Z' ∧ IsCoord X' Y' Z' ∧ parseHumanized (X ++ R) = .error .value := by
      intro Y _ Z hRe hY hZne hZ hu
      refine ⟨X, Y, Z, by rw [hRe]; cases Y <;> simp [coordText], ⟨hXne, hXm, hY, hZ⟩, ?_⟩
      have hu' : unitExp (strip (Z.map upper)) = none := by rw [strip_upper_letters hZ]; exact hu
      have hYn : ∀ c ∈ (match Y with | some F => '.' :: F | none => ([] : Str)), isNumeric c = true ∧ (c != ',') = true := by
        intro c hc
        cases Y with
        | none => simp at hc
        | some F =>
          rcases List.mem_cons.mp hc with hc | hc
          · subst hc; exact ⟨by decide, by decide⟩
          · exact ⟨digit_numeric (hY F rfl c hc), digit_ne_comma (hY F rfl c hc)⟩
      apply humanized_unknown_unit _ (X.filter (· != ',') ++ (match Y with | some F => '.' :: F | none => [])) Z
      · rw [hRe]
        simp only [List.filter_append]
        rw [filter_id (fun c hc => (hYn c hc).2), filter_id (fun c hc => letter_ne_comma (hZ c hc))]
        simp
      · simp [hIne]
      · intro c hc
        rcases List.mem_append.mp hc with hc | hc
        · exact hIn c hc
        · exact (hYn c hc).1
      · exact fun c hc => letter_not_numeric (hZ c hc)
      · exact hZne
      · exact hu'
    cases R with
    | nil => simp [skipFraction] at h
    | cons c r =>
      by_cases hdot : c = '.'
      · subst hdot
        simp only [skipFraction] at h
        obtain ⟨⟨h1, h2⟩, h3⟩ := h
        have hr : r = r.takeWhile isDigit ++ r.dropWhile isDigit := (List.takeWhile_append_dropWhile).symm
        exact main (some (r.takeWhile isDigit)) [] (r.dropWhile isDigit) (by simp [← hr])
          (by intro F hF; injection hF with hF; subst hF; exact fun c hc => mem_takeWhile hc)
          (by simpa using h1) (by simpa using h2) (by simpa using h3)
      · have hm : skipFraction (c :: r) = c :: r := by
          unfold skipFraction
          split
          · rename_i heq; injection heq with h1 _; exact absurd h1 hdot
          · rfl
        rw [hm] at h
        obtain ⟨⟨h1, h2⟩, h3⟩ := h
        exact main none [] (c :: r) (by simp) (by simp) (by simp) (by simpa using h2) (by simpa using h3)

/-- **refusedClass_sound** (L1 refuses wherever L0 demands a refusal): every string the L0 recogniser
`refusedClass` puts in one of the malformed classes the property lists is refused by
`parse_region_string`. -/
theorem refusedClass_sound (s : Str) (r : Refusal) (h : refusedClass s = some r) :
    parseRegionString s = .error .value := by
  unfold refusedClass at h
  obtain ⟨hnc, hsplit⟩ := sep_split ':' s
  generalize hname : s.takeWhile (· != ':') = name at h hnc hsplit
  by_cases hemp : strip name = []
  · exact refuses_empty_name s (by rw [hname]; exact hemp)
  simp only [hemp, if_false] at h
  rcases hsplit with ⟨hd, _⟩ | ⟨body, hd, hs⟩
  · simp [hd] at h
  simp only [hd] at h
  by_cases hany : body.any (· == ':') = true
  · simp [hany] at h
  simp only [hany, Bool.false_eq_true, if_false] at h
  have hbc : ':' ∉ body := by
    cases hb : body.any (· == ':') with
    | true => exact absurd hb hany
    | false => exact not_mem_of_any_false hb
  rw [hs]
  apply parse_error_of_expect hnc hbc
  by_cases hhy : body.any (· == '-') = false
  · exact refuses_missing_hyphen body (not_mem_of_any_false hhy)
  have hhy' : body.any (· == '-') = true := by simpa using hhy
  simp only [hhy', Bool.not_true, Bool.false_eq_true, if_false] at h
  have hbody : body = body.takeWhile isSpace ++ body.dropWhile isSpace :=
    (List.takeWhile_append_dropWhile).symm
  have hws : ∀ x ∈ body.takeWhile isSpace, isSpace x = true := fun x hx => mem_takeWhile hx
  cases hdw : body.dropWhile isSpace with
  | nil => simp [hdw] at h
  | cons c rest =>
    simp only [hdw] at h
    have hsp : isSpace c = false := dropWhile_head hdw
    by_cases hc : c = '-'
    · rw [hbody, hdw]; exact refuses_bad_start _ rest c hws hsp (by subst hc; decide)
    simp only [hc, if_false] at h
    cases hdc : isDigitComma c with
    | false => rw [hbody, hdw]; exact refuses_bad_start _ rest c hws hsp hdc
    | true =>
      simp only [hdc, Bool.not_true, Bool.false_eq_true, if_false] at h
      obtain ⟨hnh, hsplit2⟩ := sep_split '-' body
      generalize hA : body.takeWhile (· != '-') = A at h hnh hsplit2
      rcases hsplit2 with ⟨_, hb2⟩ | ⟨b, hd2, hs2⟩
      · obtain ⟨x, hx, hxe⟩ := List.any_eq_true.mp hhy'
        simp at hxe; subst hxe
        rw [← hb2] at hnh; exact absurd hx hnh
      simp only [hd2, List.drop_succ_cons, List.drop_zero] at h
      rw [hs2]
      by_cases hbu : badUnit A = true
      · obtain ⟨X, Y, Z, rfl, hco, hp⟩ := badUnit_shape hbu
        exact refuses_bad_first_numeral b hco hp
      simp only [hbu, Bool.false_eq_true, if_false] at h
      cases hx : numeralValue A with
      | none => simp [hx] at h
      | some x =>
        simp only [hx] at h
        cases b with
        | nil => simp at h
        | cons d b' =>
          simp only at h
          by_cases hbb : badUnit (d :: b') = true
          · obtain ⟨X, Y, Z, hB, hco, hp⟩ := badUnit_shape hbb
            rw [hB] at hp
            have := refuses_bad_second_numeral A [] x hx hco stops_nil hp
            rw [hB]; simpa using this
          simp only [hbb, Bool.false_eq_true, if_false] at h
          by_cases hd' : (!(isSpace d) && !(isDigitComma d)) = true
          · simp only [Bool.and_eq_true, Bool.not_eq_true'] at hd'
            have := refuses_bad_end A [] b' x d hx (by simp) hd'.1 hd'.2
            simpa using this
          simp only [hd', Bool.false_eq_true, if_false] at h
          cases hy : numeralValue (d :: b') with
          | none => simp [hy] at h
          | some y =>
            simp only [hy] at h
            by_cases hyx : y < x
            · exact refuses_reversed A (d :: b') x y hx hy hyx
            · simp [hyx] at h

/-- non-vacuity: one string per class is recognised -/
example : refusedClass [' ', ':', '1', '-', '2'] = some .emptyName ∧
    refusedClass ['c', ':', '5'] = some .missingHyphen ∧
    refusedClass ['c', ':', '-', '5', '-', '1'] = some .negative ∧
    refusedClass ['c', ':', 'x', '-', '1'] = some .nonNumeric ∧
    refusedClass ['c', ':', '1', '0', '-', '5'] = some .reversed ∧
    refusedClass ['c', ':', '1', 'x', '-', '5'] = some .unknownUnit := by decide

/-! ## observation outside the property

Text after the end coordinate is never looked at by the code (`_expect` stops after the third
token, and only `parts[1]` of the `:`-split is used).  The model mirrors this; the property is
silent about it, so it is neither promised nor a violation. -/
example : parseRegionString ['c', ':', '1', '-', '2', '-', '3'] = .ok (['c'], some 1, some 2) := by rfl
example : parseRegionString ['c', ':', '1', '-', '2', ':', 'z'] = .ok (['c'], some 1, some 2) := by rfl
example : strictRegion ['c', ':', '1', '-', '2', '-', '3'] = none ∧
    refusedClass ['c', ':', '1', '-', '2', '-', '3'] = none := by decide

end Cooler.C19
