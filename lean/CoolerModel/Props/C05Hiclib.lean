import CoolerModel.Model.Hiclib
import CoolerModel.Props.C05Core
/-!
# C05 — `HDF5Aggregator` (`cooler cload hiclib`): each read pair is counted once, in its pixel

Theorems about `Model/Hiclib.lean` (the loader as repaired by the fixes D29, D31, D30).  For every valid
bin table, every file sorted by `(chrms1, cuts1)` and EVERY `chunksize ≥ 1`:

* `hiclib_chunks_cover` — (all sides inside chromosomes of the table, upper triangle) the chunk
  boundaries are consecutive non-empty ranges from 0 to the number of records and no pixel row (`bin1`)
  is shared by two chunks (`chunksOK`, the contract the correspondence evaluates on the REAL boundaries);
* `hiclib_eq_spec` — (same hypotheses) the concatenated stream is C05's specification `specCounts` of
  the records (one unit per record in the pixel `(binOf anchor₁, binOf anchor₂)`), hence independent of
  `chunksize`, strictly sorted by `(bin1, bin2)`, with counts adding up to the number of records;
* `hiclib_drops_unlisted` — the same equality when ids that are not in the table occur (`ListedOK`): a
  record with a side on such an id is dropped;
* `hiclib_rejects_outside` — a cut outside its chromosome makes the run fail, whatever else the file holds;
* `hiclib_rejects_lower`, `hiclib_rejects_unsorted` — a lower-triangle record, or a chromosome id that
  heads two runs of the first column, is a `ValueError` (and the specification rejects the former too);
* `hiclib_rowlabels_irrelevant` — the row labels of the bin-table frame are never looked at;
* `hiclibLegacy_accepts_outside`, `hiclibLegacy_counts_unlisted`, `hiclibLegacy_rowlabels_matter` — what
  the loader did BEFORE the fixes (`decide`d witnesses against the same full statements).

Proof route: the loop's slices `partsLoop` (a pure twin of `aggLoop`) tile the chromosome's records
(`aggLoop_eq_seq`: `fuel = number of records` suffices because every turn consumes ≥ 1 record), are
separated by a bin end (`parts_sep`), hence grouping slice by slice is grouping everything
(`groupCells_blocks`, the block form of `rows_flatMap_eq`).
-/
namespace Cooler.C05
open Cooler Cooler.Sanitize Cooler.Hiclib

/-! ## lists -/

/-- in a list ordered so that the predicate can only switch from true to false, the true elements are
the first `countP` ones -/
theorem take_countP_of_sorted {α : Type} (R : α → α → Prop) (p : α → Bool)
    (hR : ∀ a b, R a b → p b = true → p a = true) :
    ∀ l : List α, l.Pairwise R →
      l.take (l.countP p) = l.filter p ∧ l.drop (l.countP p) = l.filter (fun a => !p a)
  | [], _ => by simp
  | x :: rest, h => by
    have hx : ∀ y ∈ rest, R x y := fun y hy => List.rel_of_pairwise_cons h hy
    have ih := take_countP_of_sorted R p hR rest (List.Pairwise.of_cons h)
    by_cases hp : p x = true
    · rw [List.countP_cons_of_pos hp, List.take_succ_cons, List.drop_succ_cons,
        List.filter_cons_of_pos hp, List.filter_cons_of_neg (by simp [hp]), ih.1, ih.2]
      exact ⟨rfl, rfl⟩
    · have hall : ∀ y ∈ rest, p y = false := by
        intro y hy
        cases hpy : p y with
        | false => rfl
        | true => exact absurd (hR x y (hx y hy) hpy) hp
      have hz : rest.countP p = 0 := by
        rw [List.countP_eq_zero]; intro y hy; simp [hall y hy]
      rw [List.countP_cons_of_neg hp, hz]
      have hp' : p x = false := by simpa using hp
      refine ⟨?_, ?_⟩
      · rw [List.take_zero, List.filter_cons_of_neg hp]
        symm; rw [List.filter_eq_nil_iff]; intro y hy; simp [hall y hy]
      · rw [List.drop_zero, List.filter_cons_of_pos (by simp [hp'])]
        congr 1
        symm; rw [List.filter_eq_self]; intro y hy; simp [hall y hy]

/-! ## `_index_chroms` -/

theorem runsFrom_cons_cons (pos : Nat) (x y : Int) (rest : List Int) :
    ∃ e more, runsFrom (pos + 1) (y :: rest) = (y, pos + 1, e) :: more ∧
      runsFrom pos (x :: y :: rest) =
        if x = y then (y, pos, e) :: more else (x, pos, pos + 1) :: (y, pos + 1, e) :: more := by
  have head : ∀ (p : Nat) (z : Int) (l : List Int), ∃ e more, runsFrom p (z :: l) = (z, p, e) :: more := by
    intro p z l
    induction l generalizing p z with
    | nil => exact ⟨p + 1, [], rfl⟩
    | cons w l ih =>
      obtain ⟨e, more, h⟩ := ih (p + 1) w
      by_cases hzw : z = w
      · refine ⟨e, more, ?_⟩
        show (match runsFrom (p + 1) (w :: l) with
          | [] => [(z, p, p + 1)]
          | (y, s, e) :: more => if z = y then (y, p, e) :: more else (z, p, p + 1) :: (y, s, e) :: more) = _
        rw [h]; simp [hzw]
      · refine ⟨p + 1, (w, p + 1, e) :: more, ?_⟩
        show (match runsFrom (p + 1) (w :: l) with
          | [] => [(z, p, p + 1)]
          | (y, s, e) :: more => if z = y then (y, p, e) :: more else (z, p, p + 1) :: (y, s, e) :: more) = _
        rw [h]; simp [hzw]
  obtain ⟨e, more, h⟩ := head (pos + 1) y rest
  refine ⟨e, more, h, ?_⟩
  show (match runsFrom (pos + 1) (y :: rest) with
    | [] => [(x, pos, pos + 1)]
    | (y', s, e) :: more => if x = y' then (y', pos, e) :: more else (x, pos, pos + 1) :: (y', s, e) :: more) = _
  rw [h]

theorem runs_values_mem (pos : Nat) (xs : List Int) (v : Int) :
    v ∈ (runsFrom pos xs).map (·.1) ↔ v ∈ xs := by
  induction xs generalizing pos with
  | nil => simp [runsFrom]
  | cons x rest ih =>
    cases rest with
    | nil => simp [runsFrom]
    | cons y rest =>
      obtain ⟨e, more, h1, h2⟩ := runsFrom_cons_cons pos x y rest
      have ih' := ih (pos + 1)
      rw [h1] at ih'
      rw [h2]
      by_cases hxy : x = y
      · subst hxy
        simp only [if_true, List.map_cons, List.mem_cons] at ih' ⊢
        rw [ih']; simp
      · simp only [hxy, if_false, List.map_cons, List.mem_cons] at ih' ⊢
        rw [ih']

/-- `_index_chroms` accepts exactly the columns in which every id's occurrences are contiguous -/
theorem runs_nodup_iff (pos : Nat) (xs : List Int) :
    ((runsFrom pos xs).map (·.1)).Nodup ↔ BlockSorted xs := by
  induction xs generalizing pos with
  | nil => simp [runsFrom, BlockSorted]
  | cons x rest ih =>
    cases rest with
    | nil => simp [runsFrom, BlockSorted]
    | cons y rest =>
      obtain ⟨e, more, h1, h2⟩ := runsFrom_cons_cons pos x y rest
      have ih' := ih (pos + 1)
      have hm := runs_values_mem (pos + 1) (y :: rest) x
      rw [h1] at ih' hm
      rw [h2]
      show _ ↔ BlockSorted (y :: rest) ∧ ((y :: rest).head? = some x ∨ x ∉ y :: rest)
      by_cases hxy : x = y
      · subst hxy
        simp only [if_true, List.map_cons] at ih' ⊢
        rw [ih']; simp
      · simp only [hxy, if_false, List.map_cons, List.nodup_cons] at ih' hm ⊢
        rw [ih', hm]
        have : ¬ (y :: rest).head? = some x := by simp; exact fun h => hxy h.symm
        constructor
        · rintro ⟨a, b⟩; exact ⟨b, Or.inr a⟩
        · rintro ⟨b, a | a⟩
          · exact absurd a this
          · exact ⟨a, b⟩

theorem blockSorted_of_sorted {xs : List Int} (h : xs.Pairwise (· ≤ ·)) : BlockSorted xs := by
  induction xs with
  | nil => trivial
  | cons x rest ih =>
    refine ⟨ih (List.Pairwise.of_cons h), ?_⟩
    have hx : ∀ z ∈ rest, x ≤ z := fun z hz => List.rel_of_pairwise_cons h hz
    cases rest with
    | nil => right; simp
    | cons y rest =>
      by_cases hxy : y = x
      · left; simp [hxy]
      · right
        intro hmem
        have hy := hx y (List.mem_cons_self)
        rcases List.mem_cons.mp hmem with e | hm
        · exact hxy e.symm
        · have := List.rel_of_pairwise_cons (List.Pairwise.of_cons h) hm; omega

/-- a column in which some id occurs on both sides of a different id is not accepted -/
theorem not_blockSorted_of_sandwich {A B : List Int} {x y : Int} (hxy : x ≠ y) (hB : x ∈ B) :
    ¬ BlockSorted (A ++ x :: y :: B) := by
  induction A with
  | nil =>
    rintro ⟨_, h | h⟩
    · simp at h; exact hxy h.symm
    · exact h (List.mem_cons_of_mem _ hB)
  | cons a A ih => rintro ⟨h, _⟩; exact ih h

/-- the run of a value in a non-decreasing column: `[#{< v}, #{≤ v})` -/
theorem runs_find_sorted (pos : Nat) (xs : List Int) (h : xs.Pairwise (· ≤ ·)) (v : Int) :
    partGet (runsFrom pos xs) v =
      if v ∈ xs then some (pos + xs.countP (fun z => decide (z < v)), pos + xs.countP (fun z => decide (z ≤ v)))
      else none := by
  induction xs generalizing pos with
  | nil => simp [runsFrom, partGet]
  | cons x rest ih =>
    have hx : ∀ z ∈ rest, x ≤ z := fun z hz => List.rel_of_pairwise_cons h hz
    have hrest := List.Pairwise.of_cons h
    cases rest with
    | nil =>
      by_cases hv : v = x
      · subst hv; simp [runsFrom, partGet]
      · have hv' : ¬ x = v := fun e => hv e.symm
        simp [runsFrom, partGet, hv, hv']
    | cons y rest =>
      obtain ⟨e, more, h1, h2⟩ := runsFrom_cons_cons pos x y rest
      have ih' := ih (pos + 1) hrest
      rw [h1] at ih'
      rw [h2]
      have hxy : x ≤ y := hx y List.mem_cons_self
      have hyall : ∀ z ∈ y :: rest, y ≤ z := by
        intro z hz
        rcases List.mem_cons.mp hz with e | hz
        · omega
        · exact List.rel_of_pairwise_cons hrest hz
      by_cases hv : v = x
      · subst hv
        have hlt : (v :: y :: rest).countP (fun z => decide (z < v)) = 0 := by
          rw [List.countP_eq_zero]
          intro z hz
          rcases List.mem_cons.mp hz with e | hz
          · simp [e]
          · have := hx z hz; simp; omega
        by_cases hvy : v = y
        · subst hvy
          have ihv := ih'
          simp only [partGet, List.find?_cons_of_pos, decide_true, Option.map_some, List.mem_cons,
            true_or, if_true, Option.some.injEq, Prod.mk.injEq] at ihv
          simp only [if_true, partGet, List.find?_cons_of_pos, decide_true, Option.map_some,
            List.mem_cons, true_or, hlt]
          rw [List.countP_cons_of_pos (by simp)]
          congr 2
          omega
        · have hle : (y :: rest).countP (fun z => decide (z ≤ v)) = 0 := by
            rw [List.countP_eq_zero]
            intro z hz
            have := hyall z hz
            simp; omega
          simp only [hvy, if_false, partGet, List.find?_cons_of_pos, decide_true, Option.map_some,
            List.mem_cons, true_or, if_true, hlt]
          rw [List.countP_cons_of_pos (by simp), hle]
          simp
      · have hxv : ¬ x = v := fun e => hv e.symm
        have hmem : v ∈ x :: y :: rest ↔ v ∈ y :: rest := by
          constructor
          · intro hm
            rcases List.mem_cons.mp hm with e | hm
            · exact absurd e hv
            · exact hm
          · exact List.mem_cons_of_mem _
        have hfind : partGet (if x = y then (y, pos, e) :: more else (x, pos, pos + 1) :: (y, pos + 1, e) :: more) v
            = partGet ((y, pos + 1, e) :: more) v := by
          by_cases hxy' : x = y
          · subst hxy'
            simp only [if_true, partGet]
            rw [List.find?_cons_of_neg (by simpa using hxv), List.find?_cons_of_neg (by simpa using hxv)]
          · simp only [hxy', if_false, partGet]
            rw [List.find?_cons_of_neg (by simpa using hxv)]
        rw [hfind, ih']
        by_cases hm : v ∈ y :: rest
        · have hxlt : x < v := by
            have : x ≤ v := hx v hm
            omega
          have c1 : (x :: y :: rest).countP (fun z => decide (z < v))
              = (y :: rest).countP (fun z => decide (z < v)) + 1 :=
            List.countP_cons_of_pos (by simpa using hxlt)
          have c2 : (x :: y :: rest).countP (fun z => decide (z ≤ v))
              = (y :: rest).countP (fun z => decide (z ≤ v)) + 1 :=
            List.countP_cons_of_pos (by simp; omega)
          rw [if_pos hm, if_pos (hmem.mpr hm), c1, c2]
          congr 2 <;> omega
        · rw [if_neg hm, if_neg (fun h => hm (hmem.mp h))]

/-! ## the tables of `GenomeSegmentation` -/

theorem chromAbs_mono (bins : BinTable) {c c' : Nat} (h : c ≤ c') : chromAbs bins c ≤ chromAbs bins c' := by
  induction c' with
  | zero => have : c = 0 := by omega
            subst this; exact Nat.le_refl _
  | succ k ih =>
    rcases Nat.lt_or_ge c (k + 1) with h1 | h1
    · have := ih (by omega)
      show _ ≤ chromAbs bins k + chromLen bins k
      omega
    · have : c = k + 1 := by omega
      subst this; exact Nat.le_refl _

theorem chromAbs_succ_le (bins : BinTable) {c c' : Nat} (h : c < c') :
    chromAbs bins c + chromLen bins c ≤ chromAbs bins c' :=
  chromAbs_mono bins (c := c + 1) h

theorem tiles_mem_bounds {g : List Bin} : ∀ {s : Nat}, TilesFrom s g → ∀ b ∈ g,
    b.start < b.stop ∧ b.stop ≤ lastStop g := by
  induction g with
  | nil => intro s _ b hb; simp at hb
  | cons x rest ih =>
    intro s ht b hb
    obtain ⟨_, h2, h3⟩ := ht
    cases rest with
    | nil =>
      have : b = x := by simpa using hb
      subst this
      exact ⟨h2, by simp [lastStop]⟩
    | cons y r =>
      rw [lastStop_cons_cons]
      rcases List.mem_cons.mp hb with e | hb'
      · subst e
        have hy := ih h3 y List.mem_cons_self
        obtain ⟨t1, _, _⟩ := h3
        exact ⟨h2, by omega⟩
      · exact ih h3 b hb'

/-- every bin of a valid table is non-empty and ends within its chromosome -/
theorem mem_bin_bounds {bins : BinTable} (hT : TableOK bins) {b : Bin} (hb : b ∈ bins) :
    b.start < b.stop ∧ b.stop ≤ chromLen bins b.chrom := by
  have hg : b ∈ groupOf bins b.chrom := by
    unfold groupOf; exact List.mem_filter.mpr ⟨hb, by simp⟩
  have hne : groupOf bins b.chrom ≠ [] := List.ne_nil_of_mem hg
  have hv := hT.2 _ (groupOf_mem_groups hne)
  exact tiles_mem_bounds hv.2 b hg

/-- the search over the absolute starts of the WHOLE table finds, for a position inside chromosome
`c`, the bin the per-chromosome search of `_sanitize_records` finds -/
theorem absBin_eq_assignVar {bins : BinTable} (hT : TableOK bins) {c : Nat} {pos : Int}
    (h0 : 0 ≤ pos) (hL : pos < (chromLen bins c : Int)) :
    absBin bins c pos = assignVar (chromOff bins c) ((groupOf bins c).map Bin.start) pos := by
  obtain ⟨p, rfl⟩ := Int.eq_ofNat_of_zero_le h0
  have hp : p < chromLen bins c := by omega
  unfold absBin assignVar ssRightI
  have hn1 : ¬ ((chromAbs bins c : Int) + (p : Int) < 0) := by omega
  have hn2 : ¬ ((p : Int) < 0) := by omega
  have ht : ((chromAbs bins c : Int) + (p : Int)).toNat = chromAbs bins c + p := by omega
  simp only [hn1, hn2, if_false, ht, Int.toNat_natCast]
  have hcount : ssRight (startAbs bins) (chromAbs bins c + p)
      = chromOff bins c + ssRight ((groupOf bins c).map Bin.start) p := by
    unfold ssRight startAbs
    rw [List.countP_map, List.countP_map]
    have e := sorted_split hT.1 c
    rw [congrArg (List.countP _) e, List.countP_append, List.countP_append, chromOff_eq_length,
      groupOf_eq_filter]
    have hA : (bins.filter fun b => decide (b.chrom < c)).countP
          ((fun y => decide (y ≤ chromAbs bins c + p)) ∘ fun b => chromAbs bins b.chrom + b.start)
        = (bins.filter fun b => decide (b.chrom < c)).length := by
      rw [List.countP_eq_length]
      intro b hb
      obtain ⟨hb1, hb2⟩ := List.mem_filter.mp hb
      simp only [decide_eq_true_eq] at hb2
      have := mem_bin_bounds hT hb1
      have := chromAbs_succ_le bins hb2
      simp only [Function.comp, decide_eq_true_eq]
      omega
    have hC : (bins.filter fun b => decide (c < b.chrom)).countP
          ((fun y => decide (y ≤ chromAbs bins c + p)) ∘ fun b => chromAbs bins b.chrom + b.start) = 0 := by
      rw [List.countP_eq_zero]
      intro b hb
      obtain ⟨_, hb2⟩ := List.mem_filter.mp hb
      simp only [decide_eq_true_eq] at hb2
      have := chromAbs_succ_le bins hb2
      simp only [Function.comp, decide_eq_true_eq]
      omega
    have hG : (bins.filter fun b => decide (b.chrom = c)).countP
          ((fun y => decide (y ≤ chromAbs bins c + p)) ∘ fun b => chromAbs bins b.chrom + b.start)
        = (bins.filter fun b => decide (b.chrom = c)).countP ((fun y => decide (y ≤ p)) ∘ Bin.start) := by
      apply List.countP_congr
      intro b hb
      obtain ⟨_, hb2⟩ := List.mem_filter.mp hb
      simp only [decide_eq_true_eq] at hb2
      simp only [Function.comp, decide_eq_true_eq, hb2]
      omega
    rw [hA, hC, hG]
    omega
  rw [hcount]
  push_cast
  omega

theorem hbin_eq_assign {bins : BinTable} (hT : TableOK bins) (bs : Option Nat) {c : Nat} {pos : Int}
    (h0 : 0 ≤ pos) (hL : pos < (chromLen bins c : Int)) : hbin bins bs c pos = assignBin bins bs c pos := by
  cases bs with
  | some b => rfl
  | none => exact absBin_eq_assignVar hT h0 hL

/-- the lower-triangle test on absolute positions is the test on `(chromosome, position)` pairs -/
theorem absLower_iff {bins : BinTable} {a : Anchor} (h : a.inside bins) :
    ((chromAbs bins a.c1 : Int) + a.a1 > (chromAbs bins a.c2 : Int) + a.a2) ↔ a.lower = true := by
  obtain ⟨h1, h2, h3, h4⟩ := h
  unfold Anchor.lower
  simp only [Bool.or_eq_true, Bool.and_eq_true, decide_eq_true_eq]
  rcases Nat.lt_trichotomy a.c1 a.c2 with hc | hc | hc
  · have := chromAbs_succ_le bins hc
    constructor
    · intro _; omega
    · rintro (h | ⟨h, _⟩) <;> omega
  · rw [hc]
    constructor
    · intro _; right; exact ⟨rfl, by omega⟩
    · rintro (h | ⟨_, h⟩) <;> omega
  · have := chromAbs_succ_le bins hc
    constructor
    · intro _; left; exact hc
    · intro _; omega

/-! ## order of the bins in the table -/

theorem chrom_idx_mono {bins : BinTable} (hs : ChromSorted bins) {i j : Nat} {x y : Bin}
    (hi : bins[i]? = some x) (hj : bins[j]? = some y) (hij : i < j) : x.chrom ≤ y.chrom := by
  have hjl : j < bins.length := by
    rcases Nat.lt_or_ge j bins.length with h | h
    · exact h
    · rw [List.getElem?_eq_none h] at hj; simp at hj
  have hil : i < bins.length := by omega
  have := (List.pairwise_iff_getElem.mp hs) i j hil hjl hij
  rw [List.getElem?_eq_getElem hil] at hi
  rw [List.getElem?_eq_getElem hjl] at hj
  rw [← Option.some.inj hi, ← Option.some.inj hj]
  exact this

/-- within one chromosome the table lists the bins from left to right -/
theorem table_order {bins : BinTable} (hT : TableOK bins) {i j : Nat} {x y : Bin}
    (hi : bins[i]? = some x) (hj : bins[j]? = some y) (hc : x.chrom = y.chrom) (hij : i < j) :
    x.stop ≤ y.start := by
  obtain ⟨k1, e1, g1⟩ := group_index_of hT.1 hi
  obtain ⟨k2, e2, g2⟩ := group_index_of hT.1 hj
  rw [hc] at e1 g1
  have hne : groupOf bins y.chrom ≠ [] := by
    intro e; rw [e] at g2; simp at g2
  have hv := hT.2 _ (groupOf_mem_groups hne)
  exact tiles_before hv.2 g1 g2 (by omega)

/-- the bin a position inside its chromosome is assigned to: a row of the table, on that chromosome,
containing the position -/
theorem assign_row {bins : BinTable} (hT : TableOK bins) {bs : Option Nat}
    (hb : ∀ b, bs = some b → ∀ g ∈ groups bins, UniformChrom b g) {c : Nat} {pos : Int}
    (h0 : 0 ≤ pos) (hL : pos < (chromLen bins c : Int)) :
    0 ≤ assignBin bins bs c pos ∧ ∃ x, bins[(assignBin bins bs c pos).toNat]? = some x ∧ x.chrom = c ∧
      (x.start : Int) ≤ pos ∧ pos < (x.stop : Int) := by
  obtain ⟨_, h2, x, hx⟩ := binOf_sound (assign_eq_binOf hT hb h0 hL)
  exact ⟨h2, x, hx⟩

/-- **a bin end separates pixel rows**: positions of one chromosome on either side of the end of one
of its bins are assigned to different rows, in order -/
theorem sep_at_binEnd {bins : BinTable} (hT : TableOK bins) {bs : Option Nat}
    (hb : ∀ b, bs = some b → ∀ g ∈ groups bins, UniformChrom b g) {c i0 : Nat} {b : Bin}
    (hb0 : bins[i0]? = some b) (hbc : b.chrom = c) {p q : Int}
    (hp0 : 0 ≤ p) (hpL : p < (chromLen bins c : Int)) (hq0 : 0 ≤ q) (hqL : q < (chromLen bins c : Int))
    (hp : p < (b.stop : Int)) (hq : (b.stop : Int) ≤ q) :
    assignBin bins bs c p < assignBin bins bs c q := by
  obtain ⟨np, xp, gp, cp, sp, ep⟩ := assign_row hT hb hp0 hpL
  obtain ⟨nq, xq, gq, cq, sq, eq⟩ := assign_row hT hb hq0 hqL
  have hbb := mem_bin_bounds hT (List.mem_of_getElem? hb0)
  have h1 : (assignBin bins bs c p).toNat ≤ i0 := by
    apply Nat.le_of_not_lt
    intro hlt
    have := table_order hT hb0 gp (by rw [hbc, cp]) hlt
    omega
  have h2 : i0 < (assignBin bins bs c q).toNat := by
    apply Nat.lt_of_not_le
    intro hle
    rcases Nat.lt_or_eq_of_le hle with hlt | he
    · have := table_order hT gq hb0 (by rw [hbc, cq]) hlt
      omega
    · rw [he, hb0] at gq
      have := Option.some.inj gq
      subst this
      omega
  omega

/-- rows of different chromosomes are ordered like the chromosomes -/
theorem sep_chroms {bins : BinTable} (hT : TableOK bins) {bs : Option Nat}
    (hb : ∀ b, bs = some b → ∀ g ∈ groups bins, UniformChrom b g) {c c' : Nat} (hcc : c < c') {p q : Int}
    (hp0 : 0 ≤ p) (hpL : p < (chromLen bins c : Int)) (hq0 : 0 ≤ q) (hqL : q < (chromLen bins c' : Int)) :
    assignBin bins bs c p < assignBin bins bs c' q := by
  obtain ⟨np, xp, gp, cp, _, _⟩ := assign_row hT hb hp0 hpL
  obtain ⟨nq, xq, gq, cq, _, _⟩ := assign_row hT hb hq0 hqL
  have : (assignBin bins bs c p).toNat < (assignBin bins bs c' q).toNat := by
    apply Nat.lt_of_not_le
    intro hle
    rcases Nat.lt_or_eq_of_le hle with hlt | he
    · have := chrom_idx_mono hT.1 gq gp hlt
      omega
    · rw [he, gp] at gq
      have := Option.some.inj gq
      subst this
      omega
  omega

/-! ## grouping block by block -/

/-- grouping two batches separately is grouping them together when every key of the first precedes
every key of the second -/
theorem groupCells_append_sep (A B : List (Key × Int)) (h : ∀ a ∈ A, ∀ b ∈ B, klt a.1 b.1) :
    groupCells (A ++ B) = groupCells A ++ groupCells B := by
  induction A with
  | nil => rfl
  | cons x A ih =>
    have ih' := ih (fun a ha => h a (List.mem_cons_of_mem _ ha))
    show insertCell x.1 x.2 (groupCells (A ++ B)) = insertCell x.1 x.2 (groupCells A) ++ groupCells B
    rw [ih', insertCell_append_right]
    intro c hc
    obtain ⟨kv, hkv, hk⟩ := (mem_groupCells_keys B c.k).mp ⟨c, hc, rfl⟩
    rw [← hk]
    exact h x List.mem_cons_self kv hkv

/-- **block form of `rows_flatMap_eq`**: grouping slice by slice, the slices' keys in increasing
order, is grouping everything -/
theorem groupCells_blocks (parts : List (List (Key × Int)))
    (h : parts.Pairwise fun P Q => ∀ a ∈ P, ∀ b ∈ Q, klt a.1 b.1) :
    (parts.map groupCells).flatten = groupCells parts.flatten := by
  induction parts with
  | nil => rfl
  | cons P rest ih =>
    rw [List.map_cons, List.flatten_cons, List.flatten_cons, ih (List.Pairwise.of_cons h),
      groupCells_append_sep]
    intro a ha b hb
    obtain ⟨Q, hQ, hbQ⟩ := List.mem_flatten.mp hb
    exact List.rel_of_pairwise_cons h hQ a ha b hbQ

/-! ## the chunk loop -/

/-- the slices the loop cuts (pure twin of `aggLoop`) -/
def partsLoop (binEndOf : Int → Except Err Int) (cs : Nat) : Nat → List HRec → List (List HRec)
  | 0, _ => []
  | fuel + 1, rem =>
    match rem[min cs rem.length - 1]? with
    | none => []
    | some last =>
      match binEndOf last.p1 with
      | .error _ => []
      | .ok bend => rem.take (cutAt bend rem) :: partsLoop binEndOf cs fuel (rem.drop (cutAt bend rem))

/-- one turn's result put in front of the later turns'; the first error wins -/
def stepRes {β : Type} (lo k : Nat) (a : Except Err β) (rest : Except Err (List ((Nat × Nat) × β))) :
    Except Err (List ((Nat × Nat) × β)) :=
  match a with
  | .error e => .error e
  | .ok out =>
    match rest with
    | .error e => .error e
    | .ok more => .ok (((lo, lo + k), out) :: more)

/-- run `proc` over consecutive slices starting at record `lo`; the first error wins -/
def seqLoop {β : Type} (proc : List HRec → Except Err β) : Nat → List (List HRec) →
    Except Err (List ((Nat × Nat) × β))
  | _, [] => .ok []
  | lo, P :: rest => stepRes lo P.length (proc P) (seqLoop proc (lo + P.length) rest)

theorem cutAt_pos {bend : Int} {rem : List HRec} (h : rem ≠ []) : 0 < cutAt bend rem := by
  simp only [cutAt]
  have := List.length_pos_iff.mpr h
  split <;> omega

theorem cutAt_le (bend : Int) (rem : List HRec) : cutAt bend rem ≤ rem.length := by
  simp only [cutAt]
  have : rem.countP (fun r => decide (r.p1 < bend)) ≤ rem.length := List.countP_le_length
  split <;> omega

/-- **the fuel suffices and the slices tile the records**: whenever the bin-end lookup succeeds on
the cuts that are left, `fuel ≥` their number turns of the loop consume all of them, in non-empty
consecutive slices, and the loop's result is `proc` run over these slices in order -/
theorem aggLoop_eq_seq {β : Type} (binEndOf : Int → Except Err Int) (proc : List HRec → Except Err β)
    (cs : Nat) : ∀ (fuel lo : Nat) (rem : List HRec), rem.length ≤ fuel →
      (∀ r ∈ rem, ∃ e, binEndOf r.p1 = .ok e) →
      aggLoop binEndOf proc cs fuel lo rem = seqLoop proc lo (partsLoop binEndOf cs fuel rem) ∧
      (partsLoop binEndOf cs fuel rem).flatten = rem ∧
      (∀ P ∈ partsLoop binEndOf cs fuel rem, P ≠ []) := by
  intro fuel
  induction fuel with
  | zero =>
    intro lo rem hlen _
    have : rem = [] := List.eq_nil_of_length_eq_zero (by omega)
    subst this
    exact ⟨rfl, rfl, by intro P hP; simp [partsLoop] at hP⟩
  | succ fuel ih =>
    intro lo rem hlen hok
    cases hrem : rem with
    | nil => exact ⟨rfl, rfl, by intro P hP; simp [partsLoop] at hP⟩
    | cons r0 rest0 =>
      rw [← hrem]
      have hne : rem ≠ [] := by rw [hrem]; simp
      have hlpos : 0 < rem.length := List.length_pos_iff.mpr hne
      have hidx : min cs rem.length - 1 < rem.length := by omega
      have hget : rem[min cs rem.length - 1]? = some (rem[min cs rem.length - 1]'hidx) :=
        List.getElem?_eq_getElem hidx
      obtain ⟨bend, hbend⟩ := hok _ (List.getElem_mem hidx)
      have hk1 := cutAt_pos (bend := bend) hne
      have hk2 := cutAt_le bend rem
      have hdrop : (rem.drop (cutAt bend rem)).length ≤ fuel := by rw [List.length_drop]; omega
      obtain ⟨ih1, ih2, ih3⟩ := ih (lo + cutAt bend rem) (rem.drop (cutAt bend rem)) hdrop
        (fun r hr => hok r (List.mem_of_mem_drop hr))
      have hparts : partsLoop binEndOf cs (fuel + 1) rem
          = rem.take (cutAt bend rem) :: partsLoop binEndOf cs fuel (rem.drop (cutAt bend rem)) := by
        show (match rem[min cs rem.length - 1]? with
          | none => []
          | some last => match binEndOf last.p1 with
            | .error _ => []
            | .ok bend => rem.take (cutAt bend rem) :: partsLoop binEndOf cs fuel (rem.drop (cutAt bend rem))) = _
        rw [hget]; simp only [hbend]
      have hagg : aggLoop binEndOf proc cs (fuel + 1) lo rem
          = stepRes lo (cutAt bend rem) (proc (rem.take (cutAt bend rem)))
              (aggLoop binEndOf proc cs fuel (lo + cutAt bend rem) (rem.drop (cutAt bend rem))) := by
        simp only [aggLoop, hget, hbend]
        rfl
      have htl : (rem.take (cutAt bend rem)).length = cutAt bend rem := by
        rw [List.length_take]; omega
      refine ⟨?_, ?_, ?_⟩
      · rw [hagg, hparts, ih1]
        show _ = stepRes lo (rem.take (cutAt bend rem)).length (proc (rem.take (cutAt bend rem)))
          (seqLoop proc (lo + (rem.take (cutAt bend rem)).length)
            (partsLoop binEndOf cs fuel (rem.drop (cutAt bend rem))))
        rw [htl]
      · rw [hparts, List.flatten_cons, ih2, List.take_append_drop]
      · rw [hparts]
        intro P hP
        rcases List.mem_cons.mp hP with e | hP
        · rw [e]; intro hnil
          have := congrArg List.length hnil
          rw [htl] at this; simp at this; omega
        · exact ih3 P hP

/-- what the loop needs to know about one chromosome's records -/
structure ChromInv (bins : BinTable) (cid : Nat) (rem : List HRec) : Prop where
  pos : ∀ r ∈ rem, 0 ≤ r.p1 ∧ r.p1 < (chromLen bins cid : Int)
  sorted : rem.Pairwise fun a b => a.p1 ≤ b.p1

theorem ChromInv.sublist {bins : BinTable} {cid : Nat} {rem rem' : List HRec} (h : ChromInv bins cid rem)
    (hs : rem'.Sublist rem) : ChromInv bins cid rem' :=
  ⟨fun r hr => h.pos r (hs.subset hr), h.sorted.sublist hs⟩

/-- inside its chromosome the bin-end lookup succeeds and returns the end of a bin of that chromosome
that contains the cut -/
theorem binEnd_ok {bins : BinTable} (hT : TableOK bins) {cid : Nat} {pos : Int}
    (h0 : 0 ≤ pos) (hL : pos < (chromLen bins cid : Int)) :
    ∃ (i : Nat) (b : Bin), binEnd bins cid pos = .ok (b.stop : Int) ∧ bins[i]? = some b ∧ b.chrom = cid ∧
      (b.start : Int) ≤ pos ∧ pos < (b.stop : Int) := by
  have hb : ∀ b, (none : Option Nat) = some b → ∀ g ∈ groups bins, UniformChrom b g := by
    intro b h; cases h
  obtain ⟨hn, x, gx, cx, sx, ex⟩ := assign_row hT hb h0 hL
  refine ⟨_, x, ?_, gx, cx, sx, ex⟩
  unfold binEnd
  have e : absBin bins cid pos = assignBin bins none cid pos := absBin_eq_assignVar hT h0 hL
  simp only [e]
  rw [if_neg (by omega), gx]

theorem absBin_lt (bins : BinTable) (cid : Nat) (pos : Int) : absBin bins cid pos < (bins.length : Int) := by
  unfold absBin ssRightI
  have h : ∀ x, ssRight (startAbs bins) x ≤ bins.length := by
    intro x; unfold ssRight startAbs
    have := List.countP_le_length (p := fun y => decide (y ≤ x)) (l := bins.map fun b => chromAbs bins b.chrom + b.start)
    rw [List.length_map] at this; exact this
  split
  · have : (0 : Int) ≤ (bins.length : Int) := Int.natCast_nonneg _
    omega
  · have := h ((chromAbs bins cid : Int) + pos).toNat
    omega

/-- the positional bin-end lookup never fails on a non-empty table (a negative absolute position reads
the last row, as numpy indexes) -/
theorem binEnd_total {bins : BinTable} (hne : bins ≠ []) (cid : Nat) (pos : Int) :
    ∃ e, binEnd bins cid pos = .ok e := by
  unfold binEnd
  simp only []
  by_cases hneg : absBin bins cid pos < 0
  · rw [if_pos hneg]
    cases hl : bins.getLast? with
    | none => exact absurd (List.getLast?_eq_none_iff.mp hl) hne
    | some b => exact ⟨_, rfl⟩
  · rw [if_neg hneg]
    have hlt := absBin_lt bins cid pos
    have : (absBin bins cid pos).toNat < bins.length := by omega
    rw [List.getElem?_eq_getElem this]
    exact ⟨_, rfl⟩

theorem parts_subset (binEndOf : Int → Except Err Int) (cs : Nat) :
    ∀ (f : Nat) (l : List HRec), ∀ P ∈ partsLoop binEndOf cs f l, ∀ x ∈ P, x ∈ l := by
  intro f
  induction f with
  | zero => intro l P hP; simp [partsLoop] at hP
  | succ f ihf =>
    intro l P hP x hx
    have : partsLoop binEndOf cs (f + 1) l =
      (match l[min cs l.length - 1]? with
        | none => []
        | some last => match binEndOf last.p1 with
          | .error _ => []
          | .ok bend => l.take (cutAt bend l) :: partsLoop binEndOf cs f (l.drop (cutAt bend l))) := rfl
    rw [this] at hP
    split at hP
    · simp at hP
    · split at hP
      · simp at hP
      · rcases List.mem_cons.mp hP with e | hP
        · rw [e] at hx; exact List.mem_of_mem_take hx
        · exact List.mem_of_mem_drop (ihf _ P hP x hx)

/-- the pixel row of a record's first side, as assigned -/
def rowKey (bins : BinTable) (bs : Option Nat) (cid : Nat) (r : HRec) : Int := assignBin bins bs cid r.p1

/-- **no pixel row is split**: every record of a slice lies in a strictly smaller row than every
record of a later slice -/
theorem parts_sep {bins : BinTable} (hT : TableOK bins) {bs : Option Nat}
    (hb : ∀ b, bs = some b → ∀ g ∈ groups bins, UniformChrom b g) (cid cs : Nat) :
    ∀ (fuel : Nat) (rem : List HRec), ChromInv bins cid rem →
      (partsLoop (binEnd bins cid) cs fuel rem).Pairwise fun P Q =>
        ∀ r ∈ P, ∀ s ∈ Q, rowKey bins bs cid r < rowKey bins bs cid s := by
  intro fuel
  induction fuel with
  | zero => intro rem _; exact List.Pairwise.nil
  | succ fuel ih =>
    intro rem hinv
    cases hrem : rem with
    | nil => exact List.Pairwise.nil
    | cons r0 rest0 =>
      rw [← hrem]
      have hne : rem ≠ [] := by rw [hrem]; simp
      have hlpos : 0 < rem.length := List.length_pos_iff.mpr hne
      have hidx : min cs rem.length - 1 < rem.length := by omega
      have hget : rem[min cs rem.length - 1]? = some (rem[min cs rem.length - 1]'hidx) :=
        List.getElem?_eq_getElem hidx
      have hlast := hinv.pos _ (List.getElem_mem hidx)
      obtain ⟨i0, b, hbend, hb0, hbc, hbs, hbe⟩ := binEnd_ok hT hlast.1 hlast.2
      have hparts : partsLoop (binEnd bins cid) cs (fuel + 1) rem
          = rem.take (cutAt (b.stop : Int) rem) ::
            partsLoop (binEnd bins cid) cs fuel (rem.drop (cutAt (b.stop : Int) rem)) := by
        show (match rem[min cs rem.length - 1]? with
          | none => []
          | some last => match binEnd bins cid last.p1 with
            | .error _ => []
            | .ok bend => rem.take (cutAt bend rem) ::
                partsLoop (binEnd bins cid) cs fuel (rem.drop (cutAt bend rem))) = _
        rw [hget]; simp only [hbend]
      -- the tentative last record is below the bin end, so the count is not 0
      have hcpos : 0 < rem.countP (fun r => decide (r.p1 < (b.stop : Int))) :=
        List.countP_pos_iff.mpr ⟨_, List.getElem_mem hidx, by simpa using hbe⟩
      have hcut : cutAt (b.stop : Int) rem = rem.countP (fun r => decide (r.p1 < (b.stop : Int))) := by
        simp only [cutAt]; rw [if_neg (by omega)]
      obtain ⟨htake, hdrop⟩ := take_countP_of_sorted (fun a b : HRec => a.p1 ≤ b.p1)
        (fun r => decide (r.p1 < (b.stop : Int)))
        (by intro x y hxy hy; simp only [decide_eq_true_eq] at hy ⊢; omega) rem hinv.sorted
      rw [hparts, hcut, htake, hdrop]
      have hinv' : ChromInv bins cid (rem.filter fun a => !decide (a.p1 < (b.stop : Int))) :=
        hinv.sublist List.filter_sublist
      rw [List.pairwise_cons]
      refine ⟨?_, ih _ hinv'⟩
      intro Q hQ r hr s hs
      have hr' := List.mem_filter.mp hr
      -- membership in the remaining records: every slice is a piece of them
      have hs' : s ∈ rem.filter fun a => !decide (a.p1 < (b.stop : Int)) :=
        parts_subset _ _ _ _ Q hQ s hs
      have hs'' := List.mem_filter.mp hs'
      have hrp := hinv.pos r hr'.1
      have hsp := hinv.pos s hs''.1
      have h1 : r.p1 < (b.stop : Int) := by simpa using hr'.2
      have h2 : (b.stop : Int) ≤ s.p1 := by
        have := hs''.2; simp only [Bool.not_eq_true', decide_eq_false_iff_not] at this; omega
      exact sep_at_binEnd hT hb hb0 hbc hrp.1 hrp.2 hsp.1 hsp.2 h1 h2

/-! ## one chunk -/

theorem any_congr_mem {α : Type} {l : List α} {f g : α → Bool} (h : ∀ a ∈ l, f a = g a) :
    l.any f = l.any g := by
  induction l with
  | nil => rfl
  | cons x l ih =>
    rw [List.any_cons, List.any_cons, h x List.mem_cons_self,
      ih (fun a ha => h a (List.mem_cons_of_mem _ ha))]

/-- the pixel of a record, as assigned -/
def keyR (bins : BinTable) (bs : Option Nat) (r : HRec) : Key × Int := keyOf bins bs (anchorH r)

/-- the first side of a record lies inside a chromosome of the table -/
def Side1 (bins : BinTable) (n : Nat) (r : HRec) : Prop :=
  0 ≤ r.c1 ∧ r.c1 < (n : Int) ∧ 0 ≤ r.p1 ∧ r.p1 < (chromLen bins r.c1.toNat : Int)

/-- the second side of a record, when it is on a chromosome of the table, lies inside it -/
def Side2 (bins : BinTable) (n : Nat) (r : HRec) : Prop :=
  listed2 n r = true → 0 ≤ r.p2 ∧ r.p2 < (chromLen bins r.c2.toNat : Int)

theorem good_sides {bins : BinTable} {n : Nat} {r : HRec} (h : Good bins n r) :
    Side1 bins n r ∧ Side2 bins n r ∧ listed2 n r = true := by
  obtain ⟨a1, a2, a3, a4, h1, h2, h3, h4⟩ := h
  simp only [anchorH] at h1 h2 h3 h4
  exact ⟨⟨a1, a2, h1, h2⟩, fun _ => ⟨h3, h4⟩, by simp [listed2, a3, a4]⟩

/-- a chunk whose first sides lie inside the chromosome and whose listed second sides lie inside theirs:
records with an unlisted second side are dropped; `ValueError` when a kept record is in the lower
triangle, otherwise every kept record counted once in the pixel of its two anchors -/
theorem procChunk_eq {bins : BinTable} (hT : TableOK bins) {n : Nat} (bs : Option Nat) {rs : List HRec}
    (h1 : ∀ r ∈ rs, Side1 bins n r) (h2 : ∀ r ∈ rs, Side2 bins n r) :
    procChunk bins n bs rs =
      if (rs.filter (listed2 n)).any (fun r => (anchorH r).lower) then .error .value
      else .ok (groupCells ((rs.filter (listed2 n)).map (keyR bins bs))) := by
  unfold procChunk
  have e1 : rs.any (fun r => cutOutside bins r.c1.toNat r.p1) = false := by
    rw [List.any_eq_false]
    intro r hr
    obtain ⟨_, _, a, b⟩ := h1 r hr
    simp only [cutOutside, Bool.or_eq_true, decide_eq_true_eq]; omega
  have hk : ∀ r ∈ rs.filter (listed2 n), (anchorH r).inside bins := by
    intro r hr
    obtain ⟨hr1, hr2⟩ := List.mem_filter.mp hr
    obtain ⟨_, _, a, b⟩ := h1 r hr1
    obtain ⟨c, d⟩ := h2 r hr1 hr2
    exact ⟨a, b, c, d⟩
  have e2 : (rs.filter (listed2 n)).any (fun r => cutOutside bins r.c2.toNat r.p2) = false := by
    rw [List.any_eq_false]
    intro r hr
    obtain ⟨_, _, c, d⟩ := hk r hr
    simp only [anchorH] at c d
    simp only [cutOutside, Bool.or_eq_true, decide_eq_true_eq]; omega
  simp only [e1, e2, Bool.false_eq_true, if_false, List.any_map, List.map_map]
  have hany : (rs.filter (listed2 n)).any (isLowerAbs bins ∘ withIdx)
      = (rs.filter (listed2 n)).any (fun r => (anchorH r).lower) := by
    apply any_congr_mem
    intro r hr
    have := absLower_iff (hk r hr)
    simp only [Function.comp, isLowerAbs, withIdx]
    by_cases hl : (anchorH r).lower = true
    · rw [hl]; exact decide_eq_true (this.mpr hl)
    · have hl' : (anchorH r).lower = false := by simpa using hl
      rw [hl']; exact decide_eq_false (fun hh => hl (this.mp hh))
  rw [hany]
  have hkeys : (rs.filter (listed2 n)).map (keyH bins bs ∘ withIdx) = (rs.filter (listed2 n)).map (keyR bins bs) := by
    apply List.map_congr_left
    intro r hr
    obtain ⟨a, b, c, d⟩ := hk r hr
    simp only [anchorH] at a b c d
    simp only [Function.comp, keyH, keyR, keyOf, anchorH, withIdx]
    rw [hbin_eq_assign hT bs a b, hbin_eq_assign hT bs c d]
  rw [hkeys]

/-- a chunk of records that lie inside chromosomes of the table: `ValueError` when one of them is in the
lower triangle, otherwise every record counted once in the pixel of its two anchors -/
theorem procChunk_good {bins : BinTable} (hT : TableOK bins) {n : Nat} (bs : Option Nat) {rs : List HRec}
    (h : ∀ r ∈ rs, Good bins n r) :
    procChunk bins n bs rs =
      if rs.any (fun r => (anchorH r).lower) then .error .value
      else .ok (groupCells (rs.map (keyR bins bs))) := by
  have hf : rs.filter (listed2 n) = rs := by
    rw [List.filter_eq_self]; intro r hr; exact (good_sides (h r hr)).2.2
  have := procChunk_eq hT bs (fun r hr => (good_sides (h r hr)).1) (fun r hr => (good_sides (h r hr)).2.1)
  rw [hf] at this
  exact this

/-- **a cut outside its chromosome is rejected**: a chunk holding a record whose first cut is outside the
chromosome, or whose second side is on a chromosome of the table with the cut outside it, is an error,
whatever else the chunk holds -/
theorem procChunk_rejects (bins : BinTable) (n : Nat) (bs : Option Nat) {rs : List HRec} {r : HRec}
    (hr : r ∈ rs)
    (hbad : cutOutside bins r.c1.toNat r.p1 = true ∨
      (listed2 n r = true ∧ cutOutside bins r.c2.toNat r.p2 = true)) :
    procChunk bins n bs rs = .error .badInput := by
  unfold procChunk
  by_cases h1 : rs.any (fun r => cutOutside bins r.c1.toNat r.p1) = true
  · rw [if_pos h1]
  · rw [if_neg h1]
    rcases hbad with hb | ⟨hl, hb⟩
    · exact absurd (List.any_eq_true.mpr ⟨r, hr, hb⟩) h1
    · have : (rs.filter (listed2 n)).any (fun r => cutOutside bins r.c2.toNat r.p2) = true :=
        List.any_eq_true.mpr ⟨r, List.mem_filter.mpr ⟨hr, hl⟩, hb⟩
      simp only [this, if_true]

/-! ## one chromosome, then all of them -/

/-- the records of chromosome `c` -/
def segOf (recs : List HRec) (c : Nat) : List HRec := recs.filter fun r => decide (r.c1 = (c : Int))

/-- number of records on chromosomes before `c` (`chrom_lo`) -/
def loOf (recs : List HRec) (c : Nat) : Nat := recs.countP fun r => decide (r.c1 < (c : Int))

def C1Sorted (recs : List HRec) : Prop := recs.Pairwise fun a b => a.c1 ≤ b.c1

theorem c1Sorted_of_sortedH {recs : List HRec} (h : SortedH recs) : C1Sorted recs :=
  h.imp (by intro a b hab; rcases hab with h | ⟨h, _⟩ <;> omega)

theorem loOf_succ (recs : List HRec) (c : Nat) : loOf recs (c + 1) = loOf recs c + (segOf recs c).length := by
  unfold loOf segOf
  rw [← List.countP_eq_length_filter]
  induction recs with
  | nil => rfl
  | cons r rest ih =>
    rw [List.countP_cons, List.countP_cons, List.countP_cons, ih]
    have e : decide (r.c1 < ((c + 1 : Nat) : Int)) = (decide (r.c1 < (c : Int)) || decide (r.c1 = (c : Int))) := by
      rw [Bool.eq_iff_iff]; simp only [Bool.or_eq_true, decide_eq_true_eq]; omega
    rw [e]
    by_cases h1 : r.c1 < (c : Int) <;> by_cases h2 : r.c1 = (c : Int) <;> simp [h1, h2] <;> omega

/-- the chromosome's run in the sorted file is its records, starting at `loOf` -/
theorem seg_slice {recs : List HRec} (hs : C1Sorted recs) (c : Nat) :
    (recs.drop (loOf recs c)).take (segOf recs c).length = segOf recs c := by
  obtain ⟨_, hdrop⟩ := take_countP_of_sorted (fun a b : HRec => a.c1 ≤ b.c1)
    (fun r => decide (r.c1 < (c : Int)))
    (by intro x y hxy hy; simp only [decide_eq_true_eq] at hy ⊢; omega) recs hs
  have hs2 : (recs.filter fun a => !decide (a.c1 < (c : Int))).Pairwise fun a b => a.c1 ≤ b.c1 :=
    hs.sublist List.filter_sublist
  obtain ⟨htake2, _⟩ := take_countP_of_sorted (fun a b : HRec => a.c1 ≤ b.c1)
    (fun r => decide (r.c1 ≤ (c : Int)))
    (by intro x y hxy hy; simp only [decide_eq_true_eq] at hy ⊢; omega) _ hs2
  have hseg : (recs.filter fun a => !decide (a.c1 < (c : Int))).filter (fun r => decide (r.c1 ≤ (c : Int)))
      = segOf recs c := by
    unfold segOf
    rw [List.filter_filter]
    apply List.filter_congr
    intro r _
    by_cases h1 : r.c1 < (c : Int)
    · have : ¬ r.c1 = (c : Int) := by omega
      simp [h1, this]
    · by_cases h2 : r.c1 = (c : Int)
      · simp [h2]
      · have : ¬ r.c1 ≤ (c : Int) := by omega
        simp [h1, h2, this]
  unfold loOf
  rw [hdrop]
  have hcnt : (recs.filter fun a => !decide (a.c1 < (c : Int))).countP (fun r => decide (r.c1 ≤ (c : Int)))
      = (segOf recs c).length := by
    rw [List.countP_eq_length_filter, hseg]
  rw [← hcnt, htake2, hseg]

theorem countP_map_c1 (recs : List HRec) (p : Int → Bool) :
    (recs.map HRec.c1).countP p = recs.countP (fun r => p r.c1) := by
  rw [List.countP_map]; rfl

/-- `aggregate(chrom)` on a file sorted by its first column: the loop over the chromosome's own
records, offset by the number of records before them -/
theorem aggregate_sorted (be : Nat → Int → Except Err Int) (proc : List HRec → Except Err (List Cell))
    (cs : Nat) {recs : List HRec} (hs : C1Sorted recs) (c : Nat) :
    aggregate be proc cs recs (runsFrom 0 (recs.map HRec.c1)) c =
      aggLoop (be c) proc cs (segOf recs c).length (loOf recs c) (segOf recs c) := by
  unfold aggregate
  have hcol : (recs.map HRec.c1).Pairwise (· ≤ ·) := by
    rw [List.pairwise_map]; exact hs
  rw [runs_find_sorted 0 _ hcol]
  by_cases hm : (c : Int) ∈ recs.map HRec.c1
  · rw [if_pos hm]
    have hlo : 0 + (recs.map HRec.c1).countP (fun z => decide (z < (c : Int))) = loOf recs c := by
      rw [countP_map_c1]; unfold loOf; omega
    have hhi : 0 + (recs.map HRec.c1).countP (fun z => decide (z ≤ (c : Int))) = loOf recs (c + 1) := by
      rw [countP_map_c1]; unfold loOf
      rw [Nat.zero_add]
      apply List.countP_congr
      intro r _
      simp only [decide_eq_true_eq]
      omega
    simp only [hlo, hhi]
    have : loOf recs (c + 1) - loOf recs c = (segOf recs c).length := by rw [loOf_succ]; omega
    rw [this, seg_slice hs]
  · rw [if_neg hm]
    have : segOf recs c = [] := by
      unfold segOf
      rw [List.filter_eq_nil_iff]
      intro r hr
      simp only [decide_eq_true_eq]
      intro e
      exact hm (List.mem_map.mpr ⟨r, hr, e⟩)
    rw [this]
    rfl

theorem stepRes_ok {β : Type} (lo k : Nat) (out : β) (more : List ((Nat × Nat) × β)) :
    stepRes lo k (.ok out) (.ok more) = .ok (((lo, lo + k), out) :: more) := rfl

/-- running `proc` over `A ++ B` is running it over `A`, then over `B` from where `A` ends -/
theorem seqLoop_append {β : Type} (proc : List HRec → Except Err β) (A B : List (List HRec)) (lo : Nat) :
    seqLoop proc lo (A ++ B) =
      match seqLoop proc lo A with
      | .error e => .error e
      | .ok a =>
        match seqLoop proc (lo + A.flatten.length) B with
        | .error e => .error e
        | .ok b => .ok (a ++ b) := by
  induction A generalizing lo with
  | nil =>
    simp only [List.nil_append, seqLoop, List.flatten_nil, List.length_nil, Nat.add_zero]
    cases seqLoop proc lo B <;> rfl
  | cons P rest ih =>
    simp only [List.cons_append, seqLoop, List.flatten_cons, List.length_append]
    rw [ih (lo + P.length), Nat.add_assoc]
    cases proc P with
    | error e => rfl
    | ok out =>
      cases seqLoop proc (lo + P.length) rest with
      | error e => rfl
      | ok a =>
        simp only [stepRes]
        cases seqLoop proc (lo + (P.length + rest.flatten.length)) B <;> rfl

theorem streamOver_cons {α : Type} (f : Nat → Except Err (List α)) (c : Nat) (rest : List Nat) :
    streamOver f (c :: rest) =
      match f c with
      | .error e => .error e
      | .ok a =>
        match streamOver f rest with
        | .error e => .error e
        | .ok b => .ok (a ++ b) := rfl

/-- the slices of the whole file: chromosome after chromosome -/
def allParts (bins : BinTable) (cs : Nat) (recs : List HRec) (L : List Nat) : List (List HRec) :=
  L.flatMap fun c => partsLoop (binEnd bins c) cs (segOf recs c).length (segOf recs c)

/-- every record of a chromosome of the table has its first cut inside that chromosome -/
def FirstInside (bins : BinTable) (n : Nat) (recs : List HRec) : Prop :=
  ∀ r ∈ recs, 0 ≤ r.c1 → r.c1 < (n : Int) → 0 ≤ r.p1 ∧ r.p1 < (chromLen bins r.c1.toNat : Int)

theorem firstInside_of_good {bins : BinTable} {n : Nat} {recs : List HRec} (hg : ∀ r ∈ recs, Good bins n r) :
    FirstInside bins n recs := by
  intro r hr _ _
  obtain ⟨_, _, a, b⟩ := (good_sides (hg r hr)).1
  exact ⟨a, b⟩

theorem seg_inv {bins : BinTable} {n : Nat} {recs : List HRec} (hs : SortedH recs)
    (hf : FirstInside bins n recs) {c : Nat} (hc : c < n) : ChromInv bins c (segOf recs c) := by
  constructor
  · intro r hr
    obtain ⟨hr1, hr2⟩ := List.mem_filter.mp hr
    simp only [decide_eq_true_eq] at hr2
    have := hf r hr1 (by omega) (by omega)
    have e : r.c1.toNat = c := by omega
    rw [e] at this
    exact this
  · have : (segOf recs c).Pairwise fun a b => a.c1 < b.c1 ∨ (a.c1 = b.c1 ∧ a.p1 ≤ b.p1) :=
      List.Pairwise.sublist List.filter_sublist hs
    apply this.imp_of_mem
    intro a b ha hb hab
    have ha2 := (List.mem_filter.mp ha).2
    have hb2 := (List.mem_filter.mp hb).2
    simp only [decide_eq_true_eq] at ha2 hb2
    rcases hab with h | ⟨_, h⟩
    · omega
    · exact h

theorem seg_binEnd {bins : BinTable} {recs : List HRec} (hne : recs = [] ∨ bins ≠ []) (c : Nat) :
    ∀ r ∈ segOf recs c, ∃ e, binEnd bins c r.p1 = .ok e := by
  intro r hr
  rcases hne with h | h
  · subst h; simp [segOf] at hr
  · exact binEnd_total h c r.p1

/-- **the stream is the loop body run over the slices, chromosome after chromosome** (any loop body; the
bin-end lookup never fails on a non-empty table) -/
theorem stream_eq_seq {bins : BinTable} (proc : List HRec → Except Err (List Cell))
    (cs : Nat) {recs : List HRec} (hne : recs = [] ∨ bins ≠ []) (hs : C1Sorted recs) :
    ∀ (k c : Nat), streamOver (aggregate (binEnd bins) proc cs recs (runsFrom 0 (recs.map HRec.c1))) (List.range' c k)
      = seqLoop proc (loOf recs c) (allParts bins cs recs (List.range' c k)) := by
  intro k
  induction k with
  | zero => intro c; rfl
  | succ k ih =>
    intro c
    obtain ⟨h1, h2, _⟩ := aggLoop_eq_seq (binEnd bins c) proc cs (segOf recs c).length
      (loOf recs c) (segOf recs c) (Nat.le_refl _) (seg_binEnd hne c)
    rw [List.range'_succ]
    rw [streamOver_cons, aggregate_sorted (binEnd bins) proc cs hs, h1, ih (c + 1)]
    unfold allParts
    rw [List.flatMap_cons, seqLoop_append, h2, ← loOf_succ]
    cases seqLoop proc (loOf recs c)
        (partsLoop (binEnd bins c) cs (segOf recs c).length (segOf recs c)) with
    | error e => rfl
    | ok a =>
      cases seqLoop proc (loOf recs (c + 1))
          (List.flatMap (fun c => partsLoop (binEnd bins c) cs (segOf recs c).length (segOf recs c))
            (List.range' (c + 1) k)) <;> rfl

/-! ## the slices tile the file -/

def inR (a b : Int) (r : HRec) : Bool := decide (a ≤ r.c1) && decide (r.c1 < b)

theorem seg_split {l : List HRec} (hs : C1Sorted l) (c : Nat) (m : Int) (hcm : (c : Int) < m) :
    segOf l c ++ l.filter (inR ((c : Int) + 1) m) = l.filter (inR (c : Int) m) := by
  induction l with
  | nil => rfl
  | cons x rest ih =>
    have hx : ∀ y ∈ rest, x.c1 ≤ y.c1 := fun y hy => List.rel_of_pairwise_cons hs hy
    have ih' := ih (List.Pairwise.of_cons hs)
    unfold segOf at ih' ⊢
    rcases Int.lt_trichotomy x.c1 (c : Int) with h | h | h
    · have h1 : ¬ x.c1 = (c : Int) := by omega
      rw [List.filter_cons_of_neg (by simpa using h1),
        List.filter_cons_of_neg (by simp only [inR, Bool.and_eq_true, decide_eq_true_eq]; omega),
        List.filter_cons_of_neg (by simp only [inR, Bool.and_eq_true, decide_eq_true_eq]; omega)]
      exact ih'
    · rw [List.filter_cons_of_pos (by simpa using h),
        List.filter_cons_of_neg (by simp only [inR, Bool.and_eq_true, decide_eq_true_eq]; omega),
        List.filter_cons_of_pos (by simp only [inR, Bool.and_eq_true, decide_eq_true_eq]; omega),
        List.cons_append, ih']
    · have hnil : (x :: rest).filter (fun r => decide (r.c1 = (c : Int))) = [] := by
        rw [List.filter_eq_nil_iff]
        intro y hy
        rcases List.mem_cons.mp hy with e | hy
        · rw [e]; simp; omega
        · have := hx y hy; simp; omega
      rw [hnil, List.nil_append]
      apply List.filter_congr
      intro y hy
      have : x.c1 ≤ y.c1 := by
        rcases List.mem_cons.mp hy with e | hy
        · rw [e]; exact Int.le_refl _
        · exact hx y hy
      simp only [inR]
      congr 1
      rw [Bool.eq_iff_iff]; simp only [decide_eq_true_eq]; omega

theorem range_segs {recs : List HRec} (hs : C1Sorted recs) :
    ∀ (k c : Nat), (List.range' c k).flatMap (segOf recs) = recs.filter (inR (c : Int) ((c : Int) + (k : Int))) := by
  intro k
  induction k with
  | zero =>
    intro c
    show [] = _
    symm
    rw [List.filter_eq_nil_iff]
    intro r _
    simp only [inR, Bool.and_eq_true, decide_eq_true_eq]; omega
  | succ k ih =>
    intro c
    rw [List.range'_succ, List.flatMap_cons, ih (c + 1)]
    have e1 : (((c + 1 : Nat) : Int) + (k : Int)) = (c : Int) + ((k + 1 : Nat) : Int) := by omega
    have e2 : ((c + 1 : Nat) : Int) = (c : Int) + 1 := by omega
    rw [e1, e2]
    exact seg_split hs c _ (by omega)

theorem allParts_flatten {bins : BinTable} (cs : Nat) {recs : List HRec} (hne : recs = [] ∨ bins ≠ []) (L : List Nat) :
    (allParts bins cs recs L).flatten = L.flatMap (segOf recs) := by
  induction L with
  | nil => rfl
  | cons c L ih =>
    obtain ⟨_, h2, _⟩ := aggLoop_eq_seq (binEnd bins c) (fun _ => (.ok () : Except Err Unit)) cs
      (segOf recs c).length 0 (segOf recs c) (Nat.le_refl _) (seg_binEnd hne c)
    unfold allParts at ih ⊢
    rw [List.flatMap_cons, List.flatten_append, h2, ih, List.flatMap_cons]

/-- **cover**: the slices, in order, are the records whose first side is on a chromosome of the table -/
theorem allParts_cover {bins : BinTable} (n cs : Nat) {recs : List HRec} (hne : recs = [] ∨ bins ≠ []) (hs : C1Sorted recs) :
    (allParts bins cs recs (List.range n)).flatten = recs.filter (inR 0 (n : Int)) := by
  rw [allParts_flatten cs hne, List.range_eq_range', range_segs hs]
  simp

theorem allParts_cover_good {bins : BinTable} {n : Nat} (cs : Nat) {recs : List HRec}
    (hne : recs = [] ∨ bins ≠ []) (hs : C1Sorted recs) (hg : ∀ r ∈ recs, Good bins n r) :
    (allParts bins cs recs (List.range n)).flatten = recs := by
  rw [allParts_cover n cs hne hs, List.filter_eq_self]
  intro r hr
  obtain ⟨a1, a2, _⟩ := hg r hr
  simp only [inR, Bool.and_eq_true, decide_eq_true_eq]
  omega

theorem allParts_nonempty {bins : BinTable} (cs : Nat) {recs : List HRec} (hne : recs = [] ∨ bins ≠ []) (L : List Nat) :
    ∀ P ∈ allParts bins cs recs L, P ≠ [] := by
  intro P hP
  obtain ⟨c, _, hPc⟩ := List.mem_flatMap.mp hP
  exact (aggLoop_eq_seq (binEnd bins c) (fun _ => (.ok () : Except Err Unit)) cs
    (segOf recs c).length 0 (segOf recs c) (Nat.le_refl _) (seg_binEnd hne c)).2.2 P hPc

/-- the pixel row of a record -/
def rowR (bins : BinTable) (bs : Option Nat) (r : HRec) : Int := assignBin bins bs r.c1.toNat r.p1

/-- **no pixel row is shared by two slices**, within a chromosome (`parts_sep`) and across chromosomes -/
theorem allParts_sep {bins : BinTable} (hT : TableOK bins) {n : Nat} {bs : Option Nat}
    (hb : ∀ b, bs = some b → ∀ g ∈ groups bins, UniformChrom b g) (cs : Nat)
    {recs : List HRec} (hs : SortedH recs) (hf : FirstInside bins n recs) :
    (allParts bins cs recs (List.range n)).Pairwise fun P Q =>
      ∀ r ∈ P, ∀ s ∈ Q, rowR bins bs r < rowR bins bs s := by
  unfold allParts
  rw [List.pairwise_flatMap]
  have hmem : ∀ c, c < n → ∀ P ∈ partsLoop (binEnd bins c) cs (segOf recs c).length (segOf recs c), ∀ r ∈ P,
      r.c1 = (c : Int) ∧ 0 ≤ r.p1 ∧ r.p1 < (chromLen bins c : Int) := by
    intro c hc P hP r hr
    have hseg := parts_subset _ _ _ _ P hP r hr
    have h2 := (List.mem_filter.mp hseg).2
    simp only [decide_eq_true_eq] at h2
    exact ⟨h2, (seg_inv hs hf hc).pos r hseg⟩
  constructor
  · intro c hcL
    have hc : c < n := List.mem_range.mp hcL
    have := parts_sep hT hb c cs (segOf recs c).length (segOf recs c) (seg_inv hs hf hc)
    apply this.imp_of_mem
    intro P Q hP hQ hPQ r hr s hsQ
    have e1 := (hmem c hc P hP r hr).1
    have e2 := (hmem c hc Q hQ s hsQ).1
    have := hPQ r hr s hsQ
    simp only [rowKey] at this
    simp only [rowR, e1, e2, Int.toNat_natCast]
    exact this
  · have hpw : (List.range n).Pairwise fun c c' => c < c' ∧ c' < n := by
      apply (List.pairwise_lt_range (n := n)).imp_of_mem
      intro a b _ hb hab
      exact ⟨hab, List.mem_range.mp hb⟩
    apply hpw.imp
    intro c c' hcc P hP Q hQ r hr s hsQ
    obtain ⟨e1, a1, a2⟩ := hmem c (by omega) P hP r hr
    obtain ⟨e2, b1, b2⟩ := hmem c' hcc.2 Q hQ s hsQ
    simp only [rowR, e1, e2, Int.toNat_natCast]
    exact sep_chroms hT hb hcc.1 a1 a2 b1 b2

/-! ## `proc` over the slices -/

/-- the loop's result when no chunk is rejected -/
def okRes {β : Type} (f : List HRec → β) : Nat → List (List HRec) → List ((Nat × Nat) × β)
  | _, [] => []
  | lo, P :: rest => ((lo, lo + P.length), f P) :: okRes f (lo + P.length) rest

def boundsFrom : Nat → List (List HRec) → List (Nat × Nat)
  | _, [] => []
  | lo, P :: rest => (lo, lo + P.length) :: boundsFrom (lo + P.length) rest

theorem okRes_snd {β : Type} (f : List HRec → β) (lo : Nat) (parts : List (List HRec)) :
    (okRes f lo parts).map (·.2) = parts.map f := by
  induction parts generalizing lo with
  | nil => rfl
  | cons P rest ih => simp only [okRes, List.map_cons, ih]

theorem okRes_fst {β : Type} (f : List HRec → β) (lo : Nat) (parts : List (List HRec)) :
    (okRes f lo parts).map (·.1) = boundsFrom lo parts := by
  induction parts generalizing lo with
  | nil => rfl
  | cons P rest ih => simp only [okRes, boundsFrom, List.map_cons, ih]

theorem seqLoop_ok {β : Type} (proc : List HRec → Except Err β) (f : List HRec → β)
    (parts : List (List HRec)) (h : ∀ P ∈ parts, proc P = .ok (f P)) (lo : Nat) :
    seqLoop proc lo parts = .ok (okRes f lo parts) := by
  induction parts generalizing lo with
  | nil => rfl
  | cons P rest ih =>
    simp only [seqLoop, h P List.mem_cons_self, ih (fun Q hQ => h Q (List.mem_cons_of_mem _ hQ)), okRes]
    rfl

/-- a rejected slice makes the whole run fail with that class when no slice can fail otherwise -/
theorem seqLoop_err {β : Type} (proc : List HRec → Except Err β) (e : Err)
    (parts : List (List HRec)) (hall : ∀ P ∈ parts, proc P = .error e ∨ ∃ out, proc P = .ok out)
    (hex : ∃ P ∈ parts, proc P = .error e) (lo : Nat) :
    seqLoop proc lo parts = .error e := by
  induction parts generalizing lo with
  | nil => obtain ⟨P, hP, _⟩ := hex; simp at hP
  | cons P rest ih =>
    rcases hall P List.mem_cons_self with hP | ⟨out, hP⟩
    · simp only [seqLoop, hP]; rfl
    · have hex' : ∃ Q ∈ rest, proc Q = .error e := by
        obtain ⟨Q, hQ, hQe⟩ := hex
        rcases List.mem_cons.mp hQ with e' | hQ
        · rw [e', hP] at hQe; cases hQe
        · exact ⟨Q, hQ, hQe⟩
      simp only [seqLoop, hP, ih (fun Q hQ => hall Q (List.mem_cons_of_mem _ hQ)) hex']
      rfl

/-! ## the contract of the boundaries -/

theorem chainOK_bounds (parts : List (List HRec)) (hne : ∀ P ∈ parts, P ≠ []) (lo : Nat) :
    chainOK lo (boundsFrom lo parts) (lo + parts.flatten.length) = true := by
  induction parts generalizing lo with
  | nil => simp [boundsFrom, chainOK]
  | cons P rest ih =>
    have hP := List.length_pos_iff.mpr (hne P List.mem_cons_self)
    have := ih (fun Q hQ => hne Q (List.mem_cons_of_mem _ hQ)) (lo + P.length)
    simp only [boundsFrom, chainOK, List.flatten_cons, List.length_append, decide_true, Bool.true_and,
      Bool.and_eq_true, decide_eq_true_eq]
    refine ⟨by omega, ?_⟩
    rw [← Nat.add_assoc]; exact this

theorem slices_bounds (parts : List (List HRec)) (pre post : List HRec) :
    (boundsFrom pre.length parts).map (sliceOf (pre ++ parts.flatten ++ post)) = parts := by
  induction parts generalizing pre with
  | nil => rfl
  | cons P rest ih =>
    simp only [boundsFrom, List.map_cons, List.flatten_cons]
    congr 1
    · unfold sliceOf
      simp only [Nat.add_sub_cancel_left]
      rw [List.append_assoc, List.drop_left, List.append_assoc, List.take_left]
    · have := ih (pre ++ P)
      rw [List.length_append] at this
      rw [← List.append_assoc pre P] 
      exact this

theorem sepRows_of_pairwise (bins : BinTable) (n : Nat) (parts : List (List HRec))
    (h : parts.Pairwise fun P Q => ∀ r ∈ P, ∀ s ∈ Q, bin1Of bins n r ≠ bin1Of bins n s) :
    sepRows bins n parts = true := by
  induction parts with
  | nil => rfl
  | cons P rest ih =>
    simp only [sepRows, Bool.and_eq_true, List.all_eq_true, Bool.not_eq_true', decide_eq_false_iff_not]
    exact ⟨fun r hr Q hQ s hs => List.rel_of_pairwise_cons h hQ r hr s hs, ih (List.Pairwise.of_cons h)⟩

theorem bin1Of_good {bins : BinTable} (hT : TableOK bins) {n : Nat} {bs : Option Nat}
    (hb : ∀ b, bs = some b → ∀ g ∈ groups bins, UniformChrom b g) {r : HRec} (h : Good bins n r) :
    bin1Of bins n r = some (rowR bins bs r) := by
  obtain ⟨a1, a2, _, _, h1, h2, _, _⟩ := h
  unfold bin1Of cidOf rowR
  rw [if_pos ⟨a1, a2⟩]
  exact assign_eq_binOf hT hb h1 h2

/-! ## the property -/

/-- a valid bin table, a file sorted on its first axis, every read side inside a chromosome of the table -/
structure ValidInput (bins : BinTable) (n : Nat) (recs : List HRec) : Prop where
  table : TableOK bins
  sorted : SortedH recs
  good : ∀ r ∈ recs, Good bins n r

theorem anchors_good {bins : BinTable} {n : Nat} {recs : List HRec} (hg : ∀ r ∈ recs, Good bins n r) :
    anchors { tril := .raise } (recs.map (toRec n)) = recs.map anchorH := by
  unfold anchors
  rw [List.filterMap_map]
  apply filterMap_eq_map_of
  intro r hr
  obtain ⟨a1, a2, a3, a4, _⟩ := hg r hr
  simp only [Function.comp, toRec, anchorOf, cidOf, if_pos (And.intro a1 a2), if_pos (And.intro a3 a4)]
  simp [anchorH, firstVal]

/-- the specification on well-formed upper-triangular input: one unit per record in its pixel -/
theorem hiclibSpec_good {bins : BinTable} {n : Nat} {recs : List HRec} (hv : ValidInput bins n recs)
    (hu : ∀ r ∈ recs, (anchorH r).lower = false) :
    hiclibSpec bins n recs = .ok (groupCells (recs.map (keyR bins (getBinsize bins)))) := by
  unfold hiclibSpec specCounts retained
  rw [anchors_good hv.good]
  have hin : ∀ a ∈ recs.map anchorH, a.inside bins := by
    intro a ha
    obtain ⟨r, hr, rfl⟩ := List.mem_map.mp ha
    exact (hv.good r hr).2.2.2.2
  have h1 : (recs.map anchorH).any (fun a => !decide (a.inside bins)) = false := by
    rw [List.any_eq_false]; intro a ha; simp [hin a ha]
  have h2 : (recs.map anchorH).any Anchor.lower = false := by
    rw [List.any_eq_false]; intro a ha
    obtain ⟨r, hr, rfl⟩ := List.mem_map.mp ha
    simp [hu r hr]
  simp only [h1, h2, Bool.false_eq_true, if_false, and_false, orientAnchors]
  congr 2
  rw [filterMap_eq_map_of (g := keyOf bins (getBinsize bins))]
  · rw [List.map_map]; rfl
  · intro a ha
    rw [keyOf_eq_pixelOf hv.table (binsize_truthful hv.table) (hin a ha)]
    rfl

/-- the specification rejects a lower-triangle record -/
theorem hiclibSpec_lower {bins : BinTable} {n : Nat} {recs : List HRec} (hv : ValidInput bins n recs)
    (hl : ∃ r ∈ recs, (anchorH r).lower = true) :
    hiclibSpec bins n recs = .error .badInput := by
  unfold hiclibSpec specCounts
  rw [anchors_good hv.good]
  have h1 : (recs.map anchorH).any (fun a => !decide (a.inside bins)) = false := by
    rw [List.any_eq_false]; intro a ha
    obtain ⟨r, hr, rfl⟩ := List.mem_map.mp ha
    simp [(hv.good r hr).2.2.2.2]
  have h2 : (recs.map anchorH).any Anchor.lower = true := by
    obtain ⟨r, hr, hlow⟩ := hl
    rw [List.any_eq_true]; exact ⟨_, List.mem_map.mpr ⟨r, hr, rfl⟩, hlow⟩
  simp [h1, h2]

theorem valid_nonempty {bins : BinTable} {n : Nat} {recs : List HRec} (hv : ValidInput bins n recs) :
    recs = [] ∨ bins ≠ [] := by
  cases recs with
  | nil => exact Or.inl rfl
  | cons r rest =>
    right
    obtain ⟨_, _, _, _, h1, h2, _, _⟩ := hv.good r List.mem_cons_self
    have hne := group_ne_nil_of_len (bins := bins) (c := (anchorH r).c1) (by omega)
    intro e
    rw [e] at hne
    exact hne rfl

/-- **the run, slice by slice**: on a file sorted on its first axis `list(HDF5Aggregator(…))` is
`procChunk` over the slices `allParts`, which tile the records of the table's chromosomes -/
theorem hiclib_run_sorted {bins : BinTable} (n : Nat) {recs : List HRec} (hne : recs = [] ∨ bins ≠ [])
    (hs : SortedH recs) {cs : Nat} (hcs : 1 ≤ cs) :
    hiclibChunks bins n cs recs =
      seqLoop (procChunk bins n (getBinsize bins)) (loOf recs 0) (allParts bins cs recs (List.range n)) := by
  unfold hiclibChunks hiclibChunksWith
  rw [if_neg (by omega)]
  have hcol : (recs.map HRec.c1).Pairwise (· ≤ ·) := by
    rw [List.pairwise_map]; exact c1Sorted_of_sortedH hs
  have hidx : indexChroms recs = .ok (runsFrom 0 (recs.map HRec.c1)) := by
    unfold indexChroms
    simp only []
    rw [if_pos ((runs_nodup_iff 0 _).mpr (blockSorted_of_sorted hcol))]
  rw [hidx]
  have := stream_eq_seq (procChunk bins n (getBinsize bins)) cs hne (c1Sorted_of_sortedH hs) n 0
  rw [← List.range_eq_range'] at this
  exact this

theorem hiclib_run {bins : BinTable} {n : Nat} {recs : List HRec} (hv : ValidInput bins n recs)
    {cs : Nat} (hcs : 1 ≤ cs) :
    hiclibChunks bins n cs recs =
      seqLoop (procChunk bins n (getBinsize bins)) 0 (allParts bins cs recs (List.range n)) := by
  have h0 : loOf recs 0 = 0 := by
    unfold loOf
    rw [List.countP_eq_zero]
    intro r hr
    have := (hv.good r hr).1
    simp only [decide_eq_true_eq]; omega
  rw [hiclib_run_sorted n (valid_nonempty hv) hv.sorted hcs, h0]

/-- **hiclib_chunks_cover**: for every `chunksize ≥ 1` the chunk boundaries `(lo, hi)` are consecutive
non-empty ranges that start at record 0 and end at the last record (so the per-chromosome ranges
`[chrom_lo, chrom_hi)` are covered exactly, `fuel = number of records` having sufficed), and no two
records with the same pixel row `bin1` lie in different chunks -/
theorem hiclib_chunks_cover {bins : BinTable} {n : Nat} {recs : List HRec} (hv : ValidInput bins n recs)
    (hu : ∀ r ∈ recs, (anchorH r).lower = false) {cs : Nat} (hcs : 1 ≤ cs) :
    ∃ bounds, hiclibBounds bins n cs recs = .ok bounds ∧ chunksOK bins n recs bounds = true ∧
      bounds.map (sliceOf recs) = allParts bins cs recs (List.range n) := by
  have hT := hv.table
  have hproc : ∀ P ∈ allParts bins cs recs (List.range n),
      procChunk bins n (getBinsize bins) P = .ok (groupCells (P.map (keyR bins (getBinsize bins)))) := by
    intro P hP
    have hsub : ∀ r ∈ P, r ∈ recs := by
      intro r hr
      rw [← allParts_cover_good cs (valid_nonempty hv) (c1Sorted_of_sortedH hv.sorted) hv.good]
      exact List.mem_flatten.mpr ⟨P, hP, hr⟩
    rw [procChunk_good hT _ (fun r hr => hv.good r (hsub r hr))]
    have : P.any (fun r => (anchorH r).lower) = false := by
      rw [List.any_eq_false]; intro r hr; simp [hu r (hsub r hr)]
    rw [this]; rfl
  have hrun := hiclib_run hv hcs
  rw [seqLoop_ok _ _ _ hproc] at hrun
  refine ⟨boundsFrom 0 (allParts bins cs recs (List.range n)), ?_, ?_, ?_⟩
  · unfold hiclibBounds; rw [hrun]; simp only [okRes_fst]
  · have hcover := allParts_cover_good cs (valid_nonempty hv) (c1Sorted_of_sortedH hv.sorted) hv.good
    unfold chunksOK
    rw [Bool.and_eq_true]
    constructor
    · have := chainOK_bounds _ (allParts_nonempty cs (valid_nonempty hv) (List.range n)) 0
      rw [hcover, Nat.zero_add] at this
      exact this
    · have hsl := slices_bounds (allParts bins cs recs (List.range n)) [] []
      rw [List.nil_append, List.append_nil, hcover] at hsl
      rw [show ([] : List HRec).length = 0 from rfl] at hsl
      rw [hsl]
      apply sepRows_of_pairwise
      apply (allParts_sep hT (binsize_truthful hT) cs hv.sorted (firstInside_of_good hv.good)).imp_of_mem
      intro P Q hP hQ hPQ r hr s hsQ
      have hr' : r ∈ recs := by rw [← hcover]; exact List.mem_flatten.mpr ⟨P, hP, hr⟩
      have hs' : s ∈ recs := by rw [← hcover]; exact List.mem_flatten.mpr ⟨Q, hQ, hsQ⟩
      rw [bin1Of_good hT (binsize_truthful hT) (hv.good r hr'),
        bin1Of_good hT (binsize_truthful hT) (hv.good s hs')]
      have := hPQ r hr s hsQ
      intro e
      have := Option.some.inj e
      omega
  · have hcover := allParts_cover_good cs (valid_nonempty hv) (c1Sorted_of_sortedH hv.sorted) hv.good
    have hsl := slices_bounds (allParts bins cs recs (List.range n)) [] []
    rw [List.nil_append, List.append_nil, hcover] at hsl
    exact hsl

/-- **hiclib_eq_spec**: for every `chunksize ≥ 1` the stream of `HDF5Aggregator`, concatenated, IS the
specification of C05 for the records of the file — one unit per read pair in the pixel
`(binOf anchor₁, binOf anchor₂)` — is strictly sorted by `(bin1, bin2)` (no pixel twice: a valid input
for `create`), stores under each pixel the number of read pairs whose two anchors lie in it, and its
counts add up to the number of read pairs -/
theorem hiclib_eq_spec {bins : BinTable} {n : Nat} {recs : List HRec} (hv : ValidInput bins n recs)
    (hu : ∀ r ∈ recs, (anchorH r).lower = false) {cs : Nat} (hcs : 1 ≤ cs) :
    ∃ chunks cells, hiclibStream bins n cs recs = .ok chunks ∧ chunks.flatten = cells ∧
      hiclibSpec bins n recs = .ok cells ∧ SortedCells cells ∧ totalCount cells = recs.length ∧
      ∀ k, countAt cells k = recs.countP fun r => decide (pixelOf bins (anchorH r) = some k) := by
  have hT := hv.table
  have hcover := allParts_cover_good cs (valid_nonempty hv) (c1Sorted_of_sortedH hv.sorted) hv.good
  have hproc : ∀ P ∈ allParts bins cs recs (List.range n),
      procChunk bins n (getBinsize bins) P = .ok (groupCells (P.map (keyR bins (getBinsize bins)))) := by
    intro P hP
    have hsub : ∀ r ∈ P, r ∈ recs := by
      intro r hr
      rw [← hcover]
      exact List.mem_flatten.mpr ⟨P, hP, hr⟩
    rw [procChunk_good hT _ (fun r hr => hv.good r (hsub r hr))]
    have : P.any (fun r => (anchorH r).lower) = false := by
      rw [List.any_eq_false]; intro r hr; simp [hu r (hsub r hr)]
    rw [this]; rfl
  have hrun := hiclib_run hv hcs
  rw [seqLoop_ok _ _ _ hproc] at hrun
  refine ⟨(allParts bins cs recs (List.range n)).map
      (fun P => groupCells (P.map (keyR bins (getBinsize bins)))),
    groupCells (recs.map (keyR bins (getBinsize bins))), ?_, ?_, hiclibSpec_good hv hu,
    groupCells_sorted _, ?_, ?_⟩
  · unfold hiclibStream; rw [hrun]; simp only [okRes_snd]
  · have : (allParts bins cs recs (List.range n)).map
          (fun P => groupCells (P.map (keyR bins (getBinsize bins))))
        = ((allParts bins cs recs (List.range n)).map (List.map (keyR bins (getBinsize bins)))).map groupCells := by
      rw [List.map_map]; rfl
    rw [this, groupCells_blocks, ← List.map_flatten, hcover]
    rw [List.pairwise_map]
    apply (allParts_sep hT (binsize_truthful hT) cs hv.sorted (firstInside_of_good hv.good)).imp
    intro P Q hPQ a ha b hb
    obtain ⟨r, hr, rfl⟩ := List.mem_map.mp ha
    obtain ⟨s, hsQ, rfl⟩ := List.mem_map.mp hb
    left
    exact hPQ r hr s hsQ
  · rw [totalCount_groupCells, List.length_map]
  · intro k
    rw [countAt_groupCells, List.countP_map]
    apply List.countP_congr
    intro r hr
    have := keyOf_eq_pixelOf hT (binsize_truthful hT) (hv.good r hr).2.2.2.2
    simp only [Function.comp, keyR, this, Option.some.injEq, decide_eq_true_eq]
    exact ⟨of_decide_eq_true, decide_eq_true⟩

/-- the result does not depend on `chunksize` -/
theorem hiclib_chunksize_independent {bins : BinTable} {n : Nat} {recs : List HRec}
    (hv : ValidInput bins n recs) (hu : ∀ r ∈ recs, (anchorH r).lower = false) {cs cs' : Nat}
    (hcs : 1 ≤ cs) (hcs' : 1 ≤ cs') :
    ∃ ch ch', hiclibStream bins n cs recs = .ok ch ∧ hiclibStream bins n cs' recs = .ok ch' ∧
      ch.flatten = ch'.flatten := by
  obtain ⟨ch, cells, h1, h2, h3, _⟩ := hiclib_eq_spec hv hu hcs
  obtain ⟨ch', cells', h1', h2', h3', _⟩ := hiclib_eq_spec hv hu hcs'
  rw [h3] at h3'
  exact ⟨ch, ch', h1, h1', by rw [h2, h2']; exact Except.ok.inj h3'⟩

/-- **hiclib_rejects_lower**: a read pair in the lower triangle (`side1 > side2` in the given chromosome
order) makes the whole run fail with `ValueError`, for every `chunksize ≥ 1`; the specification
rejects it too -/
theorem hiclib_rejects_lower {bins : BinTable} {n : Nat} {recs : List HRec} (hv : ValidInput bins n recs)
    (hl : ∃ r ∈ recs, (anchorH r).lower = true) {cs : Nat} (hcs : 1 ≤ cs) :
    hiclibStream bins n cs recs = .error .value ∧ hiclibSpec bins n recs = .error .badInput := by
  refine ⟨?_, hiclibSpec_lower hv hl⟩
  have hT := hv.table
  have hcover := allParts_cover_good cs (valid_nonempty hv) (c1Sorted_of_sortedH hv.sorted) hv.good
  have hsub : ∀ P ∈ allParts bins cs recs (List.range n), ∀ r ∈ P, r ∈ recs := by
    intro P hP r hr
    rw [← hcover]
    exact List.mem_flatten.mpr ⟨P, hP, hr⟩
  have hrun := hiclib_run hv hcs
  have herr : seqLoop (procChunk bins n (getBinsize bins)) 0 (allParts bins cs recs (List.range n))
      = .error .value := by
    apply seqLoop_err
    · intro P hP
      rw [procChunk_good hT _ (fun r hr => hv.good r (hsub P hP r hr))]
      split
      · left; rfl
      · right; exact ⟨_, rfl⟩
    · obtain ⟨r, hr, hlow⟩ := hl
      rw [← hcover] at hr
      obtain ⟨P, hP, hrP⟩ := List.mem_flatten.mp hr
      refine ⟨P, hP, ?_⟩
      rw [procChunk_good hT _ (fun r hr => hv.good r (hsub P hP r hr))]
      rw [if_pos (List.any_eq_true.mpr ⟨r, hrP, hlow⟩)]
  unfold hiclibStream
  rw [hrun, herr]

/-- **hiclib_rejects_unsorted**: a chromosome id that occurs on both sides of a different id in the
first column (the file is not sorted on its first axis) is a `ValueError` at construction, whatever
else the file holds -/
theorem hiclib_rejects_unsorted (bins : BinTable) (n cs : Nat) (recs : List HRec)
    (h : ∃ A x y B, recs.map HRec.c1 = A ++ x :: y :: B ∧ x ≠ y ∧ x ∈ B) :
    hiclibStream bins n cs recs = .error .value := by
  obtain ⟨A, x, y, B, hc, hxy, hB⟩ := h
  have hnb : ¬ BlockSorted (recs.map HRec.c1) := by rw [hc]; exact not_blockSorted_of_sandwich hxy hB
  have hidx : indexChroms recs = .error .value := by
    unfold indexChroms
    simp only []
    rw [if_neg (fun hnd => hnb ((runs_nodup_iff 0 _).mp hnd))]
  unfold hiclibStream hiclibChunks hiclibChunksWith
  rw [hidx]
  by_cases hc0 : cs = 0 ∧ recs ≠ []
  · rw [if_pos hc0]
  · rw [if_neg hc0]

/-! ## ids that are not in the table, cuts outside their chromosome (the repaired loader) -/

/-- both sides of a record are on chromosomes of the table -/
def both (n : Nat) (r : HRec) : Bool := listed2 n r && inR 0 (n : Int) r

theorem filterMap_eq_map_filter {α β : Type} (f : α → Option β) (p : α → Bool) (g : α → β) (l : List α)
    (h : ∀ a ∈ l, f a = if p a then some (g a) else none) : l.filterMap f = (l.filter p).map g := by
  induction l with
  | nil => rfl
  | cons x l ih =>
    have ih' := ih (fun a ha => h a (List.mem_cons_of_mem _ ha))
    rw [List.filterMap_cons, h x List.mem_cons_self]
    by_cases hp : p x = true
    · rw [if_pos hp, List.filter_cons_of_pos hp, List.map_cons, ih']
    · rw [if_neg hp, List.filter_cons_of_neg hp, ih']

/-- the records the specification retains: both ids in the table -/
theorem anchors_listed (n : Nat) (recs : List HRec) :
    anchors { tril := .raise } (recs.map (toRec n)) = (recs.filter (both n)).map anchorH := by
  unfold anchors
  rw [List.filterMap_map]
  apply filterMap_eq_map_filter
  intro r _
  simp only [Function.comp, toRec, anchorOf, cidOf, both, listed2, inR]
  by_cases h1 : 0 ≤ r.c1 ∧ r.c1 < (n : Int)
  · by_cases h2 : 0 ≤ r.c2 ∧ r.c2 < (n : Int)
    · simp [h1, h2, h1.1, h1.2, h2.1, h2.2, anchorH, firstVal]
    · have : ¬ (decide (0 ≤ r.c2) && decide (r.c2 < (n : Int))) = true := by simpa using h2
      simp [h1, h2, this]
  · have : ¬ (decide (0 ≤ r.c1) && decide (r.c1 < (n : Int))) = true := by simpa using h1
    simp [h1, this]

/-- what the repaired loader needs of a file in which some ids are not in the table: a valid non-empty
table, the file sorted on its first axis, every first cut of a table chromosome inside it, and every
record with BOTH sides on table chromosomes inside them and in the upper triangle -/
structure ListedOK (bins : BinTable) (n : Nat) (recs : List HRec) : Prop where
  table : TableOK bins
  nonempty : bins ≠ []
  sorted : SortedH recs
  first : FirstInside bins n recs
  second : ∀ r ∈ recs, both n r = true → 0 ≤ r.p2 ∧ r.p2 < (chromLen bins r.c2.toNat : Int)
  upper : ∀ r ∈ recs, both n r = true → (anchorH r).lower = false

theorem listedOK_inside {bins : BinTable} {n : Nat} {recs : List HRec} (hv : ListedOK bins n recs) :
    ∀ r ∈ recs.filter (both n), (anchorH r).inside bins := by
  intro r hr
  obtain ⟨hr1, hr2⟩ := List.mem_filter.mp hr
  have hb := hr2
  simp only [both, inR, Bool.and_eq_true, decide_eq_true_eq] at hb
  obtain ⟨a, b⟩ := hv.first r hr1 hb.2.1 hb.2.2
  obtain ⟨c, d⟩ := hv.second r hr1 hr2
  exact ⟨a, b, c, d⟩

/-- the specification on such a file: one unit per record with both sides on table chromosomes -/
theorem hiclibSpec_listed {bins : BinTable} {n : Nat} {recs : List HRec} (hv : ListedOK bins n recs) :
    hiclibSpec bins n recs = .ok (groupCells ((recs.filter (both n)).map (keyR bins (getBinsize bins)))) := by
  unfold hiclibSpec specCounts retained
  rw [anchors_listed]
  have hin : ∀ a ∈ (recs.filter (both n)).map anchorH, a.inside bins := by
    intro a ha
    obtain ⟨r, hr, rfl⟩ := List.mem_map.mp ha
    exact listedOK_inside hv r hr
  have h1 : ((recs.filter (both n)).map anchorH).any (fun a => !decide (a.inside bins)) = false := by
    rw [List.any_eq_false]; intro a ha; simp [hin a ha]
  have h2 : ((recs.filter (both n)).map anchorH).any Anchor.lower = false := by
    rw [List.any_eq_false]; intro a ha
    obtain ⟨r, hr, rfl⟩ := List.mem_map.mp ha
    obtain ⟨hr1, hr2⟩ := List.mem_filter.mp hr
    simp [hv.upper r hr1 hr2]
  simp only [h1, h2, Bool.false_eq_true, if_false, and_false, orientAnchors]
  congr 2
  rw [filterMap_eq_map_of (g := keyOf bins (getBinsize bins))]
  · rw [List.map_map]; rfl
  · intro a ha
    rw [keyOf_eq_pixelOf hv.table (binsize_truthful hv.table) (hin a ha)]
    rfl

/-- **hiclib_drops_unlisted**: for every `chunksize ≥ 1`, on a file in which some ids are not in the table,
the concatenated stream is the specification of C05 — the records with a side on an unlisted id are
dropped (first side: the chromosome is never visited; second side: dropped from its chunk), every other
record is counted once in the pixel of its two anchors -/
theorem hiclib_drops_unlisted {bins : BinTable} {n : Nat} {recs : List HRec} (hv : ListedOK bins n recs)
    {cs : Nat} (hcs : 1 ≤ cs) :
    ∃ chunks cells, hiclibStream bins n cs recs = .ok chunks ∧ chunks.flatten = cells ∧
      hiclibSpec bins n recs = .ok cells ∧ SortedCells cells ∧
      totalCount cells = (recs.filter (both n)).length := by
  have hT := hv.table
  have hne : recs = [] ∨ bins ≠ [] := Or.inr hv.nonempty
  have hcs1 := c1Sorted_of_sortedH hv.sorted
  have hcover := allParts_cover n cs hne hcs1
  have hsub : ∀ P ∈ allParts bins cs recs (List.range n), ∀ r ∈ P, r ∈ recs ∧ inR 0 (n : Int) r = true := by
    intro P hP r hr
    have : r ∈ recs.filter (inR 0 (n : Int)) := by
      rw [← hcover]; exact List.mem_flatten.mpr ⟨P, hP, hr⟩
    exact List.mem_filter.mp this
  have hproc : ∀ P ∈ allParts bins cs recs (List.range n),
      procChunk bins n (getBinsize bins) P
        = .ok (groupCells ((P.filter (listed2 n)).map (keyR bins (getBinsize bins)))) := by
    intro P hP
    have hs1 : ∀ r ∈ P, Side1 bins n r := by
      intro r hr
      obtain ⟨hr1, hr2⟩ := hsub P hP r hr
      simp only [inR, Bool.and_eq_true, decide_eq_true_eq] at hr2
      obtain ⟨a, b⟩ := hv.first r hr1 hr2.1 hr2.2
      exact ⟨hr2.1, hr2.2, a, b⟩
    have hs2 : ∀ r ∈ P, Side2 bins n r := by
      intro r hr hl
      obtain ⟨hr1, hr2⟩ := hsub P hP r hr
      exact hv.second r hr1 (by simp only [both, hl, hr2, Bool.and_self])
    rw [procChunk_eq hT _ hs1 hs2]
    have : (P.filter (listed2 n)).any (fun r => (anchorH r).lower) = false := by
      rw [List.any_eq_false]; intro r hr
      obtain ⟨hrP, hl⟩ := List.mem_filter.mp hr
      obtain ⟨hr1, hr2⟩ := hsub P hP r hrP
      simp [hv.upper r hr1 (by simp only [both, hl, hr2, Bool.and_self])]
    rw [this]; rfl
  have hrun := hiclib_run_sorted n hne hv.sorted hcs
  rw [seqLoop_ok _ _ _ hproc] at hrun
  refine ⟨(allParts bins cs recs (List.range n)).map
      (fun P => groupCells ((P.filter (listed2 n)).map (keyR bins (getBinsize bins)))),
    groupCells ((recs.filter (both n)).map (keyR bins (getBinsize bins))), ?_, ?_, hiclibSpec_listed hv,
    groupCells_sorted _, ?_⟩
  · unfold hiclibStream; rw [hrun]; simp only [okRes_snd]
  · have e1 : (allParts bins cs recs (List.range n)).map
          (fun P => groupCells ((P.filter (listed2 n)).map (keyR bins (getBinsize bins))))
        = (((allParts bins cs recs (List.range n)).map (List.filter (listed2 n))).map
            (List.map (keyR bins (getBinsize bins)))).map groupCells := by
      rw [List.map_map, List.map_map]; rfl
    rw [e1, groupCells_blocks, ← List.map_flatten, ← List.filter_flatten, hcover, List.filter_filter]
    · rfl
    · rw [List.pairwise_map, List.pairwise_map]
      apply (allParts_sep hT (binsize_truthful hT) cs hv.sorted hv.first).imp
      intro P Q hPQ a ha b hb
      obtain ⟨r, hr, rfl⟩ := List.mem_map.mp ha
      obtain ⟨s, hsQ, rfl⟩ := List.mem_map.mp hb
      left
      exact hPQ r (List.mem_filter.mp hr).1 s (List.mem_filter.mp hsQ).1
  · rw [totalCount_groupCells, List.length_map]

theorem seqLoop_isErr {β : Type} (proc : List HRec → Except Err β) (parts : List (List HRec))
    (hex : ∃ P ∈ parts, isErr (proc P) = true) (lo : Nat) : isErr (seqLoop proc lo parts) = true := by
  induction parts generalizing lo with
  | nil => obtain ⟨P, hP, _⟩ := hex; simp at hP
  | cons P rest ih =>
    simp only [seqLoop]
    cases hp : proc P with
    | error e => rfl
    | ok out =>
      have hex' : ∃ Q ∈ rest, isErr (proc Q) = true := by
        obtain ⟨Q, hQ, hQe⟩ := hex
        rcases List.mem_cons.mp hQ with e' | hQ
        · rw [e', hp] at hQe; simp [isErr] at hQe
        · exact ⟨Q, hQ, hQe⟩
      have := ih hex' (lo + P.length)
      cases hr : seqLoop proc (lo + P.length) rest with
      | error e => rfl
      | ok more => rw [hr] at this; simp [isErr] at this

/-- **hiclib_rejects_outside**: on a non-empty table, for every `chunksize ≥ 1` and whatever else the
sorted file holds, a record whose first side is on a chromosome of the table with the cut outside it
(second side listed or not), or whose two sides are on chromosomes of the table with the second cut
outside, makes the whole run fail — no bin is ever assigned to it -/
theorem hiclib_rejects_outside {bins : BinTable} (hne : bins ≠ []) (n : Nat) {recs : List HRec}
    (hs : SortedH recs) {cs : Nat} (hcs : 1 ≤ cs)
    (h : ∃ r ∈ recs, inR 0 (n : Int) r = true ∧ (cutOutside bins r.c1.toNat r.p1 = true ∨
      (listed2 n r = true ∧ cutOutside bins r.c2.toNat r.p2 = true))) :
    isErr (hiclibStream bins n cs recs) = true := by
  obtain ⟨r, hr, hin, hbad⟩ := h
  have hrun := hiclib_run_sorted n (Or.inr hne) hs hcs
  have hcover := allParts_cover n cs (Or.inr hne) (c1Sorted_of_sortedH hs)
  have hmem : r ∈ (allParts bins cs recs (List.range n)).flatten := by
    rw [hcover]; exact List.mem_filter.mpr ⟨hr, hin⟩
  obtain ⟨P, hP, hrP⟩ := List.mem_flatten.mp hmem
  have herr := seqLoop_isErr (procChunk bins n (getBinsize bins)) _
    ⟨P, hP, by rw [procChunk_rejects bins n _ hrP hbad]; rfl⟩ (loOf recs 0)
  unfold hiclibStream
  rw [hrun]
  cases hq : seqLoop (procChunk bins n (getBinsize bins)) (loOf recs 0) (allParts bins cs recs (List.range n)) with
  | error e => rfl
  | ok l => rw [hq] at herr; simp [isErr] at herr

/-! ## non-vacuity, and the points the hypotheses exclude -/

/-- a table with a short last bin and a one-bin chromosome (fixed width 2) -/
def exFixed : BinTable := [⟨0, 0, 2⟩, ⟨0, 2, 4⟩, ⟨0, 4, 5⟩, ⟨1, 0, 2⟩, ⟨2, 0, 2⟩, ⟨2, 2, 3⟩]

/-- a variable-width table -/
def exVar : BinTable := [⟨0, 0, 1⟩, ⟨0, 1, 4⟩, ⟨0, 4, 6⟩, ⟨1, 0, 7⟩, ⟨2, 0, 2⟩, ⟨2, 2, 3⟩]

/-- cuts on bin edges, at 0 and at `L-1`, a chromosome without records, duplicates of one pixel -/
def exRecs : List HRec :=
  [⟨0, 0, 0, 0⟩, ⟨0, 1, 0, 4⟩, ⟨0, 1, 2, 2⟩, ⟨0, 2, 0, 3⟩, ⟨0, 3, 0, 3⟩, ⟨0, 3, 2, 0⟩, ⟨0, 4, 0, 4⟩, ⟨0, 4, 2, 2⟩,
    ⟨2, 0, 2, 1⟩, ⟨2, 2, 2, 2⟩]

theorem exFixed_ok : TableOK exFixed := by
  refine ⟨by decide, ?_⟩
  intro g hg
  have : g ∈ [[(⟨0, 0, 2⟩ : Bin), ⟨0, 2, 4⟩, ⟨0, 4, 5⟩], [⟨1, 0, 2⟩], [⟨2, 0, 2⟩, ⟨2, 2, 3⟩]] := by
    simpa [exFixed, groups, chromOrder, groupOf] using hg
  simp at this
  rcases this with h | h | h <;> subst h <;> decide

theorem exVar_ok : TableOK exVar := by
  refine ⟨by decide, ?_⟩
  intro g hg
  have : g ∈ [[(⟨0, 0, 1⟩ : Bin), ⟨0, 1, 4⟩, ⟨0, 4, 6⟩], [⟨1, 0, 7⟩], [⟨2, 0, 2⟩, ⟨2, 2, 3⟩]] := by
    simpa [exVar, groups, chromOrder, groupOf] using hg
  simp at this
  rcases this with h | h | h <;> subst h <;> decide

/-- non-vacuity of `hiclib_eq_spec` / `hiclib_chunks_cover` (fixed width): the hypotheses hold, three
chunk sizes give three different chunkings and one stream -/
example : ValidInput exFixed 3 exRecs ∧ (∀ r ∈ exRecs, (anchorH r).lower = false) ∧
    getBinsize exFixed = some 2 ∧
    hiclibBounds exFixed 3 1 exRecs = .ok [(0, 3), (3, 6), (6, 8), (8, 9), (9, 10)] ∧
    hiclibBounds exFixed 3 4 exRecs = .ok [(0, 6), (6, 8), (8, 10)] ∧
    hiclibBounds exFixed 3 100 exRecs = .ok [(0, 8), (8, 10)] ∧
    (hiclibStream exFixed 3 1 exRecs).map List.flatten = hiclibSpec exFixed 3 exRecs ∧
    hiclibSpec exFixed 3 exRecs =
      .ok [⟨(0, 0), 1, 0⟩, ⟨(0, 2), 1, 0⟩, ⟨(0, 5), 1, 0⟩, ⟨(1, 1), 2, 0⟩, ⟨(1, 4), 1, 0⟩, ⟨(2, 2), 1, 0⟩,
        ⟨(2, 5), 1, 0⟩, ⟨(4, 4), 1, 0⟩, ⟨(5, 5), 1, 0⟩] := by
  refine ⟨⟨exFixed_ok, by decide, by decide⟩, by decide, by decide, by decide, by decide, by decide, by decide,
    by decide⟩

/-- non-vacuity (variable width; two read pairs in one pixel) -/
example : ValidInput exVar 3 exRecs ∧ (∀ r ∈ exRecs, (anchorH r).lower = false) ∧
    getBinsize exVar = none ∧
    hiclibBounds exVar 3 2 exRecs = .ok [(0, 6), (6, 8), (8, 10)] ∧
    (hiclibStream exVar 3 2 exRecs).map List.flatten = hiclibSpec exVar 3 exRecs ∧
    hiclibSpec exVar 3 exRecs =
      .ok [⟨(0, 0), 1, 0⟩, ⟨(1, 1), 2, 0⟩, ⟨(1, 2), 1, 0⟩, ⟨(1, 4), 1, 0⟩, ⟨(1, 5), 1, 0⟩, ⟨(2, 2), 1, 0⟩,
        ⟨(2, 5), 1, 0⟩, ⟨(4, 4), 1, 0⟩, ⟨(5, 5), 1, 0⟩] := by
  refine ⟨⟨exVar_ok, by decide, by decide⟩, by decide, by decide, by decide, by decide, by decide⟩

/-- non-vacuity of `hiclib_rejects_lower`, `hiclib_rejects_unsorted` -/
example : ValidInput exFixed 3 [⟨0, 1, 0, 3⟩, ⟨0, 3, 0, 2⟩] ∧
    hiclibStream exFixed 3 1 [⟨0, 1, 0, 3⟩, ⟨0, 3, 0, 2⟩] = .error .value ∧
    hiclibStream exFixed 3 1 [⟨0, 1, 0, 3⟩, ⟨2, 0, 2, 0⟩, ⟨0, 3, 0, 4⟩] = .error .value := by
  refine ⟨⟨exFixed_ok, by decide, by decide⟩, by decide, by decide⟩

/-! ## the full wording, for the repaired loader and for the loader before the fixes -/

/-- a loader: table, number of chromosomes, chunksize, file ↦ chunks -/
abbrev Loader := BinTable → Nat → Nat → List HRec → Except Err (List (List Cell))

/-- the full wording of the property for a loader: a cut outside its chromosome is rejected -/
def hiclib_rejects_outside_Statement (stream : Loader) : Prop :=
  ∀ (bins : BinTable) (n cs : Nat) (recs : List HRec), TableOK bins → bins ≠ [] → 1 ≤ cs → SortedH recs →
    outside bins n recs = true → isErr (stream bins n cs recs) = true

/-- the repaired loader meets it (fix D29) -/
theorem hiclib_rejects_outside_full : hiclib_rejects_outside_Statement hiclibStream := by
  intro bins n cs recs _ hne hcs hs hout
  unfold outside at hout
  rw [anchors_listed, List.any_eq_true] at hout
  obtain ⟨a, ha, hna⟩ := hout
  obtain ⟨r, hr, rfl⟩ := List.mem_map.mp ha
  obtain ⟨hr1, hr2⟩ := List.mem_filter.mp hr
  simp only [both, Bool.and_eq_true] at hr2
  apply hiclib_rejects_outside hne n hs hcs
  refine ⟨r, hr1, hr2.2, ?_⟩
  have hni : ¬ (anchorH r).inside bins := by simpa using hna
  simp only [Anchor.inside, anchorH] at hni
  simp only [cutOutside, Bool.or_eq_true, decide_eq_true_eq]
  by_cases h1 : r.p1 < 0 ∨ (chromLen bins r.c1.toNat : Int) ≤ r.p1
  · exact Or.inl h1
  · right
    refine ⟨hr2.1, ?_⟩
    omega

/-- **before fix D29 `HDF5Aggregator` validated no position**: the cut `4` on a chromosome of length 4 was
accepted and counted in the first bin of the NEXT chromosome -/
theorem hiclibLegacy_accepts_outside : ¬ hiclib_rejects_outside_Statement hiclibStreamLegacy := by
  intro h
  have := h [⟨0, 0, 2⟩, ⟨0, 2, 4⟩, ⟨1, 0, 2⟩] 2 1 [⟨0, 4, 1, 0⟩]
    ⟨by decide, by
      intro g hg
      have : g ∈ [[(⟨0, 0, 2⟩ : Bin), ⟨0, 2, 4⟩], [⟨1, 0, 2⟩]] := by
        simpa [groups, chromOrder, groupOf] using hg
      simp at this
      rcases this with h | h <;> subst h <;> decide⟩ (by decide) (by decide) (by decide) (by decide)
  revert this
  decide

example : hiclibStreamLegacy [⟨0, 0, 2⟩, ⟨0, 2, 4⟩, ⟨1, 0, 2⟩] 2 1 [⟨0, 4, 1, 0⟩] = .ok [[⟨(2, 2), 1, 0⟩]] ∧
    hiclibStream [⟨0, 0, 2⟩, ⟨0, 2, 4⟩, ⟨1, 0, 2⟩] 2 1 [⟨0, 4, 1, 0⟩] = .error .badInput ∧
    isErr (hiclibSpec [⟨0, 0, 2⟩, ⟨0, 2, 4⟩, ⟨1, 0, 2⟩] 2 [⟨0, 4, 1, 0⟩]) = true := by decide

/-- a negative first cut on the first chromosome: `KeyError` (`bins["end"][-1]`) before the fixes, rejected
as a cut outside its chromosome now -/
example : hiclibStreamLegacy [⟨0, 0, 2⟩, ⟨0, 2, 4⟩, ⟨1, 0, 2⟩] 2 1 [⟨0, -1, 0, 1⟩] = .error .key ∧
    hiclibStream [⟨0, 0, 2⟩, ⟨0, 2, 4⟩, ⟨1, 0, 2⟩] 2 1 [⟨0, -1, 0, 1⟩] = .error .badInput := by decide

/-- the full wording for a loader: a read pair with a side on an id that is not in the table is dropped -/
def hiclib_drops_unlisted_Statement (stream : Loader) : Prop :=
  ∀ (bins : BinTable) (n cs : Nat) (recs : List HRec), ListedOK bins n recs → 1 ≤ cs →
    (stream bins n cs recs).map List.flatten = hiclibSpec bins n recs

/-- the repaired loader meets it (fix D30) -/
theorem hiclib_drops_unlisted_full : hiclib_drops_unlisted_Statement hiclibStream := by
  intro bins n cs recs hv hcs
  obtain ⟨chunks, cells, h1, h2, h3, _⟩ := hiclib_drops_unlisted hv hcs
  rw [h1, h3, ← h2]
  rfl

/-- **before fix D30 a second side on id `-1` (or `n`) was not dropped**: with a variable-width table it was
counted in the LAST bin of the table (`chrom_abspos[-1]` is the genome length), with a fixed-width table
it got the bin id `n_bins` -/
theorem hiclibLegacy_counts_unlisted : ¬ hiclib_drops_unlisted_Statement hiclibStreamLegacy := by
  intro h
  have := h [⟨0, 0, 1⟩, ⟨0, 1, 4⟩, ⟨1, 0, 2⟩] 2 1 [⟨0, 1, -1, 0⟩]
    ⟨⟨by decide, by
      intro g hg
      have : g ∈ [[(⟨0, 0, 1⟩ : Bin), ⟨0, 1, 4⟩], [⟨1, 0, 2⟩]] := by
        simpa [groups, chromOrder, groupOf] using hg
      simp at this
      rcases this with h | h <;> subst h <;> decide⟩, by decide, by decide,
      by intro r hr; simp at hr; subst hr; decide,
      by intro r hr; simp at hr; subst hr; decide,
      by intro r hr; simp at hr; subst hr; decide⟩ (by decide)
  revert this
  decide

example : hiclibStreamLegacy [⟨0, 0, 1⟩, ⟨0, 1, 4⟩, ⟨1, 0, 2⟩] 2 1 [⟨0, 1, -1, 0⟩] = .ok [[⟨(1, 2), 1, 0⟩]] ∧
    hiclibStream [⟨0, 0, 1⟩, ⟨0, 1, 4⟩, ⟨1, 0, 2⟩] 2 1 [⟨0, 1, -1, 0⟩] = .ok [[]] ∧
    hiclibSpec [⟨0, 0, 1⟩, ⟨0, 1, 4⟩, ⟨1, 0, 2⟩] 2 [⟨0, 1, -1, 0⟩] = .ok [] ∧
    hiclibStreamLegacy [⟨0, 0, 2⟩, ⟨0, 2, 4⟩, ⟨1, 0, 2⟩] 2 1 [⟨0, 1, -1, 0⟩] = .ok [[⟨(0, 3), 1, 0⟩]] ∧
    hiclibStreamLegacy [⟨0, 0, 2⟩, ⟨0, 2, 4⟩, ⟨1, 0, 2⟩] 2 1 [⟨0, 1, 3, 0⟩] = .error .index ∧
    hiclibStream [⟨0, 0, 2⟩, ⟨0, 2, 4⟩, ⟨1, 0, 2⟩] 2 1 [⟨0, 1, 3, 0⟩] = .ok [[]] := by decide

/-- records whose FIRST side is on an unlisted id are never visited: dropped, as the property says
(before and after the fixes) -/
example : hiclibStream [⟨0, 0, 2⟩, ⟨0, 2, 4⟩, ⟨1, 0, 2⟩] 2 1 [⟨-1, 0, 0, 0⟩, ⟨0, 1, 0, 1⟩, ⟨2, 0, 2, 0⟩]
    = .ok [[⟨(0, 0), 1, 0⟩]] := by decide

/-- a record with its first side on a table chromosome at a cut OUTSIDE it and its second side on an unlisted
id is rejected, not dropped (the first cuts are validated before anything is dropped: they decide where the
loop cuts) — the one input on which the repaired loader is stricter than `specCounts`; `ListedOK.first`
excludes it -/
example : hiclibStream [⟨0, 0, 2⟩, ⟨0, 2, 4⟩, ⟨1, 0, 3⟩] 2 3 [⟨0, 2, 0, 2⟩, ⟨0, 3, 0, 3⟩, ⟨0, 99, -1, 0⟩]
      = .error .badInput ∧
    hiclibSpec [⟨0, 0, 2⟩, ⟨0, 2, 4⟩, ⟨1, 0, 3⟩] 2 [⟨0, 2, 0, 2⟩, ⟨0, 3, 0, 3⟩, ⟨0, 99, -1, 0⟩]
      = .ok [⟨(1, 1), 2, 0⟩] := by decide

/-- the `if lo == hi: hi = chrom_hi` branch is taken only by a cut outside its chromosome (here `6 ≥ 4`:
the bin found belongs to the next chromosome and ends at 2, before the cut), and such a file is rejected;
inside the hypotheses of `hiclib_chunks_cover` the branch is dead (`parts_sep`: the tentative last record is
below its own bin end) -/
example : hiclibStream [⟨0, 0, 2⟩, ⟨0, 2, 4⟩, ⟨1, 0, 2⟩, ⟨1, 2, 4⟩] 2 1 [⟨0, 1, 0, 1⟩, ⟨0, 5, 1, 3⟩, ⟨0, 6, 1, 3⟩]
    = .error .badInput := by decide

/-! ## row labels of the bin-table frame -/

theorem zip_range_filter (l : List Bin) (k : Nat) (id : Int) :
    (((List.range' k l.length).map Int.ofNat).zip l).filter (fun lb => decide (lb.1 = id)) =
      if (k : Int) ≤ id then (match l[(id - (k : Int)).toNat]? with | some b => [(id, b)] | none => []) else [] := by
  induction l generalizing k with
  | nil => simp
  | cons x rest ih =>
    rw [List.length_cons, List.range'_succ, List.map_cons, List.zip_cons_cons]
    by_cases hk : (k : Int) = id
    · rw [List.filter_cons_of_pos (by simpa using hk), ih (k + 1)]
      have h1 : ¬ (((k + 1 : Nat) : Int) ≤ id) := by omega
      have h2 : (id - (k : Int)).toNat = 0 := by omega
      rw [if_neg h1, if_pos (by omega), h2]
      simp [hk]
    · rw [List.filter_cons_of_neg (by simpa using hk), ih (k + 1)]
      by_cases hle : (k : Int) ≤ id
      · have h1 : ((k + 1 : Nat) : Int) ≤ id := by omega
        have h2 : (id - (k : Int)).toNat = (id - ((k + 1 : Nat) : Int)).toNat + 1 := by omega
        rw [if_pos h1, if_pos hle, h2, List.getElem?_cons_succ]
      · have h1 : ¬ (((k + 1 : Nat) : Int) ≤ id) := by omega
        rw [if_neg h1, if_neg hle]

/-- with pandas' default row labels the label lookup of the loader before fix D31 was the positional one
(for a bin id that is not `-1`) -/
theorem binEndLegacyL_range (bins : BinTable) (cid : Nat) (pos : Int) (h : 0 ≤ absBin bins cid pos) :
    binEndLegacyL bins (rangeLabels bins) cid pos = binEnd bins cid pos := by
  unfold binEndLegacyL binEnd rangeLabels
  simp only []
  rw [List.range_eq_range', zip_range_filter bins 0 (absBin bins cid pos)]
  rw [if_pos (by omega), if_neg (by omega)]
  simp only [Int.natCast_zero, Int.sub_zero]
  have hlt := absBin_lt bins cid pos
  have : (absBin bins cid pos).toNat < bins.length := by omega
  rw [List.getElem?_eq_getElem this]

/-- a loader that is handed the row labels of the bin-table frame -/
abbrev LoaderL := BinTable → List Int → Nat → Nat → List HRec → Except Err (List (List Cell))

/-- the full wording for the Python API: the outcome does not depend on how the rows of the bin-table
frame are LABELLED (any `labels` of the right length: same table, same file) -/
def hiclib_rowlabels_Statement (stream : LoaderL) : Prop :=
  ∀ (bins : BinTable) (labels : List Int) (n cs : Nat) (recs : List HRec), labels.length = bins.length →
    ValidInput bins n recs → (∀ r ∈ recs, (anchorH r).lower = false) → 1 ≤ cs →
    stream bins labels n cs recs = stream bins (rangeLabels bins) n cs recs

/-- the repaired loader never looks at the labels (fix D31: `bins["end"].values[bin_id]`) -/
theorem hiclib_rowlabels_irrelevant : hiclib_rowlabels_Statement (fun bins _ => hiclibStream bins) :=
  fun _ _ _ _ _ _ _ _ _ => rfl

/-- **before fix D31 `bins["end"][bin_id]` was a lookup by row label**: the variable-width table
`c0:[0,1),[1,4),[4,6) c1:[0,2),[2,3),[3,7)` handed over with its rows labelled `5,4,…,0` made the loop cut
after the second read pair of bin 1, so pixel `(1,1)` was emitted by two chunks (twice in the created
cooler) — with the default labels it was emitted once, with count 3 -/
theorem hiclibLegacy_rowlabels_matter : ¬ hiclib_rowlabels_Statement hiclibStreamLegacyL := by
  intro h
  have := h [⟨0, 0, 1⟩, ⟨0, 1, 4⟩, ⟨0, 4, 6⟩, ⟨1, 0, 2⟩, ⟨1, 2, 3⟩, ⟨1, 3, 7⟩] [5, 4, 3, 2, 1, 0] 2 1
    [⟨0, 1, 0, 1⟩, ⟨0, 2, 0, 2⟩, ⟨0, 3, 0, 3⟩, ⟨0, 3, 1, 0⟩, ⟨0, 4, 0, 5⟩] rfl
    ⟨⟨by decide, by
      intro g hg
      have : g ∈ [[(⟨0, 0, 1⟩ : Bin), ⟨0, 1, 4⟩, ⟨0, 4, 6⟩], [⟨1, 0, 2⟩, ⟨1, 2, 3⟩, ⟨1, 3, 7⟩]] := by
        simpa [groups, chromOrder, groupOf] using hg
      simp at this
      rcases this with h | h <;> subst h <;> decide⟩, by decide, by decide⟩ (by decide) (by decide)
  revert this
  decide

example : hiclibStreamLegacyL [⟨0, 0, 1⟩, ⟨0, 1, 4⟩, ⟨0, 4, 6⟩, ⟨1, 0, 2⟩, ⟨1, 2, 3⟩, ⟨1, 3, 7⟩] [5, 4, 3, 2, 1, 0] 2 1
      [⟨0, 1, 0, 1⟩, ⟨0, 2, 0, 2⟩, ⟨0, 3, 0, 3⟩, ⟨0, 3, 1, 0⟩, ⟨0, 4, 0, 5⟩]
    = .ok [[⟨(1, 1), 2, 0⟩], [⟨(1, 1), 1, 0⟩, ⟨(1, 3), 1, 0⟩, ⟨(2, 2), 1, 0⟩]] ∧
    hiclibStream [⟨0, 0, 1⟩, ⟨0, 1, 4⟩, ⟨0, 4, 6⟩, ⟨1, 0, 2⟩, ⟨1, 2, 3⟩, ⟨1, 3, 7⟩] 2 1
      [⟨0, 1, 0, 1⟩, ⟨0, 2, 0, 2⟩, ⟨0, 3, 0, 3⟩, ⟨0, 3, 1, 0⟩, ⟨0, 4, 0, 5⟩]
    = .ok [[⟨(1, 1), 3, 0⟩, ⟨(1, 3), 1, 0⟩], [⟨(2, 2), 1, 0⟩]] := by decide

end Cooler.C05
