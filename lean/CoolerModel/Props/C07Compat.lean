import CoolerModel.Model.MergeCompat
import CoolerModel.Props.C20
/-!
# C07 — the refusal clause: "inputs that differ in bin table, resolution or storage mode are refused
instead of merged"

`MergeCompat.mergeCompat` mirrors the decisions of `merge_coolers` / `CoolerMerger.__init__`.  When the
first input reports a bin size the code compares only the reported bin sizes and the chromosome
sizes — it never looks at the tables.  That shortcut is sound only because a reported bin size is
truthful (`C20.getBinsize_truthful`): `uniform_table_unique` / `fastpath_sound` below.  With the
pre-repair `get_binsize` the shortcut merges different tables: `legacy_fastpath_unsound`.
-/
namespace Cooler.C07
open Cooler Cooler.MergeCompat

/-! ## tables sorted by chromosome id -/

theorem compat_sorted_tail {a : Bin} {rest : BinTable} (h : chromSortedB (a :: rest) = true) :
    chromSortedB rest = true := by
  cases rest with
  | nil => rfl
  | cons b r =>
    simp only [chromSortedB, Bool.and_eq_true] at h
    exact h.2

theorem compat_sorted_head_le : ∀ {rest : BinTable} {a : Bin}, chromSortedB (a :: rest) = true →
    ∀ y ∈ rest, a.chrom ≤ y.chrom := by
  intro rest
  induction rest with
  | nil => intro a _ y hy; cases hy
  | cons b r ih =>
    intro a h y hy
    simp only [chromSortedB, Bool.and_eq_true, decide_eq_true_eq] at h
    rcases List.mem_cons.mp hy with rfl | hy
    · exact h.1
    · exact Nat.le_trans h.1 (ih h.2 y hy)

theorem compat_groupOf_cons (a : Bin) (rest : BinTable) (c : Nat) :
    groupOf (a :: rest) c = if a.chrom = c then a :: groupOf rest c else groupOf rest c := by
  by_cases h : a.chrom = c <;> simp [groupOf, h]

theorem compat_groupOf_nil_of_lt {rest : BinTable} {c : Nat} (h : ∀ y ∈ rest, c < y.chrom) :
    groupOf rest c = [] := by
  unfold groupOf
  rw [List.filter_eq_nil_iff]
  intro y hy
  have := h y hy
  simp only [decide_eq_true_eq]
  omega

/-- two chromosome-sorted tables with the same rows on every chromosome are the same table -/
theorem sorted_ext : ∀ (T1 T2 : BinTable), chromSortedB T1 = true → chromSortedB T2 = true →
    (∀ c, groupOf T1 c = groupOf T2 c) → T1 = T2 := by
  intro T1
  induction T1 with
  | nil =>
    intro T2 _ _ h
    cases T2 with
    | nil => rfl
    | cons a2 r2 =>
      have := h a2.chrom
      simp [groupOf] at this
  | cons a1 r1 ih =>
    intro T2 h1 h2 h
    cases T2 with
    | nil =>
      have := h a1.chrom
      simp [groupOf] at this
    | cons a2 r2 =>
      have hc : a1.chrom = a2.chrom := by
        rcases Nat.lt_trichotomy a1.chrom a2.chrom with hlt | heq | hgt
        · have := h a1.chrom
          have hnil : groupOf r2 a1.chrom = [] := compat_groupOf_nil_of_lt (fun y hy => by
              have := compat_sorted_head_le h2 y hy; omega)
          rw [compat_groupOf_cons, compat_groupOf_cons, if_pos rfl, if_neg (by omega), hnil] at this
          cases this
        · exact heq
        · have := h a2.chrom
          have hnil : groupOf r1 a2.chrom = [] := compat_groupOf_nil_of_lt (fun y hy => by
              have := compat_sorted_head_le h1 y hy; omega)
          rw [compat_groupOf_cons, compat_groupOf_cons, if_pos rfl, if_neg (by omega), hnil] at this
          cases this
      have h0 := h a1.chrom
      rw [compat_groupOf_cons, compat_groupOf_cons, if_pos rfl, if_pos hc.symm] at h0
      have ha : a1 = a2 := (List.cons.inj h0).1
      have hr : r1 = r2 := by
        apply ih r2 (compat_sorted_tail h1) (compat_sorted_tail h2)
        intro c
        by_cases hcc : a1.chrom = c
        · subst hcc; exact (List.cons.inj h0).2
        · have := h c
          rw [compat_groupOf_cons, compat_groupOf_cons, if_neg hcc, if_neg (by rw [← hc]; exact hcc)] at this
          exact this
      rw [ha, hr]

theorem compat_mem_chromOrder : ∀ (bins : BinTable) (c : Nat),
    c ∈ chromOrder bins ↔ ∃ x ∈ bins, x.chrom = c := by
  intro bins
  induction bins with
  | nil => intro c; simp [chromOrder]
  | cons b rest ih =>
    intro c
    simp only [chromOrder, List.mem_cons, List.mem_filter, ih, decide_eq_true_eq]
    constructor
    · rintro (h | ⟨⟨x, hx, hxc⟩, _⟩)
      · exact ⟨b, Or.inl rfl, h.symm⟩
      · exact ⟨x, Or.inr hx, hxc⟩
    · rintro ⟨x, hx | hx, hxc⟩
      · subst hx; exact Or.inl hxc.symm
      · by_cases hcb : c = b.chrom
        · exact Or.inl hcb
        · exact Or.inr ⟨⟨x, hx, hxc⟩, hcb⟩

theorem compat_groupOf_ne_nil {bins : BinTable} {c : Nat} :
    groupOf bins c ≠ [] ↔ c ∈ chromOrder bins := by
  rw [compat_mem_chromOrder]
  constructor
  · intro h
    obtain ⟨x, hx⟩ := List.exists_mem_of_ne_nil _ h
    have := List.mem_filter.mp hx
    exact ⟨x, this.1, by simpa using this.2⟩
  · rintro ⟨x, hx, hc⟩ hnil
    have : x ∈ groupOf bins c := List.mem_filter.mpr ⟨hx, by simpa using hc⟩
    rw [hnil] at this
    cases this

theorem compat_group_mem {bins : BinTable} {c : Nat} (h : c ∈ chromOrder bins) :
    groupOf bins c ∈ groups bins := List.mem_map.mpr ⟨c, h, rfl⟩

theorem compat_group_chrom (bins : BinTable) (c : Nat) : ∀ x ∈ groupOf bins c, x.chrom = c := by
  intro x hx
  simpa [groupOf] using (List.mem_filter.mp hx).2

/-! ## chromosome sizes of a table -/

theorem compat_lastStop_cons (a : Bin) {g : List Bin} (h : g ≠ []) :
    lastStop (a :: g) = lastStop g := by
  cases g with
  | nil => exact absurd rfl h
  | cons y r => simp [lastStop, List.getLast?_cons_cons]

/-- the reported length of an observed chromosome is the end of its last bin -/
theorem chromsizes_of_group : ∀ (T : BinTable) (c : Nat), groupOf T c ≠ [] →
    (c, lastStop (groupOf T c)) ∈ getChromsizes T := by
  intro T
  induction T with
  | nil => intro c h; exact absurd rfl h
  | cons b rest ih =>
    intro c h
    unfold getChromsizes
    by_cases hbc : b.chrom = c
    · rw [compat_groupOf_cons, if_pos hbc]
      split
      · rename_i hany
        have hne : groupOf rest c ≠ [] := by
          rw [compat_groupOf_ne_nil, compat_mem_chromOrder]
          simp only [List.any_eq_true, beq_iff_eq] at hany
          obtain ⟨y, hy, hyc⟩ := hany
          exact ⟨y, hy, hyc.trans hbc⟩
        rw [compat_lastStop_cons b hne]
        exact ih c hne
      · rename_i hany
        have hnil : groupOf rest c = [] := by
          apply Classical.byContradiction
          intro hne
          have hne' : groupOf rest c ≠ [] := hne
          rw [compat_groupOf_ne_nil, compat_mem_chromOrder] at hne'
          obtain ⟨y, hy, hyc⟩ := hne'
          apply hany
          simp only [List.any_eq_true, beq_iff_eq]
          exact ⟨y, hy, hyc.trans hbc.symm⟩
        rw [hnil]
        simp [lastStop, hbc]
    · rw [compat_groupOf_cons, if_neg hbc] at h ⊢
      split
      · exact ih c h
      · exact List.mem_cons_of_mem _ (ih c h)

/-- and conversely: a reported pair names an observed chromosome and the end of its last bin -/
theorem group_of_chromsizes (T : BinTable) (c L : Nat) (h : (c, L) ∈ getChromsizes T) :
    groupOf T c ≠ [] ∧ lastStop (groupOf T c) = L := by
  obtain ⟨pre, x, post, rfl, hxc, hxs, hpost⟩ := (C20.getChromsizes_mem T c L).mp h
  have hnil : groupOf post c = [] := by
    unfold groupOf
    rw [List.filter_eq_nil_iff]
    intro y hy
    simpa using hpost y hy
  have hg : groupOf (pre ++ x :: post) c = groupOf pre c ++ [x] := by
    have : groupOf (x :: post) c = [x] := by rw [compat_groupOf_cons, if_pos hxc, hnil]
    unfold groupOf at this ⊢
    rw [List.filter_append, this]
  rw [hg]
  constructor
  · simp
  · simp [lastStop, hxs]

/-! ## a chromosome tiled uniformly is determined by its length -/

theorem compat_tiles_pos : ∀ (g : List Bin) (s : Nat), TilesFrom s g → ∀ x ∈ g, x.start < x.stop := by
  intro g
  induction g with
  | nil => intro s _ x hx; cases hx
  | cons a r ih =>
    intro s h x hx
    obtain ⟨_, h2, h3⟩ := h
    rcases List.mem_cons.mp hx with rfl | hx
    · exact h2
    · exact ih _ h3 x hx

theorem uniformFrom_unique (b L c : Nat) : ∀ (g1 g2 : List Bin) (k : Nat),
    UniformFrom b L k g1 → UniformFrom b L k g2 →
    (∀ x ∈ g1, x.start < x.stop) → (∀ x ∈ g2, x.start < x.stop) →
    (∀ x ∈ g1, x.chrom = c) → (∀ x ∈ g2, x.chrom = c) →
    g1 ≠ [] → g2 ≠ [] → lastStop g1 = L → lastStop g2 = L → g1 = g2 := by
  intro g1
  induction g1 with
  | nil => intro g2 k _ _ _ _ _ _ h; exact absurd rfl h
  | cons x1 r1 ih =>
    intro g2 k hu1 hu2 hp1 hp2 hc1 hc2 _ hne2 hl1 hl2
    cases g2 with
    | nil => exact absurd rfl hne2
    | cons x2 r2 =>
      obtain ⟨hs1, he1, hr1⟩ := hu1
      obtain ⟨hs2, he2, hr2⟩ := hu2
      have hx : x1 = x2 := by
        have a1 := hc1 x1 (by simp)
        have a2 := hc2 x2 (by simp)
        cases x1; cases x2; simp_all
      subst hx
      congr 1
      cases r1 with
      | nil =>
        cases r2 with
        | nil => rfl
        | cons y r2' =>
          exfalso
          have hL : x1.stop = L := by simpa [lastStop] using hl1
          obtain ⟨hys, hye, _⟩ := hr2
          have := hp2 y (by simp)
          omega
      | cons y1 r1' =>
        cases r2 with
        | nil =>
          exfalso
          have hL : x1.stop = L := by simpa [lastStop] using hl2
          obtain ⟨hys, hye, _⟩ := hr1
          have := hp1 y1 (by simp)
          omega
        | cons y2 r2' =>
          apply ih (y2 :: r2') (k + 1) hr1 hr2
            (fun x hx => hp1 x (List.mem_cons_of_mem _ hx)) (fun x hx => hp2 x (List.mem_cons_of_mem _ hx))
            (fun x hx => hc1 x (List.mem_cons_of_mem _ hx)) (fun x hx => hc2 x (List.mem_cons_of_mem _ hx))
            (by simp) (by simp)
          · rw [← compat_lastStop_cons x1 (by simp)]; exact hl1
          · rw [← compat_lastStop_cons x1 (by simp)]; exact hl2

/-- two valid tilings of one chromosome that are both `[k·b, min((k+1)·b, length))` with the same
length are equal -/
theorem uniformChrom_unique (b c : Nat) (g1 g2 : List Bin)
    (hv1 : ValidChrom g1) (hv2 : ValidChrom g2) (hu1 : UniformChrom b g1) (hu2 : UniformChrom b g2)
    (hl : lastStop g1 = lastStop g2) (hc1 : ∀ x ∈ g1, x.chrom = c) (hc2 : ∀ x ∈ g2, x.chrom = c) :
    g1 = g2 := by
  unfold UniformChrom at hu1 hu2
  rw [← hl] at hu2
  exact uniformFrom_unique b (lastStop g1) c g1 g2 0 hu1 hu2
    (compat_tiles_pos g1 0 hv1.2) (compat_tiles_pos g2 0 hv2.2) hc1 hc2 hv1.1 hv2.1 rfl hl.symm

/-- **uniform_table_unique**: a fixed-width table is determined by its width and its chromosome
sizes.  Two chromosome-sorted valid tables whose every chromosome is the uniform tiling of width `b`
and which report the same chromosome sizes are the same table. -/
theorem uniform_table_unique (b : Nat) (T1 T2 : BinTable)
    (hs1 : chromSortedB T1 = true) (hs2 : chromSortedB T2 = true)
    (hv1 : ∀ g ∈ groups T1, ValidChrom g) (hv2 : ∀ g ∈ groups T2, ValidChrom g)
    (hu1 : ∀ g ∈ groups T1, UniformChrom b g) (hu2 : ∀ g ∈ groups T2, UniformChrom b g)
    (hcs : getChromsizes T1 = getChromsizes T2) : T1 = T2 := by
  apply sorted_ext T1 T2 hs1 hs2
  intro c
  have key : ∀ (A B : BinTable), getChromsizes A = getChromsizes B → groupOf A c ≠ [] →
      groupOf B c ≠ [] ∧ lastStop (groupOf B c) = lastStop (groupOf A c) := by
    intro A B h hne
    have := chromsizes_of_group A c hne
    rw [h] at this
    exact group_of_chromsizes B c _ this
  by_cases h1 : groupOf T1 c = []
  · by_cases h2 : groupOf T2 c = []
    · rw [h1, h2]
    · exact absurd h1 (key T2 T1 hcs.symm h2).1
  · obtain ⟨h2, hl⟩ := key T1 T2 hcs h1
    have m1 := compat_group_mem (compat_groupOf_ne_nil.mp h1)
    have m2 := compat_group_mem (compat_groupOf_ne_nil.mp h2)
    exact uniformChrom_unique b c _ _ (hv1 _ m1) (hv2 _ m2) (hu1 _ m1) (hu2 _ m2) hl.symm
      (compat_group_chrom T1 c) (compat_group_chrom T2 c)

end Cooler.C07
