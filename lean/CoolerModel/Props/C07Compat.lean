import CoolerModel.Model.MergeCompat
import CoolerModel.Props.C20
/-!
# C07 — the refusal clause: "inputs that differ in bin table, resolution or storage mode are refused
instead of merged"

`MergeCompat.mergeCompat` mirrors the decisions of `merge_coolers` / `CoolerMerger.__init__`.  When the
first input reports a bin size the code compares only the reported bin sizes and the chromosome
sizes — it never looks at the tables.  That shortcut is sound only because a reported bin size is
truthful (`C20.getBinsize_truthful`): `uniform_table_unique` / `fastpath_sound` below.  With the
pre-repair `get_binsize` the shortcut merges different tables: `legacy_fastpath_unsound`.
-/
namespace Cooler.C07
open Cooler Cooler.MergeCompat

/-! ## tables sorted by chromosome id -/

theorem compat_sorted_tail {a : Bin} {rest : BinTable} (h : chromSortedB (a :: rest) = true) :
    chromSortedB rest = true := by
  cases rest with
  | nil => rfl
  | cons b r =>
    simp only [chromSortedB, Bool.and_eq_true] at h
    exact h.2

theorem compat_sorted_head_le : ∀ {rest : BinTable} {a : Bin}, chromSortedB (a :: rest) = true →
    ∀ y ∈ rest, a.chrom ≤ y.chrom := by
  intro rest
  induction rest with
  | nil => intro a _ y hy; cases hy
  | cons b r ih =>
    intro a h y hy
    simp only [chromSortedB, Bool.and_eq_true, decide_eq_true_eq] at h
    rcases List.mem_cons.mp hy with rfl | hy
    · exact h.1
    · exact Nat.le_trans h.1 (ih h.2 y hy)

theorem compat_groupOf_cons (a : Bin) (rest : BinTable) (c : Nat) :
    groupOf (a :: rest) c = if a.chrom = c then a :: groupOf rest c else groupOf rest c := by
  by_cases h : a.chrom = c <;> simp [groupOf, h]

theorem compat_groupOf_nil_of_lt {rest : BinTable} {c : Nat} (h : ∀ y ∈ rest, c < y.chrom) :
    groupOf rest c = [] := by
  unfold groupOf
  rw [List.filter_eq_nil_iff]
  intro y hy
  have := h y hy
  simp only [decide_eq_true_eq]
  omega

/-- two chromosome-sorted tables with the same rows on every chromosome are the same table -/
theorem sorted_ext : ∀ (T1 T2 : BinTable), chromSortedB T1 = true → chromSortedB T2 = true →
    (∀ c, groupOf T1 c = groupOf T2 c) → T1 = T2 := by
  intro T1
  induction T1 with
  | nil =>
    intro T2 _ _ h
    cases T2 with
    | nil => rfl
    | cons a2 r2 =>
      have := h a2.chrom
      simp [groupOf] at this
  | cons a1 r1 ih =>
    intro T2 h1 h2 h
    cases T2 with
    | nil =>
      have := h a1.chrom
      simp [groupOf] at this
    | cons a2 r2 =>
      have hc : a1.chrom = a2.chrom := by
        rcases Nat.lt_trichotomy a1.chrom a2.chrom with hlt | heq | hgt
        · have := h a1.chrom
          have hnil : groupOf r2 a1.chrom = [] := compat_groupOf_nil_of_lt (fun y hy => by
              have := compat_sorted_head_le h2 y hy; omega)
          rw [compat_groupOf_cons, compat_groupOf_cons, if_pos rfl, if_neg (by omega), hnil] at this
          cases this
        · exact heq
        · have := h a2.chrom
          have hnil : groupOf r1 a2.chrom = [] := compat_groupOf_nil_of_lt (fun y hy => by
              have := compat_sorted_head_le h1 y hy; omega)
          rw [compat_groupOf_cons, compat_groupOf_cons, if_pos rfl, if_neg (by omega), hnil] at this
          cases this
      have h0 := h a1.chrom
      rw [compat_groupOf_cons, compat_groupOf_cons, if_pos rfl, if_pos hc.symm] at h0
      have ha : a1 = a2 := (List.cons.inj h0).1
      have hr : r1 = r2 := by
        apply ih r2 (compat_sorted_tail h1) (compat_sorted_tail h2)
        intro c
        by_cases hcc : a1.chrom = c
        · subst hcc; exact (List.cons.inj h0).2
        · have := h c
          rw [compat_groupOf_cons, compat_groupOf_cons, if_neg hcc, if_neg (by rw [← hc]; exact hcc)] at this
          exact this
      rw [ha, hr]

theorem compat_mem_chromOrder : ∀ (bins : BinTable) (c : Nat),
    c ∈ chromOrder bins ↔ ∃ x ∈ bins, x.chrom = c := by
  intro bins
  induction bins with
  | nil => intro c; simp [chromOrder]
  | cons b rest ih =>
    intro c
    simp only [chromOrder, List.mem_cons, List.mem_filter, ih, decide_eq_true_eq]
    constructor
    · rintro (h | ⟨⟨x, hx, hxc⟩, _⟩)
      · exact ⟨b, Or.inl rfl, h.symm⟩
      · exact ⟨x, Or.inr hx, hxc⟩
    · rintro ⟨x, hx | hx, hxc⟩
      · subst hx; exact Or.inl hxc.symm
      · by_cases hcb : c = b.chrom
        · exact Or.inl hcb
        · exact Or.inr ⟨⟨x, hx, hxc⟩, hcb⟩

theorem compat_groupOf_ne_nil {bins : BinTable} {c : Nat} :
    groupOf bins c ≠ [] ↔ c ∈ chromOrder bins := by
  rw [compat_mem_chromOrder]
  constructor
  · intro h
    obtain ⟨x, hx⟩ := List.exists_mem_of_ne_nil _ h
    have := List.mem_filter.mp hx
    exact ⟨x, this.1, by simpa using this.2⟩
  · rintro ⟨x, hx, hc⟩ hnil
    have : x ∈ groupOf bins c := List.mem_filter.mpr ⟨hx, by simpa using hc⟩
    rw [hnil] at this
    cases this

theorem compat_group_mem {bins : BinTable} {c : Nat} (h : c ∈ chromOrder bins) :
    groupOf bins c ∈ groups bins := List.mem_map.mpr ⟨c, h, rfl⟩

theorem compat_group_chrom (bins : BinTable) (c : Nat) : ∀ x ∈ groupOf bins c, x.chrom = c := by
  intro x hx
  simpa [groupOf] using (List.mem_filter.mp hx).2

/-! ## chromosome sizes of a table -/

theorem compat_lastStop_cons (a : Bin) {g : List Bin} (h : g ≠ []) :
    lastStop (a :: g) = lastStop g := by
  cases g with
  | nil => exact absurd rfl h
  | cons y r => simp [lastStop, List.getLast?_cons_cons]

/-- the reported length of an observed chromosome is the end of its last bin -/
theorem chromsizes_of_group : ∀ (T : BinTable) (c : Nat), groupOf T c ≠ [] →
    (c, lastStop (groupOf T c)) ∈ getChromsizes T := by
  intro T
  induction T with
  | nil => intro c h; exact absurd rfl h
  | cons b rest ih =>
    intro c h
    unfold getChromsizes
    by_cases hbc : b.chrom = c
    · rw [compat_groupOf_cons, if_pos hbc]
      split
      · rename_i hany
        have hne : groupOf rest c ≠ [] := by
          rw [compat_groupOf_ne_nil, compat_mem_chromOrder]
          simp only [List.any_eq_true, beq_iff_eq] at hany
          obtain ⟨y, hy, hyc⟩ := hany
          exact ⟨y, hy, hyc.trans hbc⟩
        rw [compat_lastStop_cons b hne]
        exact ih c hne
      · rename_i hany
        have hnil : groupOf rest c = [] := by
          apply Classical.byContradiction
          intro hne
          have hne' : groupOf rest c ≠ [] := hne
          rw [compat_groupOf_ne_nil, compat_mem_chromOrder] at hne'
          obtain ⟨y, hy, hyc⟩ := hne'
          apply hany
          simp only [List.any_eq_true, beq_iff_eq]
          exact ⟨y, hy, hyc.trans hbc.symm⟩
        rw [hnil]
        simp [lastStop, hbc]
    · rw [compat_groupOf_cons, if_neg hbc] at h ⊢
      split
      · exact ih c h
      · exact List.mem_cons_of_mem _ (ih c h)

/-- and conversely: a reported pair names an observed chromosome and the end of its last bin -/
theorem group_of_chromsizes (T : BinTable) (c L : Nat) (h : (c, L) ∈ getChromsizes T) :
    groupOf T c ≠ [] ∧ lastStop (groupOf T c) = L := by
  obtain ⟨pre, x, post, rfl, hxc, hxs, hpost⟩ := (C20.getChromsizes_mem T c L).mp h
  have hnil : groupOf post c = [] := by
    unfold groupOf
    rw [List.filter_eq_nil_iff]
    intro y hy
    simpa using hpost y hy
  have hg : groupOf (pre ++ x :: post) c = groupOf pre c ++ [x] := by
    have : groupOf (x :: post) c = [x] := by rw [compat_groupOf_cons, if_pos hxc, hnil]
    unfold groupOf at this ⊢
    rw [List.filter_append, this]
  rw [hg]
  constructor
  · simp
  · simp [lastStop, hxs]

/-! ## a chromosome tiled uniformly is determined by its length -/

theorem compat_tiles_pos : ∀ (g : List Bin) (s : Nat), TilesFrom s g → ∀ x ∈ g, x.start < x.stop := by
  intro g
  induction g with
  | nil => intro s _ x hx; cases hx
  | cons a r ih =>
    intro s h x hx
    obtain ⟨_, h2, h3⟩ := h
    rcases List.mem_cons.mp hx with rfl | hx
    · exact h2
    · exact ih _ h3 x hx

theorem uniformFrom_unique (b L c : Nat) : ∀ (g1 g2 : List Bin) (k : Nat),
    UniformFrom b L k g1 → UniformFrom b L k g2 →
    (∀ x ∈ g1, x.start < x.stop) → (∀ x ∈ g2, x.start < x.stop) →
    (∀ x ∈ g1, x.chrom = c) → (∀ x ∈ g2, x.chrom = c) →
    g1 ≠ [] → g2 ≠ [] → lastStop g1 = L → lastStop g2 = L → g1 = g2 := by
  intro g1
  induction g1 with
  | nil => intro g2 k _ _ _ _ _ _ h; exact absurd rfl h
  | cons x1 r1 ih =>
    intro g2 k hu1 hu2 hp1 hp2 hc1 hc2 _ hne2 hl1 hl2
    cases g2 with
    | nil => exact absurd rfl hne2
    | cons x2 r2 =>
      obtain ⟨hs1, he1, hr1⟩ := hu1
      obtain ⟨hs2, he2, hr2⟩ := hu2
      have hx : x1 = x2 := by
        have a1 := hc1 x1 (by simp)
        have a2 := hc2 x2 (by simp)
        cases x1; cases x2; simp_all
      subst hx
      congr 1
      cases r1 with
      | nil =>
        cases r2 with
        | nil => rfl
        | cons y r2' =>
          exfalso
          have hL : x1.stop = L := by simpa [lastStop] using hl1
          obtain ⟨hys, hye, _⟩ := hr2
          have := hp2 y (by simp)
          omega
      | cons y1 r1' =>
        cases r2 with
        | nil =>
          exfalso
          have hL : x1.stop = L := by simpa [lastStop] using hl2
          obtain ⟨hys, hye, _⟩ := hr1
          have := hp1 y1 (by simp)
          omega
        | cons y2 r2' =>
          apply ih (y2 :: r2') (k + 1) hr1 hr2
            (fun x hx => hp1 x (List.mem_cons_of_mem _ hx)) (fun x hx => hp2 x (List.mem_cons_of_mem _ hx))
            (fun x hx => hc1 x (List.mem_cons_of_mem _ hx)) (fun x hx => hc2 x (List.mem_cons_of_mem _ hx))
            (by simp) (by simp)
          · rw [← compat_lastStop_cons x1 (by simp)]; exact hl1
          · rw [← compat_lastStop_cons x1 (by simp)]; exact hl2

/-- two valid tilings of one chromosome that are both `[k·b, min((k+1)·b, length))` with the same
length are equal -/
theorem uniformChrom_unique (b c : Nat) (g1 g2 : List Bin)
    (hv1 : ValidChrom g1) (hv2 : ValidChrom g2) (hu1 : UniformChrom b g1) (hu2 : UniformChrom b g2)
    (hl : lastStop g1 = lastStop g2) (hc1 : ∀ x ∈ g1, x.chrom = c) (hc2 : ∀ x ∈ g2, x.chrom = c) :
    g1 = g2 := by
  unfold UniformChrom at hu1 hu2
  rw [← hl] at hu2
  exact uniformFrom_unique b (lastStop g1) c g1 g2 0 hu1 hu2
    (compat_tiles_pos g1 0 hv1.2) (compat_tiles_pos g2 0 hv2.2) hc1 hc2 hv1.1 hv2.1 rfl hl.symm

/-- **uniform_table_unique**: a fixed-width table is determined by its width and its chromosome
sizes.  Two chromosome-sorted valid tables whose every chromosome is the uniform tiling of width `b`
and which report the same chromosome sizes are the same table. -/
theorem uniform_table_unique (b : Nat) (T1 T2 : BinTable)
    (hs1 : chromSortedB T1 = true) (hs2 : chromSortedB T2 = true)
    (hv1 : ∀ g ∈ groups T1, ValidChrom g) (hv2 : ∀ g ∈ groups T2, ValidChrom g)
    (hu1 : ∀ g ∈ groups T1, UniformChrom b g) (hu2 : ∀ g ∈ groups T2, UniformChrom b g)
    (hcs : getChromsizes T1 = getChromsizes T2) : T1 = T2 := by
  apply sorted_ext T1 T2 hs1 hs2
  intro c
  have key : ∀ (A B : BinTable), getChromsizes A = getChromsizes B → groupOf A c ≠ [] →
      groupOf B c ≠ [] ∧ lastStop (groupOf B c) = lastStop (groupOf A c) := by
    intro A B h hne
    have := chromsizes_of_group A c hne
    rw [h] at this
    exact group_of_chromsizes B c _ this
  by_cases h1 : groupOf T1 c = []
  · by_cases h2 : groupOf T2 c = []
    · rw [h1, h2]
    · exact absurd h1 (key T2 T1 hcs.symm h2).1
  · obtain ⟨h2, hl⟩ := key T1 T2 hcs h1
    have m1 := compat_group_mem (compat_groupOf_ne_nil.mp h1)
    have m2 := compat_group_mem (compat_groupOf_ne_nil.mp h2)
    exact uniformChrom_unique b c _ _ (hv1 _ m1) (hv2 _ m2) (hu1 _ m1) (hu2 _ m2) hl.symm
      (compat_group_chrom T1 c) (compat_group_chrom T2 c)

/-! ## first appearances; ids of the reported chromosome sizes -/

/-- elements in order of first appearance (`chromOrder` for any key type) -/
def firsts {α : Type} [DecidableEq α] : List α → List α
  | [] => []
  | a :: l => a :: (firsts l).filter (· ≠ a)

theorem mem_firsts {α : Type} [DecidableEq α] : ∀ (l : List α) (x : α), x ∈ firsts l ↔ x ∈ l := by
  intro l
  induction l with
  | nil => intro x; simp [firsts]
  | cons a l ih =>
    intro x
    simp only [firsts, List.mem_cons, List.mem_filter, ih, decide_eq_true_eq]
    constructor
    · rintro (h | ⟨h, _⟩)
      · exact Or.inl h
      · exact Or.inr h
    · rintro (h | h)
      · exact Or.inl h
      · by_cases hx : x = a
        · exact Or.inl hx
        · exact Or.inr ⟨h, hx⟩

theorem chromOrder_eq_firsts : ∀ T : BinTable, chromOrder T = firsts (T.map Bin.chrom) := by
  intro T
  induction T with
  | nil => rfl
  | cons b r ih => simp [chromOrder, firsts, ih]

/-- relabelling by a function that is injective on the list commutes with `firsts` -/
theorem firsts_map {α β : Type} [DecidableEq α] [DecidableEq β] (f : α → β) : ∀ (l : List α),
    (∀ a ∈ l, ∀ b ∈ l, f a = f b → a = b) → firsts (l.map f) = (firsts l).map f := by
  intro l
  induction l with
  | nil => intro _; rfl
  | cons a l ih =>
    intro hinj
    simp only [List.map_cons, firsts]
    rw [ih (fun x hx y hy => hinj x (List.mem_cons_of_mem _ hx) y (List.mem_cons_of_mem _ hy))]
    congr 1
    rw [List.filter_map]
    congr 1
    apply List.filter_congr
    intro x hx
    have hxl : x ∈ l := (mem_firsts l x).mp hx
    simp only [Function.comp, decide_eq_decide]
    constructor
    · intro h hxa; exact h (by rw [hxa])
    · intro h hfx; exact h (hinj x (List.mem_cons_of_mem _ hxl) a (by simp) hfx)

/-- on a chromosome-sorted table `get_chromsizes` lists the chromosomes in the table's order -/
theorem chromsizes_ids_sorted : ∀ T : BinTable, chromSortedB T = true →
    (getChromsizes T).map Prod.fst = chromOrder T := by
  intro T
  induction T with
  | nil => intro _; rfl
  | cons a rest ih =>
    intro hs
    have ih' := ih (compat_sorted_tail hs)
    unfold getChromsizes
    split
    · rename_i hany
      rw [ih']
      cases rest with
      | nil => simp at hany
      | cons b r' =>
        have hab : a.chrom = b.chrom := by
          simp only [List.any_eq_true, beq_iff_eq] at hany
          obtain ⟨y, hy, hyc⟩ := hany
          have h1 : a.chrom ≤ b.chrom := compat_sorted_head_le hs b (by simp)
          have h2 : b.chrom ≤ y.chrom := by
            rcases List.mem_cons.mp hy with rfl | hy'
            · exact Nat.le_refl _
            · exact compat_sorted_head_le (compat_sorted_tail hs) y hy'
          omega
        simp [chromOrder, hab, List.filter_filter]
    · rename_i hany
      simp only [List.map_cons, chromOrder, ih']
      congr 1
      symm
      rw [List.filter_eq_self]
      intro c hc
      rw [compat_mem_chromOrder] at hc
      obtain ⟨y, hy, hyc⟩ := hc
      simp only [decide_eq_true_eq]
      intro hca
      apply hany
      simp only [List.any_eq_true, beq_iff_eq]
      exact ⟨y, hy, hyc.trans hca⟩

theorem range_map_getElem? (names : List Name) :
    (List.range names.length).map (fun c => names[c]?) = names.map some := by
  apply List.ext_getElem
  · simp
  · intro k h1 h2
    simp at h1 h2 ⊢

/-- a (name, length) list over ids `0 … n-1` determines the names and the (id, length) list -/
theorem keyed_map_inj {n1 n2 : List Name} {A B : List (Nat × Nat)}
    (hA : A.map Prod.fst = List.range n1.length) (hB : B.map Prod.fst = List.range n2.length)
    (h : A.map (fun p => (n1[p.1]?, p.2)) = B.map (fun p => (n2[p.1]?, p.2))) : n1 = n2 ∧ A = B := by
  have hlenA : A.length = n1.length := by simpa using congrArg List.length hA
  have hlenB : B.length = n2.length := by simpa using congrArg List.length hB
  have hlen : A.length = B.length := by simpa using congrArg List.length h
  have hpt : ∀ k (hkA : k < A.length) (hkB : k < B.length), n1[k]? = n2[k]? ∧ A[k] = B[k] := by
    intro k hkA hkB
    have e1 : A[k].1 = k := by
      have := List.getElem_of_eq hA (by simpa using hkA : k < (A.map Prod.fst).length)
      simpa using this
    have e2 : B[k].1 = k := by
      have := List.getElem_of_eq hB (by simpa using hkB : k < (B.map Prod.fst).length)
      simpa using this
    have e3 := List.getElem_of_eq h (by simpa using hkA : k < (A.map fun p => (n1[p.1]?, p.2)).length)
    simp only [List.getElem_map, Prod.mk.injEq] at e3
    rw [e1, e2] at e3
    refine ⟨e3.1, ?_⟩
    apply Prod.ext
    · rw [e1, e2]
    · exact e3.2
  constructor
  · apply List.ext_getElem?
    intro k
    by_cases hk : k < A.length
    · exact (hpt k hk (by omega)).1
    · rw [List.getElem?_eq_none (by omega), List.getElem?_eq_none (by omega)]
  · apply List.ext_getElem hlen
    intro k h1 h2
    exact (hpt k h1 h2).2

/-! ## what a well-formed input gives -/

theorem wf_sorted {x : Input} (h : WF x) : chromSortedB x.bins = true := by
  have := h.1
  simp only [validSegmentationB, Bool.and_eq_true] at this
  exact this.1

theorem wf_valid {x : Input} (h : WF x) : ∀ g ∈ groups x.bins, ValidChrom g := by
  have := h.1
  simp only [validSegmentationB, Bool.and_eq_true, List.all_eq_true, decide_eq_true_eq] at this
  exact this.2

theorem wf_ids {x : Input} (h : WF x) : chromOrder x.bins = List.range x.names.length := by
  have := h.2.2.1
  simpa [idsMatchNames] using this

theorem wf_chrom_lt {x : Input} (h : WF x) : ∀ b ∈ x.bins, b.chrom < x.names.length := by
  intro b hb
  have : b.chrom ∈ chromOrder x.bins := (compat_mem_chromOrder _ _).mpr ⟨b, hb, rfl⟩
  rw [wf_ids h] at this
  simpa using this

/-- the names column of the frame, in order of first appearance, is the list of names -/
theorem rows_firsts {x : Input} (h : WF x) : firsts (x.rows.map (fun r => r.1)) = x.names.map some := by
  have hm : x.rows.map (fun r => r.1) = (x.bins.map Bin.chrom).map (fun c => x.names[c]?) := by
    simp [Input.rows, rowsOf, List.map_map, Function.comp_def]
  rw [hm, firsts_map, ← chromOrder_eq_firsts, wf_ids h, range_map_getElem?]
  intro a ha b _ hab
  obtain ⟨ba, hba, rfl⟩ := List.mem_map.mp ha
  exact (List.getElem?_inj (wf_chrom_lt h ba hba) h.2.1).mp hab

/-- table path: equal frames ⇒ equal names and equal tables -/
theorem rows_inj {x y : Input} (hx : WF x) (hy : WF y) (h : x.rows = y.rows) :
    x.names = y.names ∧ x.bins = y.bins := by
  have hn : x.names = y.names := by
    have := rows_firsts hx
    rw [h, rows_firsts hy] at this
    exact (List.map_inj_right (by intro a b hab; exact Option.some.inj hab)).mp this.symm
  refine ⟨hn, ?_⟩
  have hlen : x.bins.length = y.bins.length := by
    have := congrArg List.length h
    simpa [Input.rows, rowsOf] using this
  apply List.ext_getElem hlen
  intro k h1 h2
  have hk : x.rows[k]? = y.rows[k]? := by rw [h]
  simp only [Input.rows, rowsOf, List.getElem?_map, List.getElem?_eq_getElem h1,
    List.getElem?_eq_getElem h2, Option.map_some, Option.some.injEq, Prod.mk.injEq] at hk
  obtain ⟨hc, hs, he⟩ := hk
  have hc' : x.names[x.bins[k].chrom]? = x.names[y.bins[k].chrom]? := by rw [hc, hn]
  have hcc : x.bins[k].chrom = y.bins[k].chrom :=
    (List.getElem?_inj (wf_chrom_lt hx _ (List.getElem_mem h1)) hx.2.1).mp hc'
  revert hcc hs he
  cases x.bins[k]; cases y.bins[k]
  simp only [Bin.mk.injEq]
  intros
  refine ⟨?_, ?_, ?_⟩ <;> assumption

/-- **fastpath_sound**: the fixed-size shortcut is sound.  Two well-formed inputs that report the same
bin size and the same chromosome sizes have the same chromosome names and the same bin table —
although the code never compared the tables.  Rests on `C20.getBinsize_truthful`. -/
theorem fastpath_sound {x y : Input} (hx : WF x) (hy : WF y) {b : Nat}
    (hbx : x.binsize = some b) (hby : y.binsize = some b) (hcs : x.chromsizes = y.chromsizes) :
    x.names = y.names ∧ x.bins = y.bins := by
  have hux : ∀ g ∈ groups x.bins, UniformChrom b g :=
    C20.getBinsize_truthful _ b (wf_valid hx) (by rw [← hbx, hx.2.2.2.1]; rfl)
  have huy : ∀ g ∈ groups y.bins, UniformChrom b g :=
    C20.getBinsize_truthful _ b (wf_valid hy) (by rw [← hby, hy.2.2.2.1]; rfl)
  rw [hx.2.2.2.2, hy.2.2.2.2] at hcs
  have hAx : (getChromsizes x.bins).map Prod.fst = List.range x.names.length := by
    rw [chromsizes_ids_sorted _ (wf_sorted hx), wf_ids hx]
  have hAy : (getChromsizes y.bins).map Prod.fst = List.range y.names.length := by
    rw [chromsizes_ids_sorted _ (wf_sorted hy), wf_ids hy]
  obtain ⟨hn, hc⟩ := keyed_map_inj hAx hAy hcs
  exact ⟨hn, uniform_table_unique b _ _ (wf_sorted hx) (wf_sorted hy) (wf_valid hx) (wf_valid hy) hux huy hc⟩

/-! ## the decision procedure -/

theorem modesAgree_iff (first : Input) (rest : List Input) :
    modesAgree (first :: rest) = true ↔ ∀ x ∈ rest, x.symm = first.symm := by
  unfold modesAgree
  cases hf : first.symm <;> simp [List.all_cons, hf]

/-- the model never answers with anything but acceptance or a ValueError -/
theorem compat_ok_or_value (l : List Input) : mergeCompat l = .ok () ∨ mergeCompat l = .error .value := by
  unfold mergeCompat
  split
  · exact Or.inr rfl
  · split
    · exact Or.inr rfl
    · split
      · split
        · exact Or.inr rfl
        · split
          · exact Or.inr rfl
          · exact Or.inl rfl
      · split
        · exact Or.inr rfl
        · exact Or.inl rfl

/-- what the code's tests amount to -/
theorem compat_ok_iff (first : Input) (rest : List Input) :
    mergeCompat (first :: rest) = .ok () ↔
      (∀ x ∈ rest, x.symm = first.symm) ∧
      ((∃ b, first.binsize = some b ∧ ∀ x ∈ rest, x.binsize = some b ∧ x.chromsizes = first.chromsizes) ∨
       (first.binsize = none ∧ ∀ x ∈ rest, x.rows = first.rows)) := by
  rw [← modesAgree_iff]
  simp only [mergeCompat]
  split
  · rename_i hm
    simp [hm]
  · rename_i hm
    have hm' : modesAgree (first :: rest) = true := by simpa using hm
    simp only [hm', true_and]
    split
    · rename_i b hb
      split
      · rename_i h1
        simp only [reduceCtorEq, false_iff, not_or, not_exists, not_and]
        refine ⟨?_, fun h => by rw [hb] at h; cases h⟩
        intro b' hb' hall
        have : (rest.all fun x => decide (x.binsize = first.binsize)) = true := by
          simp only [List.all_eq_true, decide_eq_true_eq]
          intro x hx
          rw [(hall x hx).1, hb']
        rw [this] at h1
        cases h1
      · rename_i h1
        simp only [Bool.not_eq_false, List.all_eq_true, decide_eq_true_eq] at h1
        split
        · rename_i h2
          simp only [reduceCtorEq, false_iff, not_or, not_exists, not_and]
          refine ⟨?_, fun h => by rw [hb] at h; cases h⟩
          intro b' _ hall
          have : (rest.all fun x => decide (x.chromsizes = first.chromsizes)) = true := by
            simp only [List.all_eq_true, decide_eq_true_eq]
            exact fun x hx => (hall x hx).2
          rw [this] at h2
          cases h2
        · rename_i h2
          simp only [Bool.not_eq_false, List.all_eq_true, decide_eq_true_eq] at h2
          simp only [true_iff]
          exact Or.inl ⟨b, hb, fun x hx => ⟨(h1 x hx).trans hb, h2 x hx⟩⟩
    · rename_i hb
      split
      · rename_i h1
        simp only [reduceCtorEq, false_iff, not_or, not_exists, not_and]
        refine ⟨fun b' hb' => (by rw [hb] at hb'; cases hb'), ?_⟩
        intro _ hall
        have : (rest.all fun x => decide (x.rows.length = first.rows.length) && decide (x.rows = first.rows)) = true := by
          simp only [List.all_eq_true, Bool.and_eq_true, decide_eq_true_eq]
          exact fun x hx => ⟨by rw [hall x hx], hall x hx⟩
        rw [this] at h1
        cases h1
      · rename_i h1
        simp only [Bool.not_eq_false, List.all_eq_true, Bool.and_eq_true, decide_eq_true_eq] at h1
        simp only [true_iff]
        exact Or.inr ⟨hb, fun x hx => (h1 x hx).2⟩

/-! ## the refusal clause -/

/-- **compat_accepts_iff**: on well-formed inputs the code's compatibility test accepts exactly the
lists whose members all have the first one's storage mode, chromosome names (in order) and bin
table.  (L1 `mergeCompat` = L0 `allSame`.) -/
theorem compat_accepts_iff (first : Input) (rest : List Input) (hwf : ∀ x ∈ first :: rest, WF x) :
    mergeCompat (first :: rest) = .ok () ↔ allSame (first :: rest) := by
  have hf : WF first := hwf first (by simp)
  rw [compat_ok_iff]
  unfold allSame
  constructor
  · rintro ⟨hm, hfix | htab⟩ x hx
    · obtain ⟨b, hb, h⟩ := hfix
      have := fastpath_sound (hwf x (List.mem_cons_of_mem _ hx)) hf (h x hx).1 hb (h x hx).2
      exact ⟨hm x hx, this.1, this.2⟩
    · have := rows_inj (hwf x (List.mem_cons_of_mem _ hx)) hf (htab.2 x hx)
      exact ⟨hm x hx, this.1, this.2⟩
  · intro h
    refine ⟨fun x hx => (h x hx).1, ?_⟩
    have heads : ∀ x ∈ rest, x.binsize = first.binsize ∧ x.chromsizes = first.chromsizes ∧ x.rows = first.rows := by
      intro x hx
      obtain ⟨_, hn, hb⟩ := h x hx
      have hwx := hwf x (List.mem_cons_of_mem _ hx)
      refine ⟨?_, ?_, ?_⟩
      · rw [hwx.2.2.2.1, hf.2.2.2.1, hb]
      · rw [hwx.2.2.2.2, hf.2.2.2.2, hb, hn]
      · simp only [Input.rows, hb, hn]
    cases hb : first.binsize with
    | none => exact Or.inr ⟨rfl, fun x hx => (heads x hx).2.2⟩
    | some b => exact Or.inl ⟨b, rfl, fun x hx => ⟨by rw [(heads x hx).1, hb], (heads x hx).2.1⟩⟩

theorem compat_accepts_same (first : Input) (rest : List Input) (hwf : ∀ x ∈ first :: rest, WF x)
    (h : mergeCompat (first :: rest) = .ok ()) : allSame (first :: rest) :=
  (compat_accepts_iff first rest hwf).mp h

theorem compat_same_accepts (first : Input) (rest : List Input) (hwf : ∀ x ∈ first :: rest, WF x)
    (h : allSame (first :: rest)) : mergeCompat (first :: rest) = .ok () :=
  (compat_accepts_iff first rest hwf).mpr h

/-- **merge_refuses** — the clause as the property words it: if some input differs from the first in
storage mode, in bin table (or chromosome names), or in resolution (another reported bin size, or
fixed versus variable), the merge is refused. -/
theorem merge_refuses (first : Input) (rest : List Input) (hwf : ∀ x ∈ first :: rest, WF x)
    (hdiff : ∃ x ∈ rest, x.symm ≠ first.symm ∨ x.bins ≠ first.bins ∨ x.names ≠ first.names ∨
      x.binsize ≠ first.binsize) :
    mergeCompat (first :: rest) = .error .value := by
  rcases compat_ok_or_value (first :: rest) with hok | herr
  · exfalso
    have hs := compat_accepts_same first rest hwf hok
    obtain ⟨x, hx, hd⟩ := hdiff
    obtain ⟨h1, h2, h3⟩ := hs x hx
    rcases hd with hd | hd | hd | hd
    · exact hd h1
    · exact hd h3
    · exact hd h2
    · apply hd
      rw [(hwf x (List.mem_cons_of_mem _ hx)).2.2.2.1, (hwf first (by simp)).2.2.2.1, h3]
  · exact herr

/-- a merge of nothing is refused as well -/
theorem merge_refuses_empty : mergeCompat [] = .error .value := rfl

/-! ## a table with a reported bin size IS the binned genome -/

theorem tiling_uniformFrom (c L b : Nat) : ∀ (m k0 : Nat),
    UniformFrom b L k0 ((List.range' k0 m).map fun k => (⟨c, k * b, min ((k + 1) * b) L⟩ : Bin)) := by
  intro m
  induction m with
  | zero => intro k0; simp [UniformFrom]
  | succ m ih =>
    intro k0
    simp only [List.range'_succ, List.map_cons, UniformFrom, true_and]
    exact ih (k0 + 1)

theorem tiling_tilesFrom (c L b : Nat) (hb : 1 ≤ b) : ∀ (m k0 : Nat), (∀ k, k < k0 + m → k * b < L) →
    TilesFrom (k0 * b) ((List.range' k0 m).map fun k => (⟨c, k * b, min ((k + 1) * b) L⟩ : Bin)) := by
  intro m
  induction m with
  | zero => intro k0 _; simp [TilesFrom]
  | succ m ih =>
    intro k0 h
    simp only [List.range'_succ, List.map_cons, TilesFrom, true_and]
    have h0 := h k0 (by omega)
    have hlt : k0 * b < (k0 + 1) * b := by rw [Nat.add_mul]; omega
    refine ⟨by omega, ?_⟩
    cases m with
    | zero => simp [TilesFrom]
    | succ m' =>
      have h1 := h (k0 + 1) (by omega)
      have : min ((k0 + 1) * b) L = (k0 + 1) * b := by omega
      rw [this]
      exact ih (k0 + 1) (fun k hk => h k (by omega))

theorem tilingSpec_valid (c L b : Nat) (hb : 1 ≤ b) (hL : 1 ≤ L) : ValidChrom (tilingSpec c L b) := by
  refine ⟨C20.tilingSpec_ne_nil c L b hb hL, ?_⟩
  have := tiling_tilesFrom c L b hb (ceilDiv L b) 0 (by
    intro k hk
    have h1 := C20.ceilDiv_pred_lt hb hL
    have h2 : k * b ≤ (ceilDiv L b - 1) * b := Nat.mul_le_mul_right _ (by omega)
    omega)
  simpa [tilingSpec, List.range_eq_range'] using this

theorem tilingSpec_uniform (c L b : Nat) (hb : 1 ≤ b) (hL : 1 ≤ L) : UniformChrom b (tilingSpec c L b) := by
  unfold UniformChrom
  rw [C20.tilingSpec_last_stop c L b hb hL]
  have := tiling_uniformFrom c L b (ceilDiv L b) 0
  simpa [tilingSpec, List.range_eq_range'] using this

/-- **fixed_group_is_tiling**: in a well-formed input that reports bin size `b`, the rows of every
chromosome are exactly `binnify`'s tiling of that chromosome's length with width `b`. -/
theorem fixed_group_is_tiling {x : Input} (hx : WF x) {b : Nat} (hb : x.binsize = some b)
    (c : Nat) (hc : c ∈ chromOrder x.bins) :
    groupOf x.bins c = tilingSpec c (lastStop (groupOf x.bins c)) b := by
  have hm := compat_group_mem hc
  have hv := wf_valid hx _ hm
  have hu : UniformChrom b (groupOf x.bins c) :=
    C20.getBinsize_truthful _ b (wf_valid hx) (by rw [← hb, hx.2.2.2.1]; rfl) _ hm
  -- the first bin is [0, min b len) and non-empty: b ≥ 1 and len ≥ 1
  obtain ⟨hne, ht⟩ := hv
  have hpos : 1 ≤ b ∧ 1 ≤ lastStop (groupOf x.bins c) := by
    cases hg : groupOf x.bins c with
    | nil => exact absurd hg hne
    | cons y r =>
      rw [hg] at hu ht
      obtain ⟨h1, h2, _⟩ := hu
      obtain ⟨_, h4, _⟩ := ht
      constructor
      · rcases Nat.eq_zero_or_pos b with h0 | h0
        · subst h0; simp at h1 h2; omega
        · exact h0
      · omega
  have hl := C20.tilingSpec_last_stop c (lastStop (groupOf x.bins c)) b hpos.1 hpos.2
  exact uniformChrom_unique b c _ _ ⟨hne, ht⟩ (tilingSpec_valid c _ b hpos.1 hpos.2) hu
    (tilingSpec_uniform c _ b hpos.1 hpos.2) hl.symm (compat_group_chrom x.bins c) (C20.tilingSpec_chrom c _ b)

/-! ## the unrepaired `get_binsize` would make the shortcut unsound -/

/-- an input as `create` wrote it BEFORE the repair of `get_binsize` (known finding D1): the stored
bin size comes from the legacy rule, which does not look at the last bin of a chromosome -/
def legacyInput (symm : Bool) (names : List Name) (bins : BinTable) : Input :=
  ⟨symm, names, bins, getBinsizeLegacyG (groups bins), chromsizesOf names bins⟩

def witnessA : BinTable := [⟨0, 0, 10⟩, ⟨0, 10, 25⟩]
def witnessB : BinTable := [⟨0, 0, 10⟩, ⟨0, 10, 20⟩, ⟨0, 20, 25⟩]

/-- **legacy_fastpath_unsound**: `c0: [0,10) [10,25)` and `c0: [0,10) [10,20) [20,25)` are two different
valid tables with the same legacy bin size (10) and the same chromosome sizes; with the legacy heads the
compatibility test ACCEPTS the pair although the inputs are not the same; with the repaired heads it
refuses. -/
theorem legacy_fastpath_unsound :
    validSegmentationB witnessA = true ∧ validSegmentationB witnessB = true ∧ witnessA ≠ witnessB ∧
    getBinsizeLegacyG (groups witnessA) = some 10 ∧ getBinsizeLegacyG (groups witnessB) = some 10 ∧
    getChromsizes witnessA = getChromsizes witnessB ∧
    mergeCompat [legacyInput true [0] witnessA, legacyInput true [0] witnessB] = .ok () ∧
    ¬ allSame [legacyInput true [0] witnessA, legacyInput true [0] witnessB] ∧
    mergeCompat [mkInput true [0] witnessA, mkInput true [0] witnessB] = .error .value ∧
    mergeCompat [mkInput true [0] witnessB, mkInput true [0] witnessA] = .error .value := by
  decide

/-! ## non-vacuity -/

/-- two chromosomes named 7 and 3 (in this order), fixed width 10 -/
def exFixed : Input := mkInput true [7, 3] [⟨0, 0, 10⟩, ⟨0, 10, 20⟩, ⟨0, 20, 25⟩, ⟨1, 0, 10⟩, ⟨1, 10, 12⟩]
/-- the same but for the last bin of the last chromosome -/
def exFixedLast : Input := mkInput true [7, 3] [⟨0, 0, 10⟩, ⟨0, 10, 20⟩, ⟨0, 20, 25⟩, ⟨1, 0, 10⟩, ⟨1, 10, 13⟩]
/-- the same lengths under other names / the same names in the other order -/
def exRenamed : Input := mkInput true [7, 4] exFixed.bins
def exReordered : Input := mkInput true [3, 7] exFixed.bins
def exSquare : Input := mkInput false [7, 3] exFixed.bins
/-- one bin per chromosome: no bin size is reported, the table path decides -/
def exOneBin : Input := mkInput true [7, 3] [⟨0, 0, 12⟩, ⟨1, 0, 12⟩]
def exOneBinReordered : Input := mkInput true [3, 7] [⟨0, 0, 12⟩, ⟨1, 0, 12⟩]
def exVar : Input := mkInput true [7] [⟨0, 0, 4⟩, ⟨0, 4, 7⟩, ⟨0, 7, 12⟩]
def exVarFixedLen : Input := mkInput true [7] [⟨0, 0, 4⟩, ⟨0, 4, 8⟩, ⟨0, 8, 12⟩]

/-- the hypotheses of `compat_accepts_iff` / `merge_refuses` are met by concrete, non-trivial inputs -/
example : ∀ x ∈ [exFixed, exFixedLast, exRenamed, exReordered, exSquare, exOneBin, exOneBinReordered,
    exVar, exVarFixedLen], WF x := by decide

example : exFixed.binsize = some 10 ∧ exOneBin.binsize = none ∧ exVar.binsize = none ∧
    exVarFixedLen.binsize = some 4 := by decide

/-- accepted: three identical inputs (both paths) -/
example : mergeCompat [exFixed, exFixed, exFixed] = .ok () ∧ allSame [exFixed, exFixed, exFixed] := by decide
example : mergeCompat [exOneBin, exOneBin] = .ok () ∧ allSame [exOneBin, exOneBin] := by decide
example : mergeCompat [exSquare, exSquare] = .ok () := by decide

/-- refused: the differing input first, in the middle, last; every kind of difference -/
example : mergeCompat [exFixedLast, exFixed, exFixed] = .error .value ∧
    mergeCompat [exFixed, exFixedLast, exFixed] = .error .value ∧
    mergeCompat [exFixed, exFixed, exFixedLast] = .error .value ∧
    mergeCompat [exFixed, exRenamed] = .error .value ∧
    mergeCompat [exFixed, exReordered] = .error .value ∧
    mergeCompat [exFixed, exSquare] = .error .value ∧
    mergeCompat [exSquare, exFixed, exSquare] = .error .value ∧
    mergeCompat [exOneBin, exOneBinReordered] = .error .value ∧
    mergeCompat [exVar, exVarFixedLen] = .error .value ∧
    mergeCompat [exVarFixedLen, exVar] = .error .value := by decide

/-- `merge_refuses` applied to a concrete triple (hypotheses discharged by evaluation) -/
example : mergeCompat [exFixed, exFixed, exFixedLast] = .error .value :=
  merge_refuses exFixed [exFixed, exFixedLast] (by decide) ⟨exFixedLast, by decide, Or.inr (Or.inl (by decide))⟩

/-- `uniform_table_unique` is not vacuous: a two-chromosome table meeting its hypotheses -/
example : chromSortedB exFixed.bins = true ∧ (∀ g ∈ groups exFixed.bins, ValidChrom g) ∧
    (∀ g ∈ groups exFixed.bins, UniformChrom 10 g) ∧ getChromsizes exFixed.bins = [(0, 25), (1, 12)] := by
  decide

/-- `fixed_group_is_tiling` on a concrete input: chromosome 1 of `exFixed` (length 12, width 10) -/
example : groupOf exFixed.bins 1 = tilingSpec 1 12 10 := by decide

end Cooler.C07
