import CoolerModel.Model.Create
import CoolerModel.Props.C02Core
import CoolerModel.Props.C03
import CoolerModel.Props.C06
/-!
# C01 — create-then-read round trip returns exactly the matrix that was stored

Composition of the write path (C02: `createStore`) and the read path (C03: query engines) plus the
input forms: chunk iterables (any sizes, empty chunks), data frame / dict (sorted first), dense
array loader (any chunk size).
-/
set_option linter.unusedSimpArgs false
set_option linter.unusedVariables false

namespace Cooler.C01
open Cooler Cooler.Create

/-! ## pixel table round trip -/

/-- **pixels_roundtrip**: the stored table is the concatenation of the chunks, whatever their sizes;
`nnz` is its length; every sub-slice is the corresponding `drop/take`. -/
theorem pixels_roundtrip (nchroms : Nat) (binChrom : List Nat) (symm : Bool) (chunks : List Pixels) :
    let s := createStore nchroms binChrom symm chunks
    s.px = chunks.flatten ∧ s.nnzAttr = chunks.flatten.length ∧
      pixelsSlice s 0 s.nnzAttr = chunks.flatten ∧
      ∀ lo hi, pixelsSlice s lo hi = (chunks.flatten.drop lo).take (hi - lo) := by
  simp only [createStore, C02.writePixels_concat, pixelsSlice, slicePx, List.drop_zero, Nat.sub_zero,
    List.take_length, true_and, implies_true, and_self]

/-- the result does not depend on how the records were split into chunks -/
theorem chunking_irrelevant (nchroms : Nat) (binChrom : List Nat) (symm : Bool)
    (c1 c2 : List Pixels) (h : c1.flatten = c2.flatten) :
    (createStore nchroms binChrom symm c1).px = (createStore nchroms binChrom symm c2).px ∧
    (createStore nchroms binChrom symm c1).bin1Offset = (createStore nchroms binChrom symm c2).bin1Offset ∧
    (createStore nchroms binChrom symm c1).sumAttr = (createStore nchroms binChrom symm c2).sumAttr := by
  simp [createStore, C02.writePixels_concat, h]

/-! ## the index that create() writes is the one the readers need -/

theorem created_offsOK (nchroms : Nat) (binChrom : List Nat) (symm : Bool) (chunks : List Pixels)
    (hs : StrictSorted chunks.flatten) (hr : InRange binChrom.length chunks.flatten) :
    let s := createStore nchroms binChrom symm chunks
    OffsOK s.px s.bin1Offset binChrom.length := by
  simp only [createStore, C02.writePixels_concat]
  have hrow : C02.NonDecr (chunks.flatten.map Px.i) := by
    unfold C02.NonDecr
    rw [List.pairwise_map]
    exact hs.imp (fun {a b} hab => by unfold keyLt at hab; omega)
  have hrown : ∀ x ∈ chunks.flatten.map Px.i, x < binChrom.length := by
    intro x hx
    obtain ⟨p, hp, rfl⟩ := List.mem_map.mp hx
    exact (hr p hp).1
  rw [C02.indexPixels_spec _ _ hrow hrown, C02.countIndex_eq_csrIndex]
  exact offsOK_csrIndex _ _

/-! ## full-matrix view -/

/-- **matrix_roundtrip_square**: in square mode the full-matrix query returns exactly the stored
records (every input pixel once with its value, nothing else), for any valid span choice. -/
theorem matrix_roundtrip_square (nchroms : Nat) (binChrom : List Nat) (chunks : List Pixels)
    (hs : StrictSorted chunks.flatten) (hr : InRange binChrom.length chunks.flatten)
    (spans : List (Nat × Nat))
    (hv : validSpans (createStore nchroms binChrom false chunks).bin1Offset (fullBox binChrom.length) spans = true) :
    let s := createStore nchroms binChrom false chunks
    queryDirect s.px s.bin1Offset (fullBox binChrom.length) spans = chunks.flatten := by
  intro s
  have ho := created_offsOK nchroms binChrom false chunks hs hr
  have hpx : s.px = chunks.flatten := (pixels_roundtrip nchroms binChrom false chunks).1
  have := C03.direct_correct s.px (by rw [hpx]; exact C03.StrictSorted.rowSorted hs) s.bin1Offset
    binChrom.length ho (fullBox binChrom.length) (Nat.le_refl _) spans hv
  rw [this, hpx]
  rw [List.filter_eq_self]
  intro p hp
  rw [C03.inBox_iff]
  have := hr p hp
  simp only [fullBox]
  omega

/-- **matrix_roundtrip_symm**: in symmetric-upper mode the full-matrix query returns, up to order and
without duplicates, exactly the symmetric completion of the stored upper triangle. -/
theorem matrix_roundtrip_symm (nchroms : Nat) (binChrom : List Nat) (chunks : List Pixels)
    (hs : StrictSorted chunks.flatten) (hr : InRange binChrom.length chunks.flatten)
    (ht : Triu chunks.flatten)
    (spansOf : Box → List (Nat × Nat))
    (hsp : ∀ c, validSpans (createStore nchroms binChrom true chunks).bin1Offset c (spansOf c) = true)
    (out : Pixels)
    (hout : queryFill (createStore nchroms binChrom true chunks).px
      (createStore nchroms binChrom true chunks).bin1Offset spansOf (fullBox binChrom.length) = some out) :
    out.Perm (symCompletion chunks.flatten) ∧ out.Nodup := by
  have ho := created_offsOK nchroms binChrom true chunks hs hr
  have hpx : (createStore nchroms binChrom true chunks).px = chunks.flatten :=
    (pixels_roundtrip nchroms binChrom true chunks).1
  have hv : C03.ValidSymm (createStore nchroms binChrom true chunks).px
      (createStore nchroms binChrom true chunks).bin1Offset binChrom.length :=
    ⟨by rw [hpx]; exact hs, by rw [hpx]; exact ht, ho⟩
  have hc := C03.fillLower_correct _ _ _ hv spansOf hsp (fullBox binChrom.length)
    (by simp [fullBox]) (by simp [fullBox]) (by simp [fullBox]) (by simp [fullBox]) out hout
  have hn := C03.fillLower_nodup _ _ _ hv spansOf hsp (fullBox binChrom.length)
    (by simp [fullBox]) (by simp [fullBox]) (by simp [fullBox]) (by simp [fullBox]) out hout
  refine ⟨?_, hn⟩
  rw [hpx] at hc
  have : specWindow true chunks.flatten (fullBox binChrom.length) = symCompletion chunks.flatten := by
    unfold specWindow
    simp only [if_true]
    rw [List.filter_eq_self]
    intro p hp
    rw [C03.inBox_iff]
    simp only [fullBox]
    unfold symCompletion at hp
    rcases List.mem_append.mp hp with h | h
    · have := hr p h; omega
    · obtain ⟨q, hq, rfl⟩ := List.mem_map.mp h
      have := hr q (List.mem_filter.mp hq).1
      simp only [C03.swap_i, C03.swap_j]; omega
  rw [this] at hc
  exact hc

/-! ## dense-array loader -/

theorem chunkRows_flatten (c : Nat) (hc : 1 ≤ c) :
    ∀ (fuel lo : Nat) (rows : List (List Int)), rows.length ≤ fuel →
      (chunkRows c fuel lo rows).flatten = (rows.zipIdx lo).flatMap rowEntries := by
  intro fuel
  induction fuel with
  | zero =>
    intro lo rows h
    have : rows = [] := List.length_eq_zero_iff.mp (by omega)
    subst this
    simp [chunkRows]
  | succ fuel ih =>
    intro lo rows h
    unfold chunkRows
    split
    · rename_i hnil; subst hnil; simp
    · rename_i hne
      have hlen : 0 < rows.length := List.length_pos_iff.mpr hne
      rw [List.flatten_cons, ih _ _ (by simp only [List.length_drop]; omega)]
      unfold blockEntries
      conv => rhs; rw [← List.take_append_drop c rows, List.zipIdx_append, List.flatMap_append]
      congr 2
      by_cases hcl : c ≤ rows.length
      · simp [List.length_take, Nat.min_eq_left hcl]
      · have : rows.drop c = [] := List.drop_eq_nil_of_le (by omega)
        simp [this]

/-- **arrayLoader_spec**: for every chunk size `c ≥ 1` the chunk stream concatenates to the row-major
list of non-zero upper-triangle entries — hence does not depend on `c`. -/
theorem arrayLoader_spec (A : List (List Int)) (c : Nat) (hc : 1 ≤ c) :
    (arrayLoader A c).flatten = triuNonzero A :=
  chunkRows_flatten c hc A.length 0 A (Nat.le_refl _)

/-! ## data-frame / dict input -/

theorem keyLe_trans (a b c : Px) : keyLe a b = true → keyLe b c = true → keyLe a c = true := by
  simp only [keyLe, Bool.or_eq_true, Bool.and_eq_true, decide_eq_true_eq]
  omega

theorem keyLe_total (a b : Px) : (keyLe a b || keyLe b a) = true := by
  simp only [keyLe, Bool.or_eq_true, Bool.and_eq_true, decide_eq_true_eq]
  omega

def keysNodup (ps : Pixels) : Prop := (ps.map fun p => (p.i, p.j)).Nodup

/-- **createCooler_frame**: a frame whose keys are distinct is stored as a strictly sorted permutation
of itself: every input pixel once with its value, nothing else. -/
theorem sortByKey_strict (ps : Pixels) (hk : keysNodup ps) :
    StrictSorted (sortByKey ps) ∧ (sortByKey ps).Perm ps := by
  have hperm : (sortByKey ps).Perm ps := List.mergeSort_perm ps keyLe
  refine ⟨?_, hperm⟩
  have hsorted : (sortByKey ps).Pairwise (fun a b => keyLe a b = true) :=
    List.pairwise_mergeSort keyLe_trans keyLe_total ps
  have hk' : keysNodup (sortByKey ps) := by
    unfold keysNodup at *
    exact ((hperm.map _).nodup_iff).mpr hk
  unfold StrictSorted
  unfold keysNodup List.Nodup at hk'
  rw [List.pairwise_map] at hk'
  refine List.Pairwise.imp₂ ?_ hsorted hk'
  intro a b hle hne
  simp only [keyLe, Bool.or_eq_true, Bool.and_eq_true, decide_eq_true_eq] at hle
  unfold keyLt
  by_cases h : a.i = b.i
  · have : a.j ≠ b.j := fun hj => hne (by rw [h, hj])
    omega
  · omega

theorem createFromFrame_px (nchroms : Nat) (binChrom : List Nat) (symm : Bool) (ps : Pixels)
    (hk : keysNodup ps) :
    (createFromFrame nchroms binChrom symm ps).px.Perm ps ∧
    StrictSorted (createFromFrame nchroms binChrom symm ps).px := by
  have h := sortByKey_strict ps hk
  simp only [createFromFrame, createStore, C02.writePixels_concat, List.flatten_cons, List.flatten_nil,
    List.append_nil]
  exact ⟨h.2, h.1⟩

/-- non-vacuity -/
example : keysNodup [⟨1, 2, 5⟩, ⟨0, 0, 1⟩, ⟨0, 3, 2⟩] := by unfold keysNodup; decide
example : arrayLoader [[1, 0, 2], [9, 0, 3], [0, 0, 4]] 2 = [[⟨0, 0, 1⟩, ⟨0, 2, 2⟩, ⟨1, 2, 3⟩], [⟨2, 2, 4⟩]] := by
  decide

/-! ### integer value columns (the "value dtypes" of the quantifier) -/

/-- the column stores a value unchanged iff the value fits its dtype: an unchecked write of anything else
stores a DIFFERENT value (saturation) -/
theorem clipInt_eq_iff (signed : Bool) (bits : Nat) (v : Int) :
    clipInt signed bits v = v ↔ fitsInt signed bits v = true := by
  simp only [clipInt, fitsInt, Bool.and_eq_true, decide_eq_true_eq]
  constructor
  · intro h
    by_cases h1 : v < dtypeLo signed bits
    · rw [if_pos h1] at h; omega
    · rw [if_neg h1] at h
      by_cases h2 : dtypeHi signed bits < v
      · rw [if_pos h2] at h; omega
      · omega
  · intro ⟨h1, h2⟩
    rw [if_neg (by omega), if_neg (by omega)]

/-- **value_roundtrip_or_refusal.**  The checked write either refuses, or stores exactly the given values;
it refuses exactly when an unchecked write would have altered some value. -/
theorem checkedWrite_exact (signed : Bool) (bits : Nat) (vs w : List Int)
    (h : checkedWrite signed bits vs = some w) : w = vs := by
  unfold checkedWrite at h
  split at h
  · exact (Option.some.inj h).symm
  · cases h

theorem checkedWrite_refuses_iff (signed : Bool) (bits : Nat) (vs : List Int) :
    checkedWrite signed bits vs = none ↔ vs.map (clipInt signed bits) ≠ vs := by
  unfold checkedWrite
  have key : vs.all (fitsInt signed bits) = true ↔ vs.map (clipInt signed bits) = vs := by
    induction vs with
    | nil => simp
    | cons v rest ih =>
      simp only [List.all_cons, Bool.and_eq_true, List.map_cons, List.cons.injEq]
      rw [ih, clipInt_eq_iff]
  by_cases hall : vs.all (fitsInt signed bits) = true
  · rw [if_pos hall]
    constructor
    · intro h; cases h
    · intro h; exact absurd (key.mp hall) h
  · rw [if_neg hall]
    constructor
    · intro _ h; exact hall (key.mpr h)
    · intro _; rfl

/-- non-vacuity: 3 000 000 000 fits uint32 and not int32 (where it would be stored as 2 147 483 647) -/
example : fitsInt false 32 3000000000 = true ∧ fitsInt true 32 3000000000 = false ∧
    clipInt true 32 3000000000 = 2147483647 ∧ clipInt false 32 (-4) = 0 := by decide

/-! ### iterable of chunks with `ordered` omitted (the default): the external-sort path

`create_cooler(uri, bins, <iterable>)` without `ordered=True` goes through `create_from_unordered`
(one merge pass, or two when there are more chunks than `max_merge`).  For the inputs of C01 — records
with distinct keys — that path stores exactly what the data-frame form stores; for a stream that is
already sorted it stores the stream itself.  Whatever the chunk sizes, `max_merge`, the grouping of
the first pass (`edges`) and the merge buffer (C07.merger_eq_spec: any epoch partition). -/

/-- **unordered_eq_frame**: chunks whose records have distinct keys, in ANY order, one or two merge
passes over any valid grouping: the stored table is the key-sorted input. -/
theorem unordered_eq_frame (chunks : List Pixels) (edges : Option (List Nat))
    (he : ∀ es, edges = some es → Unordered.validEdges chunks.length es = true)
    (hk : keysNodup chunks.flatten) :
    Unordered.createFromUnordered chunks edges = sortByKey chunks.flatten := by
  rw [C06.unordered_eq_aggregate chunks edges he]
  unfold Unordered.aggregateAll
  have h := sortByKey_strict chunks.flatten hk
  rw [← groupSum_perm h.2]
  exact groupSum_of_sorted _ h.1

/-- **unordered_roundtrip**: a sorted stream given without `ordered=True` is stored as it is: every
input pixel once with its value, nothing else, nothing dropped with a group of the first pass. -/
theorem unordered_roundtrip (chunks : List Pixels) (edges : Option (List Nat))
    (he : ∀ es, edges = some es → Unordered.validEdges chunks.length es = true)
    (hs : StrictSorted chunks.flatten) :
    Unordered.createFromUnordered chunks edges = chunks.flatten := by
  rw [C06.unordered_eq_aggregate chunks edges he]
  exact groupSum_of_sorted _ hs

/-- non-vacuity: five chunks (one empty), two passes over the groups [0,2) [2,5) -/
example : Unordered.validEdges 5 [0, 2, 5] = true ∧
    Unordered.createFromUnordered [[⟨0, 0, 1⟩], [⟨0, 2, 2⟩, ⟨1, 1, 3⟩], [], [⟨1, 2, 4⟩], [⟨2, 2, 5⟩]] (some [0, 2, 5])
      = [⟨0, 0, 1⟩, ⟨0, 2, 2⟩, ⟨1, 1, 3⟩, ⟨1, 2, 4⟩, ⟨2, 2, 5⟩] := by decide

/-- a grouping that stops short of the last chunk (edges of fixed step that do not reach `n`) is NOT a
valid grouping, and loses the records of the trailing chunks -/
example : Unordered.validEdges 5 [0, 2, 4] = false ∧
    Unordered.createFromUnordered [[⟨0, 0, 1⟩], [⟨0, 2, 2⟩], [⟨1, 1, 3⟩], [⟨1, 2, 4⟩], [⟨2, 2, 5⟩]] (some [0, 2, 4])
      = [⟨0, 0, 1⟩, ⟨0, 2, 2⟩, ⟨1, 1, 3⟩, ⟨1, 2, 4⟩] := by decide

/-! ### windows of a large store

The full-matrix clause read on a sub-window: the window of the symmetric completion only depends on
the records that touch the window (their row or their column inside it), so the specification of a
window of a store with millions of records can be evaluated on those records alone. -/

/-- a record can contribute to window `b` of the full matrix (directly or mirrored) -/
def touches (b : Box) (p : Px) : Bool := inBox b p || inBox b p.swap

/-- **specWindow_local**: the window of the full matrix is the window of the records touching it. -/
theorem specWindow_local (symm : Bool) (ps : Pixels) (b : Box) :
    specWindow symm (ps.filter (touches b)) b = specWindow symm ps b := by
  unfold specWindow
  cases symm with
  | false =>
    simp only [Bool.false_eq_true, if_false, List.filter_filter]
    apply List.filter_congr
    intro p _
    simp only [touches]
    cases inBox b p <;> simp
  | true =>
    simp only [if_true, symCompletion, List.filter_append, List.filter_filter, List.filter_map]
    congr 1
    · apply List.filter_congr
      intro p _
      simp only [touches]
      cases inBox b p <;> simp
    · congr 1
      apply List.filter_congr
      intro p _
      simp only [touches, Function.comp]
      cases inBox b p.swap <;> simp

theorem find?_pred_congr {α} (l : List α) (p q : α → Bool) (h : ∀ a ∈ l, p a = q a) : l.find? p = l.find? q := by
  induction l with
  | nil => rfl
  | cons x rest ih =>
    simp only [List.find?_cons, h x (List.mem_cons_self)]
    rw [ih (fun a ha => h a (List.mem_cons_of_mem _ ha))]

/-- **specDense_local**: likewise for the dense form of the window (cell by cell). -/
theorem specDense_local (symm : Bool) (ps : Pixels) (b : Box) :
    specDense symm (ps.filter (touches b)) b = specDense symm ps b := by
  unfold specDense
  apply List.map_congr_left
  intro r hr
  apply List.map_congr_left
  intro c hc
  have hr' := List.mem_range.mp hr
  have hc' := List.mem_range.mp hc
  unfold fullValue
  simp only [List.find?_filter]
  have key : ∀ (k1 k2 : Nat), ((k1 = b.i0 + r ∧ k2 = b.j0 + c) ∨ (k1 = b.j0 + c ∧ k2 = b.i0 + r)) →
      List.find? (fun a => decide (touches b a = true ∧ (a.i == k1 && a.j == k2) = true)) ps
        = List.find? (fun a => a.i == k1 && a.j == k2) ps := by
    intro k1 k2 hk
    apply find?_pred_congr
    intro a _
    by_cases hm : (a.i == k1 && a.j == k2) = true
    · rw [hm]
      simp only [Bool.and_eq_true, beq_iff_eq] at hm
      simp only [touches, Bool.or_eq_true, C03.inBox_iff, C03.swap_i, C03.swap_j, and_true, decide_eq_true_eq]
      omega
    · simp only [Bool.not_eq_true] at hm
      rw [hm]
      simp
  cases symm with
  | false =>
    simp only [Bool.false_eq_true, if_false]
    rw [key _ _ (Or.inl ⟨rfl, rfl⟩)]
  | true =>
    simp only [if_true]
    rw [key _ _ (by omega)]

example : specWindow true [⟨0, 1, 5⟩, ⟨0, 7, 2⟩, ⟨1, 1, 3⟩, ⟨4, 6, 9⟩] ⟨1, 2, 0, 2⟩ = [⟨1, 1, 3⟩, ⟨1, 0, 5⟩] ∧
    [⟨0, 1, 5⟩, ⟨0, 7, 2⟩, ⟨1, 1, 3⟩, ⟨4, 6, 9⟩].filter (touches ⟨1, 2, 0, 2⟩) = [⟨0, 1, 5⟩, ⟨1, 1, 3⟩] := by decide

end Cooler.C01
