import CoolerModel.Model.Unordered
import CoolerModel.Props.C07
/-!
# C06 — unordered ingestion equals aggregating all records in memory

Every merge in the model is `mergeSpec`, which by `C07.merger_eq_spec` is what the streaming merger
produces for ANY valid epoch partition (any merge buffer ≥ 1).
-/
set_option linter.unusedSimpArgs false
set_option linter.unusedVariables false

namespace Cooler.C06
open Cooler Cooler.Merge Cooler.Unordered

theorem groupsByEdges_flatten (chunks : List Pixels) :
    ∀ (rest : List Nat) (a e : Nat), edgesChain a rest = some e →
      (groupsByEdges chunks (a :: rest)).flatten = (chunks.drop a).take (e - a) := by
  intro rest
  induction rest with
  | nil => intro a e h; simp [edgesChain] at h; subst h; simp [groupsByEdges]
  | cons b rest ih =>
    intro a e h
    simp only [edgesChain] at h
    split at h
    · rename_i hab
      have hbe : b ≤ e := by
        clear ih
        revert h
        generalize b = b0
        induction rest generalizing b0 with
        | nil => intro h; simp [edgesChain] at h; omega
        | cons c r ihr =>
          intro h
          simp only [edgesChain] at h
          split at h
          · have := ihr c h; omega
          · exact absurd h (by simp)
      simp only [groupsByEdges, List.flatten_cons, ih b e h]
      have h1 : e - a = (b - a) + (e - b) := by omega
      rw [h1, List.take_add, List.drop_drop]
      have : a + (b - a) = b := by omega
      rw [this]
    · exact absurd h (by simp)

/-- the groups of a valid edge list partition the chunk list in order -/
theorem groups_cover (chunks : List Pixels) (edges : List Nat) (h : validEdges chunks.length edges = true) :
    (groupsByEdges chunks edges).flatten = chunks := by
  unfold validEdges at h
  cases edges with
  | nil => simp at h
  | cons e0 rest =>
    simp only [Bool.and_eq_true, decide_eq_true_eq, beq_iff_eq] at h
    obtain ⟨⟨rfl, _⟩, hc⟩ := h
    rw [groupsByEdges_flatten chunks rest 0 chunks.length hc]
    simp

/-- **unordered_eq_aggregate**: one pass or two passes over ANY valid grouping, the stored table is the
per-pixel sum of all records of all chunks. -/
theorem unordered_eq_aggregate (chunks : List Pixels) (edges : Option (List Nat))
    (he : ∀ es, edges = some es → validEdges chunks.length es = true) :
    createFromUnordered chunks edges = aggregateAll chunks := by
  unfold createFromUnordered aggregateAll
  cases edges with
  | none => rfl
  | some es =>
    simp only
    unfold mergeSpec
    have h := groups_cover chunks es (he es rfl)
    have : ((groupsByEdges chunks es).map fun g => groupSum g.flatten)
        = ((groupsByEdges chunks es).map List.flatten).map groupSum := by
      rw [List.map_map]; rfl
    rw [this, groupSum_flatten_groupSum, ← List.flatten_flatten, h]

/-- independent of one vs two passes and of the grouping -/
theorem passes_irrelevant (chunks : List Pixels) (e1 e2 : List Nat)
    (h1 : validEdges chunks.length e1 = true) (h2 : validEdges chunks.length e2 = true) :
    createFromUnordered chunks (some e1) = createFromUnordered chunks none ∧
    createFromUnordered chunks (some e1) = createFromUnordered chunks (some e2) := by
  have a := unordered_eq_aggregate chunks (some e1) (by intro es h; cases h; exact h1)
  have b := unordered_eq_aggregate chunks (some e2) (by intro es h; cases h; exact h2)
  have c := unordered_eq_aggregate chunks none (by intro es h; cases h)
  exact ⟨a.trans c.symm, a.trans b.symm⟩

/-- independent of how the records are split into chunks and of chunk and record order -/
theorem split_order_irrelevant (c1 c2 : List Pixels) (h : c1.flatten.Perm c2.flatten) :
    aggregateAll c1 = aggregateAll c2 := groupSum_perm h

theorem chunk_order_irrelevant (c1 c2 : List Pixels) (h : c1.Perm c2) : aggregateAll c1 = aggregateAll c2 :=
  C07.merge_comm c1 c2 h

/-- the sort pass (sorting / pre-aggregating each chunk) does not change the result -/
theorem sortPass_irrelevant (chunks : List Pixels) : aggregateAll (sortPass chunks) = aggregateAll chunks := by
  unfold aggregateAll sortPass
  exact groupSum_flatten_groupSum chunks

/-- pixels repeated across chunks are combined: per-key totals are the sums over all chunks, and the
result is strictly sorted with exactly the keys that occur -/
theorem aggregate_pointwise (chunks : List Pixels) (i j : Nat) :
    sumAt (aggregateAll chunks) i j = sumAt chunks.flatten i j ∧
    (hasKey (aggregateAll chunks) i j ↔ hasKey chunks.flatten i j) ∧ StrictSorted (aggregateAll chunks) :=
  ⟨sumAt_groupSum _ i j, hasKey_groupSum _ i j, groupSum_sorted _⟩

/-- the edge list the repaired code builds for n ∈ {2,3} (one group `[0, n]`) is valid; the pre-repair
single edge `[0]` is not (machine-checked witness of defect D7) -/
example : validEdges 3 [0, 3] = true ∧ validEdges 3 [0] = false := by decide

example : createFromUnordered [[⟨0, 1, 2⟩], [⟨0, 1, 3⟩, ⟨1, 1, 1⟩], [⟨0, 0, 4⟩]] (some [0, 1, 3])
    = [⟨0, 0, 4⟩, ⟨0, 1, 5⟩, ⟨1, 1, 1⟩] := by decide

end Cooler.C06
