import CoolerModel.Model.Index
import CoolerModel.Props.CSRLemmas
/-!
# C02 — every written collection is a structurally valid CSR collection

Statements about `Model/Index.lean`: the chunked run-length encoder equals the unchunked one for
every block size, the offsets built from the runs are exactly the run-length index, and the store
`create()` writes from a validated chunk stream satisfies the schema predicate `ValidCooler`.
-/
set_option linter.unusedSimpArgs false
set_option linter.unusedVariables false

namespace Cooler.C02
open Cooler

/-! ## run-length encoding: block size does not matter -/

theorem lastOr_nil (last : Option Nat) : lastOr last [] = last := rfl

theorem lastOr_cons (last : Option Nat) (x : Nat) (rest : List Nat) :
    lastOr last (x :: rest) = lastOr (some x) rest := by
  unfold lastOr
  cases rest with
  | nil => simp
  | cons y ys =>
    rw [List.getLast?_cons_cons]
    cases h : (y :: ys).getLast? with
    | none => simp at h
    | some v => rfl

/-- the encoder is compositional: encoding `a ++ b` is encoding `a`, then `b` with the last value of
`a` carried over -/
theorem runStartsFrom_append (a b : List Nat) :
    ∀ (prev : Option Nat) (pos : Nat),
      runStartsFrom prev pos (a ++ b)
        = runStartsFrom prev pos a ++ runStartsFrom (lastOr prev a) (pos + a.length) b := by
  induction a with
  | nil => intro prev pos; simp [runStartsFrom, lastOr_nil]
  | cons x rest ih =>
    intro prev pos
    simp only [List.cons_append, runStartsFrom, ih (some x) (pos + 1), lastOr_cons, List.length_cons,
      List.append_assoc]
    congr 3
    omega

theorem rleBlocks_eq (c : Nat) (hc : 1 ≤ c) :
    ∀ (fuel : Nat) (last : Option Nat) (pos : Nat) (xs : List Nat), xs.length ≤ fuel →
      rleBlocks c fuel last pos xs = runStartsFrom last pos xs := by
  intro fuel
  induction fuel with
  | zero =>
    intro last pos xs h
    have : xs = [] := List.length_eq_zero_iff.mp (by omega)
    subst this
    simp [rleBlocks, runStartsFrom]
  | succ fuel ih =>
    intro last pos xs h
    unfold rleBlocks
    split
    · rename_i hnil; subst hnil; simp [runStartsFrom]
    · rename_i hne
      have hlen : 0 < xs.length := List.length_pos_iff.mpr hne
      simp only
      rw [ih _ _ _ (by simp only [List.length_drop]; omega)]
      conv => rhs; rw [← List.take_append_drop c xs]
      rw [runStartsFrom_append]

/-- **rlencodeChunked_eq**: for every block size `c ≥ 1` (boundary inside a run, on a run boundary,
`c = 1`, `c > |xs|`) the chunked encoder returns the runs of the unchunked one. -/
theorem rlencodeChunked_eq (c : Nat) (hc : 1 ≤ c) (xs : List Nat) :
    rlencodeChunked c xs = rlencode xs :=
  rleBlocks_eq c hc xs.length none 0 xs (Nat.le_refl _)

/-! ## offsets from runs = run-length index -/

def NonDecr (xs : List Nat) : Prop := xs.Pairwise (· ≤ ·)

/-- invariant of the fill loop, element by element: with `curr` one past the previous value (0 at the
start), the entries written from `curr` on are `pos + #(suffix elements < k)` -/
theorem fillIdx_spec (n : Nat) :
    ∀ (suf : List Nat) (prev : Option Nat) (pos curr : Nat),
      NonDecr suf → (∀ x ∈ suf, x < n) →
      (match prev with | some p => curr = p + 1 ∧ ∀ x ∈ suf, p ≤ x | none => curr = 0) →
      fillIdx n (pos + suf.length) curr (runStartsFrom prev pos suf)
        = (List.range' curr (n + 1 - curr)).map fun k => pos + suf.countP (· < k) := by
  intro suf
  induction suf with
  | nil =>
    intro prev pos curr _ _ _
    simp [runStartsFrom, fillIdx, List.map_const']
  | cons x rest ih =>
    intro prev pos curr hs hn hp
    have hs' : NonDecr rest := (List.pairwise_cons.mp hs).2
    have hx : ∀ y ∈ rest, x ≤ y := (List.pairwise_cons.mp hs).1
    have hxn : x < n := hn x (by simp)
    have hn' : ∀ y ∈ rest, y < n := fun y hy => hn y (List.mem_cons_of_mem _ hy)
    have ih' := ih (some x) (pos + 1) (x + 1) hs' hn' ⟨rfl, hx⟩
    have hlen : pos + (x :: rest).length = pos + 1 + rest.length := by simp; omega
    rw [hlen]
    -- entries from x+1 on: the same in both readings
    have htail : (List.range' (x + 1) (n + 1 - (x + 1))).map (fun k => pos + 1 + rest.countP (· < k))
        = (List.range' (x + 1) (n + 1 - (x + 1))).map (fun k => pos + (x :: rest).countP (· < k)) := by
      apply List.map_congr_left
      intro k hk
      have : x < k := by
        have := (List.mem_range'_1.mp hk).1; omega
      simp [List.countP_cons, this]; omega
    by_cases hsame : prev = some x
    · -- same run continues: curr = x + 1
      subst hsame
      simp only at hp
      obtain ⟨hc, _⟩ := hp
      subst hc
      simp only [runStartsFrom, if_true, List.nil_append]
      rw [ih', htail]
    · -- a new run starts at `pos` with value `x`; curr ≤ x
      have hcx : curr ≤ x := by
        cases prev with
        | none => simp only at hp; omega
        | some p =>
          simp only at hp
          obtain ⟨hc, hge⟩ := hp
          have := hge x (by simp)
          have : p ≠ x := fun h => hsame (by rw [h])
          omega
      simp only [runStartsFrom, hsame, if_false, List.singleton_append, fillIdx]
      rw [ih', htail]
      have hsplit : List.range' curr (n + 1 - curr)
          = List.range' curr (x + 1 - curr) ++ List.range' (x + 1) (n + 1 - (x + 1)) := by
        have h1 : n + 1 - curr = (x + 1 - curr) + (n + 1 - (x + 1)) := by omega
        rw [h1, ← List.range'_append]
        simp only [Nat.one_mul]
        have : curr + (x + 1 - curr) = x + 1 := by omega
        rw [this]
      rw [hsplit, List.map_append]
      congr 1
      -- the entries curr..x all equal `pos`: nothing of the suffix is below them
      have : ∀ k ∈ List.range' curr (x + 1 - curr), pos + (x :: rest).countP (· < k) = pos := by
        intro k hk
        have hk' := (List.mem_range'_1.mp hk)
        have hz : (x :: rest).countP (· < k) = 0 := by
          rw [List.countP_eq_zero]
          intro y hy
          simp only [List.mem_cons] at hy
          simp only [decide_eq_true_eq, Nat.not_lt]
          rcases hy with rfl | hy
          · omega
          · have := hx y hy; omega
        omega
      rw [List.map_congr_left this]
      simp [List.map_const']

/-- **indexPixels_spec**: for a non-decreasing column with values `< n`, the offsets built from its
run-length encoding are exactly `k ↦ #(elements < k)` for `k = 0..n`. -/
theorem indexFromRle_spec (n : Nat) (xs : List Nat) (hs : NonDecr xs) (hn : ∀ x ∈ xs, x < n) :
    indexFromRle n xs.length (rlencode xs) = countIndex n xs := by
  unfold indexFromRle rlencode countIndex
  have := fillIdx_spec n xs none 0 0 hs hn rfl
  simp only [Nat.zero_add, Nat.sub_zero] at this
  rw [this, List.range_eq_range']

theorem indexPixels_spec (n : Nat) (bin1 : List Nat) (hs : NonDecr bin1) (hn : ∀ x ∈ bin1, x < n) :
    indexPixels n bin1 = countIndex n bin1 := indexFromRle_spec n bin1 hs hn

/-- with the chunked encoder the code actually calls (`rlencode(bin1, 1000000)`), for every block size -/
theorem indexPixels_chunked_spec (c : Nat) (hc : 1 ≤ c) (n : Nat) (bin1 : List Nat) (hs : NonDecr bin1)
    (hn : ∀ x ∈ bin1, x < n) :
    indexFromRle n bin1.length (rlencodeChunked c bin1) = countIndex n bin1 := by
  rw [rlencodeChunked_eq c hc]; exact indexFromRle_spec n bin1 hs hn

theorem countIndex_eq_csrIndex (ps : Pixels) (n : Nat) :
    countIndex n (ps.map Px.i) = csrIndex ps n := by
  unfold countIndex csrIndex off
  apply List.map_congr_left
  intro k _
  rw [List.countP_map]
  rfl

/-! ## write_pixels -/

theorem foldl_add_append (a b : List Int) (z : Int) :
    (a ++ b).foldl (· + ·) z = a.foldl (· + ·) z + b.foldl (· + ·) 0 := by
  induction b generalizing a z with
  | nil => simp
  | cons x rest ih =>
    have := ih (a ++ [x]) z
    simp only [List.append_assoc, List.singleton_append] at this
    rw [this]
    simp only [List.foldl_append, List.foldl_cons, List.foldl_nil]
    have h2 := ih [x] 0
    simp only [List.singleton_append, List.foldl_cons, List.foldl_nil] at h2
    rw [h2]
    omega

/-- **writePixels_concat**: for every chunk list (any sizes, empty chunks included) the stored table
is the concatenation, `nnz` its length and the running total the sum of the value column. -/
theorem writePixels_concat (chunks : List Pixels) :
    writePixels chunks = (chunks.flatten, chunks.flatten.length, (chunks.flatten.map Px.v).foldl (· + ·) 0) := by
  unfold writePixels
  suffices h : ∀ (acc : Pixels) (k : Nat) (t : Int),
      chunks.foldl (fun (acc : Pixels × Nat × Int) ch =>
        (acc.1 ++ ch, acc.2.1 + ch.length, acc.2.2 + (ch.map Px.v).foldl (· + ·) 0)) (acc, k, t)
      = (acc ++ chunks.flatten, k + chunks.flatten.length,
          t + (chunks.flatten.map Px.v).foldl (· + ·) 0) by
    have := h [] 0 0
    simpa using this
  induction chunks with
  | nil => intro acc k t; simp
  | cons ch rest ih =>
    intro acc k t
    simp only [List.foldl_cons, ih, List.flatten_cons, List.append_assoc, List.length_append,
      List.map_append]
    rw [foldl_add_append]
    refine Prod.ext rfl (Prod.ext ?_ ?_) <;> simp <;> omega

/-! ## create() writes a valid collection -/

theorem strictSortedB_iff (ps : Pixels) : strictSortedB ps = true ↔ StrictSorted ps := by
  unfold StrictSorted
  induction ps with
  | nil => simp [strictSortedB]
  | cons p rest ih =>
    cases rest with
    | nil => simp [strictSortedB]
    | cons q rest' =>
      simp only [strictSortedB, Bool.and_eq_true, keyLtB, decide_eq_true_eq, ih]
      constructor
      · rintro ⟨h1, h2⟩
        rw [List.pairwise_cons]
        refine ⟨?_, h2⟩
        intro r hr
        rcases List.mem_cons.mp hr with rfl | hr
        · exact h1
        · have := (List.pairwise_cons.mp h2).1 r hr
          unfold keyLt at *
          omega
      · intro h
        exact ⟨(List.pairwise_cons.mp h).1 q (by simp), (List.pairwise_cons.mp h).2⟩

/-- **create_valid**: a chunk stream whose concatenation is strictly sorted, in range and (in
symmetric-upper mode) upper triangular — which is what the chained validator establishes — over a
bin table whose chromosome codes are non-decreasing and `< nchroms`, yields a store satisfying every
clause of the schema. -/
theorem create_valid (nchroms : Nat) (binChrom : List Nat) (symm : Bool) (chunks : List Pixels)
    (hbs : NonDecr binChrom) (hbn : ∀ c ∈ binChrom, c < nchroms)
    (hs : StrictSorted chunks.flatten) (hr : InRange binChrom.length chunks.flatten)
    (ht : symm = true → Triu chunks.flatten) :
    ValidCooler (createStore nchroms binChrom symm chunks) := by
  unfold ValidCooler schemaViolations createStore
  simp only [writePixels_concat]
  have h1 : strictSortedB chunks.flatten = true := (strictSortedB_iff _).mpr hs
  have h2 : inRangeB binChrom.length chunks.flatten = true := by
    unfold inRangeB
    simp only [List.all_eq_true, Bool.and_eq_true, decide_eq_true_eq]
    exact hr
  have h3 : (!symm || triuB chunks.flatten) = true := by
    cases symm with
    | false => simp
    | true =>
      simp only [Bool.not_true, Bool.false_or]
      unfold triuB
      simp only [List.all_eq_true, decide_eq_true_eq]
      exact ht rfl
  have hrow : NonDecr (chunks.flatten.map Px.i) := by
    unfold NonDecr
    rw [List.pairwise_map]
    exact hs.imp (fun {a b} hab => by unfold keyLt at hab; omega)
  have hrown : ∀ x ∈ chunks.flatten.map Px.i, x < binChrom.length := by
    intro x hx
    obtain ⟨p, hp, rfl⟩ := List.mem_map.mp hx
    exact (hr p hp).1
  have h4 : indexPixels binChrom.length (chunks.flatten.map Px.i)
      = countIndex binChrom.length (chunks.flatten.map Px.i) :=
    indexPixels_spec _ _ hrow hrown
  have h5 : indexBins nchroms binChrom = countIndex nchroms binChrom :=
    indexFromRle_spec nchroms binChrom hbs hbn
  rw [List.map_flatten] at h4
  simp [h1, h2, h3, h4, h5]

/-- non-vacuity: a concrete two-chunk stream (with an empty chunk) meets the hypotheses -/
example : ValidCooler (createStore 2 [0, 0, 1] true [[⟨0, 0, 3⟩, ⟨0, 2, 1⟩], [], [⟨1, 1, 4⟩]]) := by decide

/-- the zero-chunk stream (repaired behaviour, fix D14): columns of length 0 = nnz -/
theorem create_zero_chunks (nchroms : Nat) (binChrom : List Nat) (symm : Bool)
    (hbs : NonDecr binChrom) (hbn : ∀ c ∈ binChrom, c < nchroms) :
    ValidCooler (createStore nchroms binChrom symm []) :=
  create_valid nchroms binChrom symm [] hbs hbn (by simp [StrictSorted]) (by simp [InRange])
    (by intro _; simp [Triu])

end Cooler.C02
