import CoolerModel.Model.GroupAgg
import CoolerModel.Props.C07Core
/-!
# C07 (continued) — merging with ANY requested aggregation

`merger_agg_eq_spec`: for strictly sorted inputs, any valid epoch partition and an ARBITRARY
aggregation function `agg : List Int → Int` (no algebraic law assumed), the streaming merger yields, for
every pixel, `agg` of exactly that pixel's values over the inputs in input order.  Order independence
then holds for every permutation-invariant `agg` (`merge_agg_comm`); `sum` is the instance already
covered by `merger_eq_spec` (`groupAgg_sum`).
-/
set_option linter.unusedSimpArgs false
set_option linter.unusedVariables false

namespace Cooler.C07
open Cooler Cooler.Merge

/-! ## valsAt -/

theorem valsAt_append (a b : Pixels) (i j : Nat) : valsAt (a ++ b) i j = valsAt a i j ++ valsAt b i j := by
  induction a with
  | nil => simp [valsAt]
  | cons p rest ih => simp only [List.cons_append, valsAt, ih, List.append_assoc]

theorem valsAt_eq_nil_of_not_hasKey (l : Pixels) (i j : Nat) (h : ¬ hasKey l i j) : valsAt l i j = [] := by
  induction l with
  | nil => rfl
  | cons p rest ih =>
    rw [hasKey_cons] at h
    have h1 : ¬ (p.i = i ∧ p.j = j) := fun hh => h (Or.inl hh)
    have h2 : ¬ hasKey rest i j := fun hh => h (Or.inr hh)
    simp [valsAt, h1, ih h2]

theorem sumAt_eq_listSum (l : Pixels) (i j : Nat) : sumAt l i j = listSum (valsAt l i j) := by
  unfold listSum
  induction l with
  | nil => rfl
  | cons p rest ih =>
    simp only [sumAt, valsAt]
    by_cases h : p.i = i ∧ p.j = j
    · simp only [h, and_self, if_true, List.singleton_append, List.foldl_cons]
      rw [C03.foldl_add_eq, ih]; omega
    · simp only [h, if_false, List.nil_append, ih]; omega

/-! ## groupAgg: sortedness, keys, values, extensionality -/

theorem keyLt_map_val {f : Px → Int} {l : Pixels} (h : StrictSorted l) :
    StrictSorted (l.map fun p => ⟨p.i, p.j, f p⟩) := by
  unfold StrictSorted at *
  rw [List.pairwise_map]
  exact h.imp (fun {a b} hab => by unfold keyLt at *; simpa using hab)

theorem groupAgg_sorted (agg : List Int → Int) (l : Pixels) : StrictSorted (groupAgg agg l) :=
  keyLt_map_val (groupSum_sorted l)

theorem hasKey_map_val (f : Px → Int) (l : Pixels) (i j : Nat) :
    hasKey (l.map fun p => ⟨p.i, p.j, f p⟩) i j ↔ hasKey l i j := by
  unfold hasKey
  constructor
  · rintro ⟨q, hq, h1, h2⟩
    obtain ⟨p, hp, rfl⟩ := List.mem_map.mp hq
    exact ⟨p, hp, h1, h2⟩
  · rintro ⟨p, hp, h1, h2⟩
    exact ⟨_, List.mem_map.mpr ⟨p, hp, rfl⟩, h1, h2⟩

theorem hasKey_groupAgg (agg : List Int → Int) (l : Pixels) (i j : Nat) :
    hasKey (groupAgg agg l) i j ↔ hasKey l i j := by
  unfold groupAgg
  rw [hasKey_map_val, hasKey_groupSum]

theorem val_groupAgg (agg : List Int → Int) (l : Pixels) (p : Px) (hp : p ∈ groupAgg agg l) :
    p.v = agg (valsAt l p.i p.j) := by
  unfold groupAgg at hp
  obtain ⟨q, _, rfl⟩ := List.mem_map.mp hp
  rfl

/-- in a strictly sorted table the per-key total is the value of the record stored under the key -/
theorem sumAt_of_mem_sorted (a : Pixels) (hs : StrictSorted a) (p : Px) (hp : p ∈ a) :
    sumAt a p.i p.j = p.v := by
  induction a with
  | nil => simp at hp
  | cons q rest ih =>
    have hs' : StrictSorted rest := (List.pairwise_cons.mp hs).2
    have hq := (List.pairwise_cons.mp hs).1
    rcases List.mem_cons.mp hp with rfl | h
    · exact sumAt_sorted_head p rest hs
    · have hlt := hq p h
      have : ¬ (q.i = p.i ∧ q.j = p.j) := by unfold keyLt at hlt; omega
      simp only [sumAt, this, if_false, ih hs' h]
      omega

/-- a strictly sorted table is determined by its key set and the value stored under each key -/
theorem ext_sorted_val (a b : Pixels) (ha : StrictSorted a) (hb : StrictSorted b)
    (hk : ∀ i j, hasKey a i j ↔ hasKey b i j)
    (hv : ∀ p ∈ a, ∀ q ∈ b, p.i = q.i → p.j = q.j → p.v = q.v) : a = b := by
  apply ext_sorted a b ha hb hk
  intro i j
  by_cases h : hasKey a i j
  · obtain ⟨p, hp, rfl, rfl⟩ := h
    obtain ⟨q, hq, h1, h2⟩ := (hk p.i p.j).mp ⟨p, hp, rfl, rfl⟩
    rw [sumAt_of_mem_sorted a ha p hp]
    have := sumAt_of_mem_sorted b hb q hq
    rw [h1, h2] at this
    rw [this]
    exact hv p hp q hq h1.symm h2.symm
  · rw [sumAt_eq_zero_of_not_hasKey a i j h,
      sumAt_eq_zero_of_not_hasKey b i j (fun hh => h ((hk i j).mpr hh))]

/-- extensionality principle for `groupAgg` -/
theorem groupAgg_eq_of (agg : List Int → Int) (x l : Pixels) (hx : StrictSorted x)
    (hk : ∀ i j, hasKey x i j ↔ hasKey l i j)
    (hv : ∀ p ∈ x, p.v = agg (valsAt l p.i p.j)) : x = groupAgg agg l := by
  apply ext_sorted_val x (groupAgg agg l) hx (groupAgg_sorted agg l)
  · intro i j; rw [hk, hasKey_groupAgg]
  · intro p hp q hq h1 h2
    rw [hv p hp, val_groupAgg agg l q hq, h1, h2]

/-- `groupSum` is `groupAgg` with `sum` -/
theorem groupAgg_sum (l : Pixels) : groupAgg listSum l = groupSum l := by
  symm
  apply groupAgg_eq_of listSum _ _ (groupSum_sorted l) (fun i j => hasKey_groupSum l i j)
  intro p hp
  rw [← sumAt_eq_listSum, ← sumAt_groupSum l p.i p.j]
  exact (sumAt_of_mem_sorted _ (groupSum_sorted l) p hp).symm

/-! ## the merger with an arbitrary aggregation -/

theorem valsAt_rowsSlice_out (ps : Pixels) (hs : RowSorted ps) (a b i j : Nat) (hab : a ≤ b)
    (hout : i < a ∨ b ≤ i) : valsAt (rowsSlice ps a b) i j = [] := by
  apply valsAt_eq_nil_of_not_hasKey
  rintro ⟨p, hp, rfl, rfl⟩
  rw [rowsSlice_eq_filter ps hs a b hab] at hp
  have := (List.mem_filter.mp hp).2
  simp only [decide_eq_true_eq] at this
  omega

/-- for a key whose row lies in `[a, b)` the values collected from rows `[a, e)` are those from `[a, b)`;
for a row in `[b, e)` they are those from `[b, e)` -/
theorem valsAt_epochRows_split (inputs : List Pixels) (hs : ∀ ps ∈ inputs, RowSorted ps)
    {a b e : Nat} (hab : a ≤ b) (hbe : b ≤ e) (i j : Nat) :
    valsAt (epochRows inputs a e) i j =
      if i < b then valsAt (epochRows inputs a b) i j else valsAt (epochRows inputs b e) i j := by
  unfold epochRows
  induction inputs with
  | nil => simp [valsAt]
  | cons ps rest ih =>
    have hps : RowSorted ps := hs ps (by simp)
    have ih' := ih (fun q hq => hs q (List.mem_cons_of_mem _ hq))
    simp only [List.map_cons, List.flatten_cons, valsAt_append]
    rw [← rowsSlice_append ps hab hbe, valsAt_append, ih']
    by_cases hi : i < b
    · simp only [hi, if_true]
      rw [valsAt_rowsSlice_out ps hps b e i j hbe (Or.inl hi), List.append_nil]
    · simp only [hi, if_false]
      rw [valsAt_rowsSlice_out ps hps a b i j hab (Or.inr (by omega)), List.nil_append]

theorem epochOutAgg_flatten (agg : List Int → Int) (inputs : List Pixels) (a b : Nat) :
    (epochOutAgg agg inputs a b).flatten = groupAgg agg (epochRows inputs a b) := by
  unfold epochOutAgg
  split
  · rename_i h; rw [h]; rfl
  · simp

theorem mem_groupAgg_row (agg : List Int → Int) (l : Pixels) (p : Px) (hp : p ∈ groupAgg agg l) :
    ∃ q ∈ l, q.i = p.i ∧ q.j = p.j :=
  (hasKey_groupAgg agg l p.i p.j).mp ⟨p, hp, rfl, rfl⟩

/-- the stream over a chain of epochs: strictly sorted, rows inside the chain's range, the key set of
all the rows of the range, and under every key `agg` of that key's values over the inputs -/
theorem mergerAggFrom_spec (agg : List Int → Int) (inputs : List Pixels) (hs : ∀ ps ∈ inputs, RowSorted ps) :
    ∀ (bs : List Nat) (a : Nat), chainIncr a bs = true →
      let e := (a :: bs).getLast?.getD 0
      let out := (mergerAggFrom agg inputs a bs).flatten
      StrictSorted out ∧ (∀ p ∈ out, a ≤ p.i ∧ p.i < e) ∧
        (∀ i j, hasKey out i j ↔ hasKey (epochRows inputs a e) i j) ∧
        (∀ p ∈ out, p.v = agg (valsAt (epochRows inputs a e) p.i p.j)) := by
  intro bs
  induction bs with
  | nil =>
    intro a _
    simp only [mergerAggFrom, List.flatten_nil, List.getLast?_singleton, Option.getD_some, epochRows_self]
    refine ⟨by simp [StrictSorted], by simp, fun _ _ => trivial, by simp⟩
  | cons b rest ih =>
    intro a h
    simp only [chainIncr, Bool.and_eq_true, decide_eq_true_eq] at h
    obtain ⟨hab, hrest⟩ := h
    have hbe := chainIncr_last_ge rest b hrest
    obtain ⟨ih1, ih2, ih3, ih4⟩ := ih b hrest
    simp only [List.getLast?_cons_cons] at *
    simp only [mergerAggFrom, List.flatten_append, epochOutAgg_flatten]
    have hrows1 : ∀ p ∈ groupAgg agg (epochRows inputs a b), a ≤ p.i ∧ p.i < b := by
      intro p hp
      obtain ⟨q, hq, hqi, _⟩ := mem_groupAgg_row agg _ p hp
      have := mem_epochRows inputs hs a b (by omega) q hq
      omega
    refine ⟨?_, ?_, ?_, ?_⟩
    · unfold StrictSorted
      rw [List.pairwise_append]
      refine ⟨groupAgg_sorted agg _, ih1, ?_⟩
      intro p hp q hq
      have h1 := hrows1 p hp
      have h2 := ih2 q hq
      unfold keyLt; omega
    · intro p hp
      rcases List.mem_append.mp hp with h1 | h1
      · have := hrows1 p h1; omega
      · have := ih2 p h1; omega
    · intro i j
      rw [hasKey_append, hasKey_groupAgg, ih3, hasKey_epochRows_append inputs (Nat.le_of_lt hab) hbe]
    · intro p hp
      rw [valsAt_epochRows_split inputs hs (Nat.le_of_lt hab) hbe]
      rcases List.mem_append.mp hp with h1 | h1
      · have := hrows1 p h1
        simp only [this.2, if_true]
        exact val_groupAgg agg _ p h1
      · have := ih2 p h1
        have hnb : ¬ p.i < b := by omega
        simp only [hnb, if_false]
        exact ih4 p h1

/-- **merger_agg_eq_spec**: for strictly sorted inputs, ANY valid partition and ANY aggregation function,
the merger's stream concatenates to the per-pixel aggregate of the inputs, in storage order. -/
theorem merger_agg_eq_spec (agg : List Int → Int) (inputs : List Pixels)
    (hs : ∀ ps ∈ inputs, StrictSorted ps) (bs : List Nat) (hv : ValidPartition inputs 0 bs) :
    (mergerAgg agg inputs (0 :: bs)).flatten = mergeSpecAgg agg inputs := by
  obtain ⟨hc, he⟩ := hv
  have hrs : ∀ ps ∈ inputs, RowSorted ps := fun ps h => C03.StrictSorted.rowSorted (hs ps h)
  obtain ⟨h1, _, h3, h4⟩ := mergerAggFrom_spec agg inputs hrs bs 0 hc
  unfold mergerAgg mergeSpecAgg
  rw [epochRows_all inputs _ he] at h3 h4
  exact groupAgg_eq_of agg _ _ h1 h3 h4

/-- buffer-size independence for any aggregation -/
theorem merge_agg_buffer_independent (agg : List Int → Int) (inputs : List Pixels)
    (hs : ∀ ps ∈ inputs, StrictSorted ps) (b1 b2 : List Nat)
    (h1 : ValidPartition inputs 0 b1) (h2 : ValidPartition inputs 0 b2) :
    (mergerAgg agg inputs (0 :: b1)).flatten = (mergerAgg agg inputs (0 :: b2)).flatten := by
  rw [merger_agg_eq_spec agg inputs hs b1 h1, merger_agg_eq_spec agg inputs hs b2 h2]

theorem valsAt_perm {a b : Pixels} (h : a.Perm b) (i j : Nat) : (valsAt a i j).Perm (valsAt b i j) := by
  induction h with
  | nil => exact List.Perm.refl _
  | cons x _ ih => simp only [valsAt]; exact List.Perm.append_left _ ih
  | swap x y l =>
    simp only [valsAt, ← List.append_assoc]
    exact List.Perm.append_right _ List.perm_append_comm
  | trans _ _ ih1 ih2 => exact ih1.trans ih2

/-- **merge_agg_comm**: input order does not matter for any permutation-invariant aggregation
(sum, max, min, count, …) -/
theorem merge_agg_comm (agg : List Int → Int) (hagg : ∀ u v : List Int, u.Perm v → agg u = agg v)
    (in1 in2 : List Pixels) (h : in1.Perm in2) : mergeSpecAgg agg in1 = mergeSpecAgg agg in2 := by
  unfold mergeSpecAgg
  have hf : in1.flatten.Perm in2.flatten := by
    have := List.Perm.flatMap_right (fun x : Pixels => x) h
    simpa [List.flatMap_id'] using this
  apply groupAgg_eq_of agg _ _ (groupAgg_sorted agg _)
  · intro i j; rw [hasKey_groupAgg, hasKey_perm hf]
  · intro p hp
    rw [val_groupAgg agg _ p hp]
    exact hagg _ _ (valsAt_perm hf p.i p.j)

/-- non-vacuity: max over two inputs sharing a pixel, merge buffer of one row per epoch -/
example : (mergerAgg (fun vs => vs.foldl max 0) [[⟨1, 1, 2⟩, ⟨1, 2, 3⟩], [⟨1, 1, 5⟩, ⟨2, 2, 1⟩]] [0, 1, 2, 3]).flatten
    = [⟨1, 1, 5⟩, ⟨1, 2, 3⟩, ⟨2, 2, 1⟩] := by decide

end Cooler.C07
