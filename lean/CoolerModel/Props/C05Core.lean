import CoolerModel.Model.Sanitize
import CoolerModel.Props.C20
/-!
# C05 — each valid input record is counted once, in the pixel that contains it

Theorems about `Model/Sanitize.lean` (`_sanitize_records`, `_sanitize_pixels`, `aggregate_records`).
The model is of the code as it stands; the property's wording is the L0 layer (`binOf`, `retained`,
`pixelOf`, `specCounts`).  Main results

* `binAssign_var_correct`, `binAssign_fixed_correct`, `assign_eq_binOf` — both assignment paths give the
  bin with `start ≤ pos < stop` of the record's own chromosome (the fixed path through
  `C20.getBinsize_truthful`);
* `sanitize_count_once`, `aggregated_eq_spec` — one unit per retained record in its pixel, Σ = number retained;
* `sanitize_reflect_upper` (via `assign_le_of_lex`, monotonicity of the assignment);
* `sanitize_order_independent`, `sanitize_one_based`;
* `sanitize_rejects_outside_partial`, `sanitize_rejects_outside_fails` (known finding D13);
* `pixels_count_once`, `pixels_reflect_upper` for pre-binned records;
* `tabix_correct` — the row-by-row stream of `TabixAggregator` equals `sanitize`∘`aggregate` (via the
  key-range splitting lemma `rows_flatMap_eq`).
-/
namespace Cooler.C05
open Cooler Cooler.Sanitize

/-! ## grouping -/

theorem klt_irrefl (a : Key) : ¬ klt a a := by simp [klt]

theorem klt_tri (a b : Key) : klt a b ∨ a = b ∨ klt b a := by
  rcases a with ⟨a1, a2⟩; rcases b with ⟨b1, b2⟩
  simp only [klt, Prod.mk.injEq]; omega

theorem klt_trans {a b c : Key} : klt a b → klt b c → klt a c := by
  simp only [klt]; omega

theorem klt_asymm {a b : Key} : klt a b → ¬ klt b a := by
  simp only [klt]; omega

theorem klt_ne {a b : Key} (h : klt a b) : a ≠ b := by
  intro e; subst e; exact klt_irrefl _ h

theorem insertCell_lt {k : Key} {v : Int} {c : Cell} {z : List Cell} (h : klt k c.k) :
    insertCell k v (c :: z) = ⟨k, 1, v⟩ :: c :: z := by
  simp [insertCell, h]

theorem insertCell_eq {k : Key} {v : Int} {c : Cell} {z : List Cell} (h : k = c.k) :
    insertCell k v (c :: z) = ⟨k, c.n + 1, c.s + v⟩ :: z := by
  subst h; simp [insertCell, klt_irrefl]

theorem insertCell_gt {k : Key} {v : Int} {c : Cell} {z : List Cell} (h : klt c.k k) :
    insertCell k v (c :: z) = c :: insertCell k v z := by
  have h1 := klt_asymm h
  have h2 : k ≠ c.k := fun e => klt_ne h e.symm
  simp [insertCell, h1, h2]

theorem insertCell_comm (k : Key) (v : Int) (k' : Key) (v' : Int) (z : List Cell) :
    insertCell k v (insertCell k' v' z) = insertCell k' v' (insertCell k v z) := by
  induction z with
  | nil =>
    have e1 : ∀ (k : Key) (v : Int), insertCell k v [] = [⟨k, 1, v⟩] := fun _ _ => rfl
    rw [e1, e1]
    rcases klt_tri k k' with h | h | h
    · rw [insertCell_lt (c := ⟨k', 1, v'⟩) h, insertCell_gt (c := ⟨k, 1, v⟩) h, e1]
    · subst h
      rw [insertCell_eq (c := ⟨k, 1, v'⟩) rfl, insertCell_eq (c := ⟨k, 1, v⟩) rfl]
      simp only [Int.add_comm]
    · rw [insertCell_gt (c := ⟨k', 1, v'⟩) h, insertCell_lt (c := ⟨k, 1, v⟩) h, e1]
  | cons c z ih =>
    rcases klt_tri k c.k with h1 | h1 | h1 <;> rcases klt_tri k' c.k with h2 | h2 | h2
    · rw [insertCell_lt h2, insertCell_lt h1]
      rcases klt_tri k k' with h | h | h
      · rw [insertCell_lt (c := ⟨k', 1, v'⟩) h, insertCell_gt (c := ⟨k, 1, v⟩) h, insertCell_lt h2]
      · subst h
        rw [insertCell_eq (c := ⟨k, 1, v'⟩) rfl, insertCell_eq (c := ⟨k, 1, v⟩) rfl]
        simp only [Int.add_comm]
      · rw [insertCell_gt (c := ⟨k', 1, v'⟩) h, insertCell_lt (c := ⟨k, 1, v⟩) h, insertCell_lt h1]
    · subst h2
      rw [insertCell_eq rfl, insertCell_lt h1, insertCell_lt (c := ⟨c.k, c.n + 1, c.s + v'⟩) h1,
        insertCell_gt (c := ⟨k, 1, v⟩) h1, insertCell_eq rfl]
    · have h := klt_trans h1 h2
      rw [insertCell_gt h2, insertCell_lt h1, insertCell_lt h1, insertCell_gt (c := ⟨k, 1, v⟩) h,
        insertCell_gt h2]
    · subst h1
      rw [insertCell_eq rfl, insertCell_lt h2, insertCell_lt (c := ⟨c.k, c.n + 1, c.s + v⟩) h2,
        insertCell_gt (c := ⟨k', 1, v'⟩) h2, insertCell_eq rfl]
    · subst h1; subst h2
      rw [insertCell_eq rfl, insertCell_eq rfl, insertCell_eq (c := ⟨c.k, c.n + 1, c.s + v'⟩) rfl,
        insertCell_eq (c := ⟨c.k, c.n + 1, c.s + v⟩) rfl]
      simp only [Int.add_assoc, Int.add_comm v v']
    · subst h1
      rw [insertCell_gt h2, insertCell_eq rfl, insertCell_eq rfl,
        insertCell_gt (c := ⟨c.k, c.n + 1, c.s + v⟩) h2]
    · have h := klt_trans h2 h1
      rw [insertCell_lt h2, insertCell_gt h1, insertCell_gt (c := ⟨k', 1, v'⟩) h, insertCell_gt h1,
        insertCell_lt h2]
    · subst h2
      rw [insertCell_eq rfl, insertCell_gt h1, insertCell_gt (c := ⟨c.k, c.n + 1, c.s + v'⟩) h1,
        insertCell_eq rfl]
    · rw [insertCell_gt h2, insertCell_gt h1, insertCell_gt h1, insertCell_gt h2, ih]

/-- **order independence of grouping**: the aggregate depends on the multiset of records only -/
theorem groupCells_perm {l₁ l₂ : List (Key × Int)} (h : l₁.Perm l₂) : groupCells l₁ = groupCells l₂ := by
  unfold groupCells
  exact h.foldr_eq' (fun x _ y _ z => insertCell_comm y.1 y.2 x.1 x.2 z) []

/-- keys strictly increasing (hence pairwise distinct) -/
def SortedCells (l : List Cell) : Prop := l.Pairwise fun a b => klt a.k b.k

theorem mem_insertCell {k : Key} {v : Int} {l : List Cell} {c : Cell} (h : c ∈ insertCell k v l) :
    c.k = k ∨ c ∈ l := by
  induction l with
  | nil => simp [insertCell] at h; left; rw [h]
  | cons d l ih =>
    unfold insertCell at h
    split at h
    · rcases List.mem_cons.mp h with h | h
      · left; rw [h]
      · right; exact h
    · split at h
      · rcases List.mem_cons.mp h with h | h
        · left; rw [h]
        · right; exact List.mem_cons_of_mem _ h
      · rcases List.mem_cons.mp h with h | h
        · right; rw [h]; exact List.mem_cons_self
        · rcases ih h with h | h
          · left; exact h
          · right; exact List.mem_cons_of_mem _ h

theorem insertCell_sorted {k : Key} {v : Int} {l : List Cell} (h : SortedCells l) :
    SortedCells (insertCell k v l) := by
  induction l with
  | nil => simp [insertCell, SortedCells]
  | cons d l ih =>
    have hd : ∀ {c}, c ∈ l → klt d.k c.k := fun hc => List.rel_of_pairwise_cons h hc
    have hl := List.Pairwise.of_cons h
    rcases klt_tri k d.k with h1 | h1 | h1
    · rw [insertCell_lt h1]
      refine List.Pairwise.cons ?_ h
      intro c hc
      rcases List.mem_cons.mp hc with e | hc
      · rw [e]; exact h1
      · exact klt_trans h1 (hd hc)
    · rw [insertCell_eq h1]
      refine List.Pairwise.cons ?_ hl
      intro c hc
      have := hd hc
      rw [← h1] at this; exact this
    · rw [insertCell_gt h1]
      refine List.Pairwise.cons ?_ (ih hl)
      intro c hc
      rcases mem_insertCell hc with e | hc
      · rw [e]; exact h1
      · exact hd hc

/-- the aggregated table is strictly sorted by `(bin1, bin2)`: every pixel appears once -/
theorem groupCells_sorted (l : List (Key × Int)) : SortedCells (groupCells l) := by
  induction l with
  | nil => simp [groupCells, SortedCells]
  | cons x l ih => exact insertCell_sorted ih

theorem sortedCells_nodup {l : List Cell} (h : SortedCells l) : (l.map (·.k)).Nodup := by
  unfold SortedCells at h
  rw [List.Nodup, List.pairwise_map]
  exact h.imp fun hab => klt_ne hab

theorem countAt_insertCell (k : Key) (v : Int) (l : List Cell) (k' : Key) :
    countAt (insertCell k v l) k' = countAt l k' + if k = k' then 1 else 0 := by
  induction l with
  | nil => simp [insertCell, countAt]
  | cons d l ih =>
    unfold insertCell
    split
    · simp only [countAt]; omega
    · split
      · rename_i h; subst h
        simp only [countAt]
        split <;> omega
      · simp only [countAt, ih]; omega

theorem sumAt_insertCell (k : Key) (v : Int) (l : List Cell) (k' : Key) :
    sumAt (insertCell k v l) k' = sumAt l k' + if k = k' then v else 0 := by
  induction l with
  | nil => simp [insertCell, sumAt]
  | cons d l ih =>
    unfold insertCell
    split
    · simp only [sumAt]; omega
    · split
      · rename_i h; subst h
        simp only [sumAt]
        split <;> omega
      · simp only [sumAt, ih]; omega

theorem totalCount_insertCell (k : Key) (v : Int) (l : List Cell) :
    totalCount (insertCell k v l) = totalCount l + 1 := by
  induction l with
  | nil => simp [insertCell, totalCount]
  | cons d l ih =>
    unfold insertCell
    split
    · simp only [totalCount]; omega
    · split
      · simp only [totalCount]; omega
      · simp only [totalCount, ih]; omega

/-- sum of the values recorded under key `k` -/
def sumOf : List (Key × Int) → Key → Int
  | [], _ => 0
  | kv :: rest, k => (if kv.1 = k then kv.2 else 0) + sumOf rest k

/-- **count once**: the count stored under a key is the number of records mapped to it -/
theorem countAt_groupCells (l : List (Key × Int)) (k : Key) :
    countAt (groupCells l) k = l.countP (fun kv => kv.1 = k) := by
  induction l with
  | nil => simp [groupCells, countAt]
  | cons x l ih =>
    have : groupCells (x :: l) = insertCell x.1 x.2 (groupCells l) := rfl
    rw [this, countAt_insertCell, ih, List.countP_cons]
    simp

theorem sumAt_groupCells (l : List (Key × Int)) (k : Key) :
    sumAt (groupCells l) k = sumOf l k := by
  induction l with
  | nil => simp [groupCells, sumAt, sumOf]
  | cons x l ih =>
    have : groupCells (x :: l) = insertCell x.1 x.2 (groupCells l) := rfl
    rw [this, sumAt_insertCell, ih]
    simp only [sumOf]; omega

/-- **the total equals the number of records** -/
theorem totalCount_groupCells (l : List (Key × Int)) : totalCount (groupCells l) = l.length := by
  induction l with
  | nil => simp [groupCells, totalCount]
  | cons x l ih =>
    have : groupCells (x :: l) = insertCell x.1 x.2 (groupCells l) := rfl
    rw [this, totalCount_insertCell, ih]; simp

/-- a key is listed iff some record maps to it, and then with a positive count -/
theorem countAt_pos_of_mem {l : List Cell} (hn : ∀ c ∈ l, 1 ≤ c.n) {c : Cell} (hc : c ∈ l) :
    1 ≤ countAt l c.k := by
  induction l with
  | nil => simp at hc
  | cons d l ih =>
    simp only [countAt]
    rcases List.mem_cons.mp hc with e | h
    · subst e; simp; have := hn c List.mem_cons_self; omega
    · have := ih (fun c hc => hn c (List.mem_cons_of_mem _ hc)) h; omega

theorem insertCell_pos {k : Key} {v : Int} {l : List Cell} (hn : ∀ c ∈ l, 1 ≤ c.n) :
    ∀ c ∈ insertCell k v l, 1 ≤ c.n := by
  induction l with
  | nil => intro c hc; simp [insertCell] at hc; subst hc; simp
  | cons d l ih =>
    intro c hc
    unfold insertCell at hc
    split at hc
    · rcases List.mem_cons.mp hc with e | h
      · subst e; simp
      · exact hn c h
    · split at hc
      · rcases List.mem_cons.mp hc with e | h
        · subst e; simp
        · exact hn c (List.mem_cons_of_mem _ h)
      · rcases List.mem_cons.mp hc with e | h
        · subst e; exact hn _ List.mem_cons_self
        · exact ih (fun c hc => hn c (List.mem_cons_of_mem _ hc)) c h

theorem groupCells_pos (l : List (Key × Int)) : ∀ c ∈ groupCells l, 1 ≤ c.n := by
  induction l with
  | nil => intro c hc; simp [groupCells] at hc
  | cons x l ih => exact insertCell_pos ih

theorem countAt_zero_of_not_mem {l : List Cell} {k : Key} (h : ∀ c ∈ l, c.k ≠ k) : countAt l k = 0 := by
  induction l with
  | nil => rfl
  | cons d l ih =>
    simp only [countAt]
    have := h d List.mem_cons_self
    simp [this, ih (fun c hc => h c (List.mem_cons_of_mem _ hc))]

/-- no pixel is invented and none is lost: `k` is an output key iff a record maps to `k` -/
theorem mem_groupCells_keys (l : List (Key × Int)) (k : Key) :
    (∃ c ∈ groupCells l, c.k = k) ↔ ∃ kv ∈ l, kv.1 = k := by
  constructor
  · rintro ⟨c, hc, rfl⟩
    have h1 := countAt_pos_of_mem (groupCells_pos l) hc
    rw [countAt_groupCells] at h1
    have : 0 < l.countP (fun kv => kv.1 = c.k) := by omega
    obtain ⟨kv, hkv, hp⟩ := List.countP_pos_iff.mp this
    exact ⟨kv, hkv, by simpa using hp⟩
  · rintro ⟨kv, hkv, rfl⟩
    apply Classical.byContradiction
    intro hno
    have : countAt (groupCells l) kv.1 = 0 :=
      countAt_zero_of_not_mem (fun c hc e => hno ⟨c, hc, e⟩)
    rw [countAt_groupCells] at this
    have h2 : 0 < l.countP (fun x => x.1 = kv.1) := List.countP_pos_iff.mpr ⟨kv, hkv, by simp⟩
    omega

/-! ## bin assignment -/

theorem tiles_start_ge {g : List Bin} : ∀ {s : Nat}, TilesFrom s g → ∀ b ∈ g, s ≤ b.start := by
  induction g with
  | nil => intro s _ b hb; simp at hb
  | cons x rest ih =>
    intro s h b hb
    obtain ⟨h1, h2, h3⟩ := h
    rcases List.mem_cons.mp hb with e | hb
    · subst e; omega
    · have := ih h3 b hb; omega

theorem lastStop_cons_cons (x y : Bin) (r : List Bin) : lastStop (x :: y :: r) = lastStop (y :: r) := by
  simp [lastStop, List.getLast?_cons_cons]

theorem lastStop_getElem? {g : List Bin} {x : Bin} (h : g[g.length - 1]? = some x) :
    lastStop g = x.stop := by
  unfold lastStop
  rw [List.getLast?_eq_getElem?]
  simp only [List.length_map, List.getElem?_map, h, Option.map_some, Option.getD_some]

/-- the sorted-starts lemma in the form needed: in a gap-free tiling, the number of starts `≤ p`
minus one is the index of the bin that contains `p` -/
theorem tiles_locate {g : List Bin} : ∀ {s : Nat}, g ≠ [] → TilesFrom s g → ∀ {p : Nat}, s ≤ p →
    p < lastStop g →
    ∃ x, g[g.countP (fun b => decide (b.start ≤ p)) - 1]? = some x ∧
      1 ≤ g.countP (fun b => decide (b.start ≤ p)) ∧ x.start ≤ p ∧ p < x.stop := by
  induction g with
  | nil => intro s h; exact absurd rfl h
  | cons x rest ih =>
    intro s _ ht p hsp hpl
    obtain ⟨h1, h2, h3⟩ := ht
    have hx : x.start ≤ p := by omega
    have hc : ∀ l : List Bin, (x :: l).countP (fun b => decide (b.start ≤ p))
        = l.countP (fun b => decide (b.start ≤ p)) + 1 := by
      intro l; rw [List.countP_cons]; simp [hx]
    rw [hc]
    cases rest with
    | nil =>
      refine ⟨x, by simp, by simp, by omega, ?_⟩
      simpa [lastStop] using hpl
    | cons y r =>
      rw [lastStop_cons_cons] at hpl
      by_cases hp : p < x.stop
      · have hz : (y :: r).countP (fun b => decide (b.start ≤ p)) = 0 := by
          rw [List.countP_eq_zero]
          intro b hb
          have := tiles_start_ge h3 b hb
          simp; omega
        rw [hz]
        exact ⟨x, by simp, by omega, by omega, hp⟩
      · obtain ⟨z, hz1, hz2, hz3, hz4⟩ := ih (by simp) h3 (p := p) (by omega) hpl
        refine ⟨z, ?_, by omega, hz3, hz4⟩
        have e : (y :: r).countP (fun b => decide (b.start ≤ p)) + 1 - 1
            = ((y :: r).countP (fun b => decide (b.start ≤ p)) - 1) + 1 := by omega
        rw [e, List.getElem?_cons_succ]
        exact hz1

theorem tiles_before {g : List Bin} : ∀ {s : Nat}, TilesFrom s g → ∀ {j k : Nat} {a b : Bin},
    g[j]? = some a → g[k]? = some b → j < k → a.stop ≤ b.start := by
  induction g with
  | nil => intro s _ j k a b h; simp at h
  | cons x rest ih =>
    intro s ht j k a b hj hk hjk
    obtain ⟨_, _, h3⟩ := ht
    cases k with
    | zero => omega
    | succ k' =>
      rw [List.getElem?_cons_succ] at hk
      cases j with
      | zero =>
        simp at hj; subst hj
        exact tiles_start_ge h3 b (List.mem_of_getElem? hk)
      | succ j' =>
        rw [List.getElem?_cons_succ] at hj
        exact ih h3 hj hk (by omega)

theorem uniform_get {b L : Nat} {g : List Bin} : ∀ {k0 : Nat}, UniformFrom b L k0 g →
    ∀ {i : Nat} {x : Bin}, g[i]? = some x → x.start = (k0 + i) * b ∧ x.stop = min ((k0 + i + 1) * b) L := by
  induction g with
  | nil => intro k0 _ i x h; simp at h
  | cons y rest ih =>
    intro k0 hu i x hi
    obtain ⟨h1, h2, h3⟩ := hu
    cases i with
    | zero => simp at hi; subst hi; simp [h1, h2]
    | succ i' =>
      rw [List.getElem?_cons_succ] at hi
      have := ih h3 hi
      have e : k0 + 1 + i' = k0 + (i' + 1) := by omega
      rw [e] at this; exact this

/-- fixed-width table: bin `p / b` of the chromosome contains `p`, and exists -/
theorem uniform_locate {b : Nat} {g : List Bin} (hv : ValidChrom g) (hu : UniformChrom b g) {p : Nat}
    (hp : p < lastStop g) : 0 < b ∧ ∃ x, g[p / b]? = some x ∧ x.start ≤ p ∧ p < x.stop := by
  obtain ⟨hne, ht⟩ := hv
  unfold UniformChrom at hu
  have hb : 0 < b := by
    cases g with
    | nil => exact absurd rfl hne
    | cons x rest =>
      obtain ⟨h1, h2, _⟩ := hu
      obtain ⟨_, t2, _⟩ := ht
      rcases Nat.eq_zero_or_pos b with h | h
      · subst h; simp at h1 h2; omega
      · exact h
  refine ⟨hb, ?_⟩
  have hlen : 0 < g.length := List.length_pos_iff.mpr hne
  have hlast : g[g.length - 1]? = some (g[g.length - 1]'(by omega)) := List.getElem?_eq_getElem _
  have hL := lastStop_getElem? hlast
  have hget := (uniform_get hu hlast).2
  have e : 0 + (g.length - 1) + 1 = g.length := by omega
  rw [e, ← hL] at hget
  have hLn : lastStop g ≤ g.length * b := by omega
  have hidx : p / b < g.length := by
    rw [Nat.div_lt_iff_lt_mul hb]; omega
  refine ⟨g[p / b], List.getElem?_eq_getElem _, ?_, ?_⟩
  · have := (uniform_get hu (List.getElem?_eq_getElem hidx)).1
    rw [this]; simp only [Nat.zero_add]; exact Nat.div_mul_le_self p b
  · have := (uniform_get hu (List.getElem?_eq_getElem hidx)).2
    rw [this]; simp only [Nat.zero_add]
    have h1 := Nat.div_add_mod p b
    have h2 := Nat.mod_lt p hb
    have h3 : (p / b + 1) * b = b * (p / b) + b := by rw [Nat.add_mul, Nat.mul_comm]; simp
    omega

/-! ### position of a chromosome's bins inside the table -/

theorem sorted_split {bins : BinTable} (hs : ChromSorted bins) (c : Nat) :
    bins = bins.filter (fun b => decide (b.chrom < c)) ++ bins.filter (fun b => decide (b.chrom = c))
      ++ bins.filter (fun b => decide (c < b.chrom)) := by
  induction bins with
  | nil => rfl
  | cons x rest ih =>
    have hx : ∀ y ∈ rest, x.chrom ≤ y.chrom := fun y hy => List.rel_of_pairwise_cons hs hy
    have ih' := ih (List.Pairwise.of_cons hs)
    rcases Nat.lt_trichotomy x.chrom c with h | h | h
    · have h2 : ¬ x.chrom = c := by omega
      have h3 : ¬ c < x.chrom := by omega
      simp only [List.filter_cons, h, h2, h3, decide_true, decide_false, if_true, if_false,
        Bool.false_eq_true, List.cons_append]
      exact congrArg _ ih'
    · subst h
      have hnil : rest.filter (fun b => decide (b.chrom < x.chrom)) = [] := by
        rw [List.filter_eq_nil_iff]; intro y hy; have := hx y hy; simp; omega
      rw [hnil] at ih'
      simp only [List.filter_cons, Nat.lt_irrefl, decide_true, decide_false, if_true,
        Bool.false_eq_true, if_false, hnil, List.nil_append, List.cons_append] at ih' ⊢
      exact congrArg _ ih'
    · have h1 : ¬ x.chrom < c := by omega
      have h2 : ¬ x.chrom = c := by omega
      have hnil : rest.filter (fun b => decide (b.chrom < c)) = [] := by
        rw [List.filter_eq_nil_iff]; intro y hy; have := hx y hy; simp; omega
      have hnil2 : rest.filter (fun b => decide (b.chrom = c)) = [] := by
        rw [List.filter_eq_nil_iff]; intro y hy; have := hx y hy; simp; omega
      rw [hnil, hnil2] at ih'
      simp only [List.filter_cons, h, h1, h2, decide_true, decide_false, if_true, if_false,
        Bool.false_eq_true, hnil, hnil2, List.nil_append] at ih' ⊢
      exact congrArg _ ih'

theorem groupOf_eq_filter (bins : BinTable) (c : Nat) :
    groupOf bins c = bins.filter (fun b => decide (b.chrom = c)) := rfl

theorem chromOff_eq_length (bins : BinTable) (c : Nat) :
    chromOff bins c = (bins.filter (fun b => decide (b.chrom < c))).length := by
  unfold chromOff; rw [List.countP_eq_length_filter]

/-- in a table sorted by chromosome, row `k` of chromosome `c`'s group is row `chromOff c + k` of the table -/
theorem group_getElem? {bins : BinTable} (hs : ChromSorted bins) (c k : Nat) {x : Bin}
    (h : (groupOf bins c)[k]? = some x) : bins[chromOff bins c + k]? = some x := by
  have hk : k < (groupOf bins c).length := by
    rcases Nat.lt_or_ge k (groupOf bins c).length with h' | h'
    · exact h'
    · rw [List.getElem?_eq_none h'] at h; simp at h
  have e := sorted_split hs c
  rw [congrArg (fun l => l[chromOff bins c + k]?) e, chromOff_eq_length, List.append_assoc,
    List.getElem?_append_right (by omega)]
  simp only [Nat.add_sub_cancel_left]
  rw [List.getElem?_append_left (by rw [← groupOf_eq_filter]; exact hk), ← groupOf_eq_filter]
  exact h

/-- L0 is met by the `k`-th bin of the chromosome's group when it contains `p` -/
theorem binOfNat_of_group {bins : BinTable} (hs : ChromSorted bins) {c p k : Nat} {x : Bin}
    (ht : TilesFrom 0 (groupOf bins c)) (hk : (groupOf bins c)[k]? = some x)
    (h1 : x.start ≤ p) (h2 : p < x.stop) : binOfNat bins c p = some (chromOff bins c + k) := by
  unfold binOfNat
  rw [List.findIdx?_eq_some_iff_getElem]
  have hget := group_getElem? hs c k hk
  have hlt : chromOff bins c + k < bins.length := by
    rcases Nat.lt_or_ge (chromOff bins c + k) bins.length with h' | h'
    · exact h'
    · rw [List.getElem?_eq_none h'] at hget; simp at hget
  have hxc : x.chrom = c := by
    have := List.mem_of_getElem? hk
    unfold groupOf at this
    simpa using (List.mem_filter.mp this).2
  refine ⟨hlt, ?_, ?_⟩
  · have : bins[chromOff bins c + k] = x := by
      have := List.getElem?_eq_getElem hlt
      rw [hget] at this; exact (Option.some.inj this).symm
    rw [this]; simp [hxc, h1, h2]
  · intro j hj
    -- an earlier row either belongs to a smaller chromosome or is an earlier bin of the same one
    rcases Nat.lt_or_ge j (chromOff bins c) with hjl | hjl
    · have e := sorted_split hs c
      have hj' : bins[j]? = some (bins[j]'(by omega)) := List.getElem?_eq_getElem _
      rw [congrArg (fun l => l[j]?) e, List.append_assoc,
        List.getElem?_append_left (by rw [← chromOff_eq_length]; exact hjl)] at hj'
      have := (List.mem_filter.mp (List.mem_of_getElem? hj')).2
      simp only [decide_eq_true_eq] at this
      have hne : ¬ (bins[j]'(by omega)).chrom = c := by omega
      simp [hne]
    · obtain ⟨j', rfl⟩ : ∃ j', j = chromOff bins c + j' := ⟨j - chromOff bins c, by omega⟩
      have hj'k : j' < k := by omega
      have hkl : k < (groupOf bins c).length := by
        rcases Nat.lt_or_ge k (groupOf bins c).length with h' | h'
        · exact h'
        · rw [List.getElem?_eq_none h'] at hk; simp at hk
      have hgj : (groupOf bins c)[j']? = some ((groupOf bins c)[j']'(by omega)) :=
        List.getElem?_eq_getElem _
      have hb := group_getElem? hs c j' hgj
      have := tiles_before ht hgj hk hj'k
      have e2 : bins[chromOff bins c + j']'(by omega) = (groupOf bins c)[j']'(by omega) := by
        have h' := List.getElem?_eq_getElem (l := bins) (i := chromOff bins c + j') (by omega)
        rw [hb] at h'; exact (Option.some.inj h').symm
      rw [e2]
      have : ¬ p < ((groupOf bins c)[j']'(by omega)).stop := by omega
      simp [this]

/-- soundness of the L0 definition itself: a reported bin is a row of the table, lies on chromosome
`c`, and contains the position -/
theorem binOf_sound {bins : BinTable} {c : Nat} {pos i : Int} (h : binOf bins c pos = some i) :
    0 ≤ pos ∧ 0 ≤ i ∧ ∃ b, bins[i.toNat]? = some b ∧ b.chrom = c ∧ (b.start : Int) ≤ pos ∧ pos < (b.stop : Int) := by
  unfold binOf at h
  split at h
  · simp at h
  · rename_i hp
    simp only [Option.map_eq_some_iff] at h
    obtain ⟨k, hk, rfl⟩ := h
    unfold binOfNat at hk
    rw [List.findIdx?_eq_some_iff_getElem] at hk
    obtain ⟨hlt, hp1, _⟩ := hk
    simp only [Bool.and_eq_true, decide_eq_true_eq] at hp1
    refine ⟨by omega, by simp, bins[k], by simp [List.getElem?_eq_getElem hlt], hp1.1.1, ?_, ?_⟩ <;> omega

/-! ### the two assignment paths meet L0 -/

theorem mem_chromOrder {bins : BinTable} {c : Nat} : c ∈ chromOrder bins ↔ ∃ b ∈ bins, b.chrom = c := by
  induction bins with
  | nil => simp [chromOrder]
  | cons x rest ih =>
    simp only [chromOrder, List.mem_cons, List.mem_filter, ih, decide_eq_true_eq]
    constructor
    · rintro (h | ⟨⟨b, hb, hc⟩, _⟩)
      · exact ⟨x, Or.inl rfl, h.symm⟩
      · exact ⟨b, Or.inr hb, hc⟩
    · rintro ⟨b, hb | hb, hc⟩
      · left; rw [← hc, hb]
      · by_cases h : c = x.chrom
        · left; exact h
        · right; exact ⟨⟨b, hb, hc⟩, h⟩

theorem groupOf_mem_groups {bins : BinTable} {c : Nat} (h : groupOf bins c ≠ []) :
    groupOf bins c ∈ groups bins := by
  obtain ⟨b, hb⟩ := List.exists_mem_of_ne_nil _ h
  unfold groupOf at hb
  have hb' := List.mem_filter.mp hb
  unfold groups
  exact List.mem_map.mpr ⟨c, mem_chromOrder.mpr ⟨b, hb'.1, by simpa using hb'.2⟩, rfl⟩

theorem group_ne_nil_of_len {bins : BinTable} {c : Nat} (h : 0 < chromLen bins c) : groupOf bins c ≠ [] := by
  intro e; unfold chromLen at h; rw [e] at h; simp [lastStop] at h

theorem ssRight_starts (g : List Bin) (p : Nat) :
    ssRight (g.map Bin.start) p = g.countP (fun b => decide (b.start ≤ p)) := by
  unfold ssRight; rw [List.countP_map]; rfl

/-- **binAssign_var_correct**: on a valid chromosome of a chromosome-sorted table, for
`0 ≤ pos < length` the variable-width assignment `offset + searchsorted(starts, pos, right) − 1` is the
bin of chromosome `c` with `start ≤ pos < stop` -/
theorem binAssign_var_correct {bins : BinTable} (hs : ChromSorted bins) {c : Nat}
    (hv : ValidChrom (groupOf bins c)) {pos : Int} (h0 : 0 ≤ pos) (hL : pos < (chromLen bins c : Int)) :
    binOf bins c pos = some (assignVar (chromOff bins c) ((groupOf bins c).map Bin.start) pos) := by
  obtain ⟨p, rfl⟩ := Int.eq_ofNat_of_zero_le h0
  have hp : p < lastStop (groupOf bins c) := by unfold chromLen at hL; omega
  obtain ⟨x, hx1, hx2, hx3, hx4⟩ := tiles_locate hv.1 hv.2 (p := p) (Nat.zero_le _) hp
  have hb := binOfNat_of_group hs hv.2 hx1 hx3 hx4
  have hneg : ¬ ((p : Int) < 0) := by omega
  unfold binOf assignVar ssRightI
  simp only [hneg, if_false, Int.toNat_natCast, hb, Option.map_some, ssRight_starts]
  congr 1
  simp only [Int.ofNat_eq_natCast]
  omega

/-- **binAssign_fixed_correct**: on a chromosome tiled uniformly with `b` (what a reported bin size
means, `C20.getBinsize_truthful`), for `0 ≤ pos < length` the fast path `offset + pos // b` is the bin
of chromosome `c` with `start ≤ pos < stop`; in particular `pos // b` is below the chromosome's number
of bins -/
theorem binAssign_fixed_correct {bins : BinTable} (hs : ChromSorted bins) {c b : Nat}
    (hv : ValidChrom (groupOf bins c)) (hu : UniformChrom b (groupOf bins c)) {pos : Int}
    (h0 : 0 ≤ pos) (hL : pos < (chromLen bins c : Int)) :
    binOf bins c pos = some (assignFixed (chromOff bins c) b pos) ∧
      pos / (b : Int) < ((groupOf bins c).length : Int) := by
  obtain ⟨p, rfl⟩ := Int.eq_ofNat_of_zero_le h0
  have hp : p < lastStop (groupOf bins c) := by unfold chromLen at hL; omega
  obtain ⟨hb, x, hx1, hx3, hx4⟩ := uniform_locate hv hu hp
  have hb' := binOfNat_of_group hs hv.2 hx1 hx3 hx4
  have hneg : ¬ ((p : Int) < 0) := by omega
  have hlt : p / b < (groupOf bins c).length := by
    rcases Nat.lt_or_ge (p / b) (groupOf bins c).length with h' | h'
    · exact h'
    · rw [List.getElem?_eq_none h'] at hx1; simp at hx1
  constructor
  · unfold binOf assignFixed
    simp only [hneg, if_false, Int.toNat_natCast, hb', Option.map_some]
    congr 1
  · rw [← Int.natCast_ediv]; omega

theorem assignBin_some (bins : BinTable) (b c : Nat) (pos : Int) :
    assignBin bins (some b) c pos = assignFixed (chromOff bins c) b pos := rfl

theorem assignBin_none (bins : BinTable) (c : Nat) (pos : Int) :
    assignBin bins none c pos = assignVar (chromOff bins c) ((groupOf bins c).map Bin.start) pos := rfl

/-- both paths, as `_sanitize_records` selects them -/
theorem assign_eq_binOf {bins : BinTable} (hT : TableOK bins) {binsize : Option Nat}
    (hb : ∀ b, binsize = some b → ∀ g ∈ groups bins, UniformChrom b g) {c : Nat} {pos : Int}
    (h0 : 0 ≤ pos) (hL : pos < (chromLen bins c : Int)) :
    binOf bins c pos = some (assignBin bins binsize c pos) := by
  have hne : groupOf bins c ≠ [] := group_ne_nil_of_len (by omega)
  have hg := groupOf_mem_groups hne
  have hv := hT.2 _ hg
  cases binsize with
  | none => rw [assignBin_none]; exact binAssign_var_correct hT.1 hv h0 hL
  | some b => rw [assignBin_some]; exact (binAssign_fixed_correct hT.1 hv (hb b rfl _ hg) h0 hL).1

/-- non-vacuity of the hypotheses of `binAssign_*`: a table with a short last bin, a one-bin
chromosome and a variable-width chromosome -/
example : TableOK [⟨0, 0, 4⟩, ⟨0, 4, 8⟩, ⟨0, 8, 9⟩, ⟨1, 0, 3⟩, ⟨2, 0, 1⟩, ⟨2, 1, 6⟩] ∧
    UniformChrom 4 (groupOf [⟨0, 0, 4⟩, ⟨0, 4, 8⟩, ⟨0, 8, 9⟩, ⟨1, 0, 3⟩, ⟨2, 0, 1⟩, ⟨2, 1, 6⟩] 0) ∧
    binOf [⟨0, 0, 4⟩, ⟨0, 4, 8⟩, ⟨0, 8, 9⟩, ⟨1, 0, 3⟩, ⟨2, 0, 1⟩, ⟨2, 1, 6⟩] 2 5 = some 5 := by
  refine ⟨⟨by decide, ?_⟩, by decide, by decide⟩
  intro g hg
  have : g ∈ [[(⟨0, 0, 4⟩ : Bin), ⟨0, 4, 8⟩, ⟨0, 8, 9⟩], [⟨1, 0, 3⟩], [⟨2, 0, 1⟩, ⟨2, 1, 6⟩]] := by
    simpa [groups, chromOrder, groupOf] using hg
  simp at this
  rcases this with h | h | h <;> subst h <;> decide

/-! ### monotonicity of the assignment (what `reflect` relies on) -/

theorem chromOff_succ (bins : BinTable) (c : Nat) :
    chromOff bins (c + 1) = chromOff bins c + (groupOf bins c).length := by
  unfold chromOff groupOf
  rw [← List.countP_eq_length_filter]
  induction bins with
  | nil => rfl
  | cons x rest ih =>
    simp only [List.countP_cons, ih, decide_eq_true_eq]
    rcases Nat.lt_trichotomy x.chrom c with h | h | h
    · have h1 : x.chrom < c + 1 := by omega
      have h2 : ¬ x.chrom = c := by omega
      simp [h, h1, h2]; omega
    · subst h
      simp; omega
    · have h1 : ¬ x.chrom < c + 1 := by omega
      have h2 : ¬ x.chrom < c := by omega
      have h3 : ¬ x.chrom = c := by omega
      simp [h1, h2, h3]

theorem chromOff_mono (bins : BinTable) {c c' : Nat} (h : c ≤ c') : chromOff bins c ≤ chromOff bins c' := by
  unfold chromOff
  apply List.countP_mono_left
  intro x _ hx
  simp only [decide_eq_true_eq] at hx ⊢
  omega

theorem uniform_len {b : Nat} {g : List Bin} (hv : ValidChrom g) (hu : UniformChrom b g) :
    0 < b ∧ lastStop g ≤ g.length * b := by
  obtain ⟨hne, ht⟩ := hv
  have hlen : 0 < g.length := List.length_pos_iff.mpr hne
  have hlast : g[g.length - 1]? = some (g[g.length - 1]'(by omega)) := List.getElem?_eq_getElem _
  have hL := lastStop_getElem? hlast
  have hget := (uniform_get hu hlast).2
  have e : 0 + (g.length - 1) + 1 = g.length := by omega
  rw [e, ← hL] at hget
  refine ⟨?_, by omega⟩
  cases g with
  | nil => exact absurd rfl hne
  | cons x rest =>
    obtain ⟨h1, h2, _⟩ := hu
    obtain ⟨_, t2, _⟩ := ht
    rcases Nat.eq_zero_or_pos b with h | h
    · subst h; simp at h1 h2; omega
    · exact h

/-- every in-range (and, as the code stands, at-length) position is assigned into
`[offset c, offset (c+1)]` -/
theorem assign_bounds {bins : BinTable} (hT : TableOK bins) {binsize : Option Nat}
    (hb : ∀ b, binsize = some b → ∀ g ∈ groups bins, UniformChrom b g) {c : Nat}
    (hne : groupOf bins c ≠ []) {pos : Int} (h0 : 0 ≤ pos) (hL : pos ≤ (chromLen bins c : Int)) :
    (chromOff bins c : Int) ≤ assignBin bins binsize c pos ∧
      assignBin bins binsize c pos ≤ (chromOff bins (c + 1) : Int) := by
  have hg := groupOf_mem_groups hne
  have hv := hT.2 _ hg
  obtain ⟨p, rfl⟩ := Int.eq_ofNat_of_zero_le h0
  have hp : p ≤ lastStop (groupOf bins c) := by unfold chromLen at hL; omega
  rw [chromOff_succ]
  cases binsize with
  | some b =>
    obtain ⟨hbpos, hlen⟩ := uniform_len hv (hb b rfl _ hg)
    have h1 : p / b ≤ (groupOf bins c).length := by
      apply Nat.div_le_of_le_mul
      rw [Nat.mul_comm]; omega
    rw [assignBin_some]
    unfold assignFixed
    have hk : (p : Int) / (b : Int) = ((p / b : Nat) : Int) := (Int.natCast_ediv p b).symm
    rw [hk]
    generalize p / b = k at h1 ⊢
    constructor <;> omega
  | none =>
    rw [assignBin_none]
    unfold assignVar ssRightI
    have hneg : ¬ ((p : Int) < 0) := by omega
    simp only [hneg, if_false, Int.toNat_natCast, ssRight_starts]
    have hle : (groupOf bins c).countP (fun b => decide (b.start ≤ p)) ≤ (groupOf bins c).length :=
      List.countP_le_length
    have hge : 1 ≤ (groupOf bins c).countP (fun b => decide (b.start ≤ p)) := by
      obtain ⟨hne', ht⟩ := hv
      cases hgc : groupOf bins c with
      | nil => exact absurd hgc hne'
      | cons x rest =>
        rw [hgc] at ht
        obtain ⟨t1, _, _⟩ := ht
        rw [List.countP_cons]
        have : decide (x.start ≤ p) = true := by simp; omega
        simp [this]
    constructor <;> omega

theorem assign_mono_pos (bins : BinTable) (binsize : Option Nat) (c : Nat) {p q : Int} (h : p ≤ q) :
    assignBin bins binsize c p ≤ assignBin bins binsize c q := by
  cases binsize with
  | some b =>
    rw [assignBin_some, assignBin_some]
    unfold assignFixed
    rcases Nat.eq_zero_or_pos b with hb | hb
    · subst hb; simp
    · have := Int.ediv_le_ediv (c := (b : Int)) (by omega) h
      omega
  | none =>
    rw [assignBin_none, assignBin_none]
    unfold assignVar ssRightI
    by_cases hp : p < 0
    · simp only [hp, if_true]
      split <;> omega
    · have hq : ¬ q < 0 := by omega
      simp only [hp, hq, if_false]
      have : ssRight ((groupOf bins c).map Bin.start) p.toNat ≤ ssRight ((groupOf bins c).map Bin.start) q.toNat := by
        unfold ssRight
        apply List.countP_mono_left
        intro x _ hx
        simp only [decide_eq_true_eq] at hx ⊢
        omega
      omega

/-- **monotonicity**: lexicographically ordered anchors get ordered bins -/
theorem assign_le_of_lex {bins : BinTable} (hT : TableOK bins) {binsize : Option Nat}
    (hb : ∀ b, binsize = some b → ∀ g ∈ groups bins, UniformChrom b g) {c1 c2 : Nat} {a1 a2 : Int}
    (hn1 : groupOf bins c1 ≠ []) (hn2 : groupOf bins c2 ≠ [])
    (h1 : 0 ≤ a1 ∧ a1 ≤ (chromLen bins c1 : Int)) (h2 : 0 ≤ a2 ∧ a2 ≤ (chromLen bins c2 : Int))
    (hlex : c1 < c2 ∨ (c1 = c2 ∧ a1 ≤ a2)) :
    assignBin bins binsize c1 a1 ≤ assignBin bins binsize c2 a2 := by
  rcases hlex with h | ⟨rfl, h⟩
  · have b1 := (assign_bounds hT hb hn1 h1.1 h1.2).2
    have b2 := (assign_bounds hT hb hn2 h2.1 h2.2).1
    have := chromOff_mono bins (show c1 + 1 ≤ c2 by omega)
    omega
  · exact assign_mono_pos bins binsize c1 h

/-! ## the pipeline as a function of the anchors alone -/

theorem decode_anc (o : Opts) (r : Rec) : (decode o r).map Row.anc = anchorOf o.oneBased r := by
  unfold decode anchorOf
  cases r.c1 <;> cases r.c2 <;> simp [Row.anc]

theorem rows_anc (o : Opts) (recs : List Rec) :
    (recs.filterMap (decode o)).map Row.anc = anchors o recs := by
  unfold anchors
  rw [List.map_filterMap]
  congr 1
  funext r
  exact decode_anc o r

theorem any_neg (rows : List Row) : rows.any Row.neg = (rows.map Row.anc).any Anchor.neg := by
  rw [List.any_map]; rfl

theorem any_excess (bins : BinTable) (rows : List Row) :
    rows.any (Row.excess bins) = (rows.map Row.anc).any (Anchor.excess bins) := by
  rw [List.any_map]; rfl

theorem any_tril (rows : List Row) : rows.any Row.isTril = (rows.map Row.anc).any Anchor.lower := by
  rw [List.any_map]; rfl

theorem orient_anc (o : Opts) (r : Row) : (r.orient o).anc = r.anc.upper := by
  unfold Row.orient Anchor.upper
  have : r.isTril = r.anc.lower := rfl
  rw [this]
  split <;> rfl

theorem map_orient_anc (o : Opts) (rows : List Row) :
    (rows.map (Row.orient o)).map Row.anc = (rows.map Row.anc).map Anchor.upper := by
  rw [List.map_map, List.map_map]
  apply List.map_congr_left
  intro r _
  exact orient_anc o r

theorem filter_tril_anc (rows : List Row) :
    (rows.filter fun r => !r.isTril).map Row.anc = (rows.map Row.anc).filter fun a => !a.lower := by
  rw [List.filter_map]; rfl

theorem keyVals_assign (bins : BinTable) (bs : Option Nat) (rows : List Row) :
    keyVals (rows.map (assignRow bins bs)) = (rows.map Row.anc).map (keyOf bins bs) := by
  unfold keyVals
  rw [List.map_map, List.map_map]
  apply List.map_congr_left
  intro r _
  simp only [Function.comp, assignRow, Out.key, Out.val, keyOf, Row.anc]

theorem insertOut_perm (x : Out) (l : List Out) : (insertOut x l).Perm (x :: l) := by
  induction l with
  | nil => exact List.Perm.refl _
  | cons y rest ih =>
    unfold insertOut
    split
    · exact List.Perm.refl _
    · exact (List.Perm.cons y ih).trans (List.Perm.swap x y rest)

theorem sortOuts_perm (l : List Out) : (sortOuts l).Perm l := by
  induction l with
  | nil => exact List.Perm.refl _
  | cons x rest ih =>
    have : sortOuts (x :: rest) = insertOut x (sortOuts rest) := rfl
    rw [this]
    exact (insertOut_perm x _).trans (List.Perm.cons x ih)

theorem sortIf_perm (b : Bool) (l : List Out) : (if b then sortOuts l else l).Perm l := by
  split
  · exact sortOuts_perm l
  · exact List.Perm.refl _

/-- the model's output is sorted when `sort` is requested -/
theorem insertOut_sorted (x : Out) (l : List Out) (h : l.Pairwise fun a b => kle a.key b.key = true) :
    (insertOut x l).Pairwise fun a b => kle a.key b.key = true := by
  induction l with
  | nil => simp [insertOut]
  | cons y rest ih =>
    unfold insertOut
    have hy : ∀ {z}, z ∈ rest → kle y.key z.key = true := fun hz => List.rel_of_pairwise_cons h hz
    split
    · rename_i hxy
      refine List.Pairwise.cons ?_ h
      intro z hz
      rcases List.mem_cons.mp hz with e | hz
      · rw [e]; exact hxy
      · have := hy hz
        simp only [kle, decide_eq_true_eq] at hxy this ⊢
        omega
    · rename_i hxy
      refine List.Pairwise.cons ?_ (ih (List.Pairwise.of_cons h))
      intro z hz
      rcases List.mem_cons.mp ((insertOut_perm x rest).mem_iff.mp hz) with e | hz
      · rw [e]
        simp only [kle, decide_eq_true_eq] at hxy ⊢
        omega
      · exact hy hz

theorem sortOuts_sorted (l : List Out) : (sortOuts l).Pairwise fun a b => kle a.key b.key = true := by
  induction l with
  | nil => simp [sortOuts]
  | cons x rest ih => exact insertOut_sorted x _ ih

theorem validate_anc (bins : BinTable) (rows : List Row) :
    validateRows bins rows =
      if (rows.map Row.anc).any Anchor.neg = true then .error .badInput
      else if (rows.map Row.anc).any (Anchor.excess bins) = true then .error .badInput
      else .ok () := by
  unfold validateRows
  rw [any_neg, any_excess]

theorem trilStep_anc (o : Opts) (rows : List Row) :
    trilStep o rows =
      if o.tril = .raise ∧ (rows.map Row.anc).any Anchor.lower = true then .error .badInput
      else if o.tril = .bogus ∧ (rows.map Row.anc).any Anchor.lower = true then .error .value
      else .ok (match o.tril with
        | .reflect => rows.map (Row.orient o)
        | .drop => rows.filter fun r => !r.isTril
        | _ => rows) := by
  unfold trilStep
  rw [any_tril]
  cases o.tril <;> simp <;> split <;> simp_all

theorem trilRows_anc (o : Opts) (rows : List Row) :
    (match o.tril with
      | .reflect => rows.map (Row.orient o)
      | .drop => rows.filter fun r => !r.isTril
      | _ => rows).map Row.anc = orientAnchors o.tril (rows.map Row.anc) := by
  unfold orientAnchors
  cases o.tril
  · exact map_orient_anc o rows
  · exact filter_tril_anc rows
  all_goals rfl

/-- **simulation**: an error of the anchors-only pipeline is the error of `_sanitize_records`;
a value is, up to order, the `(bin1, bin2, value)` projection of its output -/
theorem sanitizeWith_sim (bins : BinTable) (bs : Option Nat) (o : Opts) (recs : List Rec) :
    (∀ e, anchorPipeline bins bs o (anchors o recs) = .error e → sanitizeWith bins bs o recs = .error e) ∧
    (∀ kvs, anchorPipeline bins bs o (anchors o recs) = .ok kvs →
      ∃ outs, sanitizeWith bins bs o recs = .ok outs ∧ (keyVals outs).Perm kvs) := by
  unfold sanitizeWith anchorPipeline
  rw [← rows_anc]
  generalize recs.filterMap (decode o) = rows
  simp only [validate_anc, trilStep_anc]
  by_cases hv : o.validate = true
  · simp only [hv, true_and, if_true]
    by_cases h1 : (rows.map Row.anc).any Anchor.neg = true
    · simp [h1]
    · by_cases h2 : (rows.map Row.anc).any (Anchor.excess bins) = true
      · simp [h1, h2]
      · simp only [h1, h2]
        by_cases h3 : o.tril = .raise ∧ (rows.map Row.anc).any Anchor.lower = true
        · simp [h3]
        · by_cases h4 : o.tril = .bogus ∧ (rows.map Row.anc).any Anchor.lower = true
          · simp [h4]
          · simp only [h3, h4, if_false]
            refine ⟨by simp, ?_⟩
            intro kvs hk
            refine ⟨_, rfl, ?_⟩
            have hk' := (Except.ok.inj hk).symm
            rw [hk', ← trilRows_anc, ← keyVals_assign]
            exact (sortIf_perm _ _).map _
  · have hv' : o.validate = false := by simpa using hv
    simp only [hv', false_and, if_false, Bool.false_eq_true]
    by_cases h3 : o.tril = .raise ∧ (rows.map Row.anc).any Anchor.lower = true
    · simp [h3]
    · by_cases h4 : o.tril = .bogus ∧ (rows.map Row.anc).any Anchor.lower = true
      · simp [h4]
      · simp only [h3, h4, if_false]
        refine ⟨by simp, ?_⟩
        intro kvs hk
        refine ⟨_, rfl, ?_⟩
        have hk' := (Except.ok.inj hk).symm
        rw [hk', ← trilRows_anc, ← keyVals_assign]
        exact (sortIf_perm _ _).map _

/-! ## the property -/

/-- a reported bin size is truthful on a valid table — `C20.getBinsize_truthful`; this is what
licenses the `anchor // binsize` fast path -/
theorem binsize_truthful {bins : BinTable} (hT : TableOK bins) :
    ∀ b, getBinsize bins = some b → ∀ g ∈ groups bins, UniformChrom b g :=
  fun b h => Cooler.C20.getBinsize_truthful (groups bins) b hT.2 h

def aggOf : Except Err (List (Key × Int)) → Except Err (List Cell)
  | .error e => .error e
  | .ok kvs => .ok (groupCells kvs)

/-- the aggregated output of the model is the grouping of the anchors-only pipeline -/
theorem aggregated_eq (bins : BinTable) (o : Opts) (recs : List Rec) :
    aggregated bins o recs = aggOf (anchorPipeline bins (getBinsize bins) o (anchors o recs)) := by
  obtain ⟨h1, h2⟩ := sanitizeWith_sim bins (getBinsize bins) o recs
  unfold aggregated sanitizeRecords
  cases hp : anchorPipeline bins (getBinsize bins) o (anchors o recs) with
  | error e => rw [h1 e hp]; rfl
  | ok kvs =>
    obtain ⟨outs, ho, hperm⟩ := h2 kvs hp
    rw [ho]
    simp only [aggregateRecords, if_true, aggOf]
    rw [groupCells_perm hperm]

theorem orientAnchors_perm (t : Tril) {l₁ l₂ : List Anchor} (h : l₁.Perm l₂) :
    (orientAnchors t l₁).Perm (orientAnchors t l₂) := by
  unfold orientAnchors
  cases t
  · exact h.map _
  · exact h.filter _
  all_goals exact h

theorem anchorPipeline_perm (bins : BinTable) (bs : Option Nat) (o : Opts) {l₁ l₂ : List Anchor}
    (h : l₁.Perm l₂) : aggOf (anchorPipeline bins bs o l₁) = aggOf (anchorPipeline bins bs o l₂) := by
  unfold anchorPipeline
  rw [h.any_eq (f := Anchor.neg), h.any_eq (f := Anchor.excess bins), h.any_eq (f := Anchor.lower)]
  repeat' split
  all_goals first
    | rfl
    | (simp only [aggOf]; rw [groupCells_perm ((orientAnchors_perm o.tril h).map _)])

/-- **sanitize_order_independent**: the aggregated outcome (error or pixel table) does not depend on
the order of the records -/
theorem sanitize_order_independent (bins : BinTable) (o : Opts) {recs₁ recs₂ : List Rec}
    (h : recs₁.Perm recs₂) : aggregated bins o recs₁ = aggregated bins o recs₂ := by
  rw [aggregated_eq, aggregated_eq]
  exact anchorPipeline_perm bins _ o (h.filterMap _)

/-- non-vacuity: two different orders of a batch with a duplicate pixel and a mirrored record -/
example : [(⟨some 0, 1, some 1, 2, [], [], []⟩ : Rec), ⟨some 1, 2, some 0, 0, [], [], []⟩, ⟨some 0, 3, some 0, 0, [], [], []⟩].Perm
    [⟨some 0, 3, some 0, 0, [], [], []⟩, ⟨some 0, 1, some 1, 2, [], [], []⟩, ⟨some 1, 2, some 0, 0, [], [], []⟩] ∧
    aggregated [⟨0, 0, 2⟩, ⟨0, 2, 4⟩, ⟨1, 0, 3⟩] {}
      [⟨some 0, 1, some 1, 2, [], [], []⟩, ⟨some 1, 2, some 0, 0, [], [], []⟩, ⟨some 0, 3, some 0, 0, [], [], []⟩]
      = .ok [⟨(0, 1), 1, 0⟩, ⟨(0, 2), 2, 0⟩] := by
  refine ⟨?_, by decide⟩
  exact (List.Perm.cons _ (List.Perm.swap _ _ [])).trans (List.Perm.swap _ _ _)

theorem anchors_one_based (o : Opts) (recs : List Rec) :
    anchors { o with oneBased := true } recs = anchors { o with oneBased := false } (recs.map Rec.shiftDown) := by
  unfold anchors
  rw [List.filterMap_map]
  congr 1
  funext r
  simp only [Function.comp, anchorOf, Rec.shiftDown]
  cases r.c1 <;> cases r.c2 <;> simp

/-- **sanitize_one_based**: one-based input is the zero-based input shifted by exactly one -/
theorem sanitize_one_based (bins : BinTable) (o : Opts) (recs : List Rec) :
    aggregated bins { o with oneBased := true } recs
      = aggregated bins { o with oneBased := false } (recs.map Rec.shiftDown) := by
  rw [aggregated_eq, aggregated_eq, anchors_one_based]
  rfl

example : aggregated [⟨0, 0, 2⟩, ⟨0, 2, 4⟩] { oneBased := true } [⟨some 0, 3, some 0, 1, [], [], []⟩]
    = .ok [⟨(0, 1), 1, 0⟩] := by decide

theorem anchorPipeline_ok {bins : BinTable} {bs : Option Nat} {o : Opts} {l : List Anchor}
    {kvs : List (Key × Int)} (h : anchorPipeline bins bs o l = .ok kvs) :
    (o.validate = true → ∀ a ∈ l, a.neg = false ∧ a.excess bins = false) ∧
      kvs = (orientAnchors o.tril l).map (keyOf bins bs) := by
  unfold anchorPipeline at h
  split at h
  · exact absurd h (by simp)
  · split at h
    · exact absurd h (by simp)
    · split at h
      · exact absurd h (by simp)
      · split at h
        · exact absurd h (by simp)
        · rename_i h1 h2 _ _
          refine ⟨?_, (Except.ok.inj h).symm⟩
          intro hv a ha
          simp only [hv, true_and, List.any_eq_true, not_exists, not_and, Bool.not_eq_true] at h1 h2
          exact ⟨h1 a ha, h2 a ha⟩

/-- membership in the oriented list: an upper-oriented record with the same bounds -/
theorem mem_orient_upper {t : Tril} (ht : t = .reflect ∨ t = .drop) {l : List Anchor} {a : Anchor}
    (ha : a ∈ orientAnchors t l) :
    a.lower = false ∧ ∃ a0 ∈ l, (a = a0 ∨ a = a0.mirror) := by
  unfold orientAnchors at ha
  rcases ht with rfl | rfl
  · simp only [List.mem_map] at ha
    obtain ⟨a0, h0, rfl⟩ := ha
    unfold Anchor.upper
    by_cases hl : a0.lower = true
    · simp only [hl, if_true]
      refine ⟨?_, a0, h0, Or.inr rfl⟩
      simp [Anchor.lower, Anchor.mirror] at hl ⊢
      refine ⟨by omega, fun h => ?_⟩
      have := of_decide_eq_true h
      omega
    · simp only [hl]
      exact ⟨by simpa using hl, a0, h0, Or.inl rfl⟩
  · simp only [List.mem_filter, Bool.not_eq_true', ] at ha
    exact ⟨ha.2, a, ha.1, Or.inl rfl⟩

/-- **sanitize_reflect_upper**: with validation on, after `reflect` (and after `drop`) every output
row has `bin1 ≤ bin2` — although the triangle test is made on positions, not on bins -/
theorem sanitize_reflect_upper {bins : BinTable} (hT : TableOK bins) (o : Opts)
    (hval : o.validate = true) (ht : o.tril = .reflect ∨ o.tril = .drop) (recs : List Rec)
    (hk : ∀ a ∈ anchors o recs, groupOf bins a.c1 ≠ [] ∧ groupOf bins a.c2 ≠ [])
    {outs : List Out} (h : sanitizeRecords bins o recs = .ok outs) : ∀ x ∈ outs, x.bin1 ≤ x.bin2 := by
  obtain ⟨h1, h2⟩ := sanitizeWith_sim bins (getBinsize bins) o recs
  unfold sanitizeRecords at h
  cases hp : anchorPipeline bins (getBinsize bins) o (anchors o recs) with
  | error e => rw [h1 e hp] at h; exact absurd h (by simp)
  | ok kvs =>
    obtain ⟨outs', ho, hperm⟩ := h2 kvs hp
    rw [ho] at h
    have := Except.ok.inj h; subst this
    obtain ⟨hb, rfl⟩ := anchorPipeline_ok hp
    intro x hx
    have hxk : (x.key, x.val) ∈ keyVals outs' := List.mem_map.mpr ⟨x, hx, rfl⟩
    obtain ⟨a, ha, hka⟩ := List.mem_map.mp (hperm.mem_iff.mp hxk)
    obtain ⟨hlow, a0, h0, hor⟩ := mem_orient_upper ht ha
    have hbnd := hb hval a0 h0
    have hkn := hk a0 h0
    simp only [Anchor.neg, Anchor.excess, Bool.or_eq_false_iff, decide_eq_false_iff_not] at hbnd
    have hkey : x.bin1 = assignBin bins (getBinsize bins) a.c1 a.a1 ∧
        x.bin2 = assignBin bins (getBinsize bins) a.c2 a.a2 := by
      simp only [keyOf, Out.key, Prod.mk.injEq] at hka
      exact ⟨hka.1.1.symm, hka.1.2.symm⟩
    rw [hkey.1, hkey.2]
    have hlex : a.c1 < a.c2 ∨ (a.c1 = a.c2 ∧ a.a1 ≤ a.a2) := by
      simp only [Anchor.lower, Bool.or_eq_false_iff, Bool.and_eq_false_iff, decide_eq_false_iff_not] at hlow
      omega
    rcases hor with rfl | rfl
    · exact assign_le_of_lex hT (binsize_truthful hT) hkn.1 hkn.2 (by omega) (by omega) hlex
    · simp only [Anchor.mirror] at hlex ⊢
      exact assign_le_of_lex hT (binsize_truthful hT) hkn.2 hkn.1 (by omega) (by omega) hlex

/-- non-vacuity, with a record whose two anchors share a bin but are in lower order and one that
crosses chromosomes -/
example : sanitizeRecords [⟨0, 0, 2⟩, ⟨0, 2, 4⟩, ⟨1, 0, 3⟩] {}
    [⟨some 0, 3, some 0, 2, [], [], []⟩, ⟨some 1, 0, some 0, 3, [], [], []⟩] =
    .ok [⟨⟨0, 2, 0, 3, 0, 2, 0, 3, [], [], []⟩, 1, 1⟩, ⟨⟨0, 3, 1, 0, 0, 3, 1, 0, [], [], []⟩, 1, 2⟩] := by
  decide

/-! ### count once -/

theorem filterMap_eq_map_of {α β : Type} {f : α → Option β} {g : α → β} {l : List α}
    (h : ∀ a ∈ l, f a = some (g a)) : l.filterMap f = l.map g := by
  induction l with
  | nil => rfl
  | cons x rest ih =>
    rw [List.filterMap_cons, h x List.mem_cons_self, List.map_cons,
      ih (fun a ha => h a (List.mem_cons_of_mem _ ha))]

theorem inside_not_bad {bins : BinTable} {a : Anchor} (h : a.inside bins) :
    a.neg = false ∧ a.excess bins = false := by
  obtain ⟨h1, h2, h3, h4⟩ := h
  simp only [Anchor.neg, Anchor.excess, Bool.or_eq_false_iff, decide_eq_false_iff_not]
  omega

theorem inside_mirror {bins : BinTable} {a : Anchor} (h : a.inside bins) : a.mirror.inside bins := by
  obtain ⟨h1, h2, h3, h4⟩ := h
  exact ⟨h3, h4, h1, h2⟩

theorem orient_inside {bins : BinTable} {t : Tril} {l : List Anchor} (h : ∀ a ∈ l, a.inside bins) :
    ∀ a ∈ orientAnchors t l, a.inside bins := by
  intro a ha
  unfold orientAnchors at ha
  cases t
  · obtain ⟨a0, h0, rfl⟩ := List.mem_map.mp ha
    unfold Anchor.upper
    split
    · exact inside_mirror (h a0 h0)
    · exact h a0 h0
  · exact h a (List.mem_filter.mp ha).1
  all_goals exact h a ha

/-- for a record inside its chromosomes the assigned pair is the pixel of L0 -/
theorem keyOf_eq_pixelOf {bins : BinTable} (hT : TableOK bins) {bs : Option Nat}
    (hb : ∀ b, bs = some b → ∀ g ∈ groups bins, UniformChrom b g) {a : Anchor} (h : a.inside bins) :
    pixelOf bins a = some (keyOf bins bs a).1 := by
  obtain ⟨h1, h2, h3, h4⟩ := h
  unfold pixelOf keyOf
  rw [assign_eq_binOf hT hb h1 h2, assign_eq_binOf hT hb h3 h4]

theorem pipeline_of_inside {bins : BinTable} (bs : Option Nat) (o : Opts) {l : List Anchor}
    (h : ∀ a ∈ l, a.inside bins) :
    anchorPipeline bins bs o l =
      if o.tril = .raise ∧ l.any Anchor.lower = true then .error .badInput
      else if o.tril = .bogus ∧ l.any Anchor.lower = true then .error .value
      else .ok ((orientAnchors o.tril l).map (keyOf bins bs)) := by
  have h1 : l.any Anchor.neg = false := by
    rw [List.any_eq_false]; intro a ha; simp [(inside_not_bad (h a ha)).1]
  have h2 : l.any (Anchor.excess bins) = false := by
    rw [List.any_eq_false]; intro a ha; simp [(inside_not_bad (h a ha)).2]
  unfold anchorPipeline
  simp [h1, h2]

/-- **sanitize_count_once**: on a valid table, when every record on known chromosomes lies inside
its chromosomes, the aggregated output is the per-pixel count (and value sum) of ONE unit per retained
record, placed at `(binOf anchor₁, binOf anchor₂)` after orientation: the count stored under `k` is the
number of retained records whose pixel is `k`, the counts add up to the number of retained records, and
the output keys are strictly increasing (no pixel twice).  `retained` = both chromosomes known, mirrored
to the upper triangle under `reflect`, lower-triangle records removed under `drop`. -/
theorem sanitize_count_once {bins : BinTable} (hT : TableOK bins) (o : Opts) (recs : List Rec)
    (hin : ∀ a ∈ anchors o recs, a.inside bins)
    (hraise : (o.tril = .raise ∨ o.tril = .bogus) → ∀ a ∈ anchors o recs, a.lower = false) :
    ∃ kvs : List (Key × Int),
      (retained o recs).map (fun a => (pixelOf bins a, a.v)) = kvs.map (fun kv => (some kv.1, kv.2)) ∧
      aggregated bins o recs = .ok (groupCells kvs) ∧
      (∀ k, countAt (groupCells kvs) k = (retained o recs).countP (fun a => decide (pixelOf bins a = some k))) ∧
      totalCount (groupCells kvs) = (retained o recs).length ∧
      SortedCells (groupCells kvs) := by
  refine ⟨(retained o recs).map (keyOf bins (getBinsize bins)), ?_, ?_, ?_, ?_, groupCells_sorted _⟩
  · rw [List.map_map]
    apply List.map_congr_left
    intro a ha
    have := keyOf_eq_pixelOf hT (binsize_truthful hT) (orient_inside hin a ha)
    simp only [Function.comp, this]
    rfl
  · rw [aggregated_eq, pipeline_of_inside _ _ hin]
    have hno : ∀ t, (o.tril = t → (o.tril = .raise ∨ o.tril = .bogus)) →
        ¬ (o.tril = t ∧ (anchors o recs).any Anchor.lower = true) := by
      intro t ht ⟨h1, h2⟩
      obtain ⟨a, ha, hl⟩ := List.any_eq_true.mp h2
      rw [hraise (ht h1) a ha] at hl
      exact absurd hl (by simp)
    rw [if_neg (hno .raise (fun h => Or.inl h)), if_neg (hno .bogus (fun h => Or.inr h))]
    rfl
  · intro k
    rw [countAt_groupCells, List.countP_map]
    apply List.countP_congr
    intro a ha
    have := keyOf_eq_pixelOf hT (binsize_truthful hT) (orient_inside hin a ha)
    simp only [Function.comp, this, Option.some.injEq, decide_eq_true_eq]
  · rw [totalCount_groupCells, List.length_map]

/-- non-vacuity: a table with a short last bin and a variable-width neighbour would report no size;
this one is fixed-width, the batch has an unknown chromosome, a mirrored record and a duplicate pixel -/
example : TableOK [⟨0, 0, 2⟩, ⟨0, 2, 4⟩, ⟨0, 4, 5⟩, ⟨1, 0, 2⟩] ∧
    (∀ a ∈ anchors {} [⟨some 0, 4, some 0, 1, [], [], [7]⟩, ⟨none, 9, some 0, 1, [], [], [1]⟩,
        ⟨some 0, 0, some 0, 4, [], [], [5]⟩, ⟨some 1, 1, some 1, 0, [], [], [2]⟩], a.inside [⟨0, 0, 2⟩, ⟨0, 2, 4⟩, ⟨0, 4, 5⟩, ⟨1, 0, 2⟩]) ∧
    aggregated [⟨0, 0, 2⟩, ⟨0, 2, 4⟩, ⟨0, 4, 5⟩, ⟨1, 0, 2⟩] {}
      [⟨some 0, 4, some 0, 1, [], [], [7]⟩, ⟨none, 9, some 0, 1, [], [], [1]⟩,
        ⟨some 0, 0, some 0, 4, [], [], [5]⟩, ⟨some 1, 1, some 1, 0, [], [], [2]⟩]
      = .ok [⟨(0, 2), 2, 12⟩, ⟨(3, 3), 1, 2⟩] := by
  refine ⟨⟨by decide, ?_⟩, by decide, by decide⟩
  intro g hg
  have : g ∈ [[(⟨0, 0, 2⟩ : Bin), ⟨0, 2, 4⟩, ⟨0, 4, 5⟩], [⟨1, 0, 2⟩]] := by
    simpa [groups, chromOrder, groupOf] using hg
  simp at this
  rcases this with h | h <;> subst h <;> decide

/-! ### rejection of positions outside the chromosome -/

/-- the property's full wording: a position `< 0` or `≥ length` on a known chromosome is rejected -/
def sanitize_rejects_outside_Statement : Prop :=
  ∀ (bins : BinTable) (o : Opts) (recs : List Rec), o.validate = true →
    (∃ a ∈ anchors o recs, a.a1 < 0 ∨ a.a1 ≥ (chromLen bins a.c1 : Int) ∨
      a.a2 < 0 ∨ a.a2 ≥ (chromLen bins a.c2 : Int)) →
    sanitizeRecords bins o recs = .error .badInput

/-- what the code as it stands guarantees: `< 0` and `> length` are rejected with `BadInputError`,
whatever else the batch contains.  Missing for the full statement: the case `pos = length`
(known finding D13: the check is `anchor > chromsize`). -/
theorem sanitize_rejects_outside_partial (bins : BinTable) (o : Opts) (recs : List Rec)
    (hval : o.validate = true)
    (h : ∃ a ∈ anchors o recs, a.a1 < 0 ∨ a.a1 > (chromLen bins a.c1 : Int) ∨
      a.a2 < 0 ∨ a.a2 > (chromLen bins a.c2 : Int)) :
    sanitizeRecords bins o recs = .error .badInput := by
  obtain ⟨a, ha, hbad⟩ := h
  apply (sanitizeWith_sim bins (getBinsize bins) o recs).1
  unfold anchorPipeline
  by_cases h1 : (anchors o recs).any Anchor.neg = true
  · simp [hval, h1]
  · have h2 : (anchors o recs).any (Anchor.excess bins) = true := by
      rw [List.any_eq_true]
      refine ⟨a, ha, ?_⟩
      have hn : a.neg = false := by
        simp only [List.any_eq_true, not_exists, not_and, Bool.not_eq_true] at h1
        exact h1 a ha
      simp only [Anchor.neg, Bool.or_eq_false_iff, decide_eq_false_iff_not] at hn
      simp only [Anchor.excess, Bool.or_eq_true, decide_eq_true_eq]
      omega
    simp [hval, h1, h2]

example : sanitizeRecords [⟨0, 0, 2⟩, ⟨0, 2, 4⟩] {} [⟨some 0, 1, some 0, 5, [], [], []⟩] = .error .badInput := by
  decide

/-- **the full statement fails on the code as it stands** (D13): zero-based position 4 on a
chromosome of length 4 is accepted and binned into the first bin of the NEXT chromosome -/
theorem sanitize_rejects_outside_fails : ¬ sanitize_rejects_outside_Statement := by
  intro h
  have := h [⟨0, 0, 2⟩, ⟨0, 2, 4⟩, ⟨1, 0, 2⟩] {} [⟨some 0, 1, some 0, 4, [], [], []⟩] rfl
    ⟨⟨0, 1, 0, 4, 0⟩, by decide, by decide⟩
  revert this
  decide

/-- the accepted record lands on another chromosome: bin 2 is `c1:[0,2)` -/
example : sanitizeRecords [⟨0, 0, 2⟩, ⟨0, 2, 4⟩, ⟨1, 0, 2⟩] {} [⟨some 0, 1, some 0, 4, [], [], []⟩]
    = .ok [⟨⟨0, 1, 0, 4, 0, 1, 0, 4, [], [], []⟩, 0, 2⟩] := by decide

/-- **L1 = L0 away from D13**: with validation on, on a valid table, whenever no record sits exactly
at its chromosome's length the model of the current code and the specification agree — on the error
outcome as well as on every pixel -/
theorem aggregated_eq_spec {bins : BinTable} (hT : TableOK bins) (o : Opts) (hval : o.validate = true)
    (recs : List Rec) (hno : atLength bins o recs = false) :
    aggregated bins o recs = specCounts bins o recs := by
  by_cases hin : ∀ a ∈ anchors o recs, a.inside bins
  · have hs1 : (anchors o recs).any (fun a => !decide (a.inside bins)) = false := by
      rw [List.any_eq_false]; intro a ha; simp [hin a ha]
    rw [aggregated_eq, pipeline_of_inside _ _ hin]
    unfold specCounts
    simp only [hs1, Bool.false_eq_true, if_false]
    split
    · rfl
    · split
      · rfl
      · simp only [aggOf]
        congr 2
        unfold retained
        symm
        apply filterMap_eq_map_of
        intro a ha
        rw [keyOf_eq_pixelOf hT (binsize_truthful hT) (orient_inside hin a ha)]
        rfl
  · have hex : ∃ a ∈ anchors o recs, ¬ a.inside bins := by
      apply Classical.byContradiction
      intro hne
      apply hin
      intro a ha
      apply Classical.byContradiction
      intro hna
      exact hne ⟨a, ha, hna⟩
    obtain ⟨a, ha, hna⟩ := hex
    have hs1 : (anchors o recs).any (fun a => !decide (a.inside bins)) = true := by
      rw [List.any_eq_true]; exact ⟨a, ha, by simp [hna]⟩
    have hat : ¬ (a.a1 = (chromLen bins a.c1 : Int)) ∧ ¬ (a.a2 = (chromLen bins a.c2 : Int)) := by
      unfold atLength at hno
      rw [List.any_eq_false] at hno
      have := hno a ha
      simpa using this
    have hbad : a.a1 < 0 ∨ a.a1 > (chromLen bins a.c1 : Int) ∨ a.a2 < 0 ∨ a.a2 > (chromLen bins a.c2 : Int) := by
      unfold Anchor.inside at hna
      omega
    have := sanitize_rejects_outside_partial bins o recs hval ⟨a, ha, hbad⟩
    unfold aggregated
    rw [this]
    unfold specCounts
    simp [hs1]

/-! ## the executable well-formedness check implies the hypotheses -/

theorem chromSortedB_cons {a : Bin} {rest : List Bin} (h : chromSortedB (a :: rest) = true) :
    (∀ y ∈ rest, a.chrom ≤ y.chrom) ∧ chromSortedB rest = true := by
  induction rest generalizing a with
  | nil => simp [chromSortedB]
  | cons b rest ih =>
    simp only [chromSortedB, Bool.and_eq_true, decide_eq_true_eq] at h
    obtain ⟨hab, hb⟩ := h
    obtain ⟨h1, _⟩ := ih hb
    refine ⟨?_, hb⟩
    intro y hy
    rcases List.mem_cons.mp hy with e | hy
    · rw [e]; exact hab
    · exact Nat.le_trans hab (h1 y hy)

theorem chromSorted_of_B {bins : BinTable} (h : chromSortedB bins = true) : ChromSorted bins := by
  induction bins with
  | nil => exact List.Pairwise.nil
  | cons a rest ih =>
    obtain ⟨h1, h2⟩ := chromSortedB_cons h
    exact List.Pairwise.cons h1 (ih h2)

/-- the driver's `validSegmentationB` (evaluated on every table the correspondence uses) gives `TableOK` -/
theorem tableOK_of_valid {bins : BinTable} (h : validSegmentationB bins = true) : TableOK bins := by
  simp only [validSegmentationB, Bool.and_eq_true, List.all_eq_true, decide_eq_true_eq] at h
  exact ⟨chromSorted_of_B h.1, h.2⟩

/-! ## unsorted grouping (`groupby(sort=False)`) counts the same -/

theorem countAt_bumpCell (k : Key) (v : Int) (l : List Cell) (k' : Key) :
    countAt (bumpCell k v l) k' = countAt l k' + if k = k' then 1 else 0 := by
  induction l with
  | nil => simp [bumpCell, countAt]
  | cons d l ih =>
    unfold bumpCell
    split
    · rename_i h; subst h
      simp only [countAt]
      split <;> omega
    · simp only [countAt, ih]; omega

theorem totalCount_bumpCell (k : Key) (v : Int) (l : List Cell) :
    totalCount (bumpCell k v l) = totalCount l + 1 := by
  induction l with
  | nil => simp [bumpCell, totalCount]
  | cons d l ih =>
    unfold bumpCell
    split
    · simp only [totalCount]; omega
    · simp only [totalCount, ih]; omega

theorem countAt_foldl_bump (l : List (Key × Int)) (acc : List Cell) (k : Key) :
    countAt (l.foldl (fun acc kv => bumpCell kv.1 kv.2 acc) acc) k
      = countAt acc k + l.countP (fun kv => kv.1 = k) := by
  induction l generalizing acc with
  | nil => simp
  | cons x l ih =>
    rw [List.foldl_cons, ih, countAt_bumpCell, List.countP_cons]
    simp only [decide_eq_true_eq]
    split <;> omega

/-- order-of-appearance grouping stores the same count under every key … -/
theorem countAt_groupFirst (l : List (Key × Int)) (k : Key) :
    countAt (groupFirst l) k = countAt (groupCells l) k := by
  unfold groupFirst
  rw [countAt_foldl_bump, countAt_groupCells]
  simp [countAt]

theorem totalCount_foldl_bump (l : List (Key × Int)) (acc : List Cell) :
    totalCount (l.foldl (fun acc kv => bumpCell kv.1 kv.2 acc) acc) = totalCount acc + l.length := by
  induction l generalizing acc with
  | nil => simp
  | cons x l ih => rw [List.foldl_cons, ih, totalCount_bumpCell, List.length_cons]; omega

/-- … and the same total -/
theorem totalCount_groupFirst (l : List (Key × Int)) : totalCount (groupFirst l) = l.length := by
  unfold groupFirst
  rw [totalCount_foldl_bump]; simp [totalCount]

/-! ## pre-binned records (`_sanitize_pixels`) -/

theorem insertPx_perm (x : PxRec) (l : List PxRec) : (insertPx x l).Perm (x :: l) := by
  induction l with
  | nil => exact List.Perm.refl _
  | cons y rest ih =>
    unfold insertPx
    split
    · exact List.Perm.refl _
    · exact (List.Perm.cons y ih).trans (List.Perm.swap x y rest)

theorem sortPxRecs_perm (l : List PxRec) : (sortPxRecs l).Perm l := by
  induction l with
  | nil => exact List.Perm.refl _
  | cons x rest ih =>
    have : sortPxRecs (x :: rest) = insertPx x (sortPxRecs rest) := rfl
    rw [this]
    exact (insertPx_perm x _).trans (List.Perm.cons x ih)

def PxRec.kv (p : PxRec) : Key × Int := (p.key, p.val)

theorem shift_kv (o : Opts) (ps : List PxRec) :
    (ps.map (PxRec.shift o)).map PxRec.kv = specPixelShift o ps := by
  unfold specPixelShift
  rw [List.map_map]
  apply List.map_congr_left
  intro p _
  simp only [Function.comp, PxRec.shift, PxRec.kv, PxRec.key, PxRec.val]
  split <;> simp

/-- **pixels_count_once**: a pre-binned record contributes once, to the pixel named by its
(shifted, oriented) id pair — up to the order of the rows -/
theorem pixels_count_once (o : Opts) (ps : List PxRec)
    (h : (o.tril = .raise ∨ o.tril = .bogus) → ∀ p ∈ ps, (p.shift o).isTril = false) :
    ∃ out, sanitizePixels o ps = .ok out ∧ (out.map PxRec.kv).Perm (specPixelKeys o ps) := by
  unfold sanitizePixels specPixelKeys trilPx
  rw [← shift_kv]
  have hany : (o.tril = .raise ∨ o.tril = .bogus) → (ps.map (PxRec.shift o)).any PxRec.isTril = false := by
    intro ht
    rw [List.any_eq_false]
    intro p hp
    obtain ⟨q, hq, rfl⟩ := List.mem_map.mp hp
    simp [h ht q hq]
  generalize ps.map (PxRec.shift o) = qs at hany
  have hsort : ∀ l : List PxRec, ((if o.sort then sortPxRecs l else l).map PxRec.kv).Perm (l.map PxRec.kv) := by
    intro l
    split
    · exact (sortPxRecs_perm l).map _
    · exact List.Perm.refl _
  cases ht : o.tril with
  | keep => exact ⟨_, rfl, hsort _⟩
  | reflect =>
    refine ⟨_, rfl, (hsort _).trans ?_⟩
    rw [List.map_map, List.map_map]
    apply List.Perm.of_eq
    apply List.map_congr_left
    intro p _
    simp only [Function.comp, PxRec.orient, PxRec.isTril, PxRec.kv, PxRec.key, PxRec.val]
    by_cases hp : p.b1 > p.b2
    · simp [hp, PxRec.reflect]
    · simp [hp]
  | drop =>
    refine ⟨_, rfl, (hsort _).trans ?_⟩
    rw [List.filter_map]
    exact List.Perm.refl _
  | raise =>
    simp only [hany (Or.inl ht)]
    exact ⟨_, rfl, hsort _⟩
  | bogus =>
    simp only [hany (Or.inr ht)]
    exact ⟨_, rfl, hsort _⟩

/-- **pixels_reflect_upper**: after `reflect` or `drop`, `bin1 ≤ bin2` -/
theorem pixels_reflect_upper (o : Opts) (ht : o.tril = .reflect ∨ o.tril = .drop) (ps : List PxRec)
    {out : List PxRec} (h : sanitizePixels o ps = .ok out) : ∀ p ∈ out, p.b1 ≤ p.b2 := by
  unfold sanitizePixels trilPx at h
  have hmem : ∀ (l : List PxRec) (p : PxRec), p ∈ (if o.sort then sortPxRecs l else l) → p ∈ l := by
    intro l p hp
    split at hp
    · exact (sortPxRecs_perm l).mem_iff.mp hp
    · exact hp
  rcases ht with ht | ht
  · simp only [ht] at h
    have := Except.ok.inj h; subst this
    intro p hp
    obtain ⟨q, _, rfl⟩ := List.mem_map.mp (hmem _ p hp)
    unfold PxRec.orient PxRec.isTril
    by_cases hq : q.b1 > q.b2
    · simp [hq, PxRec.reflect]; omega
    · simp [hq]; omega
  · simp only [ht] at h
    have := Except.ok.inj h; subst this
    intro p hp
    have := (List.mem_filter.mp (hmem _ p hp)).2
    simp [PxRec.isTril] at this
    exact this

example : sanitizePixels { oneBased := true, sort := true } [⟨3, 1, [], [], [5]⟩, ⟨1, 2, [], [], [7]⟩]
    = .ok [⟨0, 1, [], [], [7]⟩, ⟨0, 2, [], [], [5]⟩] := by decide


/-! ## the tabix-indexed loader -/

theorem insertCell_append_left {k : Key} {v : Int} {A X : List Cell} (h : ∀ c ∈ A, klt c.k k) :
    insertCell k v (A ++ X) = A ++ insertCell k v X := by
  induction A with
  | nil => rfl
  | cons a A ih =>
    rw [List.cons_append, insertCell_gt (h a List.mem_cons_self),
      ih (fun c hc => h c (List.mem_cons_of_mem _ hc))]
    rfl

theorem insertCell_append_right {k : Key} {v : Int} {B C : List Cell} (h : ∀ c ∈ C, klt k c.k) :
    insertCell k v (B ++ C) = insertCell k v B ++ C := by
  induction B with
  | nil =>
    cases C with
    | nil => rfl
    | cons c C => rw [List.nil_append, insertCell_lt (h c List.mem_cons_self)]; rfl
  | cons b B ih =>
    rw [List.cons_append]
    rcases klt_tri k b.k with h1 | h1 | h1
    · rw [insertCell_lt h1, insertCell_lt h1]; rfl
    · rw [insertCell_eq h1, insertCell_eq h1]; rfl
    · rw [insertCell_gt h1, insertCell_gt h1, ih]; rfl

theorem flatMap_congr_mem {α β : Type} {l : List α} {f g : α → List β} (h : ∀ a ∈ l, f a = g a) :
    l.flatMap f = l.flatMap g := by
  induction l with
  | nil => rfl
  | cons x l ih =>
    rw [List.flatMap_cons, List.flatMap_cons, h x List.mem_cons_self,
      ih (fun a ha => h a (List.mem_cons_of_mem _ ha))]

/-- cells of row `i` -/
def rowCells (K : List (Key × Int)) (i : Int) : List Cell := groupCells (K.filter fun kv => decide (kv.1.1 = i))

theorem mem_rowCells_row {K : List (Key × Int)} {i : Int} {c : Cell} (h : c ∈ rowCells K i) : c.k.1 = i := by
  obtain ⟨kv, hkv, hk⟩ := (mem_groupCells_keys _ c.k).mp ⟨c, h, rfl⟩
  have := (List.mem_filter.mp hkv).2
  simp only [decide_eq_true_eq] at this
  rw [← hk]; exact this

theorem rowCells_cons_same (x : Key × Int) (K : List (Key × Int)) :
    rowCells (x :: K) x.1.1 = insertCell x.1 x.2 (rowCells K x.1.1) := by
  unfold rowCells
  rw [List.filter_cons_of_pos (by simp)]
  rfl

theorem rowCells_cons_other (x : Key × Int) (K : List (Key × Int)) {i : Int} (h : x.1.1 ≠ i) :
    rowCells (x :: K) i = rowCells K i := by
  unfold rowCells
  rw [List.filter_cons_of_neg (by simpa using h)]

/-- **key-range splitting**: grouping row by row, rows in increasing order, is grouping everything -/
theorem rows_flatMap_eq (rows : List Int) (hs : rows.Pairwise (· < ·)) :
    ∀ K : List (Key × Int), (∀ kv ∈ K, kv.1.1 ∈ rows) → rows.flatMap (rowCells K) = groupCells K := by
  intro K
  induction K with
  | nil =>
    intro _
    have : ∀ i, rowCells [] i = [] := fun _ => rfl
    simp [this, groupCells]
  | cons x K ih =>
    intro hK
    have ihK := ih (fun kv h => hK kv (List.mem_cons_of_mem _ h))
    have hx := hK x List.mem_cons_self
    have hg : groupCells (x :: K) = insertCell x.1 x.2 (groupCells K) := rfl
    rw [hg, ← ihK]
    -- push the insertion to its row
    clear ihK hg ih hK
    induction rows with
    | nil => simp at hx
    | cons r rs ihr =>
      have hr : ∀ s ∈ rs, r < s := fun s hs' => List.rel_of_pairwise_cons hs hs'
      rw [List.flatMap_cons, List.flatMap_cons]
      by_cases hxr : x.1.1 = r
      · subst hxr
        rw [rowCells_cons_same, insertCell_append_right]
        · congr 1
          apply flatMap_congr_mem
          intro s hs'
          exact rowCells_cons_other x K (by have := hr s hs'; omega)
        · intro c hc
          obtain ⟨s, hs', hcs⟩ := List.mem_flatMap.mp hc
          have h1 := mem_rowCells_row hcs
          have h2 := hr s hs'
          left; omega
      · have hx' : x.1.1 ∈ rs := by
          rcases List.mem_cons.mp hx with h | h
          · exact absurd h hxr
          · exact h
        rw [rowCells_cons_other x K hxr, insertCell_append_left, ihr (List.Pairwise.of_cons hs) hx']
        intro c hc
        have h1 := mem_rowCells_row hc
        have h2 := hr _ hx'
        left; omega

/-- a row of the table is a row of its chromosome's group -/
theorem group_index_of {bins : BinTable} (hs : ChromSorted bins) {i : Nat} {b : Bin}
    (h : bins[i]? = some b) :
    ∃ k, i = chromOff bins b.chrom + k ∧ (groupOf bins b.chrom)[k]? = some b := by
  have e := sorted_split hs b.chrom
  have hlt : i < bins.length := by
    rcases Nat.lt_or_ge i bins.length with h' | h'
    · exact h'
    · rw [List.getElem?_eq_none h'] at h; simp at h
  rw [congrArg (fun l => l[i]?) e, List.append_assoc] at h
  rcases Nat.lt_or_ge i (chromOff bins b.chrom) with h1 | h1
  · rw [List.getElem?_append_left (by rw [← chromOff_eq_length]; exact h1)] at h
    have := (List.mem_filter.mp (List.mem_of_getElem? h)).2
    simp at this
  · rw [List.getElem?_append_right (by rw [← chromOff_eq_length]; exact h1), ← chromOff_eq_length] at h
    rcases Nat.lt_or_ge (i - chromOff bins b.chrom) (groupOf bins b.chrom).length with h2 | h2
    · rw [List.getElem?_append_left (by rw [← groupOf_eq_filter]; exact h2), ← groupOf_eq_filter] at h
      exact ⟨i - chromOff bins b.chrom, by omega, h⟩
    · rw [List.getElem?_append_right (by rw [← groupOf_eq_filter]; exact h2)] at h
      have := (List.mem_filter.mp (List.mem_of_getElem? h)).2
      simp at this

/-- in a valid table the bin of chromosome `c` containing `p` is unique: a row that contains the
position IS the row `binOf` reports -/
theorem binOf_of_contains {bins : BinTable} (hT : TableOK bins) {i : Nat} {b : Bin}
    (hb : bins[i]? = some b) {p : Nat} (h1 : b.start ≤ p) (h2 : p < b.stop) :
    binOfNat bins b.chrom p = some i := by
  obtain ⟨k, rfl, hk⟩ := group_index_of hT.1 hb
  have hne : groupOf bins b.chrom ≠ [] := by
    intro e; rw [e] at hk; simp at hk
  have hv := hT.2 _ (groupOf_mem_groups hne)
  exact binOfNat_of_group hT.1 hv.2 hk h1 h2

/-- the first side of a fetched record decides the row: the index lookup and the bin assignment agree -/
theorem fetched_iff {bins : BinTable} (hT : TableOK bins) {bs : Option Nat}
    (hbs : ∀ b, bs = some b → ∀ g ∈ groups bins, UniformChrom b g) {i : Nat} {b : Bin}
    (hb : bins[i]? = some b) {c1 : Nat} {p1 : Int} (h0 : 0 ≤ p1) (hL : p1 < (chromLen bins c1 : Int)) :
    (b.chrom = c1 ∧ (b.start : Int) ≤ p1 ∧ p1 < (b.stop : Int)) ↔ assignBin bins bs c1 p1 = (i : Int) := by
  have ha := assign_eq_binOf hT hbs h0 hL
  constructor
  · rintro ⟨rfl, h1, h2⟩
    obtain ⟨p, rfl⟩ := Int.eq_ofNat_of_zero_le h0
    have := binOf_of_contains hT hb (p := p) (by omega) (by omega)
    unfold binOf at ha
    have hneg : ¬ ((p : Int) < 0) := by omega
    simp only [hneg, if_false, Int.toNat_natCast, this, Option.map_some] at ha
    exact (Option.some.inj ha).symm
  · intro h
    rw [h] at ha
    obtain ⟨_, _, b', hb', hc, hs1, hs2⟩ := binOf_sound ha
    simp only [Int.toNat_natCast] at hb'
    rw [hb] at hb'
    have := Option.some.inj hb'
    subst this
    exact ⟨hc, hs1, hs2⟩

theorem filterMap_congr_mem {α β : Type} {l : List α} {f g : α → Option β} (h : ∀ a ∈ l, f a = g a) :
    l.filterMap f = l.filterMap g := by
  induction l with
  | nil => rfl
  | cons x l ih =>
    rw [List.filterMap_cons, List.filterMap_cons, h x List.mem_cons_self,
      ih (fun a ha => h a (List.mem_cons_of_mem _ ha))]

/-- the anchor of one line of the indexed file -/
def tbxAnchor (oneBased : Bool) (r : TbxRec) : Option Anchor :=
  anchorOf false ⟨r.c1, r.p1, r.c2, r.p2 - (if oneBased then 1 else 0), [], [], []⟩

theorem tbx_anchors (oneBased : Bool) (file : List TbxRec) :
    anchors { tril := .keep } (tbxRecs oneBased file) = file.filterMap (tbxAnchor oneBased) := by
  unfold anchors tbxRecs
  rw [List.filterMap_map]
  rfl

theorem tbxHits_eq {bins : BinTable} (hT : TableOK bins) (oneBased : Bool) (file : List TbxRec)
    (hin : ∀ a ∈ anchors { tril := .keep } (tbxRecs oneBased file), a.inside bins) {i : Nat} {b : Bin}
    (hb : bins[i]? = some b) :
    tbxHits bins (getBinsize bins) oneBased file i b =
      ((anchors { tril := .keep } (tbxRecs oneBased file)).map (keyOf bins (getBinsize bins))).filter
        fun kv => decide (kv.1.1 = (i : Int)) := by
  rw [tbx_anchors] at hin ⊢
  unfold tbxHits tbxFetch
  rw [List.filterMap_filter, List.map_filterMap, List.filter_filterMap]
  apply filterMap_congr_mem
  intro r hr
  cases hc1 : r.c1 with
  | none => simp [tbxAnchor, anchorOf, hc1]
  | some c1 =>
    cases hc2 : r.c2 with
    | none => simp [tbxAnchor, anchorOf, hc1, hc2]
    | some c2 =>
      have ha : tbxAnchor oneBased r = some ⟨c1, r.p1, c2, r.p2 - (if oneBased then 1 else 0), 0⟩ := by
        simp [tbxAnchor, anchorOf, hc1, hc2, firstVal]
      have hins := hin _ (List.mem_filterMap.mpr ⟨r, hr, ha⟩)
      obtain ⟨i1, i2, _, _⟩ := hins
      have hiff := fetched_iff hT (binsize_truthful hT) hb (c1 := c1) (p1 := r.p1) i1 i2
      rw [ha]
      simp only [Option.map_some, keyOf, Option.filter_some]
      by_cases hf : b.chrom = c1 ∧ (b.start : Int) ≤ r.p1 ∧ r.p1 < (b.stop : Int)
      · have hk := hiff.mp hf
        simp [hf.1, hf.2.1, hf.2.2, hk]
      · have hk : ¬ assignBin bins (getBinsize bins) c1 r.p1 = (i : Int) := fun h => hf (hiff.mpr h)
        simp [hk]
        intro h1 h2
        apply Classical.byContradiction
        intro h3
        exact hf ⟨h1.symm, h2, by omega⟩

/-- **tabix_correct**: on a valid table, for an indexed file whose records on known chromosomes lie
inside their chromosomes, the stream `TabixAggregator` produces (row by row through the index) is the
aggregate `sanitize_records` ∘ `aggregate_records` gives for the same records — each record counted
once, in the pixel of its two anchors.  (pysam's `fetch` is the primitive `tbxFetch`.) -/
theorem tabix_correct {bins : BinTable} (hT : TableOK bins) (oneBased : Bool) (file : List TbxRec)
    (hin : ∀ a ∈ anchors { tril := .keep } (tbxRecs oneBased file), a.inside bins) :
    aggregated bins { tril := .keep } (tbxRecs oneBased file) = .ok (tabixAggregate bins oneBased file) := by
  have hK : aggregated bins { tril := .keep } (tbxRecs oneBased file) =
      .ok (groupCells ((anchors { tril := .keep } (tbxRecs oneBased file)).map (keyOf bins (getBinsize bins)))) := by
    rw [aggregated_eq, pipeline_of_inside _ _ hin]
    simp [aggOf, orientAnchors]
  rw [hK]
  congr 1
  generalize hKdef : (anchors { tril := .keep } (tbxRecs oneBased file)).map (keyOf bins (getBinsize bins)) = K
  -- rows
  have hrows : tabixAggregate bins oneBased file =
      ((List.range bins.length).map Int.ofNat).flatMap (rowCells K) := by
    unfold tabixAggregate
    rw [List.flatMap_map]
    have hz : ((List.range bins.length).zip bins).flatMap
          (fun ib => tbxRow bins (getBinsize bins) oneBased file ib.1 ib.2)
        = ((List.range bins.length).zip bins).flatMap (fun ib => rowCells K (Int.ofNat ib.1)) := by
      apply flatMap_congr_mem
      intro ib hib
      have hi := List.of_mem_zip hib
      have hget : bins[ib.1]? = some ib.2 := by
        obtain ⟨k, hk1, hk2⟩ := List.mem_iff_getElem.mp hib
        have hk1' : k < bins.length := by simp at hk1; omega
        have : ib = (k, bins[k]) := by
          rw [← hk2]; simp
        rw [this]
        exact List.getElem?_eq_getElem hk1'
      unfold tbxRow rowCells
      rw [tbxHits_eq hT oneBased file hin hget, hKdef]
      rfl
    rw [hz]
    have : ((List.range bins.length).zip bins).flatMap (fun ib => rowCells K (Int.ofNat ib.1))
        = (((List.range bins.length).zip bins).map Prod.fst).flatMap (fun i => rowCells K (Int.ofNat i)) := by
      rw [List.flatMap_map]
    rw [this, List.map_fst_zip (by simp)]
  rw [hrows]
  apply (rows_flatMap_eq _ ?_ K ?_).symm
  · rw [List.pairwise_map]
    exact (List.pairwise_lt_range).imp (fun h => by simp only [Int.ofNat_eq_natCast]; omega)
  · intro kv hkv
    rw [← hKdef] at hkv
    obtain ⟨a, ha, rfl⟩ := List.mem_map.mp hkv
    obtain ⟨h1, h2, _, _⟩ := hin a ha
    have hb := assign_eq_binOf hT (binsize_truthful hT) h1 h2
    obtain ⟨_, hnn, b, hb', _⟩ := binOf_sound hb
    have hlt : (assignBin bins (getBinsize bins) a.c1 a.a1).toNat < bins.length := by
      rcases Nat.lt_or_ge (assignBin bins (getBinsize bins) a.c1 a.a1).toNat bins.length with h' | h'
      · exact h'
      · rw [List.getElem?_eq_none h'] at hb'; simp at hb'
    simp only [keyOf, List.mem_map, List.mem_range]
    exact ⟨_, hlt, by simp only [Int.ofNat_eq_natCast]; omega⟩

/-- non-vacuity of `tabix_correct`: a four-line file (one line with an unknown second chromosome),
one-based second positions; hypotheses hold and the stream is the expected one -/
example : TableOK [⟨0, 0, 2⟩, ⟨0, 2, 4⟩, ⟨1, 0, 3⟩] ∧
    (∀ a ∈ anchors { tril := .keep } (tbxRecs true
        [⟨some 0, 1, some 1, 3⟩, ⟨some 0, 3, some 0, 4⟩, ⟨some 0, 3, none, 9⟩, ⟨some 0, 1, some 1, 1⟩]),
      a.inside [⟨0, 0, 2⟩, ⟨0, 2, 4⟩, ⟨1, 0, 3⟩]) ∧
    tabixAggregate [⟨0, 0, 2⟩, ⟨0, 2, 4⟩, ⟨1, 0, 3⟩] true
      [⟨some 0, 1, some 1, 3⟩, ⟨some 0, 3, some 0, 4⟩, ⟨some 0, 3, none, 9⟩, ⟨some 0, 1, some 1, 1⟩]
      = [⟨(0, 2), 2, 0⟩, ⟨(1, 1), 1, 0⟩] := by
  refine ⟨⟨by decide, ?_⟩, by decide, by decide⟩
  intro g hg
  have : g ∈ [[(⟨0, 0, 2⟩ : Bin), ⟨0, 2, 4⟩], [⟨1, 0, 3⟩]] := by
    simpa [groups, chromOrder, groupOf] using hg
  simp at this
  rcases this with h | h <;> subst h <;> decide

end Cooler.C05
