-- C02 — property theorems: index builder and create (C02Core), merge / unordered producers (C02Producers)
import CoolerModel.Props.C02Core
import CoolerModel.Props.C02Producers
import CoolerModel.Props.C02Runs
import CoolerModel.Props.C02Sorted
