-- C07 — property theorems: merger = aggregate (C07Core) and the breakpoint loop's contract (C07Break)
import CoolerModel.Props.C07Core
import CoolerModel.Props.C07Break
import CoolerModel.Props.C07Agg
import CoolerModel.Props.C07Compat
import CoolerModel.Props.C07Dtype
