-- C03 — property theorems: query engines (C03Core) and dense output (C03Dense)
import CoolerModel.Props.C03Core
import CoolerModel.Props.C03Dense
