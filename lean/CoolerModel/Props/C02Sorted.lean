import CoolerModel.Model.Create
import CoolerModel.Props.C02Core
/-!
# C02 (continued) — ordered creation with `ensure_sorted=True`, for bin tables of ANY size

`create(..., ensure_sorted=True)` is documented to take a stream of chunks that follow one another in
key order while the records INSIDE a chunk come in any order: the validator sorts every chunk by
`(bin1_id, bin2_id)` before it is written.  Whatever sorting procedure is used (only its contract is
assumed: the result is a permutation of the chunk ordered by the lexicographic key) the written
collection satisfies every schema clause — with no bound on the number of bins or on the ids.

A sort by ONE linearised key `bin1_id * n_bins + bin2_id` orders records exactly like the
lexicographic key as long as the arithmetic is exact (`linKey_lt_iff`); in 32-bit arithmetic it does
not as soon as `n_bins > 46340` (`linKey_int32_witness`: on a 50 000-bin table the record
`(44999, 45000)` gets a smaller wrapped key than `(3, 3)`).  That is why the correspondence gives the
id arrays in every integer dtype on tables of 33 000 – 70 000 bins (check `bigtable`).
-/
set_option linter.unusedSimpArgs false
set_option linter.unusedVariables false

namespace Cooler.C02
open Cooler Cooler.Create

/-- the chunks follow one another in key order: every key of an earlier chunk is below every key of
a later chunk (nothing is said about the order inside a chunk) -/
def MutuallyOrdered (chunks : List Pixels) : Prop :=
  chunks.Pairwise fun a b => ∀ p ∈ a, ∀ q ∈ b, keyLt p q

/-- no pixel twice inside one chunk (what `dupcheck` demands) -/
def ChunkKeysNodup (ps : Pixels) : Prop := (ps.map fun p => (p.i, p.j)).Nodup

/-- contract of the per-chunk sorter (`DataFrame.sort_values(["bin1_id", "bin2_id"])`, any algorithm):
a permutation of the chunk, ordered by the lexicographic key -/
def SortsChunks (f : Pixels → Pixels) : Prop :=
  ∀ c, (f c).Perm c ∧ (f c).Pairwise fun a b => keyLe a b = true

theorem strictSorted_of_sorted_nodup (s c : Pixels) (hp : s.Perm c)
    (hs : s.Pairwise fun a b => keyLe a b = true) (hk : ChunkKeysNodup c) : StrictSorted s := by
  have hk' : ChunkKeysNodup s := by
    unfold ChunkKeysNodup at *
    exact ((hp.map _).nodup_iff).mpr hk
  unfold StrictSorted
  unfold ChunkKeysNodup List.Nodup at hk'
  rw [List.pairwise_map] at hk'
  refine List.Pairwise.imp₂ ?_ hs hk'
  intro a b hle hne
  simp only [keyLe, Bool.or_eq_true, Bool.and_eq_true, decide_eq_true_eq] at hle
  unfold keyLt
  by_cases h : a.i = b.i
  · have : a.j ≠ b.j := fun hj => hne (by rw [h, hj])
    omega
  · omega

/-- the stream the validator hands to the writer is strictly sorted as a whole -/
theorem sortedChunks_flatten_strict (f : Pixels → Pixels) (hf : SortsChunks f) :
    ∀ (chunks : List Pixels), (∀ c ∈ chunks, ChunkKeysNodup c) → MutuallyOrdered chunks →
      StrictSorted (chunks.map f).flatten := by
  intro chunks
  induction chunks with
  | nil => intro _ _; simp [StrictSorted]
  | cons c cs ih =>
    intro hk ho
    unfold MutuallyOrdered at ho
    rw [List.pairwise_cons] at ho
    simp only [List.map_cons, List.flatten_cons]
    unfold StrictSorted
    rw [List.pairwise_append]
    refine ⟨?_, ?_, ?_⟩
    · exact strictSorted_of_sorted_nodup (f c) c (hf c).1 (hf c).2 (hk c (by simp))
    · exact ih (fun c' hc' => hk c' (by simp [hc'])) ho.2
    · intro a ha b hb
      have ha' : a ∈ c := (hf c).1.mem_iff.mp ha
      obtain ⟨l, hl, hbl⟩ := List.mem_flatten.mp hb
      obtain ⟨c', hc', rfl⟩ := List.mem_map.mp hl
      have hb' : b ∈ c' := (hf c').1.mem_iff.mp hbl
      exact ho.1 c' hc' a ha' b hb'

/-- **create_sortedChunks_valid**: ordered creation with `ensure_sorted=True` — chunks in key order,
records inside a chunk in ANY order, no pixel twice in a chunk, ids in range (upper triangular in
symmetric-upper mode) — writes a collection satisfying every schema clause, for every per-chunk
sorter meeting its contract and for bin tables and ids of any magnitude. -/
theorem create_sortedChunks_valid (f : Pixels → Pixels) (hf : SortsChunks f)
    (nchroms : Nat) (binChrom : List Nat) (symm : Bool) (chunks : List Pixels)
    (hbs : NonDecr binChrom) (hbn : ∀ c ∈ binChrom, c < nchroms)
    (hk : ∀ c ∈ chunks, ChunkKeysNodup c) (ho : MutuallyOrdered chunks)
    (hr : ∀ c ∈ chunks, InRange binChrom.length c) (ht : symm = true → ∀ c ∈ chunks, Triu c) :
    ValidCooler (createStore nchroms binChrom symm (chunks.map f)) := by
  have hmem : ∀ p ∈ (chunks.map f).flatten, ∃ c ∈ chunks, p ∈ c := by
    intro p hp
    obtain ⟨l, hl, hpl⟩ := List.mem_flatten.mp hp
    obtain ⟨c, hc, rfl⟩ := List.mem_map.mp hl
    exact ⟨c, hc, (hf c).1.mem_iff.mp hpl⟩
  apply create_valid nchroms binChrom symm _ hbs hbn
  · exact sortedChunks_flatten_strict f hf chunks hk ho
  · intro p hp
    obtain ⟨c, hc, hpc⟩ := hmem p hp
    exact hr c hc p hpc
  · intro hsym p hp
    obtain ⟨c, hc, hpc⟩ := hmem p hp
    exact ht hsym c hc p hpc

theorem keyLe_trans' (a b c : Px) : keyLe a b = true → keyLe b c = true → keyLe a c = true := by
  simp only [keyLe, Bool.or_eq_true, Bool.and_eq_true, decide_eq_true_eq]
  omega

theorem keyLe_total' (a b : Px) : (keyLe a b || keyLe b a) = true := by
  simp only [keyLe, Bool.or_eq_true, Bool.and_eq_true, decide_eq_true_eq]
  omega

/-- the model's sorter (`sortByKey`, a merge sort by the lexicographic key) meets the contract -/
theorem sortByKey_sortsChunks : SortsChunks sortByKey := fun c =>
  ⟨List.mergeSort_perm c keyLe, List.pairwise_mergeSort keyLe_trans' keyLe_total' c⟩

/-- **create_ensureSorted_valid**: the instance for the model's sorter -/
theorem create_ensureSorted_valid (nchroms : Nat) (binChrom : List Nat) (symm : Bool) (chunks : List Pixels)
    (hbs : NonDecr binChrom) (hbn : ∀ c ∈ binChrom, c < nchroms)
    (hk : ∀ c ∈ chunks, ChunkKeysNodup c) (ho : MutuallyOrdered chunks)
    (hr : ∀ c ∈ chunks, InRange binChrom.length c) (ht : symm = true → ∀ c ∈ chunks, Triu c) :
    ValidCooler (createStore nchroms binChrom symm (chunks.map sortByKey)) :=
  create_sortedChunks_valid sortByKey sortByKey_sortsChunks nchroms binChrom symm chunks hbs hbn hk ho hr ht

/-- non-vacuity: two chunks in key order, each shuffled inside (rows out of order in the first, columns of one row
out of order in the second) -/
example : MutuallyOrdered [[⟨1, 2, 5⟩, ⟨0, 0, 1⟩, ⟨0, 2, 2⟩], [⟨2, 2, 7⟩, ⟨1, 3, 4⟩, ⟨2, 3, 1⟩]] := by
  unfold MutuallyOrdered; decide
example : ValidCooler (createStore 2 [0, 0, 1, 1] true
    ([[⟨1, 2, 5⟩, ⟨0, 0, 1⟩, ⟨0, 2, 2⟩], [⟨2, 2, 7⟩, ⟨1, 3, 4⟩, ⟨2, 3, 1⟩]].map sortByKey)) :=
  create_ensureSorted_valid 2 [0, 0, 1, 1] true _ (by unfold NonDecr; decide) (by decide)
    (by unfold ChunkKeysNodup; decide) (by unfold MutuallyOrdered; decide) (by unfold InRange; decide)
    (by unfold Triu; decide)
/-- ... and WITHOUT the per-chunk sort the same stream is not a valid collection -/
example : ¬ ValidCooler (createStore 2 [0, 0, 1, 1] true
    [[⟨1, 2, 5⟩, ⟨0, 0, 1⟩, ⟨0, 2, 2⟩], [⟨2, 2, 7⟩, ⟨1, 3, 4⟩, ⟨2, 3, 1⟩]]) := by decide

/-! ### one linearised key instead of the pair -/

/-- **linKey_lt_iff**: with exact arithmetic, `i * n + j` orders in-range records exactly like the
lexicographic key `(i, j)` — for every table size `n` -/
theorem linKey_lt_iff (n i j i' j' : Nat) (hj : j < n) (hj' : j' < n) :
    i * n + j < i' * n + j' ↔ (i < i' ∨ (i = i' ∧ j < j')) := by
  constructor
  · intro h
    by_cases hlt : i < i'
    · exact Or.inl hlt
    · by_cases heq : i = i'
      · subst heq
        exact Or.inr ⟨rfl, by omega⟩
      · exfalso
        have h1 : (i' + 1) * n ≤ i * n := Nat.mul_le_mul_right n (by omega)
        rw [Nat.add_mul] at h1
        omega
  · intro h
    rcases h with hlt | ⟨heq, hjj⟩
    · have h1 : (i + 1) * n ≤ i' * n := Nat.mul_le_mul_right n (by omega)
      rw [Nat.add_mul] at h1
      omega
    · subst heq
      omega

/-- two's-complement wrap-around of a 32-bit signed integer -/
def wrapInt32 (x : Int) : Int := (x + 2147483648) % 4294967296 - 2147483648

/-- the same key computed in int32 (what `bin1_id * n_bins + bin2_id` yields for int32 id arrays) -/
def linKey32 (n i j : Nat) : Int := wrapInt32 (wrapInt32 ((i : Int) * (n : Int)) + (j : Int))

/-- **linKey_int32_witness**: on a 50 000-bin table the int32 key puts `(44999, 45000)` BEFORE `(3, 3)`;
on tables of at most 46 340 bins (products below 2^31) this cannot happen -/
theorem linKey_int32_witness :
    linKey32 50000 44999 45000 < linKey32 50000 3 3 ∧ (3 < 44999) := by decide

/-- no wrap-around below 2^31: there the int32 key IS the exact key -/
theorem linKey32_exact (n i j : Nat) (h : i * n + j < 2147483648) :
    linKey32 n i j = ((i * n + j : Nat) : Int) := by
  have h1 : (i : Int) * (n : Int) = ((i * n : Nat) : Int) := by simp
  have h2 : i * n < 2147483648 := by omega
  unfold linKey32 wrapInt32
  rw [h1]
  omega

end Cooler.C02
