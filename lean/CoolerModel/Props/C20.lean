import CoolerModel.Model.Bins
/-!
# C20 — generated bin tables tile the genome; a reported bin size is always true

Property theorems only; every statement is about the definitions in `Model/Bins.lean`, which the
correspondence harness executes against `cooler.util.binnify`, `get_binsize`, `get_chromsizes`.
-/
namespace Cooler.C20
open Cooler

/-! ## binnify -/

theorem ceilDiv_pred_lt {L b : Nat} (hb : 1 ≤ b) (hL : 1 ≤ L) : (ceilDiv L b - 1) * b < L := by
  unfold ceilDiv
  have h1 : (L + b - 1) / b * b ≤ L + b - 1 := Nat.div_mul_le_self _ _
  have h2 : 1 ≤ (L + b - 1) / b := by
    rw [Nat.le_div_iff_mul_le (by omega)]; omega
  have : ((L + b - 1) / b - 1) * b = (L + b - 1) / b * b - b := by
    rw [Nat.sub_mul]; simp
  omega

theorem le_ceilDiv_mul {L b : Nat} (hb : 1 ≤ b) : L ≤ ceilDiv L b * b := by
  unfold ceilDiv
  have := Nat.lt_div_mul_add (a := L + b - 1) (b := b) (by omega)
  have h := Nat.div_add_mod (L + b - 1) b
  have hm := Nat.mod_lt (L + b - 1) (show b > 0 by omega)
  have : (L + b - 1) / b * b = b * ((L + b - 1) / b) := Nat.mul_comm _ _
  omega

theorem binEdges_length (L b : Nat) : (binEdges L b).length = ceilDiv L b + 1 := by
  simp [binEdges]

theorem binEdges_get_lt {L b k : Nat} (hk : k < ceilDiv L b) :
    (binEdges L b)[k]'(by rw [binEdges_length]; omega) = k * b := by
  unfold binEdges
  rw [List.getElem_append_left (by simpa using hk)]
  simp

theorem binEdges_get_last {L b : Nat} :
    (binEdges L b)[ceilDiv L b]'(by rw [binEdges_length]; omega) = L := by
  unfold binEdges
  rw [List.getElem_append_right (by simp)]
  simp

/-- the code's edge construction gives, per chromosome, exactly the promised tiling -/
theorem binnifyChrom_eq_spec (c L b : Nat) (hb : 1 ≤ b) :
    binnifyChrom c L b = tilingSpec c L b := by
  apply List.ext_getElem
  · simp [binnifyChrom, tilingSpec, binEdges_length]
  · intro k h1 h2
    have hk : k < ceilDiv L b := by simpa [tilingSpec] using h2
    simp only [binnifyChrom, tilingSpec, List.getElem_map, List.getElem_zip, List.getElem_range,
      List.getElem_tail]
    rw [binEdges_get_lt hk]
    have hL : 1 ≤ L := by
      rcases Nat.eq_zero_or_pos L with h | h
      · subst h
        have : (b - 1) / b = 0 := Nat.div_eq_of_lt (by omega)
        simp [ceilDiv, this] at hk
      · exact h
    by_cases hlast : k + 1 < ceilDiv L b
    · rw [binEdges_get_lt hlast]
      have := ceilDiv_pred_lt hb hL
      have hle : (k + 1) * b ≤ (ceilDiv L b - 1) * b := Nat.mul_le_mul_right _ (by omega)
      congr 1; omega
    · have : k + 1 = ceilDiv L b := by omega
      simp only [this, binEdges_get_last]
      have := le_ceilDiv_mul (L := L) hb
      congr 1; omega

/-- **binnify_tiles** (list form): `binnify` is the promised tiling, chromosome by chromosome in the
given order, for every size table and every width `≥ 1`. -/
theorem binnify_eq_spec (c0 : Nat) (sizes : List Nat) (b : Nat) (hb : 1 ≤ b) :
    binnifyFrom c0 sizes b = binnifySpecFrom c0 sizes b := by
  induction sizes generalizing c0 with
  | nil => rfl
  | cons L rest ih => simp [binnifyFrom, binnifySpecFrom, binnifyChrom_eq_spec c0 L b hb, ih]

theorem tilingSpec_length (c L b : Nat) : (tilingSpec c L b).length = ceilDiv L b := by
  simp [tilingSpec]

/-- bin `k` of the tiling is `[k·b, min((k+1)·b, L))` on chromosome `c` -/
theorem tilingSpec_get (c L b k : Nat) (hk : k < (tilingSpec c L b).length) :
    (tilingSpec c L b)[k] = ⟨c, k * b, min ((k + 1) * b) L⟩ := by
  simp [tilingSpec]

/-- the tiling has `⌈L/b⌉` bins, every bin is non-empty and the last one ends at `L` -/
theorem tilingSpec_nonempty_bins (c L b k : Nat) (hb : 1 ≤ b) (hL : 1 ≤ L)
    (hk : k < (tilingSpec c L b).length) :
    (tilingSpec c L b)[k].start < (tilingSpec c L b)[k].stop := by
  rw [tilingSpec_get]
  simp only
  rw [tilingSpec_length] at hk
  have := ceilDiv_pred_lt hb hL
  have hle : k * b ≤ (ceilDiv L b - 1) * b := Nat.mul_le_mul_right _ (by omega)
  have : k * b < (k + 1) * b := by rw [Nat.add_mul]; omega
  omega

theorem tilingSpec_last_stop (c L b : Nat) (hb : 1 ≤ b) (hL : 1 ≤ L) :
    lastStop (tilingSpec c L b) = L := by
  have hn : 1 ≤ ceilDiv L b := by
    unfold ceilDiv; rw [Nat.le_div_iff_mul_le (by omega)]; omega
  unfold lastStop
  have hlen : ((tilingSpec c L b).map Bin.stop).length = ceilDiv L b := by simp [tilingSpec]
  rw [List.getLast?_eq_getElem?]
  simp only [hlen]
  rw [List.getElem?_eq_getElem (by rw [hlen]; omega)]
  simp only [Option.getD_some, List.getElem_map, tilingSpec_get]
  have := le_ceilDiv_mul (L := L) hb
  have : ceilDiv L b - 1 + 1 = ceilDiv L b := by omega
  rw [this]; omega

/-! ## get_binsize is truthful -/

theorem uniform_of_widths (b : Nat) :
    ∀ (g : List Bin) (k : Nat), g ≠ [] → TilesFrom (k * b) g →
      (∀ w ∈ nonLastWidths g, w = b) → lastWidth g ≤ b →
      UniformFrom b (lastStop g) k g := by
  intro g
  induction g with
  | nil => intro k h; exact absurd rfl h
  | cons x rest ih =>
    intro k _ ht hw hl
    obtain ⟨hs, hpos, hrest⟩ := ht
    cases rest with
    | nil =>
      simp only [UniformFrom, lastStop, List.map, List.getLast?_singleton, Option.getD_some]
      simp only [lastWidth, widths, List.map, List.getLast?_singleton, Option.getD_some,
        Bin.width] at hl
      refine ⟨hs, ?_, trivial⟩
      rw [Nat.add_mul]; omega
    | cons y rest' =>
      have hxw : x.width = b := by
        apply hw
        simp [nonLastWidths, widths]
      have hstop : x.stop = (k + 1) * b := by
        unfold Bin.width at hxw; rw [Nat.add_mul]; omega
      have hls : lastStop (x :: y :: rest') = lastStop (y :: rest') := by
        simp [lastStop, List.getLast?_cons_cons]
      have hlw : lastWidth (x :: y :: rest') = lastWidth (y :: rest') := by
        simp [lastWidth, widths, List.getLast?_cons_cons]
      have hnl : ∀ w ∈ nonLastWidths (y :: rest'), w = b := by
        intro w hwm
        apply hw
        simp only [nonLastWidths, widths, List.map_cons, List.dropLast_cons_cons] at hwm ⊢
        exact List.mem_cons_of_mem _ hwm
      have ih' := ih (k + 1) (by simp) (by rw [← hstop]; exact hrest) hnl (by rw [← hlw]; exact hl)
      rw [hls]
      refine ⟨hs, ?_, ih'⟩
      -- the chromosome end is at least the end of this bin
      have hge : ∀ (g : List Bin) (s : Nat), g ≠ [] → TilesFrom s g → s < lastStop g := by
        intro g
        induction g with
        | nil => intro s h; exact absurd rfl h
        | cons z zs ihz =>
          intro s _ hz
          obtain ⟨h1, h2, h3⟩ := hz
          cases zs with
          | nil => simp [lastStop]; omega
          | cons z' zs' =>
            have := ihz z.stop (by simp) h3
            simp only [lastStop, List.map_cons, List.getLast?_cons_cons] at this ⊢
            omega
      have := hge (y :: rest') x.stop (by simp) hrest
      omega

theorem getBinsizeG_some {gs : List (List Bin)} {b : Nat} (h : getBinsizeG gs = some b) :
    (∀ g ∈ gs, ∀ w ∈ nonLastWidths g, w = b) ∧ (∀ g ∈ gs, lastWidth g ≤ b) := by
  unfold getBinsizeG at h
  split at h
  · exact absurd h (by simp)
  · rename_i w ws heq
    split at h
    · rename_i hc
      simp only [Option.some.injEq] at h
      subst h
      simp only [Bool.and_eq_true, List.all_eq_true, beq_iff_eq, decide_eq_true_eq] at hc
      refine ⟨?_, hc.2⟩
      intro g hg x hx
      have : x ∈ gs.flatMap nonLastWidths := List.mem_flatMap.mpr ⟨g, hg, hx⟩
      rw [heq] at this
      rcases List.mem_cons.mp this with h | h
      · exact h
      · exact hc.1 x h
    · exact absurd h (by simp)

/-- **getBinsize_truthful**: on a table whose every chromosome is a valid tiling, a reported bin
size `b` means every bin is `[k·b, min((k+1)·b, length))`. -/
theorem getBinsize_truthful (gs : List (List Bin)) (b : Nat)
    (hv : ∀ g ∈ gs, ValidChrom g) (h : getBinsizeG gs = some b) :
    ∀ g ∈ gs, UniformChrom b g := by
  intro g hg
  obtain ⟨h1, h2⟩ := getBinsizeG_some h
  obtain ⟨hne, ht⟩ := hv g hg
  exact uniform_of_widths b g 0 hne (by simpa using ht) (h1 g hg) (h2 g hg)

/-- the legacy rule (no check of the last bins) is **not** truthful: machine-checked witness
`c0: [0,10) [10,25)` is reported as fixed size 10 although its last bin is 15 wide. -/
theorem getBinsizeLegacy_not_truthful :
    ∃ gs b, (∀ g ∈ gs, ValidChrom g) ∧ getBinsizeLegacyG gs = some b ∧ ¬ ∀ g ∈ gs, UniformChrom b g := by
  refine ⟨[[⟨0, 0, 10⟩, ⟨0, 10, 25⟩]], 10, ?_, by decide, ?_⟩
  · intro g hg; simp at hg; subst hg; decide
  · intro h
    have := h [⟨0, 0, 10⟩, ⟨0, 10, 25⟩] (by simp)
    simp [UniformChrom, UniformFrom, lastStop] at this

/-- non-vacuity: a concrete table meeting the hypotheses of `getBinsize_truthful` -/
example : (∀ g ∈ [[(⟨0, 0, 10⟩ : Bin), ⟨0, 10, 20⟩, ⟨0, 20, 25⟩], [⟨1, 0, 7⟩]], ValidChrom g) ∧
    getBinsizeG [[(⟨0, 0, 10⟩ : Bin), ⟨0, 10, 20⟩, ⟨0, 20, 25⟩], [⟨1, 0, 7⟩]] = some 10 := by
  constructor
  · intro g hg
    simp at hg
    rcases hg with h | h <;> subst h <;> decide
  · decide

/-- completeness: a uniform table in which some chromosome has two or more bins is reported -/
theorem uniformFrom_widths (b L : Nat) :
    ∀ (g : List Bin) (k : Nat), UniformFrom b L k g → (∀ x ∈ g, x.start < x.stop) →
      (∀ w ∈ nonLastWidths g, w = b) ∧ lastWidth g ≤ b := by
  intro g
  induction g with
  | nil => intro k _ _; simp [nonLastWidths, widths, lastWidth]
  | cons x rest ih =>
    intro k hu hpos
    obtain ⟨hs, he, hr⟩ := hu
    cases rest with
    | nil =>
      simp only [nonLastWidths, widths, List.map, List.dropLast, List.not_mem_nil, false_imp_iff,
        implies_true, true_and, lastWidth, List.getLast?_singleton, Option.getD_some, Bin.width]
      rw [Nat.add_mul] at he; omega
    | cons y rest' =>
      have ih' := ih (k + 1) hr (fun z hz => hpos z (List.mem_cons_of_mem _ hz))
      have hy : y.start = (k + 1) * b := hr.1
      have hyp := hpos y (by simp)
      have hye : y.stop = min ((k + 1 + 1) * b) L := hr.2.1
      have hxw : x.width = b := by
        unfold Bin.width
        have : (k + 1) * b < L := by omega
        rw [Nat.add_mul] at *; omega
      constructor
      · intro w hw
        simp only [nonLastWidths, widths, List.map_cons, List.dropLast_cons_cons, List.mem_cons] at hw
        rcases hw with h | h
        · omega
        · exact ih'.1 w (by simpa [nonLastWidths, widths] using h)
      · simpa [lastWidth, widths, List.getLast?_cons_cons] using ih'.2

theorem getBinsize_complete (gs : List (List Bin)) (b : Nat)
    (hu : ∀ g ∈ gs, UniformChrom b g) (hpos : ∀ g ∈ gs, ∀ x ∈ g, x.start < x.stop)
    (h2 : ∃ g ∈ gs, 2 ≤ g.length) : getBinsizeG gs = some b := by
  have hall : ∀ g ∈ gs, (∀ w ∈ nonLastWidths g, w = b) ∧ lastWidth g ≤ b :=
    fun g hg => uniformFrom_widths b _ g 0 (hu g hg) (hpos g hg)
  unfold getBinsizeG
  split
  · rename_i heq
    obtain ⟨g, hg, hl⟩ := h2
    have : nonLastWidths g ≠ [] := by
      unfold nonLastWidths widths
      intro hnil
      have := congrArg List.length hnil
      simp at this; omega
    obtain ⟨w, hw⟩ := List.exists_mem_of_ne_nil _ this
    have : w ∈ gs.flatMap nonLastWidths := List.mem_flatMap.mpr ⟨g, hg, hw⟩
    rw [heq] at this; simp at this
  · rename_i w ws heq
    have hmem : ∀ x ∈ w :: ws, x = b := by
      intro x hx
      rw [← heq] at hx
      obtain ⟨g, hg, hxg⟩ := List.mem_flatMap.mp hx
      exact (hall g hg).1 x hxg
    have hw : w = b := hmem w (by simp)
    subst hw
    have : (ws.all (· == w) && gs.all (fun g => decide (lastWidth g ≤ w))) = true := by
      simp only [Bool.and_eq_true, List.all_eq_true, beq_iff_eq, decide_eq_true_eq]
      exact ⟨fun x hx => hmem x (List.mem_cons_of_mem _ hx), fun g hg => (hall g hg).2⟩
    simp [this]

/-! ## get_chromsizes -/

/-- **getChromsizes_spec**: `(c, L)` is reported iff `L` is the end of the last bin of chromosome `c`
(the table splits as `pre ++ [bin] ++ post` with no bin of `c` in `post`). -/
theorem getChromsizes_mem (bins : BinTable) (c L : Nat) :
    (c, L) ∈ getChromsizes bins ↔
      ∃ pre x post, bins = pre ++ x :: post ∧ x.chrom = c ∧ x.stop = L ∧ ∀ y ∈ post, y.chrom ≠ c := by
  induction bins with
  | nil => simp [getChromsizes]
  | cons b rest ih =>
    unfold getChromsizes
    split
    · rename_i hany
      rw [ih]
      constructor
      · rintro ⟨pre, x, post, rfl, h1, h2, h3⟩
        exact ⟨b :: pre, x, post, rfl, h1, h2, h3⟩
      · rintro ⟨pre, x, post, heq, h1, h2, h3⟩
        cases pre with
        | nil =>
          simp only [List.nil_append, List.cons.injEq] at heq
          obtain ⟨rfl, rfl⟩ := heq
          simp only [List.any_eq_true, beq_iff_eq] at hany
          obtain ⟨y, hy, hyc⟩ := hany
          exact absurd (hyc.trans h1) (h3 y hy)
        | cons p pre' =>
          simp only [List.cons_append, List.cons.injEq] at heq
          exact ⟨pre', x, post, heq.2, h1, h2, h3⟩
    · rename_i hany
      simp only [List.any_eq_true, beq_iff_eq, not_exists, not_and] at hany
      rw [List.mem_cons, ih]
      constructor
      · rintro (h | ⟨pre, x, post, rfl, h1, h2, h3⟩)
        · simp only [Prod.mk.injEq] at h
          exact ⟨[], b, rest, rfl, h.1.symm, h.2.symm, fun y hy hc => hany y hy (hc.trans h.1)⟩
        · exact ⟨b :: pre, x, post, rfl, h1, h2, h3⟩
      · rintro ⟨pre, x, post, heq, h1, h2, h3⟩
        cases pre with
        | nil =>
          simp only [List.nil_append, List.cons.injEq] at heq
          obtain ⟨rfl, rfl⟩ := heq
          left; simp [h1, h2]
        | cons p pre' =>
          simp only [List.cons_append, List.cons.injEq] at heq
          right
          exact ⟨pre', x, post, heq.2, h1, h2, h3⟩

/-- each chromosome is reported once -/
theorem getChromsizes_nodup (bins : BinTable) : ((getChromsizes bins).map Prod.fst).Nodup := by
  induction bins with
  | nil => simp [getChromsizes]
  | cons b rest ih =>
    unfold getChromsizes
    split
    · exact ih
    · rename_i hany
      simp only [List.any_eq_true, beq_iff_eq, not_exists, not_and] at hany
      simp only [List.map_cons, List.nodup_cons, ih, and_true]
      intro hmem
      obtain ⟨⟨c, L⟩, hm, hc⟩ := List.mem_map.mp hmem
      simp only at hc
      obtain ⟨pre, x, post, heq, h1, _, _⟩ := (getChromsizes_mem rest c L).mp hm
      subst hc
      exact hany x (by rw [heq]; simp) h1

/-! ## binnify then infer the chromosome sizes: the identity -/

theorem getChromsizes_group_append (c : Nat) :
    ∀ (g t : BinTable), g ≠ [] → (∀ x ∈ g, x.chrom = c) → (∀ y ∈ t, y.chrom ≠ c) →
      getChromsizes (g ++ t) = (c, lastStop g) :: getChromsizes t := by
  intro g
  induction g with
  | nil => intro t h; exact absurd rfl h
  | cons x rest ih =>
    intro t _ hg ht
    have hx : x.chrom = c := hg x (by simp)
    cases rest with
    | nil =>
      have hany : (t.any fun y => y.chrom == x.chrom) = false := by
        rw [List.any_eq_false]
        intro y hy
        simp only [beq_iff_eq]
        rw [hx]; exact ht y hy
      show getChromsizes (x :: t) = _
      rw [getChromsizes, hany]
      simp [lastStop, hx]
    | cons y rest' =>
      have hany : ((y :: rest' ++ t).any fun z => z.chrom == x.chrom) = true := by
        rw [List.any_eq_true]
        exact ⟨y, by simp, by simp only [beq_iff_eq]; rw [hg y (by simp), hx]⟩
      show getChromsizes (x :: (y :: rest' ++ t)) = _
      rw [getChromsizes, if_pos hany]
      rw [ih t (by simp) (fun z hz => hg z (List.mem_cons_of_mem _ hz)) ht]
      simp [lastStop, List.getLast?_cons_cons]

theorem tilingSpec_chrom (c L b : Nat) : ∀ x ∈ tilingSpec c L b, x.chrom = c := by
  intro x hx
  simp only [tilingSpec, List.mem_map] at hx
  obtain ⟨k, _, rfl⟩ := hx
  rfl

theorem tilingSpec_ne_nil (c L b : Nat) (hb : 1 ≤ b) (hL : 1 ≤ L) : tilingSpec c L b ≠ [] := by
  intro h
  have := congrArg List.length h
  rw [tilingSpec_length] at this
  have hn : 1 ≤ ceilDiv L b := by
    unfold ceilDiv; rw [Nat.le_div_iff_mul_le (by omega)]; omega
  simp at this; omega

theorem binnifySpecFrom_chrom_ge (b : Nat) :
    ∀ (sizes : List Nat) (c0 : Nat), ∀ x ∈ binnifySpecFrom c0 sizes b, c0 ≤ x.chrom := by
  intro sizes
  induction sizes with
  | nil => intro c0 x hx; simp [binnifySpecFrom] at hx
  | cons L rest ih =>
    intro c0 x hx
    simp only [binnifySpecFrom, List.mem_append] at hx
    rcases hx with h | h
    · rw [tilingSpec_chrom c0 L b x h]; exact Nat.le_refl _
    · have := ih (c0 + 1) x h; omega

/-- **binnify_roundtrip**: the chromosome sizes inferred from a binned genome are the sizes it was
binned from, in order (lengths and width ≥ 1). -/
theorem binnify_roundtrip (b : Nat) (hb : 1 ≤ b) :
    ∀ (sizes : List Nat) (c0 : Nat), (∀ L ∈ sizes, 1 ≤ L) →
      getChromsizes (binnifyFrom c0 sizes b) = (sizes.zipIdx c0).map fun p => (p.2, p.1) := by
  intro sizes
  induction sizes with
  | nil => intro c0 _; simp [binnifyFrom, getChromsizes]
  | cons L rest ih =>
    intro c0 hL
    rw [binnify_eq_spec c0 (L :: rest) b hb]
    simp only [binnifySpecFrom]
    rw [getChromsizes_group_append c0 _ _ (tilingSpec_ne_nil c0 L b hb (hL L (by simp)))
      (tilingSpec_chrom c0 L b)
      (fun y hy => by have := binnifySpecFrom_chrom_ge b rest (c0 + 1) y hy; omega)]
    rw [tilingSpec_last_stop c0 L b hb (hL L (by simp)), ← binnify_eq_spec (c0 + 1) rest b hb,
      ih (c0 + 1) (fun x hx => hL x (List.mem_cons_of_mem _ hx))]
    simp [List.zipIdx_cons]

example : getChromsizes (binnify [25, 7, 10] 10) = [(0, 25), (1, 7), (2, 10)] := by decide

theorem zipIdx_swap_snd (sizes : List Nat) (c0 : Nat) :
    ((sizes.zipIdx c0).map fun p => (p.2, p.1)).map Prod.snd = sizes := by
  induction sizes generalizing c0 with
  | nil => rfl
  | cons L rest ih => simp [List.zipIdx_cons, ih (c0 + 1)]

/-- **binnify_regrid**: re-binning the chromosome sizes read back from a binned genome (the idiom
`binnify(clr.chromsizes, b)`) is binning the original sizes: whatever width `b0` the stored table
was made with, for every new width `b` (lengths of any magnitude: the model is over `Nat`). -/
theorem binnify_regrid (sizes : List Nat) (b0 b : Nat) (hb0 : 1 ≤ b0) (hL : ∀ L ∈ sizes, 1 ≤ L) :
    binnify ((getChromsizes (binnify sizes b0)).map Prod.snd) b = binnify sizes b := by
  unfold binnify
  rw [binnify_roundtrip b0 hb0 sizes 0 hL, zipIdx_swap_snd]

example : binnify ((getChromsizes (binnify [25, 7, 10] 10)).map Prod.snd) 4 = binnify [25, 7, 10] 4 := by
  decide


end Cooler.C20
