import CoolerModel.Model.Selectors
/-!
# C14 — table selectors and bin annotation return the rows and coordinates asked for
-/
namespace Cooler.C14
open Cooler Cooler.Tbl

/-- **processSlice_spec** -/
theorem processSlice_spec (n : Nat) (lo hi : Option Int) (hlo : InDom n lo) (hhi : InDom n hi) :
    processSlice n lo hi = (((pySliceIndices n lo hi).1 : Int), ((pySliceIndices n lo hi).2 : Int))
    ∧ (pySliceIndices n lo hi).1 ≤ n ∧ (pySliceIndices n lo hi).2 ≤ n := by
  cases lo <;> cases hi <;>
    simp only [processSlice, pySliceIndices, normBound, clampBound, InDom] at * <;>
    (repeat' split) <;> (refine ⟨?_, ?_, ?_⟩ <;> first | omega | (ext <;> simp <;> omega) | (simp; omega))

end Cooler.C14
