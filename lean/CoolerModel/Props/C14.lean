import CoolerModel.Model.Selectors
/-!
# C14 — table selectors and bin annotation return the rows and coordinates asked for

Every statement is about the definitions of `Model/Selectors.lean`, which the correspondence harness
(`harness/c14.py`) executes against `Cooler.chroms()/bins()/pixels()[…]`, `cooler.annotate` and
`_IndexingMixin._process_slice`.  All theorems hold for tables, pixel lists and offsets of any size.

Main theorems (helper lemmas in between):
* `processSlice_spec`, `processScalar_spec` — subscripts with bounds in `[-n, n] ∪ {None}` are Python's
  `slice.indices`; scalars in `[-n, n)` select one row, `k ≥ n` is an `IndexError`.
* `slice_rows` (+ `slice_rows_cell`, `cell_plain`, `cell_enum`) — `get` returns `rows.drop lo |>.take (hi-lo)`
  projected on the requested columns, labelled `lo..hi-1`.
* `selector_slice_rows`, `selector_slice_rows_wide` (bounds beyond the end), `selector_scalar_row`,
  `selector_slice_labels`, `tableGet_part`, `pixels_join_slice`
  — every in-domain key on any selector returns the corresponding part of the whole table, labelled
  with the row numbers.
* `column_selection_commutes`, `column_selection_commutes_one` — `sel[cols][key] = (sel[key])[cols]`.
* `annotate_correct`, `annotateSpec_ok`, `annotate_selector_correct`, `annotate_forms_agree`,
  `annotate_empty` — annotation against a whole frame, a selector or any sufficient contiguous part
  attaches to every pixel the rows of its own two bins, keeps order and index; both strategies.
* `chrom_decode_agree`, `chrom_decode_agree_frames` — enum and integer chromosome storage agree.
* `legacy_substring_rule_violates` — the pre-repair `"chrom" in fields` rule (D20) breaks the property.
-/
namespace Cooler.C14
open Cooler Cooler.Tbl

/-! ## 1. Subscripts -/

/-- **processSlice_spec** — for bounds in `[-n, n] ∪ {None}` the code's un-clamped normalisation is
Python's `slice(lo, hi).indices(n)[:2]` (the explicit clamping formula `clampBound`), and both ends lie
in `[0, n]`. -/
theorem processSlice_spec (n : Nat) (lo hi : Option Int) (hlo : InDom n lo) (hhi : InDom n hi) :
    processSlice n lo hi = (((pySliceIndices n lo hi).1 : Int), ((pySliceIndices n lo hi).2 : Int))
    ∧ (pySliceIndices n lo hi).1 ≤ n ∧ (pySliceIndices n lo hi).2 ≤ n := by
  cases lo <;> cases hi <;>
    simp only [processSlice, pySliceIndices, normBound, clampBound, InDom] at * <;>
    (repeat' split) <;> (refine ⟨?_, ?_, ?_⟩ <;> first | omega | (ext <;> simp <;> omega) | (simp; omega))

example : InDom 5 (some (-5)) ∧ InDom 5 none ∧ processSlice 5 (some (-2)) none = (3, 5) := by decide

/-- outside the domain the code really does not clamp (the observation recorded in DESIGN §6) -/
example : processSlice 8 (some (-9)) none = (-1, 8) ∧ pySliceIndices 8 (some (-9)) none = (0, 8) := by
  decide

/-- **processScalar_spec** — a scalar `k ∈ [-n, n)` selects the one row `k' = k mod n`;
`k ≥ n` is an `IndexError`. -/
theorem processScalar_spec (n : Nat) (k : Int) :
    (-(n : Int) ≤ k → k < n →
      processScalar n k = .ok ((if k < 0 then k + n else k), (if k < 0 then k + n else k) + 1)
      ∧ 0 ≤ (if k < 0 then k + n else k) ∧ (if k < 0 then k + n else k) < n)
    ∧ ((n : Int) ≤ k → processScalar n k = .error .index) := by
  constructor
  · intro h1 h2
    unfold processScalar
    by_cases hk : k < 0 <;> simp only [hk, if_true, if_false] <;>
      (refine ⟨?_, ?_, ?_⟩ <;> first | omega | (rw [if_neg (by omega)]))
  · intro h
    unfold processScalar
    have hk : ¬ k < 0 := by omega
    simp only [hk, if_false]
    rw [if_pos (by omega)]

example : processScalar 4 (-1) = .ok (3, 4) ∧ processScalar 4 4 = .error .index := by decide

/-- a slice key in the domain is read as the Python slice it spells -/
theorem processKey_slice (n : Nat) (lo hi : Option Int) (hlo : InDom n lo) (hhi : InDom n hi) :
    processKey n (.slice lo hi none) =
      .ok (((pySliceIndices n lo hi).1 : Int), ((pySliceIndices n lo hi).2 : Int)) := by
  simp only [processKey, true_or, if_true]
  rw [(processSlice_spec n lo hi hlo hhi).1]

/-! ## 2. List helpers -/

theorem labels_length (l0 : Int) (n : Nat) : (labels l0 n).length = n := by simp [labels]

theorem labels_getElem? (l0 : Int) (n k : Nat) :
    (labels l0 n)[k]? = if k < n then some (l0 + (k : Int)) else none := by
  unfold labels
  by_cases h : k < n
  · simp [h]
  · simp only [h, if_false]
    exact List.getElem?_eq_none (by simp; omega)

theorem getElem?_drop_take {α} (l : List α) (a k i : Nat) :
    ((l.drop a).take k)[i]? = if i < k then l[a + i]? else none := by
  rw [List.getElem?_take]
  by_cases h : i < k <;> simp [h, List.getElem?_drop]

/-- `l[a:b]` read through Python's clamping equals the plain `drop`/`take` -/
theorem drop_take_clamp {α} (l : List α) (a b : Nat) :
    (l.drop (min a l.length)).take (min b l.length - min a l.length) = (l.drop a).take (b - a) := by
  apply List.ext_getElem?
  intro i
  rw [getElem?_drop_take, getElem?_drop_take]
  by_cases ha : a ≤ l.length
  · rw [Nat.min_eq_left ha]
    by_cases hb : b ≤ l.length
    · rw [Nat.min_eq_left hb]
    · rw [Nat.min_eq_right (by omega)]
      by_cases h1 : i < l.length - a
      · rw [if_pos h1, if_pos (by omega)]
      · rw [if_neg h1]
        by_cases h2 : i < b - a
        · rw [if_pos h2]; exact (List.getElem?_eq_none (by omega)).symm
        · rw [if_neg h2]
  · rw [Nat.min_eq_right (show l.length ≤ a by omega)]
    have h1 : l[l.length + i]? = none := List.getElem?_eq_none (by omega)
    have h2 : l[a + i]? = none := List.getElem?_eq_none (by omega)
    rw [h1, h2]; simp

theorem labels_drop_take (l0 : Int) (n a k : Nat) :
    ((labels l0 n).drop a).take k = labels (l0 + (a : Int)) (min k (n - a)) := by
  apply List.ext_getElem?
  intro i
  rw [getElem?_drop_take, labels_getElem?, labels_getElem?]
  by_cases h1 : i < k
  · by_cases h2 : a + i < n
    · rw [if_pos h1, if_pos h2, if_pos (by omega)]; congr 1; omega
    · rw [if_pos h1, if_neg h2, if_neg (by omega)]
  · rw [if_neg h1, if_neg (by omega)]

/-! ## 3. `get`: the rows of the range, labelled with their row numbers -/

/-- `dset[lo:hi]` for `0 ≤ lo` -/
theorem pySlice_nat {α} (l : List α) (lo hi : Nat) :
    (l.drop (pySliceIndices l.length (some (lo : Int)) (some (hi : Int))).1).take
      ((pySliceIndices l.length (some (lo : Int)) (some (hi : Int))).2
        - (pySliceIndices l.length (some (lo : Int)) (some (hi : Int))).1)
    = (l.drop lo).take (hi - lo) := by
  have h1 : (pySliceIndices l.length (some (lo : Int)) (some (hi : Int))).1 = min lo l.length := by
    simp only [pySliceIndices, clampBound]
    rw [if_neg (by omega)]
    split <;> omega
  have h2 : (pySliceIndices l.length (some (lo : Int)) (some (hi : Int))).2 = min hi l.length := by
    simp only [pySliceIndices, clampBound]
    rw [if_neg (by omega)]
    split <;> omega
  rw [h1, h2, drop_take_clamp]

/-- the result of `get` in closed form: guards, then the plain row range -/
theorem tableGet_nat (t : Stored) (lo hi : Nat) (fs : List String) (series : Bool) :
    tableGet t lo (some (hi : Int)) fs series =
      if !(fs.all fun f => (lookupCol t.cols f).isSome) then .error .key
      else if !(((t.rows.drop lo).take (hi - lo)).all fun r => fs.all fun f => cellOk t r f) then .error .value
      else if fs.isEmpty then .ok ⟨[], [], [], series⟩
      else .ok ⟨fs, labels lo ((t.rows.drop lo).take (hi - lo)).length,
                ((t.rows.drop lo).take (hi - lo)).map (fun r => fs.map (cell t r)), series⟩ := by
  unfold tableGet
  simp only [pySlice_nat]

/-- **slice_rows** — for a range `lo ≤ hi ≤ len` and any non-empty list of existing columns (whose
cells are decodable) `get` returns exactly the stored rows `lo, …, hi-1` (`drop lo |>.take (hi-lo)`),
each projected on the requested columns in the requested order, labelled `lo, …, hi-1`. -/
theorem slice_rows (t : Stored) (lo hi : Nat) (fs : List String) (series : Bool)
    (hle : lo ≤ hi) (hhi : hi ≤ t.rows.length) (hfs : fs ≠ [])
    (hcols : ∀ f ∈ fs, (lookupCol t.cols f).isSome = true)
    (hcodes : ∀ r ∈ t.rows, ∀ f ∈ fs, cellOk t r f = true) :
    tableGet t lo (some (hi : Int)) fs series =
      .ok ⟨fs, labels lo (hi - lo),
           ((t.rows.drop lo).take (hi - lo)).map (fun r => fs.map (cell t r)), series⟩ := by
  rw [tableGet_nat]
  have h1 : (fs.all fun f => (lookupCol t.cols f).isSome) = true := List.all_eq_true.mpr hcols
  have h2 : (((t.rows.drop lo).take (hi - lo)).all fun r => fs.all fun f => cellOk t r f) = true := by
    apply List.all_eq_true.mpr
    intro r hr
    apply List.all_eq_true.mpr
    intro f hf
    exact hcodes r (List.mem_of_mem_drop (List.mem_of_mem_take hr)) f hf
  have h3 : fs.isEmpty = false := by cases fs <;> simp_all
  have h4 : ((t.rows.drop lo).take (hi - lo)).length = hi - lo := by
    rw [List.length_take, List.length_drop]; omega
  simp [h1, h2, h3, h4]

/-- position and encoding returned by `lookupCol` really are those of the (first) column of that name -/
theorem lookupCol_spec (cols : List (String × Enc)) (f : String) (k : Nat) (e : Enc)
    (h : lookupCol cols f = some (k, e)) : cols[k]? = some (f, e) := by
  induction cols generalizing k with
  | nil => simp [lookupCol] at h
  | cons c cs ih =>
    obtain ⟨c, e'⟩ := c
    unfold lookupCol at h
    by_cases hc : c = f
    · simp only [hc, if_true, Option.some.injEq, Prod.mk.injEq] at h
      obtain ⟨rfl, rfl⟩ := h
      simp [hc]
    · simp only [hc, if_false, Option.map_eq_some_iff] at h
      obtain ⟨⟨k', e''⟩, hk, heq⟩ := h
      simp only [Prod.mk.injEq] at heq
      obtain ⟨rfl, rfl⟩ := heq
      simpa using ih k' hk

/-- a cell of a non-enum column is the stored cell … -/
theorem cell_plain (t : Stored) (r : Row) (f : String) (k : Nat) (e : Enc) (v : Val)
    (hk : lookupCol t.cols f = some (k, e)) (he : ∀ d, e ≠ .enum d) (hv : r[k]? = some v) :
    cell t r f = v := by
  unfold cell
  rw [hk]
  cases e with
  | enum d => exact absurd rfl (he d)
  | int => simp [List.getD_eq_getElem?_getD, hv]
  | other => simp [List.getD_eq_getElem?_getD, hv]

/-- … and of an enum column, the name whose code is stored -/
theorem cell_enum (t : Stored) (r : Row) (f : String) (k : Nat) (d : List (String × Int)) (v : Val)
    (hk : lookupCol t.cols f = some (k, .enum d)) (hv : r[k]? = some v) :
    cell t r f = fromCode (categoriesOf d) v := by
  unfold cell
  rw [hk]
  simp [List.getD_eq_getElem?_getD, hv]

/-- cell `(k, j)` of the frame `slice_rows` describes is column `fs[j]` of stored row `lo + k` -/
theorem slice_rows_cell (t : Stored) (lo hi : Nat) (fs : List String) (k j : Nat) (r : Row) (f : String)
    (hk : k < hi - lo) (hr : t.rows[lo + k]? = some r) (hf : fs[j]? = some f) :
    ((((t.rows.drop lo).take (hi - lo)).map (fun r => fs.map (cell t r)))[k]?).bind (·[j]?)
      = some (cell t r f) := by
  rw [List.getElem?_map, getElem?_drop_take, if_pos hk, hr]
  simp [List.getElem?_map, hf]

/-- non-vacuity: a three-row table with an enum column, a float column with a NaN and an integer
column; rows 1..2 on two columns in swapped order -/
example :
    let t : Stored := ⟨[("chrom", .enum [("c0", 0), ("c1", 1)]), ("start", .int), ("weight", .other)],
      [[.int 0, .int 0, .flt "0.5"], [.int 0, .int 10, .nan], [.int 1, .int 0, .flt "2.0"]]⟩
    tableGet t 1 (some 3) ["weight", "chrom"] false
      = .ok ⟨["weight", "chrom"], [1, 2], [[.nan, .str "c0"], [.flt "2.0", .str "c1"]], false⟩ := by
  decide

/-! ### a range is a part of the whole table -/

theorem framePart_framePart_zero (f : Frame) (a b n : Nat) (hb : b ≤ n) :
    framePart (framePart f 0 n) a b = framePart f a b := by
  unfold framePart
  simp only [List.drop_zero, Nat.sub_zero, Frame.mk.injEq, true_and, and_true]
  constructor <;>
  · apply List.ext_getElem?
    intro i
    rw [getElem?_drop_take, getElem?_drop_take, List.getElem?_take]
    by_cases h : i < b - a
    · rw [if_pos h, if_pos h, if_pos (by omega)]
    · rw [if_neg h, if_neg h]

/-- **a slice is the corresponding part of the whole table**: if reading everything succeeds with
`W`, reading `[a, b)` succeeds with `W.iloc[a:b]` — same columns, labels `a..b-1`. -/
theorem tableGet_part (t : Stored) (fs : List String) (series : Bool) (W : Frame) (a b : Nat)
    (hW : tableGet t 0 (some (t.rows.length : Int)) fs series = .ok W) :
    tableGet t a (some (b : Int)) fs series = .ok (framePart W a b) := by
  have h0 := tableGet_nat t 0 t.rows.length fs series
  rw [show ((0 : Nat) : Int) = 0 from rfl, hW] at h0
  rw [tableGet_nat]
  simp only [List.drop_zero, Nat.sub_zero, List.take_length] at h0
  by_cases h1 : (fs.all fun f => (lookupCol t.cols f).isSome) = true
  · by_cases h2 : (t.rows.all fun r => fs.all fun f => cellOk t r f) = true
    · have h2' : (((t.rows.drop a).take (b - a)).all fun r => fs.all fun f => cellOk t r f) = true := by
        apply List.all_eq_true.mpr
        intro r hr
        exact List.all_eq_true.mp h2 r (List.mem_of_mem_drop (List.mem_of_mem_take hr))
      simp only [h1, h2, h2', Bool.not_true, Bool.false_eq_true, if_false] at h0 ⊢
      by_cases h3 : fs.isEmpty = true
      · simp only [h3, if_true, Except.ok.injEq] at h0 ⊢
        subst h0
        simp [framePart]
      · simp only [h3, if_false, Except.ok.injEq, Bool.false_eq_true] at h0 ⊢
        subst h0
        simp only [framePart, Frame.mk.injEq, true_and, and_true]
        constructor
        · rw [labels_drop_take, List.length_take, List.length_drop]
          congr 1 <;> omega
        · rw [List.map_take, List.map_drop]
    · simp [h1, h2] at h0
  · simp [h1] at h0

/-- labels and length of a whole-table read -/
theorem tableGet_whole_shape (t : Stored) (fs : List String) (series : Bool) (W : Frame) (hfs : fs ≠ [])
    (hW : tableGet t 0 (some (t.rows.length : Int)) fs series = .ok W) :
    W.cols = fs ∧ W.rows.length = t.rows.length ∧ W.index = labels 0 t.rows.length := by
  have h0 := tableGet_nat t 0 t.rows.length fs series
  rw [show ((0 : Nat) : Int) = 0 from rfl, hW] at h0
  simp only [List.drop_zero, Nat.sub_zero, List.take_length] at h0
  have h3 : fs.isEmpty = false := by cases fs <;> simp_all
  by_cases h1 : (fs.all fun f => (lookupCol t.cols f).isSome) = true
  · by_cases h2 : (t.rows.all fun r => fs.all fun f => cellOk t r f) = true
    · simp only [h1, h2, h3, Bool.not_true, Bool.false_eq_true, if_false, Except.ok.injEq] at h0
      subst h0
      simp
    · simp [h1, h2] at h0
  · simp [h1] at h0

/-! ## 4. Selectors: a row key reads the part of the whole table it spells -/

theorem mem_drop_take {α} {l : List α} {a k : Nat} {x : α} (h : x ∈ (l.drop a).take k) : x ∈ l :=
  List.mem_of_mem_drop (List.mem_of_mem_take h)

/-- the integer-chromosome post-processing of `api.bins` commutes with taking a part -/
theorem binsDecode_part (t : Stored) (names : List String) (target : Option (String × Nat))
    (W W' : Frame) (a b : Nat) (h : binsDecode t names target W = .ok W') :
    binsDecode t names target (framePart W a b) = .ok (framePart W' a b) := by
  unfold binsDecode at h ⊢
  match target with
  | none => simp only [Except.ok.injEq] at h; rw [h]
  | some (name, j) =>
    simp only at h ⊢
    split at h
    · by_cases hg : (W.rows.all fun r => codeOk names (r.getD j .nan)) = true
      · have hg' : ((framePart W a b).rows.all fun r => codeOk names (r.getD j .nan)) = true := by
          apply List.all_eq_true.mpr
          intro r hr
          exact List.all_eq_true.mp hg r (mem_drop_take hr)
        simp only [hg, hg', Bool.not_true, Bool.false_eq_true, if_false, Except.ok.injEq] at h ⊢
        subst h
        simp only [framePart, Frame.mk.injEq, true_and, and_true]
        rw [List.map_take, List.map_drop]
      · rw [Bool.not_eq_true] at hg
        rw [hg] at h
        simp at h
    · simp only [Except.ok.injEq] at h
      subst h
      rfl

theorem binsGet_part (t : Stored) (names : List String) (fields : Fields) (W : Frame) (a b : Nat)
    (hW : binsGet t names 0 (some (t.rows.length : Int)) fields = .ok W) :
    binsGet t names a (some (b : Int)) fields = .ok (framePart W a b) := by
  simp only [binsGet] at hW ⊢
  cases h : tableGet t 0 (some (t.rows.length : Int)) (fields.resolve binsStd t.names).1
      (fields.resolve binsStd t.names).2 with
  | error e => rw [h] at hW; simp at hW
  | ok out =>
    rw [h] at hW
    rw [tableGet_part t _ _ out a b h]
    exact binsDecode_part t names _ out W a b hW

/-- the table a selector reads and whether it annotates -/
def srcLen : Src → Nat
  | .chroms t => t.rows.length
  | .bins t _ => t.rows.length
  | .pixels t _ _ => t.rows.length

def srcJoin : Src → Bool
  | .pixels _ _ j => j
  | _ => false

theorem getRows_eq (s : Selector) (k : RowKey) :
    s.getRows k = match processKey s.nmax k with
      | .error e => .error e
      | .ok p => s.slice p.1 p.2 := by
  simp only [Selector.getRows, selectorGetItem, selectorRows]
  cases h : processKey s.nmax k with
  | error e => simp
  | ok p =>
    obtain ⟨lo, hi⟩ := p
    simp only
    cases h2 : s.slice lo hi <;> simp

theorem getRows_whole (s : Selector) :
    s.getRows (.slice none none none) = s.slice 0 (s.nmax : Int) := by
  rw [getRows_eq]; rfl

theorem slice_part (s : Selector) (W : Frame) (a b : Nat) (hn : s.nmax = srcLen s.src)
    (hj : srcJoin s.src = false) (hW : s.slice 0 (s.nmax : Int) = .ok W) :
    s.slice a b = .ok (framePart W a b) := by
  obtain ⟨src, fields, nmax⟩ := s
  simp only at hn hj hW ⊢
  subst hn
  cases src with
  | chroms t => exact tableGet_part t _ _ W a b hW
  | bins t names => exact binsGet_part t names fields W a b hW
  | pixels t bt join =>
    simp only [srcJoin] at hj
    subst hj
    simp only [Selector.slice, pixelsGet, srcLen] at hW ⊢
    cases h : tableGet t 0 (some (t.rows.length : Int)) (fields.resolve pixelsStd t.names).1
        (fields.resolve pixelsStd t.names).2 with
    | error e => rw [h] at hW; simp at hW
    | ok out =>
      rw [h] at hW
      simp only [Bool.false_eq_true, if_false, Except.ok.injEq] at hW
      subst hW
      rw [tableGet_part t _ _ out a b h]
      simp

/-- **selector_slice_rows** — on a chromosome, bin or (un-joined) pixel selector with *any* column
argument, every slice spelling with bounds in `[-n, n] ∪ {None}` returns the rows `a..b-1` of the
whole table `W = sel[:]`, `(a, b) = slice(lo, hi).indices(n)`, with the labels of `W` — which are the
row numbers (`selector_whole_labels`). -/
theorem selector_slice_rows (s : Selector) (W : Frame) (lo hi : Option Int)
    (hn : s.nmax = srcLen s.src) (hj : srcJoin s.src = false)
    (hW : s.getRows (.slice none none none) = .ok W)
    (hlo : InDom s.nmax lo) (hhi : InDom s.nmax hi) :
    s.getRows (.slice lo hi none) =
      .ok (framePart W (pySliceIndices s.nmax lo hi).1 (pySliceIndices s.nmax lo hi).2) := by
  rw [getRows_whole] at hW
  rw [getRows_eq, processKey_slice s.nmax lo hi hlo hhi]
  exact slice_part s W _ _ hn hj hW

/-- a scalar `k ∈ [-n, n)` returns the single row `k mod n` of the whole table -/
theorem selector_scalar_row (s : Selector) (W : Frame) (k : Int)
    (hn : s.nmax = srcLen s.src) (hj : srcJoin s.src = false)
    (hW : s.getRows (.slice none none none) = .ok W)
    (h1 : -(s.nmax : Int) ≤ k) (h2 : k < s.nmax) :
    s.getRows (.scalar k) =
      .ok (framePart W (if k < 0 then k + s.nmax else k).toNat ((if k < 0 then k + s.nmax else k).toNat + 1)) := by
  rw [getRows_whole] at hW
  rw [getRows_eq]
  simp only [processKey]
  obtain ⟨hk, hk0, hkn⟩ := (processScalar_spec s.nmax k).1 h1 h2
  rw [hk]
  simp only
  have := slice_part s W (if k < 0 then k + s.nmax else k).toNat
    ((if k < 0 then k + s.nmax else k).toNat + 1) hn hj hW
  rw [← this]
  congr 1 <;> (simp only [Int.natCast_add, Int.toNat_of_nonneg hk0]; try rfl)

/-! ## 5. A column selection never changes which rows come back -/

theorem colIdx_some (cols : List String) (c : String) (k : Nat) (h : colIdx cols c = some k) :
    cols[k]? = some c := by
  induction cols generalizing k with
  | nil => simp [colIdx] at h
  | cons x xs ih =>
    unfold colIdx at h
    by_cases hx : x = c
    · simp only [hx, if_true, Option.some.injEq] at h
      subst h; simp [hx]
    · simp only [hx, if_false, Option.map_eq_some_iff] at h
      obtain ⟨k', hk', rfl⟩ := h
      simpa using ih k' hk'

theorem colIdx_of_mem (cols : List String) (c : String) (h : c ∈ cols) :
    ∃ k, colIdx cols c = some k := by
  induction cols with
  | nil => simp at h
  | cons x xs ih =>
    unfold colIdx
    by_cases hx : x = c
    · exact ⟨0, by simp [hx]⟩
    · have : c ∈ xs := by
        cases h with
        | head => exact absurd rfl hx
        | tail _ h' => exact h'
      obtain ⟨k, hk⟩ := ih this
      exact ⟨k + 1, by simp [hx, hk]⟩

/-- the projected cell: position `colIdx all c` of the row read on `all` is the cell of column `c` -/
theorem project_cell (all : List String) (g : String → Val) (c : String) (h : c ∈ all) :
    (all.map g).getD ((colIdx all c).getD 0) .nan = g c := by
  obtain ⟨k, hk⟩ := colIdx_of_mem all c h
  have := colIdx_some all c k hk
  rw [hk, Option.getD_some, List.getD_eq_getElem?_getD, List.getElem?_map, this]
  rfl

/-- `get` on a sub-list of columns is the projection of `get` on the full list -/
theorem tableGet_project (t : Stored) (lo : Int) (hi : Option Int) (all fs : List String) (F : Frame)
    (hfs : fs ≠ []) (hsub : ∀ f ∈ fs, f ∈ all)
    (hF : tableGet t lo hi all false = .ok F) :
    tableGet t lo hi fs false = F.project fs := by
  unfold tableGet at hF ⊢
  simp only at hF ⊢
  generalize hraw : (t.rows.drop (pySliceIndices t.rows.length (some lo) hi).1).take
    ((pySliceIndices t.rows.length (some lo) hi).2 - (pySliceIndices t.rows.length (some lo) hi).1) = raw at hF ⊢
  have hall : all ≠ [] := by
    intro h; cases fs with
    | nil => exact hfs rfl
    | cons f _ => have := hsub f (by simp); simp [h] at this
  have e1 : all.isEmpty = false := by cases all <;> simp_all
  have e2 : fs.isEmpty = false := by cases fs <;> simp_all
  by_cases h1 : (all.all fun f => (lookupCol t.cols f).isSome) = true
  · by_cases h2 : (raw.all fun r => all.all fun f => cellOk t r f) = true
    · simp only [h1, h2, e1, Bool.not_true, Bool.false_eq_true, if_false, Except.ok.injEq] at hF
      have h1' : (fs.all fun f => (lookupCol t.cols f).isSome) = true :=
        List.all_eq_true.mpr fun f hf => List.all_eq_true.mp h1 f (hsub f hf)
      have h2' : (raw.all fun r => fs.all fun f => cellOk t r f) = true :=
        List.all_eq_true.mpr fun r hr => List.all_eq_true.mpr fun f hf =>
          List.all_eq_true.mp (List.all_eq_true.mp h2 r hr) f (hsub f hf)
      simp only [h1', h2', e2, Bool.not_true, Bool.false_eq_true, if_false]
      subst hF
      unfold Frame.project
      have h3 : (fs.all fun c => (colIdx all c).isSome) = true :=
        List.all_eq_true.mpr fun c hc => by
          obtain ⟨k, hk⟩ := colIdx_of_mem all c (hsub c hc); simp [hk]
      simp only [h3, Bool.not_true, Bool.false_eq_true, if_false, Except.ok.injEq, Frame.mk.injEq,
        true_and, and_true, List.map_map]
      apply List.map_congr_left
      intro r _
      apply List.map_congr_left
      intro c hc
      exact (project_cell all (cell t r) c (hsub c hc)).symm
    · rw [Bool.not_eq_true] at h2; rw [h2] at hF; simp [h1] at hF
  · rw [Bool.not_eq_true] at h1; rw [h1] at hF; simp at hF

/-- a Series read is the one-column frame read, flagged -/
theorem tableGet_series (t : Stored) (lo : Int) (hi : Option Int) (fs : List String) :
    tableGet t lo hi fs true = (tableGet t lo hi fs false).map fun fr => { fr with series := true } := by
  unfold tableGet
  simp only
  split
  · rfl
  · split
    · rfl
    · split <;> rfl

/-- the rows `dset[lo:hi]` reads -/
abbrev pyRaw (t : Stored) (lo : Int) (hi : Option Int) : List Row :=
  (t.rows.drop (pySliceIndices t.rows.length (some lo) hi).1).take
    ((pySliceIndices t.rows.length (some lo) hi).2 - (pySliceIndices t.rows.length (some lo) hi).1)

theorem tableGet_ok_form (t : Stored) (lo : Int) (hi : Option Int) (fs : List String) (series : Bool)
    (F : Frame) (hfs : fs ≠ []) (h : tableGet t lo hi fs series = .ok F) :
    F = ⟨fs, labels lo (pyRaw t lo hi).length, (pyRaw t lo hi).map (fun r => fs.map (cell t r)), series⟩ := by
  unfold tableGet at h
  simp only at h
  have e2 : fs.isEmpty = false := by cases fs <;> simp_all
  split at h
  · simp at h
  · split at h
    · simp at h
    · simp only [e2, Bool.false_eq_true, if_false, Except.ok.injEq] at h
      exact h.symm

theorem colIdx_none_not_mem (cols : List String) (c : String) (h : colIdx cols c = none) : c ∉ cols := by
  intro hm
  obtain ⟨k, hk⟩ := colIdx_of_mem cols c hm
  rw [h] at hk; cases hk

/-- projecting a row whose `chrom` cell (position 0 of the full list) was replaced: `chrom` not asked -/
theorem project_set_none (rest fs : List String) (g : String → Val) (x : Val)
    (hsub : ∀ c ∈ fs, c ∈ "chrom" :: rest) (hj : colIdx fs "chrom" = none) :
    fs.map (fun c => ((("chrom" :: rest).map g).set 0 x).getD ((colIdx ("chrom" :: rest) c).getD 0) .nan)
      = fs.map g := by
  apply List.map_congr_left
  intro c hc
  have hne : c ≠ "chrom" := fun h => colIdx_none_not_mem fs "chrom" hj (h ▸ hc)
  obtain ⟨k, hk⟩ := colIdx_of_mem _ c (hsub c hc)
  have hk' := colIdx_some _ c k hk
  have hk0 : k ≠ 0 := by
    intro h0; subst h0
    simp only [List.getElem?_cons_zero, Option.some.injEq] at hk'
    exact hne hk'.symm
  rw [hk, Option.getD_some, List.getD_eq_getElem?_getD, List.getElem?_set, if_neg (Ne.symm hk0),
    List.getElem?_map, hk']
  rfl

/-- … and `chrom` asked at position `j` -/
theorem project_set_some (rest fs : List String) (g : String → Val) (x : Val) (j : Nat)
    (hsub : ∀ c ∈ fs, c ∈ "chrom" :: rest) (hnd : fs.Nodup) (hj : colIdx fs "chrom" = some j) :
    fs.map (fun c => ((("chrom" :: rest).map g).set 0 x).getD ((colIdx ("chrom" :: rest) c).getD 0) .nan)
      = (fs.map g).set j x := by
  have hjc := colIdx_some fs "chrom" j hj
  have hjlt : j < fs.length := by
    rcases Nat.lt_or_ge j fs.length with h | h
    · exact h
    · rw [List.getElem?_eq_none h] at hjc; cases hjc
  apply List.ext_getElem?
  intro p
  rw [List.getElem?_map, List.getElem?_set, List.getElem?_map]
  rcases Nat.lt_or_ge p fs.length with hp | hp
  · obtain ⟨c, hc⟩ : ∃ c, fs[p]? = some c := ⟨fs[p], List.getElem?_eq_getElem hp⟩
    have hcm : c ∈ fs := List.mem_of_getElem? hc
    rw [hc]
    simp only [Option.map_some, List.length_map]
    by_cases hcc : c = "chrom"
    · subst hcc
      have : p = j := (List.getElem?_inj hp hnd).mp (hc.trans hjc.symm)
      subst this
      simp [colIdx, hjlt]
    · have hpj : j ≠ p := by
        intro h; subst h; rw [hjc] at hc; exact hcc (Option.some.inj hc).symm
      rw [if_neg hpj]
      obtain ⟨k, hk⟩ := colIdx_of_mem _ c (hsub c hcm)
      have hk' := colIdx_some _ c k hk
      have hk0 : k ≠ 0 := by
        intro h0; subst h0
        simp only [List.getElem?_cons_zero, Option.some.injEq] at hk'
        exact hcc hk'.symm
      rw [hk, Option.getD_some, List.getD_eq_getElem?_getD, List.getElem?_set, if_neg (Ne.symm hk0),
        List.getElem?_map, hk']
      rfl
  · rw [List.getElem?_eq_none hp]
    have : ¬ j = p := by omega
    simp [this]

/-- the default column list of the bin table starts with `chrom` -/
theorem binsDefault_cons (keys : List String) :
    (Fields.default.resolve binsStd keys).1
      = "chrom" :: ("start" :: "end" :: keys.filter (fun k => !binsStd.contains k)) := rfl

/-- `api.bins` on a list of columns is the projection of `api.bins` on all columns — including the
conversion of integer chromosome ids -/
theorem binsGet_project (t : Stored) (names : List String) (lo : Int) (hi : Option Int)
    (fs : List String) (F : Frame) (hfs : fs ≠ []) (hnd : fs.Nodup)
    (hsub : ∀ f ∈ fs, f ∈ (Fields.default.resolve binsStd t.names).1)
    (hF : binsGet t names lo hi .default = .ok F) :
    binsGet t names lo hi (.many fs) = F.project fs := by
  rw [binsDefault_cons] at hsub
  simp only [binsGet, binsDefault_cons] at hF ⊢
  generalize hrest : ("start" :: "end" :: t.names.filter (fun k => !binsStd.contains k)) = rest at hF hsub
  simp only [Fields.resolve] at hF ⊢
  cases hout : tableGet t lo hi ("chrom" :: rest) false with
  | error e => rw [hout] at hF; simp at hF
  | ok out =>
    rw [hout] at hF
    have hp := tableGet_project t lo hi ("chrom" :: rest) fs out hfs hsub hout
    have hform := tableGet_ok_form t lo hi ("chrom" :: rest) false out (by simp) hout
    cases hsubt : tableGet t lo hi fs false with
    | error e =>
      -- impossible: the projection of an existing frame on existing columns succeeds
      rw [hsubt] at hp
      unfold Frame.project at hp
      have h3 : (fs.all fun c => (colIdx out.cols c).isSome) = true := by
        rw [hform]
        exact List.all_eq_true.mpr fun c hc => by
          obtain ⟨k, hk⟩ := colIdx_of_mem _ c (hsub c hc); simp [hk]
      simp [h3] at hp
    | ok sub =>
      have hsform := tableGet_ok_form t lo hi fs false sub hfs hsubt
      simp only
      have hc0 : colIdx ("chrom" :: rest) "chrom" = some 0 := by simp [colIdx]
      simp only [hc0, Option.map_some] at hF
      unfold binsDecode at hF ⊢
      simp only at hF
      -- shape of `F.project fs`
      have hproj : ∀ (rows : List Row),
          Frame.project ⟨"chrom" :: rest, labels lo (pyRaw t lo hi).length, rows, false⟩ fs
            = .ok ⟨fs, labels lo (pyRaw t lo hi).length,
                rows.map (fun r => fs.map fun c => r.getD ((colIdx ("chrom" :: rest) c).getD 0) .nan), false⟩ := by
        intro rows
        unfold Frame.project
        have h3 : (fs.all fun c => (colIdx ("chrom" :: rest) c).isSome) = true :=
          List.all_eq_true.mpr fun c hc => by
            obtain ⟨k, hk⟩ := colIdx_of_mem _ c (hsub c hc); simp [hk]
        simp [h3]
      split at hF
      · -- integer chromosome ids
        rename_i k hint
        by_cases hg : (out.rows.all fun r => codeOk names (r.getD 0 .nan)) = true
        · simp only [hg, Bool.not_true, Bool.false_eq_true, if_false, Except.ok.injEq] at hF
          subst hF
          rw [hform] at hg ⊢
          simp only [hproj, List.map_map]
          have hg2 : ∀ r ∈ pyRaw t lo hi, codeOk names (cell t r "chrom") = true := by
            intro r hr
            have := List.all_eq_true.mp hg _ (List.mem_map_of_mem hr)
            simpa using this
          cases hj : colIdx fs "chrom" with
          | none =>
            simp only [Option.map_none, Except.ok.injEq]
            rw [hsform]
            simp only [Frame.mk.injEq, true_and, and_true]
            apply List.map_congr_left
            intro r _
            simp only [Function.comp]
            exact (project_set_none rest fs (cell t r) _ hsub hj).symm
          | some j =>
            simp only [Option.map_some, hint]
            have hjc := colIdx_some fs "chrom" j hj
            have hcellj : ∀ r : Row, (fs.map (cell t r)).getD j .nan = cell t r "chrom" := by
              intro r
              rw [List.getD_eq_getElem?_getD, List.getElem?_map, hjc]; rfl
            rw [hsform]
            have hg3 : ((pyRaw t lo hi).map (fun r => fs.map (cell t r))).all
                (fun r => codeOk names (r.getD j .nan)) = true := by
              apply List.all_eq_true.mpr
              intro r' hr'
              obtain ⟨r, hr, rfl⟩ := List.mem_map.mp hr'
              rw [hcellj]; exact hg2 r hr
            simp only [hg3, Bool.not_true, Bool.false_eq_true, if_false, Except.ok.injEq, Frame.mk.injEq,
              true_and, and_true, List.map_map]
            apply List.map_congr_left
            intro r _
            simp only [Function.comp]
            rw [hcellj]
            have := project_set_some rest fs (cell t r) (fromCode names (cell t r "chrom")) j hsub hnd hj
            simp only [List.map_cons] at this
            rw [← this]
            simp
        · rw [Bool.not_eq_true] at hg; rw [hg] at hF; simp at hF
      · -- enum (or other) storage: nothing to convert
        rename_i hne
        simp only [Except.ok.injEq] at hF
        subst hF
        rw [← hp, hsubt]
        cases hj : colIdx fs "chrom" with
        | none => rfl
        | some j => simp only [Option.map_some]

/-- the columns a selector returns when no column key was given -/
def srcDefaultCols : Src → List String
  | .chroms t => (Fields.default.resolve chromsStd t.names).1
  | .bins t _ => (Fields.default.resolve binsStd t.names).1
  | .pixels t _ _ => (Fields.default.resolve pixelsStd t.names).1

theorem slice_project (s : Selector) (fs : List String) (lo hi : Int) (F : Frame)
    (hdef : s.fields = .default) (hj : srcJoin s.src = false)
    (hfs : fs ≠ []) (hnd : fs.Nodup) (hsub : ∀ f ∈ fs, f ∈ srcDefaultCols s.src)
    (hF : s.slice lo hi = .ok F) :
    ({ s with fields := .many fs } : Selector).slice lo hi = F.project fs := by
  obtain ⟨src, fields, nmax⟩ := s
  simp only at hdef hj hsub hF ⊢
  subst hdef
  cases src with
  | chroms t => exact tableGet_project t lo (some hi) _ fs F hfs hsub hF
  | bins t names => exact binsGet_project t names lo (some hi) fs F hfs hnd hsub hF
  | pixels t bt join =>
    simp only [srcJoin] at hj
    subst hj
    simp only [Selector.slice, pixelsGet] at hF ⊢
    cases h : tableGet t lo (some hi) (Fields.default.resolve pixelsStd t.names).1
        (Fields.default.resolve pixelsStd t.names).2 with
    | error e => rw [h] at hF; simp at hF
    | ok out =>
      rw [h] at hF
      simp only [Bool.false_eq_true, if_false, Except.ok.injEq] at hF
      subst hF
      have := tableGet_project t lo (some hi) _ fs out hfs hsub h
      simp only [Fields.resolve] at this ⊢
      rw [this]
      cases out.project fs <;> rfl

theorem getRows_project (s : Selector) (fs : List String) (k : RowKey) (F : Frame)
    (hdef : s.fields = .default) (hj : srcJoin s.src = false)
    (hfs : fs ≠ []) (hnd : fs.Nodup) (hsub : ∀ f ∈ fs, f ∈ srcDefaultCols s.src)
    (hF : s.getRows k = .ok F) :
    ({ s with fields := .many fs } : Selector).getRows k = F.project fs := by
  rw [getRows_eq] at hF ⊢
  simp only at hF ⊢
  cases hp : processKey s.nmax k with
  | error e => rw [hp] at hF; simp at hF
  | ok p =>
    rw [hp] at hF
    simp only at hF ⊢
    exact slice_project s fs p.1 p.2 F hdef hj hfs hnd hsub hF

/-- **column_selection_commutes** — `sel[cols][key] = (sel[key])[cols]`: for a chromosome, bin or
un-joined pixel selector, any non-empty list of distinct existing columns and ANY row key for which
`sel[key]` succeeds, selecting the columns first gives exactly the projection of the full-column
result: same rows, same labels.  (For the bin table this includes the conversion of integer
chromosome ids.) -/
theorem column_selection_commutes (s : Selector) (fs : List String) (k : RowKey) (F : Frame)
    (hdef : s.fields = .default) (hj : srcJoin s.src = false)
    (hfs : fs ≠ []) (hnd : fs.Nodup) (hsub : ∀ f ∈ fs, f ∈ srcDefaultCols s.src)
    (hF : s.getRows k = .ok F) :
    ∃ s', selectorGetItem s (.cols fs) = .ok (.inl s') ∧ s'.getRows k = F.project fs :=
  ⟨{ s with fields := .many fs }, rfl, getRows_project s fs k F hdef hj hfs hnd hsub hF⟩

/-- the row-preservation reading: the projection keeps the index and the number of rows -/
theorem project_keeps_rows (F P : Frame) (fs : List String) (h : F.project fs = .ok P) :
    P.index = F.index ∧ P.rows.length = F.rows.length ∧ P.cols = fs := by
  unfold Frame.project at h
  split at h
  · cases h
  · simp only [Except.ok.injEq] at h
    subst h; simp

/-- non-vacuity: `c.bins()[["weight", "chrom"]][1:]` on an integer-encoded bin table -/
example :
    let t : Stored := ⟨[("chrom", .int), ("end", .int), ("start", .int), ("weight", .other)],
      [[.int 0, .int 10, .int 0, .flt "0.5"], [.int 1, .int 7, .int 0, .nan]]⟩
    let s : Selector := ⟨.bins t ["c0", "c1"], .default, 2⟩
    s.getRows (.slice (some 1) none none)
      = .ok ⟨["chrom", "start", "end", "weight"], [1], [[.str "c1", .int 0, .int 7, .nan]], false⟩
    ∧ ({ s with fields := .many ["weight", "chrom"] } : Selector).getRows (.slice (some 1) none none)
      = .ok ⟨["weight", "chrom"], [1], [[.nan, .str "c1"]], false⟩ := by
  decide

theorem binsDecode_series (t : Stored) (names : List String) (target : Option (String × Nat)) (fr : Frame) :
    binsDecode t names target { fr with series := true }
      = (binsDecode t names target fr).map fun x => { x with series := true } := by
  unfold binsDecode
  match target with
  | none => rfl
  | some (name, j) =>
    simp only
    split
    · split <;> rfl
    · rfl

/-- a single column name gives the Series of the one-column list -/
theorem slice_one (s : Selector) (f : String) (lo hi : Int) (hj : srcJoin s.src = false) :
    ({ s with fields := .one f } : Selector).slice lo hi
      = (({ s with fields := .many [f] } : Selector).slice lo hi).map fun x => { x with series := true } := by
  obtain ⟨src, fields, nmax⟩ := s
  cases src with
  | chroms t => exact tableGet_series t lo (some hi) [f]
  | bins t names =>
    simp only [Selector.slice, binsGet, Fields.resolve]
    rw [tableGet_series]
    have htarget : (if f = "chrom" then some ("chrom", 0) else none : Option (String × Nat))
        = (colIdx [f] "chrom").map fun j => ("chrom", j) := by
      by_cases h : f = "chrom" <;> simp [colIdx, h]
    rw [htarget]
    cases tableGet t lo (some hi) [f] false with
    | error e => rfl
    | ok out => exact binsDecode_series t names _ out
  | pixels t bt join =>
    simp only [srcJoin] at hj
    subst hj
    simp only [Selector.slice, pixelsGet, Fields.resolve]
    rw [tableGet_series]
    cases tableGet t lo (some hi) [f] false <;> rfl

/-- **column_selection_commutes** for a single name: `sel[name][key]` is the Series of
`(sel[key])[[name]]` -/
theorem column_selection_commutes_one (s : Selector) (f : String) (k : RowKey) (F : Frame)
    (hdef : s.fields = .default) (hj : srcJoin s.src = false) (hsub : f ∈ srcDefaultCols s.src)
    (hF : s.getRows k = .ok F) :
    ∃ s', selectorGetItem s (.col f) = .ok (.inl s') ∧
      s'.getRows k = (F.project [f]).map fun x => { x with series := true } := by
  refine ⟨{ s with fields := .one f }, rfl, ?_⟩
  have h := getRows_project s [f] k F hdef hj (by simp) (by simp)
    (by intro c hc; simp only [List.mem_singleton] at hc; exact hc ▸ hsub) hF
  rw [← h]
  rw [getRows_eq, getRows_eq]
  simp only
  cases processKey s.nmax k with
  | error e => rfl
  | ok p => exact slice_one s f p.1 p.2 hj

/-- **legacy_substring_rule_violates** — the pre-repair rule of `api.bins` (`"chrom" in fields` with
`fields` a single name is a substring test; known_findings D20, repaired by 1a9d164) breaks the
property: the stored integer column `mychrom = [1, 0]` comes back as chromosome names, so a column
selection changes the values, whereas the repaired model returns the stored cells. -/
theorem legacy_substring_rule_violates :
    let t : Stored := ⟨[("chrom", .enum [("c0", 0), ("c1", 1)]), ("end", .int), ("mychrom", .int), ("start", .int)],
      [[.int 0, .int 10, .int 1, .int 0], [.int 1, .int 7, .int 0, .int 0]]⟩
    binsGetLegacy t ["c0", "c1"] 0 (some 2) (.one "mychrom")
      = .ok ⟨["mychrom"], [0, 1], [[.str "c1"], [.str "c0"]], true⟩
    ∧ binsGet t ["c0", "c1"] 0 (some 2) (.one "mychrom")
      = .ok ⟨["mychrom"], [0, 1], [[.int 1], [.int 0]], true⟩
    ∧ ((binsGetLegacy t ["c0", "c1"] 0 (some 2) .default).bind fun F => F.project ["mychrom"])
      = .ok ⟨["mychrom"], [0, 1], [[.int 1], [.int 0]], false⟩ := by
  decide

/-! ## 6. `annotate` -/

theorem labels_succ (l0 : Int) (n : Nat) : labels l0 (n + 1) = labels l0 n ++ [l0 + (n : Int)] := by
  simp [labels, List.range_succ]

/-- `searchsorted(beg, "left")` on the labels `l0, l0+1, …` -/
theorem countP_lt_labels (l0 x : Int) (n : Nat) :
    (labels l0 n).countP (fun l => decide (l < x)) = min n (x - l0).toNat := by
  induction n with
  | zero => simp [labels]
  | succ n ih =>
    rw [labels_succ, List.countP_append, ih]
    by_cases h : l0 + (n : Int) < x
    · simp only [List.countP_cons, List.countP_nil, h, decide_true, if_true]; omega
    · simp only [List.countP_cons, List.countP_nil, h, decide_false, Bool.false_eq_true, if_false]; omega

/-- `searchsorted(end, "right")` on the labels `l0, l0+1, …` -/
theorem countP_le_labels (l0 e : Int) (n : Nat) :
    (labels l0 n).countP (fun l => decide (l ≤ e)) = min n (e + 1 - l0).toNat := by
  induction n with
  | zero => simp [labels]
  | succ n ih =>
    rw [labels_succ, List.countP_append, ih]
    by_cases h : l0 + (n : Int) ≤ e
    · simp only [List.countP_cons, List.countP_nil, h, decide_true, if_true]; omega
    · simp only [List.countP_cons, List.countP_nil, h, decide_false, Bool.false_eq_true, if_false]; omega

theorem labels_head (l0 : Int) (n : Nat) (hn : 0 < n) : ∃ tl, labels l0 n = l0 :: tl := by
  cases h : labels l0 n with
  | nil => have := labels_length l0 n; rw [h] at this; simp at this; omega
  | cons l tl =>
    have := labels_getElem? l0 n 0
    rw [h, if_pos hn] at this
    simp only [List.getElem?_cons_zero, Option.some.injEq] at this
    exact ⟨tl, by rw [this]; simp⟩

theorem foldl_min_le (rest : List Int) (i : Int) : ∀ b ∈ i :: rest, rest.foldl min i ≤ b := by
  induction rest generalizing i with
  | nil => intro b hb; simp at hb; subst hb; simp
  | cons x xs ih =>
    intro b hb
    simp only [List.foldl_cons]
    have h1 := ih (min i x)
    have hmin : xs.foldl min (min i x) ≤ min i x := h1 _ (by simp)
    rcases List.mem_cons.mp hb with rfl | hb'
    · omega
    · rcases List.mem_cons.mp hb' with rfl | hb''
      · omega
      · exact h1 b (by simp [hb''])

theorem le_foldl_max (rest : List Int) (i : Int) : ∀ b ∈ i :: rest, b ≤ rest.foldl max i := by
  induction rest generalizing i with
  | nil => intro b hb; simp at hb; subst hb; simp
  | cons x xs ih =>
    intro b hb
    simp only [List.foldl_cons]
    have h1 := ih (max i x)
    have hmax : max i x ≤ xs.foldl max (max i x) := h1 _ (by simp)
    rcases List.mem_cons.mp hb with rfl | hb'
    · omega
    · rcases List.mem_cons.mp hb' with rfl | hb''
      · omega
      · exact h1 b (by simp [hb''])

/-- a frame whose index is `c0, c0+1, …` (a contiguous part of a table labelled by row number) -/
def Contig (f : Frame) (c0 : Nat) : Prop := f.index = labels (c0 : Int) f.rows.length

/-- the positional take relative to the first label of a part `[a, b)` of a contiguous frame finds
the row labelled `c0 + p` of the frame, for every `a ≤ p < b` -/
theorem part_take (W : Frame) (c0 a b p : Nat) (hc : Contig W c0)
    (hap : a ≤ p) (hpb : p < b) (hpn : p < W.rows.length) :
    let ann := framePart W a b
    let offset : Int := firstLabel ann.index
    ilocOk ann.rows.length (((c0 + p : Nat) : Int) - offset) = true ∧
      ann.rows.getD (ilocPos ann.rows.length (((c0 + p : Nat) : Int) - offset)) [] = W.rows.getD p [] := by
  intro ann offset
  have hidx : ann.index = labels ((c0 : Int) + (a : Int)) (min (b - a) (W.rows.length - a)) := by
    show (W.index.drop a).take (b - a) = _
    rw [hc, labels_drop_take]
  have hlen : ann.rows.length = min (b - a) (W.rows.length - a) := by
    show ((W.rows.drop a).take (b - a)).length = _
    rw [List.length_take, List.length_drop]
  obtain ⟨tl, htl⟩ := labels_head ((c0 : Int) + (a : Int)) (min (b - a) (W.rows.length - a)) (by omega)
  have hoff : offset = (c0 : Int) + (a : Int) := by
    show firstLabel ann.index = _
    rw [hidx, htl]; rfl
  have hsub : ((c0 + p : Nat) : Int) - offset = ((p - a : Nat) : Int) := by rw [hoff]; omega
  rw [hsub, hlen]
  constructor
  · simp only [ilocOk, Bool.and_eq_true, decide_eq_true_eq]; omega
  · have hpos : ilocPos (min (b - a) (W.rows.length - a)) ((p - a : Nat) : Int) = p - a := by
      unfold ilocPos
      rw [if_neg (by omega)]; simp
    rw [hpos, List.getD_eq_getElem?_getD, List.getD_eq_getElem?_getD]
    show ((W.rows.drop a).take (b - a))[p - a]?.getD [] = _
    rw [getElem?_drop_take, if_pos (by omega)]
    congr 2; omega

/-- the same for the label window `df.loc[beg:end]` of a contiguous frame: every label `b` with
`beg ≤ b ≤ end` that the frame contains is found by `iloc[b - ann.index[0]]` -/
theorem window_take (f : Frame) (c0 : Nat) (hc : Contig f c0) (beg : Int) (e : Option Int) (b : Int)
    (h1 : beg ≤ b) (h2 : ∀ e', e = some e' → b ≤ e') (h3 : (c0 : Int) ≤ b) (h4 : b < (c0 : Int) + f.rows.length) :
    let ann := locSliceFrame f beg e
    let offset : Int := firstLabel ann.index
    ilocOk ann.rows.length (b - offset) = true ∧
      ann.rows.getD (ilocPos ann.rows.length (b - offset)) [] = f.rows.getD (b - (c0 : Int)).toNat [] := by
  have hb : b = ((c0 + (b - (c0 : Int)).toNat : Nat) : Int) := by omega
  have hstart : f.index.countP (fun l => decide (l < beg)) ≤ (b - (c0 : Int)).toNat := by
    rw [hc, countP_lt_labels]; omega
  cases e with
  | none =>
    have hstop : (b - (c0 : Int)).toNat < f.index.length := by rw [hc, labels_length]; omega
    have := part_take f c0 _ _ (b - (c0 : Int)).toNat hc hstart hstop (by omega)
    rw [← hb] at this
    exact this
  | some e' =>
    have hstop : (b - (c0 : Int)).toNat < f.index.countP (fun l => decide (l ≤ e')) := by
      have := h2 e' rfl
      rw [hc, countP_le_labels]; omega
    have := part_take f c0 _ _ (b - (c0 : Int)).toNat hc hstart hstop (by omega)
    rw [← hb] at this
    exact this

/-- the window `annotate` asks for contains every id of the list (both strategies) -/
theorem window_covers (len : Nat) (ids : List Int) (b : Int) (hb : b ∈ ids) (h0 : 0 ≤ b) :
    (annotateWindow len ids).1 ≤ b ∧ ∀ e', (annotateWindow len ids).2 = some e' → b ≤ e' := by
  cases ids with
  | nil => simp at hb
  | cons i rest =>
    simp only [annotateWindow]
    split
    · refine ⟨foldl_min_le rest i b hb, ?_⟩
      intro e' he'
      simp only [Option.some.injEq] at he'
      subst he'
      exact le_foldl_max rest i b hb
    · exact ⟨h0, by intro e' he'; cases he'⟩

/-- one side of `annotate` against a contiguous frame that contains every id: the row labelled `b`
for every id `b`, in the order of the ids — whichever strategy is taken -/
theorem annotateSide_frame (f : Frame) (c0 : Nat) (hc : Contig f c0) (suffix : String) (ids : List Int)
    (hids : ∀ b ∈ ids, (c0 : Int) ≤ b ∧ b < (c0 : Int) + f.rows.length) :
    annotateSide (.frame f) suffix ids =
      .ok (f.cols.map (· ++ suffix), ids.map fun b => f.rows.getD (b - (c0 : Int)).toNat []) := by
  unfold annotateSide
  simp only [locSlice]
  have hcov : ∀ b ∈ ids, (annotateWindow (BinsArg.frame f).len ids).1 ≤ b ∧
      ∀ e', (annotateWindow (BinsArg.frame f).len ids).2 = some e' → b ≤ e' :=
    fun b hb => window_covers _ ids b hb (by have := (hids b hb).1; omega)
  generalize annotateWindow (BinsArg.frame f).len ids = win at hcov ⊢
  have hall : (ids.all fun b => ilocOk (locSliceFrame f win.1 win.2).rows.length
      (b - firstLabel (locSliceFrame f win.1 win.2).index)) = true := by
    apply List.all_eq_true.mpr
    intro b hb
    exact (window_take f c0 hc win.1 win.2 b (hcov b hb).1 (hcov b hb).2 (hids b hb).1 (hids b hb).2).1
  simp only [hall, Bool.not_true, Bool.false_eq_true, if_false, Except.ok.injEq, Prod.mk.injEq]
  refine ⟨rfl, ?_⟩
  apply List.map_congr_left
  intro b hb
  exact (window_take f c0 hc win.1 win.2 b (hcov b hb).1 (hcov b hb).2 (hids b hb).1 (hids b hb).2).2

theorem hcat_map {α} (l : List α) (g h : α → Row) :
    hcat (l.map g) (l.map h) = l.map fun x => g x ++ h x := by
  induction l with
  | nil => rfl
  | cons x xs ih => simp only [List.map_cons, hcat, List.zipWith_cons_cons] at ih ⊢; rw [ih]

theorem mapE_ok_map {α β ε} (f : α → Except ε β) (g : α → β) (l : List α)
    (h : ∀ x ∈ l, f x = .ok (g x)) : mapE f l = .ok (l.map g) := by
  induction l with
  | nil => rfl
  | cons x xs ih =>
    simp only [mapE, h x (by simp), ih (fun y hy => h y (by simp [hy])), List.map_cons]

/-- what the theorems assume of the pixel frame: both id columns exist (`k1`, `k2` their positions)
and every row carries integer ids inside `[lo, hi)` -/
structure IdsWithin (px : Frame) (k1 k2 lo hi : Nat) : Prop where
  col1 : colIdx px.cols "bin1_id" = some k1
  col2 : colIdx px.cols "bin2_id" = some k2
  ids : ∀ r ∈ px.rows, ∃ i j : Nat, idOf k1 r = some (i : Int) ∧ idOf k2 r = some (j : Int) ∧
    lo ≤ i ∧ i < hi ∧ lo ≤ j ∧ j < hi

/-- **the core of the annotate proofs.**  Whatever the form of `bins`, if each side of `annotate`
delivers, for every id list inside `[lo, hi)`, the rows `R[b]` of the whole table `(C, R)` in the order
of the ids, then `annotate` equals the specification `annotateSpec C R`. -/
theorem annotate_of_sides (bins : BinsArg) (C : List String) (R : List Row) (px : Frame)
    (k1 k2 lo hi : Nat) (replace : Bool) (hhi : hi ≤ R.length) (hpx : IdsWithin px k1 k2 lo hi)
    (hside : ∀ (sfx : String) (ids : List Int), (∀ b ∈ ids, (lo : Int) ≤ b ∧ b < (hi : Int)) →
      annotateSide bins sfx ids = .ok (C.map (· ++ sfx), ids.map fun b => R.getD b.toNat [])) :
    annotate px bins replace = annotateSpec C R px replace := by
  obtain ⟨hk1, hk2, hids⟩ := hpx
  have hcol : ∀ (name sfx : String) (k : Nat), colIdx px.cols name = some k →
      (∀ r ∈ px.rows, ∃ i : Nat, idOf k r = some (i : Int) ∧ lo ≤ i ∧ i < hi) →
      annotateCol px bins name sfx =
        .ok (C.map (· ++ sfx), px.rows.map fun r => R.getD ((idOf k r).getD 0).toNat []) := by
    intro name sfx k hk hr
    unfold annotateCol
    rw [hk]
    simp only
    have hall : (px.rows.all fun r => (idOf k r).isSome) = true :=
      List.all_eq_true.mpr fun r hr' => by obtain ⟨i, hi, _⟩ := hr r hr'; simp [hi]
    simp only [hall, Bool.not_true, Bool.false_eq_true, if_false]
    rw [hside sfx _ (by
      intro b hb
      obtain ⟨r, hr', rfl⟩ := List.mem_map.mp hb
      obtain ⟨i, hi, h1, h2⟩ := hr r hr'
      rw [hi]; simp only [Option.getD_some]; omega)]
    simp [List.map_map, Function.comp]
  have h1 := hcol "bin1_id" "1" k1 hk1 (fun r hr => by
    obtain ⟨i, j, hi, _, h1, h2, _, _⟩ := hids r hr; exact ⟨i, hi, h1, h2⟩)
  have h2 := hcol "bin2_id" "2" k2 hk2 (fun r hr => by
    obtain ⟨i, j, _, hj, _, _, h1, h2⟩ := hids r hr; exact ⟨j, hj, h1, h2⟩)
  unfold annotate annotateSpec
  rw [h1, h2, hk1, hk2]
  simp only [hcat_map]
  rw [mapE_ok_map (specRow R k1 k2 (keepMask px.cols replace))
    (fun r => (R.getD ((idOf k1 r).getD 0).toNat [] ++ R.getD ((idOf k2 r).getD 0).toNat [])
      ++ maskRow (keepMask px.cols replace) r)]
  intro r hr
  obtain ⟨i, j, hi, hj, _, hi2, _, hj2⟩ := hids r hr
  unfold specRow
  rw [hi, hj]
  simp only [Option.getD_some, Int.toNat_natCast]
  rw [if_neg (by omega)]
  have hRi : R[i]? = some (R.getD i []) := by
    rw [List.getD_eq_getElem?_getD, List.getElem?_eq_getElem (by omega)]; rfl
  have hRj : R[j]? = some (R.getD j []) := by
    rw [List.getD_eq_getElem?_getD, List.getElem?_eq_getElem (by omega)]; rfl
  rw [hRi, hRj]

theorem framePart_contig (W : Frame) (b0 b1 : Nat) (hW : Contig W 0) :
    Contig (framePart W b0 b1) b0 := by
  unfold Contig at hW ⊢
  show (W.index.drop b0).take (b1 - b0) = labels (b0 : Int) ((W.rows.drop b0).take (b1 - b0)).length
  rw [hW, labels_drop_take, List.length_take, List.length_drop]
  congr 1; simp

theorem framePart_rows_getD (W : Frame) (b0 b1 p : Nat) (h0 : b0 ≤ p) (h1 : p < b1) :
    (framePart W b0 b1).rows.getD (p - b0) [] = W.rows.getD p [] := by
  show ((W.rows.drop b0).take (b1 - b0)).getD (p - b0) [] = _
  rw [List.getD_eq_getElem?_getD, List.getD_eq_getElem?_getD, getElem?_drop_take, if_pos (by omega)]
  congr 2; omega

theorem framePart_full (W : Frame) (h : W.index.length = W.rows.length) :
    framePart W 0 W.rows.length = W := by
  unfold framePart
  simp only [List.drop_zero, Nat.sub_zero, List.take_length]
  rw [← h, List.take_length]

/-- **annotate_correct** — bins given as ANY contiguous part `bins_df.iloc[b0:b1]` of the bin table
`W` (labelled by bin id).  IF every bin id the pixels refer to lies in `[b0, b1)` THEN `annotate`
equals the specification `annotateSpec` on the WHOLE table: row `k` of the output is the row of bin
`pixels[k].bin1_id` (columns suffixed `1`), the row of bin `pixels[k].bin2_id` (suffixed `2`) and the
pixel's own cells (without the id columns when `replace`), in the pixels' order, carrying the
pixels' index (`annotateSpec_ok` spells this out).  Both strategy branches (`len(bins) > len(pixels)`
or not) and every offset `b0` are covered: nothing is assumed about the lengths. -/
theorem annotate_correct (W px : Frame) (b0 b1 k1 k2 : Nat) (replace : Bool)
    (hW : Contig W 0) (hb : b1 ≤ W.rows.length) (hpx : IdsWithin px k1 k2 b0 b1) :
    annotate px (.frame (framePart W b0 b1)) replace = annotateSpec W.cols W.rows px replace := by
  apply annotate_of_sides (.frame (framePart W b0 b1)) W.cols W.rows px k1 k2 b0 b1 replace hb hpx
  intro sfx ids hids
  have hlen : (framePart W b0 b1).rows.length = b1 - b0 := by
    show ((W.rows.drop b0).take (b1 - b0)).length = _
    rw [List.length_take, List.length_drop]; omega
  rw [annotateSide_frame (framePart W b0 b1) b0 (framePart_contig W b0 b1 hW) sfx ids (by
    intro b hb'
    have := hids b hb'
    rw [hlen]; omega)]
  congr 1
  apply congrArg
  apply List.map_congr_left
  intro b hb'
  have := hids b hb'
  have e : (b - (b0 : Int)).toNat = b.toNat - b0 := by omega
  rw [e]
  exact framePart_rows_getD W b0 b1 b.toNat (by omega) (by omega)

/-- the specification is defined (no error) under the same hypotheses, and says what the property
says: pixels' index, pixels' order, each row = its two bins' rows followed by its own kept cells -/
theorem annotateSpec_ok (C : List String) (R : List Row) (px : Frame) (k1 k2 lo hi : Nat) (replace : Bool)
    (hhi : hi ≤ R.length) (hpx : IdsWithin px k1 k2 lo hi) :
    ∃ rows, annotateSpec C R px replace =
        .ok ⟨C.map (· ++ "1") ++ C.map (· ++ "2") ++ maskRow (keepMask px.cols replace) px.cols,
             px.index, rows, false⟩
      ∧ rows.length = px.rows.length
      ∧ ∀ (k : Nat) (r : Row), px.rows[k]? = some r →
          ∃ (i j : Nat) (bi bj : Row), idOf k1 r = some (i : Int) ∧ idOf k2 r = some (j : Int) ∧
            R[i]? = some bi ∧ R[j]? = some bj ∧
            rows[k]? = some (bi ++ bj ++ maskRow (keepMask px.cols replace) r) := by
  obtain ⟨hk1, hk2, hids⟩ := hpx
  refine ⟨px.rows.map fun r => (R.getD ((idOf k1 r).getD 0).toNat [] ++ R.getD ((idOf k2 r).getD 0).toNat [])
      ++ maskRow (keepMask px.cols replace) r, ?_, by simp, ?_⟩
  · unfold annotateSpec
    rw [hk1, hk2]
    simp only
    rw [mapE_ok_map (specRow R k1 k2 (keepMask px.cols replace))
      (fun r => (R.getD ((idOf k1 r).getD 0).toNat [] ++ R.getD ((idOf k2 r).getD 0).toNat [])
        ++ maskRow (keepMask px.cols replace) r)]
    intro r hr
    obtain ⟨i, j, hi', hj, _, hi2, _, hj2⟩ := hids r hr
    unfold specRow
    rw [hi', hj]
    simp only [Option.getD_some, Int.toNat_natCast]
    rw [if_neg (by omega)]
    have hRi : R[i]? = some (R.getD i []) := by
      rw [List.getD_eq_getElem?_getD, List.getElem?_eq_getElem (by omega)]; rfl
    have hRj : R[j]? = some (R.getD j []) := by
      rw [List.getD_eq_getElem?_getD, List.getElem?_eq_getElem (by omega)]; rfl
    rw [hRi, hRj]
  · intro k r hr
    obtain ⟨i, j, hi', hj, _, hi2, _, hj2⟩ := hids r (List.mem_of_getElem? hr)
    refine ⟨i, j, R.getD i [], R.getD j [], hi', hj, ?_, ?_, ?_⟩
    · rw [List.getD_eq_getElem?_getD, List.getElem?_eq_getElem (by omega)]; rfl
    · rw [List.getD_eq_getElem?_getD, List.getElem?_eq_getElem (by omega)]; rfl
    · rw [List.getElem?_map, hr]
      simp only [Option.map_some, hi', hj, Option.getD_some, Int.toNat_natCast]

/-- non-vacuity of `annotate_correct`: three bins, the part `[1, 3)` (first label 1), two pixels in
reverse bin order with index labels 10, 11 — the window branch (`len(bins) = 2 > 1`) for one pixel
and the whole-table branch for two -/
example :
    let W : Frame := ⟨["chrom", "start"], [0, 1, 2],
      [[.str "c0", .int 0], [.str "c0", .int 10], [.str "c1", .int 0]], false⟩
    let px : Frame := ⟨["bin1_id", "bin2_id", "count"], [10, 11],
      [[.int 2, .int 2, .int 5], [.int 1, .int 2, .int 7]], false⟩
    Contig W 0 ∧ IdsWithin px 0 1 1 3 ∧
    annotate px (.frame (framePart W 1 3)) true
      = .ok ⟨["chrom1", "start1", "chrom2", "start2", "count"], [10, 11],
          [[.str "c1", .int 0, .str "c1", .int 0, .int 5],
           [.str "c0", .int 10, .str "c1", .int 0, .int 7]], false⟩ := by
  refine ⟨by unfold Contig; decide, ⟨by decide, by decide, ?_⟩, by decide⟩
  intro r hr
  simp only [List.mem_cons, List.not_mem_nil, or_false] at hr
  rcases hr with rfl | rfl
  · exact ⟨2, 2, by decide⟩
  · exact ⟨1, 2, by decide⟩

/-! ### bins given as the selector `Cooler.bins()` -/

theorem binsDecode_shape (t : Stored) (names : List String) (target : Option (String × Nat))
    (W W' : Frame) (h : binsDecode t names target W = .ok W') :
    W'.cols = W.cols ∧ W'.index = W.index ∧ W'.rows.length = W.rows.length := by
  unfold binsDecode at h
  match target with
  | none => simp only [Except.ok.injEq] at h; subst h; simp
  | some (name, j) =>
    simp only at h
    split at h
    · split at h
      · cases h
      · simp only [Except.ok.injEq] at h; subst h; simp
    · simp only [Except.ok.injEq] at h; subst h; simp

theorem tableGet_whole_contig (t : Stored) (fs : List String) (series : Bool) (W : Frame)
    (hW : tableGet t 0 (some (t.rows.length : Int)) fs series = .ok W) :
    Contig W 0 ∧ W.rows.length ≤ t.rows.length := by
  have h0 := tableGet_nat t 0 t.rows.length fs series
  rw [show ((0 : Nat) : Int) = 0 from rfl, hW] at h0
  simp only [List.drop_zero, Nat.sub_zero, List.take_length] at h0
  split at h0
  · cases h0
  · split at h0
    · cases h0
    · split at h0
      · simp only [Except.ok.injEq] at h0; subst h0; simp [Contig, labels]
      · simp only [Except.ok.injEq] at h0; subst h0; simp [Contig]

theorem binsSel_whole (s : BinsSel) (W : Frame) (hn : s.nmax = s.t.rows.length)
    (hW : s.getRows (.slice none none none) = .ok W) :
    binsGet s.t s.chromNames 0 (some (s.t.rows.length : Int)) s.fields = .ok W := by
  simp only [BinsSel.getRows, processKey, true_or, if_true, processSlice, normBound] at hW
  rw [← hn]; exact hW

theorem binsSel_whole_shape (s : BinsSel) (W : Frame) (hn : s.nmax = s.t.rows.length)
    (hW : s.getRows (.slice none none none) = .ok W) :
    Contig W 0 ∧ W.rows.length ≤ s.t.rows.length := by
  have h := binsSel_whole s W hn hW
  simp only [binsGet] at h
  cases hout : tableGet s.t 0 (some (s.t.rows.length : Int)) (s.fields.resolve binsStd s.t.names).1
      (s.fields.resolve binsStd s.t.names).2 with
  | error e => rw [hout] at h; simp at h
  | ok out =>
    rw [hout] at h
    obtain ⟨_, h2, h3⟩ := binsDecode_shape _ _ _ out W h
    obtain ⟨h4, h5⟩ := tableGet_whole_contig _ _ _ out hout
    refine ⟨?_, by omega⟩
    unfold Contig at h4 ⊢
    rw [h2, h3]; exact h4

theorem le_foldl_min (rest : List Int) (i c : Int) (h : ∀ b ∈ i :: rest, c ≤ b) : c ≤ rest.foldl min i := by
  induction rest generalizing i with
  | nil => exact h i (by simp)
  | cons x xs ih =>
    simp only [List.foldl_cons]
    apply ih
    intro b hb
    rcases List.mem_cons.mp hb with rfl | hb'
    · have := h i (by simp); have := h x (by simp); omega
    · exact h b (by simp [hb'])

/-- the window is made of non-negative numbers when the ids are -/
theorem window_nonneg (len : Nat) (ids : List Int) (h : ∀ b ∈ ids, 0 ≤ b) :
    0 ≤ (annotateWindow len ids).1 ∧ ∀ e', (annotateWindow len ids).2 = some e' → 0 ≤ e' := by
  cases ids with
  | nil => simp [annotateWindow]
  | cons i rest =>
    simp only [annotateWindow]
    split
    · refine ⟨le_foldl_min rest i 0 h, ?_⟩
      intro e' he'
      simp only [Option.some.injEq] at he'
      subst he'
      have := le_foldl_max rest i i (by simp)
      have := h i (by simp)
      omega
    · exact ⟨by simp, by intro e' he'; cases he'⟩

/-- one side of `annotate` against the selector: `sel[bmin : bmax + 1]` (or `sel[0:]`) is the part
of the whole table, and the positional take relative to its first label finds every id's row -/
theorem annotateSide_selector (s : BinsSel) (W : Frame) (hn : s.nmax = s.t.rows.length)
    (hW : s.getRows (.slice none none none) = .ok W) (suffix : String) (ids : List Int)
    (hids : ∀ b ∈ ids, (0 : Int) ≤ b ∧ b < (W.rows.length : Int)) :
    annotateSide (.selector s) suffix ids =
      .ok (W.cols.map (· ++ suffix), ids.map fun b => W.rows.getD b.toNat []) := by
  obtain ⟨hc, hle⟩ := binsSel_whole_shape s W hn hW
  have hwhole := binsSel_whole s W hn hW
  unfold annotateSide
  have hcov : ∀ b ∈ ids, (annotateWindow (BinsArg.selector s).len ids).1 ≤ b ∧
      ∀ e', (annotateWindow (BinsArg.selector s).len ids).2 = some e' → b ≤ e' :=
    fun b hb => window_covers _ ids b hb (hids b hb).1
  obtain ⟨hnn1, hnn2⟩ := window_nonneg (BinsArg.selector s).len ids (fun b hb => (hids b hb).1)
  generalize annotateWindow (BinsArg.selector s).len ids = win at hcov hnn1 hnn2 ⊢
  obtain ⟨beg, e⟩ := win
  simp only at hcov hnn1 hnn2
  -- the part of the table the selector returns for this window
  have hsl : ∃ b' : Nat, locSlice (.selector s) beg e = .ok (framePart W beg.toNat b') ∧
      (∀ b ∈ ids, b.toNat < b') := by
    cases e with
    | none =>
      refine ⟨s.t.rows.length, ?_, ?_⟩
      · simp only [locSlice, BinsSel.getRows, Option.map_none, processKey, true_or, if_true, processSlice,
          normBound]
        rw [if_neg (by omega), hn]
        have := binsGet_part s.t s.chromNames s.fields W beg.toNat s.t.rows.length hwhole
        rw [Int.toNat_of_nonneg hnn1] at this
        exact this
      · intro b hb; have := hids b hb; omega
    | some e' =>
      have he0 := hnn2 e' rfl
      refine ⟨(e' + 1).toNat, ?_, ?_⟩
      · simp only [locSlice, BinsSel.getRows, Option.map_some, processKey, true_or, if_true, processSlice,
          normBound]
        rw [if_neg (by omega), if_neg (by omega)]
        have := binsGet_part s.t s.chromNames s.fields W beg.toNat (e' + 1).toNat hwhole
        rw [Int.toNat_of_nonneg hnn1, Int.toNat_of_nonneg (by omega)] at this
        exact this
      · intro b hb; have := (hcov b hb).2 e' rfl; have := hids b hb; omega
  obtain ⟨b', hsl, hlt⟩ := hsl
  simp only [hsl]
  have htake : ∀ b ∈ ids,
      ilocOk (framePart W beg.toNat b').rows.length (b - firstLabel (framePart W beg.toNat b').index) = true ∧
      (framePart W beg.toNat b').rows.getD
        (ilocPos (framePart W beg.toNat b').rows.length (b - firstLabel (framePart W beg.toNat b').index)) []
        = W.rows.getD b.toNat [] := by
    intro b hb
    have h1 := hids b hb
    have h2 := (hcov b hb).1
    have := part_take W 0 beg.toNat b' b.toNat hc (by omega) (hlt b hb) (by omega)
    have hb0 : ((0 + b.toNat : Nat) : Int) = b := by omega
    rw [hb0] at this
    exact this
  have hall : (ids.all fun b => ilocOk (framePart W beg.toNat b').rows.length
      (b - firstLabel (framePart W beg.toNat b').index)) = true :=
    List.all_eq_true.mpr fun b hb => (htake b hb).1
  simp only [hall, Bool.not_true, Bool.false_eq_true, if_false, Except.ok.injEq, Prod.mk.injEq]
  exact ⟨rfl, List.map_congr_left fun b hb => (htake b hb).2⟩

/-- **annotate_selector_correct** — bins given as the selector `c.bins()` (with any column
argument): `annotate` equals the specification on `W = c.bins()[cols][:]`, whenever the ids are bin
ids of the table.  (`len(bins)` is the table length; both strategy branches are covered.) -/
theorem annotate_selector_correct (s : BinsSel) (W px : Frame) (k1 k2 : Nat) (replace : Bool)
    (hn : s.nmax = s.t.rows.length) (hW : s.getRows (.slice none none none) = .ok W)
    (hpx : IdsWithin px k1 k2 0 W.rows.length) :
    annotate px (.selector s) replace = annotateSpec W.cols W.rows px replace := by
  apply annotate_of_sides (.selector s) W.cols W.rows px k1 k2 0 W.rows.length replace (Nat.le_refl _) hpx
  intro sfx ids hids
  exact annotateSide_selector s W hn hW sfx ids (by intro b hb; have := hids b hb; omega)

/-- **annotate_forms_agree** — the whole frame `c.bins()[:]`, the selector `c.bins()` and any
contiguous part `bins_df.iloc[b0:b1]` containing the needed bins give the same annotated frame. -/
theorem annotate_forms_agree (s : BinsSel) (W px : Frame) (b0 b1 k1 k2 : Nat) (replace : Bool)
    (hn : s.nmax = s.t.rows.length) (hW : s.getRows (.slice none none none) = .ok W)
    (hb : b1 ≤ W.rows.length) (hpx : IdsWithin px k1 k2 b0 b1) :
    annotate px (.frame (framePart W b0 b1)) replace = annotate px (.frame W) replace
    ∧ annotate px (.selector s) replace = annotate px (.frame W) replace := by
  obtain ⟨hc, _⟩ := binsSel_whole_shape s W hn hW
  have hwide : IdsWithin px k1 k2 0 W.rows.length := by
    obtain ⟨h1, h2, h3⟩ := hpx
    refine ⟨h1, h2, ?_⟩
    intro r hr
    obtain ⟨i, j, hi, hj, _, _, _, _⟩ := h3 r hr
    exact ⟨i, j, hi, hj, by omega, by omega, by omega, by omega⟩
  have hfull : framePart W 0 W.rows.length = W := framePart_full W (by rw [hc, labels_length])
  have hwhole := annotate_correct W px 0 W.rows.length k1 k2 replace hc (Nat.le_refl _) hwide
  rw [hfull] at hwhole
  rw [annotate_correct W px b0 b1 k1 k2 replace hc hb hpx,
    annotate_selector_correct s W px k1 k2 replace hn hW hwide, hwhole]
  exact ⟨rfl, rfl⟩

/-- non-vacuity of `annotate_selector_correct` / `annotate_forms_agree`: an integer-encoded
three-bin table behind a selector; two pixels (fewer than bins: window branch through
`sel[1:3]`), ids inside `[1, 3)` -/
example :
    let t : Stored := ⟨[("chrom", .int), ("end", .int), ("start", .int)],
      [[.int 0, .int 10, .int 0], [.int 0, .int 17, .int 10], [.int 1, .int 7, .int 0]]⟩
    let s : BinsSel := ⟨t, ["c0", "c1"], .default, 3⟩
    let W : Frame := ⟨["chrom", "start", "end"], [0, 1, 2],
      [[.str "c0", .int 0, .int 10], [.str "c0", .int 10, .int 17], [.str "c1", .int 0, .int 7]], false⟩
    let px : Frame := ⟨["bin1_id", "bin2_id", "count"], [7, 3], [[.int 2, .int 1, .int 5], [.int 1, .int 1, .int 9]], false⟩
    s.getRows (.slice none none none) = .ok W
    ∧ annotate px (.selector s) false
      = .ok ⟨["chrom1", "start1", "end1", "chrom2", "start2", "end2", "bin1_id", "bin2_id", "count"], [7, 3],
          [[.str "c1", .int 0, .int 7, .str "c0", .int 10, .int 17, .int 2, .int 1, .int 5],
           [.str "c0", .int 10, .int 17, .str "c0", .int 10, .int 17, .int 1, .int 1, .int 9]], false⟩
    ∧ annotate px (.frame (framePart W 1 3)) false = annotate px (.selector s) false
    ∧ annotate px (.frame W) false = annotate px (.selector s) false := by
  decide

/-- **annotate_empty** — the repaired behaviour (known_findings D15, 9d9fdcb): with no pixel at all,
`annotate` against ANY frame — whatever its labels; in particular a part of the bin table that does
not contain bin 0, or an empty one — is the empty frame with the annotated column names and the
pixels' (empty) index; it does not raise. -/
theorem annotate_empty (px f : Frame) (k1 k2 : Nat) (replace : Bool) (hrows : px.rows = [])
    (hk1 : colIdx px.cols "bin1_id" = some k1) (hk2 : colIdx px.cols "bin2_id" = some k2) :
    annotate px (.frame f) replace =
      .ok ⟨f.cols.map (· ++ "1") ++ f.cols.map (· ++ "2") ++ maskRow (keepMask px.cols replace) px.cols,
           px.index, [], false⟩ := by
  simp [annotate, annotateCol, hk1, hk2, hrows, annotateSide, annotateWindow, locSlice, locSliceFrame,
    framePart, hcat]

/-- non-vacuity: no pixels, the part `[2, 3)` of a bin table (first label 2: the case that raised) -/
example :
    annotate ⟨["bin1_id", "bin2_id", "count"], [], [], false⟩
      (.frame ⟨["chrom", "start"], [2], [[.str "c1", .int 0]], false⟩) true
    = .ok ⟨["chrom1", "start1", "chrom2", "start2", "count"], [], [], false⟩ := by decide

/-! ### the labels of a selector's rows are their row numbers -/

/-- the whole table read through a selector is labelled `0, 1, …` (its row numbers) -/
theorem selector_whole_contig (s : Selector) (W : Frame) (hn : s.nmax = srcLen s.src)
    (hj : srcJoin s.src = false) (hW : s.getRows (.slice none none none) = .ok W) : Contig W 0 := by
  rw [getRows_whole] at hW
  obtain ⟨src, fields, nmax⟩ := s
  simp only at hn hj hW
  subst hn
  cases src with
  | chroms t => exact (tableGet_whole_contig t _ _ W hW).1
  | bins t names =>
    exact (binsSel_whole_shape ⟨t, names, fields, t.rows.length⟩ W rfl (by
      simp only [BinsSel.getRows, processKey, true_or, if_true, processSlice, normBound]
      exact hW)).1
  | pixels t bt join =>
    simp only [srcJoin] at hj
    subst hj
    simp only [Selector.slice, pixelsGet, srcLen] at hW
    cases h : tableGet t 0 (some (t.rows.length : Int)) (fields.resolve pixelsStd t.names).1
        (fields.resolve pixelsStd t.names).2 with
    | error e => rw [h] at hW; simp at hW
    | ok out =>
      rw [h] at hW
      simp only [Bool.false_eq_true, if_false, Except.ok.injEq] at hW
      subst hW
      exact (tableGet_whole_contig t _ _ out h).1

/-- **selector_slice_labels** — the rows a slice returns are labelled with their row numbers
`a, …, b-1` and there are `b - a` of them (for `a ≤ b` within the table read) -/
theorem selector_slice_labels (s : Selector) (W : Frame) (lo hi : Option Int)
    (hn : s.nmax = srcLen s.src) (hj : srcJoin s.src = false)
    (hW : s.getRows (.slice none none none) = .ok W)
    (hlo : InDom s.nmax lo) (hhi : InDom s.nmax hi)
    (hab : (pySliceIndices s.nmax lo hi).1 ≤ (pySliceIndices s.nmax lo hi).2)
    (hb : (pySliceIndices s.nmax lo hi).2 ≤ W.rows.length) :
    ∃ F, s.getRows (.slice lo hi none) = .ok F
      ∧ F.index = labels ((pySliceIndices s.nmax lo hi).1 : Int)
          ((pySliceIndices s.nmax lo hi).2 - (pySliceIndices s.nmax lo hi).1)
      ∧ F.rows = (W.rows.drop (pySliceIndices s.nmax lo hi).1).take
          ((pySliceIndices s.nmax lo hi).2 - (pySliceIndices s.nmax lo hi).1)
      ∧ F.cols = W.cols := by
  refine ⟨_, selector_slice_rows s W lo hi hn hj hW hlo hhi, ?_, rfl, rfl⟩
  have hc := selector_whole_contig s W hn hj hW
  show (W.index.drop _).take _ = _
  rw [hc, labels_drop_take]
  congr 1
  · simp
  · omega


/-! ### bounds beyond the end of the table are clipped -/

/-- bounds beyond the end: `_process_slice` passes them through unclipped, as natural numbers whose
clipping to `n` is Python's `slice.indices` -/
theorem processKey_slice_wide (n : Nat) (lo hi : Option Int) (hlo : InDomW n lo) (hhi : InDomW n hi) :
    ∃ a b : Nat, processKey n (.slice lo hi none) = .ok ((a : Int), (b : Int))
      ∧ min a n = (pySliceIndices n lo hi).1 ∧ min b n = (pySliceIndices n lo hi).2 := by
  simp only [processKey, true_or, if_true, processSlice, pySliceIndices]
  refine ⟨(normBound n 0 lo).toNat, (normBound n n hi).toNat, ?_, ?_, ?_⟩
  · have h1 : 0 ≤ normBound n 0 lo := by
      cases lo <;> simp only [normBound, InDomW] at * <;> (try split) <;> omega
    have h2 : 0 ≤ normBound n n hi := by
      cases hi <;> simp only [normBound, InDomW] at * <;> (try split) <;> omega
    rw [Int.toNat_of_nonneg h1, Int.toNat_of_nonneg h2]
  · cases lo <;> simp only [normBound, clampBound, InDomW] at * <;> (repeat' split) <;> omega
  · cases hi <;> simp only [normBound, clampBound, InDomW] at * <;> (repeat' split) <;> omega

/-- a part whose ends lie beyond the frame is the part with the ends clipped -/
theorem framePart_clamp (W : Frame) (a b : Nat) (h : W.index.length = W.rows.length) :
    framePart W (min a W.rows.length) (min b W.rows.length) = framePart W a b := by
  unfold framePart
  simp only [Frame.mk.injEq, true_and, and_true]
  constructor
  · rw [← h]; exact drop_take_clamp W.index a b
  · exact drop_take_clamp W.rows a b

/-- **selector_slice_rows_wide** — the row-range theorem on the widened domain: bounds may lie beyond
the end of the table (`bins()[7:12]` with 10 bins, `pixels()[:1000]`, `bins()[12:15]`).  The result is
the part `[a, b)` of the whole table with `(a, b) = slice(lo, hi).indices(n)` — the rows that exist in
the range, labelled with their row numbers — exactly what Python slicing returns. -/
theorem selector_slice_rows_wide (s : Selector) (W : Frame) (lo hi : Option Int)
    (hn : s.nmax = srcLen s.src) (hj : srcJoin s.src = false)
    (hW : s.getRows (.slice none none none) = .ok W) (hlen : W.rows.length = s.nmax)
    (hlo : InDomW s.nmax lo) (hhi : InDomW s.nmax hi) :
    s.getRows (.slice lo hi none) =
      .ok (framePart W (pySliceIndices s.nmax lo hi).1 (pySliceIndices s.nmax lo hi).2) := by
  have hc := selector_whole_contig s W hn hj hW
  obtain ⟨a, b, hk, ha, hb⟩ := processKey_slice_wide s.nmax lo hi hlo hhi
  rw [getRows_whole] at hW
  rw [getRows_eq, hk]
  simp only
  rw [slice_part s W a b hn hj hW, ← ha, ← hb, ← hlen]
  rw [framePart_clamp W a b (by rw [hc, labels_length])]

example : InDomW 10 (some 7) ∧ InDomW 10 (some 12) ∧ pySliceIndices 10 (some 7) (some 12) = (7, 10)
    ∧ processSlice 10 (some 7) (some 12) = (7, 12) := by decide


/-! ### `Cooler.pixels(join=True)` -/

/-- the annotated row of one pixel row (total form used under `IdsWithin`) -/
def annRow (R : List Row) (k1 k2 : Nat) (mask : List Bool) (r : Row) : Row :=
  (R.getD ((idOf k1 r).getD 0).toNat [] ++ R.getD ((idOf k2 r).getD 0).toNat []) ++ maskRow mask r

theorem annotateSpec_eq_map (C : List String) (R : List Row) (px : Frame) (k1 k2 lo hi : Nat) (replace : Bool)
    (hhi : hi ≤ R.length) (hpx : IdsWithin px k1 k2 lo hi) :
    annotateSpec C R px replace =
      .ok ⟨C.map (· ++ "1") ++ C.map (· ++ "2") ++ maskRow (keepMask px.cols replace) px.cols,
           px.index, px.rows.map (annRow R k1 k2 (keepMask px.cols replace)), false⟩ := by
  obtain ⟨hk1, hk2, hids⟩ := hpx
  unfold annotateSpec
  rw [hk1, hk2]
  simp only
  rw [mapE_ok_map (specRow R k1 k2 (keepMask px.cols replace)) (annRow R k1 k2 (keepMask px.cols replace))]
  intro r hr
  obtain ⟨i, j, hi', hj, _, hi2, _, hj2⟩ := hids r hr
  unfold specRow annRow
  rw [hi', hj]
  simp only [Option.getD_some, Int.toNat_natCast]
  rw [if_neg (by omega)]
  have hRi : R[i]? = some (R.getD i []) := by
    rw [List.getD_eq_getElem?_getD, List.getElem?_eq_getElem (by omega)]; rfl
  have hRj : R[j]? = some (R.getD j []) := by
    rw [List.getD_eq_getElem?_getD, List.getElem?_eq_getElem (by omega)]; rfl
  rw [hRi, hRj]

theorem idsWithin_part (px : Frame) (k1 k2 lo hi a b : Nat) (h : IdsWithin px k1 k2 lo hi) :
    IdsWithin (framePart px a b) k1 k2 lo hi :=
  ⟨h.col1, h.col2, fun r hr => h.ids r (mem_drop_take hr)⟩

/-- annotating a part of a pixel frame against a whole bin frame is the part of the annotation -/
theorem annotate_part (B px : Frame) (k1 k2 a b : Nat) (replace : Bool) (hB : Contig B 0)
    (hpx : IdsWithin px k1 k2 0 B.rows.length) :
    ∃ out, annotate px (.frame B) replace = .ok out ∧
      annotate (framePart px a b) (.frame B) replace = .ok (framePart out a b) := by
  have hfull : framePart B 0 B.rows.length = B := framePart_full B (by rw [hB, labels_length])
  have h1 := annotate_correct B px 0 B.rows.length k1 k2 replace hB (Nat.le_refl _) hpx
  have h2 := annotate_correct B (framePart px a b) 0 B.rows.length k1 k2 replace hB (Nat.le_refl _)
    (idsWithin_part px k1 k2 0 B.rows.length a b hpx)
  rw [hfull] at h1 h2
  rw [h1, h2, annotateSpec_eq_map B.cols B.rows px k1 k2 0 B.rows.length replace (Nat.le_refl _) hpx,
    annotateSpec_eq_map B.cols B.rows (framePart px a b) k1 k2 0 B.rows.length replace (Nat.le_refl _)
      (idsWithin_part px k1 k2 0 B.rows.length a b hpx)]
  refine ⟨_, rfl, ?_⟩
  simp only [framePart, Except.ok.injEq, Frame.mk.injEq, true_and, and_true]
  rw [List.map_take, List.map_drop]

/-- **pixels_join_slice** — `Cooler.pixels(join=True)[a:b]` is the part `[a, b)` of
`Cooler.pixels(join=True)[:]`, provided every stored pixel refers to bins of the table (C02). -/
theorem pixels_join_slice (t bt : Stored) (fields : Fields) (P B W : Frame) (k1 k2 a b : Nat)
    (hP : tableGet t 0 (some (t.rows.length : Int)) (fields.resolve pixelsStd t.names).1
      (fields.resolve pixelsStd t.names).2 = .ok P)
    (hB : tableGet bt 0 none binsStd false = .ok B)
    (hids : IdsWithin P k1 k2 0 B.rows.length)
    (hW : pixelsGet t bt 0 (some (t.rows.length : Int)) fields true = .ok W) :
    pixelsGet t bt a (some (b : Int)) fields true = .ok (framePart W a b) := by
  have hBc : Contig B 0 := by
    unfold tableGet at hB
    simp only at hB
    split at hB
    · cases hB
    · split at hB
      · cases hB
      · simp only [binsStd, List.isEmpty_cons, Bool.false_eq_true, if_false, Except.ok.injEq] at hB
        subst hB; simp [Contig]
  obtain ⟨out, ho1, ho2⟩ := annotate_part B P k1 k2 a b true hBc hids
  simp only [pixelsGet, hP, hB, if_true] at hW
  rw [ho1] at hW
  simp only [Except.ok.injEq] at hW
  subst hW
  simp only [pixelsGet, tableGet_part t _ _ P a b hP, hB, if_true]
  exact ho2


/-! ## 7. Enum and integer chromosome encodings -/

theorem sortByCode_idmap (names : List String) (k : Int) :
    sortByCode (idmapFrom k names) = idmapFrom k names := by
  induction names generalizing k with
  | nil => rfl
  | cons s rest ih =>
    simp only [idmapFrom, sortByCode, ih]
    cases rest with
    | nil => rfl
    | cons s' rest' =>
      simp only [idmapFrom, insertCode]
      rw [if_pos (by omega)]

theorem idmap_names (names : List String) (k : Int) : (idmapFrom k names).map (·.1) = names := by
  induction names generalizing k with
  | nil => rfl
  | cons s rest ih => simp only [idmapFrom, List.map_cons, ih]

/-- the categories read back from the enum header `write_bins` stores are `chroms/name` itself -/
theorem categoriesOf_idmap (names : List String) : categoriesOf (idmapFrom 0 names) = names := by
  unfold categoriesOf
  rw [sortByCode_idmap, idmap_names]

/-- **chrom_decode_agree** — for every stored chromosome code, decoding through the HDF5 enum header
(`get`, `convert_enum`) and decoding a plain integer column through `chroms/name` (`api.bins`) accept
the same codes and give the same label. -/
theorem chrom_decode_agree (names : List String) (v : Val) :
    codeOk (categoriesOf (idmapFrom 0 names)) v = codeOk names v
    ∧ fromCode (categoriesOf (idmapFrom 0 names)) v = fromCode names v := by
  rw [categoriesOf_idmap]; exact ⟨rfl, rfl⟩

/-- the same table with the `chrom` column declared with encoding `e` -/
def withChromEnc (e : Enc) (cols : List (String × Enc)) : List (String × Enc) :=
  cols.map fun c => if c.1 = "chrom" then (c.1, e) else c

theorem withChromEnc_names (e : Enc) (cols : List (String × Enc)) :
    (withChromEnc e cols).map (·.1) = cols.map (·.1) := by
  induction cols with
  | nil => rfl
  | cons c cs ih =>
    simp only [withChromEnc, List.map_cons] at ih ⊢
    rw [ih]; split <;> rfl

theorem lookupCol_withChromEnc (e : Enc) (cols : List (String × Enc)) (f : String) :
    lookupCol (withChromEnc e cols) f =
      (lookupCol cols f).map fun p => (p.1, if f = "chrom" then e else p.2) := by
  induction cols with
  | nil => rfl
  | cons c cs ih =>
    obtain ⟨c, e'⟩ := c
    simp only [withChromEnc, List.map_cons] at ih ⊢
    by_cases hcf : c = f
    · subst hcf
      by_cases hc : c = "chrom" <;> simp [lookupCol, hc]
    · by_cases hc : c = "chrom"
      · simp only [hc, if_true, lookupCol]
        rw [if_neg (by rw [← hc]; exact hcf), if_neg (by rw [← hc]; exact hcf), ih]
        cases lookupCol cs f <;> rfl
      · simp only [hc, if_false, lookupCol, hcf, ih]
        cases lookupCol cs f <;> rfl


section decode
variable (cols : List (String × Enc)) (rows : List Row) (names : List String)

/-- enum storage with the header `write_bins` writes / plain integer storage of the same table -/
abbrev tEnum : Stored := ⟨withChromEnc (.enum (idmapFrom 0 names)) cols, rows⟩
abbrev tInt : Stored := ⟨withChromEnc .int cols, rows⟩

theorem cell_other (r : Row) (f : String) (hf : f ≠ "chrom") :
    cellOk (tEnum cols rows names) r f = cellOk (tInt cols rows) r f
    ∧ cell (tEnum cols rows names) r f = cell (tInt cols rows) r f := by
  unfold cellOk cell
  simp only [lookupCol_withChromEnc, hf, if_false]
  cases lookupCol cols f <;> simp

theorem cell_chrom (r : Row) (k : Nat) (e : Enc) (hk : lookupCol cols "chrom" = some (k, e)) :
    cellOk (tEnum cols rows names) r "chrom"
      = (cellOk (tInt cols rows) r "chrom" && codeOk names (cell (tInt cols rows) r "chrom"))
    ∧ cell (tEnum cols rows names) r "chrom" = fromCode names (cell (tInt cols rows) r "chrom") := by
  unfold cellOk cell
  simp only [lookupCol_withChromEnc, hk, if_true, Option.map_some, categoriesOf_idmap]
  cases h : r[k]? with
  | none => simp [List.getD_eq_getElem?_getD, h, codeOk]
  | some v => simp [List.getD_eq_getElem?_getD, h]


theorem map_set_of_nodup (fs : List String) (g g' : String → Val) (c0 : String) (j : Nat) (x : Val)
    (hj : colIdx fs c0 = some j) (hnd : fs.Nodup) (hg : ∀ f ∈ fs, f ≠ c0 → g' f = g f) (hx : g' c0 = x) :
    fs.map g' = (fs.map g).set j x := by
  have hjc := colIdx_some fs c0 j hj
  have hjlt : j < fs.length := by
    rcases Nat.lt_or_ge j fs.length with h | h
    · exact h
    · rw [List.getElem?_eq_none h] at hjc; cases hjc
  apply List.ext_getElem?
  intro p
  rw [List.getElem?_map, List.getElem?_set, List.getElem?_map]
  rcases Nat.lt_or_ge p fs.length with hp | hp
  · obtain ⟨c, hc⟩ : ∃ c, fs[p]? = some c := ⟨fs[p], List.getElem?_eq_getElem hp⟩
    have hcm : c ∈ fs := List.mem_of_getElem? hc
    rw [hc]
    simp only [Option.map_some, List.length_map]
    by_cases hcc : c = c0
    · subst hcc
      have : p = j := (List.getElem?_inj hp hnd).mp (hc.trans hjc.symm)
      subst this
      simp [hjlt, hx]
    · have hpj : j ≠ p := by
        intro h; subst h; rw [hjc] at hc; exact hcc (Option.some.inj hc).symm
      rw [if_neg hpj, hg c hcm hcc]
  · rw [List.getElem?_eq_none hp]
    have : ¬ j = p := by omega
    simp [this]

/-- the chromosome column `api.bins` looks at is `"chrom"` at its position in the requested list -/
theorem bins_target (keys : List String) (fields : Fields) :
    (match fields with
      | .one f => if f = "chrom" then some ("chrom", 0) else none
      | _ => (colIdx (fields.resolve binsStd keys).1 "chrom").map fun j => ("chrom", j))
    = (colIdx (fields.resolve binsStd keys).1 "chrom").map fun j => (("chrom" : String), j) := by
  cases fields with
  | default => rfl
  | many fs => rfl
  | one f => by_cases h : f = "chrom" <;> simp only [Fields.resolve, colIdx, h, if_true, if_false, Option.map_some, Option.map_none] <;> rfl

theorem binsGet_eq (t : Stored) (names : List String) (lo : Int) (hi : Option Int) (fields : Fields) :
    binsGet t names lo hi fields =
      match tableGet t lo hi (fields.resolve binsStd t.names).1 (fields.resolve binsStd t.names).2 with
      | .error e => .error e
      | .ok out => binsDecode t names
          ((colIdx (fields.resolve binsStd t.names).1 "chrom").map fun j => (("chrom" : String), j)) out := by
  unfold binsGet
  cases fields with
  | default => rfl
  | many fs => rfl
  | one f => by_cases h : f = "chrom" <;> simp only [Fields.resolve, colIdx, h, if_true, if_false, Option.map_some, Option.map_none] <;> rfl

theorem all_congr' {α} (l : List α) (p q : α → Bool) (h : ∀ x ∈ l, p x = q x) : l.all p = l.all q := by
  induction l with
  | nil => rfl
  | cons x xs ih =>
    simp only [List.all_cons, h x (by simp), ih (fun y hy => h y (by simp [hy]))]

/-- **chrom_decode_agree**, whole frames: the bin table stored with the enum header and the same
table stored with plain integer ids give the same result through `api.bins` — same rows, same
labels, same chromosome names, and the same error when a code is not a chromosome — for every row
range and every column argument without repeated names. -/
theorem chrom_decode_agree_frames (lo : Int) (hi : Option Int) (fields : Fields)
    (hnd : (fields.resolve binsStd (cols.map (·.1))).1.Nodup) :
    binsGet (tEnum cols rows names) names lo hi fields = binsGet (tInt cols rows) names lo hi fields := by
  rw [binsGet_eq, binsGet_eq]
  simp only [Stored.names, withChromEnc_names]
  generalize (fields.resolve binsStd (cols.map (·.1))).1 = fs at hnd ⊢
  generalize (fields.resolve binsStd (cols.map (·.1))).2 = series
  unfold tableGet
  simp only [lookupCol_withChromEnc, Option.isSome_map]
  by_cases g1 : (fs.all fun f => (lookupCol cols f).isSome) = true
  · simp only [g1, Bool.not_true, Bool.false_eq_true, if_false]
    generalize (rows.drop (pySliceIndices rows.length (some lo) hi).1).take
      ((pySliceIndices rows.length (some lo) hi).2 - (pySliceIndices rows.length (some lo) hi).1) = raw
    cases hj : colIdx fs "chrom" with
    | none =>
      have hne : ∀ f ∈ fs, f ≠ "chrom" := fun f hf h => colIdx_none_not_mem fs "chrom" hj (h ▸ hf)
      have e1 : (raw.all fun r => fs.all fun f => cellOk (tEnum cols rows names) r f)
          = (raw.all fun r => fs.all fun f => cellOk (tInt cols rows) r f) :=
        all_congr' _ _ _ fun r _ => all_congr' _ _ _ fun f hf => (cell_other cols rows names r f (hne f hf)).1
      have e2 : raw.map (fun r => fs.map (cell (tEnum cols rows names) r))
          = raw.map (fun r => fs.map (cell (tInt cols rows) r)) :=
        List.map_congr_left fun r _ => List.map_congr_left fun f hf =>
          (cell_other cols rows names r f (hne f hf)).2
      rw [e1, e2]
      simp only [Option.map_none]
      generalize (if (!raw.all fun r => fs.all fun f => cellOk (tInt cols rows) r f) = true then
        (Except.error Err.value : Except Err Frame) else _) = X
      cases X <;> rfl
    | some j =>
      have hjc := colIdx_some fs "chrom" j hj
      have hmem : "chrom" ∈ fs := List.mem_of_getElem? hjc
      have hne : fs.isEmpty = false := by cases fs <;> simp_all
      obtain ⟨⟨k, e⟩, hk⟩ : ∃ p, lookupCol cols "chrom" = some p :=
        Option.isSome_iff_exists.mp (List.all_eq_true.mp g1 "chrom" hmem)
      have hdecE : ∀ out : Frame, binsDecode (tEnum cols rows names) names (some ("chrom", j)) out = .ok out := by
        intro out
        unfold binsDecode
        simp only [lookupCol_withChromEnc, hk, Option.map_some, if_true]
      have hdecI : ∀ out : Frame, binsDecode (tInt cols rows) names (some ("chrom", j)) out =
          if !(out.rows.all fun r => codeOk names (r.getD j .nan)) then .error .value
          else .ok { out with rows := out.rows.map fun r => r.set j (fromCode names (r.getD j .nan)) } := by
        intro out
        unfold binsDecode
        simp only [lookupCol_withChromEnc, hk, Option.map_some, if_true]
      have hcellj : ∀ r : Row, (fs.map (cell (tInt cols rows) r)).getD j .nan = cell (tInt cols rows) r "chrom" := by
        intro r
        rw [List.getD_eq_getElem?_getD, List.getElem?_map, hjc]; rfl
      -- guards
      have hg : (raw.all fun r => fs.all fun f => cellOk (tEnum cols rows names) r f)
          = ((raw.all fun r => fs.all fun f => cellOk (tInt cols rows) r f)
              && raw.all fun r => codeOk names (cell (tInt cols rows) r "chrom")) := by
        rw [Bool.eq_iff_iff]
        simp only [Bool.and_eq_true, List.all_eq_true]
        constructor
        · intro h
          refine ⟨fun r hr f hf => ?_, fun r hr => ?_⟩
          · by_cases hf' : f = "chrom"
            · subst hf'
              have := h r hr "chrom" hf
              rw [(cell_chrom cols rows names r k e hk).1, Bool.and_eq_true] at this
              exact this.1
            · rw [← (cell_other cols rows names r f hf').1]; exact h r hr f hf
          · have := h r hr "chrom" hmem
            rw [(cell_chrom cols rows names r k e hk).1, Bool.and_eq_true] at this
            exact this.2
        · intro ⟨h1, h2⟩ r hr f hf
          by_cases hf' : f = "chrom"
          · subst hf'
            rw [(cell_chrom cols rows names r k e hk).1, Bool.and_eq_true]
            exact ⟨h1 r hr "chrom" hf, h2 r hr⟩
          · rw [(cell_other cols rows names r f hf').1]; exact h1 r hr f hf
      -- rows
      have hrows : raw.map (fun r => fs.map (cell (tEnum cols rows names) r))
          = (raw.map (fun r => fs.map (cell (tInt cols rows) r))).map
              fun r => r.set j (fromCode names (r.getD j .nan)) := by
        rw [List.map_map]
        apply List.map_congr_left
        intro r _
        simp only [Function.comp]
        rw [hcellj]
        exact map_set_of_nodup fs (cell (tInt cols rows) r) (cell (tEnum cols rows names) r) "chrom" j _ hj hnd
          (fun f _ hf' => (cell_other cols rows names r f hf').2)
          (cell_chrom cols rows names r k e hk).2
      have hg3 : ((raw.map (fun r => fs.map (cell (tInt cols rows) r))).all fun r => codeOk names (r.getD j .nan))
          = raw.all fun r => codeOk names (cell (tInt cols rows) r "chrom") := by
        rw [List.all_map]
        apply all_congr'
        intro r _
        simp only [Function.comp]
        rw [hcellj]
      simp only [Option.map_some, hne, Bool.false_eq_true, if_false, hg]
      by_cases g2 : (raw.all fun r => fs.all fun f => cellOk (tInt cols rows) r f) = true
      · by_cases g3 : (raw.all fun r => codeOk names (cell (tInt cols rows) r "chrom")) = true
        · simp only [g2, g3, Bool.and_true, Bool.not_true, Bool.false_eq_true, if_false, hdecE, hdecI, hg3, hrows]
        · rw [Bool.not_eq_true] at g3
          simp only [g2, g3, Bool.and_false, Bool.not_false, if_true, Bool.not_true, Bool.false_eq_true,
            if_false, hdecI, hg3]
      · rw [Bool.not_eq_true] at g2
        simp only [g2, Bool.false_and, Bool.not_false, if_true]
  · rw [Bool.not_eq_true] at g1
    simp [g1]

end decode

/-- non-vacuity, at the level of whole frames: the same two-bin table stored both ways, read through
`api.bins` with a reordered column list -/
example :
    let rows : List Row := [[.int 0, .int 10, .int 0], [.int 1, .int 7, .int 0]]
    let tE : Stored := ⟨[("chrom", .enum (idmapFrom 0 ["c0", "c1"])), ("end", .int), ("start", .int)], rows⟩
    let tI : Stored := ⟨[("chrom", .int), ("end", .int), ("start", .int)], rows⟩
    binsGet tE ["c0", "c1"] 0 (some 2) (.many ["start", "chrom"])
      = .ok ⟨["start", "chrom"], [0, 1], [[.int 0, .str "c0"], [.int 0, .str "c1"]], false⟩
    ∧ binsGet tI ["c0", "c1"] 0 (some 2) (.many ["start", "chrom"])
      = binsGet tE ["c0", "c1"] 0 (some 2) (.many ["start", "chrom"])
    ∧ binsGet tI ["c0", "c1"] 0 (some 2) (.one "chrom") = binsGet tE ["c0", "c1"] 0 (some 2) (.one "chrom") := by
  decide

/-! ## 8. Categorical (enum) columns of any table: labels, categories that never occur, missing entries -/

/-- the code `put` stores for one entry of a `pandas.Categorical` with categories `cats`
(`data.cat.codes`): the position of its label, `-1` for a missing entry -/
def catCode (cats : List String) : Option String → Int
  | none => -1
  | some s => (cats.idxOf s : Int)

/-- the cell a reader must see for one entry: the label itself, `NaN` where none was stored -/
def labelVal : Option String → Val
  | none => .nan
  | some s => .str s

/-- **fromCode_missing** — a negative stored code (the `-1` of a missing entry) decodes to `NaN`
whatever the categories are … -/
theorem fromCode_missing (cats : List String) (c : Int) (h : c < 0) : fromCode cats (.int c) = .nan := by
  simp [fromCode, h]

/-- … in particular never to a category name -/
theorem missing_label_not_category (cats : List String) (s : String) :
    fromCode cats (.int (-1)) ≠ .str s := by
  rw [fromCode_missing cats (-1) (by omega)]
  exact fun h => Val.noConfusion h

/-- a stored position decodes to the category at that position -/
theorem fromCode_member (cats : List String) (k : Nat) (h : k < cats.length) :
    fromCode cats (.int (k : Int)) = .str cats[k] := by
  have h0 : ¬ ((k : Int) < 0) := by omega
  simp [fromCode, h0, List.getElem?_eq_getElem h]

/-- **categorical_roundtrip** — what `put` stores for a categorical column (header
`dict(zip(cats, range(len(cats))))`, cells `catCode`) is decodable and reads back, entry by entry, as the
label that was stored — and as `NaN` where no label was stored; categories that never occur, their order
and their number play no role. -/
theorem categorical_roundtrip (cats : List String) (lab : Option String)
    (h : ∀ s, lab = some s → s ∈ cats) :
    codeOk (categoriesOf (idmapFrom 0 cats)) (.int (catCode cats lab)) = true
    ∧ fromCode (categoriesOf (idmapFrom 0 cats)) (.int (catCode cats lab)) = labelVal lab := by
  rw [categoriesOf_idmap]
  cases lab with
  | none => exact ⟨by simp [codeOk, catCode], by simp [catCode, labelVal, fromCode]⟩
  | some s =>
    have hs : s ∈ cats := h s rfl
    have hlt : cats.idxOf s < cats.length := List.idxOf_lt_length_of_mem hs
    refine ⟨?_, ?_⟩
    · have h1 : (0 : Int) ≤ ((cats.idxOf s : Nat) : Int) := by omega
      have h2 : ((cats.idxOf s : Nat) : Int) < (cats.length : Int) := by omega
      simp [codeOk, catCode, h1, h2]
    · simp only [catCode, labelVal]
      rw [fromCode_member cats _ hlt, List.getElem_idxOf]

/-- the same through `get`: the cell of an enum column written by `put` is the stored label -/
theorem cell_categorical (t : Stored) (r : Row) (f : String) (k : Nat) (cats : List String)
    (lab : Option String) (h : ∀ s, lab = some s → s ∈ cats)
    (hk : lookupCol t.cols f = some (k, .enum (idmapFrom 0 cats)))
    (hv : r[k]? = some (.int (catCode cats lab))) :
    cellOk t r f = true ∧ cell t r f = labelVal lab := by
  have hrt := categorical_roundtrip cats lab h
  refine ⟨?_, ?_⟩
  · unfold cellOk; rw [hk]; simp only [hv]; exact hrt.1
  · rw [cell_enum t r f k _ _ hk hv]; exact hrt.2

/-- non-vacuity: categories `C, A, B` (not sorted, `C` never occurs), labels `A, -, B` read through
`api.bins` as a Series and inside a frame -/
example :
    let cats := ["C", "A", "B"]
    let t : Stored := ⟨[("chrom", .enum [("c0", 0)]), ("comp", .enum (idmapFrom 0 cats)), ("start", .int)],
      [[.int 0, .int (catCode cats (some "A")), .int 0], [.int 0, .int (catCode cats none), .int 10],
       [.int 0, .int (catCode cats (some "B")), .int 20]]⟩
    binsGet t ["c0"] 0 (some 3) (.one "comp") = .ok ⟨["comp"], [0, 1, 2], [[.str "A"], [.nan], [.str "B"]], true⟩
    ∧ binsGet t ["c0"] 1 (some 3) (.many ["start", "comp"])
      = .ok ⟨["start", "comp"], [1, 2], [[.int 10, .nan], [.int 20, .str "B"]], false⟩ := by
  decide

end Cooler.C14
