import CoolerModel.Model.Selectors
/-!
# C14 — table selectors and bin annotation return the rows and coordinates asked for

Every statement is about the definitions of `Model/Selectors.lean`, which the correspondence harness
(`harness/c14.py`) executes against `Cooler.chroms()/bins()/pixels()[…]`, `cooler.annotate` and
`_IndexingMixin._process_slice`.
-/
namespace Cooler.C14
open Cooler Cooler.Tbl

/-! ## 1. Subscripts -/

/-- **processSlice_spec** — for bounds in `[-n, n] ∪ {None}` the code's un-clamped normalisation is
Python's `slice(lo, hi).indices(n)[:2]` (the explicit clamping formula `clampBound`), and both ends lie
in `[0, n]`. -/
theorem processSlice_spec (n : Nat) (lo hi : Option Int) (hlo : InDom n lo) (hhi : InDom n hi) :
    processSlice n lo hi = (((pySliceIndices n lo hi).1 : Int), ((pySliceIndices n lo hi).2 : Int))
    ∧ (pySliceIndices n lo hi).1 ≤ n ∧ (pySliceIndices n lo hi).2 ≤ n := by
  cases lo <;> cases hi <;>
    simp only [processSlice, pySliceIndices, normBound, clampBound, InDom] at * <;>
    (repeat' split) <;> (refine ⟨?_, ?_, ?_⟩ <;> first | omega | (ext <;> simp <;> omega) | (simp; omega))

example : InDom 5 (some (-5)) ∧ InDom 5 none ∧ processSlice 5 (some (-2)) none = (3, 5) := by decide

/-- outside the domain the code really does not clamp (the observation recorded in DESIGN §6) -/
example : processSlice 8 (some (-9)) none = (-1, 8) ∧ pySliceIndices 8 (some (-9)) none = (0, 8) := by
  decide

/-- **processScalar_spec** — a scalar `k ∈ [-n, n)` selects the one row `k' = k mod n`;
`k ≥ n` is an `IndexError`. -/
theorem processScalar_spec (n : Nat) (k : Int) :
    (-(n : Int) ≤ k → k < n →
      processScalar n k = .ok ((if k < 0 then k + n else k), (if k < 0 then k + n else k) + 1)
      ∧ 0 ≤ (if k < 0 then k + n else k) ∧ (if k < 0 then k + n else k) < n)
    ∧ ((n : Int) ≤ k → processScalar n k = .error .index) := by
  constructor
  · intro h1 h2
    unfold processScalar
    by_cases hk : k < 0 <;> simp only [hk, if_true, if_false] <;>
      (refine ⟨?_, ?_, ?_⟩ <;> first | omega | (rw [if_neg (by omega)]))
  · intro h
    unfold processScalar
    have hk : ¬ k < 0 := by omega
    simp only [hk, if_false]
    rw [if_pos (by omega)]

example : processScalar 4 (-1) = .ok (3, 4) ∧ processScalar 4 4 = .error .index := by decide

/-- a slice key in the domain is read as the Python slice it spells -/
theorem processKey_slice (n : Nat) (lo hi : Option Int) (hlo : InDom n lo) (hhi : InDom n hi) :
    processKey n (.slice lo hi none) =
      .ok (((pySliceIndices n lo hi).1 : Int), ((pySliceIndices n lo hi).2 : Int)) := by
  simp only [processKey, true_or, if_true]
  rw [(processSlice_spec n lo hi hlo hhi).1]

/-! ## 2. List helpers -/

theorem labels_length (l0 : Int) (n : Nat) : (labels l0 n).length = n := by simp [labels]

theorem labels_getElem? (l0 : Int) (n k : Nat) :
    (labels l0 n)[k]? = if k < n then some (l0 + (k : Int)) else none := by
  unfold labels
  by_cases h : k < n
  · simp [h]
  · simp only [h, if_false]
    exact List.getElem?_eq_none (by simp; omega)

theorem getElem?_drop_take {α} (l : List α) (a k i : Nat) :
    ((l.drop a).take k)[i]? = if i < k then l[a + i]? else none := by
  rw [List.getElem?_take]
  by_cases h : i < k <;> simp [h, List.getElem?_drop]

/-- `l[a:b]` read through Python's clamping equals the plain `drop`/`take` -/
theorem drop_take_clamp {α} (l : List α) (a b : Nat) :
    (l.drop (min a l.length)).take (min b l.length - min a l.length) = (l.drop a).take (b - a) := by
  apply List.ext_getElem?
  intro i
  rw [getElem?_drop_take, getElem?_drop_take]
  by_cases ha : a ≤ l.length
  · rw [Nat.min_eq_left ha]
    by_cases hb : b ≤ l.length
    · rw [Nat.min_eq_left hb]
    · rw [Nat.min_eq_right (by omega)]
      by_cases h1 : i < l.length - a
      · rw [if_pos h1, if_pos (by omega)]
      · rw [if_neg h1]
        by_cases h2 : i < b - a
        · rw [if_pos h2]; exact (List.getElem?_eq_none (by omega)).symm
        · rw [if_neg h2]
  · rw [Nat.min_eq_right (show l.length ≤ a by omega)]
    have h1 : l[l.length + i]? = none := List.getElem?_eq_none (by omega)
    have h2 : l[a + i]? = none := List.getElem?_eq_none (by omega)
    rw [h1, h2]; simp

theorem labels_drop_take (l0 : Int) (n a k : Nat) :
    ((labels l0 n).drop a).take k = labels (l0 + (a : Int)) (min k (n - a)) := by
  apply List.ext_getElem?
  intro i
  rw [getElem?_drop_take, labels_getElem?, labels_getElem?]
  by_cases h1 : i < k
  · by_cases h2 : a + i < n
    · rw [if_pos h1, if_pos h2, if_pos (by omega)]; congr 1; omega
    · rw [if_pos h1, if_neg h2, if_neg (by omega)]
  · rw [if_neg h1, if_neg (by omega)]

/-! ## 3. `get`: the rows of the range, labelled with their row numbers -/

/-- `dset[lo:hi]` for `0 ≤ lo` -/
theorem pySlice_nat {α} (l : List α) (lo hi : Nat) :
    (l.drop (pySliceIndices l.length (some (lo : Int)) (some (hi : Int))).1).take
      ((pySliceIndices l.length (some (lo : Int)) (some (hi : Int))).2
        - (pySliceIndices l.length (some (lo : Int)) (some (hi : Int))).1)
    = (l.drop lo).take (hi - lo) := by
  have h1 : (pySliceIndices l.length (some (lo : Int)) (some (hi : Int))).1 = min lo l.length := by
    simp only [pySliceIndices, clampBound]
    rw [if_neg (by omega)]
    split <;> omega
  have h2 : (pySliceIndices l.length (some (lo : Int)) (some (hi : Int))).2 = min hi l.length := by
    simp only [pySliceIndices, clampBound]
    rw [if_neg (by omega)]
    split <;> omega
  rw [h1, h2, drop_take_clamp]

/-- the result of `get` in closed form: guards, then the plain row range -/
theorem tableGet_nat (t : Stored) (lo hi : Nat) (fs : List String) (series : Bool) :
    tableGet t lo (some (hi : Int)) fs series =
      if !(fs.all fun f => (lookupCol t.cols f).isSome) then .error .key
      else if !(((t.rows.drop lo).take (hi - lo)).all fun r => fs.all fun f => cellOk t r f) then .error .value
      else if fs.isEmpty then .ok ⟨[], [], [], series⟩
      else .ok ⟨fs, labels lo ((t.rows.drop lo).take (hi - lo)).length,
                ((t.rows.drop lo).take (hi - lo)).map (fun r => fs.map (cell t r)), series⟩ := by
  unfold tableGet
  simp only [pySlice_nat]

/-- **slice_rows** — for a range `lo ≤ hi ≤ len` and any non-empty list of existing columns (whose
cells are decodable) `get` returns exactly the stored rows `lo, …, hi-1` (`drop lo |>.take (hi-lo)`),
each projected on the requested columns in the requested order, labelled `lo, …, hi-1`. -/
theorem slice_rows (t : Stored) (lo hi : Nat) (fs : List String) (series : Bool)
    (hle : lo ≤ hi) (hhi : hi ≤ t.rows.length) (hfs : fs ≠ [])
    (hcols : ∀ f ∈ fs, (lookupCol t.cols f).isSome = true)
    (hcodes : ∀ r ∈ t.rows, ∀ f ∈ fs, cellOk t r f = true) :
    tableGet t lo (some (hi : Int)) fs series =
      .ok ⟨fs, labels lo (hi - lo),
           ((t.rows.drop lo).take (hi - lo)).map (fun r => fs.map (cell t r)), series⟩ := by
  rw [tableGet_nat]
  have h1 : (fs.all fun f => (lookupCol t.cols f).isSome) = true := List.all_eq_true.mpr hcols
  have h2 : (((t.rows.drop lo).take (hi - lo)).all fun r => fs.all fun f => cellOk t r f) = true := by
    apply List.all_eq_true.mpr
    intro r hr
    apply List.all_eq_true.mpr
    intro f hf
    exact hcodes r (List.mem_of_mem_drop (List.mem_of_mem_take hr)) f hf
  have h3 : fs.isEmpty = false := by cases fs <;> simp_all
  have h4 : ((t.rows.drop lo).take (hi - lo)).length = hi - lo := by
    rw [List.length_take, List.length_drop]; omega
  simp [h1, h2, h3, h4]

/-- position and encoding returned by `lookupCol` really are those of the (first) column of that name -/
theorem lookupCol_spec (cols : List (String × Enc)) (f : String) (k : Nat) (e : Enc)
    (h : lookupCol cols f = some (k, e)) : cols[k]? = some (f, e) := by
  induction cols generalizing k with
  | nil => simp [lookupCol] at h
  | cons c cs ih =>
    obtain ⟨c, e'⟩ := c
    unfold lookupCol at h
    by_cases hc : c = f
    · simp only [hc, if_true, Option.some.injEq, Prod.mk.injEq] at h
      obtain ⟨rfl, rfl⟩ := h
      simp [hc]
    · simp only [hc, if_false, Option.map_eq_some_iff] at h
      obtain ⟨⟨k', e''⟩, hk, heq⟩ := h
      simp only [Prod.mk.injEq] at heq
      obtain ⟨rfl, rfl⟩ := heq
      simpa using ih k' hk

/-- a cell of a non-enum column is the stored cell … -/
theorem cell_plain (t : Stored) (r : Row) (f : String) (k : Nat) (e : Enc) (v : Val)
    (hk : lookupCol t.cols f = some (k, e)) (he : ∀ d, e ≠ .enum d) (hv : r[k]? = some v) :
    cell t r f = v := by
  unfold cell
  rw [hk]
  cases e with
  | enum d => exact absurd rfl (he d)
  | int => simp [List.getD_eq_getElem?_getD, hv]
  | other => simp [List.getD_eq_getElem?_getD, hv]

/-- … and of an enum column, the name whose code is stored -/
theorem cell_enum (t : Stored) (r : Row) (f : String) (k : Nat) (d : List (String × Int)) (v : Val)
    (hk : lookupCol t.cols f = some (k, .enum d)) (hv : r[k]? = some v) :
    cell t r f = fromCode (categoriesOf d) v := by
  unfold cell
  rw [hk]
  simp [List.getD_eq_getElem?_getD, hv]

/-- cell `(k, j)` of the frame `slice_rows` describes is column `fs[j]` of stored row `lo + k` -/
theorem slice_rows_cell (t : Stored) (lo hi : Nat) (fs : List String) (k j : Nat) (r : Row) (f : String)
    (hk : k < hi - lo) (hr : t.rows[lo + k]? = some r) (hf : fs[j]? = some f) :
    ((((t.rows.drop lo).take (hi - lo)).map (fun r => fs.map (cell t r)))[k]?).bind (·[j]?)
      = some (cell t r f) := by
  rw [List.getElem?_map, getElem?_drop_take, if_pos hk, hr]
  simp [List.getElem?_map, hf]

/-- non-vacuity: a three-row table with an enum column, a float column with a NaN and an integer
column; rows 1..2 on two columns in swapped order -/
example :
    let t : Stored := ⟨[("chrom", .enum [("c0", 0), ("c1", 1)]), ("start", .int), ("weight", .other)],
      [[.int 0, .int 0, .flt "0.5"], [.int 0, .int 10, .nan], [.int 1, .int 0, .flt "2.0"]]⟩
    tableGet t 1 (some 3) ["weight", "chrom"] false
      = .ok ⟨["weight", "chrom"], [1, 2], [[.nan, .str "c0"], [.flt "2.0", .str "c1"]], false⟩ := by
  decide

/-! ### a range is a part of the whole table -/

theorem framePart_framePart_zero (f : Frame) (a b n : Nat) (hb : b ≤ n) :
    framePart (framePart f 0 n) a b = framePart f a b := by
  unfold framePart
  simp only [List.drop_zero, Nat.sub_zero, Frame.mk.injEq, true_and, and_true]
  constructor <;>
  · apply List.ext_getElem?
    intro i
    rw [getElem?_drop_take, getElem?_drop_take, List.getElem?_take]
    by_cases h : i < b - a
    · rw [if_pos h, if_pos h, if_pos (by omega)]
    · rw [if_neg h, if_neg h]

/-- **a slice is the corresponding part of the whole table**: if reading everything succeeds with
`W`, reading `[a, b)` succeeds with `W.iloc[a:b]` — same columns, labels `a..b-1`. -/
theorem tableGet_part (t : Stored) (fs : List String) (series : Bool) (W : Frame) (a b : Nat)
    (hW : tableGet t 0 (some (t.rows.length : Int)) fs series = .ok W) :
    tableGet t a (some (b : Int)) fs series = .ok (framePart W a b) := by
  have h0 := tableGet_nat t 0 t.rows.length fs series
  rw [show ((0 : Nat) : Int) = 0 from rfl, hW] at h0
  rw [tableGet_nat]
  simp only [List.drop_zero, Nat.sub_zero, List.take_length] at h0
  by_cases h1 : (fs.all fun f => (lookupCol t.cols f).isSome) = true
  · by_cases h2 : (t.rows.all fun r => fs.all fun f => cellOk t r f) = true
    · have h2' : (((t.rows.drop a).take (b - a)).all fun r => fs.all fun f => cellOk t r f) = true := by
        apply List.all_eq_true.mpr
        intro r hr
        exact List.all_eq_true.mp h2 r (List.mem_of_mem_drop (List.mem_of_mem_take hr))
      simp only [h1, h2, h2', Bool.not_true, Bool.false_eq_true, if_false] at h0 ⊢
      by_cases h3 : fs.isEmpty = true
      · simp only [h3, if_true, Except.ok.injEq] at h0 ⊢
        subst h0
        simp [framePart]
      · simp only [h3, if_false, Except.ok.injEq, Bool.false_eq_true] at h0 ⊢
        subst h0
        simp only [framePart, Frame.mk.injEq, true_and, and_true]
        constructor
        · rw [labels_drop_take, List.length_take, List.length_drop]
          congr 1 <;> omega
        · rw [List.map_take, List.map_drop]
    · simp [h1, h2] at h0
  · simp [h1] at h0

/-- labels and length of a whole-table read -/
theorem tableGet_whole_shape (t : Stored) (fs : List String) (series : Bool) (W : Frame) (hfs : fs ≠ [])
    (hW : tableGet t 0 (some (t.rows.length : Int)) fs series = .ok W) :
    W.cols = fs ∧ W.rows.length = t.rows.length ∧ W.index = labels 0 t.rows.length := by
  have h0 := tableGet_nat t 0 t.rows.length fs series
  rw [show ((0 : Nat) : Int) = 0 from rfl, hW] at h0
  simp only [List.drop_zero, Nat.sub_zero, List.take_length] at h0
  have h3 : fs.isEmpty = false := by cases fs <;> simp_all
  by_cases h1 : (fs.all fun f => (lookupCol t.cols f).isSome) = true
  · by_cases h2 : (t.rows.all fun r => fs.all fun f => cellOk t r f) = true
    · simp only [h1, h2, h3, Bool.not_true, Bool.false_eq_true, if_false, Except.ok.injEq] at h0
      subst h0
      simp
    · simp [h1, h2] at h0
  · simp [h1] at h0

/-! ## 4. Selectors: a row key reads the part of the whole table it spells -/

theorem mem_drop_take {α} {l : List α} {a k : Nat} {x : α} (h : x ∈ (l.drop a).take k) : x ∈ l :=
  List.mem_of_mem_drop (List.mem_of_mem_take h)

/-- the integer-chromosome post-processing of `api.bins` commutes with taking a part -/
theorem binsDecode_part (t : Stored) (names : List String) (target : Option (String × Nat))
    (W W' : Frame) (a b : Nat) (h : binsDecode t names target W = .ok W') :
    binsDecode t names target (framePart W a b) = .ok (framePart W' a b) := by
  unfold binsDecode at h ⊢
  match target with
  | none => simp only [Except.ok.injEq] at h; rw [h]
  | some (name, j) =>
    simp only at h ⊢
    split at h
    · by_cases hg : (W.rows.all fun r => codeOk names (r.getD j .nan)) = true
      · have hg' : ((framePart W a b).rows.all fun r => codeOk names (r.getD j .nan)) = true := by
          apply List.all_eq_true.mpr
          intro r hr
          exact List.all_eq_true.mp hg r (mem_drop_take hr)
        simp only [hg, hg', Bool.not_true, Bool.false_eq_true, if_false, Except.ok.injEq] at h ⊢
        subst h
        simp only [framePart, Frame.mk.injEq, true_and, and_true]
        rw [List.map_take, List.map_drop]
      · rw [Bool.not_eq_true] at hg
        rw [hg] at h
        simp at h
    · simp only [Except.ok.injEq] at h
      subst h
      rfl

theorem binsGet_part (t : Stored) (names : List String) (fields : Fields) (W : Frame) (a b : Nat)
    (hW : binsGet t names 0 (some (t.rows.length : Int)) fields = .ok W) :
    binsGet t names a (some (b : Int)) fields = .ok (framePart W a b) := by
  simp only [binsGet] at hW ⊢
  cases h : tableGet t 0 (some (t.rows.length : Int)) (fields.resolve binsStd t.names).1
      (fields.resolve binsStd t.names).2 with
  | error e => rw [h] at hW; simp at hW
  | ok out =>
    rw [h] at hW
    rw [tableGet_part t _ _ out a b h]
    exact binsDecode_part t names _ out W a b hW

/-- the table a selector reads and whether it annotates -/
def srcLen : Src → Nat
  | .chroms t => t.rows.length
  | .bins t _ => t.rows.length
  | .pixels t _ _ => t.rows.length

def srcJoin : Src → Bool
  | .pixels _ _ j => j
  | _ => false

theorem getRows_eq (s : Selector) (k : RowKey) :
    s.getRows k = match processKey s.nmax k with
      | .error e => .error e
      | .ok p => s.slice p.1 p.2 := by
  simp only [Selector.getRows, selectorGetItem]
  cases h : processKey s.nmax k with
  | error e => simp
  | ok p =>
    obtain ⟨lo, hi⟩ := p
    simp only
    cases h2 : s.slice lo hi <;> simp

theorem getRows_whole (s : Selector) :
    s.getRows (.slice none none none) = s.slice 0 (s.nmax : Int) := by
  rw [getRows_eq]; rfl

theorem slice_part (s : Selector) (W : Frame) (a b : Nat) (hn : s.nmax = srcLen s.src)
    (hj : srcJoin s.src = false) (hW : s.slice 0 (s.nmax : Int) = .ok W) :
    s.slice a b = .ok (framePart W a b) := by
  obtain ⟨src, fields, nmax⟩ := s
  simp only at hn hj hW ⊢
  subst hn
  cases src with
  | chroms t => exact tableGet_part t _ _ W a b hW
  | bins t names => exact binsGet_part t names fields W a b hW
  | pixels t bt join =>
    simp only [srcJoin] at hj
    subst hj
    simp only [Selector.slice, pixelsGet, srcLen] at hW ⊢
    cases h : tableGet t 0 (some (t.rows.length : Int)) (fields.resolve pixelsStd t.names).1
        (fields.resolve pixelsStd t.names).2 with
    | error e => rw [h] at hW; simp at hW
    | ok out =>
      rw [h] at hW
      simp only [Bool.false_eq_true, if_false, Except.ok.injEq] at hW
      subst hW
      rw [tableGet_part t _ _ out a b h]
      simp

/-- **selector_slice_rows** — on a chromosome, bin or (un-joined) pixel selector with *any* column
argument, every slice spelling with bounds in `[-n, n] ∪ {None}` returns the rows `a..b-1` of the
whole table `W = sel[:]`, `(a, b) = slice(lo, hi).indices(n)`, with the labels of `W` — which are the
row numbers (`selector_whole_labels`). -/
theorem selector_slice_rows (s : Selector) (W : Frame) (lo hi : Option Int)
    (hn : s.nmax = srcLen s.src) (hj : srcJoin s.src = false)
    (hW : s.getRows (.slice none none none) = .ok W)
    (hlo : InDom s.nmax lo) (hhi : InDom s.nmax hi) :
    s.getRows (.slice lo hi none) =
      .ok (framePart W (pySliceIndices s.nmax lo hi).1 (pySliceIndices s.nmax lo hi).2) := by
  rw [getRows_whole] at hW
  rw [getRows_eq, processKey_slice s.nmax lo hi hlo hhi]
  exact slice_part s W _ _ hn hj hW

/-- a scalar `k ∈ [-n, n)` returns the single row `k mod n` of the whole table -/
theorem selector_scalar_row (s : Selector) (W : Frame) (k : Int)
    (hn : s.nmax = srcLen s.src) (hj : srcJoin s.src = false)
    (hW : s.getRows (.slice none none none) = .ok W)
    (h1 : -(s.nmax : Int) ≤ k) (h2 : k < s.nmax) :
    s.getRows (.scalar k) =
      .ok (framePart W (if k < 0 then k + s.nmax else k).toNat ((if k < 0 then k + s.nmax else k).toNat + 1)) := by
  rw [getRows_whole] at hW
  rw [getRows_eq]
  simp only [processKey]
  obtain ⟨hk, hk0, hkn⟩ := (processScalar_spec s.nmax k).1 h1 h2
  rw [hk]
  simp only
  have := slice_part s W (if k < 0 then k + s.nmax else k).toNat
    ((if k < 0 then k + s.nmax else k).toNat + 1) hn hj hW
  rw [← this]
  congr 1 <;> (simp only [Int.natCast_add, Int.toNat_of_nonneg hk0]; try rfl)

/-! ## 5. A column selection never changes which rows come back -/

theorem colIdx_some (cols : List String) (c : String) (k : Nat) (h : colIdx cols c = some k) :
    cols[k]? = some c := by
  induction cols generalizing k with
  | nil => simp [colIdx] at h
  | cons x xs ih =>
    unfold colIdx at h
    by_cases hx : x = c
    · simp only [hx, if_true, Option.some.injEq] at h
      subst h; simp [hx]
    · simp only [hx, if_false, Option.map_eq_some_iff] at h
      obtain ⟨k', hk', rfl⟩ := h
      simpa using ih k' hk'

theorem colIdx_of_mem (cols : List String) (c : String) (h : c ∈ cols) :
    ∃ k, colIdx cols c = some k := by
  induction cols with
  | nil => simp at h
  | cons x xs ih =>
    unfold colIdx
    by_cases hx : x = c
    · exact ⟨0, by simp [hx]⟩
    · have : c ∈ xs := by
        cases h with
        | head => exact absurd rfl hx
        | tail _ h' => exact h'
      obtain ⟨k, hk⟩ := ih this
      exact ⟨k + 1, by simp [hx, hk]⟩

/-- the projected cell: position `colIdx all c` of the row read on `all` is the cell of column `c` -/
theorem project_cell (all : List String) (g : String → Val) (c : String) (h : c ∈ all) :
    (all.map g).getD ((colIdx all c).getD 0) .nan = g c := by
  obtain ⟨k, hk⟩ := colIdx_of_mem all c h
  have := colIdx_some all c k hk
  rw [hk, Option.getD_some, List.getD_eq_getElem?_getD, List.getElem?_map, this]
  rfl

/-- `get` on a sub-list of columns is the projection of `get` on the full list -/
theorem tableGet_project (t : Stored) (lo : Int) (hi : Option Int) (all fs : List String) (F : Frame)
    (hfs : fs ≠ []) (hsub : ∀ f ∈ fs, f ∈ all)
    (hF : tableGet t lo hi all false = .ok F) :
    tableGet t lo hi fs false = F.project fs := by
  unfold tableGet at hF ⊢
  simp only at hF ⊢
  generalize hraw : (t.rows.drop (pySliceIndices t.rows.length (some lo) hi).1).take
    ((pySliceIndices t.rows.length (some lo) hi).2 - (pySliceIndices t.rows.length (some lo) hi).1) = raw at hF ⊢
  have hall : all ≠ [] := by
    intro h; cases fs with
    | nil => exact hfs rfl
    | cons f _ => have := hsub f (by simp); simp [h] at this
  have e1 : all.isEmpty = false := by cases all <;> simp_all
  have e2 : fs.isEmpty = false := by cases fs <;> simp_all
  by_cases h1 : (all.all fun f => (lookupCol t.cols f).isSome) = true
  · by_cases h2 : (raw.all fun r => all.all fun f => cellOk t r f) = true
    · simp only [h1, h2, e1, Bool.not_true, Bool.false_eq_true, if_false, Except.ok.injEq] at hF
      have h1' : (fs.all fun f => (lookupCol t.cols f).isSome) = true :=
        List.all_eq_true.mpr fun f hf => List.all_eq_true.mp h1 f (hsub f hf)
      have h2' : (raw.all fun r => fs.all fun f => cellOk t r f) = true :=
        List.all_eq_true.mpr fun r hr => List.all_eq_true.mpr fun f hf =>
          List.all_eq_true.mp (List.all_eq_true.mp h2 r hr) f (hsub f hf)
      simp only [h1', h2', e2, Bool.not_true, Bool.false_eq_true, if_false]
      subst hF
      unfold Frame.project
      have h3 : (fs.all fun c => (colIdx all c).isSome) = true :=
        List.all_eq_true.mpr fun c hc => by
          obtain ⟨k, hk⟩ := colIdx_of_mem all c (hsub c hc); simp [hk]
      simp only [h3, Bool.not_true, Bool.false_eq_true, if_false, Except.ok.injEq, Frame.mk.injEq,
        true_and, and_true, List.map_map]
      apply List.map_congr_left
      intro r _
      apply List.map_congr_left
      intro c hc
      exact (project_cell all (cell t r) c (hsub c hc)).symm
    · rw [Bool.not_eq_true] at h2; rw [h2] at hF; simp [h1] at hF
  · rw [Bool.not_eq_true] at h1; rw [h1] at hF; simp at hF

/-- a Series read is the one-column frame read, flagged -/
theorem tableGet_series (t : Stored) (lo : Int) (hi : Option Int) (fs : List String) :
    tableGet t lo hi fs true = (tableGet t lo hi fs false).map fun fr => { fr with series := true } := by
  unfold tableGet
  simp only
  split
  · rfl
  · split
    · rfl
    · split <;> rfl

/-- the rows `dset[lo:hi]` reads -/
abbrev pyRaw (t : Stored) (lo : Int) (hi : Option Int) : List Row :=
  (t.rows.drop (pySliceIndices t.rows.length (some lo) hi).1).take
    ((pySliceIndices t.rows.length (some lo) hi).2 - (pySliceIndices t.rows.length (some lo) hi).1)

theorem tableGet_ok_form (t : Stored) (lo : Int) (hi : Option Int) (fs : List String) (series : Bool)
    (F : Frame) (hfs : fs ≠ []) (h : tableGet t lo hi fs series = .ok F) :
    F = ⟨fs, labels lo (pyRaw t lo hi).length, (pyRaw t lo hi).map (fun r => fs.map (cell t r)), series⟩ := by
  unfold tableGet at h
  simp only at h
  have e2 : fs.isEmpty = false := by cases fs <;> simp_all
  split at h
  · simp at h
  · split at h
    · simp at h
    · simp only [e2, Bool.false_eq_true, if_false, Except.ok.injEq] at h
      exact h.symm

theorem colIdx_none_not_mem (cols : List String) (c : String) (h : colIdx cols c = none) : c ∉ cols := by
  intro hm
  obtain ⟨k, hk⟩ := colIdx_of_mem cols c hm
  rw [h] at hk; cases hk

/-- projecting a row whose `chrom` cell (position 0 of the full list) was replaced: `chrom` not asked -/
theorem project_set_none (rest fs : List String) (g : String → Val) (x : Val)
    (hsub : ∀ c ∈ fs, c ∈ "chrom" :: rest) (hj : colIdx fs "chrom" = none) :
    fs.map (fun c => ((("chrom" :: rest).map g).set 0 x).getD ((colIdx ("chrom" :: rest) c).getD 0) .nan)
      = fs.map g := by
  apply List.map_congr_left
  intro c hc
  have hne : c ≠ "chrom" := fun h => colIdx_none_not_mem fs "chrom" hj (h ▸ hc)
  obtain ⟨k, hk⟩ := colIdx_of_mem _ c (hsub c hc)
  have hk' := colIdx_some _ c k hk
  have hk0 : k ≠ 0 := by
    intro h0; subst h0
    simp only [List.getElem?_cons_zero, Option.some.injEq] at hk'
    exact hne hk'.symm
  rw [hk, Option.getD_some, List.getD_eq_getElem?_getD, List.getElem?_set, if_neg (Ne.symm hk0),
    List.getElem?_map, hk']
  rfl

/-- … and `chrom` asked at position `j` -/
theorem project_set_some (rest fs : List String) (g : String → Val) (x : Val) (j : Nat)
    (hsub : ∀ c ∈ fs, c ∈ "chrom" :: rest) (hnd : fs.Nodup) (hj : colIdx fs "chrom" = some j) :
    fs.map (fun c => ((("chrom" :: rest).map g).set 0 x).getD ((colIdx ("chrom" :: rest) c).getD 0) .nan)
      = (fs.map g).set j x := by
  have hjc := colIdx_some fs "chrom" j hj
  have hjlt : j < fs.length := by
    rcases Nat.lt_or_ge j fs.length with h | h
    · exact h
    · rw [List.getElem?_eq_none h] at hjc; cases hjc
  apply List.ext_getElem?
  intro p
  rw [List.getElem?_map, List.getElem?_set, List.getElem?_map]
  rcases Nat.lt_or_ge p fs.length with hp | hp
  · obtain ⟨c, hc⟩ : ∃ c, fs[p]? = some c := ⟨fs[p], List.getElem?_eq_getElem hp⟩
    have hcm : c ∈ fs := List.mem_of_getElem? hc
    rw [hc]
    simp only [Option.map_some, List.length_map]
    by_cases hcc : c = "chrom"
    · subst hcc
      have : p = j := (List.getElem?_inj hp hnd (hc.trans hjc.symm))
      subst this
      simp [colIdx, hjlt]
    · have hpj : j ≠ p := by
        intro h; subst h; rw [hjc] at hc; exact hcc (Option.some.inj hc).symm
      rw [if_neg hpj]
      obtain ⟨k, hk⟩ := colIdx_of_mem _ c (hsub c hcm)
      have hk' := colIdx_some _ c k hk
      have hk0 : k ≠ 0 := by
        intro h0; subst h0
        simp only [List.getElem?_cons_zero, Option.some.injEq] at hk'
        exact hcc hk'.symm
      rw [hk, Option.getD_some, List.getD_eq_getElem?_getD, List.getElem?_set, if_neg (Ne.symm hk0),
        List.getElem?_map, hk']
      rfl
  · rw [List.getElem?_eq_none hp]
    have : ¬ j = p := by omega
    simp [this]

end Cooler.C14
