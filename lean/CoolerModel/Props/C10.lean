import CoolerModel.Model.Balance
import CoolerModel.Props.C10IC
import CoolerModel.Props.C10Mad
import Mathlib.Algebra.BigOperators.Group.List.Basic
import Mathlib.Algebra.Order.BigOperators.Group.List
import Mathlib.Algebra.Order.Field.Rat
import Mathlib.Tactic.NormNum
import Mathlib.Tactic.Linarith
/-!
# C10 — balancing weights flatten the marginals of the filtered matrix (model-level theorems)

Statements about the executable definitions of `Model/Balance.lean` (namespace `Cooler.IC`), which the
correspondence harness runs against `cooler.balance_cooler`.  The analytic core (`final_step_bound`,
`variance_gives_delta`, `converged_rowsums_bound`, `cis_bound`, `trans_bound_partial`, `diag_partial`)
is in `Props/C10IC.lean`, the real-analytic facts behind the MAD-max cut in `Props/C10Mad.lean`.

Main results of this file
* `marginalize_eq_rowsum`, `marginalize_diag_double` — what `_marginalize` computes (finding D17).
* `diag_rowsums_not_flat`, `trans_rowsums_not_flat` — machine-checked witnesses of findings D17, D18.
* `masks_code_eq_spec` — with `ignore_diags ≥ 1` the code's bin masks are the documented ones.
* `provedInterval_sound` — the interval the driver hands out satisfies the theorem's hypotheses.
* `applyUpdate_nonneg`, `applyUpdate_zero_iff`, `icLoop_invariant`, `icLoop_emptied_iff`, `mask_iff`,
  `others_positive`, `balance_genome_mask_iff` — exactly which bins carry NaN; the others are `> 0`.
* `model_marg_eq_dense`, `model_final_step_bound`, `model_converged_bound`,
  `model_converged_bound_cis(_data)` — the analytic bound restated on the executable sweep.
* `balance_trans_mask_iff`, `balance_cis_mask_iff`, `balance_genome_others_positive` — NaN pattern and
  positivity of the final output of `balance` in the other modes.
-/
namespace Cooler.C10
open Cooler Cooler.IC

/-! ## `_marginalize` versus the row sums of the symmetric matrix -/

section marginal
variable {α : Type} [AddCommMonoid α]

/-- contribution of one pixel to entry `(a, b)` of the symmetric matrix -/
def contrib (p : WPx α) (a b : Nat) : α :=
  if (p.i = a ∧ p.j = b) ∨ (p.i = b ∧ p.j = a) then p.w else 0

theorem sum_range_ite (n c : Nat) (w : α) :
    ((List.range n).map (fun b => if b = c then w else 0)).sum = if c < n then w else 0 := by
  induction n with
  | zero => simp
  | succ n ih =>
    rw [List.range_succ, List.map_append, List.sum_append, ih]
    simp only [List.map_cons, List.map_nil, List.sum_cons, List.sum_nil, add_zero]
    by_cases h1 : c < n
    · have : n ≠ c := by omega
      simp [h1, this, show c < n + 1 by omega]
    · by_cases h2 : n = c
      · subst h2; simp
      · have : ¬ c < n + 1 := by omega
        simp [h1, h2, this]

theorem symmAt_cons (p : WPx α) (l : List (WPx α)) (a b : Nat) :
    symmAt (p :: l) a b = contrib p a b + symmAt l a b := by
  simp [symmAt, contrib]

theorem rowsumAt_cons (n : Nat) (p : WPx α) (l : List (WPx α)) (a : Nat) :
    rowsumAt n (p :: l) a = ((List.range n).map (contrib p a)).sum + rowsumAt n l a := by
  unfold rowsumAt
  rw [← List.sum_map_add]
  apply congrArg
  apply List.map_congr_left
  intro b _
  exact symmAt_cons p l a b

theorem marginalizeAt_cons (p : WPx α) (l : List (WPx α)) (a : Nat) :
    marginalizeAt (p :: l) a
      = ((if p.i = a then p.w else 0) + (if p.j = a then p.w else 0)) + marginalizeAt l a := by
  simp only [marginalizeAt, bincountAt, List.map_cons, List.sum_cons]
  exact add_add_add_comm _ _ _ _

/-- the whole row of one pixel's contributions -/
theorem sum_contrib (n : Nat) (p : WPx α) (hi : p.i < n) (hj : p.j < n) (a : Nat) :
    ((List.range n).map (contrib p a)).sum
      = if p.i = a then p.w else if p.j = a then p.w else 0 := by
  by_cases h1 : p.i = a
  · have hf : contrib p a = fun b => if b = p.j then p.w else 0 := by
      funext b; unfold contrib
      by_cases hb : b = p.j
      · subst hb; simp [h1]
      · have : ¬ ((p.i = a ∧ p.j = b) ∨ (p.i = b ∧ p.j = a)) := by
          rintro (⟨_, h⟩ | ⟨h, h'⟩)
          · exact hb h.symm
          · exact hb (by omega)
        simp [this, hb]
    rw [hf, sum_range_ite, if_pos hj, if_pos h1]
  · by_cases h2 : p.j = a
    · have hf : contrib p a = fun b => if b = p.i then p.w else 0 := by
        funext b; unfold contrib
        by_cases hb : b = p.i
        · subst hb; simp [h2]
        · have : ¬ ((p.i = a ∧ p.j = b) ∨ (p.i = b ∧ p.j = a)) := by
            rintro (⟨h, _⟩ | ⟨h, _⟩)
            · exact h1 h
            · exact hb h.symm
          simp [this, hb]
      rw [hf, sum_range_ite, if_pos hi, if_neg h1, if_pos h2]
    · have hf : contrib p a = fun _ => 0 := by
        funext b; unfold contrib
        have : ¬ ((p.i = a ∧ p.j = b) ∨ (p.i = b ∧ p.j = a)) := by
          rintro (⟨h, _⟩ | ⟨_, h⟩)
          · exact h1 h
          · exact h2 h
        simp [this]
      rw [hf, if_neg h1, if_neg h2]
      simp

/-- **What `_marginalize` computes** (formal content of finding D17): the row sum of the symmetric
matrix **plus the diagonal entry once more** — `bincount(bin1) + bincount(bin2)` sees a diagonal pixel
in both index columns.  For every list of pixels with bin ids below `n`, over any commutative monoid. -/
theorem marginalize_diag_double (n : Nat) (l : List (WPx α)) (hl : ∀ p ∈ l, p.i < n ∧ p.j < n) (a : Nat) :
    marginalizeAt l a = rowsumAt n l a + symmAt l a a := by
  induction l with
  | nil =>
    have : (List.map (symmAt ([] : List (WPx α)) a) (List.range n)).sum = 0 :=
      List.sum_eq_zero (fun x hx => by
        obtain ⟨b, _, rfl⟩ := List.mem_map.mp hx
        simp [symmAt])
    simp [marginalizeAt, bincountAt, rowsumAt, this, symmAt]
  | cons p l ih =>
    have hp := hl p List.mem_cons_self
    have ih' := ih (fun q hq => hl q (List.mem_cons_of_mem p hq))
    rw [marginalizeAt_cons, rowsumAt_cons, symmAt_cons, ih', sum_contrib n p hp.1 hp.2 a]
    have hc : contrib p a a = if p.i = a ∧ p.j = a then p.w else 0 := by
      unfold contrib; simp
    rw [hc]
    by_cases h1 : p.i = a <;> by_cases h2 : p.j = a <;> simp [h1, h2]
    · exact add_add_add_comm _ _ _ _
    · exact (add_assoc _ _ _).symm
    · exact (add_assoc _ _ _).symm

/-- **`_marginalize` = row sums when the main diagonal is empty** (`ignore_diags ≥ 1`, or no diagonal
data): for every pixel list whose diagonal pixels carry the value 0 (the filters zero, they do not
delete), `bincount(bin1, w) + bincount(bin2, w)` is the row-sum vector of the symmetric completion. -/
theorem marginalize_eq_rowsum (n : Nat) (l : List (WPx α)) (hl : ∀ p ∈ l, p.i < n ∧ p.j < n)
    (hd : ∀ p ∈ l, p.i = p.j → p.w = 0) (a : Nat) :
    marginalizeAt l a = rowsumAt n l a := by
  rw [marginalize_diag_double n l hl a]
  have : symmAt l a a = 0 := by
    unfold symmAt
    apply List.sum_eq_zero
    intro x hx
    obtain ⟨p, hp, rfl⟩ := List.mem_map.mp hx
    by_cases h : (p.i = a ∧ p.j = a) ∨ (p.i = a ∧ p.j = a)
    · rw [if_pos h]
      have : p.i = p.j := by rcases h with h | h <;> omega
      exact hd p hp this
    · rw [if_neg h]
  rw [this, add_zero]

/-- only the pixels that touch bin `a` matter for its row sum (used by the driver to evaluate row
sums of larger matrices quickly) -/
theorem rowsumTouch_eq (n : Nat) (l : List (WPx α)) (hl : ∀ p ∈ l, p.i < n ∧ p.j < n) (a : Nat) :
    rowsumAt n (l.filter fun p => p.i == a || p.j == a) a = rowsumAt n l a := by
  induction l with
  | nil => rfl
  | cons p l ih =>
    have hp := hl p List.mem_cons_self
    have ih' := ih (fun q hq => hl q (List.mem_cons_of_mem p hq))
    by_cases h : (p.i == a || p.j == a) = true
    · simp only [List.filter_cons, h, if_true]
      rw [rowsumAt_cons, rowsumAt_cons, ih']
    · simp only [List.filter_cons, h, Bool.false_eq_true, if_false]
      rw [rowsumAt_cons, ih', sum_contrib n p hp.1 hp.2 a]
      have h1 : ¬ p.i = a := by intro e; apply h; simp [e]
      have h2 : ¬ p.j = a := by intro e; apply h; simp [e]
      simp [h1, h2]

end marginal

/-- non-vacuity of `marginalize_eq_rowsum`, and the D17 witness in the integers: the pixels
`(0,0)=1, (0,1)=1, (0,2)=1, (1,2)=3`.  `_marginalize` gives `4, 4, 4` (flat: variance 0, so balancing
with `ignore_diags = 0` reports convergence at the first sweep with weights `1/√4`), the row sums are
`3, 4, 4`. -/
def witnessD17 : List (WPx Int) := [⟨0, 0, 1⟩, ⟨0, 1, 1⟩, ⟨0, 2, 1⟩, ⟨1, 2, 3⟩]

/-- **Finding D17, machine-checked**: with the main diagonal kept, a flat `_marginalize` vector does
not mean flat row sums. -/
theorem diag_rowsums_not_flat :
    (List.range 3).map (marginalizeAt witnessD17) = [4, 4, 4] ∧
    (List.range 3).map (rowsumAt 3 witnessD17) = [3, 4, 4] := by
  decide

example : (List.range 3).map (marginalizeAt (zeroDiags 1 witnessD17))
    = (List.range 3).map (rowsumAt 3 (zeroDiags 1 witnessD17)) := by decide

/-! ## the bin-level masks of the code are the documented ones when the diagonal is ignored -/

theorem zeroDiags_diag {α : Type} [Zero α] (d : Nat) (hd : 1 ≤ d) (l : List (WPx α)) :
    ∀ p ∈ zeroDiags d l, p.i = p.j → p.w = 0 := by
  intro p hp hij
  unfold zeroDiags at hp
  obtain ⟨q, _, rfl⟩ := List.mem_map.mp hp
  by_cases h : absDiff q.i q.j < d
  · simp [h]
  · simp only [h, if_false] at hij ⊢
    exfalso; apply h; unfold absDiff; split <;> omega

theorem zeroDiags_ids {α : Type} [Zero α] (d n : Nat) (l : List (WPx α)) (hl : ∀ p ∈ l, p.i < n ∧ p.j < n) :
    ∀ p ∈ zeroDiags d l, p.i < n ∧ p.j < n := by
  intro p hp
  unfold zeroDiags at hp
  obtain ⟨q, hq, rfl⟩ := List.mem_map.mp hp
  have := hl q hq
  split <;> exact this

theorem zeroTrans_ids {α : Type} [Zero α] (offs : List Nat) (n : Nat) (l : List (WPx α))
    (hl : ∀ p ∈ l, p.i < n ∧ p.j < n) : ∀ p ∈ zeroTrans offs l, p.i < n ∧ p.j < n := by
  intro p hp
  unfold zeroTrans at hp
  obtain ⟨q, hq, rfl⟩ := List.mem_map.mp hp
  have := hl q hq
  split <;> exact this

theorem binarize_ids (n : Nat) (l : List (WPx Rat)) (hl : ∀ p ∈ l, p.i < n ∧ p.j < n) :
    ∀ p ∈ binarize l, p.i < n ∧ p.j < n := by
  intro p hp
  unfold binarize at hp
  obtain ⟨q, hq, rfl⟩ := List.mem_map.mp hp
  have := hl q hq
  split <;> exact this

/-- with `ignore_diags ≥ 1` the base-filtered data has an empty main diagonal and valid bin ids -/
theorem baseFilter_props (o : Opts) (hd : 1 ≤ o.ignoreDiags) (offs : List Nat) (n : Nat)
    (l : List (WPx Rat)) (hl : ∀ p ∈ l, p.i < n ∧ p.j < n) :
    (∀ p ∈ baseFilter o offs l, p.i < n ∧ p.j < n) ∧ (∀ p ∈ baseFilter o offs l, p.i = p.j → p.w = 0) := by
  unfold baseFilter
  have hne : o.ignoreDiags ≠ 0 := by omega
  simp only [hne, ne_eq, not_false_eq_true, if_true]
  by_cases hm : o.mode = .cis
  · simp only [hm, if_true]
    exact ⟨zeroDiags_ids _ n _ (zeroTrans_ids offs n l hl), zeroDiags_diag _ hd _⟩
  · simp only [hm, if_false]
    exact ⟨zeroDiags_ids _ n _ hl, zeroDiags_diag _ hd _⟩

/-- **The code's bin-level masks are the documented ones** (`ignore_diags ≥ 1`): computing
`min_nnz`, `min_count` and MAD-max from `_marginalize` (L1) or from the row sums of the filtered
symmetric matrix (L0) gives the same masks, for every pixel table with bin ids below `n`. -/
theorem masks_code_eq_spec (n : Nat) (offs : List Nat) (l : List (WPx Rat)) (o : Opts)
    (hd : 1 ≤ o.ignoreDiags) (hl : ∀ p ∈ l, p.i < n ∧ p.j < n) :
    computeMasks marginalizeAt n offs l o = computeMasks (rowsumAt n) n offs l o := by
  have h1 : (fun k => marginalizeAt (baseFilter o offs l) k) = fun k => rowsumAt n (baseFilter o offs l) k := by
    funext k
    have := baseFilter_props o hd offs n l hl
    exact marginalize_eq_rowsum n _ this.1 this.2 k
  have h2 : (fun k => marginalizeAt (baseFilter o offs (binarize l)) k)
      = fun k => rowsumAt n (baseFilter o offs (binarize l)) k := by
    funext k
    have := baseFilter_props o hd offs n (binarize l) (binarize_ids n l hl)
    exact marginalize_eq_rowsum n _ this.1 this.2 k
  have h1' : marginalizeAt (baseFilter o offs l) = rowsumAt n (baseFilter o offs l) := h1
  have h2' : ∀ k, marginalizeAt (baseFilter o offs (binarize l)) k = rowsumAt n (baseFilter o offs (binarize l)) k :=
    fun k => congrFun h2 k
  unfold computeMasks
  simp only [h1', h2']

/-! ## the interval the driver hands to the harness is the theorem's -/

theorem sqrtUp_nonneg (q : Rat) : 0 ≤ sqrtUp q := by
  unfold sqrtUp
  apply div_nonneg
  · exact_mod_cast Nat.zero_le _
  · positivity

/-- whenever `provedInterval tol N scale` answers `(δ, lo, hi)`, the numbers satisfy the hypotheses of
`converged_rowsums_bound` (`0 ≤ δ < 1`, `tol·N ≤ δ²·scale²`, `scale > 0`) and `lo = 1/(1+δ)`,
`hi = 1/(1−δ)` -/
theorem provedInterval_sound (tol : Rat) (N : Nat) (scale δ lo hi : Rat)
    (h : provedInterval tol N scale = some (δ, lo, hi)) :
    0 ≤ δ ∧ δ < 1 ∧ 0 < scale ∧ tol * (N : Rat) ≤ δ ^ 2 * scale ^ 2 ∧ lo = 1 / (1 + δ) ∧ hi = 1 / (1 - δ) := by
  unfold provedInterval at h
  split at h
  · exact absurd h (by simp)
  · rename_i hs
    simp only at h
    split at h
    · rename_i hc
      simp only [Option.some.injEq, Prod.mk.injEq] at h
      obtain ⟨rfl, rfl, rfl⟩ := h
      refine ⟨sqrtUp_nonneg _, hc.2, ?_, ?_, rfl, rfl⟩
      · exact not_le.mp (not_or.mp hs).1
      · have := hc.1; rw [pow_two, pow_two]; exact this
    · exact absurd h (by simp)

/-- non-vacuity: with `tol = 0` the interval is `1 ± 10⁻²⁰` -/
example : provedInterval 0 10 4 = some (1 / 10 ^ 20, 1 / (1 + 1 / 10 ^ 20), 1 / (1 - 1 / 10 ^ 20)) := by
  have h0 : Rat.floor 0 = 0 := rfl
  norm_num [provedInterval, sqrtUp, h0]

/-! ## finding D18, machine-checked on the executable model

Chromosomes of 1, 2 and 2 bins; `x0 = 1 / cweights`.  The code's (chromosome-weighted) marginal is
`4, 4, 4, 4, 4`: variance 0, so the first sweep reports convergence and leaves the weights unchanged
(`scale = 4`).  The row sums of the inter-chromosomal matrix under these weights are `48/25` for the
first chromosome and `39/25` for the others (after the rescaling by `1/√4`: 0.48 and 0.39) — neither
equal to one another nor to 1. -/

def pxD18 : Pixels := [⟨0, 1, 1⟩, ⟨0, 2, 1⟩, ⟨0, 3, 1⟩, ⟨0, 4, 1⟩, ⟨1, 3, 2⟩, ⟨1, 4, 1⟩, ⟨2, 3, 1⟩, ⟨2, 4, 2⟩]
def offsD18 : List Nat := [0, 1, 3, 5]
def bD18 : List Rat := [4/5, 3/5, 3/5, 3/5, 3/5]
/-- `_zero_cis` after `_zero_diags 1` (`sweepFilter` in trans-only mode with `ignore_diags = 1`) -/
def lfD18 : List (WPx Rat) := zeroCis offsD18 (zeroDiags 1 (pixelsOf pxD18))

/-- a sweep whose variance is below `tol` is the last one -/
theorem icLoop_stops_first (margOf : List Rat → List Rat) (lo hi : Nat) (tol : Rat) (k : Nat) (b : List Rat)
    (it : Nat) (gs : List Rat) (m : List Rat) (hm : slice (margOf b) lo hi = m)
    (hnz : (m.filter (fun x => decide (x ≠ 0))).isEmpty = false)
    (hv : IC.variance (m.filter (fun x => decide (x ≠ 0))) < tol) :
    icLoop margOf lo hi tol (k + 1) b it gs =
      ⟨applyUpdate b lo m (IC.mean (m.filter (fun x => decide (x ≠ 0)))), false,
        some (IC.mean (m.filter (fun x => decide (x ≠ 0)))), IC.variance (m.filter (fun x => decide (x ≠ 0))),
        it + 1, relGap (IC.variance (m.filter (fun x => decide (x ≠ 0)))) tol :: gs⟩ := by
  rw [icLoop]
  simp only [hm, hnz, Bool.false_eq_true, if_false, hv, true_or, if_true]

theorem d18_marg : margVec 5 lfD18 (mulVec bD18 (cweights 5 offsD18)) = [4, 4, 4, 4, 4] := by
  norm_num [margVec, lfD18, zeroCis, zeroDiags, absDiff, pixelsOf, pxD18, offsD18, mulVec, bD18, chromOf,
    marginalizeAt, bincountAt, timesOuter, cweights, List.range, List.range.loop]

/-- **Finding D18, machine-checked**: the trans-only sweep started at `bD18` stops at once, reporting
convergence (`var = 0 < tol`) with unchanged weights and `scale = 4`; yet the row sums of the
inter-chromosomal matrix under these weights differ between chromosomes. -/
theorem trans_rowsums_not_flat :
    let out := icLoop (fun b => margVec 5 lfD18 (mulVec b (cweights 5 offsD18))) 0 5 (1 / 1000) 6 bD18 0 []
    out.bias = bD18 ∧ out.emptied = false ∧ out.scale = some 4 ∧ out.var = 0 ∧ out.iters = 1 ∧
    (List.range 5).map (rowsumAt 5 (timesOuter (fun i => bD18.getD i 0) lfD18))
      = [48/25, 39/25, 39/25, 39/25, 39/25] := by
  intro out
  have hm : slice ((fun b => margVec 5 lfD18 (mulVec b (cweights 5 offsD18))) bD18) 0 5 = [4, 4, 4, 4, 4] := by
    show slice (margVec 5 lfD18 (mulVec bD18 (cweights 5 offsD18))) 0 5 = _
    rw [d18_marg]; rfl
  have hf : ([4, 4, 4, 4, 4] : List Rat).filter (fun x => decide (x ≠ 0)) = [4, 4, 4, 4, 4] := by
    norm_num [List.filter]
  have hmean : IC.mean ([4, 4, 4, 4, 4] : List Rat) = 4 := by norm_num [IC.mean]
  have hvar : IC.variance ([4, 4, 4, 4, 4] : List Rat) = 0 := by norm_num [IC.variance, IC.mean]
  have hout : out = _ := icLoop_stops_first _ 0 5 (1 / 1000) 5 bD18 0 [] [4, 4, 4, 4, 4] hm
    (by rw [hf]; rfl) (by rw [hf, hvar]; norm_num)
  rw [hf, hmean, hvar] at hout
  refine ⟨?_, ?_, ?_, ?_, ?_, ?_⟩
  · rw [hout]; norm_num [applyUpdate, divisor, bD18, List.mapIdx, List.mapIdx.go]
  · rw [hout]
  · rw [hout]
  · rw [hout]
  · rw [hout]
  · norm_num [lfD18, zeroCis, zeroDiags, absDiff, pixelsOf, pxD18, offsD18, bD18, chromOf, rowsumAt, symmAt,
      timesOuter, List.range, List.range.loop]

/-! ## mask invariants of the sweeps

What is proved: one update keeps weights non-negative, keeps a masked bin (weight 0) at 0 and an
unmasked bin positive; these lift over any number of sweeps (`icLoop_invariant`), so after the NaN
marking a bin carries NaN iff it was masked before the sweeps or the domain was emptied, and every
other weight is `> 0`. -/

theorem divisor_pos (mi μ : Rat) (hmi : 0 ≤ mi) (hμ : 0 < μ) : 0 < divisor mi μ := by
  unfold divisor
  split
  · norm_num
  · rename_i h
    exact div_pos (lt_of_le_of_ne hmi (Ne.symm h)) hμ

theorem getD_nonneg_of_forall (m : List Rat) (hm : ∀ x ∈ m, 0 ≤ x) (i : Nat) : 0 ≤ m.getD i 0 := by
  rw [List.getD_eq_getElem?_getD]
  cases h : m[i]? with
  | none => simp
  | some x => exact hm x (List.mem_of_getElem? h)

/-- every entry of the updated vector is the old entry divided by a positive number -/
theorem applyUpdate_entry (b : List Rat) (lo : Nat) (m : List Rat) (μ : Rat) (hm : ∀ x ∈ m, 0 ≤ x)
    (hμ : 0 < μ) (i : Nat) : ∃ d : Rat, 0 < d ∧ (applyUpdate b lo m μ).getD i 0 = b.getD i 0 / d := by
  unfold applyUpdate
  rw [List.getD_eq_getElem?_getD, List.getD_eq_getElem?_getD, List.getElem?_mapIdx]
  cases b[i]? with
  | none => exact ⟨1, by norm_num, by simp⟩
  | some x =>
    by_cases h : lo ≤ i ∧ i < lo + m.length
    · exact ⟨divisor (m.getD (i - lo) 0) μ, divisor_pos _ _ (getD_nonneg_of_forall m hm _) hμ, by simp [h]⟩
    · exact ⟨1, by norm_num, by simp [h]⟩

/-- one update keeps non-negative weights non-negative -/
theorem applyUpdate_nonneg (b : List Rat) (lo : Nat) (m : List Rat) (μ : Rat) (hm : ∀ x ∈ m, 0 ≤ x)
    (hμ : 0 < μ) (hb : ∀ i, 0 ≤ b.getD i 0) (i : Nat) : 0 ≤ (applyUpdate b lo m μ).getD i 0 := by
  obtain ⟨d, hd, he⟩ := applyUpdate_entry b lo m μ hm hμ i
  rw [he]; exact div_nonneg (hb i) (le_of_lt hd)

/-- one update keeps a masked bin masked (weight 0) and an unmasked bin unmasked -/
theorem applyUpdate_zero_iff (b : List Rat) (lo : Nat) (m : List Rat) (μ : Rat) (hm : ∀ x ∈ m, 0 ≤ x)
    (hμ : 0 < μ) (i : Nat) : (applyUpdate b lo m μ).getD i 0 = 0 ↔ b.getD i 0 = 0 := by
  obtain ⟨d, hd, he⟩ := applyUpdate_entry b lo m μ hm hμ i
  rw [he, div_eq_zero_iff]
  constructor
  · rintro (h | h)
    · exact h
    · exact absurd h (ne_of_gt hd)
  · intro h; exact Or.inl h

theorem mean_pos (l : List Rat) (hne : l ≠ []) (hl : ∀ x ∈ l, 0 < x) : 0 < IC.mean l := by
  unfold IC.mean
  apply div_pos (List.sum_pos l hl hne)
  have : 0 < l.length := List.length_pos_iff.mpr hne
  exact_mod_cast this

theorem mem_slice {β : Type} (v : List β) (lo hi : Nat) (x : β) (hx : x ∈ slice v lo hi) : x ∈ v := by
  unfold slice at hx
  exact List.mem_of_mem_drop (List.mem_of_mem_take hx)

/-- the sweeps' invariant, for any number of sweeps and any marginal functional that maps
non-negative weights to non-negative marginals -/
theorem icLoop_invariant (margOf : List Rat → List Rat) (lo hi : Nat) (tol : Rat)
    (hmarg : ∀ b : List Rat, (∀ i, 0 ≤ b.getD i 0) → ∀ x ∈ margOf b, 0 ≤ x) :
    ∀ (k : Nat) (b : List Rat) (it : Nat) (gs : List Rat), (∀ i, 0 ≤ b.getD i 0) →
      (∀ i, 0 ≤ (icLoop margOf lo hi tol k b it gs).bias.getD i 0) ∧
      (∀ i, (icLoop margOf lo hi tol k b it gs).bias.getD i 0 = 0 ↔ b.getD i 0 = 0) := by
  intro k
  induction k with
  | zero => intro b it gs hb; rw [icLoop]; exact ⟨hb, fun i => Iff.rfl⟩
  | succ k ih =>
    intro b it gs hb
    rw [icLoop]
    simp only
    have hm : ∀ x ∈ slice (margOf b) lo hi, 0 ≤ x := fun x hx => hmarg b hb x (mem_slice _ _ _ _ hx)
    split
    · exact ⟨hb, fun i => Iff.rfl⟩
    · rename_i hne
      have hnz : (slice (margOf b) lo hi).filter (fun x => decide (x ≠ 0)) ≠ [] := by
        intro h; apply hne; rw [h]; rfl
      have hμ : 0 < IC.mean ((slice (margOf b) lo hi).filter (fun x => decide (x ≠ 0))) := by
        apply mean_pos _ hnz
        intro x hx
        have h1 := List.mem_filter.mp hx
        have h2 : x ≠ 0 := by simpa using h1.2
        exact lt_of_le_of_ne (hm x h1.1) (Ne.symm h2)
      have hb' := applyUpdate_nonneg b lo _ _ hm hμ hb
      have hz' := applyUpdate_zero_iff b lo _ _ hm hμ
      split
      · exact ⟨hb', hz'⟩
      · obtain ⟨h1, h2⟩ := ih (applyUpdate b lo (slice (margOf b) lo hi)
            (IC.mean ((slice (margOf b) lo hi).filter (fun x => decide (x ≠ 0))))) (it + 1)
            (relGap (IC.variance ((slice (margOf b) lo hi).filter (fun x => decide (x ≠ 0)))) tol :: gs) hb'
        exact ⟨h1, fun i => (h2 i).trans (hz' i)⟩

/-- `_marginalize` of non-negative data weighted by non-negative weights is non-negative -/
theorem margVec_nonneg (n : Nat) (l : List (WPx Rat)) (hl : ∀ p ∈ l, 0 ≤ p.w) (w : List Rat)
    (hw : ∀ i, 0 ≤ w.getD i 0) : ∀ x ∈ margVec n l w, 0 ≤ x := by
  intro x hx
  unfold margVec at hx
  obtain ⟨k, _, rfl⟩ := List.mem_map.mp hx
  have hb : ∀ sel : WPx Rat → Nat, 0 ≤ bincountAt sel (timesOuter (fun i => w.getD i 0) l) k := by
    intro sel
    unfold bincountAt
    apply List.sum_nonneg
    intro y hy
    obtain ⟨p, hp, rfl⟩ := List.mem_map.mp hy
    unfold timesOuter at hp
    obtain ⟨q, hq, rfl⟩ := List.mem_map.mp hp
    split
    · exact mul_nonneg (mul_nonneg (hw _) (hw _)) (hl q hq)
    · exact le_refl 0
  unfold marginalizeAt
  exact add_nonneg (hb _) (hb _)

/-- **Every weight that is not NaN is positive** (exact arithmetic), on the domain `[lo, hi)` -/
theorem others_positive (margOf : List Rat → List Rat) (lo hi : Nat) (tol : Rat)
    (hmarg : ∀ b : List Rat, (∀ i, 0 ≤ b.getD i 0) → ∀ x ∈ margOf b, 0 ≤ x)
    (k : Nat) (b0 : List Rat) (hb : ∀ i, 0 ≤ b0.getD i 0) (acc : List (Option Rat)) (i : Nat) (x : Rat)
    (hin : lo ≤ i ∧ i < hi)
    (hx : (markNaN lo hi (icLoop margOf lo hi tol k b0 0 []) acc)[i]? = some (some x)) : 0 < x := by
  obtain ⟨h1, _⟩ := icLoop_invariant margOf lo hi tol hmarg k b0 0 [] hb
  unfold markNaN at hx
  rw [List.getElem?_mapIdx] at hx
  cases hacc : acc[i]? with
  | none => rw [hacc] at hx; simp at hx
  | some old =>
    rw [hacc] at hx
    simp only [Option.map_some, hin, and_self, if_true, Option.some.injEq] at hx
    split at hx
    · exact absurd hx (by simp)
    · split at hx
      · exact absurd hx (by simp)
      · rename_i hne
        have : x = (icLoop margOf lo hi tol k b0 0 []).bias.getD i 0 := by
          simpa using hx.symm
        rw [this]
        exact lt_of_le_of_ne (h1 i) (Ne.symm hne)

/-- **A bin carries NaN iff it was masked before the sweeps or its domain was emptied** (on the
domain `[lo, hi)`; `b0` is the weight vector after the bin-level filters, in which exactly the
excluded bins are 0 — `maskedBias_zero_iff`). -/
theorem mask_iff_partial (margOf : List Rat → List Rat) (lo hi : Nat) (tol : Rat)
    (hmarg : ∀ b : List Rat, (∀ i, 0 ≤ b.getD i 0) → ∀ x ∈ margOf b, 0 ≤ x)
    (k : Nat) (b0 : List Rat) (hb : ∀ i, 0 ≤ b0.getD i 0) (acc : List (Option Rat)) (i : Nat)
    (hin : lo ≤ i ∧ i < hi) (hacc : i < acc.length) :
    (markNaN lo hi (icLoop margOf lo hi tol k b0 0 []) acc)[i]? = some none ↔
      ((icLoop margOf lo hi tol k b0 0 []).emptied = true ∨ b0.getD i 0 = 0) := by
  obtain ⟨_, h2⟩ := icLoop_invariant margOf lo hi tol hmarg k b0 0 [] hb
  unfold markNaN
  rw [List.getElem?_mapIdx, List.getElem?_eq_getElem hacc]
  simp only [Option.map_some, hin, and_self, if_true, Option.some.injEq]
  by_cases he : (icLoop margOf lo hi tol k b0 0 []).emptied = true
  · simp [he]
  · simp only [he, Bool.false_eq_true, if_false, false_or]
    rw [← h2 i]
    simp

/-- after the bin-level filters a weight is 0 exactly on the excluded bins (zero/NaN `x0` is one of
the exclusion reasons) -/
theorem maskedBias_zero_iff (n : Nat) (o : Opts) (offs : List Nat) (l : List (WPx Rat))
    (mf : List (WPx Rat) → Nat → Rat) (i : Nat) (hi : i < n) :
    (maskedBias n o (computeMasks mf n offs l o)).getD i 0 = 0 ↔
      (computeMasks mf n offs l o).excluded i = true := by
  have hlen : (initBias n o.x0).length = n := by
    unfold initBias; split <;> simp
  unfold maskedBias
  rw [List.getD_eq_getElem?_getD, List.getElem?_mapIdx, List.getElem?_eq_getElem (by rw [hlen]; exact hi)]
  simp only [Option.map_some, Option.getD_some]
  by_cases he : (computeMasks mf n offs l o).excluded i = true
  · simp [he]
  · simp only [he, Bool.false_eq_true, if_false, iff_false]
    intro hz
    apply he
    have hx0 : (computeMasks mf n offs l o).x0.getD i false = true := by
      have : (computeMasks mf n offs l o).x0 = (initBias n o.x0).map fun x => decide (x = 0) := by
        unfold computeMasks; rfl
      rw [this, List.getD_eq_getElem?_getD, List.getElem?_map, List.getElem?_eq_getElem (by rw [hlen]; exact hi)]
      simp [hz]
    unfold Masks.excluded
    rw [hx0]; simp

/-! ## the "no remaining data" exit, and the full `mask_iff`

For non-negative data the zero pattern of the marginal depends only on the zero pattern of the weights
(`marg_zero_iff`), and the sweeps keep that pattern (`icLoop_invariant`); hence the domain can only be
emptied at the first sweep (`icLoop_emptied_iff`).  This gives `mask_iff` for every domain and each of
the three functionals (`margVec_pattern`: genome-wide/cis with `cw = none`, trans-only with
`cw = some cweights`), and, unfolded through `balance`, `balance_genome_mask_iff` for the genome-wide
model run, `balance_trans_mask_iff` and `balance_cis_mask_iff` (end of this file) for the other two. -/

theorem list_sum_eq_zero_iff (l : List Rat) (h : ∀ x ∈ l, 0 ≤ x) : l.sum = 0 ↔ ∀ x ∈ l, x = 0 := by
  induction l with
  | nil => simp
  | cons a l ih =>
    have ha : 0 ≤ a := h a List.mem_cons_self
    have hl : ∀ x ∈ l, 0 ≤ x := fun x hx => h x (List.mem_cons_of_mem a hx)
    rw [List.sum_cons, add_eq_zero_iff_of_nonneg ha (List.sum_nonneg hl), ih hl]
    simp

/-- for non-negative data and weights, whether a marginal vanishes depends only on which weights vanish -/
theorem marg_zero_iff (l : List (WPx Rat)) (hl : ∀ p ∈ l, 0 ≤ p.w) (w : Nat → Rat) (hw : ∀ i, 0 ≤ w i) (k : Nat) :
    marginalizeAt (timesOuter w l) k = 0 ↔
      ∀ p ∈ l, (p.i = k ∨ p.j = k) → (w p.i = 0 ∨ w p.j = 0 ∨ p.w = 0) := by
  have hb : ∀ sel : WPx Rat → Nat, (∀ q : WPx Rat, ∀ v : Rat, sel { q with w := v } = sel q) →
      (bincountAt sel (timesOuter w l) k = 0 ↔ ∀ p ∈ l, sel p = k → (w p.i = 0 ∨ w p.j = 0 ∨ p.w = 0)) := by
    intro sel hsel
    unfold bincountAt
    rw [list_sum_eq_zero_iff]
    · unfold timesOuter
      simp only [List.mem_map, forall_exists_index, and_imp, forall_apply_eq_imp_iff₂]
      constructor
      · intro h p hp hk
        have := h p hp
        rw [hsel, if_pos hk] at this
        rcases mul_eq_zero.mp this with h1 | h1
        · rcases mul_eq_zero.mp h1 with h2 | h2
          · exact Or.inl h2
          · exact Or.inr (Or.inl h2)
        · exact Or.inr (Or.inr h1)
      · intro h p hp
        rw [hsel]
        split
        · rename_i hk
          rcases h p hp hk with h1 | h1 | h1 <;> simp [h1]
        · rfl
    · intro y hy
      obtain ⟨p, hp, rfl⟩ := List.mem_map.mp hy
      unfold timesOuter at hp
      obtain ⟨q, hq, rfl⟩ := List.mem_map.mp hp
      split
      · exact mul_nonneg (mul_nonneg (hw _) (hw _)) (hl q hq)
      · exact le_refl 0
  have hnn : ∀ sel : WPx Rat → Nat, 0 ≤ bincountAt sel (timesOuter w l) k := by
    intro sel
    unfold bincountAt
    apply List.sum_nonneg
    intro y hy
    obtain ⟨p, hp, rfl⟩ := List.mem_map.mp hy
    unfold timesOuter at hp
    obtain ⟨q, hq, rfl⟩ := List.mem_map.mp hp
    split
    · exact mul_nonneg (mul_nonneg (hw _) (hw _)) (hl q hq)
    · exact le_refl 0
  unfold marginalizeAt
  rw [add_eq_zero_iff_of_nonneg (hnn _) (hnn _), hb (·.i) (fun _ _ => rfl), hb (·.j) (fun _ _ => rfl)]
  constructor
  · rintro ⟨h1, h2⟩ p hp (hk | hk)
    · exact h1 p hp hk
    · exact h2 p hp hk
  · intro h
    exact ⟨fun p hp hk => h p hp (Or.inl hk), fun p hp hk => h p hp (Or.inr hk)⟩



/-- the zero pattern of the functional on the domain depends only on the zero pattern of the weights -/
def PatternDetermined (margOf : List Rat → List Rat) (lo hi : Nat) : Prop :=
  ∀ b b' : List Rat, (∀ i, 0 ≤ b.getD i 0) → (∀ i, 0 ≤ b'.getD i 0) →
    (∀ i, b'.getD i 0 = 0 ↔ b.getD i 0 = 0) →
    ((∀ x ∈ slice (margOf b') lo hi, x = 0) ↔ (∀ x ∈ slice (margOf b) lo hi, x = 0))

theorem nz_isEmpty_iff (m : List Rat) :
    (m.filter (fun x => decide (x ≠ 0))).isEmpty = true ↔ ∀ x ∈ m, x = 0 := by
  rw [List.isEmpty_iff, List.filter_eq_nil_iff]
  simp

/-- **The "no remaining data" exit can only be taken at the first sweep.** -/
theorem icLoop_emptied_iff (margOf : List Rat → List Rat) (lo hi : Nat) (tol : Rat)
    (hmarg : ∀ b : List Rat, (∀ i, 0 ≤ b.getD i 0) → ∀ x ∈ margOf b, 0 ≤ x)
    (hpat : PatternDetermined margOf lo hi) :
    ∀ (k : Nat) (b : List Rat) (it : Nat) (gs : List Rat), (∀ i, 0 ≤ b.getD i 0) →
      ((icLoop margOf lo hi tol (k + 1) b it gs).emptied = true ↔ ∀ x ∈ slice (margOf b) lo hi, x = 0) := by
  intro k
  induction k with
  | zero =>
    intro b it gs _
    rw [icLoop]
    simp only
    split
    · rename_i he; simpa using (nz_isEmpty_iff _).mp he
    · rename_i he
      simp only [or_true, if_true]
      constructor
      · intro h; exact absurd h (by simp)
      · intro h; exact absurd ((nz_isEmpty_iff _).mpr h) he
  | succ k ih =>
    intro b it gs hb
    rw [icLoop]
    simp only
    have hm : ∀ x ∈ slice (margOf b) lo hi, 0 ≤ x := fun x hx => hmarg b hb x (mem_slice _ _ _ _ hx)
    split
    · rename_i he; simpa using (nz_isEmpty_iff _).mp he
    · rename_i he
      have hfalse : ¬ ∀ x ∈ slice (margOf b) lo hi, x = 0 := fun h => he ((nz_isEmpty_iff _).mpr h)
      have hnz : (slice (margOf b) lo hi).filter (fun x => decide (x ≠ 0)) ≠ [] := by
        intro h; apply he; rw [h]; rfl
      have hμ : 0 < IC.mean ((slice (margOf b) lo hi).filter (fun x => decide (x ≠ 0))) := by
        apply mean_pos _ hnz
        intro x hx
        have h1 := List.mem_filter.mp hx
        have h2 : x ≠ 0 := by simpa using h1.2
        exact lt_of_le_of_ne (hm x h1.1) (Ne.symm h2)
      have hb' := applyUpdate_nonneg b lo _ _ hm hμ hb
      have hz' := applyUpdate_zero_iff b lo _ _ hm hμ
      split
      · constructor
        · intro h; exact absurd h (by simp)
        · intro h; exact absurd h hfalse
      · rw [ih _ _ _ hb', hpat b _ hb hb' hz']

theorem getD_mulVec (b cw : List Rat) (i : Nat) : (mulVec b cw).getD i 0 = b.getD i 0 * cw.getD i 0 := by
  unfold mulVec
  rw [List.getD_eq_getElem?_getD, List.getD_eq_getElem?_getD, List.getD_eq_getElem?_getD, List.getElem?_zipWith]
  cases b[i]? <;> cases cw[i]? <;> simp

theorem slice_map {β γ : Type} (f : β → γ) (v : List β) (lo hi : Nat) :
    slice (v.map f) lo hi = (slice v lo hi).map f := by
  unfold slice
  rw [List.map_take, List.map_drop]

/-- the genome-wide / cis-only functional (`w = id`) and the trans-only functional (`w = · * cweights`)
are pattern-determined on non-negative data -/
theorem margVec_pattern (n : Nat) (l : List (WPx Rat)) (hl : ∀ p ∈ l, 0 ≤ p.w) (cw : Option (List Rat))
    (hcw : ∀ c, cw = some c → ∀ i, 0 ≤ c.getD i 0) (lo hi : Nat) :
    PatternDetermined (fun b => margVec n l (match cw with | none => b | some c => mulVec b c)) lo hi := by
  intro b b' hb hb' hz
  -- the effective weights
  have key : ∀ (u u' : List Rat), (∀ i, 0 ≤ u.getD i 0) → (∀ i, 0 ≤ u'.getD i 0) →
      (∀ i, u'.getD i 0 = 0 ↔ u.getD i 0 = 0) →
      ((∀ x ∈ slice (margVec n l u') lo hi, x = 0) ↔ (∀ x ∈ slice (margVec n l u) lo hi, x = 0)) := by
    intro u u' hu hu' hzz
    unfold margVec
    rw [slice_map, slice_map]
    simp only [List.mem_map, forall_exists_index, and_imp, forall_apply_eq_imp_iff₂]
    apply forall_congr'; intro k
    apply imp_congr_right; intro _
    rw [marg_zero_iff l hl _ hu' k, marg_zero_iff l hl _ hu k]
    apply forall_congr'; intro p
    apply imp_congr_right; intro _
    apply imp_congr_right; intro _
    rw [hzz p.i, hzz p.j]
  cases cw with
  | none => exact key b b' hb hb' hz
  | some c =>
    have hc := hcw c rfl
    apply key
    · intro i; rw [getD_mulVec]; exact mul_nonneg (hb i) (hc i)
    · intro i; rw [getD_mulVec]; exact mul_nonneg (hb' i) (hc i)
    · intro i; rw [getD_mulVec, getD_mulVec, mul_eq_zero, mul_eq_zero, hz i]



/-- **`mask_iff`** (any domain, any pattern-determined functional, any number `≥ 1` of sweeps): after the
NaN marking, bin `i` of the domain carries NaN iff its weight was 0 before the sweeps (it was excluded
by a bin-level filter) or the domain has no non-zero marginal. -/
theorem mask_iff (margOf : List Rat → List Rat) (lo hi : Nat) (tol : Rat)
    (hmarg : ∀ b : List Rat, (∀ i, 0 ≤ b.getD i 0) → ∀ x ∈ margOf b, 0 ≤ x)
    (hpat : PatternDetermined margOf lo hi)
    (k : Nat) (b0 : List Rat) (hb : ∀ i, 0 ≤ b0.getD i 0) (acc : List (Option Rat)) (i : Nat)
    (hin : lo ≤ i ∧ i < hi) (hacc : i < acc.length) :
    (markNaN lo hi (icLoop margOf lo hi tol (k + 1) b0 0 []) acc)[i]? = some none ↔
      (b0.getD i 0 = 0 ∨ ∀ x ∈ slice (margOf b0) lo hi, x = 0) := by
  rw [mask_iff_partial margOf lo hi tol hmarg (k + 1) b0 hb acc i hin hacc,
    icLoop_emptied_iff margOf lo hi tol hmarg hpat k b0 0 [] hb]
  exact Or.comm

theorem filters_nonneg (o : Opts) (offs : List Nat) (l : List (WPx Rat)) (hl : ∀ p ∈ l, 0 ≤ p.w) :
    ∀ p ∈ sweepFilter o offs l, 0 ≤ p.w := by
  have hz : ∀ (f : WPx Rat → Bool) (l : List (WPx Rat)), (∀ p ∈ l, 0 ≤ p.w) →
      ∀ p ∈ l.map (fun p => if f p then { p with w := 0 } else p), 0 ≤ p.w := by
    intro f l hl p hp
    obtain ⟨q, hq, rfl⟩ := List.mem_map.mp hp
    split
    · exact le_refl 0
    · exact hl q hq
  have hd : ∀ d (l : List (WPx Rat)), (∀ p ∈ l, 0 ≤ p.w) → ∀ p ∈ zeroDiags d l, 0 ≤ p.w := by
    intro d l hl
    have := hz (fun p => decide (absDiff p.i p.j < d)) l hl
    simpa [zeroDiags] using this
  have ht : ∀ (l : List (WPx Rat)), (∀ p ∈ l, 0 ≤ p.w) → ∀ p ∈ zeroTrans offs l, 0 ≤ p.w := by
    intro l hl
    have := hz (fun p => decide (chromOf offs p.i ≠ chromOf offs p.j)) l hl
    simpa [zeroTrans] using this
  have hc : ∀ (l : List (WPx Rat)), (∀ p ∈ l, 0 ≤ p.w) → ∀ p ∈ zeroCis offs l, 0 ≤ p.w := by
    intro l hl
    have := hz (fun p => decide (chromOf offs p.i = chromOf offs p.j)) l hl
    simpa [zeroCis] using this
  have hbase : ∀ p ∈ baseFilter o offs l, 0 ≤ p.w := by
    unfold baseFilter
    simp only
    split <;> split
    · exact hd _ _ (ht _ hl)
    · exact hd _ _ hl
    · exact ht _ hl
    · exact hl
  unfold sweepFilter
  split
  · exact hc _ hbase
  · exact hbase

/-- **`mask_iff` for the genome-wide model run**: for non-negative counts and initial weights, bin `i`
of the model's result carries NaN iff a documented bin-level filter excludes it (too few non-zeros,
too low count, MAD-max, blacklist, zero/NaN `x0`) or no bin has a non-zero marginal. -/
theorem balance_genome_mask_iff (n : Nat) (offs : List Nat) (ps : Pixels) (o : Opts) (r : Result)
    (hmode : o.mode = .genome) (hps : ∀ p ∈ ps, 0 ≤ p.v) (hx0 : ∀ i, 0 ≤ (initBias n o.x0).getD i 0)
    (h : balance n offs ps o = .ok r) (i : Nat) (hi : i < n) :
    r.bias[i]? = some none ↔
      ((computeMasks marginalizeAt n offs (pixelsOf ps) o).excluded i = true ∨
        ∀ x ∈ margVec n (sweepFilter o offs (pixelsOf ps))
          (maskedBias n o (computeMasks marginalizeAt n offs (pixelsOf ps) o)), x = 0) := by
  unfold balance at h
  split at h
  · exact absurd h (by simp)
  · rename_i hk
    simp only [hmode] at h
    obtain ⟨k, hk'⟩ : ∃ k, o.maxIters = k + 1 := ⟨o.maxIters - 1, by omega⟩
    have hl : ∀ p ∈ pixelsOf ps, 0 ≤ p.w := by
      intro p hp
      unfold pixelsOf at hp
      obtain ⟨q, hq, rfl⟩ := List.mem_map.mp hp
      show (0 : Rat) ≤ ((q.v : Int) : Rat)
      exact_mod_cast hps q hq
    have hlf := filters_nonneg o offs (pixelsOf ps) hl
    set masks := computeMasks marginalizeAt n offs (pixelsOf ps) o with hmasks
    set b0 := maskedBias n o masks with hb0
    have hlen0 : (initBias n o.x0).length = n := by unfold initBias; split <;> simp
    have hb0len : b0.length = n := by rw [hb0]; unfold maskedBias; rw [List.length_mapIdx, hlen0]
    have hb0nn : ∀ j, 0 ≤ b0.getD j 0 := by
      intro j
      rw [hb0]; unfold maskedBias
      rw [List.getD_eq_getElem?_getD, List.getElem?_mapIdx]
      have := hx0 j
      rw [List.getD_eq_getElem?_getD] at this
      cases hj : (initBias n o.x0)[j]? with
      | none => simp
      | some x =>
        rw [hj] at this
        simp only [Option.map_some, Option.getD_some]
        split
        · exact le_refl 0
        · simpa using this
    have hmarg : ∀ b : List Rat, (∀ i, 0 ≤ b.getD i 0) → ∀ x ∈ margVec n (sweepFilter o offs (pixelsOf ps)) b, 0 ≤ x :=
      fun b hb => margVec_nonneg n _ hlf b hb
    have hpat := margVec_pattern n (sweepFilter o offs (pixelsOf ps)) hlf none (fun c hc => by simp at hc) 0 n
    simp only at hpat
    injection h with h
    rw [← h]
    simp only
    rw [hk']
    have hmain := mask_iff (margVec n (sweepFilter o offs (pixelsOf ps))) 0 n o.tol hmarg hpat k b0 hb0nn
      (b0.map some) i ⟨Nat.zero_le _, hi⟩ (by rw [List.length_map, hb0len]; exact hi)
    rw [hmain, maskedBias_zero_iff n o offs (pixelsOf ps) marginalizeAt i hi]
    apply or_congr Iff.rfl
    have hlenm : (margVec n (sweepFilter o offs (pixelsOf ps)) b0).length = n := by
      unfold margVec; simp
    have : slice (margVec n (sweepFilter o offs (pixelsOf ps)) b0) 0 n
        = margVec n (sweepFilter o offs (pixelsOf ps)) b0 := by
      unfold slice
      rw [List.drop_zero, Nat.sub_zero, List.take_of_length_le (by rw [hlenm])]
    rw [this]

/-! ## the model's sweep and the analytic theorems are about the same thing

`model_marg_eq_dense` identifies the model's list-based marginal with the dense `marg` of
`Props/C10IC.lean`; `applyUpdate_eq_upd` identifies the updates; `model_final_step_bound` and
`model_converged_bound` are `final_step_bound` / `converged_rowsums_bound` restated on the executable
definitions (`margVec`, `IC.mean`, `IC.variance`, `applyUpdate`, `rowsumAt`).  Stated for the
genome-wide functional on data with an empty main diagonal (`ignore_diags ≥ 1`); the per-chromosome
version is `model_converged_bound_cis` (end of this file). -/

section dense
variable {K : Type} [CommSemiring K]

theorem symmAt_timesOuter (w : Nat → K) (l : List (WPx K)) (a b : Nat) :
    symmAt (timesOuter w l) a b = w a * symmAt l a b * w b := by
  induction l with
  | nil => simp [symmAt, timesOuter]
  | cons p l ih =>
    have : timesOuter w (p :: l) = { p with w := w p.i * w p.j * p.w } :: timesOuter w l := rfl
    rw [this, symmAt_cons, symmAt_cons, ih, mul_add, add_mul]
    congr 1
    unfold contrib
    by_cases h : (p.i = a ∧ p.j = b) ∨ (p.i = b ∧ p.j = a)
    · simp only [h, if_true]
      rcases h with ⟨h1, h2⟩ | ⟨h1, h2⟩
      · rw [h1, h2]; ring
      · rw [h1, h2]; ring
    · simp only [h, if_false]; ring

theorem list_range_sum_eq_fin (n : Nat) (f : Nat → K) :
    ((List.range n).map f).sum = ∑ j : Fin n, f j := by
  rw [← Finset.sum_range]
  induction n with
  | zero => simp
  | succ n ih => rw [List.range_succ, List.map_append, List.sum_append, ih, Finset.sum_range_succ]; simp

end dense

/-- **The model's marginal is the dense marginal of the analytic theorems.**  For pixel data with bin
ids below `n` and an empty main diagonal, `_marginalize` of the data times the outer product of `w`
is `Σ_j w_k · S_kj · w_j` with `S = symmAt l` the symmetric matrix the pixels stand for — i.e.
`Cooler.C10.marg S w k` over `Fin n`, the functional `final_step_bound` and
`converged_rowsums_bound` are about. -/
theorem model_marg_eq_dense {K : Type} [Field K] (n : Nat) (l : List (WPx K)) (hl : ∀ p ∈ l, p.i < n ∧ p.j < n)
    (hd : ∀ p ∈ l, p.i = p.j → p.w = 0) (w : Nat → K) (k : Fin n) :
    marginalizeAt (timesOuter w l) k
      = marg (fun i j : Fin n => symmAt l i j) (fun i : Fin n => w i) k := by
  have hl' : ∀ p ∈ timesOuter w l, p.i < n ∧ p.j < n := by
    intro p hp
    obtain ⟨q, hq, rfl⟩ := List.mem_map.mp hp
    exact hl q hq
  have hd' : ∀ p ∈ timesOuter w l, p.i = p.j → p.w = 0 := by
    intro p hp hij
    obtain ⟨q, hq, rfl⟩ := List.mem_map.mp hp
    have : q.w = 0 := hd q hq hij
    simp [this]
  rw [marginalize_eq_rowsum n _ hl' hd' k]
  unfold rowsumAt marg
  rw [list_range_sum_eq_fin]
  apply Finset.sum_congr rfl
  intro j _
  exact symmAt_timesOuter w l k j

/-- the symmetric matrix of the pixels is symmetric, and non-negative for non-negative data -/
theorem symmAt_symm {K : Type} [AddCommMonoid K] (l : List (WPx K)) (a b : Nat) : symmAt l a b = symmAt l b a := by
  unfold symmAt
  congr 1
  apply List.map_congr_left
  intro p _
  have : ((p.i = a ∧ p.j = b) ∨ (p.i = b ∧ p.j = a)) ↔ ((p.i = b ∧ p.j = a) ∨ (p.i = a ∧ p.j = b)) := Or.comm
  simp only [this]

theorem symmAt_nonneg (l : List (WPx Rat)) (hl : ∀ p ∈ l, 0 ≤ p.w) (a b : Nat) : 0 ≤ symmAt l a b := by
  unfold symmAt
  apply List.sum_nonneg
  intro x hx
  obtain ⟨p, hp, rfl⟩ := List.mem_map.mp hx
  split
  · exact hl p hp
  · exact le_refl 0



/-- list version of `variance_gives_delta`, on the model's `IC.mean` / `IC.variance` -/
theorem list_variance_gives_delta (l : List Rat) (tol δ : Rat) (hne : l ≠ [])
    (hvar : IC.variance l < tol) (hδ0 : 0 ≤ δ) (hμ : 0 ≤ IC.mean l)
    (hδ : tol * (l.length : Rat) ≤ δ ^ 2 * (IC.mean l) ^ 2) :
    ∀ x ∈ l, |x - IC.mean l| ≤ δ * IC.mean l := by
  intro x hx
  have hlen : (0 : Rat) < (l.length : Rat) := by
    have : 0 < l.length := List.length_pos_iff.mpr hne
    exact_mod_cast this
  have hsum : (l.map fun y => (y - IC.mean l) * (y - IC.mean l)).sum < tol * (l.length : Rat) := by
    unfold IC.variance at hvar
    simp only at hvar
    rwa [div_lt_iff₀ hlen] at hvar
  have h1 : (x - IC.mean l) * (x - IC.mean l) ≤ (l.map fun y => (y - IC.mean l) * (y - IC.mean l)).sum := by
    apply List.single_le_sum
    · intro y hy
      obtain ⟨z, _, rfl⟩ := List.mem_map.mp hy
      exact mul_self_nonneg _
    · exact List.mem_map.mpr ⟨x, hx, rfl⟩
  have h2 : (x - IC.mean l) ^ 2 ≤ (δ * IC.mean l) ^ 2 := by
    rw [pow_two, mul_pow]
    exact le_trans h1 (le_of_lt (lt_of_lt_of_le hsum hδ))
  exact abs_le_of_sq_le_sq h2 (mul_nonneg hδ0 hμ)

theorem getD_margVec (n : Nat) (l : List (WPx Rat)) (b : List Rat) (k : Nat) (hk : k < n) :
    (margVec n l b).getD k 0 = marginalizeAt (timesOuter (fun i => b.getD i 0) l) k := by
  unfold margVec
  rw [List.getD_eq_getElem?_getD, List.getElem?_map, List.getElem?_range hk]
  rfl

/-- the model's update is the update `upd` of the analytic theorems -/
theorem applyUpdate_eq_upd (n : Nat) (l : List (WPx Rat)) (hl : ∀ p ∈ l, p.i < n ∧ p.j < n)
    (hd : ∀ p ∈ l, p.i = p.j → p.w = 0) (b : List Rat) (hbl : b.length = n) (μ : Rat) (k : Fin n) :
    (applyUpdate b 0 (margVec n l b) μ).getD k 0
      = upd (fun i j : Fin n => symmAt l i j) (fun i : Fin n => b.getD i 0) μ k := by
  have hlen : (margVec n l b).length = n := by unfold margVec; simp
  unfold applyUpdate upd
  rw [List.getD_eq_getElem?_getD, List.getElem?_mapIdx, List.getElem?_eq_getElem (by rw [hbl]; exact k.2)]
  simp only [Option.map_some, Option.getD_some, Nat.zero_le, true_and, Nat.zero_add, hlen, k.2, if_true,
    Nat.sub_zero]
  rw [getD_margVec n l b k k.2, model_marg_eq_dense n l hl hd (fun i => b.getD i 0) k]
  unfold divisor
  rw [List.getD_eq_getElem?_getD, List.getElem?_eq_getElem (by rw [hbl]; exact k.2)]
  simp

/-- **Final-step bound on the executable model** (empty main diagonal): if every non-zero entry of
the model's marginal vector is within `δμ` of `μ`, then after the model's update the row sums of the
symmetric matrix under the new weights lie in `[μ/(1+δ), μ/(1−δ)]`. -/
theorem model_final_step_bound (n : Nat) (l : List (WPx Rat)) (hl : ∀ p ∈ l, p.i < n ∧ p.j < n)
    (hd : ∀ p ∈ l, p.i = p.j → p.w = 0) (hnn : ∀ p ∈ l, 0 ≤ p.w)
    (b : List Rat) (hbl : b.length = n) (hb : ∀ i, 0 ≤ b.getD i 0)
    (μ δ : Rat) (hμ : 0 < μ) (hδ0 : 0 ≤ δ) (hδ1 : δ < 1)
    (hclose : ∀ k, k < n → (margVec n l b).getD k 0 ≠ 0 → |(margVec n l b).getD k 0 - μ| ≤ δ * μ)
    (k : Nat) (hk : k < n) (hk0 : (margVec n l b).getD k 0 ≠ 0) :
    μ / (1 + δ) ≤ rowsumAt n (timesOuter (fun i => (applyUpdate b 0 (margVec n l b) μ).getD i 0) l) k ∧
    rowsumAt n (timesOuter (fun i => (applyUpdate b 0 (margVec n l b) μ).getD i 0) l) k ≤ μ / (1 - δ) := by
  set A : Fin n → Fin n → Rat := fun i j => symmAt l i j with hA
  set bF : Fin n → Rat := fun i => b.getD i 0 with hbF
  have hm : ∀ j : Fin n, (margVec n l b).getD j 0 = marg A bF j := fun j => by
    rw [getD_margVec n l b j j.2]; exact model_marg_eq_dense n l hl hd (fun i => b.getD i 0) j
  have hclose' : ∀ i : Fin n, marg A bF i ≠ 0 → |marg A bF i - μ| ≤ δ * μ := by
    intro i hi
    rw [← hm i] at hi ⊢
    exact hclose i i.2 hi
  have hk0' : marg A bF ⟨k, hk⟩ ≠ 0 := by rw [← hm ⟨k, hk⟩]; exact hk0
  have main := final_step_bound A (fun i j => symmAt_nonneg l hnn i j) (fun i j => symmAt_symm l i j) bF
    (fun i => hb i) μ δ hμ hδ0 hδ1 hclose' ⟨k, hk⟩ hk0'
  -- the row sums under the new weights are the dense marginal under `upd`
  have hl' : ∀ p ∈ timesOuter (fun i => (applyUpdate b 0 (margVec n l b) μ).getD i 0) l, p.i < n ∧ p.j < n := by
    intro p hp
    obtain ⟨q, hq, rfl⟩ := List.mem_map.mp hp
    exact hl q hq
  have hd' : ∀ p ∈ timesOuter (fun i => (applyUpdate b 0 (margVec n l b) μ).getD i 0) l, p.i = p.j → p.w = 0 := by
    intro p hp hij
    obtain ⟨q, hq, rfl⟩ := List.mem_map.mp hp
    have : q.w = 0 := hd q hq hij
    simp [this]
  have hrow : rowsumAt n (timesOuter (fun i => (applyUpdate b 0 (margVec n l b) μ).getD i 0) l) k
      = marg A (upd A bF μ) ⟨k, hk⟩ := by
    rw [← marginalize_eq_rowsum n _ hl' hd' k]
    have := model_marg_eq_dense n l hl hd (fun i => (applyUpdate b 0 (margVec n l b) μ).getD i 0) ⟨k, hk⟩
    simp only at this
    rw [this]
    congr 1
    funext i
    exact applyUpdate_eq_upd n l hl hd b hbl μ i
  rw [hrow]
  exact main

/-- **A sweep of the model that reports `var < tol` leaves flat row sums** (genome-wide functional,
empty main diagonal): with `m` the model's marginal vector for weights `b`, `μ = mean` and
`var = variance` of its non-zero entries (`N` of them), `var < tol`, and any `0 ≤ δ < 1` with
`tol·N ≤ δ²μ²`, the row sums of the filtered symmetric matrix under the weights the model returns
(before the division by `√scale`) lie in `[μ/(1+δ), μ/(1−δ)]` for every bin with a non-zero marginal. -/
theorem model_converged_bound (n : Nat) (l : List (WPx Rat)) (hl : ∀ p ∈ l, p.i < n ∧ p.j < n)
    (hd : ∀ p ∈ l, p.i = p.j → p.w = 0) (hnn : ∀ p ∈ l, 0 ≤ p.w)
    (b : List Rat) (hbl : b.length = n) (hb : ∀ i, 0 ≤ b.getD i 0) (tol δ : Rat)
    (hne : (margVec n l b).filter (fun x => decide (x ≠ 0)) ≠ [])
    (hvar : IC.variance ((margVec n l b).filter (fun x => decide (x ≠ 0))) < tol)
    (hδ0 : 0 ≤ δ) (hδ1 : δ < 1)
    (hδ : tol * (((margVec n l b).filter (fun x => decide (x ≠ 0))).length : Rat)
      ≤ δ ^ 2 * (IC.mean ((margVec n l b).filter (fun x => decide (x ≠ 0)))) ^ 2)
    (k : Nat) (hk : k < n) (hk0 : (margVec n l b).getD k 0 ≠ 0) :
    let μ := IC.mean ((margVec n l b).filter (fun x => decide (x ≠ 0)))
    μ / (1 + δ) ≤ rowsumAt n (timesOuter (fun i => (applyUpdate b 0 (margVec n l b) μ).getD i 0) l) k ∧
    rowsumAt n (timesOuter (fun i => (applyUpdate b 0 (margVec n l b) μ).getD i 0) l) k ≤ μ / (1 - δ) := by
  intro μ
  have hmnn : ∀ x ∈ margVec n l b, 0 ≤ x := margVec_nonneg n l hnn b hb
  have hpos : ∀ x ∈ (margVec n l b).filter (fun x => decide (x ≠ 0)), 0 < x := by
    intro x hx
    have h1 := List.mem_filter.mp hx
    have h2 : x ≠ 0 := by simpa using h1.2
    exact lt_of_le_of_ne (hmnn x h1.1) (Ne.symm h2)
  have hμ : 0 < μ := mean_pos _ hne hpos
  have hclose : ∀ j, j < n → (margVec n l b).getD j 0 ≠ 0 → |(margVec n l b).getD j 0 - μ| ≤ δ * μ := by
    intro j hj hj0
    apply list_variance_gives_delta _ tol δ hne hvar hδ0 (le_of_lt hμ) hδ
    apply List.mem_filter.mpr
    constructor
    · have hlen : (margVec n l b).length = n := by unfold margVec; simp
      rw [List.getD_eq_getElem?_getD, List.getElem?_eq_getElem (by rw [hlen]; exact hj)]
      exact List.getElem_mem _
    · simpa using hj0
  exact model_final_step_bound n l hl hd hnn b hbl hb μ δ hμ hδ0 hδ1 hclose k hk hk0

/-! ## `mask_iff` through the whole model for trans-only and cis-only; the cis-only bound

`balance_trans_mask_iff`, `balance_cis_mask_iff` unfold `balance` (the `cweights`, resp. the `foldl`
over chromosomes — `cis_fold_mask`) as `balance_genome_mask_iff` does, and also give positivity of every
other weight.  `model_converged_bound_cis` is the per-chromosome version of `model_converged_bound`
on the executable sweep (slice `[lo, hi)` of the marginal, update of the slice), for block data;
`cis_data_inBlock` / `cis_data_props` show that the data the cis-only branch sweeps is such a block, and
`model_converged_bound_cis_data` states the bound on exactly that data. -/

theorem pixelsOf_nonneg (ps : Pixels) (hps : ∀ p ∈ ps, 0 ≤ p.v) : ∀ p ∈ pixelsOf ps, 0 ≤ p.w := by
  intro p hp
  unfold pixelsOf at hp
  obtain ⟨q, hq, rfl⟩ := List.mem_map.mp hp
  show (0 : Rat) ≤ ((q.v : Int) : Rat)
  exact_mod_cast hps q hq

theorem initBias_length (n : Nat) (x0 : Option (List (Option Rat))) : (initBias n x0).length = n := by
  unfold initBias; split <;> simp

theorem maskedBias_length (n : Nat) (o : Opts) (m : Masks) : (maskedBias n o m).length = n := by
  unfold maskedBias; rw [List.length_mapIdx, initBias_length]

theorem maskedBias_nonneg (n : Nat) (o : Opts) (m : Masks) (hx0 : ∀ i, 0 ≤ (initBias n o.x0).getD i 0) :
    ∀ j, 0 ≤ (maskedBias n o m).getD j 0 := by
  intro j
  unfold maskedBias
  rw [List.getD_eq_getElem?_getD, List.getElem?_mapIdx]
  have := hx0 j
  rw [List.getD_eq_getElem?_getD] at this
  cases hj : (initBias n o.x0)[j]? with
  | none => simp
  | some x =>
    rw [hj] at this
    simp only [Option.map_some, Option.getD_some]
    split
    · exact le_refl 0
    · simpa using this

theorem slice_full {β : Type} (v : List β) (n : Nat) (h : v.length = n) : slice v 0 n = v := by
  unfold slice
  rw [List.drop_zero, Nat.sub_zero, List.take_of_length_le (by rw [h])]

theorem margVec_length (n : Nat) (l : List (WPx Rat)) (b : List Rat) : (margVec n l b).length = n := by
  unfold margVec; simp

/-- the chromosome weights are non-negative when no chromosome is longer than the genome -/
theorem cweights_nonneg (n : Nat) (offs : List Nat) (hoffs : ∀ lh ∈ offs.zip offs.tail, lh.2 - lh.1 ≤ n) :
    ∀ i, 0 ≤ (cweights n offs).getD i 0 := by
  intro i
  apply getD_nonneg_of_forall
  intro x hx
  unfold cweights at hx
  obtain ⟨lh, hlh, hx⟩ := List.mem_flatMap.mp hx
  have := List.eq_of_mem_replicate hx
  rw [this]
  apply div_nonneg (by norm_num)
  have hle := hoffs lh hlh
  by_cases hn : n = 0
  · subst hn; simp
  · have hnpos : (0 : Rat) < (n : Rat) := by exact_mod_cast Nat.pos_of_ne_zero hn
    rw [sub_nonneg, div_le_one hnpos]
    exact_mod_cast hle

/-- **`mask_iff` for the trans-only model run**: bin `i` carries NaN iff a documented bin-level filter
excludes it or the inter-chromosomal matrix has no non-zero (chromosome-weighted) marginal. -/
theorem balance_trans_mask_iff (n : Nat) (offs : List Nat) (ps : Pixels) (o : Opts) (r : Result)
    (hmode : o.mode = .trans) (hps : ∀ p ∈ ps, 0 ≤ p.v) (hx0 : ∀ i, 0 ≤ (initBias n o.x0).getD i 0)
    (hoffs : ∀ lh ∈ offs.zip offs.tail, lh.2 - lh.1 ≤ n)
    (h : balance n offs ps o = .ok r) (i : Nat) (hi : i < n) :
    (r.bias[i]? = some none ↔
      ((computeMasks marginalizeAt n offs (pixelsOf ps) o).excluded i = true ∨
        ∀ x ∈ margVec n (sweepFilter o offs (pixelsOf ps))
          (mulVec (maskedBias n o (computeMasks marginalizeAt n offs (pixelsOf ps) o)) (cweights n offs)), x = 0)) ∧
    (∀ x, r.bias[i]? = some (some x) → 0 < x) := by
  unfold balance at h
  split at h
  · exact absurd h (by simp)
  · rename_i hk
    split at h
    · exact absurd h (by simp)
    · simp only [hmode] at h
      obtain ⟨k, hk'⟩ : ∃ k, o.maxIters = k + 1 := ⟨o.maxIters - 1, by omega⟩
      have hlf := filters_nonneg o offs (pixelsOf ps) (pixelsOf_nonneg ps hps)
      set masks := computeMasks marginalizeAt n offs (pixelsOf ps) o with hmasks
      set b0 := maskedBias n o masks with hb0
      have hb0len : b0.length = n := maskedBias_length n o masks
      have hb0nn : ∀ j, 0 ≤ b0.getD j 0 := maskedBias_nonneg n o masks hx0
      have hcw := cweights_nonneg n offs hoffs
      have hmarg : ∀ b : List Rat, (∀ i, 0 ≤ b.getD i 0) →
          ∀ x ∈ margVec n (sweepFilter o offs (pixelsOf ps)) (mulVec b (cweights n offs)), 0 ≤ x :=
        fun b hb => margVec_nonneg n _ hlf _ (fun j => by rw [getD_mulVec]; exact mul_nonneg (hb j) (hcw j))
      have hpat := margVec_pattern n (sweepFilter o offs (pixelsOf ps)) hlf (some (cweights n offs))
        (fun c hc => by injection hc with hc; rw [← hc]; exact hcw) 0 n
      simp only at hpat
      injection h with h
      rw [← h]
      simp only
      rw [hk']
      constructor
      · have hmain := mask_iff (fun b => margVec n (sweepFilter o offs (pixelsOf ps)) (mulVec b (cweights n offs)))
          0 n o.tol hmarg hpat k b0 hb0nn (b0.map some) i ⟨Nat.zero_le _, hi⟩
          (by rw [List.length_map, hb0len]; exact hi)
        rw [hmain, maskedBias_zero_iff n o offs (pixelsOf ps) marginalizeAt i hi]
        apply or_congr Iff.rfl
        rw [slice_full _ n (margVec_length _ _ _)]
      · intro x hx
        exact others_positive (fun b => margVec n (sweepFilter o offs (pixelsOf ps)) (mulVec b (cweights n offs)))
          0 n o.tol hmarg (k + 1) b0 hb0nn (b0.map some) i x ⟨Nat.zero_le _, hi⟩ hx

/-- one step of the cis-only fold of `balance` (the body of its `step`) -/
def cisStep (n : Nat) (lf : List (WPx Rat)) (tol : Rat) (k : Nat)
    (st : List Rat × List (Option Rat) × List LoopOut) (lh : Nat × Nat) :
    List Rat × List (Option Rat) × List LoopOut :=
  let lc := lf.filter fun p => decide (lh.1 ≤ p.i ∧ p.i < lh.2)
  let out := icLoop (margVec n lc) lh.1 lh.2 tol k st.1 0 []
  (out.bias, markNaN lh.1 lh.2 out st.2.1, st.2.2 ++ [out])

theorem markNaN_length (lo hi : Nat) (out : LoopOut) (acc : List (Option Rat)) :
    (markNaN lo hi out acc).length = acc.length := by
  unfold markNaN; rw [List.length_mapIdx]

theorem markNaN_outside (lo hi : Nat) (out : LoopOut) (acc : List (Option Rat)) (i : Nat)
    (h : ¬ (lo ≤ i ∧ i < hi)) : (markNaN lo hi out acc)[i]? = acc[i]? := by
  unfold markNaN
  rw [List.getElem?_mapIdx]
  cases acc[i]? with
  | none => rfl
  | some x => simp [h]

theorem cis_fold_untouched (n : Nat) (lf : List (WPx Rat)) (tol : Rat) (k : Nat) (i : Nat) :
    ∀ (doms : List (Nat × Nat)) (st : List Rat × List (Option Rat) × List LoopOut),
      (∀ lh ∈ doms, ¬ (lh.1 ≤ i ∧ i < lh.2)) →
      (doms.foldl (cisStep n lf tol k) st).2.1[i]? = st.2.1[i]? := by
  intro doms
  induction doms with
  | nil => intro st _; rfl
  | cons d rest ih =>
    intro st h
    rw [List.foldl_cons, ih _ (fun lh hlh => h lh (List.mem_cons_of_mem d hlh))]
    show (markNaN d.1 d.2 _ st.2.1)[i]? = _
    exact markNaN_outside _ _ _ _ _ (h d List.mem_cons_self)

theorem filter_nonneg (l : List (WPx Rat)) (hl : ∀ p ∈ l, 0 ≤ p.w) (f : WPx Rat → Bool) :
    ∀ p ∈ l.filter f, 0 ≤ p.w := fun p hp => hl p (List.mem_filter.mp hp).1

/-- the fold over chromosomes: the bin `i` of chromosome `lh` ends up NaN iff it was masked before the
sweeps or the chromosome has no non-zero marginal; otherwise its weight is positive -/
theorem cis_fold_mask (n : Nat) (lf : List (WPx Rat)) (hlf : ∀ p ∈ lf, 0 ≤ p.w) (tol : Rat) (k : Nat)
    (b0 : List Rat) (i : Nat) :
    ∀ (doms : List (Nat × Nat)) (st : List Rat × List (Option Rat) × List LoopOut),
      doms.Pairwise (fun a b => a.2 ≤ b.1) →
      (∀ j, 0 ≤ st.1.getD j 0) → (∀ j, st.1.getD j 0 = 0 ↔ b0.getD j 0 = 0) → (∀ j, 0 ≤ b0.getD j 0) →
      ∀ lh ∈ doms, (lh.1 ≤ i ∧ i < lh.2) → i < st.2.1.length →
      (((doms.foldl (cisStep n lf tol (k + 1)) st).2.1[i]? = some none ↔
        (b0.getD i 0 = 0 ∨ ∀ x ∈ slice (margVec n (lf.filter fun p => decide (lh.1 ≤ p.i ∧ p.i < lh.2)) b0) lh.1 lh.2,
          x = 0)) ∧
       (∀ x, (doms.foldl (cisStep n lf tol (k + 1)) st).2.1[i]? = some (some x) → 0 < x)) := by
  intro doms
  induction doms with
  | nil => intro st _ _ _ _ lh hlh; exact absurd hlh (by simp)
  | cons d rest ih =>
    intro st hpw hnn hz hb0 lh hlh hin hlen
    rw [List.foldl_cons]
    obtain ⟨hd, hrest⟩ := List.pairwise_cons.mp hpw
    have hmargC : ∀ b : List Rat, (∀ j, 0 ≤ b.getD j 0) →
        ∀ x ∈ margVec n (lf.filter fun p => decide (d.1 ≤ p.i ∧ p.i < d.2)) b, 0 ≤ x :=
      fun b hb => margVec_nonneg n _ (filter_nonneg lf hlf _) b hb
    have hinv := icLoop_invariant (margVec n (lf.filter fun p => decide (d.1 ≤ p.i ∧ p.i < d.2))) d.1 d.2 tol hmargC
      (k + 1) st.1 0 [] hnn
    rcases List.mem_cons.mp hlh with heq | hmem
    · subst heq
      have hun : ∀ lh' ∈ rest, ¬ (lh'.1 ≤ i ∧ i < lh'.2) := by
        intro lh' h' hc
        have := hd lh' h'
        omega
      rw [cis_fold_untouched n lf tol (k + 1) i rest _ hun]
      have hpat := margVec_pattern n (lf.filter fun p => decide (lh.1 ≤ p.i ∧ p.i < lh.2)) (filter_nonneg lf hlf _)
        none (fun c hc => by simp at hc) lh.1 lh.2
      simp only at hpat
      constructor
      · show (markNaN lh.1 lh.2 (icLoop (margVec n (lf.filter fun p => decide (lh.1 ≤ p.i ∧ p.i < lh.2))) lh.1 lh.2 tol
            (k + 1) st.1 0 []) st.2.1)[i]? = some none ↔ _
        rw [mask_iff _ lh.1 lh.2 tol hmargC hpat k st.1 hnn st.2.1 i hin hlen, hz i, hpat b0 st.1 hb0 hnn hz]
      · intro x hx
        exact others_positive _ lh.1 lh.2 tol hmargC (k + 1) st.1 hnn st.2.1 i x hin hx
    · apply ih (cisStep n lf tol (k + 1) st d) hrest
      · exact hinv.1
      · intro j; exact (hinv.2 j).trans (hz j)
      · exact hb0
      · exact hmem
      · exact hin
      · show i < (markNaN d.1 d.2 _ st.2.1).length
        rw [markNaN_length]; exact hlen

/-- consecutive pairs of a sorted offset list are ordered, disjoint intervals -/
theorem zip_tail_pairwise : ∀ (l : List Nat), l.Pairwise (· ≤ ·) →
    (l.zip l.tail).Pairwise (fun a b => a.2 ≤ b.1)
  | [], _ => by simp
  | [_], _ => by simp
  | x :: y :: t, h => by
    have hyt : (y :: t).Pairwise (· ≤ ·) := (List.pairwise_cons.mp h).2
    show ((x, y) :: (y :: t).zip t).Pairwise _
    rw [List.pairwise_cons]
    refine ⟨?_, zip_tail_pairwise (y :: t) hyt⟩
    intro b hb
    have hb1 : b.1 ∈ y :: t := (List.of_mem_zip hb).1
    rcases List.mem_cons.mp hb1 with e | e
    · rw [e]
    · exact (List.pairwise_cons.mp hyt).1 _ e

/-- **`mask_iff` for the cis-only model run**: for a bin `i` of the chromosome `[lo, hi)`, the final
weight is NaN iff a documented bin-level filter excludes the bin or the chromosome has no non-zero
intra-chromosomal marginal; every other weight is positive. -/
theorem balance_cis_mask_iff (n : Nat) (offs : List Nat) (ps : Pixels) (o : Opts) (r : Result)
    (hmode : o.mode = .cis) (hps : ∀ p ∈ ps, 0 ≤ p.v) (hx0 : ∀ i, 0 ≤ (initBias n o.x0).getD i 0)
    (hsorted : offs.Pairwise (· ≤ ·))
    (h : balance n offs ps o = .ok r) (lh : Nat × Nat) (hlh : lh ∈ offs.zip offs.tail)
    (i : Nat) (hin : lh.1 ≤ i ∧ i < lh.2) (hi : i < n) :
    (r.bias[i]? = some none ↔
      ((computeMasks marginalizeAt n offs (pixelsOf ps) o).excluded i = true ∨
        ∀ x ∈ slice (margVec n ((sweepFilter o offs (pixelsOf ps)).filter fun p => decide (lh.1 ≤ p.i ∧ p.i < lh.2))
          (maskedBias n o (computeMasks marginalizeAt n offs (pixelsOf ps) o))) lh.1 lh.2, x = 0)) ∧
    (∀ x, r.bias[i]? = some (some x) → 0 < x) := by
  unfold balance at h
  split at h
  · exact absurd h (by simp)
  · rename_i hk
    simp only [hmode] at h
    obtain ⟨k, hk'⟩ : ∃ k, o.maxIters = k + 1 := ⟨o.maxIters - 1, by omega⟩
    have hlf := filters_nonneg o offs (pixelsOf ps) (pixelsOf_nonneg ps hps)
    set masks := computeMasks marginalizeAt n offs (pixelsOf ps) o with hmasks
    set b0 := maskedBias n o masks with hb0
    have hb0len : b0.length = n := maskedBias_length n o masks
    have hb0nn : ∀ j, 0 ≤ b0.getD j 0 := maskedBias_nonneg n o masks hx0
    injection h with h
    rw [← h]
    simp only
    rw [hk']
    have hmain := cis_fold_mask n (sweepFilter o offs (pixelsOf ps)) hlf o.tol k b0 i (offs.zip offs.tail)
      (b0, b0.map some, []) (zip_tail_pairwise offs hsorted) hb0nn (fun j => Iff.rfl) hb0nn lh hlh hin
      (by show i < (b0.map some).length; rw [List.length_map, hb0len]; exact hi)
    rw [← maskedBias_zero_iff n o offs (pixelsOf ps) marginalizeAt i hi]
    exact hmain

/-- pixel data of one chromosome block `[lo, hi)`: every non-zero pixel has both ends inside -/
def InBlock (lc : List (WPx Rat)) (lo hi : Nat) : Prop :=
  ∀ p ∈ lc, p.w ≠ 0 → lo ≤ p.i ∧ p.i < hi ∧ lo ≤ p.j ∧ p.j < hi

theorem marg_zero_outside (lc : List (WPx Rat)) (lo hi : Nat) (hblk : InBlock lc lo hi) (w : Nat → Rat)
    (k : Nat) (hk : k < lo ∨ hi ≤ k) : marginalizeAt (timesOuter w lc) k = 0 := by
  have hb : ∀ sel : WPx Rat → Nat, (∀ p : WPx Rat, sel p = p.i ∨ sel p = p.j) →
      (∀ q : WPx Rat, ∀ v : Rat, sel { q with w := v } = sel q) →
      bincountAt sel (timesOuter w lc) k = 0 := by
    intro sel hsel hsel'
    unfold bincountAt
    apply List.sum_eq_zero
    intro y hy
    obtain ⟨p, hp, rfl⟩ := List.mem_map.mp hy
    unfold timesOuter at hp
    obtain ⟨q, hq, rfl⟩ := List.mem_map.mp hp
    rw [hsel']
    split
    · rename_i hs
      by_cases hw : q.w = 0
      · simp [hw]
      · have := hblk q hq hw
        rcases hsel q with e | e <;> (rw [e] at hs; omega)
    · rfl
  unfold marginalizeAt
  rw [hb (·.i) (fun _ => Or.inl rfl) (fun _ _ => rfl), hb (·.j) (fun _ => Or.inr rfl) (fun _ _ => rfl), add_zero]

theorem slice_length {β : Type} (v : List β) (lo hi : Nat) (hhi : hi ≤ v.length) :
    (slice v lo hi).length = hi - lo := by
  unfold slice
  rw [List.length_take, List.length_drop]
  omega

theorem slice_getElem? {β : Type} (v : List β) (lo hi k : Nat) (hk : k < hi - lo) :
    (slice v lo hi)[k]? = v[lo + k]? := by
  unfold slice
  rw [List.getElem?_take, if_pos hk, List.getElem?_drop]

/-- if a vector vanishes outside `[lo, hi)`, its non-zero entries are those of the slice -/
theorem filter_slice_eq (v : List Rat) (lo hi : Nat) (hlh : lo ≤ hi)
    (hz : ∀ k, (k < lo ∨ hi ≤ k) → v.getD k 0 = 0) :
    (slice v lo hi).filter (fun x => decide (x ≠ 0)) = v.filter (fun x => decide (x ≠ 0)) := by
  have hsplit : v = v.take lo ++ (slice v lo hi ++ v.drop hi) := by
    unfold slice
    have h1 : (v.drop lo).drop (hi - lo) = v.drop hi := by
      rw [List.drop_drop]; congr 1; omega
    rw [← h1, List.take_append_drop, List.take_append_drop]
  have hnil : ∀ l : List Rat, (∀ x ∈ l, x = 0) → l.filter (fun x => decide (x ≠ 0)) = [] := by
    intro l hl
    rw [List.filter_eq_nil_iff]
    intro x hx
    simp [hl x hx]
  have h1 : ∀ x ∈ v.take lo, x = 0 := by
    intro x hx
    obtain ⟨k, hk, rfl⟩ := List.mem_iff_getElem.mp hx
    rw [List.length_take] at hk
    rw [List.getElem_take]
    have := hz k (Or.inl (by omega))
    rw [List.getD_eq_getElem?_getD, List.getElem?_eq_getElem (by omega)] at this
    simpa using this
  have h2 : ∀ x ∈ v.drop hi, x = 0 := by
    intro x hx
    obtain ⟨k, hk, rfl⟩ := List.mem_iff_getElem.mp hx
    rw [List.length_drop] at hk
    rw [List.getElem_drop]
    have := hz (hi + k) (Or.inr (by omega))
    rw [List.getD_eq_getElem?_getD, List.getElem?_eq_getElem (by omega)] at this
    simpa using this
  conv_rhs => rw [hsplit]
  rw [List.filter_append, List.filter_append, hnil _ h1, hnil _ h2, List.nil_append, List.append_nil]

/-- updating the slice `[lo, hi)` with the sliced marginal is updating everything with the full
marginal, when the marginal vanishes outside the slice (divisor 1 there) -/
theorem applyUpdate_slice_eq (b v : List Rat) (n lo hi : Nat) (hb : b.length = n) (hv : v.length = n)
    (hlh : lo ≤ hi) (hhi : hi ≤ n) (hz : ∀ k, (k < lo ∨ hi ≤ k) → v.getD k 0 = 0) (μ : Rat) (i : Nat) :
    (applyUpdate b lo (slice v lo hi) μ).getD i 0 = (applyUpdate b 0 v μ).getD i 0 := by
  unfold applyUpdate
  rw [List.getD_eq_getElem?_getD, List.getD_eq_getElem?_getD, List.getElem?_mapIdx, List.getElem?_mapIdx]
  cases hbi : b[i]? with
  | none => rfl
  | some x =>
    have hin : i < n := by
      rw [← hb]
      by_contra hc
      rw [List.getElem?_eq_none (by omega)] at hbi
      exact absurd hbi (by simp)
    simp only [Option.map_some, Option.getD_some, slice_length v lo hi (by rw [hv]; exact hhi), hv,
      Nat.zero_le, true_and, Nat.zero_add, hin, if_true, Nat.sub_zero]
    by_cases hc : lo ≤ i ∧ i < lo + (hi - lo)
    · rw [if_pos hc]
      have : (slice v lo hi).getD (i - lo) 0 = v.getD i 0 := by
        rw [List.getD_eq_getElem?_getD, List.getD_eq_getElem?_getD, slice_getElem? v lo hi (i - lo) (by omega)]
        congr 2; omega
      rw [this]
    · rw [if_neg hc]
      have : v.getD i 0 = 0 := hz i (by omega)
      rw [this]
      simp [divisor]

/-- **A cis-only sweep of the model that reports `var < tol` leaves flat row sums on the chromosome**
(the per-chromosome body of `balance` in cis-only mode, on data `lc` whose non-zero pixels lie inside
the chromosome block `[lo, hi)` and whose main diagonal is empty).  With `m` the slice `[lo, hi)` of
the model's marginal for weights `b`, `μ = mean` (the chromosome's `scale`) and `var = variance` of its
`N` non-zero entries, `var < tol` and any `0 ≤ δ < 1` with `tol·N ≤ δ²μ²`: after the model's update of
the slice, every bin of the chromosome that had a non-zero marginal has intra-chromosomal row sum in
`[μ/(1+δ), μ/(1−δ)]`. -/
theorem model_converged_bound_cis (n : Nat) (lc : List (WPx Rat)) (hl : ∀ p ∈ lc, p.i < n ∧ p.j < n)
    (hd : ∀ p ∈ lc, p.i = p.j → p.w = 0) (hnn : ∀ p ∈ lc, 0 ≤ p.w)
    (lo hi : Nat) (hlh : lo ≤ hi) (hhi : hi ≤ n) (hblk : InBlock lc lo hi)
    (b : List Rat) (hbl : b.length = n) (hb : ∀ i, 0 ≤ b.getD i 0) (tol δ : Rat)
    (hne : (slice (margVec n lc b) lo hi).filter (fun x => decide (x ≠ 0)) ≠ [])
    (hvar : IC.variance ((slice (margVec n lc b) lo hi).filter (fun x => decide (x ≠ 0))) < tol)
    (hδ0 : 0 ≤ δ) (hδ1 : δ < 1)
    (hδ : tol * (((slice (margVec n lc b) lo hi).filter (fun x => decide (x ≠ 0))).length : Rat)
      ≤ δ ^ 2 * (IC.mean ((slice (margVec n lc b) lo hi).filter (fun x => decide (x ≠ 0)))) ^ 2)
    (k : Nat) (hk : k < n) (hk0 : (margVec n lc b).getD k 0 ≠ 0) :
    let μ := IC.mean ((slice (margVec n lc b) lo hi).filter (fun x => decide (x ≠ 0)))
    μ / (1 + δ) ≤ rowsumAt n (timesOuter
        (fun i => (applyUpdate b lo (slice (margVec n lc b) lo hi) μ).getD i 0) lc) k ∧
    rowsumAt n (timesOuter
        (fun i => (applyUpdate b lo (slice (margVec n lc b) lo hi) μ).getD i 0) lc) k ≤ μ / (1 - δ) := by
  intro μ
  have hz : ∀ j, (j < lo ∨ hi ≤ j) → (margVec n lc b).getD j 0 = 0 := by
    intro j hj
    by_cases hjn : j < n
    · rw [getD_margVec n lc b j hjn]; exact marg_zero_outside lc lo hi hblk _ j hj
    · rw [List.getD_eq_getElem?_getD, List.getElem?_eq_none (by rw [margVec_length]; omega)]; rfl
  have hf := filter_slice_eq (margVec n lc b) lo hi hlh hz
  have hfun : (fun i => (applyUpdate b lo (slice (margVec n lc b) lo hi) μ).getD i 0)
      = fun i => (applyUpdate b 0 (margVec n lc b) μ).getD i 0 := by
    funext i
    exact applyUpdate_slice_eq b _ n lo hi hbl (margVec_length n lc b) hlh hhi hz μ i
  rw [hfun]
  have hμ : μ = IC.mean ((margVec n lc b).filter (fun x => decide (x ≠ 0))) := by
    show IC.mean _ = _; rw [hf]
  rw [hμ]
  rw [hf] at hne hvar hδ
  exact model_converged_bound n lc hl hd hnn b hbl hb tol δ hne hvar hδ0 hδ1 hδ k hk hk0

/-- weights outside the block do not enter the block's row sums: later chromosomes' sweeps do not
disturb the flatness reached on this one -/
theorem timesOuter_block_congr (lc : List (WPx Rat)) (lo hi : Nat) (hblk : InBlock lc lo hi) (w w' : Nat → Rat)
    (hww : ∀ j, lo ≤ j → j < hi → w' j = w j) : timesOuter w' lc = timesOuter w lc := by
  unfold timesOuter
  apply List.map_congr_left
  intro p hp
  by_cases hw : p.w = 0
  · simp [hw]
  · obtain ⟨h1, h2, h3, h4⟩ := hblk p hp hw
    rw [hww p.i h1 h2, hww p.j h3 h4]

theorem countP_lt_of_witness {β : Type} (p q : β → Bool) :
    ∀ (l : List β), (∀ x ∈ l, p x = true → q x = true) → (∃ x ∈ l, p x = false ∧ q x = true) →
      l.countP p < l.countP q
  | [], _, h => by obtain ⟨x, hx, _⟩ := h; exact absurd hx (by simp)
  | a :: t, himp, hw => by
    have hle : t.countP p ≤ t.countP q :=
      List.countP_mono_left (fun x hx => himp x (List.mem_cons_of_mem a hx))
    rw [List.countP_cons, List.countP_cons]
    obtain ⟨x, hx, hpx, hqx⟩ := hw
    rcases List.mem_cons.mp hx with e | e
    · subst e
      simp only [hpx, hqx, Bool.false_eq_true, if_false, if_true]
      omega
    · have := countP_lt_of_witness p q t (fun y hy => himp y (List.mem_cons_of_mem a hy)) ⟨x, e, hpx, hqx⟩
      by_cases hpa : p a = true
      · have hqa := himp a List.mem_cons_self hpa
        simp only [hpa, hqa, if_true]; omega
      · by_cases hqa : q a = true
        · simp only [hpa, hqa, Bool.false_eq_true, if_false, if_true]; omega
        · simp only [hpa, hqa, Bool.false_eq_true, if_false]; omega

/-- an offset `c` of the table separates chromosomes: bins on different sides have different `chromOf` -/
theorem chromOf_lt_of_sep (offs : List Nat) (c a b : Nat) (hc : c ∈ offs.tail) (ha : a < c) (hb : c ≤ b) :
    chromOf offs a < chromOf offs b := by
  unfold chromOf
  apply countP_lt_of_witness
  · intro x _ hx
    simp only [decide_eq_true_eq] at hx ⊢
    omega
  · exact ⟨c, hc, by simp; omega, by simpa using hb⟩

/-- bins with the same `chromOf` as a bin of `[lo, hi)` lie in `[lo, hi)`, for a consecutive pair
`(lo, hi)` of an offset table that starts at 0 -/
theorem same_chrom_in_block (offs : List Nat) (h0 : offs.head? = some 0) (lh : Nat × Nat)
    (hlh : lh ∈ offs.zip offs.tail) (a b : Nat) (ha : lh.1 ≤ a ∧ a < lh.2)
    (hab : chromOf offs a = chromOf offs b) : lh.1 ≤ b ∧ b < lh.2 := by
  obtain ⟨hlo, hhi⟩ := List.of_mem_zip hlh
  constructor
  · by_contra hc
    have hlt : b < lh.1 := by omega
    cases offs with
    | nil => simp at hlo
    | cons x t =>
      simp only [List.head?_cons, Option.some.injEq] at h0
      rcases List.mem_cons.mp hlo with e | e
      · omega
      · have := chromOf_lt_of_sep (x :: t) lh.1 b a e hlt ha.1
        omega
  · by_contra hc
    have := chromOf_lt_of_sep offs lh.2 a b hhi ha.2 (by omega)
    omega

theorem zeroTrans_chrom (offs : List Nat) (l : List (WPx Rat)) :
    ∀ p ∈ zeroTrans offs l, p.w ≠ 0 → chromOf offs p.i = chromOf offs p.j := by
  intro p hp hw
  unfold zeroTrans at hp
  obtain ⟨q, _, rfl⟩ := List.mem_map.mp hp
  by_cases h : chromOf offs q.i ≠ chromOf offs q.j
  · simp [h] at hw
  · simp only [h, if_false]
    exact not_not.mp h

theorem zeroDiags_mem (d : Nat) (l : List (WPx Rat)) : ∀ p ∈ zeroDiags d l, p.w ≠ 0 → p ∈ l := by
  intro p hp hw
  unfold zeroDiags at hp
  obtain ⟨q, hq, rfl⟩ := List.mem_map.mp hp
  by_cases h : absDiff q.i q.j < d
  · simp [h] at hw
  · simp only [h, if_false]; exact hq

/-- **The data the model sweeps for one chromosome in cis-only mode is a block**: every non-zero
pixel of `(sweepFilter …).filter (lo ≤ bin1 < hi)` has both ends in `[lo, hi)`. -/
theorem cis_data_inBlock (o : Opts) (hmode : o.mode = .cis) (offs : List Nat) (h0 : offs.head? = some 0)
    (l : List (WPx Rat)) (lh : Nat × Nat) (hlh : lh ∈ offs.zip offs.tail) :
    InBlock ((sweepFilter o offs l).filter fun p => decide (lh.1 ≤ p.i ∧ p.i < lh.2)) lh.1 lh.2 := by
  intro p hp hw
  obtain ⟨hp1, hp2⟩ := List.mem_filter.mp hp
  have hin : lh.1 ≤ p.i ∧ p.i < lh.2 := by simpa using hp2
  have hchrom : chromOf offs p.i = chromOf offs p.j := by
    unfold sweepFilter baseFilter at hp1
    simp only [hmode, if_true] at hp1
    have hnt : ¬ (Mode.cis = Mode.trans) := by decide
    simp only [hnt, if_false] at hp1
    split at hp1
    · exact zeroTrans_chrom offs l p (zeroDiags_mem _ _ p hp1 hw) hw
    · exact zeroTrans_chrom offs l p hp1 hw
  have := same_chrom_in_block offs h0 lh hlh p.i p.j hin hchrom
  exact ⟨hin.1, hin.2, this.1, this.2⟩

/-- the data of one chromosome's cis-only sweep satisfies every hypothesis of
`model_converged_bound_cis` when `ignore_diags ≥ 1` -/
theorem cis_data_props (o : Opts) (hmode : o.mode = .cis) (hd1 : 1 ≤ o.ignoreDiags) (offs : List Nat)
    (h0 : offs.head? = some 0) (n : Nat) (l : List (WPx Rat)) (hl : ∀ p ∈ l, p.i < n ∧ p.j < n)
    (hnn : ∀ p ∈ l, 0 ≤ p.w) (lh : Nat × Nat) (hlh : lh ∈ offs.zip offs.tail) :
    let lc := (sweepFilter o offs l).filter fun p => decide (lh.1 ≤ p.i ∧ p.i < lh.2)
    (∀ p ∈ lc, p.i < n ∧ p.j < n) ∧ (∀ p ∈ lc, p.i = p.j → p.w = 0) ∧ (∀ p ∈ lc, 0 ≤ p.w) ∧
      InBlock lc lh.1 lh.2 := by
  intro lc
  have hsw : sweepFilter o offs l = baseFilter o offs l := by
    unfold sweepFilter; rw [hmode]; simp
  have hbp := baseFilter_props o hd1 offs n l hl
  refine ⟨?_, ?_, ?_, cis_data_inBlock o hmode offs h0 l lh hlh⟩
  · intro p hp
    have := (List.mem_filter.mp hp).1
    rw [hsw] at this
    exact hbp.1 p this
  · intro p hp
    have := (List.mem_filter.mp hp).1
    rw [hsw] at this
    exact hbp.2 p this
  · exact filter_nonneg _ (filters_nonneg o offs l hnn) _

/-- **cis-only, on the model's own data**: the statement of `model_converged_bound_cis` for the pixel
list the cis-only branch of `balance` sweeps for the chromosome `lh = (lo, hi)` (options with
`ignore_diags ≥ 1`, offset table starting at 0, chromosome inside `[0, n)`). -/
theorem model_converged_bound_cis_data (o : Opts) (hmode : o.mode = .cis) (hd1 : 1 ≤ o.ignoreDiags)
    (offs : List Nat) (h0 : offs.head? = some 0) (n : Nat) (ps : Pixels) (hps : ∀ p ∈ ps, 0 ≤ p.v)
    (hids : ∀ p ∈ ps, p.i < n ∧ p.j < n) (lh : Nat × Nat) (hlh : lh ∈ offs.zip offs.tail)
    (hlohi : lh.1 ≤ lh.2) (hhi : lh.2 ≤ n)
    (b : List Rat) (hbl : b.length = n) (hb : ∀ i, 0 ≤ b.getD i 0) (tol δ : Rat) :
    let lc := (sweepFilter o offs (pixelsOf ps)).filter fun p => decide (lh.1 ≤ p.i ∧ p.i < lh.2)
    let m := slice (margVec n lc b) lh.1 lh.2
    let nzm := m.filter (fun x => decide (x ≠ 0))
    let μ := IC.mean nzm
    nzm ≠ [] → IC.variance nzm < tol → 0 ≤ δ → δ < 1 → tol * (nzm.length : Rat) ≤ δ ^ 2 * μ ^ 2 →
    ∀ k, k < n → (margVec n lc b).getD k 0 ≠ 0 →
      μ / (1 + δ) ≤ rowsumAt n (timesOuter (fun i => (applyUpdate b lh.1 m μ).getD i 0) lc) k ∧
      rowsumAt n (timesOuter (fun i => (applyUpdate b lh.1 m μ).getD i 0) lc) k ≤ μ / (1 - δ) := by
  intro lc m nzm μ hne hvar hδ0 hδ1 hδ k hk hk0
  have hids' : ∀ p ∈ pixelsOf ps, p.i < n ∧ p.j < n := by
    intro p hp
    unfold pixelsOf at hp
    obtain ⟨q, hq, rfl⟩ := List.mem_map.mp hp
    exact hids q hq
  obtain ⟨h1, h2, h3, h4⟩ := cis_data_props o hmode hd1 offs h0 n (pixelsOf ps) hids'
    (pixelsOf_nonneg ps hps) lh hlh
  exact model_converged_bound_cis n lc h1 h2 h3 lh.1 lh.2 hlohi hhi h4 b hbl hb tol δ hne hvar hδ0 hδ1 hδ k hk hk0

/-- companion of `balance_genome_mask_iff`: every weight of the genome-wide model run that is not NaN
is positive -/
theorem balance_genome_others_positive (n : Nat) (offs : List Nat) (ps : Pixels) (o : Opts) (r : Result)
    (hmode : o.mode = .genome) (hps : ∀ p ∈ ps, 0 ≤ p.v) (hx0 : ∀ i, 0 ≤ (initBias n o.x0).getD i 0)
    (h : balance n offs ps o = .ok r) (i : Nat) (hi : i < n) (x : Rat) (hx : r.bias[i]? = some (some x)) :
    0 < x := by
  unfold balance at h
  split at h
  · exact absurd h (by simp)
  · simp only [hmode] at h
    have hlf := filters_nonneg o offs (pixelsOf ps) (pixelsOf_nonneg ps hps)
    have hmarg : ∀ b : List Rat, (∀ i, 0 ≤ b.getD i 0) → ∀ x ∈ margVec n (sweepFilter o offs (pixelsOf ps)) b, 0 ≤ x :=
      fun b hb => margVec_nonneg n _ hlf b hb
    injection h with h
    rw [← h] at hx
    exact others_positive _ 0 n o.tol hmarg o.maxIters _
      (maskedBias_nonneg n o _ hx0) _ i x ⟨Nat.zero_le _, hi⟩ hx

end Cooler.C10
