import CoolerModel.Model.Balance
import CoolerModel.Props.C10IC
/-!
# C10 — balancing weights flatten the marginals of the filtered matrix (model-level theorems)
-/
namespace Cooler.C10
open Cooler Cooler.IC

end Cooler.C10
