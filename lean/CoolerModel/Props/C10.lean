import CoolerModel.Model.Balance
import CoolerModel.Props.C10IC
import Mathlib.Algebra.BigOperators.Group.List.Basic
import Mathlib.Algebra.Order.BigOperators.Group.List
import Mathlib.Algebra.Order.Field.Rat
import Mathlib.Tactic.NormNum
import Mathlib.Tactic.Linarith
/-!
# C10 — balancing weights flatten the marginals of the filtered matrix (model-level theorems)

Statements about the executable definitions of `Model/Balance.lean` (namespace `Cooler.IC`), which the
correspondence harness runs against `cooler.balance_cooler`.  The analytic core (`final_step_bound`,
`variance_gives_delta`, `converged_rowsums_bound`, `cis_bound`, `trans_bound_partial`, `diag_partial`)
is in `Props/C10IC.lean`.
-/
namespace Cooler.C10
open Cooler Cooler.IC

/-! ## `_marginalize` versus the row sums of the symmetric matrix -/

section marginal
variable {α : Type} [AddCommMonoid α]

/-- contribution of one pixel to entry `(a, b)` of the symmetric matrix -/
def contrib (p : WPx α) (a b : Nat) : α :=
  if (p.i = a ∧ p.j = b) ∨ (p.i = b ∧ p.j = a) then p.w else 0

theorem sum_range_ite (n c : Nat) (w : α) :
    ((List.range n).map (fun b => if b = c then w else 0)).sum = if c < n then w else 0 := by
  induction n with
  | zero => simp
  | succ n ih =>
    rw [List.range_succ, List.map_append, List.sum_append, ih]
    simp only [List.map_cons, List.map_nil, List.sum_cons, List.sum_nil, add_zero]
    by_cases h1 : c < n
    · have : n ≠ c := by omega
      simp [h1, this, show c < n + 1 by omega]
    · by_cases h2 : n = c
      · subst h2; simp
      · have : ¬ c < n + 1 := by omega
        simp [h1, h2, this]

theorem symmAt_cons (p : WPx α) (l : List (WPx α)) (a b : Nat) :
    symmAt (p :: l) a b = contrib p a b + symmAt l a b := by
  simp [symmAt, contrib]

theorem rowsumAt_cons (n : Nat) (p : WPx α) (l : List (WPx α)) (a : Nat) :
    rowsumAt n (p :: l) a = ((List.range n).map (contrib p a)).sum + rowsumAt n l a := by
  unfold rowsumAt
  rw [← List.sum_map_add]
  apply congrArg
  apply List.map_congr_left
  intro b _
  exact symmAt_cons p l a b

theorem marginalizeAt_cons (p : WPx α) (l : List (WPx α)) (a : Nat) :
    marginalizeAt (p :: l) a
      = ((if p.i = a then p.w else 0) + (if p.j = a then p.w else 0)) + marginalizeAt l a := by
  simp only [marginalizeAt, bincountAt, List.map_cons, List.sum_cons]
  exact add_add_add_comm _ _ _ _

/-- the whole row of one pixel's contributions -/
theorem sum_contrib (n : Nat) (p : WPx α) (hi : p.i < n) (hj : p.j < n) (a : Nat) :
    ((List.range n).map (contrib p a)).sum
      = if p.i = a then p.w else if p.j = a then p.w else 0 := by
  by_cases h1 : p.i = a
  · have hf : contrib p a = fun b => if b = p.j then p.w else 0 := by
      funext b; unfold contrib
      by_cases hb : b = p.j
      · subst hb; simp [h1]
      · have : ¬ ((p.i = a ∧ p.j = b) ∨ (p.i = b ∧ p.j = a)) := by
          rintro (⟨_, h⟩ | ⟨h, h'⟩)
          · exact hb h.symm
          · exact hb (by omega)
        simp [this, hb]
    rw [hf, sum_range_ite, if_pos hj, if_pos h1]
  · by_cases h2 : p.j = a
    · have hf : contrib p a = fun b => if b = p.i then p.w else 0 := by
        funext b; unfold contrib
        by_cases hb : b = p.i
        · subst hb; simp [h2]
        · have : ¬ ((p.i = a ∧ p.j = b) ∨ (p.i = b ∧ p.j = a)) := by
            rintro (⟨h, _⟩ | ⟨h, _⟩)
            · exact h1 h
            · exact hb h.symm
          simp [this, hb]
      rw [hf, sum_range_ite, if_pos hi, if_neg h1, if_pos h2]
    · have hf : contrib p a = fun _ => 0 := by
        funext b; unfold contrib
        have : ¬ ((p.i = a ∧ p.j = b) ∨ (p.i = b ∧ p.j = a)) := by
          rintro (⟨h, _⟩ | ⟨_, h⟩)
          · exact h1 h
          · exact h2 h
        simp [this]
      rw [hf, if_neg h1, if_neg h2]
      simp

/-- **What `_marginalize` computes** (formal content of finding D17): the row sum of the symmetric
matrix **plus the diagonal entry once more** — `bincount(bin1) + bincount(bin2)` sees a diagonal pixel
in both index columns.  For every list of pixels with bin ids below `n`, over any commutative monoid. -/
theorem marginalize_diag_double (n : Nat) (l : List (WPx α)) (hl : ∀ p ∈ l, p.i < n ∧ p.j < n) (a : Nat) :
    marginalizeAt l a = rowsumAt n l a + symmAt l a a := by
  induction l with
  | nil =>
    have : (List.map (symmAt ([] : List (WPx α)) a) (List.range n)).sum = 0 :=
      List.sum_eq_zero (fun x hx => by
        obtain ⟨b, _, rfl⟩ := List.mem_map.mp hx
        simp [symmAt])
    simp [marginalizeAt, bincountAt, rowsumAt, this, symmAt]
  | cons p l ih =>
    have hp := hl p List.mem_cons_self
    have ih' := ih (fun q hq => hl q (List.mem_cons_of_mem p hq))
    rw [marginalizeAt_cons, rowsumAt_cons, symmAt_cons, ih', sum_contrib n p hp.1 hp.2 a]
    have hc : contrib p a a = if p.i = a ∧ p.j = a then p.w else 0 := by
      unfold contrib; simp
    rw [hc]
    by_cases h1 : p.i = a <;> by_cases h2 : p.j = a <;> simp [h1, h2]
    · exact add_add_add_comm _ _ _ _
    · exact (add_assoc _ _ _).symm
    · exact (add_assoc _ _ _).symm

/-- **`_marginalize` = row sums when the main diagonal is empty** (`ignore_diags ≥ 1`, or no diagonal
data): for every pixel list whose diagonal pixels carry the value 0 (the filters zero, they do not
delete), `bincount(bin1, w) + bincount(bin2, w)` is the row-sum vector of the symmetric completion. -/
theorem marginalize_eq_rowsum (n : Nat) (l : List (WPx α)) (hl : ∀ p ∈ l, p.i < n ∧ p.j < n)
    (hd : ∀ p ∈ l, p.i = p.j → p.w = 0) (a : Nat) :
    marginalizeAt l a = rowsumAt n l a := by
  rw [marginalize_diag_double n l hl a]
  have : symmAt l a a = 0 := by
    unfold symmAt
    apply List.sum_eq_zero
    intro x hx
    obtain ⟨p, hp, rfl⟩ := List.mem_map.mp hx
    by_cases h : (p.i = a ∧ p.j = a) ∨ (p.i = a ∧ p.j = a)
    · rw [if_pos h]
      have : p.i = p.j := by rcases h with h | h <;> omega
      exact hd p hp this
    · rw [if_neg h]
  rw [this, add_zero]

/-- only the pixels that touch bin `a` matter for its row sum (used by the driver to evaluate row
sums of larger matrices quickly) -/
theorem rowsumTouch_eq (n : Nat) (l : List (WPx α)) (hl : ∀ p ∈ l, p.i < n ∧ p.j < n) (a : Nat) :
    rowsumAt n (l.filter fun p => p.i == a || p.j == a) a = rowsumAt n l a := by
  induction l with
  | nil => rfl
  | cons p l ih =>
    have hp := hl p List.mem_cons_self
    have ih' := ih (fun q hq => hl q (List.mem_cons_of_mem p hq))
    by_cases h : (p.i == a || p.j == a) = true
    · simp only [List.filter_cons, h, if_true]
      rw [rowsumAt_cons, rowsumAt_cons, ih']
    · simp only [List.filter_cons, h, Bool.false_eq_true, if_false]
      rw [rowsumAt_cons, ih', sum_contrib n p hp.1 hp.2 a]
      have h1 : ¬ p.i = a := by intro e; apply h; simp [e]
      have h2 : ¬ p.j = a := by intro e; apply h; simp [e]
      simp [h1, h2]

end marginal

/-- non-vacuity of `marginalize_eq_rowsum`, and the D17 witness in the integers: the pixels
`(0,0)=1, (0,1)=1, (0,2)=1, (1,2)=3`.  `_marginalize` gives `4, 4, 4` (flat: variance 0, so balancing
with `ignore_diags = 0` reports convergence at the first sweep with weights `1/√4`), the row sums are
`3, 4, 4`. -/
def witnessD17 : List (WPx Int) := [⟨0, 0, 1⟩, ⟨0, 1, 1⟩, ⟨0, 2, 1⟩, ⟨1, 2, 3⟩]

/-- **Finding D17, machine-checked**: with the main diagonal kept, a flat `_marginalize` vector does
not mean flat row sums. -/
theorem diag_rowsums_not_flat :
    (List.range 3).map (marginalizeAt witnessD17) = [4, 4, 4] ∧
    (List.range 3).map (rowsumAt 3 witnessD17) = [3, 4, 4] := by
  decide

example : (List.range 3).map (marginalizeAt (zeroDiags 1 witnessD17))
    = (List.range 3).map (rowsumAt 3 (zeroDiags 1 witnessD17)) := by decide

end Cooler.C10
