import CoolerModel.Model.CSR
/-!
Helper lemmas about the CSR index and slicing (used by C03, C02, C07, C08).  Property theorems
live in `Props/Cxx.lean`.
-/
set_option linter.unusedSimpArgs false
set_option linter.unusedVariables false

namespace Cooler

theorem off_mono (ps : Pixels) {a b : Nat} (h : a ≤ b) : off ps a ≤ off ps b := by
  unfold off
  induction ps with
  | nil => simp
  | cons p ps ih =>
    simp only [List.countP_cons, decide_eq_true_eq]
    have : (if p.i < a then 1 else 0) ≤ (if p.i < b then 1 else 0) := by
      split <;> split <;> omega
    omega

theorem off_le_length (ps : Pixels) (k : Nat) : off ps k ≤ ps.length := List.countP_le_length

theorem RowSorted.tail {p : Px} {ps : Pixels} (h : RowSorted (p :: ps)) : RowSorted ps :=
  (List.pairwise_cons.mp h).2

theorem RowSorted.head_le {p : Px} {ps : Pixels} (h : RowSorted (p :: ps)) : ∀ q ∈ ps, p.i ≤ q.i :=
  (List.pairwise_cons.mp h).1

/-- **CSR slice lemma**: reading rows `[a,b)` through the row pointer of a row-sorted table returns
exactly the records whose row lies in `[a,b)`, in storage order. -/
theorem rowsSlice_eq_filter (ps : Pixels) (hs : RowSorted ps) (a b : Nat) (hab : a ≤ b) :
    rowsSlice ps a b = ps.filter (fun p => decide (a ≤ p.i ∧ p.i < b)) := by
  induction ps with
  | nil => simp [rowsSlice, slicePx]
  | cons p ps ih =>
    have hs' : RowSorted ps := hs.tail
    have hp : ∀ q ∈ ps, p.i ≤ q.i := hs.head_le
    have ih' := ih hs'
    unfold rowsSlice slicePx off at *
    simp only [List.countP_cons, decide_eq_true_eq]
    by_cases h1 : p.i < a
    · have h2 : p.i < b := by omega
      simp only [h1, h2, if_true, List.drop_succ_cons]
      rw [List.filter_cons]
      have : ¬ (a ≤ p.i ∧ p.i < b) := by omega
      simp only [this, decide_false]
      have : List.countP (fun p => decide (p.i < b)) ps + 1 - (List.countP (fun p => decide (p.i < a)) ps + 1)
           = List.countP (fun p => decide (p.i < b)) ps - List.countP (fun p => decide (p.i < a)) ps := by omega
      simp [this, ih']
    · by_cases h2 : p.i < b
      · have hz : List.countP (fun q => decide (q.i < a)) ps = 0 := by
          rw [List.countP_eq_zero]; intro q hq; have := hp q hq; simp; omega
        simp only [h1, h2, if_true, if_false, hz, Nat.add_zero, Nat.zero_add, List.drop_zero] at ih' ⊢
        rw [List.filter_cons]
        have : (a ≤ p.i ∧ p.i < b) := by omega
        simp only [this, decide_true, if_true]
        simp only [Nat.sub_zero] at ih'
        simp [List.take_succ_cons, ih']
      · have hz : List.countP (fun q => decide (q.i < a)) ps = 0 := by
          rw [List.countP_eq_zero]; intro q hq; have := hp q hq; simp; omega
        have hz2 : List.countP (fun q => decide (q.i < b)) ps = 0 := by
          rw [List.countP_eq_zero]; intro q hq; have := hp q hq; simp; omega
        simp only [h1, h2, if_false, hz, hz2, Nat.add_zero, List.drop_zero, Nat.sub_self, List.take_zero]
        rw [List.filter_cons]
        have : ¬ (a ≤ p.i ∧ p.i < b) := by omega
        simp only [this, decide_false, Bool.false_eq_true, if_false]
        symm
        rw [List.filter_eq_nil_iff]
        intro q hq; have := hp q hq; simp; omega

/-- consecutive positional slices concatenate -/
theorem slicePx_append (ps : Pixels) {a b c : Nat} (hab : a ≤ b) (hbc : b ≤ c) :
    slicePx ps a b ++ slicePx ps b c = slicePx ps a c := by
  unfold slicePx
  have h1 : c - a = (b - a) + (c - b) := by omega
  rw [h1, List.take_add, List.drop_drop]
  have : a + (b - a) = b := by omega
  rw [this]

/-- row ranges concatenate: rows `[a,b)` then rows `[b,c)` are rows `[a,c)` -/
theorem rowsSlice_append (ps : Pixels) {a b c : Nat} (hab : a ≤ b) (hbc : b ≤ c) :
    rowsSlice ps a b ++ rowsSlice ps b c = rowsSlice ps a c :=
  slicePx_append ps (off_mono ps hab) (off_mono ps hbc)

theorem filter_rows_append (ps : Pixels) (hs : RowSorted ps) {a b c : Nat} (hab : a ≤ b) (hbc : b ≤ c) :
    ps.filter (fun p => decide (a ≤ p.i ∧ p.i < b)) ++ ps.filter (fun p => decide (b ≤ p.i ∧ p.i < c))
      = ps.filter (fun p => decide (a ≤ p.i ∧ p.i < c)) := by
  rw [← rowsSlice_eq_filter ps hs a b hab, ← rowsSlice_eq_filter ps hs b c hbc,
    ← rowsSlice_eq_filter ps hs a c (by omega)]
  exact rowsSlice_append ps hab hbc

/-- the stored offsets agree with the row pointer on `[0, n]` -/
def OffsOK (ps : Pixels) (offs : List Nat) (n : Nat) : Prop := ∀ k, k ≤ n → offAt offs k = off ps k

theorem offsOK_csrIndex (ps : Pixels) (n : Nat) : OffsOK ps (csrIndex ps n) n := by
  intro k hk
  unfold offAt csrIndex
  rw [List.getD_eq_getElem?_getD]
  simp [List.getElem?_map, List.getElem?_range (show k < n + 1 by omega)]

/-- one row of the reader loop = the stored records of that row inside the column range -/
theorem csrRow_eq_filter (ps : Pixels) (hs : RowSorted ps) (offs : List Nat) (n : Nat)
    (ho : OffsOK ps offs n) (j0 j1 i : Nat) (hi : i < n) :
    csrRow ps offs j0 j1 i = ps.filter (fun p => decide (p.i = i) && inCols j0 j1 p) := by
  have hmap : ∀ l : Pixels, (∀ p ∈ l, p.i = i) → l.map (fun p => { p with i := i }) = l := by
    intro l hl
    conv => rhs; rw [← List.map_id l]
    apply List.map_congr_left
    intro p hp
    have := hl p hp
    cases p; simp_all
  unfold csrRow
  rw [ho i (by omega), ho (i + 1) (by omega)]
  have := rowsSlice_eq_filter ps hs i (i + 1) (by omega)
  unfold rowsSlice at this
  rw [this, List.filter_filter, hmap]
  · apply List.filter_congr
    intro p _
    have : decide (i ≤ p.i ∧ p.i < i + 1) = decide (p.i = i) := by
      apply decide_eq_decide.mpr; omega
    rw [this, Bool.and_comm]
  · intro p hp
    simp only [List.mem_filter, Bool.and_eq_true, decide_eq_true_eq] at hp
    omega

/-- the direct part of `CSRReader.__call__` over rows `[s0, s0+k)`: exactly the stored records in
those rows and in the column range, in storage order -/
theorem csrDirect_eq_filter_aux (ps : Pixels) (hs : RowSorted ps) (offs : List Nat) (n : Nat)
    (ho : OffsOK ps offs n) (j0 j1 s0 : Nat) :
    ∀ k, s0 + k ≤ n →
      (List.range' s0 k).flatMap (csrRow ps offs j0 j1)
        = ps.filter (fun p => decide (s0 ≤ p.i ∧ p.i < s0 + k) && inCols j0 j1 p) := by
  intro k
  induction k with
  | zero =>
    intro _
    simp only [List.range'_zero, List.flatMap_nil, Nat.add_zero]
    symm
    rw [List.filter_eq_nil_iff]
    intro p _
    simp only [Bool.and_eq_true, decide_eq_true_eq, not_and]
    intro h; omega
  | succ k ih =>
    intro hk
    rw [List.range'_concat, List.flatMap_append, ih (by omega)]
    simp only [List.flatMap_cons, List.flatMap_nil, List.append_nil, Nat.one_mul]
    rw [csrRow_eq_filter ps hs offs n ho j0 j1 (s0 + k) (by omega)]
    have hsplit := filter_rows_append ps hs (a := s0) (b := s0 + k) (c := s0 + (k + 1)) (by omega) (by omega)
    have e1 : ∀ (A : Px → Bool), ps.filter (fun p => A p && inCols j0 j1 p)
        = (ps.filter A).filter (inCols j0 j1) := by
      intro A
      rw [List.filter_filter]
      apply List.filter_congr
      intro p _
      rw [Bool.and_comm]
    rw [e1, e1, e1, ← hsplit, List.filter_append]
    congr 2
    apply List.filter_congr
    intro p _
    apply decide_eq_decide.mpr
    omega

theorem csrDirect_eq_filter (ps : Pixels) (hs : RowSorted ps) (offs : List Nat) (n : Nat)
    (ho : OffsOK ps offs n) (j0 j1 s0 s1 : Nat) (h1 : s1 ≤ n) :
    csrDirect ps offs j0 j1 s0 s1
      = ps.filter (fun p => decide (s0 ≤ p.i ∧ p.i < s1) && inCols j0 j1 p) := by
  unfold csrDirect
  by_cases h : s0 ≤ s1
  · rw [csrDirect_eq_filter_aux ps hs offs n ho j0 j1 s0 (s1 - s0) (by omega)]
    apply List.filter_congr
    intro p _
    congr 1
    apply decide_eq_decide.mpr
    omega
  · have : s1 - s0 = 0 := by omega
    rw [this]
    simp only [List.range'_zero, List.flatMap_nil]
    symm
    rw [List.filter_eq_nil_iff]
    intro p _
    simp only [Bool.and_eq_true, decide_eq_true_eq, not_and]
    intro h; omega

end Cooler
