import CoolerModel.Model.Split
/-!
# C11 — balancing depends on the data only, not on chunking or scheduling

Statements are about the definitions in `Model/Split.lean` (the correspondence harness executes
them against `cooler.util.partition`, the `spans` of `balance_cooler`, `cooler.parallel.split` /
`MultiplexDataPipe` / `chunkgetter` and the per-chunk functions of `cooler._balance`).

Layout
* §1 slices; §2 closed forms and well-formedness of `spansC` / `partition`;
* §3 `spans_cover_once`, `partition_cover_once` (ordered concatenation of the slices *is* the table);
* §4 the contract `CoversOnce` (free unit): any spans meeting it read a permutation of `[lo:hi)`;
  the modelled spans meet it;
* §5 `marginal_split`: over a commutative monoid, a chunk function additive over concatenation,
  any covering spans and any permutation of the chunk results fold to the value on the whole;
* §6 the concrete `_balance` pipeline is such a function (`Local` filters, `margFn_append`), the
  array form the code reduces (`balanceReduce_eq_whole`), and `balance_data_only`;
* §7 histories of one process (`Step`, `stored`, `observe`): a run returns `eval` of the data stored at
  its URI at that moment whatever was written, replaced or run before (`observe_append_run`,
  `run_after_write`, `run_data_only`, `run_repeat`).

Core Lean only (the monoid laws are explicit hypotheses on `add`/`zero`).

Reading of the property.  "The same up to floating-point summation order" is, in exact arithmetic,
equality under commutativity and associativity of `+` — that is what is proved, for *every* table,
chunk size `≥ 1` (and `None`), span generator meeting the contract and permutation of the results.
Float non-associativity is bounded by the correspondence (1e-9 relative), not modelled.

Not in this file: "coincides with the documented iterative correction on the dense matrix"
(DESIGN's `balance_eq_dense_ic`).  Here every pass is shown to equal the marginal of the rows taken
in one piece (`pipeline_reduce_eq_whole`, L0 = `wholeMarginal`); that this one-piece marginal is the
row sum of the dense symmetric matrix and what the iteration then does with it is property C10
(`Model/Balance.lean`, `Props/C10*.lean`), whose correspondence runs the real `balance_cooler`
against the dense rational model; C11's correspondence shows every chunk size and schedule agrees
with that run.
-/
namespace Cooler.C11
open Cooler Cooler.Split

/-! ## §1 slices -/

theorem sliceOf_nil {α : Type} (a b : Nat) : sliceOf ([] : List α) a b = [] := by
  simp [sliceOf]

theorem sliceOf_all {α : Type} (xs : List α) {h : Nat} (hh : xs.length ≤ h) : sliceOf xs 0 h = xs := by
  simp [sliceOf, List.take_of_length_le hh]

theorem sliceOf_zero {α : Type} (xs : List α) (h : Nat) : sliceOf xs 0 h = xs.take h := by
  simp [sliceOf]

theorem sliceOf_empty {α : Type} (xs : List α) {a b : Nat} (h : b ≤ a) : sliceOf xs a b = [] := by
  unfold sliceOf
  apply List.drop_eq_nil_of_le
  rw [List.length_take]; omega

theorem sliceOf_length {α : Type} (xs : List α) (a b : Nat) :
    (sliceOf xs a b).length = min b xs.length - a := by
  simp [sliceOf]

/-- adjacent slices concatenate -/
theorem sliceOf_append {α : Type} (xs : List α) {a b c : Nat} (hab : a ≤ b) (hbc : b ≤ c) :
    sliceOf xs a b ++ sliceOf xs b c = sliceOf xs a c := by
  unfold sliceOf
  have h1 : xs.take b = (xs.take c).take b := by
    rw [List.take_take]; congr 1; omega
  rw [h1]
  generalize xs.take c = ys
  conv => rhs; rw [← List.take_append_drop b ys]
  rw [List.drop_append]
  congr 1
  by_cases hl : ys.length ≤ b
  · rw [List.drop_eq_nil_of_le hl]; simp
  · have : (ys.take b).length = b := by rw [List.length_take]; omega
    rw [this, show a - b = 0 by omega]; simp

/-- a slice of `x :: t` is a slice of `t`, preceded by `x` iff offset `0` is inside -/
theorem sliceOf_cons {α : Type} (x : α) (t : List α) (a b : Nat) :
    sliceOf (x :: t) a b = (if contains 0 (a, b) then [x] else []) ++ sliceOf t (a - 1) (b - 1) := by
  unfold sliceOf contains
  cases a with
  | zero =>
    cases b with
    | zero => simp
    | succ b => simp
  | succ a =>
    cases b with
    | zero => simp
    | succ b => simp

/-! ## §2 closed forms, well-formedness -/

theorem le_ceilDiv_mul {L b : Nat} (hb : 1 ≤ b) : L ≤ ceilDiv L b * b := by
  unfold ceilDiv
  have h := Nat.div_add_mod (L + b - 1) b
  have hm := Nat.mod_lt (L + b - 1) (show b > 0 by omega)
  have : (L + b - 1) / b * b = b * ((L + b - 1) / b) := Nat.mul_comm _ _
  omega

theorem ceilDiv_pred_mul_lt {L b t : Nat} (hb : 1 ≤ b) (ht : t < ceilDiv L b) : t * b < L := by
  unfold ceilDiv at ht
  have h1 : (t + 1) * b ≤ L + b - 1 := by
    have := (Nat.le_div_iff_mul_le (show 0 < b by omega)).1 (show t + 1 ≤ (L + b - 1) / b by omega)
    exact this
  rw [Nat.succ_mul] at h1
  omega

theorem ceilDiv_add_self {L b : Nat} (hb : 1 ≤ b) : ceilDiv (L + b) b = ceilDiv L b + 1 := by
  unfold ceilDiv
  rw [show L + b + b - 1 = (L + b - 1) + b by omega, Nat.add_div_right _ (by omega)]

theorem ceilDiv_zero (b : Nat) : ceilDiv 0 b = 0 := by
  unfold ceilDiv
  cases b with
  | zero => simp
  | succ b => simp

theorem ceilDiv_pos {L b : Nat} (hb : 1 ≤ b) (hL : 1 ≤ L) : 1 ≤ ceilDiv L b := by
  unfold ceilDiv
  rw [Nat.le_div_iff_mul_le (by omega)]; omega

/-- the edges are `0, c, 2c, …, ⌈nnz/c⌉·c` -/
theorem edges_eq {nnz c : Nat} (hc : 1 ≤ c) :
    edges nnz c = (List.range (ceilDiv nnz c + 1)).map (· * c) := by
  unfold edges pyRange
  rw [Nat.sub_zero, ceilDiv_add_self hc]
  apply List.map_congr_left
  intro t _; omega

/-- closed form of the spans `balance_cooler` builds: `(t·c, (t+1)·c)` for `t < ⌈nnz/c⌉` -/
theorem spansC_eq {nnz c : Nat} (hc : 1 ≤ c) :
    spansC nnz c = (List.range (ceilDiv nnz c)).map (fun t => (t * c, (t + 1) * c)) := by
  unfold spansC
  simp only [edges_eq hc]
  rw [← List.map_dropLast, ← List.map_tail, List.range_succ, List.dropLast_concat]
  rw [← List.range_succ, List.range_succ_eq_map, List.tail_cons, List.map_map, List.zip_map']
  rfl

/-- closed form of `util.partition` -/
theorem partition_eq (lo hi c : Nat) :
    partition lo hi c =
      (List.range (ceilDiv (hi - lo) c)).map (fun t => (lo + t * c, min (lo + (t + 1) * c) hi)) := by
  unfold partition pyRange
  rw [List.map_map]
  apply List.map_congr_left
  intro t _
  simp only [Function.comp, Nat.succ_mul, Nat.add_assoc]

/-- **Well-formedness of the spans of `balance_cooler`** (all `nnz`, all `c ≥ 1`): there are exactly
`⌈nnz/c⌉` of them (none when `nnz = 0`), span `t` is `(t·c, (t+1)·c)` — so the edges start at `0`,
increase strictly by `c` and chain — every span starts below `nnz` (it reads at least one pixel after
clamping), and the last one ends in `[nnz, nnz + c)`. -/
theorem spans_wellformed {nnz c : Nat} (hc : 1 ≤ c) :
    (spansC nnz c).length = ceilDiv nnz c ∧
    (∀ t (h : t < (spansC nnz c).length), (spansC nnz c)[t] = (t * c, (t + 1) * c)) ∧
    (∀ s ∈ spansC nnz c, s.1 < s.2 ∧ s.1 < nnz) ∧
    (nnz ≤ ceilDiv nnz c * c ∧ ceilDiv nnz c * c < nnz + c) ∧
    (nnz = 0 → spansC nnz c = []) := by
  rw [spansC_eq hc]
  refine ⟨by simp, ?_, ?_, ⟨le_ceilDiv_mul hc, ?_⟩, ?_⟩
  · intro t h; simp
  · intro s hs
    simp only [List.mem_map, List.mem_range] at hs
    obtain ⟨t, ht, rfl⟩ := hs
    refine ⟨?_, ceilDiv_pred_mul_lt hc ht⟩
    show t * c < (t + 1) * c
    rw [Nat.succ_mul]; omega
  · by_cases h0 : nnz = 0
    · subst h0; rw [ceilDiv_zero]; omega
    · have hp := ceilDiv_pos hc (show 1 ≤ nnz by omega)
      have := ceilDiv_pred_mul_lt hc (show ceilDiv nnz c - 1 < ceilDiv nnz c by omega)
      have e : ceilDiv nnz c * c = (ceilDiv nnz c - 1) * c + c := by
        conv => lhs; rw [show ceilDiv nnz c = (ceilDiv nnz c - 1) + 1 by omega, Nat.succ_mul]
      omega
  · intro h0; subst h0; rw [ceilDiv_zero]; rfl

/-- **Well-formedness of `util.partition`** (`c ≥ 1`): `⌈(hi−lo)/c⌉` spans, span `t` is
`(lo + t·c, min(lo + (t+1)·c, hi))`, each non-empty and inside `[lo, hi]`. -/
theorem partition_wellformed {lo hi c : Nat} (hc : 1 ≤ c) :
    (partition lo hi c).length = ceilDiv (hi - lo) c ∧
    (∀ t (h : t < (partition lo hi c).length),
        (partition lo hi c)[t] = (lo + t * c, min (lo + (t + 1) * c) hi)) ∧
    (∀ s ∈ partition lo hi c, lo ≤ s.1 ∧ s.1 < s.2 ∧ s.2 ≤ hi) ∧
    (hi ≤ lo → partition lo hi c = []) := by
  rw [partition_eq]
  refine ⟨by simp, ?_, ?_, ?_⟩
  · intro t h; simp
  · intro s hs
    simp only [List.mem_map, List.mem_range] at hs
    obtain ⟨t, ht, rfl⟩ := hs
    have := ceilDiv_pred_mul_lt hc ht
    have e : (t + 1) * c = t * c + c := Nat.succ_mul _ _
    simp only []
    omega
  · intro h
    rw [show hi - lo = 0 by omega, ceilDiv_zero]; rfl

/-- `chunksize=None` is one span over everything; a numeric chunk size never fails for `c ≥ 1` -/
theorem spans_some {nnz c : Nat} (hc : 1 ≤ c) : spans nnz (some c) = .ok (spansC nnz c) := by
  cases c with
  | zero => omega
  | succ c => rfl

/-- the chunk size handed to the cis-only passes is never zero (`None` included, empty cooler
included — the repaired D21) -/
theorem cisSpans_ok (nnz : Nat) (cs : Option Nat) (hcs : ∀ c, cs = some c → 1 ≤ c) (plo phi : Nat) :
    cisSpans nnz cs plo phi = .ok (partition plo phi (cisChunk nnz cs)) ∧ 1 ≤ cisChunk nnz cs := by
  have h1 : 1 ≤ cisChunk nnz cs := by
    cases cs with
    | none => simp [cisChunk]; omega
    | some c => exact hcs c rfl
  refine ⟨?_, h1⟩
  unfold cisSpans
  rw [if_neg (by omega)]

example : cisSpans 0 none 0 0 = .ok [] := rfl
example : spansC 7 3 = [(0, 3), (3, 6), (6, 9)] := by decide
example : spansC 6 3 = [(0, 3), (3, 6)] := by decide
example : spansC 0 3 = [] := by decide
example : spansC 2 5 = [(0, 5)] := by decide
example : partition 2 9 3 = [(2, 5), (5, 8), (8, 9)] := by decide

/-! ## §3 the slices of the modelled spans, concatenated in order, are the table -/

theorem flatMap_spans_prefix {α : Type} (xs : List α) (c k : Nat) :
    ((List.range k).map (fun t => (t * c, (t + 1) * c))).flatMap (fun s => sliceOf xs s.1 s.2)
      = xs.take (k * c) := by
  induction k with
  | zero => simp
  | succ k ih =>
    rw [List.range_succ, List.map_append, List.flatMap_append, ih]
    simp only [List.map_cons, List.map_nil, List.flatMap_cons, List.flatMap_nil, List.append_nil]
    rw [← sliceOf_zero, ← sliceOf_zero]
    apply sliceOf_append
    · omega
    · rw [Nat.succ_mul]; omega

/-- **`spans_cover_once`** — for every table `xs` and every chunk size `c ≥ 1`, concatenating the
slices `xs[lo:hi]` over the spans `balance_cooler` builds for `nnz = len(xs)` gives back `xs`: every
stored pixel is read exactly once, in order, none twice, none skipped (the overshoot of the last
span is clamped by the slice). -/
theorem spans_cover_once {α : Type} (xs : List α) {c : Nat} (hc : 1 ≤ c) :
    (spansC xs.length c).flatMap (fun s => sliceOf xs s.1 s.2) = xs := by
  rw [spansC_eq hc, flatMap_spans_prefix]
  exact List.take_of_length_le (le_ceilDiv_mul hc)

/-- the same for every value of the `chunksize` argument, `None` included -/
theorem spans_cover_once' {α : Type} (xs : List α) (cs : Option Nat) (hcs : ∀ c, cs = some c → 1 ≤ c) :
    ∃ sp, spans xs.length cs = .ok sp ∧ sp.flatMap (fun s => sliceOf xs s.1 s.2) = xs := by
  cases cs with
  | none => exact ⟨_, rfl, by simp [sliceOf_all]⟩
  | some c => exact ⟨_, spans_some (hcs c rfl), spans_cover_once xs (hcs c rfl)⟩

theorem flatMap_partition_prefix {α : Type} (xs : List α) (lo hi c k : Nat) :
    ((List.range k).map (fun t => (lo + t * c, min (lo + (t + 1) * c) hi))).flatMap
        (fun s => sliceOf xs s.1 s.2)
      = sliceOf xs lo (max lo (min (lo + k * c) hi)) := by
  induction k with
  | zero =>
    simp only [List.range_zero, List.map_nil, List.flatMap_nil]
    rw [sliceOf_empty]; omega
  | succ k ih =>
    rw [List.range_succ, List.map_append, List.flatMap_append, ih]
    simp only [List.map_cons, List.map_nil, List.flatMap_cons, List.flatMap_nil, List.append_nil]
    have e : (k + 1) * c = k * c + c := Nat.succ_mul _ _
    by_cases h : lo + k * c ≤ hi
    · rw [show max lo (min (lo + k * c) hi) = lo + k * c by omega,
        show max lo (min (lo + (k + 1) * c) hi) = min (lo + (k + 1) * c) hi by omega]
      apply sliceOf_append <;> omega
    · rw [sliceOf_empty xs (a := lo + k * c) (b := min (lo + (k + 1) * c) hi) (by omega),
        List.append_nil]
      congr 1; omega

/-- **`partition_cover_once`** — concatenating the slices over `util.partition(lo, hi, c)` gives
exactly the rows `[lo:hi]` (cis-only passes: the pixels of one chromosome; `split`'s default spans:
`lo = 0`, `hi = nnz`, the whole table). -/
theorem partition_cover_once {α : Type} (xs : List α) (lo hi : Nat) {c : Nat} (hc : 1 ≤ c) :
    (partition lo hi c).flatMap (fun s => sliceOf xs s.1 s.2) = sliceOf xs lo hi := by
  rw [partition_eq, flatMap_partition_prefix]
  by_cases h : lo ≤ hi
  · have := le_ceilDiv_mul (L := hi - lo) hc
    congr 1; omega
  · rw [sliceOf_empty xs (a := lo) (b := hi) (by omega)]
    apply sliceOf_empty
    rw [show hi - lo = 0 by omega, ceilDiv_zero]; omega

theorem splitDefault_cover_once {α : Type} (xs : List α) {c : Nat} (hc : 1 ≤ c) :
    (splitDefaultSpans xs.length c).flatMap (fun s => sliceOf xs s.1 s.2) = xs := by
  unfold splitDefaultSpans
  rw [partition_cover_once xs 0 xs.length hc, sliceOf_all xs (Nat.le_refl _)]

-- non-vacuity: a table of 7 rows in chunks of 3 (last span overshoots to 9), and of 1
example : (spansC 7 3).flatMap (fun s => sliceOf [10, 11, 12, 13, 14, 15, 16] s.1 s.2)
    = [10, 11, 12, 13, 14, 15, 16] := by decide
example : (spansC 7 3).map (fun s => sliceOf [10, 11, 12, 13, 14, 15, 16] s.1 s.2)
    = [[10, 11, 12], [13, 14, 15], [16]] := by decide
example : (partition 2 6 3).map (fun s => sliceOf [10, 11, 12, 13, 14, 15, 16] s.1 s.2)
    = [[12, 13, 14], [15]] := by decide

/-! ## §4 the contract `CoversOnce` (what the proof needs of *any* span generator) -/

theorem coversOnceB_iff (n : Nat) (sp : List (Nat × Nat)) (lo hi : Nat) :
    coversOnceB n sp lo hi = true ↔ CoversOnce n sp lo hi := by
  unfold coversOnceB CoversOnce
  simp only [List.all_eq_true, List.mem_range, beq_iff_eq]

instance (n : Nat) (sp : List (Nat × Nat)) (lo hi : Nat) : Decidable (CoversOnce n sp lo hi) :=
  decidable_of_iff _ (coversOnceB_iff n sp lo hi)

theorem visits_map_shift (sp : List (Nat × Nat)) (j : Nat) :
    visits (sp.map (fun s => (s.1 - 1, s.2 - 1))) j = visits sp (j + 1) := by
  unfold visits
  rw [List.countP_map]
  congr 1
  funext s
  simp only [Function.comp, contains]
  apply decide_eq_decide.2
  omega

theorem flatMap_ite_perm {α β : Type} (p : β → Bool) (x : α) (g : β → List α) (l : List β) :
    (l.flatMap (fun s => (if p s then [x] else []) ++ g s)).Perm
      (List.replicate (l.countP p) x ++ l.flatMap g) := by
  induction l with
  | nil => simp
  | cons s rest ih =>
    simp only [List.flatMap_cons, List.countP_cons]
    by_cases h : p s = true
    · simp only [h, if_true, List.replicate_succ, List.cons_append, List.nil_append]
      exact ((List.Perm.append_left (g s) ih).trans (List.perm_append_comm_assoc _ _ _)).cons x
    · simp only [h, Bool.false_eq_true, if_false, List.nil_append, Nat.add_zero]
      exact (List.Perm.append_left (g s) ih).trans (List.perm_append_comm_assoc _ _ _)

/-- **Any** spans meeting the contract read a permutation of the rows `[lo:hi]`: every row of the
range exactly once, no other row at all — whatever the order, number, overlap with the end of the
table or emptiness of the individual spans. -/
theorem cover_perm {α : Type} (xs : List α) : ∀ (sp : List (Nat × Nat)) (lo hi : Nat),
    CoversOnce xs.length sp lo hi →
    (sp.flatMap (fun s => sliceOf xs s.1 s.2)).Perm (sliceOf xs lo hi) := by
  induction xs with
  | nil =>
    intro sp lo hi _
    simp [sliceOf_nil]
  | cons x t ih =>
    intro sp lo hi hc
    have h0 := hc 0 (by simp)
    have hshift : CoversOnce t.length (sp.map (fun s => (s.1 - 1, s.2 - 1))) (lo - 1) (hi - 1) := by
      intro j hj
      rw [visits_map_shift, hc (j + 1) (by simp only [List.length_cons]; omega)]
      by_cases h : lo ≤ j + 1 ∧ j + 1 < hi
      · rw [if_pos h, if_pos (by omega)]
      · rw [if_neg h, if_neg (by omega)]
    have ih' := ih _ _ _ hshift
    rw [List.flatMap_map] at ih'
    simp only [sliceOf_cons]
    refine (flatMap_ite_perm (contains 0) x (fun s => sliceOf t (s.1 - 1) (s.2 - 1)) sp).trans ?_
    refine (List.Perm.append_left _ ih').trans ?_
    unfold visits at h0
    rw [h0]
    have hc0 : contains 0 (lo, hi) = decide (lo ≤ 0 ∧ 0 < hi) := rfl
    rw [hc0]
    by_cases h : lo ≤ 0 ∧ 0 < hi
    · rw [if_pos h, decide_eq_true h]; simp
    · rw [if_neg h, decide_eq_false h]; simp

/-- the offsets read under any spans meeting the contract: each offset of the range exactly once -/
theorem visited_perm (n : Nat) (sp : List (Nat × Nat)) (lo hi : Nat) (hc : CoversOnce n sp lo hi) :
    (visited n sp).Perm (sliceOf (List.range n) lo hi) := by
  have := cover_perm (List.range n) sp lo hi (by simpa using hc)
  exact this

theorem visited_whole_nodup (n : Nat) (sp : List (Nat × Nat)) (hc : CoversOnce n sp 0 n) :
    (visited n sp).Perm (List.range n) ∧ (visited n sp).Nodup := by
  have h := visited_perm n sp 0 n hc
  rw [sliceOf_all _ (by simp)] at h
  exact ⟨h, h.nodup_iff.2 List.nodup_range⟩

/-- counting lemma for a chain of spans `g 0, g 1, …`: if `P m` says "offset `j` lies before the end of
the first `m` spans" then `j` is read exactly once by the first `k` spans iff `P k` -/
theorem visits_range_map (j : Nat) (g : Nat → Nat × Nat) (k : Nat) (P : Nat → Prop) [DecidablePred P]
    (hstep : ∀ m, contains j (g m) = true → ¬ P m ∧ P (m + 1))
    (hstep' : ∀ m, ¬ P m → P (m + 1) → contains j (g m) = true)
    (hmono : ∀ m, P m → P (m + 1)) (h0 : ¬ P 0) :
    visits ((List.range k).map g) j = if P k then 1 else 0 := by
  induction k with
  | zero => simp [visits, h0]
  | succ k ih =>
    unfold visits at ih ⊢
    rw [List.range_succ, List.map_append, List.countP_append, ih]
    simp only [List.map_cons, List.map_nil, List.countP_cons, List.countP_nil]
    by_cases hk : P k
    · have : contains j (g k) ≠ true := fun h => (hstep k h).1 hk
      simp [hk, hmono k hk, this]
    · by_cases hk1 : P (k + 1)
      · simp [hk, hk1, hstep' k hk hk1]
      · have : contains j (g k) ≠ true := fun h => hk1 (hstep k h).2
        simp [hk, hk1, this]

/-- the spans `balance_cooler` builds meet the contract on the whole table -/
theorem spansC_coversOnce (nnz : Nat) {c : Nat} (hc : 1 ≤ c) : CoversOnce nnz (spansC nnz c) 0 nnz := by
  intro j hj
  rw [spansC_eq hc]
  have e : ∀ m, (m + 1) * c = m * c + c := fun m => Nat.succ_mul _ _
  rw [visits_range_map j (fun t => (t * c, (t + 1) * c)) (ceilDiv nnz c) (fun m => j < m * c)]
  · have := le_ceilDiv_mul (L := nnz) hc
    rw [if_pos (by omega), if_pos (by omega)]
  · intro m h; simp only [contains, decide_eq_true_eq] at h; have := e m; omega
  · intro m h1 h2; simp only [contains, decide_eq_true_eq]; omega
  · intro m h; have := e m; omega
  · omega

/-- `util.partition(lo, hi, c)` meets the contract for the rows `[lo:hi]`, on a table of any size -/
theorem partition_coversOnce (n lo hi : Nat) {c : Nat} (hc : 1 ≤ c) :
    CoversOnce n (partition lo hi c) lo hi := by
  intro j _
  rw [partition_eq]
  have e : ∀ m, (m + 1) * c = m * c + c := fun m => Nat.succ_mul _ _
  rw [visits_range_map j (fun t => (lo + t * c, min (lo + (t + 1) * c) hi)) (ceilDiv (hi - lo) c)
    (fun m => lo ≤ j ∧ j < min (lo + m * c) hi)]
  · have := le_ceilDiv_mul (L := hi - lo) hc
    by_cases h : lo ≤ j ∧ j < hi
    · rw [if_pos h, if_pos (by omega)]
    · rw [if_neg h, if_neg (by omega)]
  · intro m h; simp only [contains, decide_eq_true_eq] at h; have := e m; omega
  · intro m h1 h2; simp only [contains, decide_eq_true_eq]; have := e m; omega
  · intro m h; have := e m; omega
  · omega

/-- every value of the `chunksize` argument (`None` included) yields spans meeting the contract -/
theorem spans_coversOnce (nnz : Nat) (cs : Option Nat) (hcs : ∀ c, cs = some c → 1 ≤ c) :
    ∃ sp, spans nnz cs = .ok sp ∧ CoversOnce nnz sp 0 nnz := by
  cases cs with
  | none =>
    refine ⟨_, rfl, ?_⟩
    intro j hj
    simp [visits, contains, hj]
  | some c => exact ⟨_, spans_some (hcs c rfl), spansC_coversOnce nnz (hcs c rfl)⟩

/-- the offsets the modelled spans read, in reading order, are `0, 1, …, nnz − 1` -/
theorem visited_spans (nnz : Nat) {c : Nat} (hc : 1 ≤ c) : visited nnz (spansC nnz c) = List.range nnz := by
  have := spans_cover_once (List.range nnz) hc
  rwa [List.length_range] at this

-- non-vacuity: the contract accepts the modelled spans, spans in another order, an empty span and an
-- overshoot; it rejects a dropped tail span, an overlap and a gap
example : CoversOnce 7 (spansC 7 3) 0 7 := by decide
example : CoversOnce 7 [(6, 100), (0, 2), (4, 4), (2, 6)] 0 7 := by decide
example : ¬ CoversOnce 7 [(0, 3), (3, 6)] 0 7 := by decide
example : ¬ CoversOnce 7 [(0, 4), (3, 7)] 0 7 := by decide
example : ¬ CoversOnce 7 [(0, 3), (4, 7)] 0 7 := by decide
example : CoversOnce 7 (partition 2 6 3) 2 6 := by decide

/-! ## §5 chunk and schedule independence over a commutative monoid -/

section monoid
variable {M : Type} (add : M → M → M) (zero : M)

theorem reduce_perm (add_comm : ∀ a b, add a b = add b a)
    (add_assoc : ∀ a b c, add (add a b) c = add a (add b c))
    {rs rs' : List M} (h : rs.Perm rs') (init : M) :
    reduce add init rs = reduce add init rs' := by
  unfold reduce
  apply List.Perm.foldl_eq' h
  intro x _ y _ z
  rw [add_assoc, add_comm x y, ← add_assoc]

/-- a function additive over concatenation into a commutative monoid does not see the order of the
rows -/
theorem additive_perm (add_comm : ∀ a b, add a b = add b a)
    (add_assoc : ∀ a b c, add (add a b) c = add a (add b c))
    {α : Type} (f : List α → M) (f_app : ∀ a b, f (a ++ b) = add (f a) (f b))
    {l₁ l₂ : List α} (h : l₁.Perm l₂) : f l₁ = f l₂ := by
  have hc : ∀ x l, f (x :: l) = add (f [x]) (f l) := fun x l => f_app [x] l
  induction h with
  | nil => rfl
  | @cons x l₁ l₂ _ ih => rw [hc x l₁, hc x l₂, ih]
  | swap x y l =>
    rw [hc y (x :: l), hc x l, hc x (y :: l), hc y l, ← add_assoc, ← add_assoc, add_comm (f [y])]
  | trans _ _ ih₁ ih₂ => exact ih₁.trans ih₂

theorem reduce_pieces {α : Type} (f : List α → M) (f_app : ∀ a b, f (a ++ b) = add (f a) (f b))
    (pieces : List (List α)) (acc : List α) :
    reduce add (f acc) (pieces.map f) = f (acc ++ pieces.flatten) := by
  induction pieces generalizing acc with
  | nil => simp [reduce]
  | cons p rest ih =>
    simp only [List.map_cons, List.flatten_cons, reduce, List.foldl_cons]
    rw [← f_app]
    have := ih (acc ++ p)
    unfold reduce at this
    rw [this, List.append_assoc]

/-- **`marginal_split`** — let `add`/`zero` be a commutative monoid on `M` and `f` any per-chunk
function that is additive over concatenation (`bincount`-style marginals are: `margFn_append`).
For **any** spans covering the rows `[lo:hi]` exactly once (any chunk size, any cut points, any
order) and **any** permutation `rs` of the per-chunk results (any completion order of the map),
folding `rs` from `zero` gives `f` of the whole range.  Independence of chunking and scheduling "up
to summation order" is precisely commutativity and associativity; in exact arithmetic it is
equality. -/
theorem marginal_split (add_comm : ∀ a b, add a b = add b a)
    (add_assoc : ∀ a b c, add (add a b) c = add a (add b c))
    {α : Type} (f : List α → M) (f_nil : f [] = zero)
    (f_app : ∀ a b, f (a ++ b) = add (f a) (f b))
    (xs : List α) (sp : List (Nat × Nat)) (lo hi : Nat) (hc : CoversOnce xs.length sp lo hi)
    (rs : List M) (hp : Schedule (sp.map (fun s => f (sliceOf xs s.1 s.2))) rs) :
    reduce add zero rs = f (sliceOf xs lo hi) := by
  rw [reduce_perm add add_comm add_assoc hp zero]
  have h := reduce_pieces add f f_app (sp.map (fun s => sliceOf xs s.1 s.2)) []
  rw [f_nil, List.map_map, List.nil_append] at h
  rw [show (fun s : Nat × Nat => f (sliceOf xs s.1 s.2)) = f ∘ (fun s => sliceOf xs s.1 s.2) from rfl, h]
  rw [← List.flatMap_def]
  exact additive_perm add add_comm add_assoc f f_app (cover_perm xs sp lo hi hc)

/-- two chunkings and two schedules of the same data give the same reduced value -/
theorem marginal_split_two (add_comm : ∀ a b, add a b = add b a)
    (add_assoc : ∀ a b c, add (add a b) c = add a (add b c))
    {α : Type} (f : List α → M) (f_nil : f [] = zero)
    (f_app : ∀ a b, f (a ++ b) = add (f a) (f b))
    (xs : List α) (sp₁ sp₂ : List (Nat × Nat)) (lo hi : Nat)
    (h₁ : CoversOnce xs.length sp₁ lo hi) (h₂ : CoversOnce xs.length sp₂ lo hi)
    (rs₁ rs₂ : List M) (hp₁ : Schedule (sp₁.map (fun s => f (sliceOf xs s.1 s.2))) rs₁)
    (hp₂ : Schedule (sp₂.map (fun s => f (sliceOf xs s.1 s.2))) rs₂) :
    reduce add zero rs₁ = reduce add zero rs₂ := by
  rw [marginal_split add zero add_comm add_assoc f f_nil f_app xs sp₁ lo hi h₁ rs₁ hp₁,
    marginal_split add zero add_comm add_assoc f f_nil f_app xs sp₂ lo hi h₂ rs₂ hp₂]

end monoid

-- non-vacuity of `marginal_split`: M = Nat with +, f = sum; chunks of 3 of a 7-row table, results
-- folded in the order 2,0,1
example : reduce (· + ·) 0 [([16] : List Nat).sum, [10, 11, 12].sum, [13, 14, 15].sum]
    = [10, 11, 12, 13, 14, 15, 16].sum := by decide
example : Schedule ((spansC 7 3).map (fun s => (sliceOf [10, 11, 12, 13, 14, 15, 16] s.1 s.2).sum))
    [16, 33, 42] := by unfold Schedule; decide
-- the hypotheses matter: with a non-commutative `add` (list append) the completion order shows
example : reduce (· ++ ·) [] [[1], [2]] ≠ reduce (· ++ ·) ([] : List Nat) [[2], [1]] := by decide

/-! ## §6 the `_balance` pipeline is additive over concatenation; the array form; data-only -/

section balance
variable {K : Type} (o : Ops K)

/-- commutative-monoid laws of the carrier's `add`/`zero` (hypotheses, not part of `Ops`) -/
structure Laws (o : Ops K) : Prop where
  add_comm : ∀ a b, o.add a b = o.add b a
  add_assoc : ∀ a b c, o.add (o.add a b) c = o.add a (o.add b c)
  zero_add : ∀ a, o.add o.zero a = a

theorem Laws.add_zero {o : Ops K} (L : Laws o) (a : K) : o.add a o.zero = a := by
  rw [L.add_comm, L.zero_add]

/-- A per-chunk pipe function is **local** when it keeps one value per pixel row and treats a chunk
that is the concatenation of two chunks as the two chunks side by side: no state carried from one
chunk to the next, no dependence on where the chunk was cut. -/
structure Local (f : Chunk → List K → List K) : Prop where
  length : ∀ c d, d.length = c.pixels.length → (f c d).length = d.length
  append : ∀ chrom p₁ p₂ d₁ d₂, d₁.length = p₁.length → d₂.length = p₂.length →
    f ⟨chrom, p₁ ++ p₂⟩ (d₁ ++ d₂) = f ⟨chrom, p₁⟩ d₁ ++ f ⟨chrom, p₂⟩ d₂

theorem local_binarize : Local (binarize o) :=
  ⟨fun _ _ _ => by simp [binarize], fun _ _ _ _ _ _ _ => by simp [binarize]⟩

theorem local_zeroDiags (n : Nat) : Local (zeroDiags o n) :=
  ⟨fun c d h => by simp [zeroDiags, h],
   fun _ _ _ _ _ h₁ _ => by simp only [zeroDiags]; rw [List.zipWith_append h₁.symm]⟩

theorem local_zeroTrans : Local (zeroTrans o) :=
  ⟨fun c d h => by simp [zeroTrans, h],
   fun _ _ _ _ _ h₁ _ => by simp only [zeroTrans]; rw [List.zipWith_append h₁.symm]⟩

theorem local_zeroCis : Local (zeroCis o) :=
  ⟨fun c d h => by simp [zeroCis, h],
   fun _ _ _ _ _ h₁ _ => by simp only [zeroCis]; rw [List.zipWith_append h₁.symm]⟩

theorem local_timesOuter (vec : List K) : Local (timesOuter o vec) :=
  ⟨fun c d h => by simp [timesOuter, h],
   fun _ _ _ _ _ h₁ _ => by simp only [timesOuter]; rw [List.zipWith_append h₁.symm]⟩

/-- the filters of a pass, applied in order: `for func in funcs: data = func(chunk, data)` -/
def applyFilters (fs : List (Chunk → List K → List K)) (c : Chunk) (d : List K) : List K :=
  fs.foldl (fun data f => f c data) d

theorem applyFilters_local (fs : List (Chunk → List K → List K)) (hl : ∀ f ∈ fs, Local f) :
    Local (applyFilters fs) := by
  induction fs with
  | nil => exact ⟨fun _ _ _ => rfl, fun _ _ _ _ _ _ _ => rfl⟩
  | cons f rest ih =>
    have hf := hl f (by simp)
    have hr := ih (fun g hg => hl g (by simp [hg]))
    constructor
    · intro c d h
      simp only [applyFilters, List.foldl_cons]
      have := hr.length c (f c d) (by rw [hf.length c d h, h])
      simp only [applyFilters] at this
      rw [this, hf.length c d h]
    · intro chrom p₁ p₂ d₁ d₂ h₁ h₂
      simp only [applyFilters, List.foldl_cons]
      rw [hf.append chrom p₁ p₂ d₁ d₂ h₁ h₂]
      have := hr.append chrom p₁ p₂ (f ⟨chrom, p₁⟩ d₁) (f ⟨chrom, p₂⟩ d₂)
        (by rw [hf.length _ _ h₁, h₁]) (by rw [hf.length _ _ h₂, h₂])
      simpa only [applyFilters] using this

/-! ### the marginal functional -/

/-- pointwise sum of two bin-indexed functions, and the zero function -/
def fadd (f g : Nat → K) : Nat → K := fun b => o.add (f b) (g b)
def fzero : Nat → K := fun _ => o.zero

theorem msum_foldl {o : Ops K} (L : Laws o) (l : List K) (x : K) :
    l.foldl o.add x = o.add x (msum o l) := by
  unfold msum
  induction l generalizing x with
  | nil => simp [L.add_zero]
  | cons y rest ih =>
    simp only [List.foldl_cons]
    rw [ih (o.add x y), ih (o.add o.zero y), L.zero_add, L.add_assoc]

theorem msum_append {o : Ops K} (L : Laws o) (a b : List K) :
    msum o (a ++ b) = o.add (msum o a) (msum o b) := by
  conv => lhs; unfold msum
  rw [List.foldl_append, msum_foldl L b]
  rfl

theorem bincountAt_append {o : Ops K} (L : Laws o) (i₁ i₂ : List Nat) (w₁ w₂ : List K)
    (h : i₁.length = w₁.length) (b : Nat) :
    bincountAt o (i₁ ++ i₂) (w₁ ++ w₂) b = o.add (bincountAt o i₁ w₁ b) (bincountAt o i₂ w₂ b) := by
  unfold bincountAt
  rw [List.zip_append h, List.filterMap_append, msum_append L]

/-- **The concrete marginal functional is additive over concatenation**: the marginal of two
chunks laid side by side (pixel rows and their data) is the sum of the two marginals. -/
theorem margFn_append {o : Ops K} (L : Laws o) (chrom : List Nat) (p₁ p₂ : Pixels) (d₁ d₂ : List K)
    (h₁ : d₁.length = p₁.length) :
    margAt o ⟨chrom, p₁ ++ p₂⟩ (d₁ ++ d₂) = fadd o (margAt o ⟨chrom, p₁⟩ d₁) (margAt o ⟨chrom, p₂⟩ d₂) := by
  funext b
  simp only [margAt, fadd, List.map_append]
  rw [bincountAt_append L _ _ _ _ (by simp [h₁]), bincountAt_append L _ _ _ _ (by simp [h₁])]
  generalize bincountAt o (p₁.map (·.i)) d₁ b = a₁
  generalize bincountAt o (p₂.map (·.i)) d₂ b = a₂
  generalize bincountAt o (p₁.map (·.j)) d₁ b = b₁
  generalize bincountAt o (p₂.map (·.j)) d₂ b = b₂
  rw [L.add_assoc, L.add_assoc, ← L.add_assoc a₂, L.add_comm a₂ b₁, L.add_assoc b₁]

theorem margFn_nil {o : Ops K} (L : Laws o) (chrom : List Nat) (d : List K) :
    margAt o ⟨chrom, []⟩ d = fzero o := by
  funext b
  simp [margAt, bincountAt, msum, fzero, L.zero_add]

/-- what one chunk contributes, as a function of its pixel rows: filters, then the marginal -/
def chunkFn (chrom : List Nat) (fs : List (Chunk → List K → List K)) (px : Pixels) : Nat → K :=
  margAt o ⟨chrom, px⟩ (applyFilters fs ⟨chrom, px⟩ (init o ⟨chrom, px⟩))

theorem chunkFn_append {o : Ops K} (L : Laws o) (chrom : List Nat)
    (fs : List (Chunk → List K → List K)) (hl : ∀ f ∈ fs, Local f) (p₁ p₂ : Pixels) :
    chunkFn o chrom fs (p₁ ++ p₂) = fadd o (chunkFn o chrom fs p₁) (chunkFn o chrom fs p₂) := by
  have hL := applyFilters_local fs hl
  unfold chunkFn
  have hi : init o ⟨chrom, p₁ ++ p₂⟩ = init o ⟨chrom, p₁⟩ ++ init o ⟨chrom, p₂⟩ := by
    simp [init]
  have l₁ : (init o ⟨chrom, p₁⟩).length = p₁.length := by simp [init]
  have l₂ : (init o ⟨chrom, p₂⟩).length = p₂.length := by simp [init]
  rw [hi, hL.append chrom p₁ p₂ _ _ l₁ l₂]
  apply margFn_append L
  rw [hL.length _ _ l₁, l₁]

theorem chunkFn_nil {o : Ops K} (L : Laws o) (chrom : List Nat) (fs : List (Chunk → List K → List K)) :
    chunkFn o chrom fs [] = fzero o := margFn_nil L chrom _

theorem fadd_comm {o : Ops K} (L : Laws o) (f g : Nat → K) : fadd o f g = fadd o g f := by
  funext b; exact L.add_comm _ _

theorem fadd_assoc {o : Ops K} (L : Laws o) (f g h : Nat → K) :
    fadd o (fadd o f g) h = fadd o f (fadd o g h) := by
  funext b; exact L.add_assoc _ _ _

/-- **`balance_marginal_split`** — `marginal_split` instantiated with the pipeline of a balancing
pass: for local filters (all of `_balance.py`'s are), any spans covering the pixel rows `[lo:hi]`
once and any completion order, the reduced marginal is the marginal of those rows taken in one
piece. -/
theorem balance_marginal_split {o : Ops K} (L : Laws o) (chrom : List Nat) (px : Pixels)
    (fs : List (Chunk → List K → List K)) (hl : ∀ f ∈ fs, Local f)
    (sp : List (Nat × Nat)) (lo hi : Nat) (hc : CoversOnce px.length sp lo hi)
    (rs : List (Nat → K))
    (hp : Schedule (sp.map (fun s => chunkFn o chrom fs (sliceOf px s.1 s.2))) rs) :
    reduce (fadd o) (fzero o) rs = chunkFn o chrom fs (sliceOf px lo hi) :=
  marginal_split (fadd o) (fzero o) (fadd_comm L) (fadd_assoc L) (chunkFn o chrom fs)
    (chunkFn_nil L chrom fs) (chunkFn_append L chrom fs hl) px sp lo hi hc rs hp

/-! ### the array form the code reduces (`np.zeros(n)`, `operator.add` on arrays of length `n`) -/

/-- the first `n` entries of a bin-indexed function as an array -/
def tab (n : Nat) (g : Nat → K) : List K := (List.range n).map g

theorem vadd_tab (n : Nat) (f g : Nat → K) : vadd o (tab n f) (tab n g) = tab n (fadd o f g) := by
  simp [vadd, tab, fadd, List.zipWith_map_left, List.zipWith_map_right, List.zipWith_self]

theorem zeros_tab (n : Nat) : zeros o n = tab n (fzero o) := by
  unfold zeros tab
  rw [show fzero o = fun _ => o.zero from rfl, List.map_const', List.length_range]

theorem reduce_tab (n : Nat) (a : Nat → K) (rs : List (Nat → K)) :
    reduce (vadd o) (tab n a) (rs.map (tab n)) = tab n (reduce (fadd o) a rs) := by
  induction rs generalizing a with
  | nil => rfl
  | cons r rest ih =>
    simp only [List.map_cons, reduce, List.foldl_cons]
    rw [vadd_tab]
    exact ih _

theorem vadd_comm {o : Ops K} (L : Laws o) (a b : List K) : vadd o a b = vadd o b a := by
  unfold vadd
  induction a generalizing b with
  | nil => cases b <;> rfl
  | cons x a ih =>
    cases b with
    | nil => rfl
    | cons y b => simp only [List.zipWith_cons_cons, ih b, L.add_comm x y]

theorem vadd_assoc {o : Ops K} (L : Laws o) (a b c : List K) :
    vadd o (vadd o a b) c = vadd o a (vadd o b c) := by
  unfold vadd
  induction a generalizing b c with
  | nil => simp
  | cons x a ih =>
    cases b with
    | nil => simp
    | cons y b =>
      cases c with
      | nil => simp
      | cons z c => simp only [List.zipWith_cons_cons, ih b c, L.add_assoc]

/-- what `apply_pipeline` returns for one span in a balancing pass: the array of `chunkFn` -/
theorem applyPipeline_balance (n : Nat) (chrom : List Nat) (px : Pixels)
    (fs : List (Chunk → List K → List K)) (s : Nat × Nat) :
    applyPipeline (fs ++ [marginalize o n]) (init o) (chunkget chrom px) s
      = tab n (chunkFn o chrom fs (sliceOf px s.1 s.2)) := by
  simp [applyPipeline, List.foldl_append, marginalize, tab, chunkFn, chunkget, applyFilters]

/-- **`pipeline_reduce_eq_whole`** — the code's own reduction
`split(clr, spans, map).prepare(_init).pipe(filters).pipe(_marginalize).reduce(add, zeros(n))`
returns, for every spans meeting the contract and every order `rs` in which the map hands the
per-chunk arrays back, the marginal array of the rows `[lo:hi]` computed in one piece (L0). -/
theorem pipeline_reduce_eq_whole {o : Ops K} (L : Laws o) (n : Nat) (chrom : List Nat) (px : Pixels)
    (fs : List (Chunk → List K → List K)) (hl : ∀ f ∈ fs, Local f)
    (sp : List (Nat × Nat)) (lo hi : Nat) (hc : CoversOnce px.length sp lo hi)
    (rs : List (List K))
    (hp : Schedule (run (fs ++ [marginalize o n]) (init o) (chunkget chrom px) sp) rs) :
    reduce (vadd o) (zeros o n) rs = wholeMarginal o n chrom px fs lo hi := by
  have hrun : run (fs ++ [marginalize o n]) (init o) (chunkget chrom px) sp
      = (sp.map (fun s => chunkFn o chrom fs (sliceOf px s.1 s.2))).map (tab n) := by
    unfold run
    rw [List.map_map]
    apply List.map_congr_left
    intro s _
    exact applyPipeline_balance o n chrom px fs s
  rw [reduce_perm (vadd o) (vadd_comm L) (vadd_assoc L) hp, hrun]
  rw [zeros_tab, reduce_tab, balance_marginal_split L chrom px fs hl sp lo hi hc _ (List.Perm.refl _)]
  unfold wholeMarginal
  rw [applyPipeline_balance]

end balance

/-! ### executable schedules; the whole of balancing sees the data only -/

theorem filterMap_range_getElem? {δ : Type} (rs : List δ) :
    (List.range rs.length).filterMap (rs[·]?) = rs := by
  induction rs with
  | nil => rfl
  | cons x t ih =>
    rw [List.length_cons, List.range_succ_eq_map, List.filterMap_cons]
    simp only [List.getElem?_cons_zero, List.filterMap_map]
    congr 1

/-- re-ordering by a permutation of the positions is a schedule -/
theorem reorder_schedule {δ : Type} (rs : List δ) (perm : List Nat)
    (hp : perm.Perm (List.range rs.length)) : Schedule rs (reorder rs perm) := by
  unfold Schedule reorder
  have := hp.filterMap (rs[·]?)
  rwa [filterMap_range_getElem?] at this

section balance2
variable {K : Type}

/-- `balanceReduce` (the executable reduction the driver runs: spans, then results re-ordered by
`perm`) equals the marginal of the rows in one piece, for every covering spans and every
permutation of the chunk positions. -/
theorem balanceReduce_eq_whole {o : Ops K} (L : Laws o) (n : Nat) (chrom : List Nat) (px : Pixels)
    (fs : List (Chunk → List K → List K)) (hl : ∀ f ∈ fs, Local f)
    (sp : List (Nat × Nat)) (lo hi : Nat) (hc : CoversOnce px.length sp lo hi)
    (perm : List Nat) (hp : perm.Perm (List.range sp.length)) :
    balanceReduce o n chrom px fs sp perm = wholeMarginal o n chrom px fs lo hi := by
  unfold balanceReduce pipelineReduce
  apply pipeline_reduce_eq_whole L n chrom px fs hl sp lo hi hc
  apply reorder_schedule
  simpa [run] using hp

/-- a stack of per-chunk filters all of which are local -/
def LocalStack (K : Type) := { fs : List (Chunk → List K → List K) // ∀ f ∈ fs, Local f }

/-- All that the rest of `balance_cooler` — bin masks, the iteration, convergence test, statistics,
in each of the three modes — ever learns about the pixel table: for a filter stack and a row range
(everything, or one chromosome's rows), the reduced marginal array. -/
abbrev MargOracle (K : Type) := LocalStack K → Nat × Nat → List K

/-- the oracle the code implements, for a way of cutting a row range into spans (`chunking`) and a
map functor handing results back in some order (`sched`) -/
def oracle (o : Ops K) (n : Nat) (chrom : List Nat) (px : Pixels)
    (chunking : Nat × Nat → List (Nat × Nat)) (sched : List (List K) → List (List K)) :
    MargOracle K :=
  fun fs rng => reduce (vadd o) (zeros o n)
    (sched (run (fs.1 ++ [marginalize o n]) (init o) (chunkget chrom px) (chunking rng)))

/-- the oracle of the data alone -/
def dataOracle (o : Ops K) (n : Nat) (chrom : List Nat) (px : Pixels) : MargOracle K :=
  fun fs rng => wholeMarginal o n chrom px fs.1 rng.1 rng.2

theorem oracle_eq_data {o : Ops K} (L : Laws o) (n : Nat) (chrom : List Nat) (px : Pixels)
    (chunking : Nat × Nat → List (Nat × Nat)) (sched : List (List K) → List (List K))
    (hch : ∀ rng, CoversOnce px.length (chunking rng) rng.1 rng.2)
    (hs : ∀ l, Schedule l (sched l)) :
    oracle o n chrom px chunking sched = dataOracle o n chrom px := by
  funext fs rng
  exact pipeline_reduce_eq_whole L n chrom px fs.1 fs.2 (chunking rng) rng.1 rng.2 (hch rng) _ (hs _)

/-- **`balance_data_only`** — whatever is computed from the pixel table through such reductions only
(`alg`: the remainder of `balance_cooler`, any mode, any options) gets equal inputs, hence returns
equal outputs, under any two chunkings that cover the requested rows once and any two schedules. -/
theorem balance_data_only {o : Ops K} (L : Laws o) {Out : Type} (alg : MargOracle K → Out)
    (n : Nat) (chrom : List Nat) (px : Pixels)
    (chunking₁ chunking₂ : Nat × Nat → List (Nat × Nat))
    (sched₁ sched₂ : List (List K) → List (List K))
    (h₁ : ∀ rng, CoversOnce px.length (chunking₁ rng) rng.1 rng.2)
    (h₂ : ∀ rng, CoversOnce px.length (chunking₂ rng) rng.1 rng.2)
    (hs₁ : ∀ l, Schedule l (sched₁ l)) (hs₂ : ∀ l, Schedule l (sched₂ l)) :
    alg (oracle o n chrom px chunking₁ sched₁) = alg (oracle o n chrom px chunking₂ sched₂) := by
  rw [oracle_eq_data L n chrom px chunking₁ sched₁ h₁ hs₁,
    oracle_eq_data L n chrom px chunking₂ sched₂ h₂ hs₂]

/-- the name under which DESIGN.md lists `balance_data_only` -/
theorem balance_chunk_schedule_independent {o : Ops K} (L : Laws o) {Out : Type} (alg : MargOracle K → Out)
    (n : Nat) (chrom : List Nat) (px : Pixels)
    (chunking₁ chunking₂ : Nat × Nat → List (Nat × Nat))
    (sched₁ sched₂ : List (List K) → List (List K))
    (h₁ : ∀ rng, CoversOnce px.length (chunking₁ rng) rng.1 rng.2)
    (h₂ : ∀ rng, CoversOnce px.length (chunking₂ rng) rng.1 rng.2)
    (hs₁ : ∀ l, Schedule l (sched₁ l)) (hs₂ : ∀ l, Schedule l (sched₂ l)) :
    alg (oracle o n chrom px chunking₁ sched₁) = alg (oracle o n chrom px chunking₂ sched₂) :=
  balance_data_only L alg n chrom px chunking₁ chunking₂ sched₁ sched₂ h₁ h₂ hs₁ hs₂

/-- the chunkings `balance_cooler` uses (`spans` for a whole-table pass, `partition` with the
cis chunk size for a chromosome's rows) satisfy the hypothesis of `balance_data_only`, for every
`chunksize ≥ 1` and for `None` -/
theorem code_chunkings_cover (nnz : Nat) (cs : Option Nat) (hcs : ∀ c, cs = some c → 1 ≤ c) :
    (∃ sp, spans nnz cs = .ok sp ∧ CoversOnce nnz sp 0 nnz) ∧
    (∀ plo phi, ∃ sp, cisSpans nnz cs plo phi = .ok sp ∧ CoversOnce nnz sp plo phi) :=
  ⟨spans_coversOnce nnz cs hcs, fun plo phi =>
    ⟨_, (cisSpans_ok nnz cs hcs plo phi).1, partition_coversOnce nnz plo phi (cisSpans_ok nnz cs hcs plo phi).2⟩⟩

end balance2

/-! ### non-vacuity: the exact integer instance the driver runs -/

theorem intLaws : Laws intOps :=
  ⟨fun a b => Int.add_comm a b, fun a b c => Int.add_assoc a b c, fun a => Int.zero_add a⟩

/-- 3 bins on 2 chromosomes, 5 stored pixels (one on the diagonal, one trans) -/
def exPx : Pixels := [⟨0, 0, 4⟩, ⟨0, 1, 3⟩, ⟨0, 2, 5⟩, ⟨1, 1, 2⟩, ⟨1, 2, 7⟩]
def exFilters : List (Chunk → List Int → List Int) :=
  [zeroDiags intOps 1, timesOuter intOps [1, 2, 3]]

theorem exFilters_local : ∀ f ∈ exFilters, Local f := by
  intro f hf
  simp only [exFilters, List.mem_cons, List.not_mem_nil, or_false] at hf
  rcases hf with rfl | rfl
  · exact local_zeroDiags _ _
  · exact local_timesOuter _ _

-- chunks of 2 (spans (0,2),(2,4),(4,6): the last overshoots), results folded in the order 2,0,1
example : balanceReduce intOps 3 [0, 0, 1] exPx exFilters (spansC 5 2) [2, 0, 1]
    = [21, 48, 57] := by decide
example : wholeMarginal intOps 3 [0, 0, 1] exPx exFilters 0 5 = [21, 48, 57] := by decide
example : balanceReduce intOps 3 [0, 0, 1] exPx exFilters (spansC 5 2) [2, 0, 1]
    = wholeMarginal intOps 3 [0, 0, 1] exPx exFilters 0 5 :=
  balanceReduce_eq_whole intLaws 3 [0, 0, 1] exPx exFilters exFilters_local (spansC 5 2) 0 5
    (spansC_coversOnce 5 (by decide)) [2, 0, 1] (by decide)
theorem single_coversOnce (n lo hi : Nat) : CoversOnce n [(lo, hi)] lo hi := by
  intro j _
  by_cases h : lo ≤ j ∧ j < hi
  · simp [visits, contains, h]
  · simp [visits, contains, h]

-- `balance_data_only` applies to: chunks of 2 via `partition` handed back in order, against one span
-- per request (`chunksize=None`) handed back reversed; `alg` = "read the whole-table marginal"
example :
    (fun orc : MargOracle Int => orc ⟨exFilters, exFilters_local⟩ (0, 5))
        (oracle intOps 3 [0, 0, 1] exPx (fun r => partition r.1 r.2 2) id)
      = (fun orc : MargOracle Int => orc ⟨exFilters, exFilters_local⟩ (0, 5))
        (oracle intOps 3 [0, 0, 1] exPx (fun r => [r]) List.reverse) :=
  balance_data_only intLaws (fun orc : MargOracle Int => orc ⟨exFilters, exFilters_local⟩ (0, 5))
    3 [0, 0, 1] exPx (fun r => partition r.1 r.2 2) (fun r => [r]) id List.reverse
    (fun r => partition_coversOnce _ r.1 r.2 (show 1 ≤ 2 by decide)) (fun r => single_coversOnce _ r.1 r.2)
    (fun l => List.Perm.refl l) (fun l => List.reverse_perm l)

-- a cis pass over the rows of chromosome 0 = rows [0:5) here; of chromosome 1: none
example : chromPixelRange [0, 0, 1] exPx 0 = (0, 5) ∧ chromPixelRange [0, 0, 1] exPx 1 = (5, 5) := by
  decide
-- dropping the tail span (the `np.arange(0, nnz, c)` mutation) changes the result: the theorem's
-- covering hypothesis is what rules it out
example : balanceReduce intOps 3 [0, 0, 1] exPx exFilters [(0, 2), (2, 4)] [0, 1]
    ≠ wholeMarginal intOps 3 [0, 0, 1] exPx exFilters 0 5 := by decide

/-! ## §7 histories: a run reads the data stored at that moment, and nothing else -/

theorem storedFrom_append {δ : Type} (w : Nat → Option δ) (h : List (Step δ)) (s : Step δ) :
    (h ++ [s]).foldl storeStep w = storeStep (h.foldl storeStep w) s := by
  simp [List.foldl_append]

/-- after a write the URI holds what was written, whatever the process did before -/
theorem stored_append_write {δ : Type} (h : List (Step δ)) (u : Nat) (d : δ) :
    stored (h ++ [.write u d]) u = some d := by
  simp [stored, List.foldl_append, storeStep]

/-- a write leaves every other URI alone -/
theorem stored_append_write_ne {δ : Type} (h : List (Step δ)) (u v : Nat) (d : δ) (hv : v ≠ u) :
    stored (h ++ [.write u d]) v = stored h v := by
  simp [stored, List.foldl_append, storeStep, hv]

/-- a run changes nothing that is stored -/
theorem stored_append_run {δ : Type} (h : List (Step δ)) (u : Nat) :
    stored (h ++ [.run u]) = stored h := by
  simp [stored, List.foldl_append, storeStep]

theorem observeFrom_append {δ ρ : Type} (eval : δ → ρ) (h₁ h₂ : List (Step δ)) (w : Nat → Option δ) :
    observeFrom eval w (h₁ ++ h₂)
      = observeFrom eval w h₁ ++ observeFrom eval (h₁.foldl storeStep w) h₂ := by
  induction h₁ generalizing w with
  | nil => simp [observeFrom]
  | cons s t ih =>
    cases s with
    | write u d => simp [observeFrom, ih, List.foldl_cons]
    | run u => simp [observeFrom, ih, List.foldl_cons, storeStep]

/-- **the result of a run is `eval` of the data stored at that moment**: whatever the history `h`
(other coolers visited, earlier contents of the same URI, earlier runs), a run on `u` appends
exactly `eval` of what `u` holds now, and earlier outputs are untouched -/
theorem observe_append_run {δ ρ : Type} (eval : δ → ρ) (h : List (Step δ)) (u : Nat) :
    observe eval (h ++ [.run u]) = observe eval h ++ [(stored h u).map eval] := by
  simp [observe, observeFrom_append, observeFrom, stored]

/-- writing `d` at `u` and running `u` returns `eval d` after every history -/
theorem run_after_write {δ ρ : Type} (eval : δ → ρ) (h : List (Step δ)) (u : Nat) (d : δ) :
    observe eval (h ++ [.write u d, .run u]) = observe eval h ++ [some (eval d)] := by
  have : h ++ [Step.write u d, Step.run u] = (h ++ [.write u d]) ++ [.run u] := by simp
  rw [this, observe_append_run, stored_append_write]
  simp [observe, observeFrom_append, observeFrom]

/-- **data only**: two processes with different pasts whose URI `u` holds the same content get the
same result from a run on `u` -/
theorem run_data_only {δ ρ : Type} (eval : δ → ρ) (h₁ h₂ : List (Step δ)) (u : Nat)
    (hs : stored h₁ u = stored h₂ u) :
    (observe eval (h₁ ++ [.run u])).getLast? = (observe eval (h₂ ++ [.run u])).getLast? := by
  simp [observe_append_run, hs]

/-- repeated runs return the same value -/
theorem run_repeat {δ ρ : Type} (eval : δ → ρ) (h : List (Step δ)) (u : Nat) :
    observe eval (h ++ [.run u, .run u])
      = observe eval h ++ [(stored h u).map eval, (stored h u).map eval] := by
  have : h ++ [Step.run u, Step.run u] = (h ++ [.run u]) ++ [.run u] := by simp
  rw [this, observe_append_run, observe_append_run, stored_append_run]
  simp

/-- one entry per run step -/
theorem observe_length {δ ρ : Type} (eval : δ → ρ) (h : List (Step δ)) :
    (observe eval h).length = h.countP (fun s => match s with | .run _ => true | .write _ _ => false) := by
  unfold observe
  generalize (emptyStore : Nat → Option δ) = w
  induction h generalizing w with
  | nil => simp [observeFrom]
  | cons s t ih => cases s <;> simp [observeFrom, ih]

-- non-vacuity: balance URI 0 holding content 7, replace it by 9 (URI 1 visited in between), balance
-- again: the second result is that of 9, the first that of 7
example : observe (fun d : Nat => d * d)
    [.write 0 7, .run 0, .write 1 5, .run 1, .write 0 9, .run 0, .run 2]
    = [some 49, some 25, some 81, none] := by decide
example : stored ([.write 0 7, .run 0, .write 0 9] : List (Step Nat)) 0 = some 9 := by decide

end Cooler.C11
