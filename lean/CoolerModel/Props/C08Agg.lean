import CoolerModel.Model.CoarsenAgg
import CoolerModel.Props.C08Core
import CoolerModel.Props.C07Agg
/-!
# C08 (continued) — coarsening with ANY requested aggregation

`coarsen_agg_eq_spec`: for every well-formed table, every `k ≥ 1`, ANY span edges satisfying the contract
`validPrunedEdges` and an ARBITRARY aggregation function `agg : List Int → Int` (no algebraic law
assumed), the coarsener's chunk stream concatenates to `coarsenSpecAgg`: one record per new key, in
storage order, carrying `agg` of the values of exactly the old pixels that `cmap` sends to that key, in
storage order of the old pixels.  This works because no coarse row is split between two spans
(`edge_boundary`): every group is aggregated in ONE `groupby`, never re-aggregated.  `sum` is the
instance covered by `coarsen_eq_spec` (`coarsenSpecAgg_sum`).
-/
set_option linter.unusedSimpArgs false
set_option linter.unusedVariables false

namespace Cooler.C08
open Cooler Cooler.Coarsen Cooler.Merge

/-- the stream with aggregation `agg` over row boundaries `a < b₁ < b₂ < …` -/
def aggFromAgg (agg : List Int → Int) (f : Nat → Nat) (px : Pixels) : Nat → List Nat → List Pixels
  | _, [] => []
  | a, b :: rest => groupAgg agg ((rowsSlice px a b).map (rekey f)) :: aggFromAgg agg f px b rest

/-- records re-keyed from rows `[a, b)` carry no key of a coarse row outside `[f a, f b)` -/
theorem valsAt_map_rows_out (f : Nat → Nat) (hmono : ∀ x y, x ≤ y → f x ≤ f y) (px : Pixels)
    (hs : RowSorted px) (a b : Nat) (hab : a ≤ b) (hb : Boundary f b) (i j : Nat)
    (hout : i < f a ∨ f b ≤ i) : valsAt ((rowsSlice px a b).map (rekey f)) i j = [] := by
  apply C07.valsAt_eq_nil_of_not_hasKey
  rintro ⟨q, hq, hqi, _⟩
  obtain ⟨q0, hq0, rfl⟩ := List.mem_map.mp hq
  obtain ⟨_, h1, h2⟩ := mem_rowsSlice px hs a b hab q0 hq0
  simp only [rekey] at hqi
  have := hmono a q0.i h1
  have := hb q0.i h2
  omega

/-- the values collected under a key from rows `[a, e)` come from `[a, b)` if the key's coarse row is below
`f b`, from `[b, e)` otherwise (`b` a boundary) -/
theorem valsAt_map_rows_split (f : Nat → Nat) (hmono : ∀ x y, x ≤ y → f x ≤ f y) (px : Pixels)
    (hs : RowSorted px) {a b e : Nat} (hab : a ≤ b) (hbe : b ≤ e) (hb : Boundary f b) (he : Boundary f e)
    (i j : Nat) :
    valsAt ((rowsSlice px a e).map (rekey f)) i j =
      if i < f b then valsAt ((rowsSlice px a b).map (rekey f)) i j
      else valsAt ((rowsSlice px b e).map (rekey f)) i j := by
  rw [← rowsSlice_append px hab hbe, List.map_append, C07.valsAt_append]
  by_cases hi : i < f b
  · simp only [hi, if_true]
    rw [valsAt_map_rows_out f hmono px hs b e hbe he i j (Or.inl hi), List.append_nil]
  · simp only [hi, if_false]
    rw [valsAt_map_rows_out f hmono px hs a b hab hb i j (Or.inr (by omega)), List.nil_append]

/-- the stream over a chain of boundaries with an arbitrary aggregation (template:
`C07.mergerAggFrom_spec`, `aggFrom_spec`) -/
theorem aggFromAgg_spec (agg : List Int → Int) (f : Nat → Nat) (hmono : ∀ x y, x ≤ y → f x ≤ f y)
    (px : Pixels) (hs : RowSorted px) :
    ∀ (bs : List Nat) (a : Nat), chainIncr a bs = true → (∀ r ∈ bs, Boundary f r) →
      let e := (a :: bs).getLast?.getD 0
      let out := (aggFromAgg agg f px a bs).flatten
      StrictSorted out ∧ (∀ p ∈ out, f a ≤ p.i ∧ p.i < f e) ∧
        (∀ i j, hasKey out i j ↔ hasKey ((rowsSlice px a e).map (rekey f)) i j) ∧
        (∀ p ∈ out, p.v = agg (valsAt ((rowsSlice px a e).map (rekey f)) p.i p.j)) := by
  intro bs
  induction bs with
  | nil =>
    intro a _ _
    simp only [aggFromAgg, List.flatten_nil, List.getLast?_singleton, Option.getD_some, rowsSlice_self,
      List.map_nil]
    refine ⟨by simp [StrictSorted], by simp, fun _ _ => trivial, by simp⟩
  | cons b rest ih =>
    intro a h hb
    simp only [chainIncr, Bool.and_eq_true, decide_eq_true_eq] at h
    obtain ⟨hab, hrest⟩ := h
    have hbe := C07.chainIncr_last_ge rest b hrest
    obtain ⟨ih1, ih2, ih3, ih4⟩ := ih b hrest (fun r hr => hb r (List.mem_cons_of_mem _ hr))
    have hbb : Boundary f b := hb b (by simp)
    -- the last element of the chain is a boundary too
    have hbe' : Boundary f ((b :: rest).getLast?.getD 0) := by
      have hmem : (b :: rest).getLast?.getD 0 ∈ b :: rest := by
        rw [List.getLast?_eq_some_getLast (by simp)]
        simp [List.getLast_mem]
      exact hb _ hmem
    simp only [List.getLast?_cons_cons] at *
    simp only [aggFromAgg, List.flatten_cons]
    have hrows1 : ∀ p ∈ groupAgg agg ((rowsSlice px a b).map (rekey f)), f a ≤ p.i ∧ p.i < f b := by
      intro p hp
      obtain ⟨q, hq, hqi, _⟩ := C07.mem_groupAgg_row agg _ p hp
      obtain ⟨q0, hq0, rfl⟩ := List.mem_map.mp hq
      obtain ⟨_, h1, h2⟩ := mem_rowsSlice px hs a b (by omega) q0 hq0
      simp only [rekey] at hqi
      have := hmono a q0.i h1
      have := hbb q0.i h2
      omega
    have hfbe := hmono b _ hbe
    refine ⟨?_, ?_, ?_, ?_⟩
    · unfold StrictSorted
      rw [List.pairwise_append]
      refine ⟨C07.groupAgg_sorted agg _, ih1, ?_⟩
      intro p hp q hq
      have h1 := hrows1 p hp
      have h2 := ih2 q hq
      unfold keyLt; omega
    · intro p hp
      rcases List.mem_append.mp hp with h1 | h1
      · have := hrows1 p h1; omega
      · have := ih2 p h1
        have := hmono a b (by omega)
        omega
    · intro i j
      rw [hasKey_append, C07.hasKey_groupAgg, ih3, ← hasKey_map_append,
        rowsSlice_append px (Nat.le_of_lt hab) hbe]
    · intro p hp
      rw [valsAt_map_rows_split f hmono px hs (Nat.le_of_lt hab) hbe hbb hbe']
      rcases List.mem_append.mp hp with h1 | h1
      · have := hrows1 p h1
        simp only [this.2, if_true]
        exact C07.val_groupAgg agg _ p h1
      · have := ih2 p h1
        have hnb : ¬ p.i < f b := by omega
        simp only [hnb, if_false]
        exact ih4 p h1

theorem streamAgg_eq_aggFromAgg (agg : List Int → Int) (f : Nat → Nat) (px : Pixels) :
    ∀ (bs : List Nat) (a : Nat),
      coarsenStreamAgg agg f px ((a :: bs).map (off px)) = aggFromAgg agg f px a bs := by
  intro bs
  induction bs with
  | nil => intro a; simp [coarsenStreamAgg, spansOf, aggFromAgg]
  | cons b rest ih =>
    intro a
    have := ih b
    simp only [coarsenStreamAgg, spansOf, List.map_cons, List.tail_cons, List.zip_cons_cons, aggFromAgg] at this ⊢
    rw [this]
    rfl

/-- core form over the chromosome bin counts (cf. `coarsen_eq_spec_counts`) -/
theorem coarsen_agg_eq_spec_counts (agg : List Int → Int) (k : Nat) (hk : 1 ≤ k) (counts : List Nat)
    (px : Pixels) (hs : StrictSorted px) (hr : InRange counts.sum px)
    (rb : Nat → Nat) (hrb : ∀ x, x < counts.sum → rb x = cmapCounts k counts x)
    (co : List Nat) (hco : OffsSpec counts co) (es : List Nat)
    (hv : validPrunedEdges (coarsenEdges k co (csrIndex px counts.sum)) es = true) :
    (coarsenStreamAgg agg rb px es).flatten = groupAgg agg (px.map (rekey (cmapCounts k counts))) := by
  have hrs : RowSorted px := C03.StrictSorted.rowSorted hs
  let f := cmapCounts k counts
  have hcongr : coarsenStreamAgg agg rb px es = coarsenStreamAgg agg f px es := by
    unfold coarsenStreamAgg
    apply List.map_congr_left
    intro s _
    unfold aggregateSpanAgg
    congr 1
    apply List.map_congr_left
    intro p hp
    have hpm : p ∈ px := by
      unfold slicePx at hp
      exact List.mem_of_mem_drop (List.mem_of_mem_take hp)
    have := hr p hpm
    simp only [rekey, hrb p.i this.1, hrb p.j this.2, f]
  rw [hcongr]
  cases es with
  | nil => simp [validPrunedEdges] at hv
  | cons e0 rest =>
    simp only [validPrunedEdges, Bool.and_eq_true, decide_eq_true_eq, List.all_eq_true,
      List.contains_iff_mem] at hv
    obtain ⟨⟨⟨h0, hchain⟩, hlast⟩, hmem⟩ := hv
    obtain ⟨r0, rs, heq, hch, hP⟩ := lift_chain px (fun r => r ≤ counts.sum ∧ EdgeRow k counts r) rest e0 hchain
      (fun e he => by
        obtain ⟨r, h1, h2, h3⟩ := mem_coarsenEdges k hk counts co hco px e (hmem e he)
        exact ⟨r, ⟨h1, h2⟩, h3⟩)
    rw [heq, streamAgg_eq_aggFromAgg]
    have hbound : ∀ r ∈ rs, Boundary f r := fun r hr' =>
      edge_boundary k hk counts r (hP r (List.mem_cons_of_mem _ hr')).2
    obtain ⟨g1, _, g3, g4⟩ := aggFromAgg_spec agg f (cmapCounts_mono k hk counts) px hrs rs r0 hch hbound
    have hfirst : off px r0 = 0 := by
      have := congrArg List.head? heq
      simp only [List.head?_cons, List.map_cons, Option.some.injEq] at this
      omega
    have hend : off px ((r0 :: rs).getLast?.getD 0) = px.length := by
      rw [← getLast_map_off, ← heq, hlast, coarsenEdges_getLast, csrIndex_getLast, off_eq_length px _ hr]
    have hall : rowsSlice px r0 ((r0 :: rs).getLast?.getD 0) = px := by
      unfold rowsSlice slicePx
      rw [hfirst, hend]; simp
    simp only [hall] at g3 g4
    exact C07.groupAgg_eq_of agg _ _ g1 g3 g4

/-- **coarsen_agg_eq_spec**: for every well-formed table, every `k ≥ 1`, every strictly sorted in-range
pixel table, ANY span edges satisfying `validPrunedEdges` and ANY aggregation function, the coarsener's
chunk stream (re-binned through the new table's `GenomeSegmentation`, one `groupby(...).aggregate(agg)`
per span) concatenates to `coarsenSpecAgg`: per new pixel, `agg` of the values of exactly the old pixels
falling into it, in storage order of the old pixels. -/
theorem coarsen_agg_eq_spec (agg : List Int → Int) (k : Nat) (hk : 1 ≤ k) (gs : List (List Bin)) (hwf : WF gs)
    (px : Pixels) (hs : StrictSorted px) (hr : InRange gs.flatten.length px) (es : List Nat)
    (hv : validPrunedEdges (coarsenEdges k (chromOffsets gs.flatten gs.length)
      (csrIndex px gs.flatten.length)) es = true) :
    (coarsenStreamAgg agg (rebinId (mkSeg (gs.map lastStop) (coarsenBins k (gs.map lastStop) gs.flatten))
      gs.flatten) px es).flatten = coarsenSpecAgg agg k gs.flatten px := by
  rw [(coarsenBins_wf k hk gs hwf).1]
  unfold coarsenSpecAgg coarsenSpecAggG
  rw [groups_flatten gs 0 (WF.from gs hwf)]
  have hsum := sum_counts_eq_length gs
  apply coarsen_agg_eq_spec_counts agg k hk (gs.map List.length) px hs (by rw [hsum]; exact hr) _ _
    (chromOffsets gs.flatten gs.length) (offsSpec_chromOffsets gs hwf) es (by rw [hsum]; exact hv)
  intro x hx
  rw [hsum] at hx
  exact rebin_correct k hk gs hwf x hx

/-- **coarsen_agg_chunk_independent**: two valid span partitions (two chunk sizes) give the same table,
for any aggregation -/
theorem coarsen_agg_chunk_independent (agg : List Int → Int) (k : Nat) (hk : 1 ≤ k) (gs : List (List Bin))
    (hwf : WF gs) (px : Pixels) (hs : StrictSorted px) (hr : InRange gs.flatten.length px) (e1 e2 : List Nat)
    (h1 : validPrunedEdges (coarsenEdges k (chromOffsets gs.flatten gs.length)
      (csrIndex px gs.flatten.length)) e1 = true)
    (h2 : validPrunedEdges (coarsenEdges k (chromOffsets gs.flatten gs.length)
      (csrIndex px gs.flatten.length)) e2 = true) :
    (coarsenStreamAgg agg (rebinId (mkSeg (gs.map lastStop) (coarsenBins k (gs.map lastStop) gs.flatten))
      gs.flatten) px e1).flatten =
    (coarsenStreamAgg agg (rebinId (mkSeg (gs.map lastStop) (coarsenBins k (gs.map lastStop) gs.flatten))
      gs.flatten) px e2).flatten := by
  rw [coarsen_agg_eq_spec agg k hk gs hwf px hs hr e1 h1, coarsen_agg_eq_spec agg k hk gs hwf px hs hr e2 h2]

/-- **coarsen_agg_correct**: the whole modelled pipeline with the modelled pruning (any chunk size `≥ 1`)
and any aggregation is the specification -/
theorem coarsen_agg_correct (agg : List Int → Int) (k cs : Nat) (hk : 1 ≤ k) (hcs : 1 ≤ cs)
    (gs : List (List Bin)) (hwf : WF gs) (px : Pixels) (hs : StrictSorted px)
    (hr : InRange gs.flatten.length px) :
    coarsenAgg agg k cs (gs.map lastStop) gs.flatten px = coarsenSpecAgg agg k gs.flatten px := by
  unfold coarsenAgg
  simp only [List.length_map]
  have hsum := sum_counts_eq_length gs
  have hco := offsSpec_chromOffsets gs hwf
  have hpos : ∀ n ∈ gs.map List.length, 1 ≤ n := by
    intro n hn
    obtain ⟨g, hg, rfl⟩ := List.mem_map.mp hn
    obtain ⟨c, hc, rfl⟩ := List.getElem_of_mem hg
    exact List.length_pos_iff.mpr (hwf c hc).1.1
  have h1 := coarsenEdges_sorted k hk _ _ hco px
  have h2 := coarsenEdges_head k hk _ _ hco hpos px
  rw [hsum] at h1 h2
  exact coarsen_agg_eq_spec agg k hk gs hwf px hs hr _ (prune_contract _ h1 h2 cs hcs)

/-- `sum` is the instance already covered by `coarsen_eq_spec` -/
theorem coarsenSpecAgg_sum (k : Nat) (bins : BinTable) (px : Pixels) :
    coarsenSpecAgg listSum k bins px = coarsenSpec k bins px := by
  unfold coarsenSpecAgg coarsenSpecAggG coarsenSpec coarsenSpecG
  exact C07.groupAgg_sum _

/-- every stored value is `agg` of exactly the old pixels that fall into the new pixel -/
theorem coarsen_agg_pointwise (agg : List Int → Int) (k : Nat) (gs : List (List Bin)) (px : Pixels) :
    StrictSorted (coarsenSpecAggG agg k gs px) ∧
    (∀ i j, hasKey (coarsenSpecAggG agg k gs px) i j ↔ ∃ p ∈ px, cmapG k gs p.i = i ∧ cmapG k gs p.j = j) ∧
    ∀ p ∈ coarsenSpecAggG agg k gs px, p.v = agg (valsAt (px.map (rekey (cmapG k gs))) p.i p.j) := by
  unfold coarsenSpecAggG
  refine ⟨C07.groupAgg_sorted agg _, ?_, fun p hp => C07.val_groupAgg agg _ p hp⟩
  intro i j
  rw [C07.hasKey_groupAgg]
  unfold hasKey
  constructor
  · rintro ⟨q, hq, h⟩
    obtain ⟨p, hp, rfl⟩ := List.mem_map.mp hq
    exact ⟨p, hp, h⟩
  · rintro ⟨p, hp, h⟩
    exact ⟨rekey (cmapG k gs) p, List.mem_map_of_mem hp, h⟩

/-- non-vacuity: `last` (order-sensitive) and `max` on the D1 regression table, `k = 2`, spans `[0, 2, 5]` -/
example :
    let gs : List (List Bin) := [[⟨0, 0, 10⟩, ⟨0, 10, 20⟩, ⟨0, 20, 30⟩, ⟨0, 30, 40⟩, ⟨0, 40, 65⟩, ⟨0, 65, 70⟩],
      [⟨1, 0, 10⟩, ⟨1, 10, 20⟩]]
    let px : Pixels := [⟨0, 0, 9⟩, ⟨0, 1, 4⟩, ⟨1, 1, 2⟩, ⟨4, 6, 3⟩, ⟨5, 7, 1⟩, ⟨6, 7, 4⟩]
    let rb := rebinId (mkSeg (gs.map lastStop) (coarsenBins 2 (gs.map lastStop) gs.flatten)) gs.flatten
    wfB gs = true ∧ strictSortedB px = true ∧ inRangeB 8 px = true ∧
    validPrunedEdges (coarsenEdges 2 (chromOffsets gs.flatten 2) (csrIndex px 8)) [0, 3, 6] = true ∧
    (coarsenStreamAgg (fun vs => vs.getLastD 0) rb px [0, 3, 6]).flatten = [⟨0, 0, 2⟩, ⟨2, 3, 1⟩, ⟨3, 3, 4⟩] ∧
    (coarsenStreamAgg (fun vs => match vs with | [] => 0 | v :: r => r.foldl max v) rb px [0, 3, 6]).flatten
      = [⟨0, 0, 9⟩, ⟨2, 3, 3⟩, ⟨3, 3, 4⟩] := by decide

end Cooler.C08
