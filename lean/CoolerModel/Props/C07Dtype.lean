import CoolerModel.Model.MergeDtype
import CoolerModel.Props.C07Agg
/-!
# C07 (continued) — the dtype clause

"A stored value is never silently different from the exact aggregate: an aggregate that does not fit the
output type is an error."

* `merge_exact_or_error`: with an integer output column of any width and signedness the merge either stores
  exactly the per-pixel aggregate, or refuses — and it refuses exactly when an unchecked write would have
  altered a value (`checkedWrite_none_iff_clip`, the statement of `C01.checkedWrite_refuses_iff`), i.e. when some exact aggregate is outside the column's
  range (`mergeTyped_refuses_iff`).
* `mergerTyped_eq`: checking chunk by chunk (what `write_pixels` does on the merger's stream) decides the same,
  for every valid epoch partition: whether a merge is refused does not depend on the merge buffer.
* `commonInt_holds`: with `dtypes` omitted the output column holds every value any input column can hold, so
  it is only ever an AGGREGATE that can fail to fit.
* `fitsFloat_iff`: the significand test is "`|v| = c · 2^k` with `c < 2^mant`".
-/
set_option linter.unusedSimpArgs false
set_option linter.unusedVariables false

namespace Cooler.C07
open Cooler Cooler.Merge Cooler.Create Cooler.MergeDtype

/-! ## the checked write on one column -/

theorem checkedWrite_eq (signed : Bool) (bits : Nat) (vs : List Int) :
    checkedWrite signed bits vs = if vs.all (fitsInt signed bits) then some vs else none := rfl

theorem checkedWrite_isSome_iff (signed : Bool) (bits : Nat) (vs : List Int) :
    (∃ w, checkedWrite signed bits vs = some w) ↔ ∀ v ∈ vs, fitsInt signed bits v = true := by
  rw [checkedWrite_eq]
  by_cases h : vs.all (fitsInt signed bits) = true
  · rw [if_pos h]
    exact ⟨fun _ => List.all_eq_true.mp h, fun _ => ⟨vs, rfl⟩⟩
  · rw [if_neg h]
    constructor
    · rintro ⟨w, hw⟩; cases hw
    · intro hall; exact absurd (List.all_eq_true.mpr hall) h

/-- a column stores a value unchanged iff the value fits its dtype (an unchecked write of anything else
saturates).  Same statements as `C01.clipInt_eq_iff` / `C01.checkedWrite_refuses_iff`, about the same
definitions of `Model/Create.lean`; proved here again because the theorem file of C01 is built on top of C06
and C07 and cannot be imported from C07. -/
theorem clip_eq_iff_fits (signed : Bool) (bits : Nat) (v : Int) :
    clipInt signed bits v = v ↔ fitsInt signed bits v = true := by
  simp only [clipInt, fitsInt, Bool.and_eq_true, decide_eq_true_eq]
  constructor
  · intro h
    by_cases h1 : v < dtypeLo signed bits
    · rw [if_pos h1] at h; omega
    · rw [if_neg h1] at h
      by_cases h2 : dtypeHi signed bits < v
      · rw [if_pos h2] at h; omega
      · omega
  · intro ⟨h1, h2⟩
    rw [if_neg (by omega), if_neg (by omega)]

theorem checkedWrite_none_iff_clip (signed : Bool) (bits : Nat) (vs : List Int) :
    checkedWrite signed bits vs = none ↔ vs.map (clipInt signed bits) ≠ vs := by
  rw [checkedWrite_eq]
  have key : vs.all (fitsInt signed bits) = true ↔ vs.map (clipInt signed bits) = vs := by
    induction vs with
    | nil => simp
    | cons v rest ih =>
      simp only [List.all_cons, Bool.and_eq_true, List.map_cons, List.cons.injEq]
      rw [ih, clip_eq_iff_fits]
  by_cases hall : vs.all (fitsInt signed bits) = true
  · rw [if_pos hall]
    constructor
    · intro h; cases h
    · intro h; exact absurd (key.mp hall) h
  · rw [if_neg hall]
    exact ⟨fun _ h => hall (key.mpr h), fun _ => rfl⟩

/-! ## L0: exact or refused -/

/-- a merge that is not refused stores exactly the per-pixel aggregate of the inputs -/
theorem mergeTyped_exact (agg : List Int → Int) (signed : Bool) (bits : Nat) (inputs : List Pixels) (out : Pixels)
    (h : mergeTyped agg signed bits inputs = some out) : out = mergeSpecAgg agg inputs := by
  unfold mergeTyped at h
  cases hw : checkedWrite signed bits ((mergeSpecAgg agg inputs).map Px.v) with
  | none => rw [hw] at h; cases h
  | some w => rw [hw] at h; exact (Option.some.inj h).symm

/-- it is refused exactly when some exact aggregate is outside the range of the output column -/
theorem mergeTyped_refuses_iff (agg : List Int → Int) (signed : Bool) (bits : Nat) (inputs : List Pixels) :
    mergeTyped agg signed bits inputs = none ↔
      ∃ p ∈ mergeSpecAgg agg inputs, fitsInt signed bits p.v = false := by
  unfold mergeTyped
  rw [checkedWrite_eq]
  by_cases h : ((mergeSpecAgg agg inputs).map Px.v).all (fitsInt signed bits) = true
  · rw [if_pos h]
    constructor
    · intro hh; cases hh
    · rintro ⟨p, hp, hf⟩
      have := List.all_eq_true.mp h p.v (List.mem_map.mpr ⟨p, hp, rfl⟩)
      rw [hf] at this; cases this
  · rw [if_neg h]
    refine ⟨fun _ => ?_, fun _ => rfl⟩
    rw [List.all_eq_true] at h
    have h' : ∃ v ∈ (mergeSpecAgg agg inputs).map Px.v, ¬ fitsInt signed bits v = true := by
      exact Classical.not_forall_not.mp (fun hn => h (fun v hv => Classical.not_not.mp (fun hc => hn v ⟨hv, hc⟩)))
    obtain ⟨v, hv, hnf⟩ := h'
    obtain ⟨p, hp, rfl⟩ := List.mem_map.mp hv
    exact ⟨p, hp, by cases hb : fitsInt signed bits p.v <;> simp_all⟩

/-- **merge_exact_or_error.**  Whatever the integer output type: the stored values are the exact aggregate,
or the merge is refused — and then an unchecked write WOULD have stored something else (saturation), so no
refusal is spurious. -/
theorem merge_exact_or_error (agg : List Int → Int) (signed : Bool) (bits : Nat) (inputs : List Pixels) :
    mergeTyped agg signed bits inputs = some (mergeSpecAgg agg inputs) ∨
    (mergeTyped agg signed bits inputs = none ∧
      ((mergeSpecAgg agg inputs).map Px.v).map (clipInt signed bits) ≠ (mergeSpecAgg agg inputs).map Px.v) := by
  unfold mergeTyped
  cases hw : checkedWrite signed bits ((mergeSpecAgg agg inputs).map Px.v) with
  | none => exact Or.inr ⟨rfl, (checkedWrite_none_iff_clip signed bits _).mp hw⟩
  | some w => exact Or.inl rfl

/-- the refusal does not depend on the order of the inputs (permutation-invariant aggregates) -/
theorem mergeTyped_comm (agg : List Int → Int) (hagg : ∀ u v : List Int, u.Perm v → agg u = agg v)
    (signed : Bool) (bits : Nat) (in1 in2 : List Pixels) (h : in1.Perm in2) :
    mergeTyped agg signed bits in1 = mergeTyped agg signed bits in2 := by
  unfold mergeTyped
  rw [merge_agg_comm agg hagg in1 in2 h]

/-! ## L1: the chunk stream through the checked write -/

theorem writeChunks_eq (signed : Bool) (bits : Nat) (cs : List Pixels) :
    writeChunks signed bits cs =
      if (cs.flatten.map Px.v).all (fitsInt signed bits) then some cs else none := by
  induction cs with
  | nil => rfl
  | cons c rest ih =>
    have hall : ((c :: rest).flatten.map Px.v).all (fitsInt signed bits) =
        ((c.map Px.v).all (fitsInt signed bits) && (rest.flatten.map Px.v).all (fitsInt signed bits)) := by
      rw [List.flatten_cons, List.map_append, List.all_append]
    rw [hall, writeChunks, ih, checkedWrite_eq]
    cases (c.map Px.v).all (fitsInt signed bits) <;>
      cases (rest.flatten.map Px.v).all (fitsInt signed bits) <;> rfl

/-- **mergerTyped_eq.**  For strictly sorted inputs and ANY valid epoch partition, checking the merger's
stream chunk by chunk gives the outcome of the specification: the same refusals, the same stored values. -/
theorem mergerTyped_eq (agg : List Int → Int) (signed : Bool) (bits : Nat) (inputs : List Pixels)
    (hs : ∀ ps ∈ inputs, StrictSorted ps) (bs : List Nat) (hv : ValidPartition inputs 0 bs) :
    mergerTyped agg signed bits inputs (0 :: bs) = mergeTyped agg signed bits inputs := by
  unfold mergerTyped mergeTyped
  rw [writeChunks_eq, checkedWrite_eq, merger_agg_eq_spec agg inputs hs bs hv]
  by_cases h : ((mergeSpecAgg agg inputs).map Px.v).all (fitsInt signed bits) = true
  · simp only [h, if_true, Option.map_some, merger_agg_eq_spec agg inputs hs bs hv]
  · simp only [h, if_false, Option.map_none, Bool.false_eq_true]

/-- whether a merge is refused does not depend on the merge buffer -/
theorem mergeTyped_buffer_independent (agg : List Int → Int) (signed : Bool) (bits : Nat) (inputs : List Pixels)
    (hs : ∀ ps ∈ inputs, StrictSorted ps) (b1 b2 : List Nat)
    (h1 : ValidPartition inputs 0 b1) (h2 : ValidPartition inputs 0 b2) :
    mergerTyped agg signed bits inputs (0 :: b1) = mergerTyped agg signed bits inputs (0 :: b2) := by
  rw [mergerTyped_eq agg signed bits inputs hs b1 h1, mergerTyped_eq agg signed bits inputs hs b2 h2]

/-- non-vacuity: uint32 inputs summed into int32 — 2 700 000 000 does not fit and the merge is refused; into
uint32 it is stored; one row per epoch decides the same -/
example : mergeTyped listSum true 32 [[⟨0, 1, 1500000000⟩, ⟨1, 2, 5⟩], [⟨0, 1, 1200000000⟩]] = none ∧
    mergeTyped listSum false 32 [[⟨0, 1, 1500000000⟩, ⟨1, 2, 5⟩], [⟨0, 1, 1200000000⟩]]
      = some [⟨0, 1, 2700000000⟩, ⟨1, 2, 5⟩] ∧
    mergerTyped listSum true 32 [[⟨0, 1, 1500000000⟩, ⟨1, 2, 5⟩], [⟨0, 1, 1200000000⟩]] [0, 1, 2, 3] = none ∧
    mergerTyped listSum true 64 [[⟨0, 1, 1500000000⟩, ⟨1, 2, 5⟩], [⟨0, 1, 1200000000⟩]] [0, 1, 2, 3]
      = some [⟨0, 1, 2700000000⟩, ⟨1, 2, 5⟩] := by decide

/-- non-vacuity: two int64 inputs holding 2^62 — the exact aggregate 2^63 fits no signed 64-bit column -/
example : mergeTyped listSum true 64 [[⟨0, 1, 4611686018427387904⟩], [⟨0, 1, 4611686018427387904⟩]] = none ∧
    mergeTyped listSum false 64 [[⟨0, 1, 4611686018427387904⟩], [⟨0, 1, 4611686018427387904⟩]]
      = some [⟨0, 1, 9223372036854775808⟩] := by decide

/-! ## widths and signedness: what a type holds -/

theorem two_pow_mono {a b : Nat} (h : a ≤ b) : (2 : Int) ^ a ≤ 2 ^ b := by
  have : (2 : Nat) ^ a ≤ 2 ^ b := Nat.pow_le_pow_right (by decide) h
  exact_mod_cast this

theorem two_pow_pos (a : Nat) : (0 : Int) < 2 ^ a := by
  have : 0 < (2 : Nat) ^ a := Nat.two_pow_pos _
  exact_mod_cast this

theorem two_pow_succ (a : Nat) : (2 : Int) ^ (a + 1) = 2 * 2 ^ a := by
  rw [Int.pow_succ]; omega

/-- same signedness, at least as wide: holds everything the narrower type holds -/
theorem fitsInt_widen (signed : Bool) {b b' : Nat} (hb : b ≤ b') (v : Int)
    (h : fitsInt signed b v = true) : fitsInt signed b' v = true := by
  cases signed with
  | true =>
    simp only [fitsInt, dtypeLo, dtypeHi, Bool.and_eq_true, decide_eq_true_eq, if_true] at h ⊢
    have := two_pow_mono (a := b - 1) (b := b' - 1) (by omega)
    omega
  | false =>
    simp only [fitsInt, dtypeLo, dtypeHi, Bool.and_eq_true, decide_eq_true_eq, Bool.false_eq_true, if_false] at h ⊢
    have := two_pow_mono hb
    omega

/-- an unsigned type is held by every STRICTLY wider signed type -/
theorem fitsInt_unsigned_to_signed {b b' : Nat} (hb : b < b') (v : Int)
    (h : fitsInt false b v = true) : fitsInt true b' v = true := by
  simp only [fitsInt, dtypeLo, dtypeHi, Bool.and_eq_true, decide_eq_true_eq, Bool.false_eq_true, if_false,
    if_true] at *
  have h1 := two_pow_mono (a := b) (b := b' - 1) (by omega)
  have h2 := two_pow_pos (b' - 1)
  omega

/-- the signed/unsigned gaps of one width are real (the family the dtype clause lives in) -/
theorem fitsInt_gap (b : Nat) (hb : 1 ≤ b) :
    fitsInt false b (2 ^ (b - 1)) = true ∧ fitsInt true b (2 ^ (b - 1)) = false ∧
    fitsInt true b (-1) = true ∧ fitsInt false b (-1) = false := by
  simp only [fitsInt, dtypeLo, dtypeHi, Bool.and_eq_true, decide_eq_true_eq, Bool.false_eq_true, if_false,
    if_true, Bool.and_eq_false_iff, decide_eq_false_iff_not]
  have h1 := two_pow_pos (b - 1)
  have h2 : (2 : Int) ^ b = 2 * 2 ^ (b - 1) := by
    have : b = (b - 1) + 1 := by omega
    rw [this, two_pow_succ]; simp
  refine ⟨⟨by omega, by omega⟩, Or.inr (by omega), ⟨by omega, by omega⟩, Or.inl (by omega)⟩

/-! ## `dtypes` omitted: the common type holds every input value -/

theorem maxBits_foldl_ge (signed : Bool) (ts : List (Bool × Nat)) (m : Nat) :
    m ≤ ts.foldl (fun m t => if t.1 = signed then max m t.2 else m) m := by
  induction ts generalizing m with
  | nil => exact Nat.le_refl _
  | cons t rest ih =>
    simp only [List.foldl_cons]
    by_cases h : t.1 = signed
    · rw [if_pos h]; exact Nat.le_trans (Nat.le_max_left _ _) (ih _)
    · rw [if_neg h]; exact ih _

theorem maxBits_foldl_mem (signed : Bool) (ts : List (Bool × Nat)) (m b : Nat) (h : (signed, b) ∈ ts) :
    b ≤ ts.foldl (fun m t => if t.1 = signed then max m t.2 else m) m := by
  induction ts generalizing m with
  | nil => cases h
  | cons t rest ih =>
    simp only [List.foldl_cons]
    rcases List.mem_cons.mp h with rfl | h'
    · simp only [if_true]
      exact Nat.le_trans (Nat.le_max_right _ _) (maxBits_foldl_ge _ _ _)
    · exact ih _ h'

theorem le_maxBits (signed : Bool) (ts : List (Bool × Nat)) (b : Nat) (h : (signed, b) ∈ ts) :
    b ≤ maxBits signed ts := maxBits_foldl_mem signed ts 0 b h

/-- **commonInt_holds.**  Whenever the inputs' integer types have a common integer type, it holds every value
any of the input types holds: with `dtypes` omitted a merge can only be refused because an AGGREGATE does
not fit, never because of a value an input holds. -/
theorem commonInt_holds (ts : List (Bool × Nat)) (hpos : ∀ t ∈ ts, 1 ≤ t.2) (s : Bool) (b : Nat)
    (hc : commonInt ts = some (s, b)) (s0 : Bool) (b0 : Nat) (hmem : (s0, b0) ∈ ts) (v : Int)
    (hv : fitsInt s0 b0 v = true) : fitsInt s b v = true := by
  have hle := le_maxBits s0 ts b0 hmem
  have hb0 := hpos _ hmem
  simp only at hb0
  unfold commonInt at hc
  simp only at hc
  by_cases h1 : maxBits true ts = 0
  · rw [if_pos h1] at hc
    obtain ⟨rfl, rfl⟩ := Prod.mk.inj (Option.some.inj hc)
    cases s0 with
    | true => omega
    | false => exact fitsInt_widen false hle v hv
  · rw [if_neg h1] at hc
    by_cases h2 : maxBits false ts < maxBits true ts
    · rw [if_pos h2] at hc
      obtain ⟨rfl, rfl⟩ := Prod.mk.inj (Option.some.inj hc)
      cases s0 with
      | true => exact fitsInt_widen true hle v hv
      | false => exact fitsInt_unsigned_to_signed (by omega) v hv
    · rw [if_neg h2] at hc
      by_cases h3 : 2 * maxBits false ts ≤ 64
      · rw [if_pos h3] at hc
        obtain ⟨rfl, rfl⟩ := Prod.mk.inj (Option.some.inj hc)
        cases s0 with
        | true => exact fitsInt_widen true (by omega) v hv
        | false => exact fitsInt_unsigned_to_signed (by omega) v hv
      · rw [if_neg h3] at hc; cases hc

/-- non-vacuity: numpy's table on the corners -/
example : commonInt [(false, 32), (true, 32)] = some (true, 64) ∧ commonInt [(false, 16), (true, 64)] = some (true, 64) ∧
    commonInt [(false, 8), (false, 32)] = some (false, 32) ∧ commonInt [(true, 8), (true, 16)] = some (true, 16) ∧
    commonInt [(false, 64), (true, 8)] = none ∧ commonInt [(false, 32)] = some (false, 32) := by decide

example : common [.int false 64, .int true 64] = .float 53 ∧ common [.int true 16, .float 24] = .float 24 ∧
    common [.int true 32, .float 24] = .float 53 ∧ common [.int false 8, .int true 8] = .int true 16 := by decide

/-! ## float columns: which integers a significand holds -/

/-- **fitsFloat_iff**: the test is "`|v|` is a `mant`-bit number times a power of two" -/
theorem fitsFloat_iff (mant : Nat) (v : Int) :
    fitsFloat mant v = true ↔ ∃ c k : Nat, c < 2 ^ mant ∧ v.natAbs = c * 2 ^ k := by
  unfold fitsFloat
  simp only [decide_eq_true_eq]
  generalize v.natAbs = a
  by_cases ha : a = 0
  · subst ha
    simp only [Nat.zero_mod, true_iff]
    exact ⟨0, 0, Nat.two_pow_pos _, by simp⟩
  have hlo : 2 ^ a.log2 ≤ a := Nat.log2_self_le ha
  have hhi : a < 2 ^ (a.log2 + 1) := Nat.lt_log2_self
  constructor
  · intro h
    refine ⟨a / 2 ^ (a.log2 + 1 - mant), a.log2 + 1 - mant, ?_, ?_⟩
    · rw [Nat.div_lt_iff_lt_mul (Nat.two_pow_pos _)]
      have : 2 ^ (a.log2 + 1) ≤ 2 ^ mant * 2 ^ (a.log2 + 1 - mant) := by
        rw [← Nat.pow_add]
        exact Nat.pow_le_pow_right (by decide) (by omega)
      omega
    · exact (Nat.div_mul_cancel (Nat.dvd_of_mod_eq_zero h)).symm
  · rintro ⟨c, k, hc, hak⟩
    apply Nat.mod_eq_zero_of_dvd
    have hck : a < 2 ^ (mant + k) := by
      rw [hak, Nat.pow_add]
      exact Nat.mul_lt_mul_of_pos_right hc (Nat.two_pow_pos _)
    have hlt : a.log2 < mant + k := by
      have : 2 ^ a.log2 < 2 ^ (mant + k) := Nat.lt_of_le_of_lt hlo hck
      exact (Nat.pow_lt_pow_iff_right (by decide)).mp this
    have hle : a.log2 + 1 - mant ≤ k := by omega
    have hk : 2 ^ k ∣ a := hak ▸ Nat.dvd_mul_left _ _
    exact Nat.dvd_trans (Nat.pow_dvd_pow 2 hle) hk

/-- non-vacuity: 2^24 + 1 is the first integer float32 does not hold; 3·10^9 and 2^63 it holds -/
example : fitsFloat 24 16777216 = true ∧ fitsFloat 24 16777217 = false ∧ fitsFloat 24 3000000000 = true ∧
    fitsFloat 24 9223372036854775808 = true ∧ fitsFloat 53 9007199254740993 = false ∧
    fitsFloat 53 (-9007199254740992) = true ∧ fitsFloat 53 9223372036854775807 = false := by decide

/-! ## the variant oracle of the known findings D32 / D33: where it deviates from the specification -/

/-- D32's signature, exactly: a 64-bit accumulator returns the aggregate unchanged iff it can hold it -/
theorem wrap64_eq_iff (signed : Bool) (v : Int) : wrap64 signed v = v ↔ fitsInt signed 64 v = true := by
  have e63 : (2 : Int) ^ 63 = 9223372036854775808 := by decide
  have e64 : (2 : Int) ^ 64 = 18446744073709551616 := by decide
  cases signed with
  | true =>
    simp only [wrap64, fitsInt, dtypeLo, dtypeHi, Bool.true_and, if_true, Bool.and_eq_true, decide_eq_true_eq,
      show (64 : Nat) - 1 = 63 from rfl, e63]
    constructor
    · intro h; split at h <;> omega
    · intro h; split <;> omega
  | false =>
    simp only [wrap64, fitsInt, dtypeLo, dtypeHi, Bool.false_and, Bool.false_eq_true, if_false, Bool.and_eq_true,
      decide_eq_true_eq, e64]
    constructor <;> intro h <;> omega

/-- in integer arithmetic the as-built aggregate is the exact one whenever the accumulator holds it -/
theorem aggAsBuilt_exact (agg : List Int → Int) (isSum signed : Bool) (vs : List Int)
    (h : fitsInt signed 64 (agg vs) = true) :
    aggAsBuilt agg isSum (if signed then .signedAcc else .unsignedAcc) vs = agg vs := by
  cases signed <;> cases isSum <;> simp only [aggAsBuilt, if_true, if_false, Bool.false_eq_true] <;>
    exact (wrap64_eq_iff _ _).mpr h

/-- rounding leaves alone what the significand holds (D33 deviates only on values float64 does not hold) -/
theorem rnd_of_fits (m : Nat) (v : Int) (h : fitsFloat m v = true) : rnd m v = v := by
  unfold fitsFloat at h
  simp only [decide_eq_true_eq] at h
  unfold rnd
  simp only
  by_cases he : Nat.log2 v.natAbs + 1 - m = 0
  · rw [if_pos he]
  · rw [if_neg he]
    have hpos : 0 < 2 ^ (Nat.log2 v.natAbs + 1 - m - 1) := Nat.two_pow_pos _
    rw [h]
    have hq : ¬ (2 ^ (Nat.log2 v.natAbs + 1 - m - 1) < 0 ∨
        (0 = 2 ^ (Nat.log2 v.natAbs + 1 - m - 1) ∧ v.natAbs / 2 ^ (Nat.log2 v.natAbs + 1 - m) % 2 = 1)) := by
      rintro (h1 | ⟨h1, _⟩) <;> omega
    rw [if_neg hq, Nat.div_mul_cancel (Nat.dvd_of_mod_eq_zero h)]
    split <;> omega

example : wrap64 true 9223372036854775808 = -9223372036854775808 ∧ wrap64 false 18446744073709551616 = 0 ∧
    wrap64 true (-9223372036854775809) = 9223372036854775807 ∧ rnd 53 9223372036854775809 = 9223372036854775808 ∧
    rnd 53 9007199254740993 = 9007199254740992 ∧ rnd 53 9007199254740995 = 9007199254740996 ∧ rnd 24 (-16777219) = -16777220 ∧
    kahanSum 53 [9223372036854775808, -7] = 9223372036854775808 := by decide

end Cooler.C07
