import CoolerModel.Model.GroupSum
import CoolerModel.Props.CSRLemmas
/-!
Algebra of `groupSum` (helper lemmas for C05–C09):

* `groupSum_sorted`      — output strictly sorted by key (hence unique keys)
* `sumAt_groupSum`       — per-key totals preserved
* `hasKey_groupSum`      — key set preserved
* `ext_sorted`           — two strictly sorted tables with equal key sets and per-key totals are equal
* consequences: `groupSum_perm` (G1), `groupSum_groupSum_append` (G2), `groupSum_idem`,
  `groupSum_eq_of` (the extensionality principle everything else is proved with)
-/
set_option linter.unusedSimpArgs false
set_option linter.unusedVariables false

namespace Cooler

/-! ### sumAt / hasKey basics -/

theorem sumAt_append (a b : Pixels) (i j : Nat) : sumAt (a ++ b) i j = sumAt a i j + sumAt b i j := by
  induction a with
  | nil => simp [sumAt]
  | cons p rest ih => simp only [List.cons_append, sumAt, ih]; omega

theorem hasKey_append (a b : Pixels) (i j : Nat) : hasKey (a ++ b) i j ↔ hasKey a i j ∨ hasKey b i j := by
  unfold hasKey
  constructor
  · rintro ⟨p, hp, h⟩
    rcases List.mem_append.mp hp with h1 | h1
    · exact Or.inl ⟨p, h1, h⟩
    · exact Or.inr ⟨p, h1, h⟩
  · rintro (⟨p, hp, h⟩ | ⟨p, hp, h⟩)
    · exact ⟨p, List.mem_append_left _ hp, h⟩
    · exact ⟨p, List.mem_append_right _ hp, h⟩

theorem hasKey_cons (p : Px) (l : Pixels) (i j : Nat) :
    hasKey (p :: l) i j ↔ (p.i = i ∧ p.j = j) ∨ hasKey l i j := by
  unfold hasKey
  constructor
  · rintro ⟨q, hq, h⟩
    rcases List.mem_cons.mp hq with rfl | h1
    · exact Or.inl h
    · exact Or.inr ⟨q, h1, h⟩
  · rintro (h | ⟨q, hq, h⟩)
    · exact ⟨p, by simp, h⟩
    · exact ⟨q, List.mem_cons_of_mem _ hq, h⟩

theorem hasKey_nil (i j : Nat) : ¬ hasKey [] i j := by
  rintro ⟨p, hp, _⟩; simp at hp

theorem sumAt_eq_zero_of_not_hasKey (l : Pixels) (i j : Nat) (h : ¬ hasKey l i j) : sumAt l i j = 0 := by
  induction l with
  | nil => rfl
  | cons p rest ih =>
    rw [hasKey_cons] at h
    have h1 : ¬ (p.i = i ∧ p.j = j) := fun hh => h (Or.inl hh)
    have h2 : ¬ hasKey rest i j := fun hh => h (Or.inr hh)
    simp [sumAt, h1, ih h2]

theorem sumAt_perm {a b : Pixels} (h : a.Perm b) (i j : Nat) : sumAt a i j = sumAt b i j := by
  induction h with
  | nil => rfl
  | cons x _ ih => simp [sumAt, ih]
  | swap x y l => simp only [sumAt]; omega
  | trans _ _ ih1 ih2 => rw [ih1, ih2]

theorem hasKey_perm {a b : Pixels} (h : a.Perm b) (i j : Nat) : hasKey a i j ↔ hasKey b i j := by
  unfold hasKey
  constructor
  · rintro ⟨p, hp, hk⟩; exact ⟨p, h.mem_iff.mp hp, hk⟩
  · rintro ⟨p, hp, hk⟩; exact ⟨p, h.mem_iff.mpr hp, hk⟩

/-! ### insertion -/

theorem sumAt_insertPx (p : Px) (l : Pixels) (i j : Nat) :
    sumAt (insertPx p l) i j = (if p.i = i ∧ p.j = j then p.v else 0) + sumAt l i j := by
  induction l with
  | nil => simp [insertPx, sumAt]
  | cons q rest ih =>
    unfold insertPx
    split
    · simp [sumAt]
    · split
      · rename_i _ hk
        unfold sameKey at hk
        simp only [sumAt]
        by_cases h : q.i = i ∧ q.j = j
        · have : p.i = i ∧ p.j = j := by omega
          simp [h, this]; omega
        · have : ¬ (p.i = i ∧ p.j = j) := by omega
          simp [h, this]
      · simp only [sumAt, ih]; omega

theorem hasKey_insertPx (p : Px) (l : Pixels) (i j : Nat) :
    hasKey (insertPx p l) i j ↔ (p.i = i ∧ p.j = j) ∨ hasKey l i j := by
  induction l with
  | nil => simp [insertPx, hasKey_cons, hasKey_nil]
  | cons q rest ih =>
    unfold insertPx
    split
    · rw [hasKey_cons]
    · split
      · rename_i _ hk
        unfold sameKey at hk
        rw [hasKey_cons, hasKey_cons]
        simp only
        constructor
        · rintro (h | h)
          · exact Or.inr (Or.inl h)
          · exact Or.inr (Or.inr h)
        · rintro (h | h | h)
          · left; omega
          · exact Or.inl h
          · exact Or.inr h
      · rw [hasKey_cons, ih, hasKey_cons]
        constructor
        · rintro (h | h | h)
          · exact Or.inr (Or.inl h)
          · exact Or.inl h
          · exact Or.inr (Or.inr h)
        · rintro (h | h | h)
          · exact Or.inr (Or.inl h)
          · exact Or.inl h
          · exact Or.inr (Or.inr h)

theorem keyLt_trans {a b c : Px} (h1 : keyLt a b) (h2 : keyLt b c) : keyLt a c := by
  unfold keyLt at *; omega

theorem mem_insertPx (p : Px) (l : Pixels) (x : Px) (hx : x ∈ insertPx p l) :
    (x.i = p.i ∧ x.j = p.j) ∨ x ∈ l := by
  induction l with
  | nil => simp [insertPx] at hx; subst hx; exact Or.inl ⟨rfl, rfl⟩
  | cons q rest ih =>
    unfold insertPx at hx
    split at hx
    · rcases List.mem_cons.mp hx with rfl | h
      · exact Or.inl ⟨rfl, rfl⟩
      · exact Or.inr h
    · split at hx
      · rename_i _ hk
        unfold sameKey at hk
        rcases List.mem_cons.mp hx with rfl | h
        · left; simp only; omega
        · exact Or.inr (List.mem_cons_of_mem _ h)
      · rcases List.mem_cons.mp hx with rfl | h
        · exact Or.inr (by simp)
        · rcases ih h with h1 | h1
          · exact Or.inl h1
          · exact Or.inr (List.mem_cons_of_mem _ h1)

theorem insertPx_sorted (p : Px) (l : Pixels) (h : StrictSorted l) : StrictSorted (insertPx p l) := by
  unfold StrictSorted at *
  induction l with
  | nil => simp [insertPx]
  | cons q rest ih =>
    have hq := (List.pairwise_cons.mp h).1
    have hrest := (List.pairwise_cons.mp h).2
    unfold insertPx
    split
    · rename_i hlt
      rw [List.pairwise_cons]
      refine ⟨?_, h⟩
      intro x hx
      rcases List.mem_cons.mp hx with rfl | hx
      · exact hlt
      · exact keyLt_trans hlt (hq x hx)
    · rename_i hnlt
      split
      · rename_i hk
        unfold sameKey at hk
        rw [List.pairwise_cons]
        refine ⟨?_, hrest⟩
        intro x hx
        have := hq x hx
        unfold keyLt at *
        simp only
        omega
      · rename_i hnk
        unfold sameKey at hnk
        rw [List.pairwise_cons]
        refine ⟨?_, ih hrest⟩
        intro x hx
        rcases mem_insertPx p rest x hx with ⟨h1, h2⟩ | h1
        · unfold keyLt at *
          omega
        · exact hq x h1

/-! ### groupSum -/

theorem groupSum_sorted (l : Pixels) : StrictSorted (groupSum l) := by
  unfold groupSum
  induction l with
  | nil => simp [StrictSorted]
  | cons p rest ih => exact insertPx_sorted p _ ih

theorem sumAt_groupSum (l : Pixels) (i j : Nat) : sumAt (groupSum l) i j = sumAt l i j := by
  unfold groupSum
  induction l with
  | nil => rfl
  | cons p rest ih => simp only [List.foldr_cons, sumAt_insertPx, ih, sumAt]

theorem hasKey_groupSum (l : Pixels) (i j : Nat) : hasKey (groupSum l) i j ↔ hasKey l i j := by
  unfold groupSum
  induction l with
  | nil => simp
  | cons p rest ih => simp only [List.foldr_cons, hasKey_insertPx, ih, hasKey_cons]

/-! ### extensionality of strictly sorted tables -/

theorem sumAt_sorted_head (p : Px) (rest : Pixels) (h : StrictSorted (p :: rest)) :
    sumAt (p :: rest) p.i p.j = p.v := by
  have hq := (List.pairwise_cons.mp h).1
  have : ¬ hasKey rest p.i p.j := by
    rintro ⟨q, hq', hk⟩
    have := hq q hq'
    unfold keyLt at this
    omega
  simp [sumAt, sumAt_eq_zero_of_not_hasKey rest _ _ this]

/-- **ext_sorted**: a strictly sorted table is determined by its key set and per-key totals -/
theorem ext_sorted : ∀ (a b : Pixels), StrictSorted a → StrictSorted b →
    (∀ i j, hasKey a i j ↔ hasKey b i j) → (∀ i j, sumAt a i j = sumAt b i j) → a = b := by
  intro a
  induction a with
  | nil =>
    intro b _ _ hk _
    cases b with
    | nil => rfl
    | cons q rest =>
      exact absurd ((hk q.i q.j).mpr ⟨q, by simp, rfl, rfl⟩) (hasKey_nil _ _)
  | cons p a' ih =>
    intro b ha hb hk hs
    cases b with
    | nil => exact absurd ((hk p.i p.j).mp ⟨p, by simp, rfl, rfl⟩) (hasKey_nil _ _)
    | cons q b' =>
      have hpa := (List.pairwise_cons.mp ha).1
      have hqb := (List.pairwise_cons.mp hb).1
      have ha' : StrictSorted a' := (List.pairwise_cons.mp ha).2
      have hb' : StrictSorted b' := (List.pairwise_cons.mp hb).2
      -- the two heads have the same key
      have hkey : p.i = q.i ∧ p.j = q.j := by
        have h1 := (hk p.i p.j).mp ⟨p, by simp, rfl, rfl⟩
        have h2 := (hk q.i q.j).mpr ⟨q, by simp, rfl, rfl⟩
        rw [hasKey_cons] at h1 h2
        rcases h1 with h1 | ⟨x, hx, hxk⟩
        · omega
        · rcases h2 with h2 | ⟨y, hy, hyk⟩
          · omega
          · have l1 := hqb x hx
            have l2 := hpa y hy
            unfold keyLt at l1 l2
            omega
      have hval : p.v = q.v := by
        have := hs p.i p.j
        rw [sumAt_sorted_head p a' ha] at this
        have h2 := sumAt_sorted_head q b' hb
        rw [← hkey.1, ← hkey.2] at h2
        omega
      have hpq : p = q := by
        cases p; cases q; simp only at hkey hval; simp [hkey.1, hkey.2, hval]
      subst hpq
      congr 1
      apply ih b' ha' hb'
      · intro i j
        have := hk i j
        rw [hasKey_cons, hasKey_cons] at this
        by_cases hij : p.i = i ∧ p.j = j
        · have n1 : ¬ hasKey a' i j := by
            rintro ⟨x, hx, hxk⟩
            have := hpa x hx; unfold keyLt at this; omega
          have n2 : ¬ hasKey b' i j := by
            rintro ⟨x, hx, hxk⟩
            have := hqb x hx; unfold keyLt at this; omega
          exact ⟨fun h => absurd h n1, fun h => absurd h n2⟩
        · constructor
          · intro h
            rcases this.mp (Or.inr h) with h' | h'
            · exact absurd h' hij
            · exact h'
          · intro h
            rcases this.mpr (Or.inr h) with h' | h'
            · exact absurd h' hij
            · exact h'
      · intro i j
        have := hs i j
        simp only [sumAt] at this
        omega

/-- the extensionality principle in the form it is used: to show `x = groupSum l` show that `x` is
strictly sorted and has the key set and per-key totals of `l` -/
theorem groupSum_eq_of (x l : Pixels) (hx : StrictSorted x)
    (hk : ∀ i j, hasKey x i j ↔ hasKey l i j) (hs : ∀ i j, sumAt x i j = sumAt l i j) :
    x = groupSum l :=
  ext_sorted x (groupSum l) hx (groupSum_sorted l)
    (fun i j => by rw [hk, hasKey_groupSum]) (fun i j => by rw [hs, sumAt_groupSum])

/-- G1: order of the records does not matter -/
theorem groupSum_perm {a b : Pixels} (h : a.Perm b) : groupSum a = groupSum b :=
  groupSum_eq_of _ _ (groupSum_sorted a)
    (fun i j => by rw [hasKey_groupSum, hasKey_perm h]) (fun i j => by rw [sumAt_groupSum, sumAt_perm h])

/-- a strictly sorted table is its own aggregate -/
theorem groupSum_of_sorted (a : Pixels) (h : StrictSorted a) : groupSum a = a :=
  (groupSum_eq_of a a h (fun _ _ => Iff.rfl) (fun _ _ => rfl)).symm

theorem groupSum_idem (a : Pixels) : groupSum (groupSum a) = groupSum a :=
  groupSum_of_sorted _ (groupSum_sorted a)

/-- G2: pre-aggregating parts does not change the aggregate -/
theorem groupSum_append_groupSum (a b : Pixels) :
    groupSum (groupSum a ++ groupSum b) = groupSum (a ++ b) :=
  (groupSum_eq_of _ _ (groupSum_sorted _)
    (fun i j => by
      rw [hasKey_groupSum, hasKey_append, hasKey_append, hasKey_groupSum, hasKey_groupSum])
    (fun i j => by
      rw [sumAt_groupSum, sumAt_append, sumAt_append, sumAt_groupSum, sumAt_groupSum]))

theorem groupSum_flatten_groupSum (parts : List Pixels) :
    groupSum ((parts.map groupSum).flatten) = groupSum parts.flatten := by
  apply groupSum_eq_of _ _ (groupSum_sorted _)
  · intro i j
    rw [hasKey_groupSum]
    induction parts with
    | nil => simp
    | cons p rest ih =>
      simp only [List.map_cons, List.flatten_cons, hasKey_append, hasKey_groupSum, ih]
  · intro i j
    rw [sumAt_groupSum]
    induction parts with
    | nil => simp
    | cons p rest ih =>
      simp only [List.map_cons, List.flatten_cons, sumAt_append, sumAt_groupSum, ih]

end Cooler
