/-
Shared vocabulary of the cooler model.  Import-free (core Lean only) so that the
driver executable can link it.
-/
namespace Cooler

/-- one stored pixel: row bin, column bin, one integer value column -/
structure Px where
  i : Nat
  j : Nat
  v : Int
deriving DecidableEq, Repr, Inhabited

abbrev Pixels := List Px

def Px.swap (p : Px) : Px := { p with i := p.j, j := p.i }

/-- lexicographic order on (row, column) -/
def keyLt (p q : Px) : Prop := p.i < q.i ∨ (p.i = q.i ∧ p.j < q.j)

instance : DecidableRel keyLt := fun p q => by unfold keyLt; exact inferInstance

def keyLtB (p q : Px) : Bool := decide (keyLt p q)

/-- one bin of a bin table: chromosome id, start, end -/
structure Bin where
  chrom : Nat
  start : Nat
  stop : Nat
deriving DecidableEq, Repr, Inhabited

abbrev BinTable := List Bin

def Bin.width (b : Bin) : Nat := b.stop - b.start

/-- `numpy.searchsorted(xs, x, side="left")` on a sorted list: number of elements `< x` -/
def ssLeft (xs : List Nat) (x : Nat) : Nat := xs.countP (fun y => y < x)

/-- `numpy.searchsorted(xs, x, side="right")` on a sorted list: number of elements `≤ x` -/
def ssRight (xs : List Nat) (x : Nat) : Nat := xs.countP (fun y => y ≤ x)

/-- error classes the correspondence distinguishes -/
inductive Err
  | value    -- ValueError
  | key      -- KeyError
  | index    -- IndexError
  | badInput -- BadInputError
  | other
deriving DecidableEq, Repr, Inhabited

def Err.name : Err → String
  | .value => "ValueError"
  | .key => "KeyError"
  | .index => "IndexError"
  | .badInput => "BadInputError"
  | .other => "Error"

end Cooler
