-- all property theorem files (imported by the axiom audit and the default build target)
import CoolerModel.Props.C20
