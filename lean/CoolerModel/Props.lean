-- all property theorem files (imported by the axiom audit and the default build target)
import CoolerModel.Props.C20
import CoolerModel.Props.C04
import CoolerModel.Props.C15
import CoolerModel.Props.C03
import CoolerModel.Props.C06
import CoolerModel.Props.C07
import CoolerModel.Props.C01
import CoolerModel.Props.C02
import CoolerModel.Props.C12
import CoolerModel.Props.C19
import CoolerModel.Props.C18
import CoolerModel.Props.C14
import CoolerModel.Props.C10
import CoolerModel.Props.C11
import CoolerModel.Props.C13
import CoolerModel.Props.C17
import CoolerModel.Props.C05
