import CoolerModel.Basic
import CoolerModel.Model.Bins
/-!
Model of single-cell files (`cooler.create._create.create_scool`, the `append_scool=True` branch of
`create`, `cooler.fileops.is_scool_file` / `list_scool_cells`, and reading one cell through
`Cooler(file::/cells/x)`).  Property C17.

File model.  An scool file has a fixed shape, so it is modelled by layers instead of a general heap:
a *dataset object* (`DS`), a *table* = a group holding dataset links (`chroms`, `bins`, `pixels`,
`indexes`), a *collection* = a group holding table links plus attributes (`/cells/x`), and the file
(root attributes, root tables, the `/cells` group).  Every HDF5 object carries its object id
(`Nat`, what `h5py.h5o.get_info(..).addr` / h5py object equality observes); a **hard link** to an
existing object is that very object (same id, same content) under another name, a newly created
object takes the next unused id.  Nothing in C17 writes through one link and reads through another,
so sharing-by-id with the content stored in place is an adequate reading of hard links.

HDF5 / h5py primitives (modelled, not verified): `create_group` of an existing path raises
`ValueError`; assigning an object to `grp[name]` makes a hard link and creates missing
intermediate groups; `File(path, "w")` starts from an empty file; Python's `sorted` on `str` is
the code-point order (`String` `≤`).
-/
namespace Cooler.Scool
open Cooler

/-- object ids are natural numbers (`NodeId` in DESIGN.md) -/
abbrev NodeId := Nat

inductive Data
  | nats (v : List Nat)
  | ints (v : List Int)
  | strs (v : List String)      -- names, or the values of an extra column carried verbatim
deriving DecidableEq, Repr, Inhabited

/-- a dataset object -/
structure DS where
  id : Nat
  data : Data
deriving DecidableEq, Repr, Inhabited

/-- a group whose links are datasets -/
structure Table where
  id : Nat
  cols : List (String × DS)
deriving DecidableEq, Repr, Inhabited

inductive AttrVal
  | str (s : String)
  | nat (n : Nat)
  | int (i : Int)
deriving DecidableEq, Repr, Inhabited

abbrev Attrs := List (String × AttrVal)

/-- a data collection group (`/cells/x`) -/
structure Coll where
  id : Nat
  attrs : Attrs
  tables : List (String × Table)
deriving DecidableEq, Repr, Inhabited

structure SFile where
  attrs : Attrs                         -- root attributes
  tables : List (String × Table)        -- root `chroms`, `bins`
  cellsId : Option Nat               -- the `/cells` group, once it exists
  cells : List (String × Coll)          -- its links
  next : Nat                         -- first unused object id
deriving DecidableEq, Repr, Inhabited

def MAGIC := "HDF5::Cooler"
def MAGIC_SCOOL := "HDF5::SCOOL"

/-! ### inputs -/

structure BinRow where
  chrom : String
  start : Nat
  stop : Nat
deriving DecidableEq, Repr, Inhabited

/-- a bin table data frame: the three main columns plus any further columns -/
structure BinsIn where
  rows : List BinRow
  extras : List (String × List String)
deriving DecidableEq, Repr, Inhabited

/-- the `bins` argument of `create_scool` -/
inductive BinsArg
  | common (t : BinsIn)                     -- one DataFrame
  | perCell (d : List (String × BinsIn))    -- dict cell name -> DataFrame (insertion order)
deriving Repr, Inhabited

/-- `get_chromsizes(bins)`: `drop_duplicates("chrom", keep="last")[["chrom","end"]]` -/
def chromsOf : List BinRow → List (String × Nat)
  | [] => []
  | r :: rest =>
    if rest.any (fun q => q.chrom == r.chrom) then chromsOf rest else (r.chrom, r.stop) :: chromsOf rest

def chromNames (rows : List BinRow) : List String := (chromsOf rows).map Prod.fst

/-- `chrom_ids = [idmap[chrom] for chrom in bins["chrom"]]` with `idmap = dict(zip(chromnames, range(n)))` -/
def chromCodes (rows : List BinRow) : List Nat := rows.map fun r => (chromNames rows).idxOf r.chrom

/-- the table with chromosome ids (vocabulary of `Model/Bins.lean`, for `get_binsize`) -/
def binTable (rows : List BinRow) : BinTable :=
  rows.map fun r => ⟨(chromNames rows).idxOf r.chrom, r.start, r.stop⟩

def binAttrs (rows : List BinRow) : Attrs :=
  match getBinsize (binTable rows) with
  | some b => [("bin-type", .str "fixed"), ("bin-size", .nat b)]
  | none => [("bin-type", .str "variable"), ("bin-size", .str "null")]

/-! ### writing -/

/-- root group after `write_chroms`, `write_bins`, `write_info(scool=True)`.
    ids: 0 root, 1 chroms, 2 chroms/name, 3 chroms/length, 4 bins, 5 bins/chrom, 6 bins/start,
    7 bins/end, 8… the further columns of the common table -/
def initRoot (t : BinsIn) (ncells : Nat) : SFile :=
  let cs := chromsOf t.rows
  let chroms : Table := ⟨1, [("name", ⟨2, .strs (cs.map Prod.fst)⟩), ("length", ⟨3, .nats (cs.map Prod.snd)⟩)]⟩
  let extra := t.extras.zipIdx.map fun p => (p.1.1, (⟨8 + p.2, .strs p.1.2⟩ : DS))
  let bins : Table := ⟨4, [("chrom", ⟨5, .nats (chromCodes t.rows)⟩),
                           ("start", ⟨6, .nats (t.rows.map BinRow.start)⟩),
                           ("end", ⟨7, .nats (t.rows.map BinRow.stop)⟩)] ++ extra⟩
  { attrs := binAttrs t.rows ++
      [("nchroms", .nat cs.length), ("ncells", .nat ncells), ("nbins", .nat t.rows.length),
       ("format", .str MAGIC_SCOOL), ("format-version", .nat 1)]
    tables := [("chroms", chroms), ("bins", bins)]
    cellsId := none
    cells := []
    next := 8 + t.extras.length }

def sumCounts (px : Pixels) : Int := (px.map Px.v).foldl (· + ·) 0

/-- number of object ids one cell takes: group, bins, pixels + 3 columns, indexes + 2 columns, extras -/
def cellBlock (t : BinsIn) : Nat := 9 + t.extras.length

/-- the collection `create(.., append_scool=True)` builds for one cell; `gid` = first unused id.
    `chroms` and `bins/{chrom,start,end}` are hard links to the root's objects; the further bin
    columns, the pixel table, the indexes and the attributes are the cell's own. -/
def mkColl (gid : Nat) (rootChroms : Table) (dChrom dStart dEnd : DS) (t : BinsIn) (px : Pixels)
    (symm : Bool) : Coll :=
  let extra := t.extras.zipIdx.map fun p => (p.1.1, (⟨gid + 9 + p.2, .strs p.1.2⟩ : DS))
  let nbins := t.rows.length
  { id := gid
    attrs := binAttrs t.rows ++
      [("storage-mode", .str (if symm then "symmetric-upper" else "square")),
       ("nchroms", .nat (chromsOf t.rows).length), ("nbins", .nat nbins),
       ("sum", .int (sumCounts px)), ("nnz", .nat px.length),
       ("format", .str MAGIC), ("format-version", .nat 3)]
    tables := [
      ("chroms", rootChroms),
      ("bins", ⟨gid + 1, [("chrom", dChrom), ("start", dStart), ("end", dEnd)] ++ extra⟩),
      ("pixels", ⟨gid + 2, [("bin1_id", ⟨gid + 3, .nats (px.map Px.i)⟩),
                            ("bin2_id", ⟨gid + 4, .nats (px.map Px.j)⟩),
                            ("count", ⟨gid + 5, .ints (px.map Px.v)⟩)]⟩),
      ("indexes", ⟨gid + 6, [
        ("chrom_offset", ⟨gid + 7, .nats (chromOffsets (binTable t.rows) (chromsOf t.rows).length)⟩),
        ("bin1_offset", ⟨gid + 8, .nats ((List.range (nbins + 1)).map fun k => px.countP (·.i < k))⟩)]⟩)] }

/-- `create(uri::/cells/<name>, bins, pixels, mode="a", append_scool=True, scool_root_uri=uri)` -/
def appendCell (f : SFile) (name : String) (t : BinsIn) (px : Pixels) (symm : Bool) : Except Err SFile :=
  -- f.create_group("/cells/<name>"): the intermediate `cells` group is made on first use;
  -- an existing group of that name raises ValueError, is deleted and created again
  let cellsId := f.cellsId.getD f.next
  let next0 := if f.cellsId.isSome then f.next else f.next + 1
  let kept := f.cells.filter fun p => p.1 != name
  -- dst["chroms"] = src["chroms"]; dst["bins/chrom"] = src["bins/chrom"]; … (KeyError if absent)
  match f.tables.lookup "chroms", f.tables.lookup "bins" with
  | some rc, some rb =>
    match rb.cols.lookup "chrom", rb.cols.lookup "start", rb.cols.lookup "end" with
    | some dc, some ds, some de =>
      .ok { f with
            cellsId := some cellsId
            cells := kept ++ [(name, mkColl next0 rc dc ds de t px symm)]
            next := next0 + cellBlock t }
    | _, _, _ => .error .key
  | _, _ => .error .key

def sortNames (l : List String) : List String := l.mergeSort fun a b => decide (a ≤ b)

def hasSlash (s : String) : Bool := s.toList.contains '/'

/-- `key.split("/")[-1]` for a key containing '/', else the key -/
def cellName (key : String) : String :=
  if hasSlash key then ((key.splitOn "/").getLast?).getD key else key

/-- the loop "Append single cells" -/
def appendCells (binsDict : List (String × BinsIn)) (pixels : List (String × Pixels)) (symm : Bool) :
    SFile → List String → Except Err SFile
  | f, [] => .ok f
  | f, key :: rest =>
    match binsDict.lookup key, pixels.lookup key with     -- bins_dict[key], cell_name_pixels_dict[key]
    | some t, some px =>
      match appendCell f (cellName key) t px symm with
      | .ok f' => appendCells binsDict pixels symm f' rest
      | .error e => .error e
    | _, _ => .error .key

/-- `create_scool(path, bins, cell_name_pixels_dict, symmetric_upper=symm)` on a new file (`mode="w"`) -/
def createScool (bins : BinsArg) (pixels : List (String × Pixels)) (symm : Bool) : Except Err SFile :=
  let cellNames := sortNames (pixels.map Prod.fst)
  match bins with
  | .common t =>
    -- bins_dict = {cell: bins for cell in pixels}
    appendCells (pixels.map fun p => (p.1, t)) pixels symm (initRoot t pixels.length) cellNames
  | .perCell d =>
    match d with
    | [] => .error .value                                   -- "At least one bin must be given."
    | (_, first) :: _ =>
      -- bins = bins_dict[next(iter(bins_dict))][["chrom", "start", "end"]]
      let root : BinsIn := { rows := first.rows, extras := [] }
      -- for key_bins, key_pixels in zip(sorted(bins_dict), sorted(pixels)): must match (zip truncates)
      if ((sortNames (d.map Prod.fst)).zip cellNames).all (fun p => p.1 == p.2) then
        appendCells d pixels symm (initRoot root pixels.length) cellNames
      else .error .value

/-! ### recognising and listing -/

def isCoolerAttrs (a : Attrs) : Bool := a.lookup "format" == some (.str MAGIC)

/-- `is_scool_file` on an HDF5 file -/
def isScoolFile (f : SFile) : Bool :=
  if f.attrs.lookup "format" == some (.str MAGIC_SCOOL) then
    if !((f.tables.lookup "chroms").isSome && (f.tables.lookup "bins").isSome && f.cellsId.isSome) then false
    else if f.cells.length > 0 then f.cells.all fun p => isCoolerAttrs p.2.attrs
    else false
  else false

/-- group paths `_check_cooler` collects: the root and, walking the tree, every group; only
    collection groups carry attributes, tables and datasets have none -/
def coolerPaths (f : SFile) : List String :=
  (if isCoolerAttrs f.attrs then ["/"] else []) ++
    (f.cells.filter fun p => isCoolerAttrs p.2.attrs).map fun p => "/cells/" ++ p.1

/-- `list_scool_cells`; `sort` stands for `natsorted` (any rearrangement – the order is not part of C17) -/
def listScoolCells (sort : List String → List String) (f : SFile) : Except Err (List String) :=
  if isScoolFile f then .ok (sort ((coolerPaths f).erase "/")) else .error .other   -- OSError

/-! ### reading one cell through the ordinary interface -/

def Data.getNats : Data → Option (List Nat) | .nats v => some v | _ => none
def Data.getInts : Data → Option (List Int) | .ints v => some v | _ => none
def Data.getStrs : Data → Option (List String) | .strs v => some v | _ => none

def attrNat (a : Attrs) (k : String) : Option Nat :=
  match a.lookup k with | some (.nat n) => some n | _ => none

def zipPx : List Nat → List Nat → List Int → Pixels
  | i :: is, j :: js, v :: vs => ⟨i, j, v⟩ :: zipPx is js vs
  | _, _, _ => []

def zipRows (names : List String) : List Nat → List Nat → List Nat → List (Option String × Nat × Nat)
  | c :: cs, s :: ss, e :: es => (names[c]?, s, e) :: zipRows names cs ss es
  | _, _, _ => []

/-- `h5[root]` for `root = /cells/x` -/
def cell (f : SFile) (x : String) : Option Coll :=
  if f.cellsId.isSome then f.cells.lookup x else none

def col (c : Coll) (table column : String) : Option DS :=
  match c.tables.lookup table with
  | some t => t.cols.lookup column
  | none => none

/-- `Cooler(uri).pixels()[:]`: the three columns, rows `0 .. info["nnz"]` -/
def readPixels (f : SFile) (x : String) : Option Pixels :=
  match cell f x with
  | none => none
  | some c =>
    match col c "pixels" "bin1_id", col c "pixels" "bin2_id", col c "pixels" "count", attrNat c.attrs "nnz" with
    | some b1, some b2, some ct, some nnz =>
      match b1.data.getNats, b2.data.getNats, ct.data.getInts with
      | some i, some j, some v => some ((zipPx i j v).take nnz)
      | _, _, _ => none
    | _, _, _, _ => none

/-- `Cooler(uri).bins()[:]`, main columns: label (through the linked chromosome table), start, end -/
def readBins (f : SFile) (x : String) : Option (List (Option String × Nat × Nat)) :=
  match cell f x with
  | none => none
  | some c =>
    match col c "chroms" "name", col c "bins" "chrom", col c "bins" "start", col c "bins" "end",
      attrNat c.attrs "nbins" with
    | some nm, some ch, some st, some en, some nbins =>
      match nm.data.getStrs, ch.data.getNats, st.data.getNats, en.data.getNats with
      | some names, some cs, some ss, some es => some ((zipRows names cs ss es).take nbins)
      | _, _, _, _ => none
    | _, _, _, _, _ => none

def mainCols : List String := ["chrom", "start", "end"]

/-- the further columns `bins()[:]` shows for the cell, with the object that stores each -/
def readExtras (f : SFile) (x : String) : Option (List (String × DS)) :=
  match cell f x with
  | none => none
  | some c =>
    match c.tables.lookup "bins" with
    | some t => some (t.cols.filter fun p => !mainCols.contains p.1)
    | none => none

/-- object ids behind the shared links of a collection: chroms group, bins/chrom, bins/start, bins/end -/
def sharedIds (tables : List (String × Table)) : Option (Nat × Nat × Nat × Nat) :=
  match tables.lookup "chroms", tables.lookup "bins" with
  | some c, some b =>
    match b.cols.lookup "chrom", b.cols.lookup "start", b.cols.lookup "end" with
    | some x, some y, some z => some (c.id, x.id, y.id, z.id)
    | _, _, _ => none
  | _, _ => none

/-- "::" separates file path and group path in a cooler URI -/
def hasDoubleColon (s : String) : Bool :=
  (s.toList.zip s.toList.tail).any fun p => p.1 == ':' && p.2 == ':'

/-- cell names the property talks about: usable as one HDF5 link name (non-empty, no '/', not the
    self-reference ".") and addressable by a cooler URI `file::/cells/<name>` (no "::") -/
def validName (x : String) : Bool := x != "" && !hasSlash x && x != "." && !hasDoubleColon x

/-! ### the property's domain (vocabulary shared by the theorems and the driver) -/

/-- the table handed to `create` for each key, and the common three columns -/
def binsDictOf (bins : BinsArg) (pixels : List (String × Pixels)) : List (String × BinsIn) :=
  match bins with
  | .common t => pixels.map fun p => (p.1, t)
  | .perCell d => d

def commonRows : BinsArg → List BinRow
  | .common t => t.rows
  | .perCell [] => []
  | .perCell ((_, first) :: _) => first.rows

def rootExtras : BinsArg → List (String × List String)
  | .common t => t.extras
  | .perCell _ => []

/-- executable form of the domain `Cooler.C17.Dom`: distinct valid cell names; with per-cell tables the
same keys in both dictionaries and the common three main columns in every table -/
def domB (bins : BinsArg) (pixels : List (String × Pixels)) : Bool :=
  decide (pixels.map Prod.fst).Nodup && (pixels.map Prod.fst).all validName &&
  match bins with
  | .common _ => true
  | .perCell d =>
    !d.isEmpty && decide (d.map Prod.fst).Nodup &&
      (sortNames (d.map Prod.fst) == sortNames (pixels.map Prod.fst)) &&
      d.all fun p => p.2.rows == commonRows (.perCell d)

/-- column names a data frame can carry besides the main three -/
def extrasOk (bins : BinsArg) (pixels : List (String × Pixels)) : Bool :=
  (binsDictOf bins pixels).all fun p => p.2.extras.all fun c => !mainCols.contains c.1

end Cooler.Scool
