import CoolerModel.Basic
/-!
Model for property C13: the chunk validator `cooler.create._ingest._validate_pixels`, and
`cooler.create._create.create()` as a *list of steps* over a small file model, so that "creation
stops at any chunk" is "a strict prefix of the step list was executed".

File model (HDF5 is a primitive, DESIGN §3): a file is an association list
group path ↦ collection state (`[]` is the root group); a collection state records which of the four
tables are written (content ids / the pixel columns), whether the `format` attribute is present,
the other attributes `write_info` sets (a content id) and unrelated attributes.  The tables of a
collection (`chroms`, `bins`, `pixels`, `indexes`) are fields of its state, not addressable entries:
a destination path *inside* another collection's table groups is outside the model.

Anchors: `create()` (`_create.py`): `h5py.File(file_path, mode)`; root target: `del f[name]` for the
four table names, attributes are NOT cleared; other target: `create_group`, on ValueError
`del f[group_path]; create_group`; `write_chroms`, `write_bins`, `prepare_pixels`; `write_pixels`
(per chunk: `next(map(validator, iterable))`, then per column `_check_fits_dtype; resize; assign`,
columns in the order bin1_id, bin2_id, count); trim if `nnz == 0`; `write_indexes`;
`write_info` (`grp.attrs.update(info)`, the only place the `format` attribute is written).
Everything before `write_pixels` happens before the first chunk is pulled (the validator is chained
lazily with `map`).
Options: `write_info` runs `json.dumps(metadata)` BEFORE `attrs.update` (`Cfg.infoOk = false`: the step raises
TypeError and writes nothing); `_set_h5opts` rejects an unknown storage option on entry of `create()`, before any file
is opened (`optsPre`, `unorderedPreBadOpts`).  The other keyword options (assembly, extra value columns, dtypes other
than the count range, valid h5opts) do not change the step list.
-/
namespace Cooler.CreateSteps

/-! ## 1. the chunk validator -/

/-- one input record: bin1_id, bin2_id, count (ids are signed: the input may be invalid) -/
abbrev Rec := Int × Int × Int
abbrev Chunk := List Rec

def keyOf (r : Rec) : Int × Int := (r.1, r.2.1)
def countOf (r : Rec) : Int := r.2.2

/-- `(chunk["bin1_id"] < 0) | (chunk["bin2_id"] < 0)` -/
def isNeg (r : Rec) : Bool := decide (r.1 < 0) || decide (r.2.1 < 0)
/-- `(chunk["bin1_id"] >= n_bins) | (chunk["bin2_id"] >= n_bins)` -/
def isExcess (n : Nat) (r : Rec) : Bool := decide ((n : Int) ≤ r.1) || decide ((n : Int) ≤ r.2.1)
/-- `chunk["bin1_id"] > chunk["bin2_id"]` -/
def isTril (r : Rec) : Bool := decide (r.2.1 < r.1)

/-- `chunk.duplicated(["bin1_id", "bin2_id"]).any()`: some key occurs again later in the SAME chunk -/
def hasDup : List (Int × Int) → Bool
  | [] => false
  | k :: ks => ks.contains k || hasDup ks

/-- lexicographic `≤` on (bin1_id, bin2_id) -/
def keyLe (a b : Rec) : Bool := decide (a.1 < b.1) || (decide (a.1 = b.1) && decide (a.2.1 ≤ b.2.1))

def insertSorted (r : Rec) : Chunk → Chunk
  | [] => [r]
  | x :: xs => if keyLe r x then r :: x :: xs else x :: insertSorted r xs

/-- `chunk.sort_values(["bin1_id", "bin2_id"])` (pandas' multi-key sort is a stable lexsort) -/
def sortChunk : Chunk → Chunk
  | [] => []
  | x :: xs => insertSorted x (sortChunk xs)

/-- `_validate_pixels(chunk, n_bins, boundscheck, triucheck, dupcheck, ensure_sorted)`: the checks in
the order of the code; every rejection raises `BadInputError` -/
def validateCore (n : Nat) (boundscheck triucheck dupcheck ensureSorted : Bool) (c : Chunk) :
    Except Err Chunk :=
  if boundscheck && c.any isNeg then .error .badInput
  else if boundscheck && c.any (isExcess n) then .error .badInput
  else if triucheck && c.any isTril then .error .badInput
  else if dupcheck && hasDup (c.map keyOf) then .error .badInput
  else .ok (if ensureSorted then sortChunk c else c)

/-- the validator as `create()` chains it: `triucheck` is switched off for a square (non
symmetric-upper) matrix; with every flag off no validator is chained, which is the identity here too -/
def validatePixels (n : Nat) (symm boundscheck triucheck dupcheck ensureSorted : Bool)
    (chunk : Chunk) : Except Err Chunk :=
  validateCore n boundscheck (triucheck && symm) dupcheck ensureSorted chunk

/-- L0 reading of "valid chunk" under the given checks (decidable twin of the RHS of
`validate_accepts_iff`) -/
def acceptsSpec (n : Nat) (symm boundscheck triucheck dupcheck : Bool) (c : Chunk) : Bool :=
  (!boundscheck || c.all (fun r => decide (0 ≤ r.1 ∧ r.1 < n ∧ 0 ≤ r.2.1 ∧ r.2.1 < n))) &&
  (!(triucheck && symm) || c.all (fun r => decide (r.1 ≤ r.2.1))) &&
  (!dupcheck || !hasDup (c.map keyOf))

/-! ## 2. the file model -/

abbrev Path := List String

def MAGIC : String := "HDF5::Cooler"
def tableNames : List String := ["chroms", "bins", "pixels", "indexes"]

/-- the pixel table as stored: the two id columns and the count column (they have different lengths
only while a chunk write is torn) -/
structure Pix where
  ids : List (Int × Int)
  counts : List Int
deriving DecidableEq, Repr, Inhabited

/-- state of one group / data collection -/
structure Coll where
  fmt : Option String := none          -- value of the `format` attribute
  info : Option Nat := none            -- the other attributes written by `write_info` (content id)
  other : List (String × Nat) := []    -- unrelated attributes (name ↦ value id)
  chroms : Option Nat := none          -- content id of the table, `none` = not written
  bins : Option Nat := none
  pixels : Option Pix := none
  indexes : Option Nat := none
deriving DecidableEq, Repr, Inhabited

def Coll.empty : Coll := {}

/-- an existing HDF5 file: every group path ↦ state; the root `[]` is always present -/
abbrev File := List (Path × Coll)
/-- `none`: the file does not exist -/
abbrev FS := Option File

def lookup : File → Path → Option Coll
  | [], _ => none
  | (q, c) :: r, p => if q = p then some c else lookup r p

def lookupFS (fs : FS) (p : Path) : Option Coll :=
  match fs with
  | none => none
  | some f => lookup f p

/-- `p` is `t` or lies below it -/
def isUnder (t p : Path) : Bool := t.isPrefixOf p

def removeUnder (t : Path) (f : File) : File := f.filter fun e => !isUnder t e.1

def modifyAt (p : Path) (g : Coll → Coll) (f : File) : File :=
  f.map fun e => if e.1 = p then (e.1, g e.2) else e

def addIfMissing (p : Path) (f : File) : File :=
  if (lookup f p).isSome then f else f ++ [(p, Coll.empty)]

/-- proper ancestors of `t`, excluding `t` itself (`create_group` creates missing intermediates) -/
def properPrefixes (t : Path) : List Path := (List.range t.length).map fun k => t.take k

def isTablePath (p : Path) : Bool :=
  match p with
  | [] => false
  | a :: _ => tableNames.contains a

/-- root target: the four table children are deleted, the root's attributes stay -/
def clearTables (c : Coll) : Coll :=
  { c with chroms := none, bins := none, pixels := none, indexes := none }

/-- `_is_cooler(grp)`: the `format` attribute equals MAGIC -/
def Coll.isCooler (c : Coll) : Bool := c.fmt == some MAGIC

/-- `fileops.is_cooler(uri)`: False when the file or the group does not exist -/
def isCooler (fs : FS) (p : Path) : Bool :=
  match lookupFS fs p with
  | some c => c.isCooler
  | none => false

/-- `fileops.list_coolers(file)` (as a set of paths; the natural-sort order is not modelled) -/
def listCoolers (fs : FS) : List Path :=
  match fs with
  | none => []
  | some f => ((f.map (·.1)).eraseDups).filter fun p => isCooler (some f) p

def fmtAt (fs : FS) (p : Path) : Option String := (lookupFS fs p).bind (·.fmt)

/-! ## 3. `create()` as steps -/

inductive Mode | w | a | rplus
deriving DecidableEq, Repr, Inhabited

/-- what the input iterator does on one `next()`: yields a chunk or raises (the end of the list is
`StopIteration`) -/
inductive Ev
  | chunk (c : Chunk)
  | raise
deriving DecidableEq, Repr, Inhabited

structure Cfg where
  target : Path
  mode : Mode
  n : Nat                      -- number of bins
  symm : Bool
  boundscheck : Bool := true
  triucheck : Bool := true
  dupcheck : Bool := true
  ensureSorted : Bool := false
  countLo : Int := -2147483648 -- range of the count column's dtype (default int32)
  countHi : Int := 2147483647
  infoOk : Bool := true        -- `metadata` is JSON compatible (`json.dumps` in `write_info` succeeds)
  chromsId : Nat := 1          -- content ids of what this creation writes
  binsId : Nat := 2
  indexesId : Nat := 3
  infoId : Nat := 4
deriving Repr, Inhabited

inductive Step
  | openFile                               -- `h5py.File(file_path, mode)`
  | resetTarget                            -- delete / recreate the target group
  | writeChroms
  | writeBins
  | preparePixels
  | pull (ev : Ev)                         -- `next()` on the input iterator (may raise)
  | validate (c : Chunk)                   -- the chained validator (may raise)
  | appendIds (nnz : Nat) (c : Chunk)      -- resize + assign of bin1_id, bin2_id
  | checkFits (c : Chunk)                  -- `_check_fits_dtype` of the count column (may raise)
  | appendCounts (nnz : Nat) (c : Chunk)   -- resize + assign of count
  | trim                                   -- `nnz == 0`: resize every column to 0
  | writeIndexes
  | writeInfo                              -- `grp.attrs.update(info)` incl. `format`
deriving DecidableEq, Repr, Inhabited

/-- what leaves `create()` when a step fails -/
inductive Fault
  | err (e : Err)      -- BadInputError (validator) / ValueError (dtype overflow)
  | os                 -- OSError: mode "r+" on a missing file
  | iter               -- whatever the input iterator raised, propagated unchanged
  | type               -- TypeError: `json.dumps(metadata)` in `write_info`, before any attribute is written
deriving DecidableEq, Repr, Inhabited

def maxSize (n : Nat) (symm : Bool) : Nat := if symm then n * (n - 1) / 2 + n else n * n
def initSize (n : Nat) (symm : Bool) : Nat := min (5 * n) (maxSize n symm)

def resetGroup (t : Path) (f : File) : File :=
  if t = [] then
    modifyAt [] clearTables (f.filter fun e => !isTablePath e.1)
  else
    (t, Coll.empty) :: (properPrefixes t).foldl (fun f p => addIfMissing p f) (removeUnder t f)

def onTarget (cfg : Cfg) (g : Coll → Coll) (fs : FS) : FS := fs.map (modifyAt cfg.target g)

/-- the effect of a step that does not fail -/
def Step.eff (cfg : Cfg) : Step → FS → FS
  | .openFile, fs =>
    match cfg.mode, fs with
    | .w, _ => some [([], Coll.empty)]          -- "w" truncates the whole file
    | .a, none => some [([], Coll.empty)]
    | .a, some f => some f
    | .rplus, fs => fs
  | .resetTarget, fs => fs.map (resetGroup cfg.target)
  | .writeChroms, fs => onTarget cfg (fun c => { c with chroms := some cfg.chromsId }) fs
  | .writeBins, fs => onTarget cfg (fun c => { c with bins := some cfg.binsId }) fs
  | .preparePixels, fs =>
    let k := initSize cfg.n cfg.symm     -- datasets are created with `init_size` rows (fill value 0)
    onTarget cfg (fun c => { c with pixels := some ⟨List.replicate k (0, 0), List.replicate k 0⟩ }) fs
  | .pull _, fs => fs
  | .validate _, fs => fs
  | .appendIds nnz ch, fs =>
    onTarget cfg (fun c => { c with pixels := c.pixels.map fun p => { p with ids := p.ids.take nnz ++ ch.map keyOf } }) fs
  | .checkFits _, fs => fs
  | .appendCounts nnz ch, fs =>
    onTarget cfg (fun c => { c with pixels := c.pixels.map fun p => { p with counts := p.counts.take nnz ++ ch.map countOf } }) fs
  | .trim, fs => onTarget cfg (fun c => { c with pixels := c.pixels.map fun _ => ⟨[], []⟩ }) fs
  | .writeIndexes, fs => onTarget cfg (fun c => { c with indexes := some cfg.indexesId }) fs
  | .writeInfo, fs => onTarget cfg (fun c => { c with fmt := some MAGIC, info := some cfg.infoId }) fs

def fitsDtype (cfg : Cfg) (c : Chunk) : Bool :=
  c.all fun r => decide (cfg.countLo ≤ countOf r) && decide (countOf r ≤ cfg.countHi)

def validateCfg (cfg : Cfg) (c : Chunk) : Except Err Chunk :=
  validatePixels cfg.n cfg.symm cfg.boundscheck cfg.triucheck cfg.dupcheck cfg.ensureSorted c

/-- does the step raise (before having any effect) in this state? -/
def Step.fails (cfg : Cfg) : Step → FS → Option Fault
  | .openFile, fs => if cfg.mode = .rplus ∧ fs = none then some .os else none
  | .pull .raise, _ => some .iter
  | .validate c, _ =>
    match validateCfg cfg c with
    | .error e => some (.err e)
    | .ok _ => none
  | .checkFits c, _ => if fitsDtype cfg c then none else some (.err .value)
  | .writeInfo, _ => if cfg.infoOk then none else some .type
  | _, _ => none

/-- what the validator hands to `write_pixels` (the sorted chunk under `ensure_sorted`) -/
def written (cfg : Cfg) (c : Chunk) : Chunk :=
  match validateCfg cfg c with
  | .ok c' => c'
  | .error _ => c

/-- the `write_pixels` loop and what follows it; `nnz` = rows written so far -/
def chunkSteps (cfg : Cfg) : Nat → List Ev → List Step
  | nnz, [] => (if nnz = 0 then [Step.trim] else []) ++ [.writeIndexes, .writeInfo]
  | _, .raise :: _ => [.pull .raise]
  | nnz, .chunk c :: evs =>
    let c' := written cfg c
    [.pull (.chunk c), .validate c, .appendIds nnz c', .checkFits c', .appendCounts nnz c'] ++
      chunkSteps cfg (nnz + c'.length) evs

def createSteps (cfg : Cfg) (evs : List Ev) : List Step :=
  [.openFile, .resetTarget, .writeChroms, .writeBins, .preparePixels] ++ chunkSteps cfg 0 evs

/-- all the steps succeed -/
def exec (cfg : Cfg) (steps : List Step) (fs : FS) : FS :=
  steps.foldl (fun fs s => s.eff cfg fs) fs

/-- the first `k` steps have been executed -/
def runUntil (cfg : Cfg) (k : Nat) (steps : List Step) (fs : FS) : FS := exec cfg (steps.take k) fs

/-- execute until the first failing step: final file state and the exception, if any -/
def run (cfg : Cfg) : List Step → FS → FS × Option Fault
  | [], fs => (fs, none)
  | s :: ss, fs =>
    match s.fails cfg fs with
    | some e => (fs, some e)
    | none => run cfg ss (s.eff cfg fs)

/-- paths a creation at `t` may touch: `t` and what lies below it; for the root target the root
group itself and its four table children (every other group of the file is left alone) -/
def footprint (t p : Path) : Bool :=
  if t = [] then (p = [] || isTablePath p) else isUnder t p

/-! ## 4. pipelines: creation fed through temporary files or from other coolers -/

/-- the destination file and the temporary `.multi.cool` file (a different file by construction) -/
structure Sys where
  dest : FS
  temp : FS
deriving DecidableEq, Repr, Inhabited

inductive PStep
  | temp (cfg : Cfg) (s : Step)     -- a `create()` step acting on the temporary file
  | check (ok : Bool)               -- a read-only pre-check of the inputs (may raise ValueError)
  | dest (s : Step)                 -- a step of the final `create()` on the destination
deriving Repr, Inhabited

def PStep.isPre : PStep → Bool
  | .dest _ => false
  | _ => true

def PStep.eff (cfg : Cfg) : PStep → Sys → Sys
  | .temp tc s, y => { y with temp := s.eff tc y.temp }
  | .check _, y => y
  | .dest s, y => { y with dest := s.eff cfg y.dest }

def PStep.fails (cfg : Cfg) : PStep → Sys → Option Fault
  | .temp tc s, y => s.fails tc y.temp
  | .check ok, _ => if ok then none else some (.err .value)
  | .dest s, y => s.fails cfg y.dest

def execP (cfg : Cfg) (steps : List PStep) (y : Sys) : Sys := steps.foldl (fun y s => s.eff cfg y) y
def runUntilP (cfg : Cfg) (k : Nat) (steps : List PStep) (y : Sys) : Sys := execP cfg (steps.take k) y

def runP (cfg : Cfg) : List PStep → Sys → Sys × Option Fault
  | [], y => (y, none)
  | s :: ss, y =>
    match s.fails cfg y with
    | some e => (y, some e)
    | none => runP cfg ss (s.eff cfg y)

/-- any preparatory phase followed by the one `create()` on the destination -/
def pipeline (pre : List PStep) (cfg : Cfg) (evs : List Ev) : List PStep :=
  pre ++ (createSteps cfg evs).map .dest

/-- sort pass of `create_from_unordered`: chunk `i` goes through a complete
`create(tmp::i, mode="a")` of its own (validated there), in the temporary file -/
def unorderedPre (tcfg : Nat → Cfg) : Nat → List Ev → List PStep
  | _, [] => []
  | i, .raise :: _ => [.temp (tcfg i) (.pull .raise)]
  | i, .chunk c :: evs =>
    .temp (tcfg i) (.pull (.chunk c)) :: (createSteps (tcfg i) [.chunk c]).map (.temp (tcfg i)) ++
      unorderedPre tcfg (i + 1) evs

/-- `merge_coolers` / `coarsen_cooler`: input checks, then `create()` fed by the merger/coarsener -/
def producerPre (inputsOk : Bool) : List PStep := [.check inputsOk]

/-- an option that `create()` rejects on entry (an unknown `h5opts` key: `_set_h5opts` raises ValueError
before any file is opened): one failing check in front of the first `create()` that is entered -/
def optsPre (optsOk : Bool) : List PStep := if optsOk then [] else [.check false]

/-- … for unordered ingestion the first `create()` entered is the one of chunk 0 in the temporary file,
after chunk 0 has been pulled (or the final one, for the empty stream) -/
def unorderedPreBadOpts (tcfg : Nat → Cfg) : List Ev → List PStep
  | [] => [.check false]
  | .raise :: _ => [.temp (tcfg 0) (.pull .raise)]
  | .chunk c :: _ => [.temp (tcfg 0) (.pull (.chunk c)), .check false]

/-! ### the merged stream of the final pass (up to chunking): sum the counts per key, keys ascending -/

def keyLt2 (a b : Int × Int) : Bool := decide (a.1 < b.1) || (decide (a.1 = b.1) && decide (a.2 < b.2))

def insertAgg (r : Rec) : Chunk → Chunk
  | [] => [r]
  | x :: xs =>
    if keyOf r = keyOf x then (x.1, x.2.1, x.2.2 + r.2.2) :: xs
    else if keyLt2 (keyOf r) (keyOf x) then r :: x :: xs
    else x :: insertAgg r xs

def aggAll (cs : List Chunk) : Chunk := cs.flatten.foldl (fun acc r => insertAgg r acc) []

end Cooler.CreateSteps
