import CoolerModel.Basic
/-!
Model of the string layer of `cooler.util` (property C19): `parse_cooler_uri`, `atoi`,
`parse_humanized`, `parse_region_string` (with its regex tokenizer) and `parse_region`.

Strings are `List Char`.  Character classes are the ASCII restrictions of the ones Python uses
(`str.isspace` / regex `\s`: 9–13, 28–31, 32; `[a-z]` under IGNORECASE: the 52 ASCII letters —
Python additionally lets U+0130, U+0131, U+017F, U+212A match; the correspondence alphabet is
ASCII).  Every exception these functions can raise on `str` input is a `ValueError`
(tuple-unpacking of the wrong number of parts, `int()`, `decimal.InvalidOperation` re-raised,
explicit raises, `KeyError` re-raised), hence the only error value here is `Err.value`.
-/
namespace Cooler.Strings

abbrev Str := List Char

/-! ### character classes -/

def isDigit (c : Char) : Bool := decide (48 ≤ c.toNat ∧ c.toNat ≤ 57)
/-- regex class `[0-9,]` -/
def isDigitComma (c : Char) : Bool := isDigit c || c == ','
/-- regex class `[0-9,.]` -/
def isNumeric (c : Char) : Bool := isDigit c || c == ',' || c == '.'
/-- regex class `[a-z]` with IGNORECASE, ASCII -/
def isLetter (c : Char) : Bool :=
  decide ((65 ≤ c.toNat ∧ c.toNat ≤ 90) ∨ (97 ≤ c.toNat ∧ c.toNat ≤ 122))
/-- `str.isspace()` = regex `\s`, ASCII -/
def isSpace (c : Char) : Bool :=
  decide (c.toNat = 32 ∨ (9 ≤ c.toNat ∧ c.toNat ≤ 13) ∨ (28 ≤ c.toNat ∧ c.toNat ≤ 31))
/-- the one character regex `.` does not match -/
def isNewline (c : Char) : Bool := c == '\n'
/-- `str.upper()`, ASCII -/
def upper (c : Char) : Char :=
  if 97 ≤ c.toNat ∧ c.toNat ≤ 122 then Char.ofNat (c.toNat - 32) else c

def lstrip (l : Str) : Str := l.dropWhile isSpace
def rstrip (l : Str) : Str := (l.reverse.dropWhile isSpace).reverse
/-- `str.strip()` -/
def strip (l : Str) : Str := rstrip (lstrip l)

/-! ### decimal digits (`str(n)` and `int(s)` on digit strings) -/

def digitVal (c : Char) : Nat := c.toNat - 48

def digitChar : Nat → Char
  | 0 => '0' | 1 => '1' | 2 => '2' | 3 => '3' | 4 => '4'
  | 5 => '5' | 6 => '6' | 7 => '7' | 8 => '8' | _ => '9'

/-- `int(s)` for a string of ASCII digits (leading zeros allowed) -/
def natOfDigits (l : Str) : Nat := l.foldl (fun a c => a * 10 + digitVal c) 0

def digitsFuel : Nat → Nat → Str
  | 0, _ => []
  | f + 1, n => if n < 10 then [digitChar n] else digitsFuel f (n / 10) ++ [digitChar (n % 10)]

/-- `str(n)` for a natural number -/
def digitsOf (n : Nat) : Str := digitsFuel (n + 1) n

/-- `"{}:{}-{}".format(chrom, start, end)` -/
def formatRegion (c : Str) (s e : Nat) : Str := c ++ ':' :: digitsOf s ++ '-' :: digitsOf e
/-- the open-ended spelling `chrom:start-` -/
def formatRegionOpen (c : Str) (s : Nat) : Str := c ++ ':' :: digitsOf s ++ ['-']

/-! ### parse_humanized -/

/-- exponent of a unit after `.upper().strip()` -/
def unitExp : Str → Option Nat
  | ['K'] => some 3
  | ['K', 'B'] => some 3
  | ['M'] => some 6
  | ['M', 'B'] => some 6
  | ['G'] => some 9
  | ['G', 'B'] => some 9
  | _ => none

/-- `int(value)` where `value` is a non-empty run of `[0-9.]` (nothing else can reach it):
    succeeds iff there is no `.` -/
def pyInt (value : Str) : Except Err Nat :=
  if value.all isDigit then .ok (natOfDigits value) else .error .value

/-- `Decimal(value)` for a run of `[0-9.]`: mantissa `m` and scale `k`, value `m / 10^k`.
    Accepts `12`, `12.`, `.5`, `1.25`; rejects `.`, and anything with two dots. -/
def pyDecimal (value : Str) : Option (Nat × Nat) :=
  let i := value.takeWhile isDigit
  match value.dropWhile isDigit with
  | [] => if i = [] then none else some (natOfDigits i, 0)
  | c :: f =>
    if c = '.' ∧ f.all isDigit ∧ (i ≠ [] ∨ f ≠ []) then some (natOfDigits (i ++ f), f.length)
    else none

/-- `cooler.util.parse_humanized`.
    `re.split("([0-9,.]+)", t)` on the comma-free text `t` returns `[pre, run₁, mid, run₂, …, post]`
    with one entry per maximal run of `[0-9,.]`; the 3-way unpacking needs exactly one run:
    `pre` (ignored by the code), `value`, `unit`. -/
def parseHumanized (s : Str) : Except Err Nat :=
  let t := s.filter (· != ',')
  let r := t.dropWhile (fun c => !isNumeric c)
  let value := r.takeWhile isNumeric
  let unit := r.dropWhile isNumeric
  if value = [] then .error .value                 -- no run: 1 part, unpacking fails
  else if unit.any isNumeric then .error .value    -- a second run: ≥ 5 parts
  else if unit = [] then pyInt value
  else match pyDecimal value with
    | none => .error .value                        -- InvalidOperation → ValueError
    | some (m, k) =>
      match unitExp (strip (unit.map upper)) with
      | none => .error .value                      -- unknown unit
      | some u => .ok (m * 10 ^ u / 10 ^ k)        -- int(Decimal(value) * 10^u): exact, truncating

/-- `cooler.util.atoi` on a string of digits and commas -/
def atoi (s : Str) : Except Err Nat := pyInt (s.filter (· != ','))

/-! ### the tokenizer of parse_region_string

`\s*(?P<HYPHEN>-)|\s*(?P<COORD>[0-9,]+(\.[0-9]*)?(?:[a-z]+)?)|\s*(?P<OTHER>.+)` driven by
`finditer`: at each position the first alternative that matches wins; every alternative starts by
skipping blanks; a position where nothing matches is skipped. -/

inductive TokType
  | hyphen | coord | other
deriving DecidableEq, Repr, Inhabited

def TokType.name : TokType → String
  | .hyphen => "HYPHEN" | .coord => "COORD" | .other => "OTHER"

structure Tok where
  typ : TokType
  text : Str
deriving DecidableEq, Repr, Inhabited

/-- `[0-9,]+(\.[0-9]*)?(?:[a-z]+)?` matched greedily at the head of `l` (which starts with
    `[0-9,]`): the matched text and what follows it -/
def scanCoord (l : Str) : Str × Str :=
  let a := l.takeWhile isDigitComma
  let r1 := l.dropWhile isDigitComma
  match r1 with
  | '.' :: r =>
    let r2 := r.dropWhile isDigit
    (a ++ '.' :: r.takeWhile isDigit ++ r2.takeWhile isLetter, r2.dropWhile isLetter)
  | _ => (a ++ r1.takeWhile isLetter, r1.dropWhile isLetter)

/-- one step of `finditer`: the next token and the unread remainder, or `none` when no further
    match exists (only blanks that are all newlines remain) -/
def nextToken (l : Str) : Option (Tok × Str) :=
  match l.dropWhile isSpace with
  | [] =>
    -- only blanks: `\s*` backs off so that OTHER `.+` can take the last blank that is not a
    -- newline; the blanks after it are newlines and match nothing
    match l.reverse.dropWhile isNewline with
    | [] => none
    | c :: _ => some (⟨.other, [c]⟩, (l.reverse.takeWhile isNewline).reverse)
  | c :: r =>
    if c = '-' then some (⟨.hyphen, ['-']⟩, r)
    else if isDigitComma c then
      let p := scanCoord (c :: r)
      some (⟨.coord, p.1⟩, p.2)
    else some (⟨.other, (c :: r).takeWhile (fun x => !isNewline x)⟩,
               (c :: r).dropWhile (fun x => !isNewline x))

def tokFuel : Nat → Str → List Tok
  | 0, _ => []
  | f + 1, l =>
    match nextToken l with
    | none => []
    | some (t, r) => t :: tokFuel f r

/-- `list(_tokenize(s))` (every token consumes at least one character) -/
def tokenize (l : Str) : List Tok := tokFuel l.length l

/-! ### parse_region_string -/

/-- `s.split(sep)` for a one-character separator -/
def splitChar (sep : Char) : Str → List Str
  | [] => [[]]
  | c :: cs =>
    if c = sep then [] :: splitChar sep cs
    else match splitChar sep cs with
      | [] => [[c]]
      | p :: ps => (c :: p) :: ps

/-- `_expect(tokens)`: COORD HYPHEN [COORD]; whatever follows the third token is never looked at.
    A `ValueError` raised by `parse_humanized` propagates unchanged (every error here is `.value`). -/
def expectToks : List Tok → Except Err (Nat × Option Nat)
  | [] => .error .value
  | t1 :: rest =>
    if t1.typ ≠ .coord then .error .value else
    match parseHumanized t1.text with
    | .error _ => .error .value
    | .ok a =>
      match rest with
      | [] => .error .value
      | t2 :: rest2 =>
        if t2.typ ≠ .hyphen then .error .value else
        match rest2 with
        | [] => .ok (a, none)
        | t3 :: _ =>
          if t3.typ ≠ .coord then .error .value else
          match parseHumanized t3.text with
          | .error _ => .error .value
          | .ok b => if b < a then .error .value else .ok (a, some b)

/-- `cooler.util.parse_region_string` -/
def parseRegionString (s : Str) : Except Err (Str × Option Nat × Option Nat) :=
  match splitChar ':' s with
  | [] => .error .value                      -- unreachable: split never returns an empty list
  | p0 :: ps =>
    let chrom := strip p0
    if chrom = [] then .error .value else
    match ps with
    | [] => .ok (chrom, none, none)
    | p1 :: _ =>
      match expectToks (tokenize p1) with
      | .error _ => .error .value
      | .ok (a, b) => .ok (chrom, some a, b)

/-! ### parse_region -/

inductive Reg
  | str (s : Str)
  | triple (chrom : Str) (start stop : Option Int)
deriving Repr

/-- `chromsizes[chrom]` on a mapping given as an association list (first hit) -/
def lookup : List (Str × Nat) → Str → Option Nat
  | [], _ => none
  | (k, v) :: rest, c => if k = c then some v else lookup rest c

/-- `clen = chromsizes[chrom] if chromsizes is not None else None`; `KeyError` becomes
    `ValueError("Unknown sequence label")` -/
def chromLen (chrom : Str) : Option (List (Str × Nat)) → Except Err (Option Nat)
  | none => .ok none
  | some cs =>
    match lookup cs chrom with
    | some L => .ok (some L)
    | none => .error .value

/-- `end`, defaulting to the chromosome length -/
def endOf (stop : Option Int) (clen : Option Nat) : Option Int :=
  match stop with
  | some e => some e
  | none => clen.map Int.ofNat

/-- `clen is not None and end > clen` -/
def beyond (clen : Option Nat) (e : Int) : Bool :=
  match clen with
  | some L => decide (e > (L : Int))
  | none => false

/-- defaults and bounds of `parse_region` once the chromosome length is known -/
def checkBounds (chrom : Str) (start stop : Option Int) (clen : Option Nat) :
    Except Err (Str × Int × Int) :=
  match endOf stop clen with
  | none => .error .value                      -- "Cannot determine end coordinate."
  | some e =>
    if e < start.getD 0 then .error .value       -- "End cannot be less than start"
    else if start.getD 0 < 0 then .error .value  -- "out of bounds"
    else if beyond clen e then .error .value     -- "out of bounds"
    else .ok (chrom, start.getD 0, e)

/-- the part of `parse_region` after the triple has been obtained -/
def checkRegion (chrom : Str) (start stop : Option Int) (chromsizes : Option (List (Str × Nat))) :
    Except Err (Str × Int × Int) :=
  match chromLen chrom chromsizes with
  | .error _ => .error .value
  | .ok clen => checkBounds chrom start stop clen

/-- `cooler.util.parse_region` -/
def parseRegion (reg : Reg) (chromsizes : Option (List (Str × Nat))) : Except Err (Str × Int × Int) :=
  match reg with
  | .str s =>
    match parseRegionString s with
    | .error _ => .error .value
    | .ok (c, a, b) => checkRegion c (a.map Int.ofNat) (b.map Int.ofNat) chromsizes
  | .triple c a b => checkRegion c a b chromsizes

/-! ### parse_cooler_uri -/

/-- `s.split("::")`: leftmost non-overlapping occurrences -/
def splitDC : Str → List Str
  | [] => [[]]
  | [c] => [[c]]
  | c :: d :: cs =>
    if c = ':' ∧ d = ':' then [] :: splitDC cs
    else match splitDC (d :: cs) with
      | [] => [[c]]
      | p :: ps => (c :: p) :: ps

/-- `cooler.util.parse_cooler_uri` -/
def parseCoolerUri (s : Str) : Except Err (Str × Str) :=
  match splitDC s with
  | [f] => .ok (f, ['/'])
  | [f, g] => .ok (f, if g.head? = some '/' then g else '/' :: g)
  | _ => .error .value

/-- does the text contain `::` -/
def hasDC : Str → Bool
  | [] => false
  | [_] => false
  | c :: d :: cs => (c == ':' && d == ':') || hasDC (d :: cs)

/-! ### L0: what a well-formed string denotes (the reading of the property) -/

/-- the integer denoted by the numeral `I.F` times `10^u` when `F` has at most `u` digits -/
def denote (I F : Str) (u : Nat) : Nat :=
  natOfDigits I * 10 ^ u + natOfDigits F * 10 ^ (u - F.length)

/-- L0 coordinate numeral: digits with thousands separators (starting with a digit), optionally
    `.digits`, optionally a unit `k kb m mb g gb` in any case; with a fraction the unit is required
    and must make the product an integer.  `none`: not such a numeral (the property is silent). -/
def numeralValue (s : Str) : Option Nat :=
  let ic := s.takeWhile isDigitComma
  let i := ic.filter (· != ',')
  if (match s with | [] => true | c :: _ => !isDigit c) then none else
  match s.dropWhile isDigitComma with
  | [] => some (natOfDigits i)
  | c :: r =>
    if c = '.' then
      let f := r.takeWhile isDigit
      match unitExp ((r.dropWhile isDigit).map upper) with
      | some u => if f.length ≤ u then some (denote i f u) else none
      | none => none
    else
      match unitExp ((c :: r).map upper) with
      | some u => some (natOfDigits i * 10 ^ u)
      | none => none

/-- L0 region: `name`, `name:A-` or `name:A-B` with `name` non-empty, free of `:` and of
    surrounding blanks, `A`, `B` L0 numerals, `A ≤ B`, and nothing else in the string.
    `none`: not a well-formed region in this strict sense (the property is silent or demands a
    refusal, see `refusedClass`). -/
def strictRegion (s : Str) : Option (Str × Option Nat × Option Nat) :=
  let name := s.takeWhile (· != ':')
  if name = [] ∨ strip name ≠ name then none else
  match s.dropWhile (· != ':') with
  | [] => some (name, none, none)
  | _ :: body =>
    if body.any (· == ':') then none else
    match body.dropWhile (· != '-') with
    | [] => none
    | _ :: b =>
      match numeralValue (body.takeWhile (· != '-')) with
      | none => none
      | some x =>
        if b = [] then some (name, some x, none) else
        match numeralValue b with
        | none => none
        | some y => if x ≤ y then some (name, some x, some y) else none

/-- the malformed classes the property lists -/
inductive Refusal
  | emptyName | missingHyphen | negative | nonNumeric | reversed | unknownUnit
deriving DecidableEq, Repr, Inhabited

def Refusal.name : Refusal → String
  | .emptyName => "empty-name" | .missingHyphen => "missing-hyphen" | .negative => "negative"
  | .nonNumeric => "non-numeric" | .reversed => "reversed" | .unknownUnit => "unknown-unit"

/-- skip an optional `.digits` -/
def skipFraction : Str → Str
  | '.' :: r => r.dropWhile isDigit
  | r1 => r1

/-- `digits[,digits][.digits]letters` where the letters are not a unit -/
def badUnit (s : Str) : Bool :=
  (match s with | [] => false | c :: _ => isDigit c) &&
  (let r2 := skipFraction (s.dropWhile isDigitComma)
   r2 ≠ [] && r2.all isLetter && (unitExp (r2.map upper)).isNone)

/-- L0: a conservative recogniser of the malformed classes (strings with exactly one `:` after a
    non-blank name, or a blank name).  `none` = not recognised as one of the listed classes. -/
def refusedClass (s : Str) : Option Refusal :=
  let name := s.takeWhile (· != ':')
  if strip name = [] then some .emptyName else
  match s.dropWhile (· != ':') with
  | [] => none
  | _ :: body =>
    if body.any (· == ':') then none else
    if !(body.any (· == '-')) then some .missingHyphen else
    match body.dropWhile isSpace with
    | [] => none
    | c :: _ =>
      if c = '-' then some .negative
      else if !(isDigitComma c) then some .nonNumeric
      else
        let a := body.takeWhile (· != '-')
        let b := (body.dropWhile (· != '-')).drop 1
        if badUnit a then some .unknownUnit else
        match numeralValue a with
        | none => none
        | some x =>
          match b with
          | [] => none
          | d :: _ =>
            if badUnit b then some .unknownUnit
            else if !(isSpace d) && !(isDigitComma d) then
              (if d = '-' then some .negative else some .nonNumeric)
            else match numeralValue b with
              | some y => if y < x then some .reversed else none
              | none => none

end Cooler.Strings
