import CoolerModel.Model.Create
import CoolerModel.Model.GroupAgg
/-!
The dtype clause of C07: "a stored value is never silently different from the exact aggregate: an
aggregate that does not fit the output type is an error".

`merge_coolers(out, inputs, dtypes={col: T}, agg={col: f})` aggregates the column exactly and hands every
chunk to `write_pixels`, whose integer columns go through the checked write of C01
(`Create.checkedWrite`: the values themselves, or a refusal when one of them is outside the column's
range).  The model works on unbounded integers, so "exact" needs no qualification; the types enter only
through what a column can hold.  With `dtypes` omitted the column gets the common type of the inputs'
columns (`np.result_type`): `commonInt` / `common`.
-/
namespace Cooler.MergeDtype
open Cooler Cooler.Merge Cooler.Create

/-- a value dtype: an integer of `bits` bits, signed or not, or a binary float with a `mant`-bit significand
(24: float32, 53: float64; the exponent range is far beyond any 64-bit aggregate and is not modelled) -/
inductive VType where
  | int (signed : Bool) (bits : Nat)
  | float (mant : Nat)
deriving DecidableEq, Repr

/-- an integer is held exactly by a `mant`-bit significand iff every bit below its top `mant` bits is 0 -/
def fitsFloat (mant : Nat) (v : Int) : Bool :=
  decide (v.natAbs % 2 ^ (Nat.log2 v.natAbs + 1 - mant) = 0)

/-- the column type holds the (integer) value unchanged -/
def VType.holds : VType → Int → Bool
  | .int s b, v => fitsInt s b v
  | .float m, v => fitsFloat m v

/-- **L0 of the dtype clause**, integer output column: the exact aggregate, or a refusal -/
def mergeTyped (agg : List Int → Int) (signed : Bool) (bits : Nat) (inputs : List Pixels) : Option Pixels :=
  (checkedWrite signed bits ((mergeSpecAgg agg inputs).map Px.v)).map fun _ => mergeSpecAgg agg inputs

/-- `write_pixels` over the merger's chunk stream: every chunk's column goes through the checked write; one
refused chunk refuses the merge -/
def writeChunks (signed : Bool) (bits : Nat) : List Pixels → Option (List Pixels)
  | [] => some []
  | c :: rest =>
    match checkedWrite signed bits (c.map Px.v), writeChunks signed bits rest with
    | some _, some r => some (c :: r)
    | _, _ => none

/-- L1: the streaming merger (any partition) feeding the checked write chunk by chunk -/
def mergerTyped (agg : List Int → Int) (signed : Bool) (bits : Nat) (inputs : List Pixels) (part : List Nat) :
    Option Pixels :=
  (writeChunks signed bits (mergerAgg agg inputs part)).map List.flatten

/-! ### `dtypes` omitted: the common type of the inputs' columns (`np.result_type`) -/

def maxBits (signed : Bool) (ts : List (Bool × Nat)) : Nat :=
  ts.foldl (fun m t => if t.1 = signed then max m t.2 else m) 0

/-- integer inputs: the narrowest integer type of at most 64 bits holding every value of every input type;
`none` when there is none (uint64 next to a signed type — numpy then answers float64) -/
def commonInt (ts : List (Bool × Nat)) : Option (Bool × Nat) :=
  let us := maxBits false ts
  let ss := maxBits true ts
  if ss = 0 then some (false, us)
  else if us < ss then some (true, ss)
  else if 2 * us ≤ 64 then some (true, 2 * us)
  else none

def intsOf : List VType → List (Bool × Nat)
  | [] => []
  | .int s b :: rest => (s, b) :: intsOf rest
  | .float _ :: rest => intsOf rest

def floatsOf : List VType → List Nat
  | [] => []
  | .int _ _ :: rest => floatsOf rest
  | .float m :: rest => m :: floatsOf rest

/-- `np.result_type(*dtypes)` on the value dtypes of the domain (int8…int64, uint8…uint64, float32, float64):
integers alone give `commonInt` (float64 when there is none); with a float among them the result is float32
only when every float is float32 and every integer has at most 16 bits, float64 otherwise -/
def common (ts : List VType) : VType :=
  match floatsOf ts with
  | [] => match commonInt (intsOf ts) with
          | some (s, b) => .int s b
          | none => .float 53
  | ms => if ms.all (· ≤ 24) && (intsOf ts).all (fun t => decide (t.2 ≤ 16)) then .float 24 else .float 53

/-! ### what the correspondence may demand of a real merge

The model aggregates unbounded integers.  The implementation aggregates integer columns in integer
arithmetic (where the property demands exactness outright) but a float column among the INPUTS makes the
aggregation itself a floating-point one: the integer model answers for such a merge only where that
arithmetic is exact — every input value, and for sums every partial sum in input order, is held by the
narrowest significand involved.  A float OUTPUT column holds an aggregate exactly or rounds it; rounding is
what a float type is, so nothing is demanded of an aggregate the requested float type does not hold. -/

inductive Verdict where
  | exact          -- the merge must succeed and store the exact aggregate
  | refuse         -- the merge must be refused (some exact aggregate is outside the integer output column)
  | unconstrained  -- outside the integer model (inexact float arithmetic / rounding float column)
deriving DecidableEq, Repr

def prefixSums : Int → List Int → List Int
  | _, [] => []
  | acc, v :: rest => (acc + v) :: prefixSums (acc + v) rest

def minMant : List VType → Option Nat
  | [] => none
  | .int _ _ :: rest => minMant rest
  | .float m :: rest => some (match minMant rest with | none => m | some m' => min m m')

def floatExact (m : Nat) (isSum : Bool) (inputs : List Pixels) : Bool :=
  inputs.flatten.all (fun p => fitsFloat m p.v) &&
  (!isSum || (groupSum inputs.flatten).all fun p =>
    (prefixSums 0 (valsAt inputs.flatten p.i p.j)).all (fitsFloat m))

def verdict (agg : List Int → Int) (isSum : Bool) (ins : List VType) (out : VType) (inputs : List Pixels) : Verdict :=
  let fits := (mergeSpecAgg agg inputs).all fun p => out.holds p.v
  let arithOk := match minMant ins with
    | none => true
    | some _ => match minMant (out :: ins) with
      | none => true
      | some m => floatExact m isSum inputs
  match out with
  | .int _ _ => if !arithOk then .unconstrained else if fits then .exact else .refuse
  | .float _ => if arithOk && fits then .exact else .unconstrained

/-- the recorded total is compared where every accumulator involved holds every partial total: the sum of
the absolute values stays within int64 (and within the narrowest significand involved, if any) -/
def totalSafe (ins : List VType) (out : VType) (spec : Pixels) : Bool :=
  let a : Int := (spec.map fun p => (p.v.natAbs : Int)).foldl (· + ·) 0
  fitsInt true 64 a && (match minMant (out :: ins) with | none => true | some m => decide (a ≤ 2 ^ m))

/-! ### the aggregation AS BUILT (known findings D32 and D33) — a variant oracle, not the specification

The implementation aggregates an epoch's records in the arithmetic of the dtype pandas gives the concatenated
column: a 64-bit integer accumulator that wraps around silently (D32: an aggregate outside the accumulator's
range comes out modulo 2^64), or — when the epoch's inputs mix uint64 with a signed integer dtype — float64
(D33: every value is first rounded to a 53-bit significand, sums are Kahan sums of the rounded values).  The
chunk then goes through the write of the output column as usual (range check of an integer column; rounding
into a float column).  The correspondence uses this only to RECOGNISE those two deviations exactly; everything
else that differs from the specification stays a violation. -/

/-- round to the nearest integer with an `m`-bit significand, ties to even -/
def rnd (m : Nat) (v : Int) : Int :=
  let a := v.natAbs
  let e := Nat.log2 a + 1 - m
  if e = 0 then v else
    let q := a / 2 ^ e
    let r := a % 2 ^ e
    let q' := if 2 ^ (e - 1) < r ∨ (r = 2 ^ (e - 1) ∧ q % 2 = 1) then q + 1 else q
    (if v < 0 then -1 else 1) * ((q' * 2 ^ e : Nat) : Int)

/-- Kahan summation in `m`-bit floating point, every operation rounded (pandas `group_sum`) -/
def kahanSum (m : Nat) (vs : List Int) : Int :=
  (vs.foldl (fun (sc : Int × Int) v =>
    let y := rnd m (v - sc.2)
    let t := rnd m (sc.1 + y)
    (t, rnd m (rnd m (t - sc.1) - y))) (0, 0)).1

/-- a 64-bit accumulator: the value modulo 2^64, read as signed or unsigned -/
def wrap64 (signed : Bool) (v : Int) : Int :=
  let r := v % 18446744073709551616
  if signed && decide (9223372036854775808 ≤ r) then r - 18446744073709551616 else r

inductive AccPath where
  | unsignedAcc | signedAcc | float64
deriving DecidableEq, Repr

/-- the arithmetic of an epoch, from the dtypes of the inputs that have records in it -/
def accPath (ts : List (Bool × Nat)) : AccPath :=
  if ts.any (fun t => !t.1 && decide (t.2 = 64)) && ts.any (fun t => t.1) then .float64
  else if ts.any (fun t => t.1) then .signedAcc else .unsignedAcc

def aggAsBuilt (agg : List Int → Int) (isSum : Bool) (path : AccPath) (vs : List Int) : Int :=
  match path with
  | .float64 => if isSum then kahanSum 53 (vs.map (rnd 53)) else agg (vs.map (rnd 53))
  | .signedAcc => if isSum then wrap64 true (agg vs) else agg vs
  | .unsignedAcc => if isSum then wrap64 false (agg vs) else agg vs

/-- one epoch as built: (what the chunk holds, what it should hold, the arithmetic used); integer inputs only -/
def epochAsBuilt (agg : List Int → Int) (isSum : Bool) (ins : List (Bool × Nat)) (inputs : List Pixels) (a b : Nat) :
    List (Pixels × Pixels × AccPath) :=
  if epochRows inputs a b = [] then []
  else
    let present := (List.zip ins inputs).filterMap fun tp => if rowsSlice tp.2 a b = [] then none else some tp.1
    let path := accPath present
    [(groupAgg (aggAsBuilt agg isSum path) (epochRows inputs a b), groupAgg agg (epochRows inputs a b), path)]

def mergerAsBuiltFrom (agg : List Int → Int) (isSum : Bool) (ins : List (Bool × Nat)) (inputs : List Pixels) :
    Nat → List Nat → List (Pixels × Pixels × AccPath)
  | _, [] => []
  | a, b :: rest => epochAsBuilt agg isSum ins inputs a b ++ mergerAsBuiltFrom agg isSum ins inputs b rest

/-- the write of one chunk into the output column: an integer column refuses what it cannot hold, a float column rounds -/
def writeAsBuilt (out : VType) (c : Pixels) : Option Pixels :=
  match out with
  | .int s b => if c.all (fun p => fitsInt s b p.v) then some c else none
  | .float m => some (c.map fun p => ⟨p.i, p.j, rnd m p.v⟩)

def storeAsBuilt (out : VType) : List Pixels → Option Pixels
  | [] => some []
  | c :: rest => match writeAsBuilt out c, storeAsBuilt out rest with
    | some w, some r => some (w ++ r)
    | _, _ => none

end Cooler.MergeDtype
