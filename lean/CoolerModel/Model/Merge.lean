import CoolerModel.Model.GroupSum
/-!
Model of `_reduce.merge_breakpoints` and `CoolerMerger.__iter__` (properties C07, C06):
a k-way merge of row-sorted pixel tables over a common axis, done epoch by epoch over a partition of
the row ids bounded by the merge buffer.
-/
namespace Cooler.Merge
open Cooler

/-- element-wise sum of the inputs' `bin1_offset` arrays (`combined_index`) -/
def combinedIndex : List (List Nat) → List Nat
  | [] => []
  | [x] => x
  | x :: rest => List.zipWith (· + ·) x (combinedIndex rest)

/-- `bisect.bisect_right(a, x, lo=lo)` on a non-decreasing list -/
def bisectRight (a : List Nat) (x lo : Nat) : Nat := lo + ((a.drop lo).takeWhile (· ≤ x)).length

/-- the `while True` loop of `merge_breakpoints` (fuel = length of the index) -/
def breakLoop (comb : List Nat) (bufsize nnz : Nat) : Nat → Nat → Nat → List Nat
  | 0, _, _ => []
  | fuel + 1, lo, start =>
    let hi0 := bisectRight comb (min (start + bufsize) nnz) lo - 1
    let hi := if hi0 = lo then hi0 + 1 else hi0
    if comb.getD hi 0 = nnz then [hi]
    else hi :: breakLoop comb bufsize nnz fuel hi (comb.getD hi 0)

/-- `merge_breakpoints(indexes, bufsize)[0]` -/
def mergeBreakpoints (comb : List Nat) (bufsize : Nat) : List Nat :=
  0 :: breakLoop comb bufsize (comb.getLast?.getD 0) comb.length 0 0

/-- contract of the partition (a free unit): starts at 0, strictly increasing, stays inside the index,
and from its last element on no input has any record left.  (`[0]` alone — no epoch at all — is valid
exactly when there is no record at all: then `comb[0] = comb[last]`.) -/
def chainIncr : Nat → List Nat → Bool
  | _, [] => true
  | a, b :: rest => decide (a < b) && chainIncr b rest

def validBreakpoints (comb : List Nat) (part : List Nat) : Bool :=
  match part with
  | [] => false
  | p0 :: rest =>
    decide (p0 = 0) && chainIncr p0 rest &&
      decide ((p0 :: rest).getLast?.getD 0 < comb.length) &&
      decide (comb.getD ((p0 :: rest).getLast?.getD 0) 0 = comb.getLast?.getD 0)

/-- records of rows `[a,b)` of every input, each read through its own index, concatenated
(`pd.concat([c.pixels()[start:stop] for c in coolers if stop > start])`) -/
def epochRows (inputs : List Pixels) (a b : Nat) : Pixels := (inputs.map fun ps => rowsSlice ps a b).flatten

/-- one merge epoch: nothing is yielded when no input has records in it (repaired behaviour, D6) -/
def epochOut (inputs : List Pixels) (a b : Nat) : List Pixels :=
  if epochRows inputs a b = [] then [] else [groupSum (epochRows inputs a b)]

def mergerFrom (inputs : List Pixels) : Nat → List Nat → List Pixels
  | _, [] => []
  | a, b :: rest => epochOut inputs a b ++ mergerFrom inputs b rest

/-- `CoolerMerger.__iter__`: the chunk stream handed to `create` -/
def merger (inputs : List Pixels) (part : List Nat) : List Pixels :=
  match part with
  | [] => []
  | p0 :: rest => mergerFrom inputs p0 rest

/-- L0: the exact element-wise aggregate of the inputs -/
def mergeSpec (inputs : List Pixels) : Pixels := groupSum inputs.flatten

/-- total of the value column -/
def total (l : Pixels) : Int := (l.map Px.v).foldl (· + ·) 0

end Cooler.Merge
