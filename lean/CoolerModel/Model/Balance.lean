import CoolerModel.Basic
/-!
Model of matrix balancing (`cooler.balance_cooler`, `/repo/src/cooler/_balance.py`).  Property C10.

Arithmetic: exact rationals (`Rat`, core Lean) in place of float64 (DESIGN §3); the marginal and
row-sum functions are generic in the value type so that the theorems hold over any commutative monoid.
`NaN` is `none`.  The rescaling by `1/√scale` is *not* applied: the model returns the un-rescaled weights
and `scale` (`returned weight = bias / √scale`).

Layout of the code that is mirrored:

* per-pixel transformations on a `data` vector aligned with the pixel table:
  `_init`, `_binarize`, `_zero_diags n`, `_zero_trans`, `_zero_cis`, `_timesouterproduct vec`  (lines 25-60)
  — here the pixel and its current data value travel together as a `WPx`;
* `_marginalize`: `bincount(bin1_id, data) + bincount(bin2_id, data)`                       (63-69)
* bin-level masks `min_nnz`, `min_count`, MAD-max, blacklist, `x0`                           (366-413)
* the three sweeps `_balance_genomewide`, `_balance_cisonly`, `_balance_transonly`           (72-260)
* the `stats` dictionary                                                                     (456-467)

Chunking (`spans`, `split … reduce(add)`) is property C11's business: the model sums over all pixels.
-/
namespace Cooler.IC

/-- one pixel together with its current `data` value -/
structure WPx (α : Type) where
  i : Nat
  j : Nat
  w : α
deriving Repr, DecidableEq

/-! ## marginals — generic in the value type -/

section generic
variable {α : Type} [Add α] [Zero α]

/-- `np.bincount(idx, weights=data, minlength=n)[k]` where `idx = sel` of each pixel -/
def bincountAt (sel : WPx α → Nat) (l : List (WPx α)) (k : Nat) : α :=
  (l.map (fun p => if sel p = k then p.w else 0)).sum

/-- `_marginalize(chunk, data)[k]` -/
def marginalizeAt (l : List (WPx α)) (k : Nat) : α :=
  bincountAt (·.i) l k + bincountAt (·.j) l k

/-- entry `(a, b)` of the symmetric matrix that upper-triangular pixel data stands for -/
def symmAt (l : List (WPx α)) (a b : Nat) : α :=
  (l.map (fun p => if (p.i = a ∧ p.j = b) ∨ (p.i = b ∧ p.j = a) then p.w else 0)).sum

/-- L0: row sum of row `a` of that symmetric `n × n` matrix -/
def rowsumAt (n : Nat) (l : List (WPx α)) (a : Nat) : α :=
  ((List.range n).map (symmAt l a)).sum

end generic

/-! ## per-pixel filters -/

section filters
variable {α : Type}

def absDiff (a b : Nat) : Nat := if a ≤ b then b - a else a - b

/-- chromosome of bin `i`, from `indexes/chrom_offset = [0, n₀, n₀+n₁, …, nbins]` -/
def chromOf (offs : List Nat) (i : Nat) : Nat := offs.tail.countP (fun o => o ≤ i)

/-- `data[data != 0] = 1` -/
def binarize [Zero α] [One α] [DecidableEq α] (l : List (WPx α)) : List (WPx α) :=
  l.map fun p => if p.w = 0 then p else { p with w := 1 }

/-- `data[|bin1 − bin2| < n_diags] = 0` -/
def zeroDiags [Zero α] (d : Nat) (l : List (WPx α)) : List (WPx α) :=
  l.map fun p => if absDiff p.i p.j < d then { p with w := 0 } else p

/-- `data[chrom[bin1] != chrom[bin2]] = 0` -/
def zeroTrans [Zero α] (offs : List Nat) (l : List (WPx α)) : List (WPx α) :=
  l.map fun p => if chromOf offs p.i ≠ chromOf offs p.j then { p with w := 0 } else p

/-- `data[chrom[bin1] == chrom[bin2]] = 0` -/
def zeroCis [Zero α] (offs : List Nat) (l : List (WPx α)) : List (WPx α) :=
  l.map fun p => if chromOf offs p.i = chromOf offs p.j then { p with w := 0 } else p

/-- `data = vec[bin1] * vec[bin2] * data` -/
def timesOuter [Mul α] (vec : Nat → α) (l : List (WPx α)) : List (WPx α) :=
  l.map fun p => { p with w := vec p.i * vec p.j * p.w }

end filters

/-! ## options -/

inductive Mode
  | genome
  | cis
  | trans
deriving DecidableEq, Repr

structure Opts where
  mode : Mode
  ignoreDiags : Nat              -- `False` is 0
  minNnz : Nat
  minCount : Nat
  madMax : Nat
  blacklist : List Nat
  x0 : Option (List (Option Rat))  -- `none` entries are NaN
  tol : Rat
  maxIters : Nat

/-- `_init`: the stored counts -/
def pixelsOf (ps : Pixels) : List (WPx Rat) := ps.map fun p => ⟨p.i, p.j, (p.v : Rat)⟩

/-- `base_filters`: `_zero_trans` if `cis_only`, then `_zero_diags` if `ignore_diags` is truthy -/
def baseFilter {α : Type} [Zero α] (o : Opts) (offs : List Nat) (l : List (WPx α)) : List (WPx α) :=
  let l1 := if o.mode = .cis then zeroTrans offs l else l
  if o.ignoreDiags ≠ 0 then zeroDiags o.ignoreDiags l1 else l1

/-- the data the sweeps marginalise: base filters, plus `_zero_cis` in trans-only mode -/
def sweepFilter {α : Type} [Zero α] (o : Opts) (offs : List Nat) (l : List (WPx α)) : List (WPx α) :=
  if o.mode = .trans then zeroCis offs (baseFilter o offs l) else baseFilter o offs l

/-! ## medians and the MAD-max cut, without `log`/`exp`

The code computes, on the chromosome-normalised marginals `x > 0`:
`L = log x`, `med = median L`, `dev = median |L − med|`, `cutoff = exp(med − mad_max·dev)` and masks
`x < cutoff`.  A median is a middle element or the mean of the two middle ones, so
`exp med = g` with `g² = x_a·x_b` (the two middle values of the sorted `x`), and
`|L − med| = log r` with `r = max(x/g, g/x)`, `r² = max(x²/g², g²/x²)` rational; hence
`exp dev = ρ` with `ρ⁴ = r_a²·r_b²` (the two middle values of the sorted `r²`) and, for `x ≥ 0`,
`x < g/ρ^m  ⇔  x⁴·(ρ⁴)^m < g⁴` — a comparison of rationals. -/

def insSorted (x : Rat) : List Rat → List Rat
  | [] => [x]
  | y :: ys => if x ≤ y then x :: y :: ys else y :: insSorted x ys

def insSort (l : List Rat) : List Rat := l.foldr insSorted []

/-- the two middle elements of a sorted list (the same element twice when the length is odd) -/
def midPair (s : List Rat) : Option (Rat × Rat) :=
  let n := s.length
  if n = 0 then none
  else if n % 2 = 1 then (s[n / 2]?).map fun x => (x, x)
  else match s[n / 2 - 1]?, s[n / 2]? with
    | some a, some b => some (a, b)
    | _, _ => none

/-- `np.median` (NaN = `none` on an empty vector) -/
def median (l : List Rat) : Option Rat := (midPair (insSort l)).map fun ab => (ab.1 + ab.2) / 2

def slice {β : Type} (v : List β) (lo hi : Nat) : List β := (v.drop lo).take (hi - lo)

/-- `for lo, hi in chroms: marg[lo:hi] /= np.median(c_marg[c_marg > 0])` -/
def normByChrom (offs : List Nat) (marg : List Rat) : List (Option Rat) :=
  (offs.zip offs.tail).flatMap fun lh =>
    let c := slice marg lh.1 lh.2
    match median (c.filter (fun x => decide (0 < x))) with
    | none => c.map fun _ => none
    | some med => c.map fun x => some (x / med)

structure MadCut where
  g4 : Rat      -- (exp (median log x))⁴
  rho4 : Rat    -- (exp (MAD log x))⁴
deriving Repr

def madCut (xs : List Rat) : Option MadCut :=
  match midPair (insSort xs) with
  | none => none
  | some (a, b) =>
    let g2 := a * b
    let r2 := xs.map fun x => let q := x * x / g2; if q ≤ 1 / q then 1 / q else q
    match midPair (insSort r2) with
    | none => none
    | some (c, d) => some ⟨g2 * g2, c * d⟩

/-- `marg < cutoff` decided exactly, and the relative gap of the decision on fourth powers -/
def madBelow (mc : MadCut) (m : Nat) (x : Rat) : Bool := decide (x ^ 4 * mc.rho4 ^ m < mc.g4)

def ratAbs (x : Rat) : Rat := if x < 0 then -x else x

def madGap (mc : MadCut) (m : Nat) (x : Rat) : Rat := ratAbs (x ^ 4 * mc.rho4 ^ m - mc.g4) / mc.g4

/-! ## bin-level masks

`mf` is the marginal functional: `marginalizeAt` is what the code computes (L1); `rowsumAt n`, the
row sums of the symmetric matrix, is what the documentation says (L0).  They coincide when the
filtered data has no non-zero entry on the main diagonal (theorem `marginalize_eq_rowsum`). -/

structure Masks where
  x0 : List Bool       -- zero or NaN initial weight
  nnz : List Bool      -- fewer than `min_nnz` non-zeros
  count : List Bool    -- marginal below `min_count`
  mad : List Bool      -- MAD-max outlier
  black : List Bool    -- blacklisted
  madGaps : List Rat   -- relative gaps of the MAD-max decisions (tie detection)
deriving Repr

def initBias (n : Nat) (x0 : Option (List (Option Rat))) : List Rat :=
  match x0 with
  | none => List.replicate n 1
  | some xs => (List.range n).map fun i => ((xs.getD i none).getD 0)

def computeMasks (mf : List (WPx Rat) → Nat → Rat) (n : Nat) (offs : List Nat) (l : List (WPx Rat))
    (o : Opts) : Masks :=
  let bins := List.range n
  let b0 := initBias n o.x0
  let mx0 := b0.map fun x => decide (x = 0)
  let mnnz :=
    if o.minNnz > 0 then
      let lb := baseFilter o offs (binarize l)
      bins.map fun k => decide (mf lb k < (o.minNnz : Rat))
    else bins.map fun _ => false
  let lf := baseFilter o offs l
  let marg := bins.map (mf lf)
  let mcount :=
    if o.minCount ≠ 0 then marg.map fun x => decide (x < (o.minCount : Rat))
    else bins.map fun _ => false
  let (mmad, gaps) :=
    if o.madMax > 0 then
      let nm := normByChrom offs marg
      let pos := nm.filterMap fun x => match x with
        | some v => if 0 < v then some v else none
        | none => none
      match madCut pos with
      | none => (bins.map fun _ => false, [])
      | some mc =>
        (nm.map fun x => match x with
            | some v => madBelow mc o.madMax v
            | none => false,
         nm.filterMap fun x => x.map (madGap mc o.madMax))
    else (bins.map fun _ => false, [])
  let mbl := bins.map fun k => o.blacklist.contains k
  ⟨mx0, mnnz, mcount, mmad, mbl, gaps⟩

def Masks.excluded (m : Masks) (k : Nat) : Bool :=
  m.x0.getD k false || m.nnz.getD k false || m.count.getD k false || m.mad.getD k false ||
    m.black.getD k false

/-- the weight vector the sweeps start from -/
def maskedBias (n : Nat) (o : Opts) (m : Masks) : List Rat :=
  (initBias n o.x0).mapIdx fun k x => if m.excluded k then 0 else x

/-! ## the sweeps -/

def mean (l : List Rat) : Rat := l.sum / (l.length : Rat)

/-- `np.var` (population variance, ddof = 0) -/
def variance (l : List Rat) : Rat :=
  let μ := mean l
  (l.map fun x => (x - μ) * (x - μ)).sum / (l.length : Rat)

/-- `_marginalize` of the data times the outer product of `w` -/
def margVec (n : Nat) (l : List (WPx Rat)) (w : List Rat) : List Rat :=
  (List.range n).map (marginalizeAt (timesOuter (fun i => w.getD i 0) l))

/-- the divisor of one bin: `marg / nzmarg.mean()` with `marg == 0` replaced by 1 -/
def divisor (mi μ : Rat) : Rat := if mi = 0 then 1 else mi / μ

/-- `marg = marg / nzmarg.mean(); marg[marg == 0] = 1; bias[lo:hi] /= marg` -/
def applyUpdate (b : List Rat) (lo : Nat) (m : List Rat) (μ : Rat) : List Rat :=
  b.mapIdx fun i x =>
    if lo ≤ i ∧ i < lo + m.length then x / divisor (m.getD (i - lo) 0) μ else x

def relGap (v tol : Rat) : Rat :=
  let d := ratAbs (v - tol)
  let s := if v ≤ tol then tol else v
  if s = 0 then 0 else d / s

structure LoopOut where
  bias : List Rat          -- the whole weight vector after the sweeps of this domain
  emptied : Bool           -- no non-zero marginal: `bias[lo:hi] = nan`, `scale = nan`, `var = 0.0`
  scale : Option Rat
  var : Rat
  iters : Nat
  gaps : List Rat          -- relative gap of every `var < tol` test made
deriving Repr

/-- the `for _ in range(max_iters)` loop on the domain `[lo, hi)`; `margOf b` is the full marginal
vector for weights `b`.  `k+1` sweeps remain. -/
def icLoop (margOf : List Rat → List Rat) (lo hi : Nat) (tol : Rat) :
    Nat → List Rat → Nat → List Rat → LoopOut
  | 0, b, it, gs => ⟨b, false, none, 0, it, gs⟩
  | k + 1, b, it, gs =>
    let m := slice (margOf b) lo hi
    let nzm := m.filter (fun x => decide (x ≠ 0))
    if nzm.isEmpty then ⟨b, true, none, 0, it + 1, gs⟩
    else
      let μ := mean nzm
      let b' := applyUpdate b lo m μ
      let v := variance nzm
      let gs' := relGap v tol :: gs
      if v < tol ∨ k = 0 then ⟨b', false, some μ, v, it + 1, gs'⟩
      else icLoop margOf lo hi tol k b' (it + 1) gs'

/-- `bias[bias == 0] = nan` on the domain (everything NaN if the domain was emptied) -/
def markNaN (lo hi : Nat) (out : LoopOut) (acc : List (Option Rat)) : List (Option Rat) :=
  acc.mapIdx fun i old =>
    if lo ≤ i ∧ i < hi then
      if out.emptied then none
      else let x := out.bias.getD i 0; if x = 0 then none else some x
    else old

/-- `cweights = 1 / (1 − (hi − lo)/n_bins)` per bin -/
def cweights (n : Nat) (offs : List Nat) : List Rat :=
  (offs.zip offs.tail).flatMap fun lh =>
    List.replicate (lh.2 - lh.1) (1 / (1 - ((lh.2 - lh.1 : Nat) : Rat) / (n : Rat)))

structure Result where
  bias : List (Option Rat)       -- un-rescaled weights, `none` = NaN
  scales : List (Option Rat)     -- per domain (one entry; per chromosome in cis-only mode)
  vars : List Rat
  converged : List Bool          -- `var < tol`
  iters : List Nat
  masks : Masks
  gaps : List Rat                -- relative gaps of all discrete float decisions (MAD cut, `var < tol`)
deriving Repr

def mulVec (a b : List Rat) : List Rat := List.zipWith (· * ·) a b

/-- `balance_cooler` -/
def balance (n : Nat) (offs : List Nat) (ps : Pixels) (o : Opts) : Except Err Result :=
  if o.maxIters = 0 then .error .other           -- UnboundLocalError (outside the property)
  else if o.mode = .trans ∧ offs.length ≤ 2 then .error .other   -- 1/0 chromosome weight: all NaN, never converges
  else
    let l := pixelsOf ps
    let masks := computeMasks marginalizeAt n offs l o
    let b0 := maskedBias n o masks
    let lf := sweepFilter o offs l
    match o.mode with
    | .genome =>
      let out := icLoop (margVec n lf) 0 n o.tol o.maxIters b0 0 []
      .ok ⟨markNaN 0 n out (b0.map some), [out.scale], [out.var], [decide (out.var < o.tol)],
        [out.iters], masks, masks.madGaps ++ out.gaps⟩
    | .trans =>
      let cw := cweights n offs
      let out := icLoop (fun b => margVec n lf (mulVec b cw)) 0 n o.tol o.maxIters b0 0 []
      .ok ⟨markNaN 0 n out (b0.map some), [out.scale], [out.var], [decide (out.var < o.tol)],
        [out.iters], masks, masks.madGaps ++ out.gaps⟩
    | .cis =>
      let step := fun (st : List Rat × List (Option Rat) × List LoopOut) (lh : Nat × Nat) =>
        -- pixels of the chromosome's span: `bin1_offset[lo] ≤ row < bin1_offset[hi]`
        let lc := lf.filter fun p => decide (lh.1 ≤ p.i ∧ p.i < lh.2)
        let out := icLoop (margVec n lc) lh.1 lh.2 o.tol o.maxIters st.1 0 []
        (out.bias, markNaN lh.1 lh.2 out st.2.1, st.2.2 ++ [out])
      let fin := (offs.zip offs.tail).foldl step (b0, b0.map some, [])
      let outs := fin.2.2
      .ok ⟨fin.2.1, outs.map (·.scale), outs.map (·.var), outs.map (fun x => decide (x.var < o.tol)),
        outs.map (·.iters), masks, masks.madGaps ++ outs.flatMap (·.gaps)⟩

/-! ## L0: which bins carry NaN, which are retained, and the proved interval

These are the definitions the top-level correspondence evaluates on the *implementation's* output. -/

/-- bin `k` has data left: some non-zero filtered pixel touches it whose two ends both carry a weight -/
def hasData (lf : List (WPx Rat)) (alive : Nat → Bool) (k : Nat) : Bool :=
  lf.any fun p => decide (p.w ≠ 0) && (p.i == k || p.j == k) && alive p.i && alive p.j

/-- the domains of the run: `[0, n)` or the chromosomes -/
def domains (n : Nat) (offs : List Nat) (o : Opts) : List (Nat × Nat) :=
  if o.mode = .cis then offs.zip offs.tail else [(0, n)]

inductive Expect
  | nan      -- excluded by a documented filter, or its domain has no data left
  | pos      -- retained: finite positive weight
  | free     -- not excluded, but no data left for this bin: outside the property as read (DESIGN C10)
deriving DecidableEq, Repr

/-- L0 mask rule (documented filters on the row sums of the filtered symmetric matrix) -/
def expectations (n : Nat) (offs : List Nat) (ps : Pixels) (o : Opts)
    (mf : List (WPx Rat) → Nat → Rat) : List Expect :=
  let l := pixelsOf ps
  let masks := computeMasks mf n offs l o
  let lf := sweepFilter o offs l
  let alive := fun k => !masks.excluded k
  (domains n offs o).flatMap fun lh =>
    let ld := if o.mode = .cis then lf.filter (fun p => decide (lh.1 ≤ p.i ∧ p.i < lh.2 ∧ lh.1 ≤ p.j ∧ p.j < lh.2)) else lf
    let ks := (List.range (lh.2 - lh.1)).map (· + lh.1)
    let anyData := ks.any (hasData ld alive)
    ks.map fun k =>
      if masks.excluded k then .nan
      else if !anyData then .nan
      else if hasData ld alive k then .pos
      else .free

/-- smallest `d = k/10^20 ≥ √q` (`q ≥ 0`): `(⌊√⌊q·10^40⌋⌋ + 1)/10^20` -/
def sqrtUp (q : Rat) : Rat :=
  let k := (q * ((10 : Rat) ^ 40)).floor.toNat
  ((Nat.sqrt k + 1 : Nat) : Rat) / ((10 : Rat) ^ 20)

/-- the proved interval `[1/(1+δ), 1/(1−δ)]` for `δ ≥ √(tol·N)/scale` (theorem
`converged_rowsums_bound`), or `none` when `δ ≥ 1` (no bound follows) or `scale ≤ 0` -/
def provedInterval (tol : Rat) (N : Nat) (scale : Rat) : Option (Rat × Rat × Rat) :=
  if scale ≤ 0 ∨ tol < 0 then none
  else
    let d := sqrtUp (tol * (N : Rat) / (scale * scale))
    if tol * (N : Rat) ≤ d * d * (scale * scale) ∧ d < 1 then some (d, 1 / (1 + d), 1 / (1 - d)) else none

/-- which functional of the weights is tested for flatness -/
inductive Variant
  | spec     -- row sums of the filtered symmetric matrix (the property)
  | diag2    -- main diagonal counted twice (`_marginalize`; finding D17)
  | cw       -- chromosome-weighted marginal of the inter-chromosomal matrix (finding D18)
deriving DecidableEq, Repr

/-- row sums (resp. the variant functional) of the filtered matrix under the weights `w`
(`none` = NaN bins are removed) for every bin of the domain `[lo, hi)` -/
def weightedSums (n : Nat) (offs : List Nat) (lf : List (WPx Rat)) (w : List (Option Rat))
    (v : Variant) (k : Nat) : Rat :=
  let wv : Nat → Rat := match v with
    | .cw => fun i => ((w.getD i none).getD 0) * (cweights n offs).getD i 0
    | _ => fun i => (w.getD i none).getD 0
  let lw := timesOuter wv lf
  match v with
  | .diag2 => marginalizeAt lw k
  -- `rowsumAt n lw k`, evaluated on the pixels that touch `k` only (theorem `rowsumTouch_eq`)
  | _ => rowsumAt n (lw.filter fun p => p.i == k || p.j == k) k

structure DomainVerdict where
  lo : Nat
  hi : Nat
  retained : List Nat
  sums : List Rat                      -- divided by `scale` when `rescale_marginals` is off
  interval : Option (Rat × Rat × Rat)  -- δ, lower, upper
  inside : Bool                        -- every retained bin's sum inside the interval widened by `slack`
deriving Repr

/-- flatness of one converged domain of an implementation run -/
def verifyDomain (n : Nat) (offs : List Nat) (ps : Pixels) (o : Opts) (w : List (Option Rat))
    (rescaled : Bool) (scale : Rat) (slack : Rat) (v : Variant) (lh : Nat × Nat) : DomainVerdict :=
  let lf := sweepFilter o offs (pixelsOf ps)
  let ld := if o.mode = .cis then lf.filter (fun p => decide (lh.1 ≤ p.i ∧ p.i < lh.2 ∧ lh.1 ≤ p.j ∧ p.j < lh.2)) else lf
  let alive := fun k => (w.getD k none).isSome
  let ks := ((List.range (lh.2 - lh.1)).map (· + lh.1)).filter fun k => alive k && hasData ld alive k
  let sums := ks.map fun k =>
    let s := weightedSums n offs ld w v k
    if rescaled then s else s / scale
  let iv := provedInterval o.tol ks.length scale
  let inside := match iv with
    | none => true
    | some (_, lo, hi) => sums.all fun s => decide (lo * (1 - slack) ≤ s ∧ s ≤ hi * (1 + slack))
  ⟨lh.1, lh.2, ks, sums, iv, inside⟩

end Cooler.IC
