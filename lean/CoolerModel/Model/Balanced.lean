import CoolerModel.Basic
/-!
Model of balanced reads (`cooler.api.Cooler.matrix`, `cooler.api.matrix` — the three output
branches — and the `--balanced` annotator of `cooler dump`).  Property C12.

The arithmetic carrier `α` (float64 in the code) is a parameter with three **uninterpreted**
operations, no laws assumed:

* `mul a b`  — the product the code writes as `a * b` (operand order kept as in the source),
* `inv a`    — `1 / a`,
* `ofRaw x`  — the conversion numpy/pandas apply to a stored value when it meets a float64 operand.

The raw result of the 2-D range query (`engine.to_array()`, `.to_sparse_matrix()`, `.to_frame()`)
is an *input* of every function here: that the range query returns the right entries is property
C03, not C12.

Association of the products, exactly as in the source (IEEE multiplication commutes but does not
associate):

* dense   `arr * np.outer(bias1, bias2)`                       = `raw * (b1 * b2)`
* sparse  `bias1[mat.row] * bias2[mat.col] * mat.data`         = `(b1 * b2) * raw`
* pixels  `df2[name+"1"] * df2[name+"2"] * df2[field]`         = `(w1 * w2) * raw`
* dump    `df["weight1"] * df["weight2"] * chunk["count"]`     = `(w1 * w2) * raw`
-/
namespace Cooler.Bal
open Cooler

/-- the float operations the balanced read uses; `ρ` is the stored value type of the field -/
structure Ops (ρ α : Type) where
  mul : α → α → α
  inv : α → α
  ofRaw : ρ → α

/-- extra bin-table columns by name (`h5["bins"]`), each a vector over all bins -/
abbrev Cols (α : Type) := List (String × List α)

/-- the `balance` argument of `Cooler.matrix`: `False`, `True`, or a column name (non-empty) -/
inductive Balance
  | off
  | on
  | named (s : String)
deriving DecidableEq, Repr

/-- `_4DN_DIVISIVE_WEIGHTS` -/
def divisiveNames : List String := ["KR", "VC", "VC_SQRT"]

/-- `matrix()`: `name = balance if isinstance(balance, str) else "weight" if balance` -/
def Balance.column : Balance → Option String
  | .off => none
  | .on => some "weight"
  | .named s => some s

/-- `Cooler.matrix`: `if balance in _4DN_DIVISIVE_WEIGHTS and divisive_weights is None:
    divisive_weights = True`; `matrix()` then tests the truthiness of the (possibly still `None`) flag -/
def resolveDivisive (bal : Balance) (dw : Option Bool) : Bool :=
  match dw with
  | some d => d
  | none =>
    match bal with
    | .named s => divisiveNames.contains s
    | _ => false

/-- `v[a:b]` for `0 ≤ a`, `0 ≤ b` (Python slice of a 1-D vector; clips at the end) -/
def slice {α : Type} (w : List α) (a b : Nat) : List α := (w.drop a).take (b - a)

/-- `bias2 = bias1 if (i0, i1) == (j0, j1) else weights[j0:j1]` -/
def bias2Of {α : Type} (w : List α) (i0 i1 j0 j1 : Nat) (bias1 : List α) : List α :=
  if (i0, i1) = (j0, j1) then bias1 else slice w j0 j1

/-- the two bias vectors of the dense and sparse branches:
    `bias1 = weights[i0:i1]`, `bias2` as above, `1 / bias` each when divisive -/
def biases {ρ α : Type} (o : Ops ρ α) (w : List α) (div : Bool) (i0 i1 j0 j1 : Nat) : List α × List α :=
  let bias1 := slice w i0 i1
  let bias2 := bias2Of w i0 i1 j0 j1 bias1
  if div then (bias1.map o.inv, bias2.map o.inv) else (bias1, bias2)

/-- `List.mapM` in `Except`, spelled out -/
def mapE {β γ : Type} (f : β → Except Err γ) : List β → Except Err (List γ)
  | [] => .ok []
  | x :: xs =>
    match f x with
    | .error e => .error e
    | .ok y =>
      match mapE f xs with
      | .error e => .error e
      | .ok ys => .ok (y :: ys)

/-! ### dense branch -/

/-- `np.outer(bias1, bias2)` -/
def outer {ρ α : Type} (o : Ops ρ α) (b1 b2 : List α) : List (List α) :=
  b1.map fun a => b2.map fun b => o.mul a b

/-- `arr * np.outer(bias1, bias2)` (equal shapes; `zipWith` is total where numpy would refuse to broadcast) -/
def denseApply {ρ α : Type} (o : Ops ρ α) (raw : List (List ρ)) (b1 b2 : List α) : List (List α) :=
  List.zipWith (fun row orow => List.zipWith (fun x y => o.mul (o.ofRaw x) y) row orow) raw (outer o b1 b2)

/-- dense branch of `matrix()` with balancing enabled; `raw` = `engine.to_array()` as rows -/
def balancedDense {ρ α : Type} (o : Ops ρ α) (cols : Cols α) (name : String) (div : Bool)
    (i0 i1 j0 j1 : Nat) (raw : List (List ρ)) : Except Err (List (List α)) :=
  match cols.lookup name with
  | none => .error .value
  | some w =>
    let b := biases o w div i0 i1 j0 j1
    .ok (denseApply o raw b.1 b.2)

/-! ### sparse branch -/

/-- `bias1[mat.row] * bias2[mat.col] * mat.data` for one stored entry (window-relative `r`, `c`) -/
def sparseEntry {ρ α : Type} (o : Ops ρ α) (b1 b2 : List α) (e : Nat × Nat × ρ) : Except Err (Nat × Nat × α) :=
  match b1[e.1]?, b2[e.2.1]? with
  | some a, some b => .ok (e.1, e.2.1, o.mul (o.mul a b) (o.ofRaw e.2.2))
  | _, _ => .error .index

/-- sparse branch of `matrix()`; `raw` = the `(row, col, data)` triples of `engine.to_sparse_matrix()` -/
def balancedSparse {ρ α : Type} (o : Ops ρ α) (cols : Cols α) (name : String) (div : Bool)
    (i0 i1 j0 j1 : Nat) (raw : List (Nat × Nat × ρ)) : Except Err (List (Nat × Nat × α)) :=
  match cols.lookup name with
  | none => .error .value
  | some w =>
    let b := biases o w div i0 i1 j0 j1
    mapE (sparseEntry o b.1 b.2) raw

/-! ### pixel branch -/

/-- `annotate(df, weights)` then `1 / ·` when divisive then `df2[name1] * df2[name2] * df2[field]`
    for one row (absolute bin ids) -/
def pixelEntry {ρ α : Type} (o : Ops ρ α) (w : List α) (div : Bool) (e : Nat × Nat × ρ) : Except Err α :=
  match w[e.1]?, w[e.2.1]? with
  | some a, some b =>
    let a' := if div then o.inv a else a
    let b' := if div then o.inv b else b
    .ok (o.mul (o.mul a' b') (o.ofRaw e.2.2))
  | _, _ => .error .index

/-- pixel branch of `matrix()`: the `balanced` column, row by row; `raw` = the rows
    `(bin1_id, bin2_id, field)` of `engine.to_frame()`.  The window is not consulted again. -/
def balancedPixels {ρ α : Type} (o : Ops ρ α) (cols : Cols α) (name : String) (div : Bool)
    (raw : List (Nat × Nat × ρ)) : Except Err (List α) :=
  match cols.lookup name with
  | none => .error .value
  | some w => mapE (pixelEntry o w div) raw

/-! ### `Cooler.matrix(...)[i0:i1, j0:j1]` -/

/-- result of a read: the raw query result untouched (`balance=False`) or the balanced one -/
inductive Read (R B : Type)
  | raw (x : R)
  | balanced (x : B)

def coolerDense {ρ α : Type} (o : Ops ρ α) (cols : Cols α) (bal : Balance) (dw : Option Bool)
    (i0 i1 j0 j1 : Nat) (raw : List (List ρ)) : Except Err (Read (List (List ρ)) (List (List α))) :=
  match bal.column with
  | none => .ok (.raw raw)
  | some name => .balanced <$> balancedDense o cols name (resolveDivisive bal dw) i0 i1 j0 j1 raw

def coolerSparse {ρ α : Type} (o : Ops ρ α) (cols : Cols α) (bal : Balance) (dw : Option Bool)
    (i0 i1 j0 j1 : Nat) (raw : List (Nat × Nat × ρ)) :
    Except Err (Read (List (Nat × Nat × ρ)) (List (Nat × Nat × α))) :=
  match bal.column with
  | none => .ok (.raw raw)
  | some name => .balanced <$> balancedSparse o cols name (resolveDivisive bal dw) i0 i1 j0 j1 raw

def coolerPixels {ρ α : Type} (o : Ops ρ α) (cols : Cols α) (bal : Balance) (dw : Option Bool)
    (raw : List (Nat × Nat × ρ)) : Except Err (Read (List (Nat × Nat × ρ)) (List α)) :=
  match bal.column with
  | none => .ok (.raw raw)
  | some name => .balanced <$> balancedPixels o cols name (resolveDivisive bal dw) raw

/-! ### `cooler dump --balanced` -/

/-- `chunk["balanced"] = df["weight1"] * df["weight2"] * chunk["count"]`: always the column named
    `weight`, never divisive.  A missing column is `sys.exit(1)`. -/
def dumpBalanced {ρ α : Type} (o : Ops ρ α) (cols : Cols α) (raw : List (Nat × Nat × ρ)) : Except Err (List α) :=
  match cols.lookup "weight" with
  | none => .error .other
  | some w =>
    mapE (fun e =>
      match w[e.1]?, w[e.2.1]? with
      | some a, some b => .ok (o.mul (o.mul a b) (o.ofRaw e.2.2))
      | _, _ => .error .index) raw

/-! ### L0: what the property promises, cell by cell -/

/-- the weight applied to bin `k`: `w[k]`, or `1 / w[k]` for divisive weights -/
def wtAt {ρ α : Type} (o : Ops ρ α) (w : List α) (div : Bool) (k : Nat) : Option α :=
  (w[k]?).map fun x => if div then o.inv x else x

/-- dense form: raw value `x` at absolute bins `(a, b)` ↦ `x * (wt a * wt b)` -/
def denseCell {ρ α : Type} (o : Ops ρ α) (w : List α) (div : Bool) (a b : Nat) (x : ρ) : Option α :=
  match wtAt o w div a, wtAt o w div b with
  | some wa, some wb => some (o.mul (o.ofRaw x) (o.mul wa wb))
  | _, _ => none

/-- sparse / pixel / dump form: `(wt a * wt b) * x` -/
def entryCell {ρ α : Type} (o : Ops ρ α) (w : List α) (div : Bool) (a b : Nat) (x : ρ) : Option α :=
  match wtAt o w div a, wtAt o w div b with
  | some wa, some wb => some (o.mul (o.mul wa wb) (o.ofRaw x))
  | _, _ => none

/-- L0 dense: cell `(r, c)` of the window `[i0,i1) × [j0,j1)` is `denseCell` at bins `(i0+r, j0+c)` -/
def denseSpec {ρ α : Type} (o : Ops ρ α) (w : List α) (div : Bool) (i0 j0 : Nat) (raw : List (List ρ)) :
    List (List (Option α)) :=
  raw.mapIdx fun r row => row.mapIdx fun c x => denseCell o w div (i0 + r) (j0 + c) x

/-- L0 sparse: every entry inside the window gets `entryCell` at its absolute bins -/
def sparseSpec {ρ α : Type} (o : Ops ρ α) (w : List α) (div : Bool) (i0 i1 j0 j1 : Nat)
    (raw : List (Nat × Nat × ρ)) : Except Err (List (Nat × Nat × α)) :=
  mapE (fun e =>
    if e.1 < i1 - i0 ∧ e.2.1 < j1 - j0 then
      match entryCell o w div (i0 + e.1) (j0 + e.2.1) e.2.2 with
      | some v => .ok (e.1, e.2.1, v)
      | none => .error .index
    else .error .index) raw

/-- L0 pixels / dump: every row gets `entryCell` at its two bin ids -/
def pixelsSpec {ρ α : Type} (o : Ops ρ α) (w : List α) (div : Bool) (raw : List (Nat × Nat × ρ)) :
    Except Err (List α) :=
  mapE (fun e =>
    match entryCell o w div e.1 e.2.1 e.2.2 with
    | some v => .ok v
    | none => .error .index) raw

/-! ### the property as a decidable contract on an observed result

The property fixes the three *factors* of every value (the raw value, the weight of the row bin, the
weight of the column bin), not the order or bracketing in which an implementation multiplies them.
`products3` lists every product using each factor exactly once; the contract accepts a value iff it
equals one of them under the supplied equality (`eqv` = same bit pattern, any NaN = any NaN, in the
driver).  The bracketing the code uses today is the one `balancedDense` … compute (theorems
`dense_spec`, `sparse_spec`, `pixels_spec`); theorems `dense_contract` … show it meets the contract. -/

/-- 3! orders × 2 bracketings -/
def products3 {ρ α : Type} (o : Ops ρ α) (x a b : α) : List α :=
  [o.mul (o.mul a b) x, o.mul a (o.mul b x), o.mul (o.mul b a) x, o.mul b (o.mul a x),
   o.mul (o.mul a x) b, o.mul a (o.mul x b), o.mul (o.mul x a) b, o.mul x (o.mul a b),
   o.mul (o.mul b x) a, o.mul b (o.mul x a), o.mul (o.mul x b) a, o.mul x (o.mul b a)]

/-- `v` is the raw value `x` times the weights of bins `a` and `b` -/
def cellOk {ρ α : Type} (o : Ops ρ α) (eqv : α → α → Bool) (w : List α) (div : Bool) (a b : Nat) (x : ρ) (v : α) : Bool :=
  match wtAt o w div a, wtAt o w div b with
  | some wa, some wb => (products3 o (o.ofRaw x) wa wb).any fun p => eqv v p
  | _, _ => false

/-- dense form: same shape as the raw array, every cell `(r, c)` balanced with bins `(i0+r, j0+c)` -/
def denseOk {ρ α : Type} (o : Ops ρ α) (eqv : α → α → Bool) (w : List α) (div : Bool) (i0 j0 : Nat)
    (raw : List (List ρ)) (out : List (List α)) : Bool :=
  out.length == raw.length &&
  (List.range raw.length).all fun r =>
    match raw[r]?, out[r]? with
    | some row, some orow =>
      orow.length == row.length &&
      (List.range row.length).all fun c =>
        match row[c]?, orow[c]? with
        | some x, some v => cellOk o eqv w div (i0 + r) (j0 + c) x v
        | _, _ => false
    | _, _ => false

/-- sparse form: entry by entry (both lists in the same order), same coordinates, balanced value -/
def sparseOk {ρ α : Type} (o : Ops ρ α) (eqv : α → α → Bool) (w : List α) (div : Bool) (i0 j0 : Nat)
    (raw : List (Nat × Nat × ρ)) (out : List (Nat × Nat × α)) : Bool :=
  out.length == raw.length &&
  (raw.zip out).all fun p =>
    p.2.1 == p.1.1 && p.2.2.1 == p.1.2.1 &&
      cellOk o eqv w div (i0 + p.1.1) (j0 + p.1.2.1) p.1.2.2 p.2.2.2

/-- pixel form / dump: row by row, the `balanced` value of the row `(bin1, bin2, x)` -/
def pixelsOk {ρ α : Type} (o : Ops ρ α) (eqv : α → α → Bool) (w : List α) (div : Bool)
    (raw : List (Nat × Nat × ρ)) (out : List α) : Bool :=
  out.length == raw.length &&
  (raw.zip out).all fun p => cellOk o eqv w div p.1.1 p.1.2.1 p.1.2.2 p.2

end Cooler.Bal
