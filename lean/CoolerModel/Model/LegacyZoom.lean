import CoolerModel.Model.Zoomify
/-!
Model of `_reduce.legacy_zoomify` and `get_quadtree_depth` (the `cooler zoomify --legacy` producer: levels
`::n, ::n-1, …, ::0`, level `n` a copy of the base, level `i` = `coarsen_cooler(level i+1, factor 2)`), at the
level of stored tables.  Used by the C02 histories (every level is a valid collection) and the C09 `legacy` check
(every level equals the direct coarsening of the base by `2^(n-i)`).

* `clog2 n`          — `int(math.ceil(np.log2(n)))` idealised over `Nat`: the least `d` with `n ≤ 2^d` (`n ≥ 1`)
* `quadtreeDepth`    — `get_quadtree_depth(chromsizes, base_binsize, bins_per_tile)`
* `legacyDown`       — the level list, finest first (`legacyDown cs n base = [level n, level n-1, …, level 0]`)
* `legacyBinsizes`   — the `zoom_levels` dict written into the root attributes (`str(level) ↦ binsize`)
-/
namespace Cooler.LegacyZoom
open Cooler Cooler.Coarsen Cooler.Zoomify

/-- least `d ≤ fuel` with `n ≤ 2^d`, searching upwards from `d` -/
def clog2From (n : Nat) : Nat → Nat → Nat
  | 0, d => d
  | fuel + 1, d => if n ≤ 2 ^ d then d else clog2From n fuel (d + 1)

/-- `ceil(log2 n)` for `n ≥ 1` (and `0` for `n = 0`, where the code raises on `log2(0) = -inf`) -/
def clog2 (n : Nat) : Nat := clog2From n n 0

/-- `get_quadtree_depth`: `n_tiles = ceil(total_bp / (bins_per_tile * base_binsize))`, depth `ceil(log2 n_tiles)` -/
def quadtreeDepth (total binsize tile : Nat) : Nat := clog2 (ceilDiv total (tile * binsize))

/-- levels `n, n-1, …, 0` (finest first): the base, then repeated `coarsen_cooler(…, factor = 2, chunksize)` -/
def legacyDown (cs : Nat) : Nat → Level → List Level
  | 0, l => [l]
  | n + 1, l => l :: legacyDown cs n (coarsenLevel cs 2 l)

/-- the `zoom_levels` mapping, finest first: `(n, b), (n-1, 2b), …, (0, 2^n b)` -/
def legacyBinsizes : Nat → Nat → List (Nat × Nat)
  | 0, b => [(0, b)]
  | n + 1, b => (n + 1, b) :: legacyBinsizes n (2 * b)

end Cooler.LegacyZoom
