import CoolerModel.Model.Coarsen
import CoolerModel.Model.Strings
/-!
Model of `_reduce.get_multiplier_sequence`, `zoomify_cooler` (at the level of stored tables),
`preferred_sequence` and the resolution-spec expansion of `cooler zoomify -r` (property C09).

* `getMultiplierSequence` — exactly the code: sorted union, per target a descending scan for the nearest
  smaller member dividing it, then the derivability check (→ `ValueError`)
* `validMultSeq`          — contract of that unit (FREE: the predecessor choice is an implementation
  choice): every non-base level has an earlier predecessor with `resn[pred] · mult = resn`
* `zoomLevels`/`zoomify`  — copy the base levels, then in ascending order coarsen every non-base level
  from the level of its predecessor with `Coarsen.coarsen` (base levels are never recomputed, D19)
* `MFile`, `zoomifyOps`, `zoomifyFile` — the output FILE across runs on one path: truncate, then one put per level
* `preferredSequence`, `expandToken`, `expandResolutionSpec` — the CLI
-/
namespace Cooler.Zoomify
open Cooler Cooler.Coarsen

/-! ### get_multiplier_sequence -/

/-- `resn, pred, mult`; `-1` is `none` -/
structure MultSeq where
  resn : List Nat
  pred : List (Option Nat)
  mult : List (Option Nat)
deriving DecidableEq, Repr

/-- the `while p >= 0` loop started at `p = i - 1`: first (largest) `p < i` with `target % resn[p] == 0` -/
def findPred (resn : List Nat) (target : Nat) : Nat → Option Nat
  | 0 => none
  | p + 1 => if target % resn.getD p 0 = 0 then some p else findPred resn target p

/-- `bases = {min(resolutions)}` when not given (`min([])` raises `ValueError`), else `set(bases)` -/
def baseSet (resolutions : List Nat) (bases : Option (List Nat)) : Except Err (List Nat) :=
  match bases with
  | some b => .ok b
  | none =>
    match resolutions with
    | [] => .error .value
    | r :: rest => .ok [rest.foldl min r]

/-- `get_multiplier_sequence(resolutions, bases)`.  The iterations of the (reversed) loop over targets are
independent of one another, so the model maps over the indices. -/
def getMultiplierSequence (resolutions : List Nat) (bases : Option (List Nat)) : Except Err MultSeq :=
  match baseSet resolutions bases with
  | .error e => .error e
  | .ok bs =>
    let resn := uniq (bs ++ resolutions)
    let pred := (List.range resn.length).map fun i => findPred resn (resn.getD i 0) i
    let mult := (List.range resn.length).map fun i =>
      (findPred resn (resn.getD i 0) i).map fun p => resn.getD i 0 / resn.getD p 0
    if (List.range resn.length).any
        (fun i => (findPred resn (resn.getD i 0) i).isNone && !bs.contains (resn.getD i 0))
    then .error .value
    else .ok ⟨resn, pred, mult⟩

/-- what level `i` needs: it is a base, or it has an EARLIER predecessor `p` and a multiplier `m ≥ 1` with
`resn[p] · m = resn[i]` -/
def levelOk (bases : List Nat) (ms : MultSeq) (i : Nat) : Bool :=
  bases.contains (ms.resn.getD i 0) ||
    match ms.pred.getD i none, ms.mult.getD i none with
    | some p, some m => decide (p < i) && decide (ms.resn.getD p 0 * m = ms.resn.getD i 0) && decide (1 ≤ m)
    | _, _ => false

/-- contract of `get_multiplier_sequence`'s output (a free unit) -/
def validMultSeq (bases : List Nat) (ms : MultSeq) : Bool :=
  decide (ms.pred.length = ms.resn.length) && decide (ms.mult.length = ms.resn.length) &&
    (List.range ms.resn.length).all (levelOk bases ms)

/-- where the predecessor chain of level `i` ends and the product of the multipliers along it:
`(index of the base level, total multiplier)`; fuel `> i` suffices since predecessors are earlier -/
def chainOf (bases : List Nat) (ms : MultSeq) : Nat → Nat → Option (Nat × Nat)
  | 0, _ => none
  | f + 1, i =>
    if bases.contains (ms.resn.getD i 0) then some (i, 1)
    else match ms.pred.getD i none, ms.mult.getD i none with
      | some p, some m => (chainOf bases ms f p).map fun bm => (bm.1, bm.2 * m)
      | _, _ => none

/-! ### zoomify_cooler on stored tables -/

/-- one level: its bin table and its pixel table -/
abbrev Level := BinTable × Pixels

/-- `coarsen_cooler(prev, out, mult, chunksize)` — the L1 pipeline of `Model/Coarsen.lean`; the
chromosome lengths are the ends of the last bins (as in every stored cooler) -/
def coarsenLevel (cs m : Nat) (l : Level) : Level :=
  coarsen m cs ((groups l.1).map lastStop) l.1 l.2

/-- L0: coarsening a level by `m` -/
def specLevel (m : Nat) (l : Level) : Level := (coarsenBinsSpec m l.1, coarsenSpec m l.1 l.2)

/-- level `i`, given the levels `0 … i-1` already in the output file: a base level is a copy of its source;
otherwise `coarsen_cooler` from `resolutions/<resn[pred[i]]>` with factor `mult[i]`.
`baseOf r` is `parsed_uris[r]` (`none`: `r` is not a base resolution). -/
def levelAt (cs : Nat) (ms : MultSeq) (baseOf : Nat → Option Level) (acc : List (Option Level)) (i : Nat) :
    Option Level :=
  match baseOf (ms.resn.getD i 0) with
  | some l => some l
  | none =>
    match ms.pred.getD i none, ms.mult.getD i none with
    | some p, some m => (acc.getD p none).map (coarsenLevel cs m)
    | _, _ => none

/-- levels `0 … n-1` -/
def zoomLevels (cs : Nat) (ms : MultSeq) (baseOf : Nat → Option Level) : Nat → List (Option Level)
  | 0 => []
  | n + 1 =>
    let acc := zoomLevels cs ms baseOf n
    acc ++ [levelAt cs ms baseOf acc n]

def zoomify (cs : Nat) (ms : MultSeq) (baseOf : Nat → Option Level) : List (Option Level) :=
  zoomLevels cs ms baseOf ms.resn.length

/-- `parsed_uris[r]` for a list of `(base_binsize, level)` in argument order: a later base of the same
resolution replaces an earlier one (dict assignment) -/
def lookupBase (bases : List (Nat × Level)) (r : Nat) : Option Level :=
  (bases.reverse.find? (fun b => b.1 == r)).map (·.2)

/-- `list_coolers(outfile)`: one collection per produced level, `/resolutions/<r>`, in natural order -/
def listing (ms : MultSeq) (levels : List (Option Level)) : List String :=
  (ms.resn.zip levels).filterMap fun rl => rl.2.map fun _ => "/resolutions/" ++ toString rl.1

/-! ### the output FILE across calls (the same path written again)

`zoomify_cooler` opens `outfile` with mode `"w"` for the first base (the file is TRUNCATED: whatever an
earlier run — another ladder, another base, a legacy quad-tree, a single-resolution cooler — left at
that path is gone), `"r+"` for further bases, and `create(..., mode="r+")` for every derived level
(a group of the same name is replaced).  The file is modelled as far as `list_coolers` sees it: the
cooler collections by group key. -/

/-- where a collection sits in a file: `/resolutions/<r>` or any other group path -/
inductive GKey
  | resolution (r : Nat)
  | other (path : String)
deriving DecidableEq, Repr

/-- a file: its collections in order of creation (the order is not observable, `list_coolers` sorts) -/
abbrev MFile := List (GKey × Level)

/-- writing a collection: a group of that key already in the file is replaced -/
def putGroup (f : MFile) (k : GKey) (l : Level) : MFile := f.filter (fun e => !(e.1 == k)) ++ [(k, l)]

inductive FileOp
  | truncate
  | put (k : GKey) (l : Level)

def applyOp (f : MFile) : FileOp → MFile
  | .truncate => []
  | .put k l => putGroup f k l

/-- the collections one run writes: level `i` under `/resolutions/<resn[i]>` -/
def zoomEntries (cs : Nat) (ms : MultSeq) (baseOf : Nat → Option Level) : MFile :=
  (ms.resn.zip (zoomify cs ms baseOf)).filterMap fun rl => rl.2.map fun l => (GKey.resolution rl.1, l)

/-- one run as operations on `outfile`: truncate, then one `put` per level.  (The code puts the base
levels first and the derived ones afterwards; as a map from keys to levels the result is the same.) -/
def zoomifyOps (cs : Nat) (ms : MultSeq) (baseOf : Nat → Option Level) : List FileOp :=
  .truncate :: (zoomEntries cs ms baseOf).map fun e => FileOp.put e.1 e.2

/-- the file after one run, given what was at that path before -/
def zoomifyFile (prior : MFile) (cs : Nat) (ms : MultSeq) (baseOf : Nat → Option Level) : MFile :=
  (zoomifyOps cs ms baseOf).foldl applyOp prior

def keyPath : GKey → String
  | .resolution r => "/resolutions/" ++ toString r
  | .other p => p

/-! ### preferred_sequence and the CLI resolution spec -/

inductive Style | binary | nice
deriving DecidableEq, Repr

/-- `geomprog(start, 2)` cut at the first term beyond `stop`: `s, 2s, 4s, … ≤ stop` -/
def geomUpTo : Nat → Nat → Nat → List Nat
  | 0, _, _ => []
  | fuel + 1, s, stop => if s > stop then [] else s :: geomUpTo fuel (2 * s) stop

/-- the terms of `niceprog(s)` after the first — `2s, 5s, 10s, 20s, 50s, 100s, …` — cut at the first one
beyond `stop` -/
def niceUpTo : Nat → Nat → Nat → List Nat
  | 0, _, _ => []
  | fuel + 1, s, stop =>
    if s * 2 > stop then []
    else s * 2 ::
      (if s * 5 > stop then []
       else s * 5 :: (if s * 10 > stop then [] else s * 10 :: niceUpTo fuel (s * 10) stop))

/-- `preferred_sequence(start, stop, style)`: empty if `start > stop`; else the first term, then terms
while they do not exceed `stop` (the loop breaks at the first one that does).  For `start ≥ 1` the
progressions increase strictly, so fuel `stop + 1` is never exhausted (theorems `mem_binary`, `mem_nice`). -/
def preferredSequence (start stop : Nat) (style : Style) : List Nat :=
  if start > stop then []
  else
    match style with
    | .binary => geomUpTo (stop + 1) start stop
    | .nice => start :: niceUpTo (stop + 1) start stop

open Cooler.Strings in
/-- `str.lower()`, ASCII -/
def lower (c : Char) : Char :=
  if 65 ≤ c.toNat ∧ c.toNat ≤ 90 then Char.ofNat (c.toNat + 32) else c

open Cooler.Strings in
/-- `int(s)` on a digit string (the only numerals the correspondence feeds) -/
def pyIntStr (s : Str) : Except Err Nat :=
  let t := strip s
  if t = [] then .error .value else pyInt t

open Cooler.Strings in
/-- one comma-separated item, already stripped and lower-cased -/
def expandToken (curres maxres : Nat) (res : Str) : Except Err (List Nat) :=
  if res = ['n'] then .ok (preferredSequence curres maxres .nice)
  else if res = ['b'] then .ok (preferredSequence curres maxres .binary)
  else if res = ['4', 'd', 'n'] then .ok ([1000, 2000] ++ preferredSequence 5000 maxres .nice)
  else if res.getLast? = some 'n' then
    -- int(res.split("n")[0])
    match pyIntStr ((splitChar 'n' res).headD []) with
    | .ok k => .ok (preferredSequence k maxres .nice)
    | .error e => .error e
  else if res.getLast? = some 'b' then
    match pyIntStr ((splitChar 'b' res).headD []) with
    | .ok k => .ok (preferredSequence k maxres .binary)
    | .error e => .error e
  else
    match pyIntStr res with
    | .ok k => .ok [k]
    | .error e => .error e

open Cooler.Strings in
/-- the `-r` option: `for res in [s.strip().lower() for s in rstring.split(",")]: resolutions.extend(…)` -/
def expandResolutionSpec (curres maxres : Nat) (spec : Str) : Except Err (List Nat) :=
  ((splitChar ',' spec).map fun s => (strip s).map lower).foldr
    (fun tok acc =>
      match expandToken curres maxres tok, acc with
      | .ok r, .ok rest => .ok (r ++ rest)
      | .error e, _ => .error e
      | _, .error e => .error e)
    (.ok [])

/-- the coarsest resolution the CLI considers: one 256 × 256 tile for the whole genome -/
def maxRes (genomeLength : Nat) : Nat := ceilDiv genomeLength 256

end Cooler.Zoomify
