import CoolerModel.Model.Coarsen
import CoolerModel.Model.GroupAgg
/-!
Coarsening with a REQUESTED aggregation on the value column (`coarsen_cooler(..., agg={col: func})`,
property C08 "the sum (or requested aggregate)").

`_aggregate` takes the chunk `table[lo:hi]` — the stored pixels in storage order —, rewrites both ids and
calls `chunk.groupby(["bin1_id","bin2_id"], sort=True).aggregate(func)`: every group holds the values of
its old pixels in the chunk's row order, i.e. in storage order of the old pixels.  `groupAgg agg` applied
to the re-keyed chunk is exactly that, for an ARBITRARY `agg : List Int → Int`.
-/
namespace Cooler.Coarsen
open Cooler

/-- `_aggregate((lo, hi))` with aggregation `agg` on the value column -/
def aggregateSpanAgg (agg : List Int → Int) (rb : Nat → Nat) (px : Pixels) (s : Nat × Nat) : Pixels :=
  groupAgg agg ((slicePx px s.1 s.2).map (rekey rb))

/-- the chunk stream of `CoolerCoarsener.__iter__` with aggregation `agg` -/
def coarsenStreamAgg (agg : List Int → Int) (rb : Nat → Nat) (px : Pixels) (es : List Nat) : List Pixels :=
  (spansOf es).map (aggregateSpanAgg agg rb px)

/-- L0: every new pixel carries `agg` of the values of exactly the old pixels that `cmap` sends to it, in
storage order of the old pixels -/
def coarsenSpecAggG (agg : List Int → Int) (k : Nat) (gs : List (List Bin)) (px : Pixels) : Pixels :=
  groupAgg agg (px.map (rekey (cmapG k gs)))

def coarsenSpecAgg (agg : List Int → Int) (k : Nat) (bins : BinTable) (px : Pixels) : Pixels :=
  coarsenSpecAggG agg k (groups bins) px

/-- `coarsen_cooler(..., agg=…)` on the tables: the concatenated pixel stream with the modelled pruning -/
def coarsenAgg (agg : List Int → Int) (k chunksize : Nat) (lens : List Nat) (bins : BinTable) (px : Pixels) :
    Pixels :=
  let seg := mkSeg lens (coarsenBins k lens bins)
  let edges := coarsenEdges k (chromOffsets bins lens.length) (csrIndex px bins.length)
  (coarsenStreamAgg agg (rebinId seg bins) px (greedyPrune edges chunksize)).flatten

end Cooler.Coarsen
