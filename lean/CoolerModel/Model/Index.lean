import CoolerModel.Model.CSR
import CoolerModel.Model.Bins
/-!
Model of the write path's index builder and of the schema check:
`util.rlencode` (chunked run-length encoder), `create.index_pixels` / `index_bins`,
`create.write_pixels` (append at running offset), `create.create` (what ends up in the file),
and `ValidCooler`, the schema predicate of property C02 (also the raw-file monitor).
-/
namespace Cooler

/-! ### run-length encoding -/

/-- run starts `(position, value)`: position `k` starts a run iff its value differs from the previous
one; `prev = none` is the `NaN` sentinel (differs from everything).  On one block this is exactly
`locs = where(x[1:] != x[:-1]) + 1`, with `0` prepended iff `x[0] != last_val`. -/
def runStartsFrom : Option Nat → Nat → List Nat → List (Nat × Nat)
  | _, _, [] => []
  | prev, pos, x :: rest =>
    (if prev = some x then [] else [(pos, x)]) ++ runStartsFrom (some x) (pos + 1) rest

/-- `rlencode(array)` with the default chunk (whole array): `(starts, values)` zipped -/
def rlencode (xs : List Nat) : List (Nat × Nat) := runStartsFrom none 0 xs

/-- last value of a block, else the carried one (`last_val = x[-1]`) -/
def lastOr (last : Option Nat) (blk : List Nat) : Option Nat :=
  match blk.getLast? with
  | some v => some v
  | none => last

/-- the block loop of `rlencode(array, chunksize)`: `for i in range(0, n, chunksize)` with carry-over of
the last value of the previous block -/
def rleBlocks (c : Nat) : Nat → Option Nat → Nat → List Nat → List (Nat × Nat)
  | 0, _, _, _ => []
  | fuel + 1, last, pos, xs =>
    if xs = [] then []
    else
      let blk := xs.take c
      runStartsFrom last pos blk ++ rleBlocks c fuel (lastOr last blk) (pos + blk.length) (xs.drop c)

def rlencodeChunked (c : Nat) (xs : List Nat) : List (Nat × Nat) := rleBlocks c xs.length none 0 xs

/-- run lengths: `np.diff(np.r_[starts, n])` -/
def runLengths (n : Nat) : List (Nat × Nat) → List Nat
  | [] => []
  | [(s, _)] => [n - s]
  | (s, _) :: (t, v) :: rest => (t - s) :: runLengths n ((t, v) :: rest)

/-- contract of `rlencode` used by the index builder (a free unit: the runs need not be maximal):
starts strictly increase from 0, and every position of a run carries the run's value -/
def validRunsFrom (xs : List Nat) : Nat → List (Nat × Nat) → Bool
  | pos, [] => decide (pos = xs.length) || false
  | pos, [(s, v)] => decide (s = pos) && decide (s < xs.length) && ((xs.drop s).all (· == v))
  | pos, (s, v) :: (t, w) :: rest =>
    decide (s = pos) && decide (s < t) && (((xs.drop s).take (t - s)).all (· == v)) &&
      validRunsFrom xs t ((t, w) :: rest)

def validRuns (xs : List Nat) (runs : List (Nat × Nat)) : Bool :=
  if xs = [] then runs.isEmpty else validRunsFrom xs 0 runs

/-! ### offsets from runs (`index_pixels`, `index_bins`) -/

/-- `offset[curr : value+1] = start; curr = value + 1` for each run, then `offset[curr:] = total`.
(For the non-decreasing columns this is applied to, `curr ≤ value` always, so slice assignment is an
append.) -/
def fillIdx (n total : Nat) : Nat → List (Nat × Nat) → List Nat
  | curr, [] => List.replicate (n + 1 - curr) total
  | curr, (start, value) :: rest =>
    List.replicate (value + 1 - curr) start ++ fillIdx n total (value + 1) rest

def indexFromRle (n total : Nat) (runs : List (Nat × Nat)) : List Nat := fillIdx n total 0 runs

/-- `index_pixels(grp, n_bins, nnz)` on the stored `bin1_id` column -/
def indexPixels (n : Nat) (bin1 : List Nat) : List Nat := indexFromRle n bin1.length (rlencode bin1)

/-- `index_bins(grp, n_chroms, n_bins)` on the stored chromosome-id column of the bin table -/
def indexBins (nchroms : Nat) (chromIds : List Nat) : List Nat :=
  indexFromRle nchroms chromIds.length (rlencode chromIds)

/-- L0: the run-length index of a non-decreasing column: entry `k` = number of elements `< k` -/
def countIndex (n : Nat) (xs : List Nat) : List Nat := (List.range (n + 1)).map fun k => xs.countP (· < k)

/-! ### write_pixels and create -/

/-- `write_pixels`: each chunk is appended at the running offset `nnz`; returns the stored columns,
`nnz` and the running total of `count` -/
def writePixels (chunks : List Pixels) : Pixels × Nat × Int :=
  chunks.foldl (fun (acc : Pixels × Nat × Int) ch =>
    (acc.1 ++ ch, acc.2.1 + ch.length, acc.2.2 + (ch.map Px.v).foldl (· + ·) 0)) ([], 0, 0)

/-- what `create()` leaves in the file (one value column) -/
structure Stored where
  nbins : Nat
  nchroms : Nat
  symm : Bool
  binChrom : List Nat            -- bins/chrom as integer codes
  px : Pixels                    -- pixels/{bin1_id,bin2_id,count}, row-aligned
  len1 : Nat                     -- stored lengths of the three pixel columns
  len2 : Nat
  lenv : Nat
  bin1Offset : List Nat
  chromOffset : List Nat
  nnzAttr : Nat
  nbinsAttr : Nat
  nchromsAttr : Nat
  sumAttr : Int
deriving Repr

/-- the model of `create()` for a chunk stream that passed validation -/
def createStore (nchroms : Nat) (binChrom : List Nat) (symm : Bool) (chunks : List Pixels) : Stored :=
  let w := writePixels chunks
  let n := binChrom.length
  { nbins := n, nchroms := nchroms, symm := symm, binChrom := binChrom, px := w.1,
    len1 := w.1.length, len2 := w.1.length, lenv := w.1.length,
    bin1Offset := indexPixels n (w.1.map Px.i),
    chromOffset := indexBins nchroms binChrom,
    nnzAttr := w.2.1, nbinsAttr := n, nchromsAttr := nchroms, sumAttr := w.2.2 }

/-! ### the schema predicate (C02) -/

/-- every clause of the published schema that the property lists; returns the names of the clauses
that FAIL (empty = valid) so that the monitor can say what is wrong -/
def schemaViolations (s : Stored) : List String :=
  (if s.len1 = s.nnzAttr ∧ s.len2 = s.nnzAttr ∧ s.lenv = s.nnzAttr ∧ s.px.length = s.nnzAttr then []
    else ["pixel columns do not all have length nnz"]) ++
  (if strictSortedB s.px then [] else ["pixels not strictly increasing in (bin1_id, bin2_id)"]) ++
  (if inRangeB s.nbins s.px then [] else ["bin id out of range"]) ++
  (if !s.symm || triuB s.px then [] else ["lower-triangle pixel in symmetric-upper storage"]) ++
  (if s.bin1Offset = countIndex s.nbins (s.px.map Px.i) then [] else ["bin1_offset is not the run-length index of bin1_id"]) ++
  (if s.chromOffset = countIndex s.nchroms s.binChrom then [] else ["chrom_offset is not the run-length index of bins/chrom"]) ++
  (if s.nbinsAttr = s.binChrom.length ∧ s.nbins = s.binChrom.length then [] else ["nbins attribute"]) ++
  (if s.nchromsAttr = s.nchroms then [] else ["nchroms attribute"]) ++
  (if s.sumAttr = (s.px.map Px.v).foldl (· + ·) 0 then [] else ["sum attribute is not the total of the count column"])

def ValidCooler (s : Stored) : Prop := schemaViolations s = []

instance (s : Stored) : Decidable (ValidCooler s) := by unfold ValidCooler; exact inferInstance

end Cooler

namespace Cooler

/-! ### runs as segments (contract of the free unit `rlencode`, maximal or not) -/

/-- the array a list of segments `(length, value)` stands for -/
def expandSegs : List (Nat × Nat) → List Nat
  | [] => []
  | (l, v) :: rest => List.replicate l v ++ expandSegs rest

/-- `(start, value)` runs of a segment list laid out from position `pos` -/
def segsToRuns : Nat → List (Nat × Nat) → List (Nat × Nat)
  | _, [] => []
  | pos, (l, v) :: rest => (pos, v) :: segsToRuns (pos + l) rest

/-- `(start, value)` runs over an array of length `total` → segments (lengths = differences of starts) -/
def runsToSegs (total : Nat) : List (Nat × Nat) → List (Nat × Nat)
  | [] => []
  | [(s, v)] => [(total - s, v)]
  | (s, v) :: (t, w) :: rest => (t - s, v) :: runsToSegs total ((t, w) :: rest)

/-- contract used by the index builder: the runs start at 0 and, read as segments, spell out `xs`
(constant, ordered, covering — not necessarily maximal) -/
def runsSpell (xs : List Nat) (runs : List (Nat × Nat)) : Bool :=
  ((runsToSegs xs.length runs).all fun s => decide (1 ≤ s.1)) &&
  decide (expandSegs (runsToSegs xs.length runs) = xs) &&
  decide (segsToRuns 0 (runsToSegs xs.length runs) = runs)

end Cooler
