import CoolerModel.Basic
/-!
Model of the CSR read path: `core/_rangequery.py` (`CSRReader.__call__`, `get_spans`,
`DirectRangeQuery2D`, `FillLowerRangeQuery2D`) and the output conversions used by `api.matrix`.
Property C03 (and, through it, C01, C12, C16).
-/
namespace Cooler

/-! ### stored table, index -/

/-- number of stored pixels whose row is `< k`: the CSR row pointer of a row-sorted table -/
def off (ps : Pixels) (k : Nat) : Nat := ps.countP (fun p => p.i < k)

/-- `indexes/bin1_offset` as it must be for a table over `n` bins -/
def csrIndex (ps : Pixels) (n : Nat) : List Nat := (List.range (n + 1)).map (off ps)

def RowSorted (ps : Pixels) : Prop := ps.Pairwise (fun p q => p.i ≤ q.i)

/-- strictly increasing in (row, column): the storage order the schema promises -/
def StrictSorted (ps : Pixels) : Prop := ps.Pairwise keyLt

def Triu (ps : Pixels) : Prop := ∀ p ∈ ps, p.i ≤ p.j

def InRange (n : Nat) (ps : Pixels) : Prop := ∀ p ∈ ps, p.i < n ∧ p.j < n

/-- lookup in the stored offset array (`bin1_offsets[k]`) -/
def offAt (offs : List Nat) (k : Nat) : Nat := offs.getD k 0

/-- pixels `[a, b)` of the table by position (`pixel_grp[col][a:b]` on every column) -/
def slicePx (ps : Pixels) (a b : Nat) : Pixels := (ps.drop a).take (b - a)

/-- rows `[a,b)` read through the index -/
def rowsSlice (ps : Pixels) (a b : Nat) : Pixels := slicePx ps (off ps a) (off ps b)

/-! ### CSRReader.__call__ -/

structure Box where
  i0 : Nat
  i1 : Nat
  j0 : Nat
  j1 : Nat
deriving DecidableEq, Repr, Inhabited

def Box.transpose (b : Box) : Box := ⟨b.j0, b.j1, b.i0, b.i1⟩

def inCols (j0 j1 : Nat) (p : Px) : Bool := decide (j0 ≤ p.j) && decide (p.j < j1)

def inBox (b : Box) (p : Px) : Bool :=
  decide (b.i0 ≤ p.i) && decide (p.i < b.i1) && decide (b.j0 ≤ p.j) && decide (p.j < b.j1)

/-- one row of the loop: slice by the index, mask the columns, label the row with the loop index
(`rows = np.full(len(cols), i)`) -/
def csrRow (ps : Pixels) (offs : List Nat) (j0 j1 i : Nat) : Pixels :=
  ((slicePx ps (offAt offs i) (offAt offs (i + 1))).filter (inCols j0 j1)).map fun p => { p with i := i }

/-- direct part: rows `[s0,s1)`, columns `[j0,j1)` -/
def csrDirect (ps : Pixels) (offs : List Nat) (j0 j1 s0 s1 : Nat) : Pixels :=
  (List.range' s0 (s1 - s0)).flatMap (csrRow ps offs j0 j1)

/-- `to_duplex = (bin1 != bin2) & (bin2 < i1)` -/
def toDuplex (i1 : Nat) (p : Px) : Bool := decide (p.i ≠ p.j) && decide (p.j < i1)

/-- `CSRReader.__call__(field, bbox, row_span, reflect)` -/
def csrRead (ps : Pixels) (offs : List Nat) (b : Box) (s0 s1 : Nat) (reflect : Bool) : Pixels :=
  let d := csrDirect ps offs b.j0 b.j1 s0 s1
  if reflect then d ++ (d.filter (toDuplex b.i1)).map Px.swap else d

/-! ### row spans (`get_spans`): a free unit, constrained by a contract -/

/-- consecutive spans `(e₀,e₁),(e₁,e₂),…` starting at `a` ; returns the final edge -/
def spansChain : Nat → List (Nat × Nat) → Option Nat
  | a, [] => some a
  | a, (s, t) :: rest => if s = a ∧ s ≤ t then spansChain t rest else none

/-- first row a span list starts reading at (the box's own first row when there is no span) -/
def spansStart (i0 : Nat) : List (Nat × Nat) → Nat
  | [] => i0
  | (s, _) :: _ => s

/-- contract of `CSRReader.get_spans(bbox, chunksize)`: for an empty box no span; otherwise a chain of
consecutive row spans from some `a ≥ i0` to some `e ≤ i1` such that the rows `[i0, a)` before it and the
rows `[e, i1)` after it hold no pixel (empty rows at either end may be left out or attached to a
neighbouring span: nothing is read from them) -/
def validSpans (offs : List Nat) (b : Box) (spans : List (Nat × Nat)) : Bool :=
  if b.i1 ≤ b.i0 ∨ b.j1 ≤ b.j0 then spans.isEmpty
  else
    decide (b.i0 ≤ spansStart b.i0 spans) &&
    decide (offAt offs b.i0 = offAt offs (spansStart b.i0 spans)) &&
    (match spansChain (spansStart b.i0 spans) spans with
     | some e => decide (e ≤ b.i1) && decide (offAt offs e = offAt offs b.i1)
     | none => false)

/-- the model's own choice: one span per row (any valid choice gives the same result: theorem) -/
def rowSpans (b : Box) : List (Nat × Nat) :=
  if b.i1 ≤ b.i0 ∨ b.j1 ≤ b.j0 then [] else (List.range' b.i0 (b.i1 - b.i0)).map fun i => (i, i + 1)

/-! ### the two query engines -/

/-- `DirectRangeQuery2D`: one task per span, no reflection; `get()` concatenates -/
def queryDirect (ps : Pixels) (offs : List Nat) (b : Box) (spans : List (Nat × Nat)) : Pixels :=
  spans.flatMap fun s => csrRead ps offs b s.1 s.2 false

/-- one sub-box of the fill-lower plan: whether the fetched result is transposed, and the box -/
abbrev Task := Bool × Box

/-- `FillLowerRangeQuery2D.__init__`: transpose when `i1 > j1`, then the case split.
`none` is the `"This shouldn't happen"` branch. -/
def fillLowerTasks (b : Box) : Option (List Task) :=
  let useT := decide (b.i1 > b.j1)
  let c : Box := if useT then b.transpose else b
  -- `_comes_before(i0,i1,j0,j1,strict)`
  let before (strict : Bool) : Bool :=
    if c.i0 < c.j0 then (if strict then decide (c.i1 ≤ c.j0) else decide (c.i1 ≤ c.j1)) else false
  -- `_contains(j0,j1,i0,i1)`
  let contains : Bool := decide (c.j0 ≤ c.i0) && decide (c.j1 ≥ c.i1)
  if c.i0 = c.j0 ∨ before true then some [(useT, c)]
  else if before false then some [(useT, ⟨c.i0, c.j0, c.j0, c.j1⟩), (useT, ⟨c.j0, c.i1, c.j0, c.j1⟩)]
  else if contains then some [(!useT, ⟨c.j0, c.i0, c.i0, c.i1⟩), (useT, ⟨c.i0, c.i1, c.i0, c.j1⟩)]
  else none

/-- run one task over its spans (`reflect = True` always), transposing the result if asked -/
def runTask (ps : Pixels) (offs : List Nat) (spansOf : Box → List (Nat × Nat)) (t : Task) : Pixels :=
  let r := (spansOf t.2).flatMap fun s => csrRead ps offs t.2 s.1 s.2 true
  if t.1 then r.map Px.swap else r

/-- `FillLowerRangeQuery2D(...).get()` -/
def queryFill (ps : Pixels) (offs : List Nat) (spansOf : Box → List (Nat × Nat)) (b : Box) :
    Option Pixels :=
  (fillLowerTasks b).map fun ts => ts.flatMap (runTask ps offs spansOf)

/-! ### L0: what the user is promised -/

/-- symmetric completion of a stored upper triangle -/
def symCompletion (ps : Pixels) : Pixels := ps ++ (ps.filter fun p => decide (p.i ≠ p.j)).map Px.swap

/-- the sub-block of the full matrix, as a set of entries (order is not promised for fill-lower output) -/
def specWindow (symm : Bool) (ps : Pixels) (b : Box) : Pixels :=
  (if symm then symCompletion ps else ps).filter (inBox b)

/-- dense output: cell `(r,c)` of `coo_matrix(...).toarray()` is the SUM of all emitted entries at that
coordinate (so a duplicated entry would be visible) -/
def cellSum (out : Pixels) (b : Box) (r c : Nat) : Int :=
  ((out.filter fun p => p.i == b.i0 + r && p.j == b.j0 + c).map Px.v).foldl (· + ·) 0

def denseOf (out : Pixels) (b : Box) : List (List Int) :=
  (List.range (b.i1 - b.i0)).map fun r => (List.range (b.j1 - b.j0)).map fun c => cellSum out b r c

/-- value of the full matrix at `(r,c)`: stored value, else 0 -/
def fullValue (symm : Bool) (ps : Pixels) (r c : Nat) : Int :=
  let key : Nat × Nat := if symm then (min r c, max r c) else (r, c)
  match ps.find? (fun p => p.i == key.1 && p.j == key.2) with
  | some p => p.v
  | none => 0

def specDense (symm : Bool) (ps : Pixels) (b : Box) : List (List Int) :=
  (List.range (b.i1 - b.i0)).map fun r => (List.range (b.j1 - b.j0)).map fun c =>
    fullValue symm ps (b.i0 + r) (b.j0 + c)

/-! ### executable well-formedness twins -/

def strictSortedB : Pixels → Bool
  | [] => true
  | [_] => true
  | p :: q :: rest => keyLtB p q && strictSortedB (q :: rest)

def triuB (ps : Pixels) : Bool := ps.all fun p => decide (p.i ≤ p.j)
def inRangeB (n : Nat) (ps : Pixels) : Bool := ps.all fun p => decide (p.i < n) && decide (p.j < n)

end Cooler
