import CoolerModel.Basic
import CoolerModel.Model.Strings
/-!
File-layer model (property C15): `cooler.fileops` (`_copy`, `cp`, `mv`, `ln`, `is_cooler`,
`list_coolers`/`visititems`), the file-mode / target-group handling of `cooler.create.create`
and `util.parse_cooler_uri`.

HDF5 is a primitive of the model (DESIGN §3).  A file system is an association list
file name ↦ HDF5 file; an HDF5 file is a *flat* map from absolute object paths (lists of link
names, `[]` = the root group) to entries.  Soft and external links are explicit entries and are
followed by `resolveN` (link-nesting fuel).  A hard link is modelled by duplicating the linked
region under the new name (same object ids `oid`); `Group.copy` duplicates it with fresh ids.
Object ids carry no observable content: they only let `step` recognise the one situation the
duplication does not describe — a group object that is reachable under two hard-link names
being modified in place — which is reported as `Outcome.corner` (no verdict) instead of being
mis-modelled.

A collection's payload (`chroms`, `bins`, `pixels`, `indexes` and their datasets) is abstracted to
a content id `c : Nat` stored in every dataset; `readCollection` reads `pixels/count`.

The code modelled is /repo as it is now: `is_cooler` answers False for a missing path (fix D3) and for
a link that does not resolve, and `list_coolers` walks past such links (fix D22).  The two recorded,
unrepaired findings are switches of `Variant`: `d4` (`mv` across files leaves the source) and `d5`
(`list_coolers` names what an ExternalLink reaches by its name inside the target file); all
switches off = the specification.  HDF5 behaviours that were found by probing h5py 3.16 / HDF5 2.0
are written next to the definitions that mirror them.
-/
namespace Cooler.FileModel

abbrev Path := List String

inductive Entry
  | group (oid : Nat) (attrs : List (String × String))
  | dataset (c : Nat)
  | soft (target : Path)
  | ext (file : String) (target : Path)
deriving DecidableEq, Repr, Inhabited

abbrev Entries := List (Path × Entry)

structure H5File where
  entries : Entries
  next : Nat            -- every oid in `entries` is `< next`
deriving DecidableEq, Repr, Inhabited

abbrev FS := List (String × H5File)

/-- deviations of the current code from the specification (known findings); all `false` = spec -/
structure Variant where
  d4 : Bool    -- `mv` across two files leaves the source in place
  d5 : Bool    -- `list_coolers` names what an ExternalLink reaches by its name in the target file
deriving DecidableEq, Repr, Inhabited

def Variant.spec : Variant := ⟨false, false⟩
def Variant.current : Variant := ⟨true, true⟩

inductive ErrClass | os | runtime | key | value | attribute
deriving DecidableEq, Repr, Inhabited

def ErrClass.name : ErrClass → String
  | .os => "OSError" | .runtime => "RuntimeError" | .key => "KeyError" | .value => "ValueError"
  | .attribute => "AttributeError"

/-- result of one operation: success, a Python exception class, or an HDF5 corner the model
declines to describe (the correspondence ends the history there without a verdict) -/
inductive Outcome
  | ok
  | err (c : ErrClass)
  | corner (why : String)
deriving DecidableEq, Repr, Inhabited

/-! ### association lists -/

def lookupK : Entries → Path → Option Entry
  | [], _ => none
  | (k', e) :: es, k => if k' = k then some e else lookupK es k

def getFile : FS → String → Option H5File
  | [], _ => none
  | (g, h) :: fs, f => if g = f then some h else getFile fs f

def setFile (fs : FS) (f : String) (h : H5File) : FS := (f, h) :: fs.filter (fun p => p.1 ≠ f)

def lookupE (fs : FS) (f : String) (k : Path) : Option Entry :=
  match getFile fs f with
  | none => none
  | some h => lookupK h.entries k

/-- `P` is a prefix of `k` (the object `k` lies in the region rooted at `P`) -/
def under : Path → Path → Bool
  | [], _ => true
  | _ :: _, [] => false
  | a :: P, b :: k => decide (a = b) && under P k

def removeUnder (P : Path) (es : Entries) : Entries := es.filter (fun p => !under P p.1)

/-- the region rooted at `S`, keys made relative to `S` -/
def getRegion (es : Entries) (S : Path) : Entries :=
  (es.filter (fun p => under S p.1)).map (fun p => (p.1.drop S.length, p.2))

/-- replace the region rooted at `D` by `new` (relative keys) -/
def putRegion (es : Entries) (D : Path) (new : Entries) : Entries :=
  new.map (fun p => (D ++ p.1, p.2)) ++ removeUnder D es

def setEntry (es : Entries) (k : Path) (e : Entry) : Entries :=
  (k, e) :: es.filter (fun p => p.1 ≠ k)

def Entry.shift (d : Nat) : Entry → Entry
  | .group o a => .group (o + d) a
  | e => e

def shiftOids (d : Nat) (es : Entries) : Entries := es.map (fun p => (p.1, p.2.shift d))

/-! ### attributes -/

def MAGIC : String := "HDF5::Cooler"

def attrGet : List (String × String) → String → Option String
  | [], _ => none
  | (k', v) :: as, k => if k' = k then some v else attrGet as k

/-- `dict.update` -/
def attrsUpdate (old new : List (String × String)) : List (String × String) :=
  new ++ old.filter (fun p => (attrGet new p.1).isNone)

/-- `_is_cooler(grp)`: the `format` attribute equals MAGIC -/
def fmtOK (attrs : List (String × String)) : Bool := attrGet attrs "format" = some MAGIC

/-- attributes `write_info` puts on a new collection (`sum` of the one-pixel test cooler is its
content id; the remaining info attributes carry nothing the property speaks about) -/
def infoAttrs (c : Nat) : List (String × String) := [("format", MAGIC), ("sum", toString c)]

/-! ### link resolution -/

abbrev Loc := String × Path

/-- one path component from location `acc`; `follow` resolves a link target from a file's root -/
def stepWith (fs : FS) (follow : String → Path → Option Loc) (acc : Option Loc) (x : String) :
    Option Loc :=
  match acc with
  | none => none
  | some (f, P) =>
    match lookupE fs f (P ++ [x]) with
    | none => none
    | some (.group _ _) => some (f, P ++ [x])
    | some (.dataset _) => some (f, P ++ [x])
    | some (.soft t) => follow f t
    | some (.ext g t) => follow g t

def start (fs : FS) (f : String) : Option Loc :=
  match getFile fs f with
  | none => none
  | some _ => some (f, [])

/-- the object an absolute path names, following soft and external links nested at most `n`
deep (`f[path]` in h5py); `none` = KeyError -/
def resolveN (fs : FS) : Nat → String → Path → Option Loc
  | 0, f, p => p.foldl (stepWith fs (fun _ _ => none)) (start fs f)
  | n + 1, f, p => p.foldl (stepWith fs (resolveN fs n)) (start fs f)

def LINKFUEL : Nat := 8

def resolve (fs : FS) (f : String) (p : Path) : Option Loc := resolveN fs LINKFUEL f p

/-- three-valued twin of `resolveN`, used only to tell a dangling link (`missing`) from a link
cycle (`loop`: budget exhausted; h5py fails with "too many links") -/
inductive R3
  | found (l : Loc)
  | missing
  | loop
deriving DecidableEq, Repr, Inhabited

def step3 (fs : FS) (follow : String → Path → R3) (acc : R3) (x : String) : R3 :=
  match acc with
  | .found (f, P) =>
    match lookupE fs f (P ++ [x]) with
    | none => .missing
    | some (.group _ _) => .found (f, P ++ [x])
    | some (.dataset _) => .found (f, P ++ [x])
    | some (.soft t) => follow f t
    | some (.ext g t) => follow g t
  | r => r

def start3 (fs : FS) (f : String) : R3 :=
  match getFile fs f with
  | none => .missing
  | some _ => .found (f, [])

def resolve3N (fs : FS) : Nat → String → Path → R3
  | 0, f, p => p.foldl (step3 fs (fun _ _ => .loop)) (start3 fs f)
  | n + 1, f, p => p.foldl (step3 fs (resolve3N fs n)) (start3 fs f)

def loops (fs : FS) (f : String) (p : Path) : Bool := resolve3N fs LINKFUEL f p = .loop

/-- twin of `resolveN` that also tracks the *name HDF5 reports* for the object (finding D5):
`none` = the access path; after an external link the name restarts at the link's target path
inside the target file -/
def stepNm (fs : FS) (follow : String → Path → Option (Loc × Option Path))
    (acc : Option (Loc × Option Path)) (x : String) : Option (Loc × Option Path) :=
  match acc with
  | none => none
  | some ((f, P), nm) =>
    match lookupE fs f (P ++ [x]) with
    | none => none
    | some (.group _ _) => some ((f, P ++ [x]), nm.map (· ++ [x]))
    | some (.dataset _) => some ((f, P ++ [x]), nm.map (· ++ [x]))
    | some (.soft t) =>
      -- through a soft link the name stays the access path, whatever the target traverses
      match follow f t with
      | none => none
      | some (l, _) => some (l, nm.map (· ++ [x]))
    | some (.ext g t) =>
      match follow g t with
      | none => none
      | some (l, nm') => some (l, some (nm'.getD t))

def resolveNm (fs : FS) : Nat → String → Path → Option (Loc × Option Path)
  | 0, f, p => p.foldl (stepNm fs (fun _ _ => none)) ((start fs f).map (·, none))
  | n + 1, f, p => p.foldl (stepNm fs (resolveNm fs n)) ((start fs f).map (·, none))

/-- name `list_coolers` gives to what an external-link child reaches: the access path (specification), or
what HDF5 reports (variant D5) -/
def linkName (fs : FS) (v : Variant) (g : String) (t : Path) (access : Path) : Path :=
  if v.d5 then
    match resolveNm fs LINKFUEL g t with
    | some (_, some nm) => nm
    | _ => t
  else access

/-! ### recognition and reading -/

def coolerEntry : Option Entry → Bool
  | some (.group _ a) => fmtOK a
  | _ => false

def isCoolerAt (fs : FS) (l : Loc) : Bool := coolerEntry (lookupE fs l.1 l.2)

/-- `is_cooler` with link budget `n`, specification (no error for any path) -/
def isCoolerN (fs : FS) (n : Nat) (f : String) (p : Path) : Bool :=
  match resolveN fs n f p with
  | some l => isCoolerAt fs l
  | none => false

def isCoolerSpec (fs : FS) (f : String) (p : Path) : Bool := isCoolerN fs LINKFUEL f p

/-- `fileops.is_cooler`: a missing file, a missing path, a link that does not resolve, a dataset or a
group without the format attribute all answer `false`; there is no error outcome
(`try: f[grouppath] except (KeyError, RuntimeError): return False`) -/
def isCooler (fs : FS) (f : String) (p : Path) : Bool := isCoolerSpec fs f p

/-- what `Cooler(uri)` reads with link budget `n`: the group must be recognised, its `pixels`
child a group and `pixels/count` a dataset (links *inside* a payload are not modelled) -/
def readN (fs : FS) (n : Nat) (f : String) (p : Path) : Option Nat :=
  match resolveN fs n f p with
  | none => none
  | some (g, P) =>
    if coolerEntry (lookupE fs g P) then
      match lookupE fs g (P ++ ["pixels"]), lookupE fs g (P ++ ["pixels", "count"]) with
      | some (.group _ _), some (.dataset c) => some c
      | _, _ => none
    else none

def readCollection (fs : FS) (f : String) (p : Path) : Option Nat := readN fs LINKFUEL f p

/-! ### listing (`list_coolers` = root check + `visititems` over all descendants) -/

def insertSorted (x : String) : List String → List String
  | [] => [x]
  | y :: ys => if x < y then x :: y :: ys else if x = y then y :: ys else y :: insertSorted x ys

def sortDedup (l : List String) : List String := l.foldr insertSorted []

/-- `grp.keys()` of the group at canonical path `P`: link names in name order -/
def childNames (es : Entries) (P : Path) : List String :=
  sortDedup (es.filterMap (fun p =>
    match p.1.getLast? with
    | some x => if p.1.dropLast = P then some x else none
    | none => none))

inductive Item
  | path (p : Path)      -- a recognised collection, by the name the listing gives it
  | fuel                 -- recursion budget exhausted: infinite namespace (a resolvable link to an ancestor), or a
                         -- self-referential external link
deriving DecidableEq, Repr, Inhabited

/-- `visititems`: children of the group at canonical location `(f, P)` displayed as `disp` -/
def walk (fs : FS) (v : Variant) : Nat → String → Path → Path → List Item
  | 0, _, _, _ => [.fuel]
  | n + 1, f, P, disp =>
    match getFile fs f with
    | none => []
    | some h =>
      (childNames h.entries P).flatMap fun x =>
        match lookupK h.entries (P ++ [x]) with
        | none => []
        | some (.dataset _) => []
        | some (.group _ a) =>
          (if fmtOK a then [Item.path (disp ++ [x])] else []) ++ walk fs v n f (P ++ [x]) (disp ++ [x])
        | some (.soft t) =>
          match resolve fs f t with
          -- a link that does not resolve (`get` yields None) or cannot be traversed (a cycle of links:
          -- RuntimeError "too many links", caught since fix D28) is skipped
          | none => []
          | some (g, Q) =>
            match lookupE fs g Q with
            | some (.group _ a) =>
              (if fmtOK a then [Item.path (disp ++ [x])] else []) ++ walk fs v n g Q (disp ++ [x])
            | _ => []
        | some (.ext g0 t) =>
          -- an external link into the very file that holds it (only a copy of a link into its own
          -- target file creates one): the name HDF5 reports is not modelled
          if g0 = f then [.fuel] else
          match resolve fs g0 t with
          | none => []
          | some (g, Q) =>
            let d := linkName fs v g0 t (disp ++ [x])
            match lookupE fs g Q with
            | some (.group _ a) =>
              (if fmtOK a then [Item.path d] else []) ++ walk fs v n g Q d
            | _ => []

def maxKeyLen (es : Entries) : Nat := es.foldl (fun m p => max m p.1.length) 0

def walkFuel (fs : FS) : Nat := 2 * (fs.foldl (fun m p => max m (maxKeyLen p.2.entries)) 0) + 10

def listItems (fs : FS) (v : Variant) (f : String) : List Item :=
  (if coolerEntry (lookupE fs f []) then [Item.path []] else []) ++ walk fs v (walkFuel fs) f [] []

def itemPaths : List Item → List Path
  | [] => []
  | .path p :: r => p :: itemPaths r
  | _ :: r => itemPaths r

/-- specification of `list_coolers` for an existing file: the names, in traversal order -/
def listCoolers (fs : FS) (f : String) : List Path := itemPaths (listItems fs Variant.spec f)

inductive Listing
  | ok (ps : List Path)
  | err (c : ErrClass)
  | cyclic
deriving DecidableEq, Repr, Inhabited

/-- `fileops.list_coolers` under variant `v` -/
def listing (fs : FS) (v : Variant) (f : String) : Listing :=
  match getFile fs f with
  | none => .err .os
  | some _ =>
    let it := listItems fs v f
    if it.contains .fuel then .cyclic else .ok (itemPaths it)

/-! ### URIs -/

/-- components of a group path given as characters: split at `/`, empty components dropped
(HDF5 ignores repeated and trailing slashes); `cur` is the component being read, reversed -/
def splitSlashAux : List Char → List Char → List (List Char)
  | cur, [] => if cur = [] then [] else [cur.reverse]
  | cur, c :: cs =>
    if c = '/' then (if cur = [] then splitSlashAux [] cs else cur.reverse :: splitSlashAux [] cs)
    else splitSlashAux (c :: cur) cs

def splitSlash (g : List Char) : List (List Char) := splitSlashAux [] g

def splitPath (s : String) : Path := (splitSlash s.toList).map String.ofList

/-- `util.parse_cooler_uri` on characters: THE definition shared with property C19
(`Cooler.Strings.parseCoolerUri`, theorem `Cooler.C19.uri_slash`), followed by the split of the
normalised group path into components -/
def parseCoolerUriC (s : List Char) : Except ErrClass (List Char × List (List Char)) :=
  match Cooler.Strings.parseCoolerUri s with
  | .ok (f, g) => .ok (f, splitSlash g)
  | .error _ => .error .value

/-- `util.parse_cooler_uri`: file path and *normalised* group path (leading slash added) -/
def parseCoolerUriStr (s : String) : Except ErrClass (String × String) :=
  match Cooler.Strings.parseCoolerUri s.toList with
  | .ok (f, g) => .ok (String.ofList f, String.ofList g)
  | .error _ => .error .value

def parseCoolerUri (s : String) : Except ErrClass (String × Path) :=
  match parseCoolerUriC s.toList with
  | .ok (f, p) => .ok (String.ofList f, p.map String.ofList)
  | .error e => .error e

/-! ### building blocks of the mutating operations -/

def emptyFile : H5File := ⟨[([], .group 0 [])], 1⟩

inductive Mode | w | a | rplus
deriving DecidableEq, Repr, Inhabited

/-- `h5py.File(path, mode)` -/
def openFile (fs : FS) (f : String) : Mode → Except Outcome FS
  | .w => .ok (setFile fs f emptyFile)
  | .a => match getFile fs f with
    | some _ => .ok fs
    | none => .ok (setFile fs f emptyFile)
  | .rplus => match getFile fs f with
    | some _ => .ok fs
    | none => .error (.err .os)

def groupOid : Option Entry → Option Nat
  | some (.group o _) => some o
  | _ => none

/-- the group object with id `o` is reachable under more than one name -/
def sharedOid (es : Entries) (o : Nat) : Bool :=
  (es.filter (fun p => groupOid (some p.2) = some o)).length > 1

def sharedAt (es : Entries) (P : Path) : Bool :=
  match groupOid (lookupK es P) with
  | some o => sharedOid es o
  | none => false

/-- walk the components of a destination's parent path inside file `f`, creating missing
intermediate groups (`lcpl.create_intermediate_group`), following soft links that stay inside
the file; returns the file's new entries/next and the canonical parent -/
def mkdirP (fs : FS) (f : String) : H5File → Path → List String → Except Outcome (H5File × Path)
  | h, cur, [] => .ok (h, cur)
  | h, cur, x :: rest =>
    match lookupK h.entries (cur ++ [x]) with
    | none =>
      if sharedAt h.entries cur then .error (.corner "intermediate group created inside a multiply linked group")
      else mkdirP fs f ⟨setEntry h.entries (cur ++ [x]) (.group h.next []), h.next + 1⟩ (cur ++ [x]) rest
    | some (.group _ _) => mkdirP fs f h (cur ++ [x]) rest
    | some (.dataset _) => .error (.corner "destination parent passes through a dataset")
    | some (.soft t) =>
      match resolve fs f t with
      | some (g, Q) =>
        if g = f then
          match lookupK h.entries Q with
          | some (.group _ _) => mkdirP fs f h Q rest
          | _ => .error (.corner "destination parent link does not name a group")
        else .error (.corner "destination parent passes through an external link")
      | none => .error (.corner "destination parent passes through an unresolvable link")
    | some (.ext _ _) => .error (.corner "destination parent passes through an external link")

/-- the four data groups `create` writes, relative to the collection group; group ids `o+1 … o+4` -/
def payloadParts (o c : Nat) : List (String × Entries) :=
  [("bins", [([], .group (o + 1) []), (["chrom"], .dataset c), (["end"], .dataset c), (["start"], .dataset c)]),
   ("chroms", [([], .group (o + 2) []), (["length"], .dataset c), (["name"], .dataset c)]),
   ("indexes", [([], .group (o + 3) []), (["bin1_offset"], .dataset c), (["chrom_offset"], .dataset c)]),
   ("pixels", [([], .group (o + 4) []), (["bin1_id"], .dataset c), (["bin2_id"], .dataset c), (["count"], .dataset c)])]

/-- a whole new collection relative to its group: the group itself (id `o`, info attributes) and
the payload -/
def coolerRegion (o c : Nat) : Entries :=
  ([], .group o (infoAttrs c)) ::
    (payloadParts o c).flatMap (fun part => part.2.map (fun p => (part.1 :: p.1, p.2)))

/-- `del grp[name]` for the link named by the last component of `p` (`p ≠ /`): resolve the parent,
drop the link and whatever was stored under it -/
def unlink (fs : FS) (f : String) (p : Path) : Except Outcome FS :=
  match p.getLast? with
  | none => .error (.err .key)
  | some x =>
    match resolve fs f p.dropLast with
    | none => .error (.err .key)
    | some (g, P) =>
      if g ≠ f then .error (.corner "source parent passes through an external link") else
      match getFile fs g with
      | none => .error (.err .key)
      | some h =>
        match lookupK h.entries (P ++ [x]) with
        | none => .error (.err .key)
        | some _ =>
          if sharedAt h.entries P then .error (.corner "link removed from a multiply linked group")
          else .ok (setFile fs g ⟨removeUnder (P ++ [x]) h.entries, h.next⟩)

/-! ### create -/

/-- the root data groups `create` deletes and writes again (`del f[name]`, `create_group(name)`) -/
def rootParts (es : Entries) (o c : Nat) : Entries :=
  (payloadParts o c).foldl (fun es part => putRegion es [part.1] part.2) es

/-- `create` at the root group of the open file `h`: `del f[name]` for the four data groups only,
then the groups are written again and `attrs.update(info)` — other children and other attributes
of the root stay -/
def createRoot (fs1 : FS) (f : String) (h : H5File) (c : Nat) : FS × Outcome :=
  match lookupK h.entries [] with
  | some (.group o a) =>
    if sharedOid h.entries o then (fs1, .corner "root group is multiply linked") else
    (setFile fs1 f ⟨setEntry (rootParts h.entries h.next c) [] (.group o (attrsUpdate a (infoAttrs c))), h.next + 5⟩, .ok)
  | _ => (fs1, .corner "file without root group")

/-- the entry at `D` of file `f` is a soft or external link whose traversal never ends (link budget
exhausted: a cycle of links) -/
def untraversableAt (fs : FS) (f : String) (h : H5File) (D : Path) : Bool :=
  match lookupK h.entries D with
  | some (.soft t) => loops fs f t
  | some (.ext g t) => loops fs g t
  | _ => false

/-- `create` at a group path `p = parent/x`: `create_group(path)`; on ValueError (the name exists)
`del f[path]` and `create_group` again — whatever was linked there (a group with everything below
it, a soft link) is gone -/
def createAt (fs1 : FS) (f : String) (h : H5File) (p : Path) (x : String) (c : Nat) : FS × Outcome :=
  match mkdirP fs1 f h [] p.dropLast with
  | .error o => (fs1, o)
  | .ok (h1, P) =>
    -- the name is a link that cannot be traversed (a cycle of links): `create_group` fails with
    -- RuntimeError "too many links", not ValueError, so nothing is deleted and nothing changes
    -- (a link that merely dangles raises ValueError and is replaced)
    if untraversableAt fs1 f h1 (P ++ [x]) then (fs1, .err .runtime) else
    if sharedAt h1.entries P then (fs1, .corner "collection created inside a multiply linked group")
    else
      (setFile fs1 f ⟨putRegion h1.entries (P ++ [x]) (coolerRegion h1.next c), h1.next + 5⟩, .ok)

/-- `create(uri, …, mode=…)` for a valid one-pixel cooler with content id `c` -/
def createCooler (fs : FS) (f : String) (p : Path) (mode : Mode) (c : Nat) : FS × Outcome :=
  match openFile fs f mode with
  | .error o => (fs, o)
  | .ok fs1 =>
    match getFile fs1 f with
    | none => (fs1, .corner "unreachable")
    | some h =>
      match p.getLast? with
      | none => createRoot fs1 f h c
      | some x => createAt fs1 f h p x c

/-! ### `_copy` -/

/-- add the region `new` (relative keys; ids already made fresh) under name `x` of the group at
`P` in file `f`; fails if the name exists -/
def linkRegion (fs : FS) (f : String) (h : H5File) (P : Path) (x : String) (new : Entries) (next : Nat)
    (exists_ : ErrClass) : FS × Outcome :=
  match lookupK h.entries (P ++ [x]) with
  | some _ => (fs, .err exists_)
  | none =>
    if sharedAt h.entries P then (fs, .corner "link created inside a multiply linked group")
    else (setFile fs f ⟨putRegion h.entries (P ++ [x]) new, next⟩, .ok)

/-- destination handling shared by every branch: parent groups, then `linkRegion` -/
def placeAt (fs : FS) (f : String) (dp : Path) (new : H5File → Entries × Nat) (exists_ : ErrClass) :
    FS × Outcome :=
  match getFile fs f with
  | none => (fs, .corner "unreachable")
  | some h =>
    match dp.getLast? with
    | none => (fs, .err exists_)                 -- destination `/` always exists
    | some x =>
      match mkdirP fs f h [] dp.dropLast with
      | .error o => (fs, o)
      | .ok (h1, P) =>
        let (es, nx) := new h1
        linkRegion fs f h1 P x es nx exists_

/-- the reason, if any, for which the model declines to place something at `dp` of file `f` -/
def dstCorner (fs : FS) (f : String) (dp : Path) : Option String :=
  match getFile fs f with
  | none => none
  | some h =>
    match mkdirP fs f h [] dp.dropLast with
    | .error (.corner why) => some why
    | _ => none

/-- copy of the children of the source group `(g, S)` into the root of file `df`, one
`src.copy(src_group + "/" + name, dst, name)` per child in name order (`H5Ocopy` follows a link
child to its target object); stops at the first name that exists in the destination or does not
resolve — what was copied before stays -/
def copyChildren (fs : FS) (g : String) (S : Path) (df : String) : H5File → List String → H5File × Outcome
  | h, [] => (h, .ok)
  | h, x :: rest =>
    match lookupK h.entries [x] with
    | some _ => (h, .err .runtime)
    | none =>
      -- both files are open: a link child is resolved against what the destination holds by now
      match resolve (setFile fs df h) g (S ++ [x]) with
      | none => (h, .err .runtime)
      | some (g', Q) =>
        if g' = df then (h, .corner "source reaches the destination file through a link") else
        match getFile fs g' with
        | none => (h, .corner "unreachable")
        | some hs =>
          copyChildren fs g S df
            ⟨putRegion h.entries [x] (shiftOids h.next (getRegion hs.entries Q)), h.next + hs.next⟩ rest

/-- canonical location the destination link will have (parent resolved, missing parents created) -/
def destOf (fs : FS) (f : String) (dp : Path) : Option Path :=
  match getFile fs f, dp.getLast? with
  | some h, some x =>
    match mkdirP fs f h [] dp.dropLast with
    | .ok (_, P) => some (P ++ [x])
    | .error _ => none
  | _, _ => none

/-- the parent path of a destination passes through a soft link (walk of `mkdirP` without creating
anything) -/
def softOnPath (h : H5File) : Path → List String → Bool
  | _, [] => false
  | cur, x :: rest =>
    match lookupK h.entries (cur ++ [x]) with
    | some (.group _ _) => softOnPath h (cur ++ [x]) rest
    | some (.soft _) => true
    | _ => false

def dstThroughSoft (fs : FS) (df : String) (dp : Path) : Bool :=
  match getFile fs df with
  | some hd => softOnPath hd [] dp.dropLast
  | none => false

/-- `src.copy(<object at (g, S)>, dst, dst_group)`: deep copy with fresh object ids.  `H5Ocopy`
refuses a destination path that passes through a soft link ("address undefined", RuntimeError,
nothing copied) — creating a group or a link through one works, copying does not. -/
def deepCopyTo (fs1 : FS) (g : String) (S : Path) (df : String) (dp : Path) : FS × Outcome :=
  match getFile fs1 g with
  | none => (fs1, .corner "unreachable")
  | some hs =>
    match lookupK hs.entries S with
    | some (.group _ _) =>
      if dstThroughSoft fs1 df dp then (fs1, .err .runtime) else
      placeAt fs1 df dp (fun h1 => (shiftOids h1.next (getRegion hs.entries S), h1.next + hs.next)) .runtime
    | _ => (fs1, .corner "source is not a group")

/-- same file, `link or rename`: `src[dst_group] = src[src_group]`, then `del src[src_group]` -/
def hardLinkSame (fs1 : FS) (sf : String) (sp dp : Path) (rename : Bool) : FS × Outcome :=
  match resolve fs1 sf sp with
  | none => (fs1, .err .key)
  | some (g, S) =>
    if g ≠ sf then (fs1, .err .os) else            -- interfile hard links are not allowed
    match getFile fs1 g with
    | none => (fs1, .corner "unreachable")
    | some hs =>
      match lookupK hs.entries S with
      | some (.group _ _) =>
        match placeAt fs1 sf dp (fun h1 => (getRegion hs.entries S, h1.next)) .os with
        | (fs2, .ok) =>
          -- a hard link to a group placed inside that group makes the namespace cyclic
          (match destOf fs1 sf dp with
           | some D =>
             if under S D then (fs2, .corner "hard link below its own target (cycle)") else
             if rename then
               match unlink fs2 sf sp with
               | .ok fs3 => (fs3, .ok)
               | .error o => (fs2, o)
             else (fs2, .ok)
           | none => (fs2, .corner "unreachable"))
        | r => r
      | _ => (fs1, .corner "source is not a group")

/-- same file, `soft_link`: `src[dst_group] = h5py.SoftLink(src_group)` -/
def softLinkSame (fs1 : FS) (sf : String) (sp dp : Path) : FS × Outcome :=
  placeAt fs1 sf dp (fun h1 => ([([], .soft sp)], h1.next)) .os

/-- same file, plain copy: `src.copy(src_group, dst_group)` -/
def copySame (fs1 : FS) (sf : String) (sp dp : Path) : FS × Outcome :=
  match resolve fs1 sf sp with
  | none => (fs1, .err .runtime)
  | some (g, S) => deepCopyTo fs1 g S sf dp

/-- two files, `soft_link`: `dst[dst_group] = h5py.ExternalLink(src_path, src_group)` -/
def extLink (fs1 : FS) (sf : String) (sp : Path) (df : String) (dp : Path) : FS × Outcome :=
  placeAt fs1 df dp (fun h1 => ([([], .ext sf sp)], h1.next)) .runtime

/-- two files, root destination: children one by one, then `dst["/"].attrs.update(src[src_group].attrs)` -/
def copyToRoot (fs1 : FS) (g : String) (S : Path) (df : String) : FS × Outcome :=
  match getFile fs1 g, getFile fs1 df with
  | some hs, some hd =>
    match lookupK hs.entries S with
    | some (.group _ sattrs) =>
      if g = df then (fs1, .corner "source reaches the destination file through a link") else
      match lookupK hd.entries [] with
      | some (.group o a) =>
        if sharedOid hd.entries o then (fs1, .corner "root group is multiply linked") else
        match copyChildren fs1 g S df hd (childNames hs.entries S) with
        | (h1, .ok) =>
          (setFile fs1 df ⟨setEntry h1.entries [] (.group o (attrsUpdate a sattrs)), h1.next⟩, .ok)
        | (h1, o) => (setFile fs1 df h1, o)
      | _ => (fs1, .corner "file without root group")
    | _ => (fs1, .corner "source is not a group")
  | _, _ => (fs1, .corner "unreachable")

/-- two files, neither link flag: copy; `rename` is ignored by the code (finding D4, `v.d4`), the
specification removes the source afterwards -/
def copyCross (fs1 : FS) (v : Variant) (sf : String) (sp : Path) (df : String) (dp : Path) (rename : Bool) :
    FS × Outcome :=
  match resolve fs1 sf sp with
  | none => (fs1, if dp = [] then .err .key else .err .runtime)
  | some (g, S) =>
    match (if dp = [] then copyToRoot fs1 g S df else deepCopyTo fs1 g S df dp) with
    | (fs2, .ok) =>
      if rename && !v.d4 then
        match unlink fs2 sf sp with
        | .ok fs3 => (fs3, .ok)
        | .error o => (fs2, o)
      else (fs2, .ok)
    | r => r

/-- the file system `_copy` works on once both files are open: the destination is truncated
(mode "w") iff it is missing or `overwrite` is set -/
def afterOpen (fs : FS) (df : String) (overwrite : Bool) : FS :=
  if (getFile fs df).isNone || overwrite then setFile fs df emptyFile else fs

/-- `fileops._copy(src_uri, dst_uri, overwrite, link, rename, soft_link)` on parsed URIs.
`v.d4 = false` is the specification (`mv` removes the source also across files). -/
def copyOp (fs : FS) (v : Variant) (sf : String) (sp : Path) (df : String) (dp : Path)
    (overwrite link rename soft : Bool) : FS × Outcome :=
  if (link && rename) || (link && soft) || (rename && soft) then (fs, .err .value) else
  -- fix D26: same-file mv / ln / ln -s whose destination equals or lies under the source group is
  -- refused before any file is opened (`(dst_group + "/").startswith(src_group.rstrip("/") + "/")`,
  -- on components for paths without repeated slashes); `cp` into itself stays allowed
  if decide (sf = df) && (link || rename || soft) && under sp dp then (fs, .err .value) else
  -- `h5py.File(src_path, "r+" if same else "r")`
  match getFile fs sf with
  | none => (fs, .err .os)
  | some _ =>
    -- `h5py.File(dst_path, dst_write_mode)`: truncating a file that is already open fails
    if ((getFile fs df).isNone || overwrite) && sf = df then (fs, .err .os) else
    let fs1 := afterOpen fs df overwrite
    match dstCorner fs1 df dp with
    | some why => (fs1, .corner why)
    | none =>
    if sf = df then
      if link || rename then hardLinkSame fs1 sf sp dp rename
      else if soft then softLinkSame fs1 sf sp dp
      else copySame fs1 sf sp dp
    else
      if link then (fs1, .err .os)               -- "Can't hard link between two different files."
      else if soft then extLink fs1 sf sp df dp
      else copyCross fs1 v sf sp df dp rename

def cp (fs : FS) (v : Variant) (sf : String) (sp : Path) (df : String) (dp : Path) (overwrite : Bool) :=
  copyOp fs v sf sp df dp overwrite false false false
def mv (fs : FS) (v : Variant) (sf : String) (sp : Path) (df : String) (dp : Path) (overwrite : Bool) :=
  copyOp fs v sf sp df dp overwrite false true false
def ln (fs : FS) (v : Variant) (sf : String) (sp : Path) (df : String) (dp : Path) (soft overwrite : Bool) :=
  copyOp fs v sf sp df dp overwrite (!soft) false soft

/-! ### histories -/

inductive Op
  | create (f : String) (p : Path) (mode : Mode) (c : Nat)
  | cp (sf : String) (sp : Path) (df : String) (dp : Path) (overwrite : Bool)
  | mv (sf : String) (sp : Path) (df : String) (dp : Path) (overwrite : Bool)
  | ln (sf : String) (sp : Path) (df : String) (dp : Path) (soft overwrite : Bool)
  | note (f : String) (value : String)       -- an unrelated root attribute written with h5py (mode "a")
deriving DecidableEq, Repr, Inhabited

def setNote (fs : FS) (f : String) (value : String) : FS × Outcome :=
  match openFile fs f .a with
  | .error o => (fs, o)
  | .ok fs1 =>
    match getFile fs1 f with
    | none => (fs1, .corner "unreachable")
    | some h =>
      match lookupK h.entries [] with
      | some (.group o a) => (setFile fs1 f ⟨setEntry h.entries [] (.group o (attrsUpdate a [("note", value)])), h.next⟩, .ok)
      | _ => (fs1, .corner "file without root group")

def step (v : Variant) (fs : FS) : Op → FS × Outcome
  | .create f p m c => createCooler fs f p m c
  | .cp sf sp df dp o => cp fs v sf sp df dp o
  | .mv sf sp df dp o => mv fs v sf sp df dp o
  | .ln sf sp df dp s o => ln fs v sf sp df dp s o
  | .note f x => setNote fs f x

/-- the file system after a history (outcomes dropped; an operation that fails keeps the partial
state the code leaves behind) -/
def run (v : Variant) (fs : FS) (ops : List Op) : FS := ops.foldl (fun s o => (step v s o).1) fs

end Cooler.FileModel
