import CoolerModel.Model.Bins
import CoolerModel.Model.CSR
/-!
Model of the region → bin extent → fetch layer (property C04):
`core/_rangequery.py::_region_to_extent` on the STORED columns, `util.parse_region` on a resolved
chromosome, `Cooler.extent/offset`, the fetchers of `Cooler.bins()`, `Cooler.pixels()`,
`Cooler.matrix()` and `GenomeSegmentation.fetch`/`bedslice` lifted to absolute bin ids.

The per-chromosome definitions (`extentFixed`, `extentVar`, `regionToExtent`, `gsFetch`,
`parseRegionTriple`, `overlapping`) live in `Model/Bins.lean`.
-/
namespace Cooler

/-! ### `_region_to_extent` as written: on `indexes/chrom_offset` and `bins/start`

```
cid = chrom_ids[chrom]
if binsize is not None:
    chrom_offset = h5["indexes"]["chrom_offset"][cid]
    yield chrom_offset + int(np.floor(start / binsize))
    yield chrom_offset + int(np.ceil(end / binsize))
else:
    chrom_lo = h5["indexes"]["chrom_offset"][cid]
    chrom_hi = h5["indexes"]["chrom_offset"][cid + 1]
    chrom_bins = h5["bins"]["start"][chrom_lo:chrom_hi]
    yield chrom_lo + chrom_lo.dtype.type(np.searchsorted(chrom_bins, start, "right") - 1)
    yield chrom_lo + chrom_lo.dtype.type(np.searchsorted(chrom_bins, end, "left"))
```
dtypes: `chrom_offset` is stored as int64 (`CHROMOFFSET_DTYPE`), `bins/start` as int32,
`searchsorted` returns `intp` (int64): the `- 1` is computed on SIGNED 64-bit integers, so
`searchsorted = 0` would give `-1` (no wrap-around), which `chrom_lo.dtype.type(...)` = `np.int64`
keeps; hence the `Int` first component.  (In a foreign file with an unsigned `chrom_offset` dtype
the cast would wrap to 2^64-1 and the addition would wrap back: same value modulo 2^64.)  Theorem
`C04.one_le_ssRight` shows the case cannot arise on a valid table: `starts[0] = 0 ≤ start`, so the
subtraction never goes below 0.  `start / binsize` is a float64 division (idealised as `Nat`
division, exact below 2^52; sampled by the correspondence up to 2^40). -/
def regionToExtentIdx (chromOffset starts : List Nat) (binsize : Option Nat) (cid s e : Nat) :
    Int × Nat :=
  let lo := chromOffset.getD cid 0
  match binsize with
  | some b => let r := extentFixed lo b s e; ((r.1 : Int), r.2)
  | none =>
    let hi := chromOffset.getD (cid + 1) 0
    extentVar lo ((starts.drop lo).take (hi - lo)) s e

/-- `region_to_offset`: the first value the generator yields -/
def regionToOffsetIdx (chromOffset starts : List Nat) (binsize : Option Nat) (cid s e : Nat) : Int :=
  (regionToExtentIdx chromOffset starts binsize cid s e).1

/-! ### `parse_region` after the chromosome label has been looked up -/

/-- `parse_region(reg, chromsizes)` for a triple whose label resolved to id `cid` (`none`: the label
is not in `chromsizes` → `ValueError("Unknown sequence label")`) -/
def regionOfTriple (chromLens : List Nat) (cid : Option Nat) (s e : Option Int) :
    Except Err (Nat × Nat × Nat) :=
  match cid with
  | none => .error .value
  | some c =>
    match chromLens[c]? with
    | none => .error .value
    | some L =>
      match parseRegionTriple (some L) s e with
      | .ok r => .ok (c, r.1, r.2)
      | .error err => .error err

/-- `Cooler.extent(region)` = `region_to_extent(grp, ids, parse_region(region, chromsizes), binsize)` -/
def coolerExtent (bins : BinTable) (chromLens : List Nat) (binsize : Option Nat)
    (cid : Option Nat) (s e : Option Int) : Except Err (Int × Nat) :=
  match regionOfTriple chromLens cid s e with
  | .ok (c, s', e') => .ok (regionToExtent bins binsize c s' e')
  | .error err => .error err

/-! ### fetchers -/

/-- the bin ids `lo, lo+1, …, hi-1` (empty when `hi ≤ lo`) -/
def runIds (lo hi : Nat) : List Nat := List.range' lo (hi - lo)

/-- `bins()[lo:hi]`: index labels and rows -/
def binsSlice (bins : BinTable) (lo hi : Nat) : List (Nat × Bin) :=
  (runIds lo hi).zip ((bins.drop lo).take (hi - lo))

/-- `pixels()._fetch`: `lo = bin1_offset[i0]; hi = bin1_offset[i1]`, then the slicer reads
`pixels[lo:hi]` -/
def pixelsFetchRange (offs : List Nat) (i0 i1 : Nat) : Nat × Nat := (offAt offs i0, offAt offs i1)

def pixelsFetch (ps : Pixels) (offs : List Nat) (i0 i1 : Nat) : Pixels :=
  slicePx ps (pixelsFetchRange offs i0 i1).1 (pixelsFetchRange offs i0 i1).2

/-- `matrix()._fetch(region, region2)`: the two extents become the window of the slicer (C03) -/
def fetchBox (r1 r2 : Nat × Nat) : Box := ⟨r1.1, r1.2, r2.1, r2.2⟩

/-- `GenomeSegmentation.fetch` / `bedslice` as absolute bin ids (the returned frame keeps the row
labels of the bin table) -/
def gsFetchAbs (bins : BinTable) (c s e : Nat) : Nat × Nat :=
  let g := groupOf bins c
  let off := bins.countP (·.chrom < c)
  let r := gsFetch g (lastStop g) s e
  (off + r.1, off + r.2)

/-! ### L0 verdicts on an observed selection -/

/-- bins (absolute ids) of chromosome `c` whose closed interval contains position `p` -/
def containing (bins : BinTable) (c p : Nat) : List Nat :=
  (List.range bins.length).filter fun k =>
    match bins[k]? with
    | some b => b.chrom == c && decide (b.start ≤ p) && decide (p ≤ b.stop)
    | none => false

/-- the property, as a verdict on a list of selected bin ids for the range `(c, s, e)`:
a non-empty range selects exactly the overlapping bins of `c` (ascending); an empty range selects
nothing or the one bin of `c` containing its position -/
def selOk (bins : BinTable) (c s e : Nat) (ids : List Nat) : Bool :=
  if s < e then ids == overlapping bins c s e
  else match ids with
    | [] => true
    | [k] => (containing bins c s).contains k
    | _ => false

/-- the same verdict on an extent `(lo, hi)` as `Cooler.extent` reports it -/
def runOk (bins : BinTable) (c s e : Nat) (lo : Int) (hi : Nat) : Bool :=
  decide (0 ≤ lo) && selOk bins c s e (runIds lo.toNat hi)

/-- stored pixels whose first bin is one of `ids`, in storage order -/
def pxOfBins (ps : Pixels) (ids : List Nat) : Pixels := ps.filter fun p => ids.contains p.i

/-- the property for the pixel-table fetch: the rows of the pixel table whose first bin is selected —
all overlapping bins for a non-empty range; nothing, or the rows of one bin containing the position,
for an empty range -/
def pxSelOk (bins : BinTable) (ps : Pixels) (c s e : Nat) (rows : Pixels) : Bool :=
  if s < e then rows == pxOfBins ps (overlapping bins c s e)
  else rows == [] || (containing bins c s).any fun k => rows == pxOfBins ps [k]

/-- `Cooler.offset(region)`: "bin ID containing the left end" — the first overlapping bin of a
non-empty range (an empty range has no left-end bin the property fixes) -/
def offsetOk (bins : BinTable) (c s e : Nat) (o : Int) : Bool :=
  if s < e then decide (0 ≤ o) && ((overlapping bins c s e).head? == some o.toNat) else true

/-! ### the same verdicts in ONE pass over the table (for tables with 10^5 bins)

`overlapping` / `containing` above read `bins[k]?` for every `k` — quadratic on a `List`.  The forms
below walk the table once; `C04.overlappingF_eq`, `containingF_eq`, `selOkF_eq`, `runOkF_eq`,
`pxSelOkF_eq`, `offsetOkF_eq` prove them EQUAL to the definitions above for every input, so the
driver may evaluate either. -/

/-- one walk along the table: position counter `i`, hits appended to `acc` -/
def idsWhereGo (p : Bin → Bool) : List Bin → Nat → Array Nat → Array Nat
  | [], _, acc => acc
  | b :: t, i, acc => idsWhereGo p t (i + 1) (if p b then acc.push i else acc)

/-- positions of the rows of a table satisfying `p`, ascending -/
def idsWhere (p : Bin → Bool) (bins : BinTable) : List Nat := (idsWhereGo p bins 0 #[]).toList

def overlappingF (bins : BinTable) (c s e : Nat) : List Nat :=
  idsWhere (fun b => b.chrom == c && decide (b.start < e) && decide (s < b.stop)) bins

def containingF (bins : BinTable) (c p : Nat) : List Nat :=
  idsWhere (fun b => b.chrom == c && decide (b.start ≤ p) && decide (p ≤ b.stop)) bins

def selOkF (bins : BinTable) (c s e : Nat) (ids : List Nat) : Bool :=
  if s < e then ids == overlappingF bins c s e
  else match ids with
    | [] => true
    | [k] => (containingF bins c s).contains k
    | _ => false

def runOkF (bins : BinTable) (c s e : Nat) (lo : Int) (hi : Nat) : Bool :=
  decide (0 ≤ lo) && selOkF bins c s e (runIds lo.toNat hi)

def pxSelOkF (bins : BinTable) (ps : Pixels) (c s e : Nat) (rows : Pixels) : Bool :=
  if s < e then rows == pxOfBins ps (overlappingF bins c s e)
  else rows == [] || (containingF bins c s).any fun k => rows == pxOfBins ps [k]

def offsetOkF (bins : BinTable) (c s e : Nat) (o : Int) : Bool :=
  if s < e then decide (0 ≤ o) && ((overlappingF bins c s e).head? == some o.toNat) else true

end Cooler
