import CoolerModel.Model.Index
/-!
Model of the input side of creation (property C01): the dense-array loader (`ArrayLoader`), the
data-frame/dict branch of `create_cooler` (sort by key, then ordered creation) and the readers
`pixels()[lo:hi]`, full-matrix query.
-/
namespace Cooler.Create
open Cooler

/-- non-zero upper-triangle entries of one dense row `i`, in column order
(`i, j = np.nonzero(X); mask = (lo + i) <= j`) -/
def rowEntries (ri : List Int × Nat) : Pixels :=
  (ri.1.zipIdx).filterMap fun vj => if vj.1 ≠ 0 ∧ ri.2 ≤ vj.2 then some ⟨ri.2, vj.2, vj.1⟩ else none

/-- one chunk of `ArrayLoader.__iter__`: rows `[lo, lo + |blk|)`, row-major -/
def blockEntries (lo : Nat) (blk : List (List Int)) : Pixels := (blk.zipIdx lo).flatMap rowEntries

/-- `for lo, hi in partition(0, n_bins, chunksize)` -/
def chunkRows (c : Nat) : Nat → Nat → List (List Int) → List Pixels
  | 0, _, _ => []
  | fuel + 1, lo, rows =>
    if rows = [] then []
    else blockEntries lo (rows.take c) :: chunkRows c fuel (lo + c) (rows.drop c)

/-- `ArrayLoader(bins, A, chunksize)` as a chunk stream -/
def arrayLoader (A : List (List Int)) (c : Nat) : List Pixels := chunkRows c A.length 0 A

/-- L0: the upper triangle of the dense matrix as a row-major sparse list -/
def triuNonzero (A : List (List Int)) : Pixels := (A.zipIdx).flatMap rowEntries

def keyLe (p q : Px) : Bool := decide (p.i < q.i) || (decide (p.i = q.i) && decide (p.j ≤ q.j))

/-- `pd.DataFrame(pixels).sort_values(["bin1_id", "bin2_id"])` (keys are distinct for valid input, so
the sorted order is unique whatever the algorithm) -/
def sortByKey (ps : Pixels) : Pixels := ps.mergeSort keyLe

/-- `create_cooler(uri, bins, frame_or_dict)`: sort, then ordered creation from one chunk -/
def createFromFrame (nchroms : Nat) (binChrom : List Nat) (symm : Bool) (ps : Pixels) : Stored :=
  createStore nchroms binChrom symm [sortByKey ps]

/-- `Cooler.pixels()[lo:hi]` on the stored table -/
def pixelsSlice (s : Stored) (lo hi : Nat) : Pixels := slicePx s.px lo hi

def fullBox (n : Nat) : Box := ⟨0, n, 0, n⟩

end Cooler.Create
