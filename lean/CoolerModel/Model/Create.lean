import CoolerModel.Model.Index
/-!
Model of the input side of creation (property C01): the dense-array loader (`ArrayLoader`), the
data-frame/dict branch of `create_cooler` (sort by key, then ordered creation) and the readers
`pixels()[lo:hi]`, full-matrix query.
-/
namespace Cooler.Create
open Cooler

/-- non-zero upper-triangle entries of one dense row `i`, in column order
(`i, j = np.nonzero(X); mask = (lo + i) <= j`) -/
def rowEntries (ri : List Int × Nat) : Pixels :=
  (ri.1.zipIdx).filterMap fun vj => if vj.1 ≠ 0 ∧ ri.2 ≤ vj.2 then some ⟨ri.2, vj.2, vj.1⟩ else none

/-- one chunk of `ArrayLoader.__iter__`: rows `[lo, lo + |blk|)`, row-major -/
def blockEntries (lo : Nat) (blk : List (List Int)) : Pixels := (blk.zipIdx lo).flatMap rowEntries

/-- `for lo, hi in partition(0, n_bins, chunksize)` -/
def chunkRows (c : Nat) : Nat → Nat → List (List Int) → List Pixels
  | 0, _, _ => []
  | fuel + 1, lo, rows =>
    if rows = [] then []
    else blockEntries lo (rows.take c) :: chunkRows c fuel (lo + c) (rows.drop c)

/-- `ArrayLoader(bins, A, chunksize)` as a chunk stream -/
def arrayLoader (A : List (List Int)) (c : Nat) : List Pixels := chunkRows c A.length 0 A

/-- L0: the upper triangle of the dense matrix as a row-major sparse list -/
def triuNonzero (A : List (List Int)) : Pixels := (A.zipIdx).flatMap rowEntries

def keyLe (p q : Px) : Bool := decide (p.i < q.i) || (decide (p.i = q.i) && decide (p.j ≤ q.j))

/-- `pd.DataFrame(pixels).sort_values(["bin1_id", "bin2_id"])` (keys are distinct for valid input, so
the sorted order is unique whatever the algorithm) -/
def sortByKey (ps : Pixels) : Pixels := ps.mergeSort keyLe

/-- `create_cooler(uri, bins, frame_or_dict)`: sort, then ordered creation from one chunk -/
def createFromFrame (nchroms : Nat) (binChrom : List Nat) (symm : Bool) (ps : Pixels) : Stored :=
  createStore nchroms binChrom symm [sortByKey ps]

/-- `Cooler.pixels()[lo:hi]` on the stored table -/
def pixelsSlice (s : Stored) (lo hi : Nat) : Pixels := slicePx s.px lo hi

def fullBox (n : Nat) : Box := ⟨0, n, 0, n⟩

/-! ### integer value columns: what the column's dtype can hold

The model stores unbounded integers.  The file stores an integer of `bits` bits; HDF5's own conversion
of an out-of-range integer SATURATES (`clipInt`), so `write_pixels` checks the values first
(`_check_fits_dtype`) and refuses the chunk: `checkedWrite`. -/

def dtypeLo (signed : Bool) (bits : Nat) : Int := if signed then -(2 ^ (bits - 1) : Int) else 0
def dtypeHi (signed : Bool) (bits : Nat) : Int := if signed then (2 ^ (bits - 1) : Int) - 1 else (2 ^ bits : Int) - 1

def fitsInt (signed : Bool) (bits : Nat) (v : Int) : Bool :=
  decide (dtypeLo signed bits ≤ v) && decide (v ≤ dtypeHi signed bits)

/-- what an unchecked HDF5 write of `v` into the column would leave there -/
def clipInt (signed : Bool) (bits : Nat) (v : Int) : Int :=
  if v < dtypeLo signed bits then dtypeLo signed bits
  else if dtypeHi signed bits < v then dtypeHi signed bits else v

/-- the checked write of one value column: the values themselves, or a refusal (`ValueError`) -/
def checkedWrite (signed : Bool) (bits : Nat) (vs : List Int) : Option (List Int) :=
  if vs.all (fitsInt signed bits) then some vs else none

end Cooler.Create
