import CoolerModel.Basic
/-!
Model of the bin-table layer (`cooler.util.binnify`, `get_binsize`, `get_chromsizes`,
`GenomeSegmentation.fetch`/`bedslice`, `core._rangequery._region_to_extent`,
`util.parse_region`).  Properties C20 and C04.

A bin table is a flat `List Bin`; the per-chromosome view the code obtains with
`groupby("chrom")` is `groups`.
-/
namespace Cooler

/-! ### binnify -/

/-- `ceil(L / b)` as the code computes it (`int(np.ceil(clen / binsize))`), for `b ≥ 1` -/
def ceilDiv (L b : Nat) : Nat := (L + b - 1) / b

/-- `binedges = arange(0, n_bins + 1) * binsize; binedges[-1] = clen` -/
def binEdges (L b : Nat) : List Nat :=
  ((List.range (ceilDiv L b)).map (· * b)) ++ [L]

/-- bins of one chromosome: `zip(binedges[:-1], binedges[1:])` -/
def binnifyChrom (c L b : Nat) : List Bin :=
  let e := binEdges L b
  (e.zip e.tail).map fun st => ⟨c, st.1, st.2⟩

/-- `util.binnify(chromsizes, binsize)`; chromosome ids are positions in `sizes` -/
def binnifyFrom (c0 : Nat) : List Nat → Nat → BinTable
  | [], _ => []
  | L :: rest, b => binnifyChrom c0 L b ++ binnifyFrom (c0 + 1) rest b

def binnify (sizes : List Nat) (b : Nat) : BinTable := binnifyFrom 0 sizes b

/-- L0: the tiling the property promises for one chromosome -/
def tilingSpec (c L b : Nat) : List Bin :=
  (List.range (ceilDiv L b)).map fun k => ⟨c, k * b, min ((k + 1) * b) L⟩

def binnifySpecFrom (c0 : Nat) : List Nat → Nat → BinTable
  | [], _ => []
  | L :: rest, b => tilingSpec c0 L b ++ binnifySpecFrom (c0 + 1) rest b

/-! ### per-chromosome groups -/

/-- chromosome ids in order of first appearance -/
def chromOrder : BinTable → List Nat
  | [] => []
  | b :: rest => b.chrom :: (chromOrder rest).filter (· ≠ b.chrom)

/-- rows of chromosome `c`, in table order (one `groupby` group) -/
def groupOf (bins : BinTable) (c : Nat) : List Bin := bins.filter (·.chrom = c)

/-- `bins.groupby("chrom")` restricted to observed chromosomes (iteration order is irrelevant to
every consumer modelled here) -/
def groups (bins : BinTable) : List (List Bin) := (chromOrder bins).map (groupOf bins)

/-! ### get_binsize (repaired: see known_findings D1) -/

def widths (g : List Bin) : List Nat := g.map Bin.width

/-- `(group.end - group.start).iloc[:-1]` -/
def nonLastWidths (g : List Bin) : List Nat := (widths g).dropLast

/-- width of the last bin of a group (0 for an empty group) -/
def lastWidth (g : List Bin) : Nat := (widths g).getLast?.getD 0

/-- `util.get_binsize` on the groups: the set of non-last widths has exactly one element `w`
    and no last bin is wider than `w` -/
def getBinsizeG (gs : List (List Bin)) : Option Nat :=
  match gs.flatMap nonLastWidths with
  | [] => none
  | w :: ws => if ws.all (· == w) && gs.all (fun g => decide (lastWidth g ≤ w)) then some w else none

def getBinsize (bins : BinTable) : Option Nat := getBinsizeG (groups bins)

/-- the pre-repair behaviour (used by the failing-input search to explain a regression) -/
def getBinsizeLegacyG (gs : List (List Bin)) : Option Nat :=
  match gs.flatMap nonLastWidths with
  | [] => none
  | w :: ws => if ws.all (· == w) then some w else none

/-! ### get_chromsizes -/

def lastStop (g : List Bin) : Nat := (g.map Bin.stop).getLast?.getD 0

/-- `bins.drop_duplicates(["chrom"], keep="last")[["chrom","end"]]`: the rows with no later row of
the same chromosome, in table order -/
def getChromsizes : BinTable → List (Nat × Nat)
  | [] => []
  | b :: rest =>
    if rest.any (·.chrom == b.chrom) then getChromsizes rest
    else (b.chrom, b.stop) :: getChromsizes rest

/-! ### well-formedness -/

/-- consecutive bins starting at `s`, each non-empty -/
def TilesFrom : Nat → List Bin → Prop
  | _, [] => True
  | s, b :: rest => b.start = s ∧ b.start < b.stop ∧ TilesFrom b.stop rest

instance decTilesFrom : (s : Nat) → (g : List Bin) → Decidable (TilesFrom s g)
  | _, [] => isTrue trivial
  | s, b :: rest => by
    unfold TilesFrom
    have := decTilesFrom b.stop rest
    exact inferInstance

/-- one chromosome of a complete genome segmentation -/
def ValidChrom (g : List Bin) : Prop := g ≠ [] ∧ TilesFrom 0 g

instance (g : List Bin) : Decidable (ValidChrom g) := by unfold ValidChrom; exact inferInstance

/-- bin `k`, `k+1`, … of the uniform tiling of a chromosome of length `L` with width `b` -/
def UniformFrom (b L : Nat) : Nat → List Bin → Prop
  | _, [] => True
  | k, x :: rest => x.start = k * b ∧ x.stop = min ((k + 1) * b) L ∧ UniformFrom b L (k + 1) rest

instance decUniformFrom (b L : Nat) : (k : Nat) → (g : List Bin) → Decidable (UniformFrom b L k g)
  | _, [] => isTrue trivial
  | k, x :: rest => by
    unfold UniformFrom
    have := decUniformFrom b L (k + 1) rest
    exact inferInstance

/-- C20's wording: every bin is `[k·b, min((k+1)·b, length))` -/
def UniformChrom (b : Nat) (g : List Bin) : Prop := UniformFrom b (lastStop g) 0 g

instance (b : Nat) (g : List Bin) : Decidable (UniformChrom b g) := by
  unfold UniformChrom; exact inferInstance

/-- chromosome ids are non-decreasing along the table (`write_bins` stores them as sorted enum
codes); in particular the rows of one chromosome are adjacent -/
def chromSortedB : BinTable → Bool
  | [] => true
  | [_] => true
  | a :: b :: rest => decide (a.chrom ≤ b.chrom) && chromSortedB (b :: rest)

def validSegmentationB (bins : BinTable) : Bool :=
  chromSortedB bins && (groups bins).all (fun g => decide (ValidChrom g))

/-! ### region → bin extent (`_region_to_extent`) -/

/-- `indexes/chrom_offset`: number of bins on chromosomes `< c`, for `c = 0..nchroms` -/
def chromOffsets (bins : BinTable) (nchroms : Nat) : List Nat :=
  (List.range (nchroms + 1)).map fun c => bins.countP (·.chrom < c)

/-- fixed-width path: `off + floor(start / b)`, `off + ceil(end / b)` -/
def extentFixed (off b s e : Nat) : Nat × Nat := (off + s / b, off + ceilDiv e b)

/-- variable-width path: `lo + searchsorted(starts, s, "right") - 1`, `lo + searchsorted(starts, e, "left")`.
    The subtraction is on (signed/wrapping) integers in the code; `starts[0] = 0 ≤ s` makes it ≥ 0. -/
def extentVar (off : Nat) (starts : List Nat) (s e : Nat) : Int × Nat :=
  ((off : Int) + (ssRight starts s : Int) - 1, off + ssLeft starts e)

/-- `_region_to_extent` given the stored bin-size attribute -/
def regionToExtent (bins : BinTable) (binsize : Option Nat) (c s e : Nat) : Int × Nat :=
  let off := bins.countP (·.chrom < c)
  match binsize with
  | some b => let r := extentFixed off b s e; ((r.1 : Int), r.2)
  | none => extentVar off ((groupOf bins c).map Bin.start) s e

/-- L0: bins of chromosome `c` overlapping `[s, e)`, as absolute bin ids -/
def overlapping (bins : BinTable) (c s e : Nat) : List Nat :=
  (List.range bins.length).filter fun k =>
    match bins[k]? with
    | some b => b.chrom == c && decide (b.start < e) && decide (s < b.stop)
    | none => false

/-- `parse_region` on a triple with optional ends against a chromosome length -/
def parseRegionTriple (clen : Option Nat) (s : Option Int) (e : Option Int) : Except Err (Nat × Nat) :=
  let s' : Int := s.getD 0
  match (match e with | some e => some e | none => clen.map Int.ofNat) with
  | none => .error .value
  | some e' =>
    if e' < s' then .error .value
    else if s' < 0 then .error .value
    else match clen with
      | some L => if e' > L then .error .value else .ok (s'.toNat, e'.toNat)
      | none => .ok (s'.toNat, e'.toNat)

/-- `GenomeSegmentation.fetch` / `bedslice` on one chromosome group: positions (within the group)
    `[lo, hi)` selected -/
def gsFetch (g : List Bin) (clen s e : Nat) : Nat × Nat :=
  if s > 0 ∨ e < clen then
    let lo := ssRight (g.map Bin.stop) s
    let hi := lo + ssLeft ((g.map Bin.start).drop lo) e
    (lo, hi)
  else (0, g.length)

end Cooler
