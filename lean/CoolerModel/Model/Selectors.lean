import CoolerModel.Basic
/-!
Model of the table-selector layer: `core/_selectors.py` (`_IndexingMixin._process_slice`,
`RangeSelector1D.__getitem__`), `core/_tableops.py` (`get`), and of `api.py` `chroms`, `bins`,
`pixels`, `annotate`.  Properties C14 (everything) and C03 (`processSlice`, `processScalar`).

Core Lean only.  Section 1 (namespace `Cooler`) is shared vocabulary: the normalisation of a
subscript.  Sections 2–6 live in namespace `Cooler.Tbl` so that the generic names (`Val`, `Row`,
`Frame`) cannot collide with another model file.

Conventions.  Exceptions are `Except Err`; every partial step is written as an explicit *guard*
(returning the error the code raises) followed by total list operations, so that the data path is a
plain `List.map` / `drop` / `take`.  Defaults (`getD`) appear only behind such a guard.
-/
namespace Cooler

/-! ## 1. Subscripts: `_process_slice` (shared with C03) -/

/-- One bound of a slice exactly as `_IndexingMixin._process_slice` rewrites it:
`None ↦ dflt`, a negative bound `k ↦ nmax + k`, anything else unchanged.  **No clamping**: the
result is in `[0, nmax]` only for `k ∈ [-nmax, nmax]` (theorem `C14.processSlice_spec`). -/
def normBound (n : Nat) (dflt : Int) : Option Int → Int
  | none => dflt
  | some k => if k < 0 then (n : Int) + k else k

/-- `_process_slice(slice(lo, hi), nmax)` for step `None`/1: `(i0, i1)`.
Integers because the code does not clamp (`sel[-9:]` with `nmax = 8` gives `i0 = -1`). -/
def processSlice (n : Nat) (lo hi : Option Int) : Int × Int :=
  (normBound n 0 lo, normBound n n hi)

/-- `_process_slice(k, nmax)` for an integer `k`: `s = k + nmax if k < 0 else k`;
`IndexError` iff `s ≥ nmax`; otherwise `(s, s + 1)` (for `k < -nmax` the code does *not* raise and
returns a negative pair: outside every property's domain). -/
def processScalar (n : Nat) (k : Int) : Except Err (Int × Int) :=
  let s := if k < 0 then k + (n : Int) else k
  if s ≥ (n : Int) then .error .index else .ok (s, s + 1)

/-- a row subscript: `slice(lo, hi, step)` or an integer -/
inductive RowKey
  | slice (lo hi : Option Int) (step : Option Int)
  | scalar (k : Int)
deriving DecidableEq, Repr, Inhabited

/-- `_process_slice(s, nmax)`: `ValueError` for a step other than `None`/1 -/
def processKey (n : Nat) : RowKey → Except Err (Int × Int)
  | .slice lo hi step =>
    if step = none ∨ step = some 1 then .ok (processSlice n lo hi) else .error .value
  | .scalar k => processScalar n k

/-- one bound of Python's `slice(lo, hi).indices(n)` (step 1): the explicit clamping formula -/
def clampBound (n : Nat) (dflt : Nat) : Option Int → Nat
  | none => dflt
  | some k =>
    if k < 0 then (if k + (n : Int) < 0 then 0 else (k + (n : Int)).toNat)
    else (if k > (n : Int) then n else k.toNat)

/-- `slice(lo, hi).indices(n)[:2]`: what `dset[lo:hi]` / `list[lo:hi]` reads (the rows
`a ≤ r < b`; none when `b ≤ a`) -/
def pySliceIndices (n : Nat) (lo hi : Option Int) : Nat × Nat :=
  (clampBound n 0 lo, clampBound n n hi)

/-- the in-domain bounds of C03/C14: `None` or an integer in `[-n, n]` -/
def InDom (n : Nat) : Option Int → Prop
  | none => True
  | some k => -(n : Int) ≤ k ∧ k ≤ (n : Int)

instance (n : Nat) (b : Option Int) : Decidable (InDom n b) := by
  cases b <;> unfold InDom <;> exact inferInstance

/-- the widened domain: `None` or any integer `≥ -n` — a bound beyond the end is clipped by the read
(`dset[lo:hi]`), exactly as Python clips `list[lo:hi]`; only literals below `-n` stay outside -/
def InDomW (n : Nat) : Option Int → Prop
  | none => True
  | some k => -(n : Int) ≤ k

instance (n : Nat) (b : Option Int) : Decidable (InDomW n b) := by
  cases b <;> unfold InDomW <;> exact inferInstance

namespace Tbl

/-- decidable equality of results, so that closed examples can be checked by `decide` -/
instance decEqExcept {ε α} [DecidableEq ε] [DecidableEq α] : DecidableEq (Except ε α)
  | .ok a, .ok b => if h : a = b then isTrue (by rw [h]) else isFalse (fun h' => h (by cases h'; rfl))
  | .error a, .error b => if h : a = b then isTrue (by rw [h]) else isFalse (fun h' => h (by cases h'; rfl))
  | .ok _, .error _ => isFalse (fun h => by cases h)
  | .error _, .ok _ => isFalse (fun h => by cases h)

/-! ## 2. Tables and `get` -/

/-- one cell.  `flt` carries a float by its shortest `repr`; the model only ever moves cells. -/
inductive Val
  | int (i : Int)
  | str (s : String)
  | flt (repr : String)
  | nan
deriving DecidableEq, Repr, Inhabited

abbrev Row := List Val

/-- how a stored column is encoded: integers (`is_integer_dtype`), an HDF5 enum with its
name ↦ code header (cells are the codes), anything else (floats, fixed-length bytes — bytes are
decoded to `str`, which is the identity here) -/
inductive Enc
  | int
  | other
  | enum (dict : List (String × Int))
deriving DecidableEq, Repr, Inhabited

/-- an HDF5 group of equal-length 1-D datasets, row-major; `cols` in `grp.keys()` order -/
structure Stored where
  cols : List (String × Enc)
  rows : List Row
deriving DecidableEq, Repr, Inhabited

def Stored.names (t : Stored) : List String := t.cols.map (·.1)

/-- a `DataFrame` (or a `Series`: one column, `series = true`): column names, index labels, rows -/
structure Frame where
  cols : List String
  index : List Int
  rows : List Row
  series : Bool
deriving DecidableEq, Repr, Inhabited

/-- `np.arange(l0, l0 + n)` -/
def labels (l0 : Int) (n : Nat) : List Int := (List.range n).map fun (k : Nat) => l0 + (k : Int)

/-- position of the first column named `f` -/
def colIdx : List String → String → Option Nat
  | [], _ => none
  | c :: cs, f => if c = f then some 0 else (colIdx cs f).map (· + 1)

/-- `grp[f]`: position and encoding of the stored column `f` -/
def lookupCol : List (String × Enc) → String → Option (Nat × Enc)
  | [], _ => none
  | (c, e) :: cs, f => if c = f then some (0, e) else (lookupCol cs f).map fun p => (p.1 + 1, p.2)

/-- stable insertion of one `(name, code)` item into a list sorted by code -/
def insertCode (x : String × Int) : List (String × Int) → List (String × Int)
  | [] => [x]
  | y :: ys => if x.2 ≤ y.2 then x :: y :: ys else y :: insertCode x ys

/-- the enum header sorted by code (structural insertion sort, so that it reduces in the kernel) -/
def sortByCode : List (String × Int) → List (String × Int)
  | [] => []
  | x :: xs => insertCode x (sortByCode xs)

/-- `sorted(dt, key=dt.__getitem__)`: the enum's names in increasing order of their codes -/
def categoriesOf (dict : List (String × Int)) : List String := (sortByCode dict).map (·.1)

/-- the enum header `write_bins` stores: `dict(zip(chromnames, range(n_chroms)))`, from code `k` on -/
def idmapFrom (k : Int) : List String → List (String × Int)
  | [] => []
  | s :: rest => (s, k) :: idmapFrom (k + 1) rest

/-- guard of `pd.Categorical.from_codes(codes, cats)`: every code is `-1` or in `[0, len(cats))` -/
def codeOk (cats : List String) : Val → Bool
  | .int c => c == -1 || (decide (0 ≤ c) && decide (c < (cats.length : Int)))
  | _ => false

/-- value of `pd.Categorical.from_codes(codes, cats)` at one cell: `cats[c]`, `NaN` for `-1` -/
def fromCode (cats : List String) : Val → Val
  | .int c => if c < 0 then .nan else match cats[c.toNat]? with
    | some s => .str s
    | none => .nan
  | _ => .nan

/-- can cell `f` of row `r` be produced (column present, row long enough, enum code decodable) -/
def cellOk (t : Stored) (r : Row) (f : String) : Bool :=
  match lookupCol t.cols f with
  | some (k, .enum d) => match r[k]? with
    | some v => codeOk (categoriesOf d) v
    | none => false
  | some (k, _) => (r[k]?).isSome
  | none => false

/-- cell `f` of row `r` as `get` returns it (enum codes → names when `convert_enum`) -/
def cell (t : Stored) (r : Row) (f : String) : Val :=
  match lookupCol t.cols f with
  | some (k, .enum d) => fromCode (categoriesOf d) (r.getD k .nan)
  | some (k, _) => r.getD k .nan
  | none => .nan

/-- `core._tableops.get(grp, lo, hi, fields)` with `fields` a list (`series = false`) or a single
name (`fs = [f]`, `series = true`); `convert_enum=True`, `as_dict=False`.
* `grp[field]` for a missing field: `KeyError`;
* every column is read with `dset[lo:hi]` (Python slice semantics: `pySliceIndices`);
* an undecodable enum code in the range read: `ValueError` (`Categorical.from_codes`);
* no field at all: `data` is empty, so `index=None` and the frame has no rows;
* otherwise `index = np.arange(lo, lo + len(first column read))`. -/
def tableGet (t : Stored) (lo : Int) (hi : Option Int) (fs : List String) (series : Bool) :
    Except Err Frame :=
  if !(fs.all fun f => (lookupCol t.cols f).isSome) then .error .key
  else
    let ab := pySliceIndices t.rows.length (some lo) hi
    let raw := (t.rows.drop ab.1).take (ab.2 - ab.1)
    if !(raw.all fun r => fs.all fun f => cellOk t r f) then .error .value
    else if fs.isEmpty then .ok ⟨[], [], [], series⟩
    else .ok ⟨fs, labels lo raw.length, raw.map (fun r => fs.map (cell t r)), series⟩

/-! ## 3. `api.chroms`, `api.bins` and the selectors' column argument -/

/-- the `fields` argument: `None`, a single name (Series result), a list of names -/
inductive Fields
  | default
  | one (f : String)
  | many (fs : List String)
deriving DecidableEq, Repr, Inhabited

/-- `pd.Index(std).append(pd.Index(grp.keys())).drop_duplicates()` for `fields=None`; the list of
columns to read and whether the result is a Series -/
def Fields.resolve (std keys : List String) : Fields → List String × Bool
  | .default => (std ++ keys.filter (fun k => !std.contains k), false)
  | .one f => ([f], true)
  | .many fs => (fs, false)

def chromsStd : List String := ["name", "length"]
def binsStd : List String := ["chrom", "start", "end"]
def pixelsStd : List String := ["bin1_id", "bin2_id"]

/-- `api.chroms(h5, lo, hi, fields)` -/
def chromsGet (t : Stored) (lo : Int) (hi : Option Int) (fields : Fields) : Except Err Frame :=
  let fs := fields.resolve chromsStd t.names
  tableGet t lo hi fs.1 fs.2

/-- `p in s` for two `str` (substring test) — only used by the pre-repair `binsGetLegacy` -/
def isInfixChars (p : List Char) : List Char → Bool
  | [] => p.isEmpty
  | c :: cs => p.isPrefixOf (c :: cs) || isInfixChars p cs
def isSubstr (pat s : String) : Bool := isInfixChars pat.toList s.toList

/-- the tail of `api.bins`: when the column regarded as the chromosome column (`target = (name,
position in the frame)`) is stored as plain integers (no enum header) its cells are converted with
`pd.Categorical.from_codes(col, chroms/name)` -/
def binsDecode (t : Stored) (chromNames : List String) (target : Option (String × Nat))
    (out : Frame) : Except Err Frame :=
  match target with
  | none => .ok out
  | some (name, j) =>
    match lookupCol t.cols name with
    | some (_, .int) =>
      if !(out.rows.all fun r => codeOk chromNames (r.getD j .nan)) then .error .value
      else .ok { out with rows := out.rows.map fun r => r.set j (fromCode chromNames (r.getD j .nan)) }
    | _ => .ok out

/-- `api.bins(h5, lo, hi, fields)` as repaired by 1a9d164 (known_findings D20): the chromosome
column is `"chrom"` itself — `fields == "chrom"` for a single name, `"chrom" in fields` for a list.
`chromNames` is the whole `chroms/name` column. -/
def binsGet (t : Stored) (chromNames : List String) (lo : Int) (hi : Option Int) (fields : Fields) :
    Except Err Frame :=
  let fs := fields.resolve binsStd t.names
  match tableGet t lo hi fs.1 fs.2 with
  | .error e => .error e
  | .ok out =>
    let target : Option (String × Nat) := match fields with
      | .one f => if f = "chrom" then some ("chrom", 0) else none
      | _ => (colIdx fs.1 "chrom").map fun j => ("chrom", j)
    binsDecode t chromNames target out

/-- the pre-repair `api.bins`: `"chrom" in fields` with `fields` a `str` is a *substring* test, so
a single integer column whose name contains "chrom" was converted to chromosome names -/
def binsGetLegacy (t : Stored) (chromNames : List String) (lo : Int) (hi : Option Int)
    (fields : Fields) : Except Err Frame :=
  let fs := fields.resolve binsStd t.names
  match tableGet t lo hi fs.1 fs.2 with
  | .error e => .error e
  | .ok out =>
    let target : Option (String × Nat) := match fields with
      | .one f => if isSubstr "chrom" f then some (f, 0) else none
      | _ => (colIdx fs.1 "chrom").map fun j => ("chrom", j)
    binsDecode t chromNames target out

/-- the bin-table selector `Cooler.bins()[cols]`: stored table, `chroms/name`, column argument and
`nmax = info["nbins"]` -/
structure BinsSel where
  t : Stored
  chromNames : List String
  fields : Fields
  nmax : Nat
deriving DecidableEq, Repr, Inhabited

/-- `RangeSelector1D.__getitem__` with a row key on the bin selector -/
def BinsSel.getRows (s : BinsSel) (key : RowKey) : Except Err Frame :=
  match processKey s.nmax key with
  | .error e => .error e
  | .ok (lo, hi) => binsGet s.t s.chromNames lo (some hi) s.fields

/-! ## 4. `api.annotate` -/

/-- `df.iloc[a:b]` for `0 ≤ a`, `0 ≤ b` -/
def framePart (f : Frame) (a b : Nat) : Frame :=
  { f with index := (f.index.drop a).take (b - a), rows := (f.rows.drop a).take (b - a) }

/-- `df.loc[beg:end]` (end-inclusive label slice, `end = None` open) on a frame whose integer index
is increasing: pandas takes positions `searchsorted(beg, "left") .. searchsorted(end, "right")` -/
def locSliceFrame (f : Frame) (beg : Int) (end_ : Option Int) : Frame :=
  let start := f.index.countP fun l => decide (l < beg)
  let stop := match end_ with
    | none => f.index.length
    | some e => f.index.countP fun l => decide (l ≤ e)
  framePart f start stop

/-- the `bins` argument of `annotate`: a data frame or a bin-table selector -/
inductive BinsArg
  | frame (f : Frame)
  | selector (s : BinsSel)
deriving DecidableEq, Repr, Inhabited

/-- `len(bins)`: rows of the frame; `nmax` of the selector -/
def BinsArg.len : BinsArg → Nat
  | .frame f => f.rows.length
  | .selector s => s.nmax

/-- `_loc_slice(bins, beg, end)`: `df.loc[beg:end]`, or `sel[beg : end + 1 if end is not None else None]` -/
def locSlice : BinsArg → Int → Option Int → Except Err Frame
  | .frame f, b, e => .ok (locSliceFrame f b e)
  | .selector s, b, e => s.getRows (.slice (some b) (e.map (· + 1)) none)

/-- an integer cell of column `k` (`pixels["bin1_id"].to_numpy().astype(np.int64, casting="safe")`) -/
def idOf (k : Nat) (r : Row) : Option Int :=
  match r[k]? with
  | some (.int i) => some i
  | _ => none

/-- `iloc` accepts positions in `[-n, n)` (else `IndexError`) … -/
def ilocOk (n : Nat) (p : Int) : Bool := decide (-(n : Int) ≤ p) && decide (p < (n : Int))
/-- … and negative ones count from the end -/
def ilocPos (n : Nat) (p : Int) : Nat := if p < 0 then (p + (n : Int)).toNat else p.toNat

/-- the bin window `[bmin, bmax]` one block of `annotate` asks for: `0..0` without pixels; the
min/max of the ids when `len(bins) > len(pixels)`; else everything from label 0 (`bmax = None`) -/
def annotateWindow (binsLen : Nat) (ids : List Int) : Int × Option Int :=
  match ids with
  | [] => (0, some 0)
  | i :: rest =>
    if binsLen > ids.length then (rest.foldl min i, some (rest.foldl max i)) else (0, none)

/-- `ann.index[0] if len(ann) else 0` -/
def firstLabel : List Int → Int
  | [] => 0
  | l :: _ => l

/-- one `if "binK_id" in columns:` block of `annotate` for the id column `ids`:
the strategy switch on `len(bins) > len(pixels)`, the window, the offset `ann.index[0]` (0 when
the window is empty), the positional take, the renamed columns -/
def annotateSide (bins : BinsArg) (suffix : String) (ids : List Int) :
    Except Err (List String × List Row) :=
  let win := annotateWindow bins.len ids
  match locSlice bins win.1 win.2 with
  | .error e => .error e
  | .ok ann =>
    let offset := firstLabel ann.index
    if !(ids.all fun b => ilocOk ann.rows.length (b - offset)) then .error .index
    else .ok (ann.cols.map (· ++ suffix),
              ids.map fun b => ann.rows.getD (ilocPos ann.rows.length (b - offset)) [])

/-- the block for column `name`; absent column: nothing is adjoined (modelled as zero-width rows) -/
def annotateCol (px : Frame) (bins : BinsArg) (name suffix : String) :
    Except Err (List String × List Row) :=
  match colIdx px.cols name with
  | none => .ok ([], px.rows.map fun _ => [])
  | some k =>
    if !(px.rows.all fun r => (idOf k r).isSome) then .error .other
    else annotateSide bins suffix (px.rows.map fun r => (idOf k r).getD 0)

/-- columns kept from the pixel frame: all, or all but the id columns when `replace` -/
def keepMask (cols : List String) (replace : Bool) : List Bool :=
  cols.map fun c => !(replace && (c == "bin1_id" || c == "bin2_id"))

def maskRow {α} (mask : List Bool) (r : List α) : List α :=
  ((r.zip mask).filter (·.2)).map (·.1)

/-- `pd.concat([a, b], axis=1)` of two frames with the same `0..m-1` index -/
def hcat (a b : List Row) : List Row := List.zipWith (· ++ ·) a b

/-- `cooler.annotate(pixels, bins, replace)` -/
def annotate (px : Frame) (bins : BinsArg) (replace : Bool) : Except Err Frame :=
  match annotateCol px bins "bin1_id" "1" with
  | .error e => .error e
  | .ok a1 =>
    match annotateCol px bins "bin2_id" "2" with
    | .error e => .error e
    | .ok a2 =>
      let mask := keepMask px.cols replace
      .ok { cols := a1.1 ++ a2.1 ++ maskRow mask px.cols
            index := px.index
            rows := hcat (hcat a1.2 a2.2) (px.rows.map (maskRow mask))
            series := false }

/-! ### L0: what annotation promises -/

/-- `List.mapM` for `Except`, structurally -/
def mapE {α β ε} (f : α → Except ε β) : List α → Except ε (List β)
  | [] => .ok []
  | x :: xs => match f x with
    | .error e => .error e
    | .ok y => match mapE f xs with
      | .error e => .error e
      | .ok ys => .ok (y :: ys)

/-- the annotated form of one pixel row: the row of its first bin, the row of its second bin, its
own (kept) cells -/
def specRow (binRows : List Row) (k1 k2 : Nat) (mask : List Bool) (r : Row) : Except Err Row :=
  match idOf k1 r, idOf k2 r with
  | some i, some j =>
    if i < 0 ∨ j < 0 then .error .index
    else match binRows[i.toNat]?, binRows[j.toNat]? with
      | some bi, some bj => .ok (bi ++ bj ++ maskRow mask r)
      | _, _ => .error .index
  | _, _ => .error .other

/-- L0 of `annotate` against the whole bin table (`binCols`, `binRows`, bin id = row number), for a
pixel frame that has both id columns -/
def annotateSpec (binCols : List String) (binRows : List Row) (px : Frame) (replace : Bool) :
    Except Err Frame :=
  match colIdx px.cols "bin1_id", colIdx px.cols "bin2_id" with
  | some k1, some k2 =>
    let mask := keepMask px.cols replace
    match mapE (specRow binRows k1 k2 mask) px.rows with
    | .error e => .error e
    | .ok rows =>
      .ok { cols := binCols.map (· ++ "1") ++ binCols.map (· ++ "2") ++ maskRow mask px.cols
            index := px.index, rows := rows, series := false }
  | _, _ => .error .key

/-! ## 5. `api.pixels` and the generic selector -/

/-- `api.pixels(h5, lo, hi, fields, join)`; with `join` the rows are annotated against
`get(h5["bins"], 0, None, ["chrom", "start", "end"])` with `replace=True` -/
def pixelsGet (t bins : Stored) (lo : Int) (hi : Option Int) (fields : Fields) (join : Bool) :
    Except Err Frame :=
  let fs := fields.resolve pixelsStd t.names
  match tableGet t lo hi fs.1 fs.2 with
  | .error e => .error e
  | .ok df =>
    if join then
      match tableGet bins 0 none binsStd false with
      | .error e => .error e
      | .ok b => annotate df (.frame b) true
    else .ok df

/-- what a `RangeSelector1D` made by `Cooler.chroms() / bins() / pixels(join)` reads from -/
inductive Src
  | chroms (t : Stored)
  | bins (t : Stored) (chromNames : List String)
  | pixels (t bins : Stored) (join : Bool)
deriving DecidableEq, Repr, Inhabited

structure Selector where
  src : Src
  fields : Fields
  nmax : Nat
deriving DecidableEq, Repr, Inhabited

/-- the selector's `_slice(self.fields, lo, hi)` -/
def Selector.slice (s : Selector) (lo hi : Int) : Except Err Frame :=
  match s.src with
  | .chroms t => chromsGet t lo (some hi) s.fields
  | .bins t names => binsGet t names lo (some hi) s.fields
  | .pixels t b join => pixelsGet t b lo (some hi) s.fields join

/-- a subscript of a selector: a column name / list of names, or a row key -/
inductive Key
  | col (f : String)
  | cols (fs : List String)
  | rows (k : RowKey)
  | tuple (ks : List RowKey)
deriving DecidableEq, Repr, Inhabited

/-- a row key of a selector: `_process_slice`, then the slicer -/
def selectorRows (s : Selector) (k : RowKey) : Except Err (Sum Selector Frame) :=
  match processKey s.nmax k with
  | .error e => .error e
  | .ok (lo, hi) => match s.slice lo hi with
    | .error e => .error e
    | .ok f => .ok (.inr f)

/-- `RangeSelector1D.__getitem__`: a column key gives a new selector over the same table (the new
key *replaces* `fields`); a row key is normalised by `_process_slice` and read; a 1-tuple is its
element, any other tuple `IndexError("too many indices for table")` -/
def selectorGetItem (s : Selector) : Key → Except Err (Sum Selector Frame)
  | .col f => .ok (.inl { s with fields := .one f })
  | .cols fs => .ok (.inl { s with fields := .many fs })
  | .rows k => selectorRows s k
  | .tuple [k] => selectorRows s k
  | .tuple _ => .error .index

/-- `sel[k]` for a row key -/
def Selector.getRows (s : Selector) (k : RowKey) : Except Err Frame :=
  match selectorGetItem s (.rows k) with
  | .ok (.inr f) => .ok f
  | .ok (.inl _) => .error .other
  | .error e => .error e

/-! ## 6. L0 helpers: column projection of a frame (`df[cols]`) -/

/-- `df[fs]` -/
def Frame.project (f : Frame) (fs : List String) : Except Err Frame :=
  if !(fs.all fun c => (colIdx f.cols c).isSome) then .error .key
  else .ok { f with cols := fs
                    rows := f.rows.map fun r => fs.map fun c => r.getD ((colIdx f.cols c).getD 0) .nan }

/-- a stored table is well formed: distinct column names, rectangular, every enum code decodable -/
structure Stored.WF (t : Stored) : Prop where
  nodup : t.names.Nodup
  rect : ∀ r ∈ t.rows, r.length = t.cols.length
  codes : ∀ r ∈ t.rows, ∀ f ∈ t.names, cellOk t r f = true

end Tbl
end Cooler
