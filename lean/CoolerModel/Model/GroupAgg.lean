import CoolerModel.Model.Merge
/-!
`groupAgg`: group by key, apply an ARBITRARY aggregation function to the group's values (in order of
appearance), sort by key — the model of
`df.groupby(["bin1_id","bin2_id"], sort=True).aggregate(func).reset_index()` for any `func`.
`groupSum` is the instance `agg = sum` (theorem `groupAgg_sum`).  Used for the "(or the requested
aggregate)" clause of C07.
-/
namespace Cooler

/-- values stored under key `(i,j)`, in order of appearance -/
def valsAt : Pixels → Nat → Nat → List Int
  | [], _, _ => []
  | p :: rest, i, j => (if p.i = i ∧ p.j = j then [p.v] else []) ++ valsAt rest i j

/-- one record per distinct key, in key order, carrying `agg` of the key's values -/
def groupAgg (agg : List Int → Int) (l : Pixels) : Pixels :=
  (groupSum l).map fun p => ⟨p.i, p.j, agg (valsAt l p.i p.j)⟩

def listSum (vs : List Int) : Int := vs.foldl (· + ·) 0

namespace Merge

/-- one merge epoch with a requested aggregation -/
def epochOutAgg (agg : List Int → Int) (inputs : List Pixels) (a b : Nat) : List Pixels :=
  if epochRows inputs a b = [] then [] else [groupAgg agg (epochRows inputs a b)]

def mergerAggFrom (agg : List Int → Int) (inputs : List Pixels) : Nat → List Nat → List Pixels
  | _, [] => []
  | a, b :: rest => epochOutAgg agg inputs a b ++ mergerAggFrom agg inputs b rest

/-- `CoolerMerger.__iter__` with `agg` on the value column -/
def mergerAgg (agg : List Int → Int) (inputs : List Pixels) (part : List Nat) : List Pixels :=
  match part with
  | [] => []
  | p0 :: rest => mergerAggFrom agg inputs p0 rest

/-- L0: per pixel, the requested aggregate of that pixel's values over the inputs (in input order) -/
def mergeSpecAgg (agg : List Int → Int) (inputs : List Pixels) : Pixels := groupAgg agg inputs.flatten

end Merge
end Cooler
