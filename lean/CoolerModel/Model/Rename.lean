import CoolerModel.Basic
import CoolerModel.Model.Bins
/-!
Model of chromosome renaming (`cooler.create._create._rename_chroms`, `rename_chroms`) and of the
name-based part of the `Cooler` object (`Cooler._refresh`, `chromnames`, `chromsizes`, `bins()`
labels, `extent`).  Property C18.

A stored collection is reduced to what renaming can reach.  Everything renaming has no business
with is carried as opaque blobs (`Blob` = a digest of dtype + bytes made by the harness), so that
"untouched" is a statement about the very value that was there before.

HDF5 / pandas primitives (modelled, not verified):
* `np.array(names, dtype="S")` chooses the item size `max 1 (longest name)`; a fixed-width
  string dataset returns a name unchanged iff it fits (`NamesFit`);
* `DataFrame.rename(dict).index` applies the dictionary to every label simultaneously, keys that
  are not labels are ignored (`applyMap`);
* an HDF5 enum dataset is a list of integer codes plus a header `name ↦ code`;
  `get()` turns it into `Categorical.from_codes(codes, sorted(header, key=code))`, i.e. the label of
  a bin is the entry of the code-sorted name list at position `code` (`categories`, `binLabels`);
* creating an enum dataset raises `ValueError` when the header does not fit the HDF5 object header
  (≈ 64 KiB); this outcome is the parameter `fits` of `renameChroms` – every theorem is for all `fits`;
* `dict(zip(names, range(n)))` / a `Series` indexed by name are association lists looked up with
  `List.lookup`; Python's dict keeps the *last* of equal keys, `lookup` finds the first: they agree
  on duplicate-free names, which is the property's domain (`ValidStore`, injective results).
-/
namespace Cooler

abbrev Blob := String

/-- how `bins/chrom` is stored -/
inductive ChromEnc
  | enum (dict : List (String × Nat))   -- HDF5 enum header name ↦ code
  | plain                               -- plain int32 ids; labels come from `chroms/name`
deriving DecidableEq, Repr, Inhabited

/-- a stored collection, reduced to what renaming can touch plus opaque payload -/
structure RStore where
  names : List String              -- chroms/name
  nameWidth : Nat                  -- item size of the fixed-width string dtype of chroms/name
  lengths : List Nat               -- chroms/length
  enc : ChromEnc                   -- dtype of bins/chrom
  codes : List Nat                 -- raw integer values of bins/chrom
  starts : List Nat                -- bins/start
  ends : List Nat                  -- bins/end
  chromOffset : List Nat           -- indexes/chrom_offset
  binsize : Option Nat             -- attribute bin-size ("null" ↦ none)
  pixels : List (String × Blob)    -- pixels/* (opaque)
  bin1Offset : Blob                -- indexes/bin1_offset (opaque)
  attrs : List (String × Blob)     -- every root attribute (opaque)
  extra : List (String × Blob)     -- any further dataset of chroms/ and bins/ (opaque)
deriving DecidableEq, Repr, Inhabited

/-- `Index.rename(dict)`: mapped names are replaced, unmapped names kept -/
def applyMap (m : List (String × String)) (n : String) : String := (m.lookup n).getD n

/-- longest name (bytes = characters: names are ASCII) -/
def maxLen : List String → Nat
  | [] => 0
  | n :: rest => max n.length (maxLen rest)

/-- item size numpy picks for `np.array(names, dtype="S")` -/
def autoWidth (names : List String) : Nat := max 1 (maxLen names)

/-- `dict(zip(names, range(n_chroms)))` -/
def idMap (names : List String) : List (String × Nat) := names.zip (List.range names.length)

/-- `_rename_chroms(grp, rename_dict, h5opts)`.
    `fits hdr` = creating the enum dataset with header `hdr` succeeds (no `ValueError`). -/
def renameChroms (fits : List (String × Nat) → Bool) (s : RStore) (m : List (String × String)) : RStore :=
  -- new_names = np.array(chroms.rename(rename_dict).index.values, dtype="S")
  let newNames := s.names.map (applyMap m)
  -- del chroms/name; create_dataset("name", dtype=new_names.dtype, data=new_names)
  let s1 := { s with names := newNames, nameWidth := autoWidth newNames }
  match s.enc with
  | .enum _ =>
    -- idmap = dict(zip(new_names, range(n_chroms))); chrom_ids = bins["chrom"].cat.codes (the stored codes)
    let hdr := idMap newNames
    if fits hdr then { s1 with enc := .enum hdr, codes := s.codes }
    else { s1 with enc := .plain, codes := s.codes }   -- fallback: raw ints
  | .plain => s1                                      -- not categorical: bins/chrom is left alone

/-! ### reading names back -/

/-- the fixed-width dataset returns every name unchanged -/
def NamesFit (s : RStore) : Prop := ∀ n ∈ s.names, n.length ≤ s.nameWidth

/-- `sorted(dt, key=dt.__getitem__)`: header names in code order (stable) -/
def categories (d : List (String × Nat)) : List String :=
  (d.mergeSort (fun a b => decide (a.2 ≤ b.2))).map Prod.fst

/-- chromosome label of every bin as `bins()[:]` shows it (`none` = code without a label) -/
def binLabels (s : RStore) : List (Option String) :=
  match s.enc with
  | .enum d => s.codes.map fun c => (categories d)[c]?   -- Categorical.from_codes(codes, categories)
  | .plain => s.codes.map fun c => s.names[c]?            -- integer branch of api.bins(): from_codes(codes, chroms/name)

/-! ### the Cooler object -/

/-- what `Cooler._refresh` caches -/
structure Handle where
  chromIds : List (String × Nat)     -- _chromids
  chromsizes : List (String × Nat)   -- _chromsizes (ordered Series name ↦ length)
  binsize : Option Nat               -- _info["bin-size"]
  info : List (String × Blob)        -- _info
deriving DecidableEq, Repr, Inhabited

def refresh (s : RStore) : Handle :=
  { chromIds := idMap s.names
    chromsizes := s.names.zip s.lengths
    binsize := s.binsize
    info := s.attrs }

/-- `Cooler(path)` -/
def openCooler (s : RStore) : Handle := refresh s

/-- `cooler.rename_chroms(clr, rename_dict)`: rewrite the file, then `clr._refresh()` -/
def renameOnObject (fits : List (String × Nat) → Bool) (s : RStore) (m : List (String × String)) :
    RStore × Handle :=
  let s' := renameChroms fits s m
  (s', refresh s')

def Handle.chromnames (h : Handle) : List String := h.chromsizes.map Prod.fst

/-- `Cooler.extent((c, a, b))`: `parse_region` against the cached sizes, then `region_to_extent`
    with the cached ids, the stored `chrom_offset` and `bins/start`. -/
def extent (h : Handle) (s : RStore) (c : String) (a b : Option Int) : Except Err (Int × Nat) :=
  match h.chromsizes.lookup c with
  | none => .error .value                       -- "Unknown sequence label"
  | some clen =>
    match parseRegionTriple (some clen) a b with
    | .error e => .error e
    | .ok (st, en) =>
      match h.chromIds.lookup c with
      | none => .error .key
      | some cid =>
        match s.chromOffset[cid]?, s.chromOffset[cid + 1]? with
        | some lo, some hi =>
          match h.binsize with
          | some bsz => let r := extentFixed lo bsz st en; .ok ((r.1 : Int), r.2)
          | none => .ok (extentVar lo ((s.starts.drop lo).take (hi - lo)) st en)
        | _, _ => .error .index

/-! ### what a user can observe (L0 vocabulary) -/

structure Obs where
  chromnames : List String
  chromsizes : List (String × Nat)
  labels : List (Option String)
  starts : List Nat
  ends : List Nat
  codes : List Nat
  chromOffset : List Nat
  binsize : Option Nat
  pixels : List (String × Blob)
  bin1Offset : Blob
  attrs : List (String × Blob)
  extra : List (String × Blob)
deriving DecidableEq, Repr, Inhabited

def observe (s : RStore) : Obs :=
  { chromnames := (openCooler s).chromnames
    chromsizes := (openCooler s).chromsizes
    labels := binLabels s
    starts := s.starts, ends := s.ends, codes := s.codes, chromOffset := s.chromOffset
    binsize := s.binsize, pixels := s.pixels, bin1Offset := s.bin1Offset, attrs := s.attrs
    extra := s.extra }

/-- L0: "renaming changes names only" – every name is passed through `f`, nothing else moves -/
def Obs.relabel (f : String → String) (o : Obs) : Obs :=
  { o with
    chromnames := o.chromnames.map f
    chromsizes := o.chromsizes.map fun p => (f p.1, p.2)
    labels := o.labels.map (Option.map f) }

/-- the single map equivalent to renaming by `m₁` and then by `m₂`, on the given names -/
def composeMaps (names : List String) (m₁ m₂ : List (String × String)) : List (String × String) :=
  names.map fun n => (n, applyMap m₂ (applyMap m₁ n))

/-- a collection as `create` writes it: one length per name and, with the enum encoding, a header that
numbers the names 0,1,2,… in table order (`write_bins`: `idmap = dict(zip(chromnames, range(n)))`).
Distinctness of names is not part of it: it is a hypothesis of the lookup theorems only. -/
structure ValidStore (s : RStore) : Prop where
  lens : s.lengths.length = s.names.length
  hdr : ∀ d, s.enc = .enum d → d = idMap s.names

/-- executable twin of `ValidStore` (used by the driver) -/
def validStoreB (s : RStore) : Bool :=
  (s.lengths.length == s.names.length) &&
  (match s.enc with | .enum d => d == idMap s.names | .plain => true)

/-- a chain of renamings on one object -/
def renameChain (fits : List (String × Nat) → Bool) (s : RStore) : List (List (String × String)) → RStore
  | [] => s
  | m :: ms => renameChain fits (renameChroms fits s m) ms

end Cooler
