import CoolerModel.Model.Bins
/-!
Model of the split–apply–combine layer that balancing runs on (property C11):

* `cooler.util.partition`, the `spans` expression of `balance_cooler`
  (`np.arange(0, nnz + chunksize, chunksize)` then `zip(edges[:-1], edges[1:])`, `chunksize=None`),
  the per-chromosome `partition(plo, phi, chunksize)` of `_balance_cisonly`;
* `cooler.parallel`: `apply_pipeline`, `MultiplexDataPipe.run/gather/reduce`, `chunkgetter`, `split`;
* the per-chunk functions of `cooler._balance` (`_init`, `_binarize`, `_zero_diags`, `_zero_trans`,
  `_zero_cis`, `_timesouterproduct`, `_marginalize`) over an arbitrary carrier `K`.

Primitives (modelled, not verified): `range`/`np.arange` on naturals with a positive step
(`pyRange`), Python/numpy/h5py slicing with clamping (`sliceOf`), `np.bincount(ids, weights, minlength)`
(`bincountAt`), `functools.reduce` (`reduce` = `foldl`).  A *schedule* — what the `map` functor hands
back — is any permutation of the per-key results; it is a parameter, never computed here.

Everything lives in namespace `Cooler.Split`; core Lean only.
-/
namespace Cooler.Split
open Cooler

/-! ### slices, ranges, spans -/

/-- Python / numpy / h5py slice `xs[lo:hi]` for `0 ≤ lo, hi`: both bounds are clamped to the length
and `lo ≥ hi` gives the empty slice. -/
def sliceOf {α : Type} (xs : List α) (lo hi : Nat) : List α := (xs.take hi).drop lo

/-- `range(start, stop, step)` = `np.arange(start, stop, step)` on naturals, `step ≥ 1`:
`ceil((stop - start) / step)` values `start + t * step` (none when `stop ≤ start`). -/
def pyRange (start stop step : Nat) : List Nat :=
  (List.range (ceilDiv (stop - start) step)).map (fun t => start + t * step)

/-- `util.partition(start, stop, step)`:
`((i, min(i + step, stop)) for i in range(start, stop, step))` -/
def partition (start stop step : Nat) : List (Nat × Nat) :=
  (pyRange start stop step).map (fun i => (i, min (i + step) stop))

/-- `edges = np.arange(0, nnz + chunksize, chunksize)` -/
def edges (nnz c : Nat) : List Nat := pyRange 0 (nnz + c) c

/-- `spans = list(zip(edges[:-1], edges[1:]))` — the last span may overshoot `nnz`; the overshoot is
clamped when the span is used as a slice. -/
def spansC (nnz c : Nat) : List (Nat × Nat) :=
  let e := edges nnz c
  e.dropLast.zip e.tail

/-- The `spans` of `balance_cooler(chunksize=…)`: `None` ↦ `[(0, nnz)]`; `0` makes `np.arange` raise
(`ZeroDivisionError`, class `other`). -/
def spans (nnz : Nat) : Option Nat → Except Err (List (Nat × Nat))
  | none => .ok [(0, nnz)]
  | some 0 => .error .other
  | some c => .ok (spansC nnz c)

/-- the `chunksize` that `balance_cooler` hands on to `_balance_cisonly`:
`None` ↦ `max(nnz, 1)` (repaired, known_findings D21: it was `nnz`, a zero step on an empty cooler) -/
def cisChunk (nnz : Nat) : Option Nat → Nat
  | none => max nnz 1
  | some c => c

/-- `spans = list(partition(plo, phi, chunksize))` of `_balance_cisonly`; `range` with step 0 raises
`ValueError`. -/
def cisSpans (nnz : Nat) (chunksize : Option Nat) (plo phi : Nat) : Except Err (List (Nat × Nat)) :=
  if cisChunk nnz chunksize = 0 then .error .value else .ok (partition plo phi (cisChunk nnz chunksize))

/-- `split(clr, chunksize=c)` with `spans=None`: `partition(0, nnz, chunksize)` -/
def splitDefaultSpans (nnz c : Nat) : List (Nat × Nat) := partition 0 nnz c

/-! ### the contract on spans (free unit): every offset of `[lo, hi)` below `n` lies in exactly one
span, every other offset below `n` in none -/

/-- offset `j` is read by a span `(a, b)` used as the slice `[a:b]` -/
def contains (j : Nat) (s : Nat × Nat) : Bool := decide (s.1 ≤ j ∧ j < s.2)

/-- how many spans read offset `j` -/
def visits (spans : List (Nat × Nat)) (j : Nat) : Nat := spans.countP (contains j)

def CoversOnce (n : Nat) (spans : List (Nat × Nat)) (lo hi : Nat) : Prop :=
  ∀ j, j < n → visits spans j = if lo ≤ j ∧ j < hi then 1 else 0

/-- executable twin of `CoversOnce` (lemma `coversOnceB_iff` in `Props/C11.lean`) -/
def coversOnceB (n : Nat) (spans : List (Nat × Nat)) (lo hi : Nat) : Bool :=
  (List.range n).all fun j => visits spans j == (if lo ≤ j ∧ j < hi then 1 else 0)

/-- the offsets read, in reading order, when each span is used as a slice of a table of `n` rows -/
def visited (n : Nat) (spans : List (Nat × Nat)) : List Nat :=
  spans.flatMap fun s => sliceOf (List.range n) s.1 s.2

/-! ### `cooler.parallel` -/

/-- `apply_pipeline(funcs, prepare, get, key)` with a `prepare` step:
`chunk = get(key); data = prepare(chunk); for func in funcs: data = func(chunk, data)` -/
def applyPipeline {κ χ δ : Type} (funcs : List (χ → δ → δ)) (prepare : χ → δ) (get : κ → χ)
    (key : κ) : δ :=
  let chunk := get key
  funcs.foldl (fun data f => f chunk data) (prepare chunk)

/-- `apply_pipeline` with `prepare=None`: `data = chunk; for func in funcs: data = func(data)` -/
def applyPipeline0 {κ χ : Type} (funcs : List (χ → χ)) (get : κ → χ) (key : κ) : χ :=
  funcs.foldl (fun data f => f data) (get key)

/-- `MultiplexDataPipe.run()` under an order-preserving `map` (builtin `map`, `Pool.map`,
`Pool.imap`): one result per key, in key order. -/
def run {κ χ δ : Type} (funcs : List (χ → δ → δ)) (prepare : χ → δ) (get : κ → χ)
    (keys : List κ) : List δ :=
  keys.map (applyPipeline funcs prepare get)

/-- `functools.reduce(binop, results, init)` -/
def reduce {β δ : Type} (binop : β → δ → β) (init : β) (results : List δ) : β :=
  results.foldl binop init

/-- what an arbitrary `map` functor may hand back for `ordered` (`imap_unordered`, any completion
order): the same results, each once, in any order -/
def Schedule {δ : Type} (ordered returned : List δ) : Prop := returned.Perm ordered

/-- executable schedule: results re-ordered by a list of positions (driver use) -/
def reorder {δ : Type} (rs : List δ) (perm : List Nat) : List δ := perm.filterMap (rs[·]?)

/-- `MultiplexDataPipe.reduce(binop, init)` under the schedule `perm` -/
def pipelineReduce {κ χ δ β : Type} (funcs : List (χ → δ → δ)) (prepare : χ → δ) (get : κ → χ)
    (keys : List κ) (perm : List Nat) (binop : β → δ → β) (init : β) : β :=
  reduce binop init (reorder (run funcs prepare get keys) perm)

/-! ### chunks of a cooler and the per-chunk functions of `_balance.py` -/

/-- what `chunkgetter(clr)(span)` returns, as far as balancing reads it: the chromosome id of every
bin (`chunk["bins"]["chrom"]`, the **whole** bin table) and the pixel rows of the span -/
structure Chunk where
  chrom : List Nat
  pixels : Pixels
deriving Repr

/-- `chunkgetter.__call__((lo, hi))`: `get(grp["pixels"], lo, hi)` is the slice `[lo:hi]` -/
def chunkget (chrom : List Nat) (px : Pixels) (span : Nat × Nat) : Chunk :=
  ⟨chrom, sliceOf px span.1 span.2⟩

/-- the arithmetic balancing needs of its carrier (floats in the code, `Int`/any commutative monoid
in the model); no laws are part of the structure -/
structure Ops (K : Type) where
  zero : K
  one : K
  add : K → K → K
  mul : K → K → K
  ofInt : Int → K
  isZero : K → Bool

variable {K : Type} (o : Ops K)

/-- `_init`: a copy of the `count` column -/
def init (c : Chunk) : List K := c.pixels.map fun p => o.ofInt p.v

/-- `_binarize`: `data[data != 0] = 1` -/
def binarize (_ : Chunk) (d : List K) : List K := d.map fun x => if o.isZero x then x else o.one

def absDiff (a b : Nat) : Nat := if a ≤ b then b - a else a - b

/-- `_zero_diags(n)`: `data[|bin1 - bin2| < n] = 0` -/
def zeroDiags (n : Nat) (c : Chunk) (d : List K) : List K :=
  List.zipWith (fun p x => if absDiff p.i p.j < n then o.zero else x) c.pixels d

/-- `_zero_trans`: `data[chrom[bin1] != chrom[bin2]] = 0` -/
def zeroTrans (c : Chunk) (d : List K) : List K :=
  List.zipWith (fun p x => if c.chrom[p.i]? != c.chrom[p.j]? then o.zero else x) c.pixels d

/-- `_zero_cis`: `data[chrom[bin1] == chrom[bin2]] = 0` -/
def zeroCis (c : Chunk) (d : List K) : List K :=
  List.zipWith (fun p x => if c.chrom[p.i]? == c.chrom[p.j]? then o.zero else x) c.pixels d

/-- `_timesouterproduct(vec)`: `vec[bin1] * vec[bin2] * data` (bin ids of a valid cooler are below
`len(vec)`; an id outside would raise `IndexError` in numpy and reads `zero` here) -/
def timesOuter (vec : List K) (c : Chunk) (d : List K) : List K :=
  List.zipWith (fun p x => o.mul (o.mul (vec.getD p.i o.zero) (vec.getD p.j o.zero)) x) c.pixels d

/-- sum of a list, left to right from `zero` (the accumulation order of `bincount`) -/
def msum (l : List K) : K := l.foldl o.add o.zero

/-- entry `b` of `np.bincount(ids, weights=ws)` -/
def bincountAt (ids : List Nat) (ws : List K) (b : Nat) : K :=
  msum o ((ids.zip ws).filterMap fun iw => if iw.1 = b then some iw.2 else none)

/-- entry `b` of `_marginalize`: `bincount(bin1, data)[b] + bincount(bin2, data)[b]` -/
def margAt (c : Chunk) (d : List K) (b : Nat) : K :=
  o.add (bincountAt o (c.pixels.map (·.i)) d b) (bincountAt o (c.pixels.map (·.j)) d b)

/-- `_marginalize` with `minlength = n` (`n` = number of bins; ids of a valid cooler are below `n`) -/
def marginalize (n : Nat) (c : Chunk) (d : List K) : List K := (List.range n).map (margAt o c d)

/-- `np.zeros(n_bins)` -/
def zeros (n : Nat) : List K := List.replicate n o.zero

/-- `operator.add` on two arrays of the same length -/
def vadd (a b : List K) : List K := List.zipWith o.add a b

/-- The reduction every pass of balancing performs:
`split(clr, spans=spans, map=map).prepare(_init).pipe(filters).pipe(_marginalize).reduce(add, np.zeros(n))`,
the map handing results back in the order `perm`. -/
def balanceReduce (n : Nat) (chrom : List Nat) (px : Pixels) (filters : List (Chunk → List K → List K))
    (spans : List (Nat × Nat)) (perm : List Nat) : List K :=
  pipelineReduce (filters ++ [marginalize o n]) (init o) (chunkget chrom px) spans perm
    (vadd o) (zeros o n)

/-- L0: the marginal of the pixel rows `[lo:hi]` computed in one piece (no chunks, no schedule) -/
def wholeMarginal (n : Nat) (chrom : List Nat) (px : Pixels) (filters : List (Chunk → List K → List K))
    (lo hi : Nat) : List K :=
  applyPipeline (filters ++ [marginalize o n]) (init o) (chunkget chrom px) (lo, hi)

/-- exact integer instance used by the correspondence driver -/
def intOps : Ops Int := ⟨0, 1, (· + ·), (· * ·), id, (· == 0)⟩

/-! ### pixel ranges of the chromosomes (`bin1_offset[chrom_offset[c]]`), for the cis-only passes -/

/-- `chrom_offset[c]`: number of bins on chromosomes before `c` -/
def chromOffset (chrom : List Nat) (c : Nat) : Nat := chrom.countP (· < c)

/-- `bin1_offset[k]`: number of pixels in rows before `k` -/
def bin1Offset (px : Pixels) (k : Nat) : Nat := px.countP (·.i < k)

/-- `(plo, phi)` of chromosome `c` in `_balance_cisonly` -/
def chromPixelRange (chrom : List Nat) (px : Pixels) (c : Nat) : Nat × Nat :=
  (bin1Offset px (chromOffset chrom c), bin1Offset px (chromOffset chrom (c + 1)))

/-! ### histories: what one process did before a run

The results of balancing are stated for "repeated runs" and as a function of the data: a process may
have visited other coolers, or an *earlier content of the same URI*, before the run.  A history is
the list of things the process did; the only state a run may read is what the file system stores at
the URI at that moment (`stored`), and a run leaves it unchanged. -/

/-- one step of a process: a cooler with content `d` is written at `uri` (`create_cooler`, replacing
whatever that URI held), or the cooler stored at `uri` is run through balancing / a split pipeline -/
inductive Step (δ : Type) where
  | write (uri : Nat) (d : δ)
  | run (uri : Nat)
deriving Repr

/-- the file system after one more step: a write replaces the content of its URI, a run changes nothing -/
def storeStep {δ : Type} (w : Nat → Option δ) : Step δ → Nat → Option δ
  | .write u d => fun v => if v = u then some d else w v
  | .run _ => w

/-- nothing stored anywhere -/
def emptyStore {δ : Type} : Nat → Option δ := fun _ => none

/-- content of every URI after the history `h` (the last write there, `none` if never written) -/
def stored {δ : Type} (h : List (Step δ)) : Nat → Option δ := h.foldl storeStep emptyStore

/-- what the run steps of a history return, in order, starting from the store `w`: `eval` of the
content stored at the URI at that moment (`none`: nothing there — no cooler to open) -/
def observeFrom {δ ρ : Type} (eval : δ → ρ) (w : Nat → Option δ) : List (Step δ) → List (Option ρ)
  | [] => []
  | .write u d :: h => observeFrom eval (storeStep w (.write u d)) h
  | .run u :: h => (w u).map eval :: observeFrom eval w h

/-- the outputs of the run steps of a process that starts with nothing stored -/
def observe {δ ρ : Type} (eval : δ → ρ) (h : List (Step δ)) : List (Option ρ) :=
  observeFrom eval emptyStore h

end Cooler.Split
