import CoolerModel.Model.Balanced
import CoolerModel.Model.Unordered
import CoolerModel.Model.Sanitize
import CoolerModel.Model.CreateSteps
/-!
Model of the text interface (property C16), at RECORD level (typed cells, not characters):

* `cooler dump` (`cli/dump.py`): bounding box from the region extents, engine choice, the
  annotator (`make_annotator`), column order, header, `--table chroms|bins`, `--columns`;
* the column reader shared by `cooler load` and `cooler cload pairs`
  (`pd.read_csv(usecols=, names=)` with the names sorted by column number first — repair D12);
* `cooler load -f coo|bg2` and `cooler cload pairs` as sanitiser (C05) + validator (C13) +
  unordered ingestion (C06);
* `parse_field_param` (`cli/_util.py`) on characters;
* the resolution-spec expansion of `cooler zoomify -r` (`cli/zoomify.py`, `preferred_sequence`).

What is taken from other properties, not re-modelled: region → extent (C04: the extents are
arguments), the two range-query engines (C03: `queryDirect`, `queryFill`), `api.annotate` as a
row-wise join against the whole bin table (C14 `annotate_correct`), the balanced value
(C12 `entryCell`, theorem `dump_spec`), the sanitizers (C05), `validate_pixels` (C13), the merge
passes of `create_from_unordered` (C06: the stored table is `aggregateAll`).

Character-level reading/writing of delimited text and number formatting are pandas primitives.
-/
namespace Cooler.TextIO
open Cooler

/-! ## 0. small generic helpers -/

/-- `List.mapM` in `Option`, spelled out (structural, reduces in the kernel) -/
def mapO {β γ : Type} (f : β → Option γ) : List β → Option (List γ)
  | [] => some []
  | x :: xs =>
    match f x with
    | none => none
    | some y =>
      match mapO f xs with
      | none => none
      | some ys => some (y :: ys)

/-- `l[:k] + [x] + l[k:]` -/
def insertAt {β : Type} (k : Nat) (x : β) (l : List β) : List β := l.take k ++ x :: l.drop k

/-! ## 1. cells and rows -/

/-- one typed cell of a text table: an integer column value, a string (chromosome name), or a
float64 value (`α` is the float carrier, as in `Model/Balanced.lean`; NaN is one of its values) -/
inductive Val (α : Type)
  | int (n : Int)
  | str (s : String)
  | num (x : α)
deriving DecidableEq, Repr

/-- `col += 1` on an integer column (`bin?_id`, `start?` are integer columns; any other cell that
happened to carry one of those names is left alone: a float `start` column does not exist) -/
def Val.succ {α : Type} : Val α → Val α
  | .int n => .int (n + 1)
  | v => v

/-- a data-frame row: (column name, cell) in column order -/
abbrev Row (α : Type) := List (String × Val α)

/-- what is written to the text file for a row: the cells, in column order -/
def rowCells {α : Type} (r : Row α) : List (Val α) := r.map (·.2)

def rowNames {α : Type} (r : Row α) : List String := r.map (·.1)

/-! ## 2. the store as `cooler dump` sees it -/

structure Store (α : Type) where
  chromNames : List String
  chromLens : List Nat
  bins : BinTable
  /-- float64 bin columns by name (`weight`, …) -/
  fcols : Bal.Cols α := []
  /-- integer bin columns by name -/
  icols : List (String × List Int) := []
  /-- the names of the extra bin columns in the order `Cooler.bins()` lists them -/
  extraOrder : List String := []
  px : Pixels
  /-- the stored `indexes/bin1_offset` -/
  offs : List Nat
  /-- `storage-mode == "symmetric-upper"` -/
  symm : Bool

def Store.nbins {α : Type} (s : Store α) : Nat := s.bins.length

/-- `bins[f].iloc[k]` on the full bin table `clr.bins()[:]` -/
def binField {α : Type} (s : Store α) (f : String) (k : Nat) : Option (Val α) :=
  if f = "chrom" then (s.bins[k]?).bind fun b => (s.chromNames[b.chrom]?).map Val.str
  else if f = "start" then (s.bins[k]?).map fun b => Val.int b.start
  else if f = "end" then (s.bins[k]?).map fun b => Val.int b.stop
  else match s.fcols.lookup f with
    | some w => (w[k]?).map Val.num
    | none =>
      match s.icols.lookup f with
      | some w => (w[k]?).map Val.int
      | none => none

/-- the columns `fs` of bin `k`, renamed with the suffix: one side of `api.annotate` for one pixel -/
def sideCols {α : Type} (s : Store α) (fs : List String) (sfx : String) (k : Nat) : Option (Row α) :=
  mapO (fun f => (binField s f k).map fun v => (f ++ sfx, v)) fs

/-! ## 3. `cooler dump`: options, bounding box, engine -/

structure DumpOpts where
  header : Bool := false
  fillLower : Bool := false
  balanced : Bool := false
  join : Bool := false
  annotate : Option (List String) := none
  oneBasedIds : Bool := false
  oneBasedStarts : Bool := false
  /-- bin extent of `--range` (`region_to_extent(parse_region(range))`: property C04) -/
  range : Option (Nat × Nat) := none
  /-- bin extent of `--range2` -/
  range2 : Option (Nat × Nat) := none
deriving Repr, DecidableEq

/-- `bbox`: the row extent, the column extent (the row extent again when `-r2` is absent); the whole
matrix without `-r`.  NB `-r2` without `-r` is ignored by the code (observation, outside C16). -/
def bbox (n : Nat) (o : DumpOpts) : Box :=
  match o.range with
  | some r =>
    match o.range2 with
    | some c => ⟨r.1, r.2, c.1, c.2⟩
    | none => ⟨r.1, r.2, r.1, r.2⟩
  | none => ⟨0, n, 0, n⟩

/-- `fill_lower and clr.storage_mode == "symmetric-upper"` -/
def useFill {α : Type} (s : Store α) (o : DumpOpts) : Bool := o.fillLower && s.symm

/-- chunks of `DirectRangeQuery2D`: one per row span -/
def directChunks (ps : Pixels) (offs : List Nat) (b : Box) (spans : List (Nat × Nat)) : List Pixels :=
  spans.map fun sp => csrRead ps offs b sp.1 sp.2 false

/-- chunks of one sub-box of `FillLowerRangeQuery2D`: one per row span, transposed when asked -/
def taskChunks (ps : Pixels) (offs : List Nat) (spansOf : Box → List (Nat × Nat)) (t : Task) :
    List Pixels :=
  (spansOf t.2).map fun sp =>
    if t.1 then (csrRead ps offs t.2 sp.1 sp.2 true).map Px.swap else csrRead ps offs t.2 sp.1 sp.2 true

/-- `for dct in engine`: the chunk stream.  `spansOf` (`get_spans(bbox, chunksize)`) is a free unit
(contract `validSpans`, C03): `--chunksize` acts only through it. -/
def engineChunks {α : Type} (s : Store α) (spansOf : Box → List (Nat × Nat)) (o : DumpOpts) :
    Option (List Pixels) :=
  let b := bbox s.nbins o
  if useFill s o then (fillLowerTasks b).map fun ts => ts.flatMap (taskChunks s.px s.offs spansOf)
  else some (directChunks s.px s.offs b (spansOf b))

/-- the corresponding library query: `FillLowerRangeQuery2D(...).get()` / `DirectRangeQuery2D(...).get()` -/
def engineOut {α : Type} (s : Store α) (spansOf : Box → List (Nat × Nat)) (o : DumpOpts) :
    Option Pixels :=
  let b := bbox s.nbins o
  if useFill s o then queryFill s.px s.offs spansOf b
  else some (queryDirect s.px s.offs b (spansOf b))

/-! ## 4. the annotator (`make_annotator`), one pixel at a time

`api.annotate(chunk, bins[cols], replace)` is the row-wise join of C14; every step of the annotator is
row-wise, so a chunk is annotated by annotating its rows. -/

def idCols : List String := ["bin1_id", "bin2_id"]
def startCols : List String := ["start1", "start2"]
def coordFields : List String := ["chrom", "start", "end"]

/-- `for col in cols: if col in chunk.columns: chunk[col] += 1` -/
def bump {α : Type} (cols : List String) (r : Row α) : Row α :=
  r.map fun c => if c.1 ∈ cols then (c.1, c.2.succ) else c

def bumpIf {α : Type} (flag : Bool) (cols : List String) (r : Row α) : Row α :=
  if flag then bump cols r else r

/-- `pd.DataFrame(dct, columns=["bin1_id", "bin2_id", "count"])` -/
def baseRow {α : Type} (p : Px) : Row α :=
  [("bin1_id", .int p.i), ("bin2_id", .int p.j), ("count", .int p.v)]

/-- `df["weight1"] * df["weight2"] * chunk["count"]` (C12: `entryCell`, non-divisive, column `weight`) -/
def balancedCell {α : Type} (ops : Bal.Ops Int α) (s : Store α) (p : Px) : Option (Val α) :=
  (s.fcols.lookup "weight").bind fun w => (Bal.entryCell ops w false p.i p.j p.v).map Val.num

/-- `extra = annotate(chunk[["bin1_id","bin2_id"]], bins[extra_fields], replace=True)` -/
def extraCols {α : Type} (s : Store α) (o : DumpOpts) (p : Px) : Option (Row α) :=
  match o.annotate with
  | none => some []
  | some fs =>
    (sideCols s fs "1" p.i).bind fun a => (sideCols s fs "2" p.j).map fun b => a ++ b

/-- `chunk["balanced"] = …` appended as the last column -/
def balStage {α : Type} (ops : Bal.Ops Int α) (s : Store α) (o : DumpOpts) (p : Px) : Option (Row α) :=
  if o.balanced then (balancedCell ops s p).map fun v => baseRow p ++ [("balanced", v)]
  else some (baseRow p)

/-- `annotate(chunk, bins[["chrom","start","end"]], replace=True)`: coordinates of both bins in
front, the id columns removed -/
def joinRow {α : Type} (s : Store α) (i j : Nat) (r : Row α) : Option (Row α) :=
  (sideCols s coordFields "1" i).bind fun a =>
    (sideCols s coordFields "2" j).map fun b => a ++ b ++ r.filter fun c => !(c.1 ∈ idCols)

def joinStage {α : Type} (s : Store α) (o : DumpOpts) (p : Px) (r : Row α) : Option (Row α) :=
  if o.join then joinRow s p.i p.j r else some r

/-- `pd.concat([chunk, extra], axis=1)`, then the two one-based shifts, ids first -/
def finish {α : Type} (o : DumpOpts) (r extra : Row α) : Row α :=
  bumpIf o.oneBasedStarts startCols (bumpIf o.oneBasedIds idCols (r ++ extra))

/-- the annotator on one pixel, in the order of the code.  `none` = the code stops (`KeyError` →
`sys.exit(1)`, or an id outside the bin table).  When no option is given the annotator is not built;
it is then the identity, as this function is. -/
def annotateRow {α : Type} (ops : Bal.Ops Int α) (s : Store α) (o : DumpOpts) (p : Px) : Option (Row α) :=
  (extraCols s o p).bind fun e =>
    (balStage ops s o p).bind fun r1 =>
      (joinStage s o p r1).map fun r2 => finish o r2 e

/-- the data rows of the dump: every engine chunk through the annotator, in engine order -/
def dumpRows {α : Type} (ops : Bal.Ops Int α) (s : Store α) (spansOf : Box → List (Nat × Nat))
    (o : DumpOpts) : Option (List (Row α)) :=
  (engineChunks s spansOf o).bind fun chunks =>
    (mapO (mapO (annotateRow ops s o)) chunks).map List.flatten

/-- the column names of the pixel dump -/
def dumpColumns (o : DumpOpts) : List String :=
  (if o.join then coordFields.map (· ++ "1") ++ coordFields.map (· ++ "2") else idCols) ++ ["count"]
    ++ (if o.balanced then ["balanced"] else [])
    ++ (match o.annotate with
        | none => []
        | some fs => fs.map (· ++ "1") ++ fs.map (· ++ "2"))

/-- the header line: printed with the first chunk, so only when the engine has a chunk at all (a
selection whose rows hold no stored pixel has no span under the real `get_spans`, hence no header even
with `-H`: header presence without data rows depends on the free unit `spansOf`) -/
def dumpHeader {α : Type} (s : Store α) (spansOf : Box → List (Nat × Nat)) (o : DumpOpts) :
    Option (List String) :=
  match engineChunks s spansOf o with
  | some (_ :: _) => if o.header then some (dumpColumns o) else none
  | _ => none

/-- `--balanced` without a `weight` column: "Balancing weights not found", exit 1 -/
def dumpRefuses {α : Type} (s : Store α) (o : DumpOpts) : Bool :=
  o.balanced && (s.fcols.lookup "weight").isNone

/-! ### `--table chroms|bins`, `--columns` -/

inductive Table
  | chroms
  | bins
deriving DecidableEq, Repr

def chromsRows {α : Type} (s : Store α) : List (Row α) :=
  (s.chromNames.zip s.chromLens).map fun nl => [("name", .str nl.1), ("length", .int nl.2)]

def binColumns {α : Type} (s : Store α) : List String := coordFields ++ s.extraOrder

def binsRows {α : Type} (s : Store α) : Option (List (Row α)) :=
  mapO (fun k => mapO (fun f => (binField s f k).map fun v => (f, v)) (binColumns s)) (List.range s.nbins)

/-- `selector[list(columns)]`: the named columns, in the order asked (`KeyError` = `none`) -/
def projectRow {α : Type} (cols : List String) (r : Row α) : Option (Row α) :=
  mapO (fun c => (r.lookup c).map fun v => (c, v)) cols

def tableRows {α : Type} (s : Store α) : Table → Option (List (Row α))
  | .chroms => some (chromsRows s)
  | .bins => binsRows s

def dumpTable {α : Type} (s : Store α) (t : Table) (columns : Option (List String)) :
    Option (List (Row α)) :=
  match columns with
  | none => tableRows s t
  | some cs => (tableRows s t).bind (mapO (projectRow cs))

/-! ## 5. the column reader of the text loaders -/

def insertNat (x : Nat) : List Nat → List Nat
  | [] => [x]
  | y :: ys => if x ≤ y then x :: y :: ys else y :: insertNat x ys

def sortNat : List Nat → List Nat
  | [] => []
  | x :: xs => insertNat x (sortNat xs)

/-- the pandas primitive `read_csv(usecols=U, names=N)` on one line: `U` is a SET of column numbers;
the selected columns are taken in ASCENDING column order and `N` is assigned to them in that order.
Numbers past the end of the line are a `ValueError`.  Repeated numbers (fewer columns than names) are
refused here too; pandas then either raises or — when the line happens to have exactly as many columns
as there are names — labels the file's columns instead and a field goes missing: not injective, outside
the property's domain, only "no record is produced" is compared. -/
def pandasReadCols {β : Type} (usecols : List Nat) (names : List String) (row : List β) :
    Except Err (List (String × β)) :=
  if ¬ usecols.Nodup ∨ usecols.length ≠ names.length then .error .value
  else Bal.mapE (fun nc : String × Nat =>
      match row[nc.2]? with
      | some v => .ok (nc.1, v)
      | none => .error .value) (names.zip (sortNat usecols))

/-- stable insertion by column number: `sorted(names, key=numbers.get)` -/
def insertField (x : String × Nat) : List (String × Nat) → List (String × Nat)
  | [] => [x]
  | y :: ys => if x.2 ≤ y.2 then x :: y :: ys else y :: insertField x ys

def sortFields : List (String × Nat) → List (String × Nat)
  | [] => []
  | x :: xs => insertField x (sortFields xs)

/-- the loaders as they are now (D12 repaired): names sorted by their column number, then
`read_csv(usecols=[number of n for n in names], names=names)` -/
def readFields {β : Type} (fields : List (String × Nat)) (row : List β) : Except Err (List (String × β)) :=
  let fs := sortFields fields
  pandasReadCols (fs.map (·.2)) (fs.map (·.1)) row

/-- the loaders before the repair: the names in the order the fields were declared -/
def readFieldsLegacy {β : Type} (fields : List (String × Nat)) (row : List β) :
    Except Err (List (String × β)) :=
  pandasReadCols (fields.map (·.2)) (fields.map (·.1)) row

/-- an integer column (`dtype=int`): a cell that is not an integer is a parse error -/
def Val.asInt {α : Type} : Val α → Except Err Int
  | .int n => .ok n
  | _ => .error .value

/-- a string column (`dtype=str`) -/
def Val.asStr {α : Type} : Val α → Except Err String
  | .str s => .ok s
  | _ => .error .value

def fieldInt {α : Type} (parsed : List (String × Val α)) (f : String) : Except Err Int :=
  match parsed.lookup f with
  | some v => v.asInt
  | none => .error .key

def fieldStr {α : Type} (parsed : List (String × Val α)) (f : String) : Except Err String :=
  match parsed.lookup f with
  | some v => v.asStr
  | none => .error .key

/-! ## 6. `cooler load` -/

structure LoadOpts where
  /-- `--one-based` -/
  oneBased : Bool := false
  /-- not `--no-symmetric-upper` -/
  symm : Bool := true
  /-- `--input-copy-status duplex` -/
  duplex : Bool := false
deriving Repr, DecidableEq

/-- `tril_action` -/
def LoadOpts.tril (o : LoadOpts) : Sanitize.Tril :=
  if o.symm then (if o.duplex then .drop else .reflect) else .keep

def LoadOpts.sanitize (o : LoadOpts) : Sanitize.Opts :=
  { oneBased := o.oneBased, tril := o.tril, validate := true, sort := true,
    sidedChrom := true, sidedAnchor := true, sidedExtra := [true] }

/-- default field numbers of the COO schema (zero-based), `count` at `valueCol` (`--field count=N+1`) -/
def cooFields (valueName : String := "count") (valueCol : Nat := 2) : List (String × Nat) :=
  [("bin1_id", 0), ("bin2_id", 1), (valueName, valueCol)]

/-- default field numbers of the BG2 schema -/
def bg2Fields (valueName : String := "count") (valueCol : Nat := 6) : List (String × Nat) :=
  [("chrom1", 0), ("start1", 1), ("end1", 2), ("chrom2", 3), ("start2", 4), ("end2", 5), (valueName, valueCol)]

/-- one COO line → a pre-binned record carrying the value column `value` -/
def cooRec {α : Type} (fields : List (String × Nat)) (value : String) (row : List (Val α)) :
    Except Err Sanitize.PxRec :=
  match readFields fields row with
  | .error e => .error e
  | .ok p =>
    match fieldInt p "bin1_id", fieldInt p "bin2_id", fieldInt p value with
    | .ok a, .ok b, .ok v => .ok { b1 := a, b2 := b, u := [v] }
    | .error e, _, _ => .error e
    | _, .error e, _ => .error e
    | _, _, .error e => .error e

/-- `pd.Categorical(names, gs.contigs).codes`: position of the name among the contigs, `none` = −1 -/
def decodeChrom (contigs : List String) (name : String) : Option Nat := contigs.idxOf? name

/-- one BG2 line → a record: anchors are the two `start` fields; `end1`/`end2` ride along as sided
extra columns -/
def bg2Rec {α : Type} (contigs : List String) (fields : List (String × Nat)) (value : String)
    (row : List (Val α)) : Except Err Sanitize.Rec :=
  match readFields fields row with
  | .error e => .error e
  | .ok p =>
    match fieldStr p "chrom1", fieldInt p "start1", fieldInt p "end1",
          fieldStr p "chrom2", fieldInt p "start2", fieldInt p "end2", fieldInt p value with
    | .ok c1, .ok s1, .ok e1, .ok c2, .ok s2, .ok e2, .ok v =>
      .ok { c1 := decodeChrom contigs c1, p1 := s1, c2 := decodeChrom contigs c2, p2 := s2,
            x1 := [e1], x2 := [e2], u := [v] }
    | .error e, _, _, _, _, _, _ => .error e
    | _, .error e, _, _, _, _, _ => .error e
    | _, _, .error e, _, _, _, _ => .error e
    | _, _, _, .error e, _, _, _ => .error e
    | _, _, _, _, .error e, _, _ => .error e
    | _, _, _, _, _, .error e, _ => .error e
    | _, _, _, _, _, _, .error e => .error e

/-- `validate_pixels(n_bins, boundscheck=True, triucheck=symmetric_upper, dupcheck=True,
ensure_sorted=False)` as `create` chains it for every chunk of `cooler load` (C13's model), then the
records as stored pixels -/
def validateChunk (n : Nat) (symm : Bool) (keyvals : List ((Int × Int) × Int)) : Except Err Pixels :=
  match CreateSteps.validatePixels n symm true true true false (keyvals.map fun kv => (kv.1.1, kv.1.2, kv.2)) with
  | .error e => .error e
  | .ok _ => .ok (keyvals.map fun kv => ⟨kv.1.1.toNat, kv.1.2.toNat, kv.2⟩)

/-- one reader chunk of `cooler load -f coo`: parse, `sanitize_pixels`, validate -/
def cooChunk {α : Type} (o : LoadOpts) (n : Nat) (fields : List (String × Nat)) (value : String)
    (rows : List (List (Val α))) : Except Err Pixels :=
  match Bal.mapE (cooRec fields value) rows with
  | .error e => .error e
  | .ok recs =>
    match Sanitize.sanitizePixels o.sanitize recs with
    | .error e => .error e
    | .ok san => validateChunk n o.symm (san.map fun r => (r.key, r.val))

/-- `cooler load -f coo`: the stored pixel table of the value column `value`.  `chunks` are the
reader's chunks (`--chunksize` consecutive lines each); the merge passes of `create_from_unordered`
store `aggregateAll` (C06 `unordered_eq_aggregate`) -/
def loadCoo {α : Type} (o : LoadOpts) (n : Nat) (fields : List (String × Nat)) (value : String)
    (chunks : List (List (List (Val α)))) : Except Err Pixels :=
  match Bal.mapE (cooChunk o n fields value) chunks with
  | .error e => .error e
  | .ok tables => .ok (Unordered.aggregateAll tables)

/-- one reader chunk of `cooler load -f bg2`: parse, `sanitize_records(schema="bg2")`, validate -/
def bg2Chunk {α : Type} (o : LoadOpts) (bins : BinTable) (contigs : List String)
    (fields : List (String × Nat)) (value : String) (rows : List (List (Val α))) : Except Err Pixels :=
  match Bal.mapE (bg2Rec contigs fields value) rows with
  | .error e => .error e
  | .ok recs =>
    match Sanitize.sanitizeRecords bins o.sanitize recs with
    | .error e => .error e
    | .ok outs => validateChunk bins.length o.symm (outs.map fun x => (x.key, x.val))

def loadBg2 {α : Type} (o : LoadOpts) (bins : BinTable) (contigs : List String)
    (fields : List (String × Nat)) (value : String) (chunks : List (List (List (Val α)))) :
    Except Err Pixels :=
  match Bal.mapE (bg2Chunk o bins contigs fields value) chunks with
  | .error e => .error e
  | .ok tables => .ok (Unordered.aggregateAll tables)

/-- several value columns (`--field a=N --field b=M`): every column is aggregated independently over
the same keys, i.e. as if it were the only one -/
def loadCooFields {α : Type} (o : LoadOpts) (n : Nat) (fields : List (String × Nat)) (values : List String)
    (chunks : List (List (List (Val α)))) : Except Err (List (String × Pixels)) :=
  Bal.mapE (fun v => match loadCoo o n fields v chunks with
    | .error e => .error e
    | .ok t => .ok (v, t)) values

/-! ## 7. `cooler cload pairs` -/

/-- positional field numbers (zero-based: the command line's numbers minus one) and the value fields
of `--field name=N` -/
def pairsFields (c1 p1 c2 p2 : Nat) (values : List (String × Nat)) : List (String × Nat) :=
  [("chrom1", c1), ("pos1", p1), ("chrom2", c2), ("pos2", p2)] ++ values

/-- the optional value field of a pairs record -/
def fieldOpt {α : Type} (parsed : List (String × Val α)) : Option String → Except Err (List Int)
  | none => .ok []
  | some f => (fieldInt parsed f).map fun v => [v]

/-- one pairs line → a record; `value = none`: only the pair count is stored -/
def pairsRec {α : Type} (contigs : List String) (fields : List (String × Nat)) (value : Option String)
    (row : List (Val α)) : Except Err Sanitize.Rec :=
  match readFields fields row with
  | .error e => .error e
  | .ok p =>
    match fieldStr p "chrom1", fieldInt p "pos1", fieldStr p "chrom2", fieldInt p "pos2",
          fieldOpt p value with
    | .ok c1, .ok a1, .ok c2, .ok a2, .ok u =>
      .ok { c1 := decodeChrom contigs c1, p1 := a1, c2 := decodeChrom contigs c2, p2 := a2, u := u }
    | .error e, _, _, _, _ => .error e
    | _, .error e, _, _, _ => .error e
    | _, _, .error e, _, _ => .error e
    | _, _, _, .error e, _ => .error e
    | _, _, _, _, .error e => .error e

structure PairsOpts where
  zeroBased : Bool := false
  symm : Bool := true
  duplex : Bool := false
deriving Repr, DecidableEq

def PairsOpts.sanitize (o : PairsOpts) : Sanitize.Opts :=
  { oneBased := !o.zeroBased,
    tril := if o.symm then (if o.duplex then .drop else .reflect) else .keep,
    validate := true, sort := true, sidedChrom := true, sidedAnchor := true, sidedExtra := [] }

/-- one reader chunk: parse, `sanitize_records(schema="pairs", sort=True)`,
`aggregate_records(count=True, sort=False)` -/
def pairsChunk {α : Type} (o : PairsOpts) (bins : BinTable) (contigs : List String)
    (fields : List (String × Nat)) (value : Option String) (rows : List (List (Val α))) :
    Except Err (List Sanitize.Cell) :=
  match Bal.mapE (pairsRec contigs fields value) rows with
  | .error e => .error e
  | .ok recs =>
    match Sanitize.sanitizeRecords bins o.sanitize recs with
    | .error e => .error e
    | .ok outs => .ok (Sanitize.aggregateRecords false outs)

/-- a chunk's aggregated cells as a pixel table of the pair counts / of the summed value field -/
def cellsCount (cells : List Sanitize.Cell) : Pixels := cells.map fun c => ⟨c.k.1.toNat, c.k.2.toNat, c.n⟩
def cellsSum (cells : List Sanitize.Cell) : Pixels := cells.map fun c => ⟨c.k.1.toNat, c.k.2.toNat, c.s⟩

/-- `cooler cload pairs`: (`count` table, table of the summed value field).  `create_cooler(…,
ordered=False, boundscheck=False, dupcheck=False, triucheck=False)`: no validator is chained. -/
def cloadPairs {α : Type} (o : PairsOpts) (bins : BinTable) (contigs : List String)
    (fields : List (String × Nat)) (value : Option String) (chunks : List (List (List (Val α)))) :
    Except Err (Pixels × Pixels) :=
  match Bal.mapE (pairsChunk o bins contigs fields value) chunks with
  | .error e => .error e
  | .ok cs => .ok (Unordered.aggregateAll (cs.map cellsCount), Unordered.aggregateAll (cs.map cellsSum))

/-- L0 of the pairs binning: every record on known chromosomes, oriented, counted once in the pixel
`(binOf anchor₁, binOf anchor₂)` (C05 `specCounts` on all records at once) -/
def pairsSpec (o : PairsOpts) (bins : BinTable) (recs : List Sanitize.Rec) : Except Err (Pixels × Pixels) :=
  match Sanitize.specCounts bins o.sanitize recs with
  | .error e => .error e
  | .ok cells => .ok (cellsCount cells, cellsSum cells)

/-! ## 8. `parse_field_param` (characters) -/

inductive FErr
  | badParameter   -- `click.BadParameter`
  | typeError      -- `np.dtype(value)` does not understand the name
deriving DecidableEq, Repr

structure FieldSpec where
  name : List Char
  /-- zero-based column number (`int(N) - 1`) -/
  colnum : Option Nat
  dtype : Option (List Char)
  agg : Option (List Char)
deriving DecidableEq, Repr

/-- Python `s.split(c)` for a one-character separator: always at least one part -/
def splitOn (c : Char) : List Char → List (List Char)
  | [] => [[]]
  | x :: xs =>
    if x = c then [] :: splitOn c xs
    else
      match splitOn c xs with
      | [] => [[x]]
      | h :: t => (x :: h) :: t

def digitVal (c : Char) : Option Nat :=
  if '0' ≤ c ∧ c ≤ '9' then some (c.toNat - '0'.toNat) else none

/-- a non-empty string of ASCII digits as a number -/
def parseDigits : List Char → Option Nat
  | [] => none
  | cs => cs.foldl (fun acc c => acc.bind fun a => (digitVal c).map fun d => a * 10 + d) (some 0)

/-- `int(s)` for the spellings `[+-]?[0-9]+` (surrounding blanks and `_` separators, which Python
also accepts, are outside the model) -/
def pyInt : List Char → Option Int
  | '-' :: cs => (parseDigits cs).map fun n => -(n : Int)
  | '+' :: cs => (parseDigits cs).map fun n => (n : Int)
  | cs => (parseDigits cs).map fun n => (n : Int)

/-- the `name[=N]` prefix with `includes_colnum=True` -/
def parsePrefix (pre : List Char) : Except FErr (List Char × Option Nat) :=
  match splitOn '=' pre with
  | [name] => .ok (name, none)
  | [name, num] =>
    match pyInt num with
    | none => .error .badParameter                       -- "Not a number"
    | some k => if k - 1 < 0 then .error .badParameter    -- "Field numbers start at 1."
                else .ok (name, some (k - 1).toNat)
  | _ => .error .badParameter

/-- the `prop=value,…` items, left to right (a later item overrides an earlier one) -/
def parseProps (isDtype : List Char → Bool) (includesAgg : Bool) :
    List (List Char) → Option (List Char) → Option (List Char) →
      Except FErr (Option (List Char) × Option (List Char))
  | [], dt, ag => .ok (dt, ag)
  | item :: rest, dt, ag =>
    match splitOn '=' item with
    | [prop, value] =>
      if prop = "dtype".toList then
        (if isDtype value then parseProps isDtype includesAgg rest (some value) ag else .error .typeError)
      else if prop = "agg".toList ∧ includesAgg = true then parseProps isDtype includesAgg rest dt (some value)
      else .error .badParameter                          -- "Invalid property"
    | _ => .error .badParameter

/-- `parse_field_param(arg, includes_colnum, includes_agg)`; `isDtype` is the numpy primitive "is
`np.dtype(value)` defined" -/
def parseFieldParam (isDtype : List Char → Bool) (includesColnum includesAgg : Bool) (arg : List Char) :
    Except FErr FieldSpec :=
  match splitOn ':' arg with
  | [] => .error .badParameter
  | pre :: more =>
    match (match more with
           | [] => some none
           | [props] => some (some props)
           | _ => none) with
    | none => .error .badParameter
    | some props =>
      match (if includesColnum then parsePrefix pre else .ok (pre, none)) with
      | .error e => .error e
      | .ok (name, colnum) =>
        match props with
        | none => .ok ⟨name, colnum, none, none⟩
        | some ps =>
          match parseProps isDtype includesAgg (splitOn ',' ps) none none with
          | .error e => .error e
          | .ok (dt, ag) => .ok ⟨name, colnum, dt, ag⟩

/-! ## 9. resolution specs of `cooler zoomify -r` -/

/-- `niceprog(start)`: `start · (1, 2, 5) · 10^k` -/
def niceAt (start k : Nat) : Nat := start * (match k % 3 with | 0 => 1 | 1 => 2 | _ => 5) * 10 ^ (k / 3)

/-- `geomprog(start, 2)` -/
def binaryAt (start k : Nat) : Nat := start * 2 ^ k

/-- `preferred_sequence(start, stop, style)`: the terms `≤ stop` (none when `start > stop`).  Every
step at least doubles, so for `start ≥ 1` the terms `≤ stop` have index `≤ log₂ stop`. -/
def preferredSequence (start stop : Nat) (nice : Bool) : List Nat :=
  ((List.range (Nat.log2 stop + 2)).map (if nice then niceAt start else binaryAt start)).takeWhile (· ≤ stop)

inductive ResItem
  | n | b | fourDN
  | kn (k : Nat)
  | kb (k : Nat)
  | lit (k : Nat)
deriving DecidableEq, Repr

/-- one comma-separated item, already stripped and lower-cased; the branches in the order of the code
(`int()` of a non-number is a `ValueError`) -/
def parseResItem (s : List Char) : Except Err ResItem :=
  if s = ['n'] then .ok .n
  else if s = ['b'] then .ok .b
  else if s = ['4', 'd', 'n'] then .ok .fourDN
  else if s.getLast? = some 'n' then
    match ((splitOn 'n' s).head?.bind parseDigits) with
    | some k => .ok (.kn k)
    | none => .error .value
  else if s.getLast? = some 'b' then
    match ((splitOn 'b' s).head?.bind parseDigits) with
    | some k => .ok (.kb k)
    | none => .error .value
  else
    match parseDigits s with
    | some k => .ok (.lit k)
    | none => .error .value

def expandItem (curres maxres : Nat) : ResItem → List Nat
  | .n => preferredSequence curres maxres true
  | .b => preferredSequence curres maxres false
  | .fourDN => [1000, 2000] ++ preferredSequence 5000 maxres true
  | .kn k => preferredSequence k maxres true
  | .kb k => preferredSequence k maxres false
  | .lit k => [k]

/-- the `resolutions` list handed to `zoomify_cooler` -/
def expandResolutionSpec (curres maxres : Nat) (items : List (List Char)) : Except Err (List Nat) :=
  match Bal.mapE parseResItem items with
  | .error e => .error e
  | .ok its => .ok (its.flatMap (expandItem curres maxres))

/-- `maxres = int(ceil(genome_length / 256))` -/
def maxRes (genomeLength : Nat) : Nat := (genomeLength + 255) / 256

/-- the zoom levels present in the output: the base resolution and every requested one -/
def zoomLevels (curres : Nat) (resolutions : List Nat) : List Nat :=
  sortNat ((curres :: resolutions).eraseDups)

end Cooler.TextIO
