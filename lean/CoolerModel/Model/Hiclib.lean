import CoolerModel.Model.Sanitize
/-!
Model of `cooler.create.HDF5Aggregator` (`create/_ingest.py`), the hiclib-style HDF5 read-pair binner
behind `cooler cload hiclib`.  Property C05.

Input: four equal-length integer columns `chrms1, cuts1, chrms2, cuts2` (chromosome ids = positions
in the chromsizes table, zero-based cut positions), documented to be sorted by `(chrms1, cuts1)`.

The model is of the code **as repaired** (fixes D29, D31, D30 of `known_findings.json`):

* `_index_chroms`: maximal runs of `chrms1` (`rlencode`), `ValueError` when an id heads two runs;
* `aggregate(chrom)`: the `while hi < chrom_hi` loop.  Its state `(lo, datasets[lo:chrom_hi])` is the
  pair `(lo, rem)` here; one turn takes the tentative last record `rem[min(chunksize, len) - 1]`,
  looks up the END of the bin that contains it (a search over the ABSOLUTE starts of the whole table,
  then the POSITIONAL lookup `bins["end"].values[bin_id]`; `bin_id = -1`, for a negative absolute
  position, is numpy's last element), moves `hi` to `bisect_left(cuts1, bin_end, lo, chrom_hi)` (= `lo +`
  the number of remaining records with `cut < bin_end`, the column being sorted), falls back to
  `chrom_hi` when that is `lo`, then bins the chunk: `BadInputError` when a first cut is outside its
  chromosome; records whose second chromosome id is not in `0 … n-1` are dropped; `BadInputError` when
  a second cut of a kept record is outside its chromosome; `ValueError` when `abspos1 > abspos2` for a
  kept record; else `groupby(bin1_id, bin2_id).count()`;
* records of a first chromosome id that is not in the table are never visited (dropped).

The definitions `…Legacy…` at the end are the same loader BEFORE the three fixes (no validation of cuts,
second ids used as numpy indices of the `n+1`-entry tables, bin end looked up by row LABEL); the theorems
`C05.hiclibLegacy_…` show what they did.

Conventions: `chrom_abspos[c]` = total length of chromosomes `< c` (`chromAbs`); `chrom_binoffset[c]`
= number of bins on chromosomes `< c` (`chromOff`; every chromosome of the table has a bin);
`gs.binsize = getBinsize bins`.  `chunksize ≥ 1` (`rlencode` raises `ValueError` for 0).
-/
namespace Cooler.Hiclib
open Cooler Cooler.Sanitize

/-- one read pair: chromosome ids as stored (any integer), zero-based cut positions -/
structure HRec where
  c1 : Int
  p1 : Int
  c2 : Int
  p2 : Int
deriving DecidableEq, Repr, Inhabited

/-! ### `_index_chroms` -/

/-- maximal runs `(value, start, stop)` of a column laid out from position `pos` -/
def runsFrom : Nat → List Int → List (Int × Nat × Nat)
  | _, [] => []
  | pos, x :: rest =>
    match runsFrom (pos + 1) rest with
    | [] => [(x, pos, pos + 1)]
    | (y, s, e) :: more => if x = y then (y, pos, e) :: more else (x, pos, pos + 1) :: (y, s, e) :: more

/-- `_index_chroms`: `ValueError` when `len(set(values)) != len(values)` -/
def indexChroms (recs : List HRec) : Except Err (List (Int × Nat × Nat)) :=
  let rs := runsFrom 0 (recs.map HRec.c1)
  if (rs.map (·.1)).Nodup then .ok rs else .error .value

/-- `self.partition.get(cid)` -/
def partGet (part : List (Int × Nat × Nat)) (cid : Int) : Option (Nat × Nat) :=
  (part.find? fun t => decide (t.1 = cid)).map (·.2)

/-! ### the tables of `GenomeSegmentation` -/

/-- `chrom_abspos[c]`: total length of the chromosomes before `c` -/
def chromAbs (bins : BinTable) : Nat → Nat
  | 0 => 0
  | c + 1 => chromAbs bins c + chromLen bins c

/-- `start_abspos`: absolute start of every bin of the table -/
def startAbs (bins : BinTable) : List Nat := bins.map fun b => chromAbs bins b.chrom + b.start

/-- numpy indexing of an `(n+1)`-entry table by a stored id: `0..n` as is, `-(n+1)..-1` wrap around,
anything else `IndexError` -/
def npIdx (n : Nat) (i : Int) : Except Err Nat :=
  if 0 ≤ i ∧ i ≤ (n : Int) then .ok i.toNat
  else if -((n : Int) + 1) ≤ i ∧ i < 0 then .ok ((n : Int) + 1 + i).toNat
  else .error .index

/-- `np.searchsorted(start_abspos, chrom_abspos[k] + pos, side="right") - 1` -/
def absBin (bins : BinTable) (k : Nat) (pos : Int) : Int :=
  (ssRightI (startAbs bins) ((chromAbs bins k : Int) + pos) : Int) - 1

/-- bin id of one read side as `aggregate` computes it (table index `k` of its chromosome) -/
def hbin (bins : BinTable) (bs : Option Nat) (k : Nat) (pos : Int) : Int :=
  match bs with
  | some b => assignFixed (chromOff bins k) b pos
  | none => absBin bins k pos

/-- `bins["end"].values[bin_id]` for the bin found for cut `pos` of chromosome `cid`: positional, and
`bin_id = -1` (a negative absolute position) is the last row, as numpy indexes -/
def binEnd (bins : BinTable) (cid : Nat) (pos : Int) : Except Err Int :=
  let id := absBin bins cid pos
  match (if id < 0 then bins.getLast? else bins[id.toNat]?) with
  | some b => .ok (b.stop : Int)
  | none => .error .index

/-! ### one chunk -/

/-- a cut outside chromosome `k`: `cut < 0` or `cut >= chromsizes[k]` -/
def cutOutside (bins : BinTable) (k : Nat) (p : Int) : Bool :=
  decide (p < 0) || decide ((chromLen bins k : Int) ≤ p)

/-- the second side is on a chromosome of the table -/
def listed2 (n : Nat) (r : HRec) : Bool := decide (0 ≤ r.c2) && decide (r.c2 < (n : Int))

/-- a record with the table indices of its two chromosomes -/
def withIdx (r : HRec) : HRec × Nat × Nat := (r, r.c1.toNat, r.c2.toNat)

def isLowerAbs (bins : BinTable) (x : HRec × Nat × Nat) : Bool :=
  decide ((chromAbs bins x.2.1 : Int) + x.1.p1 > (chromAbs bins x.2.2 : Int) + x.1.p2)

def keyH (bins : BinTable) (bs : Option Nat) (x : HRec × Nat × Nat) : Key × Int :=
  ((hbin bins bs x.2.1 x.1.p1, hbin bins bs x.2.2 x.1.p2), 0)

/-- the body of the loop after `hi` is fixed (every record of the chunk has `chrms1 = cid`, a table index):
first cuts validated, records with an unlisted second side dropped, second cuts validated,
lower-triangle test, bin ids, `groupby(["bin1_id","bin2_id"]).count()` -/
def procChunk (bins : BinTable) (n : Nat) (bs : Option Nat) (rs : List HRec) : Except Err (List Cell) :=
  if rs.any (fun r => cutOutside bins r.c1.toNat r.p1) then .error .badInput
  else
    let kept := rs.filter (listed2 n)
    if kept.any (fun r => cutOutside bins r.c2.toNat r.p2) then .error .badInput
    else if (kept.map withIdx).any (isLowerAbs bins) then .error .value
    else .ok (groupCells ((kept.map withIdx).map (keyH bins bs)))

/-! ### the chunk loop -/

/-- size of the chunk cut from `rem` once the bin end is known: `bisect_left(cuts1, bin_end, lo, chrom_hi) - lo`,
or everything that is left when that is 0 (`if lo == hi: hi = chrom_hi`) -/
def cutAt (bend : Int) (rem : List HRec) : Nat :=
  let k := rem.countP fun r => decide (r.p1 < bend)
  if k = 0 then rem.length else k

/-- `while hi < chrom_hi: …` with `lo` and the not yet consumed records `rem = datasets[lo:chrom_hi]`;
yields `((lo, hi), proc chunk)` per turn.  `fuel` ≥ `rem.length` turns are enough (`aggLoop_eq_seq`). -/
def aggLoop {β : Type} (binEndOf : Int → Except Err Int) (proc : List HRec → Except Err β) (cs : Nat) :
    Nat → Nat → List HRec → Except Err (List ((Nat × Nat) × β))
  | 0, _, _ => .ok []
  | fuel + 1, lo, rem =>
    match rem[min cs rem.length - 1]? with
    | none => .ok []
    | some last =>
      match binEndOf last.p1 with
      | .error e => .error e
      | .ok bend =>
        let k := cutAt bend rem
        match proc (rem.take k) with
        | .error e => .error e
        | .ok out =>
          match aggLoop binEndOf proc cs fuel (lo + k) (rem.drop k) with
          | .error e => .error e
          | .ok more => .ok (((lo, lo + k), out) :: more)

/-- the chunk boundaries alone (what the loop would do if no chunk were rejected) -/
def chunkBounds (binEndOf : Int → Except Err Int) (cs lo : Nat) (rem : List HRec) :
    Except Err (List (Nat × Nat)) :=
  match aggLoop binEndOf (fun _ => (.ok () : Except Err Unit)) cs rem.length lo rem with
  | .error e => .error e
  | .ok l => .ok (l.map (·.1))

/-- `aggregate(chrom)`; `be cid pos` = the bin-end lookup for cut `pos` of chromosome `cid`, `proc` = the
loop body -/
def aggregate (be : Nat → Int → Except Err Int) (proc : List HRec → Except Err (List Cell)) (cs : Nat)
    (recs : List HRec) (part : List (Int × Nat × Nat)) (cid : Nat) :
    Except Err (List ((Nat × Nat) × List Cell)) :=
  match partGet part (cid : Int) with
  | none => .ok []
  | some (lo, hi) => aggLoop (be cid) proc cs (hi - lo) lo ((recs.drop lo).take (hi - lo))

/-- `for chrom in contigs: for df in f(chrom): yield df` collected; the first error wins -/
def streamOver {α : Type} (f : Nat → Except Err (List α)) : List Nat → Except Err (List α)
  | [] => .ok []
  | c :: rest =>
    match f c with
    | .error e => .error e
    | .ok a =>
      match streamOver f rest with
      | .error e => .error e
      | .ok b => .ok (a ++ b)

/-- `list(HDF5Aggregator(h5, chromsizes, bins, chunksize))` with the `(lo, hi)` of every chunk;
`n` = number of chromosomes of the table -/
def hiclibChunksWith (be : Nat → Int → Except Err Int) (proc : List HRec → Except Err (List Cell))
    (n cs : Nat) (recs : List HRec) : Except Err (List ((Nat × Nat) × List Cell)) :=
  if cs = 0 ∧ recs ≠ [] then .error .value
  else match indexChroms recs with
    | .error e => .error e
    | .ok part => streamOver (aggregate be proc cs recs part) (List.range n)

def hiclibChunks (bins : BinTable) (n cs : Nat) (recs : List HRec) :
    Except Err (List ((Nat × Nat) × List Cell)) :=
  hiclibChunksWith (binEnd bins) (procChunk bins n (getBinsize bins)) n cs recs

def hiclibStream (bins : BinTable) (n cs : Nat) (recs : List HRec) : Except Err (List (List Cell)) :=
  match hiclibChunks bins n cs recs with
  | .error e => .error e
  | .ok l => .ok (l.map (·.2))

def hiclibBounds (bins : BinTable) (n cs : Nat) (recs : List HRec) : Except Err (List (Nat × Nat)) :=
  match hiclibChunks bins n cs recs with
  | .error e => .error e
  | .ok l => .ok (l.map (·.1))

/-! ### L0 — what the property promises -/

/-- an id names a chromosome of the table iff it is in `0..n-1` -/
def cidOf (n : Nat) (c : Int) : Option Nat := if 0 ≤ c ∧ c < (n : Int) then some c.toNat else none

def toRec (n : Nat) (r : HRec) : Rec := ⟨cidOf n r.c1, r.p1, cidOf n r.c2, r.p2, [], [], []⟩

/-- C05's specification for this loader: records on unlisted chromosomes dropped, a position outside its
chromosome or a lower-triangle record rejected, otherwise one unit per record in the pixel
`(binOf anchor₁, binOf anchor₂)` -/
def hiclibSpec (bins : BinTable) (n : Nat) (recs : List HRec) : Except Err (List Cell) :=
  specCounts bins { tril := .raise } (recs.map (toRec n))

/-- the pixel row a record belongs to (L0) -/
def bin1Of (bins : BinTable) (n : Nat) (r : HRec) : Option Int :=
  match cidOf n r.c1 with
  | some c => binOf bins c r.p1
  | none => none

/-! ### contract of the chunk boundaries (free choice of the loop: any boundaries that cover the
records exactly and never separate two records of the same pixel row give the same stream) -/

/-- consecutive non-empty `[lo, hi)` from `lo` up to exactly `stop` -/
def chainOK : Nat → List (Nat × Nat) → Nat → Bool
  | lo, [], stop => decide (lo = stop)
  | lo, (a, b) :: rest, stop => decide (a = lo) && decide (a < b) && chainOK b rest stop

def sliceOf (recs : List HRec) (b : Nat × Nat) : List HRec := (recs.drop b.1).take (b.2 - b.1)

/-- no record of `P` shares its pixel row with a record of a later chunk -/
def sepRows (bins : BinTable) (n : Nat) : List (List HRec) → Bool
  | [] => true
  | P :: rest =>
    (P.all fun r => rest.all fun Q => Q.all fun s => !decide (bin1Of bins n r = bin1Of bins n s)) &&
      sepRows bins n rest

def chunksOK (bins : BinTable) (n : Nat) (recs : List HRec) (bounds : List (Nat × Nat)) : Bool :=
  chainOK 0 bounds recs.length && sepRows bins n (bounds.map (sliceOf recs))

/-! ### well-formedness of the input, as the theorems use it -/

/-- the two anchors of a record whose ids are table positions -/
def anchorH (r : HRec) : Anchor := ⟨r.c1.toNat, r.p1, r.c2.toNat, r.p2, 0⟩

/-- both ids name chromosomes of the table and both cuts lie inside them -/
def Good (bins : BinTable) (n : Nat) (r : HRec) : Prop :=
  0 ≤ r.c1 ∧ r.c1 < (n : Int) ∧ 0 ≤ r.c2 ∧ r.c2 < (n : Int) ∧ (anchorH r).inside bins

instance (bins : BinTable) (n : Nat) (r : HRec) : Decidable (Good bins n r) := by
  unfold Good; exact inferInstance

/-- sorted on the first axis: by `(chrms1, cuts1)` -/
def SortedH (recs : List HRec) : Prop :=
  recs.Pairwise fun a b => a.c1 < b.c1 ∨ (a.c1 = b.c1 ∧ a.p1 ≤ b.p1)

instance (recs : List HRec) : Decidable (SortedH recs) := by unfold SortedH; exact inferInstance

/-- every id's occurrences in the first column are contiguous (what `_index_chroms` accepts) -/
def BlockSorted : List Int → Prop
  | [] => True
  | x :: rest => BlockSorted rest ∧ (rest.head? = some x ∨ x ∉ rest)

instance decBlockSorted : (xs : List Int) → Decidable (BlockSorted xs)
  | [] => isTrue trivial
  | x :: rest => by
    unfold BlockSorted
    have := decBlockSorted rest
    exact inferInstance

/-- signature of the finding "positions are not validated": some record on known chromosomes has a cut
outside its chromosome -/
def outside (bins : BinTable) (n : Nat) (recs : List HRec) : Bool :=
  (anchors { tril := .raise } (recs.map (toRec n))).any fun a => !decide (a.inside bins)

/-- some record has a side on an id that is not in the table -/
def unlisted (n : Nat) (recs : List HRec) : Bool :=
  recs.any fun r => (cidOf n r.c1).isNone || (cidOf n r.c2).isNone

/-! ### the loader before the fixes D29, D31, D30 (kept for the theorems `C05.hiclibLegacy_…`) -/

/-- pandas' default row labels `0 … n-1` -/
def rangeLabels (bins : BinTable) : List Int := (List.range bins.length).map Int.ofNat

/-- `bins["end"][bin_id]` before fix D31, for a frame whose rows carry the integer LABELS `labels`: a
lookup by label — no row with that label is a `KeyError`, several rows give a Series and the comparison
inside `bisect_left` raises `ValueError` -/
def binEndLegacyL (bins : BinTable) (labels : List Int) (cid : Nat) (pos : Int) : Except Err Int :=
  let id := absBin bins cid pos
  match (labels.zip bins).filter fun lb => decide (lb.1 = id) with
  | [] => .error .key
  | [lb] => .ok (lb.2.stop : Int)
  | _ => .error .value

/-- before fix D30: the two table indices of every record (`chrom_abspos[h5pairs[C][lo:hi]]`, numpy
indexing of `n+1`-entry tables) -/
def resolveLegacy (n : Nat) : List HRec → Except Err (List (HRec × Nat × Nat))
  | [] => .ok []
  | r :: rest =>
    match npIdx n r.c1, npIdx n r.c2 with
    | .ok k1, .ok k2 =>
      (match resolveLegacy n rest with
       | .ok l => .ok ((r, k1, k2) :: l)
       | .error e => .error e)
    | _, _ => .error .index

/-- the loop body before the fixes D29 and D30: no cut is validated, no record dropped -/
def procChunkLegacy (bins : BinTable) (n : Nat) (bs : Option Nat) (rs : List HRec) : Except Err (List Cell) :=
  match resolveLegacy n rs with
  | .error e => .error e
  | .ok xs =>
    if xs.any (isLowerAbs bins) then .error .value
    else .ok (groupCells (xs.map (keyH bins bs)))

/-- the loader before the three fixes, the bin table presented with the row labels `labels` -/
def hiclibChunksLegacyL (bins : BinTable) (labels : List Int) (n cs : Nat) (recs : List HRec) :
    Except Err (List ((Nat × Nat) × List Cell)) :=
  hiclibChunksWith (binEndLegacyL bins labels) (procChunkLegacy bins n (getBinsize bins)) n cs recs

def hiclibStreamLegacyL (bins : BinTable) (labels : List Int) (n cs : Nat) (recs : List HRec) :
    Except Err (List (List Cell)) :=
  match hiclibChunksLegacyL bins labels n cs recs with
  | .error e => .error e
  | .ok l => .ok (l.map (·.2))

/-- … with pandas' default row labels (what the command line always passed) -/
def hiclibStreamLegacy (bins : BinTable) (n cs : Nat) (recs : List HRec) : Except Err (List (List Cell)) :=
  hiclibStreamLegacyL bins (rangeLabels bins) n cs recs

end Cooler.Hiclib
