import CoolerModel.Model.Merge
/-!
Model of `create_from_unordered` (property C06): a sort pass writes every (validated, key-sorted)
chunk to a temporary cooler; then one merge pass, or — when there are more chunks than `max_merge` —
a first pass merging consecutive groups of chunks delimited by `edges` and a final pass merging the
group results.  `edges` (`np.linspace(0, n, max(int(sqrt n), 2), dtype=int)`) is a free unit.
-/
namespace Cooler.Unordered
open Cooler Cooler.Merge

/-- consecutive groups `chunks[e_k : e_{k+1}]` -/
def groupsByEdges (chunks : List Pixels) : List Nat → List (List Pixels)
  | [] => []
  | [_] => []
  | a :: b :: rest => ((chunks.drop a).take (b - a)) :: groupsByEdges chunks (b :: rest)

/-- contract of the edges: from 0 to the number of chunks, non-decreasing (an empty group is merged
into an empty temporary cooler, which is harmless) with at least one group -/
def edgesChain : Nat → List Nat → Option Nat
  | a, [] => some a
  | a, b :: rest => if a ≤ b then edgesChain b rest else none

def validEdges (n : Nat) (edges : List Nat) : Bool :=
  match edges with
  | [] => false
  | e0 :: rest => decide (e0 = 0) && !rest.isEmpty && (edgesChain e0 rest == some n)

/-- the sort pass: what the validator with `ensure_sorted` leaves in each temporary cooler -/
def sortPass (chunks : List Pixels) : List Pixels := chunks.map groupSum

/-- the stored pixel table of the result -/
def createFromUnordered (chunks : List Pixels) (edges : Option (List Nat)) : Pixels :=
  match edges with
  | none => mergeSpec chunks
  | some es => mergeSpec ((groupsByEdges chunks es).map mergeSpec)

/-- L0: sum all records per pixel at once -/
def aggregateAll (chunks : List Pixels) : Pixels := groupSum chunks.flatten

end Cooler.Unordered
